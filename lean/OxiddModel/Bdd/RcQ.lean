import OxiddModel.Bdd.RcS
import OxiddModel.Bdd.ThresholdQ

/-!
# The counter model for `quant`, `apply_quant`, `restrict`, `substitute`, `pick_cube_dd(_set)`

`RcS.lean` makes every `clone_edge` / `drop_edge` / `EdgeDropGuard` of `apply_not`, `apply_bin`,
`apply_ite` a step of the model. This file does the same for the remaining recursive operations of
`crates/oxidd-rules-bdd/src/simple/apply_rec.rs`:

* `quantR` = `quant::<Q>`: the two recursive results are `EdgeDropGuard`s (`rec.binary`); in the
  branch `flevel == vlevel` they are only *borrowed* by `apply_bin::<Q>` and dropped at the end of
  the scope — after the cache add on success, by the `?` on OutOfMemory; in the other branch
  `into_edge()` hands them to `reduce`;
* `applyQuantR` = `apply_quant::<Q, OP>`: `Operation::Done(h)` is an **owned** edge wrapped in a
  guard and lent to `quant`; `Operation::Not(h)`: the result of `apply_not(..)?` is wrapped in a
  guard and lent to `quant`; the early exits to `apply_bin::<OP>`; the recursion `rec.ternary`;
* `restrictR` = `restrict`: the tail-recursive `inner` walk only borrows (`restrictInnerS` of
  `RestrictS.lean`), `InnerResult::Done` carries one `clone_edge`; `InnerResult::Rec` continues
  with cache query, `rec.binary`, `reduce`, cache add;
* `prepLoopR` = the second loop of `substitute_prepare`: the vector holds **counted** edges —
  `clone_edge` of a replacement, or the edge returned by `get_or_insert` for a variable node; the
  `EdgeVecDropGuard` drops what was collected when `get_or_insert(..)?` fails;
  `substituteR` = `substitute` (`rec.subst`, `apply_ite` on borrowed guards, `add_extended`);
  `substituteEdgeR` = `substitute_edge`: prepare, substitute, drop the vector;
* `pickCubeDDR`, `pickCubeDDSetR` = the `inner` functions of `pick_cube_dd_edge` /
  `pick_cube_dd_set_edge`: the recursive result is guarded until `get_terminal(False)?`, then
  `get_or_insert(InnerNode::new(level, children))` **without** the `t == e` test of `reduce`
  (`getOrInsertR`).

Forgetting the counters these are `quantC`, `applyQuantC`, `restrictC`, `prepLoopC`, `substituteC`,
`substituteEdgeC` of `ThresholdQ.lean` (`RcQLemmas.lean`).

`applyQuantLeak` is the seeded defect `R4-C14-applyquant-collapsed-operand-leak`: the collapsed
operand is held as a plain edge across `quant(..)?`.
-/
namespace OxiddModel.Bdd.Rc
open OxiddModel.Bdd OxiddModel.Bdd.BDD OxiddModel.Bdd.Refine

/-! ## sequencing with owned temporaries -/

/-- `apply_cache().add(manager, key, &[..], res.borrowed())`: the entry holds a borrowed edge -/
def addR (p : Policy) (r : RSt) (key : Key) (h : Edge) : RSt :=
  { r with st := ⟨r.st.store, p.add r.st.tick r.st.cache key h, r.st.tick + 1⟩ }

/-- `let (t, e) = rec.binary/ternary/subst(op, manager, a, b)?;` with the `SequentialRecursor`
(`let ra = EdgeDropGuard::new(manager, op(a)?); let rb = EdgeDropGuard::new(manager, op(b)?);`):
when the second call fails the guard of the first result drops it. The continuation `k` owns both
results. -/
def pairR (c1 c0 : RSt → Option Edge × RSt) (k : Edge → Edge → RSt → Option Edge × RSt)
    (r : RSt) : Option Edge × RSt :=
  match c1 r with
  | (none, r1) => (none, r1)
  | (some t, r1) =>
    match c0 r1 with
    | (none, r0) => (none, dropEdge r0 t)
    | (some e, r0) => k t e r0

/-- `let res = op(manager, rec, .., t.borrowed(), e.borrowed())?; cache.add(key, res.borrowed());
Ok(res)` where `t`, `e` are `EdgeDropGuard`s that live to the end of the function: they are
dropped after the cache add on success and by the `?` on OutOfMemory (locals are dropped in
reverse order of declaration: `e`, then `t`). -/
def combR (p : Policy) (key : Key) (c : RSt → Option Edge × RSt) (t e : Edge) (r0 : RSt) :
    Option Edge × RSt :=
  match c r0 with
  | (none, r2) => (none, dropEdge (dropEdge r2 e) t)
  | (some h, r2) => (some h, dropEdge (dropEdge (addR p r2 key h) e) t)

/-- `let x = EdgeDropGuard::new(manager, x); return c(.., x.borrowed(), ..);` — the guard is
dropped when the function returns, with `Ok` or with `Err` -/
def guardR (x : Edge) (c : RSt → Option Edge × RSt) (r : RSt) : Option Edge × RSt :=
  ((c r).1, dropEdge (c r).2 x)

/-! ## `quant::<Q>` -/

/-- `quant::<Q>` (operands borrowed, result owned) -/
def quantR (cap : Nat) (p : Policy) (q : Quant) (af : Nat) :
    Nat → RSt → Edge → Edge → Option Edge × RSt
  | 0, r, f, _ => (some f, cloneEdge r f)
  | fuel+1, r, f, vars =>
    match f with
    | .term _ =>
      -- `Ok(manager.clone_edge(&f))` resp. `manager.get_terminal(False)`
      if q ≠ .unique || vars.isTerm then (some f, cloneEdge r f) else (some (.term false), r)
    | .inner i =>
      match r.st.store.get? i with
      | none => (some f, cloneEdge r f) -- dangling edge (excluded by the invariant)
      | some fn =>
        let vars := if q ≠ .unique then r.st.store.setPopS af vars fn.level else vars
        match vars with
        | .term _ => (some f, cloneEdge r f)
        | .inner j =>
          match r.st.store.get? j with
          | none => (some f, cloneEdge r f)
          | some vn =>
            if q = .unique ∧ vn.level < fn.level then (some (.term false), r) else
            match p.get r.st.tick r.st.cache (encKey (quantKey q f vars)) with
            | some h => (some h, cloneEdge r.tickd h) -- `get` returns a clone
            | none =>
              let vt := if vn.level = fn.level then vn.t else vars
              pairR (fun s => quantR cap p q af fuel s fn.t vt)
                (fun s => quantR cap p q af fuel s fn.e vt)
                (fun t e r0 =>
                  if fn.level = vn.level then
                    combR p (encKey (quantKey q f vars)) (fun s => applyR cap p q.op af s t e) t e r0
                  else
                    finishR cap p r0 (encKey (quantKey q f vars)) fn.level t e) r.tickd

/-! ## `restrict` -/

/-- `restrict` (operands borrowed, result owned) -/
def restrictR (cap : Nat) (p : Policy) : Nat → RSt → Edge → Edge → Option Edge × RSt
  | 0, r, f, _ => (some f, cloneEdge r f)
  | fuel+1, r, f, vars =>
    match restrictInnerS r.st.store (fuel + 1) f vars with
    | .done x => (some x, cloneEdge r x) -- `InnerResult::Done(manager.clone_edge(..))`
    | .recur f' vars' =>
      match p.get r.st.tick r.st.cache (encKey (restrictKey f' vars')) with
      | some h => (some h, cloneEdge r.tickd h)
      | none =>
        match f' with
        | .term _ => (some f', cloneEdge r.tickd f')
        | .inner i =>
          match r.st.store.get? i with
          | none => (some f', cloneEdge r.tickd f')
          | some fn =>
            forkR cap p (encKey (restrictKey f' vars')) fn.level
              (fun s => restrictR cap p fuel s fn.t vars')
              (fun s => restrictR cap p fuel s fn.e vars') r.tickd

/-! ## `apply_quant::<Q, OP>` -/

/-- the part of `apply_quant` after the terminal cases (`f`, `g` are the operands as normalised by
`terminal_bin`) -/
def aqBodyR (cap : Nat) (p : Policy) (q : Quant) (op : Op) (af : Nat)
    (rec : RSt → Edge → Edge → Edge → Option Edge × RSt) (r : RSt) (f g vars : Edge) :
    Option Edge × RSt :=
  match f, g with
  | .inner i, .inner k =>
    match r.st.store.get? i, r.st.store.get? k with
    | some fn, some gn =>
      let minl := min fn.level gn.level
      let vars := if q ≠ .unique then r.st.store.setPopS af vars minl else vars
      match vars with
      | .term _ => applyR cap p op af r f g -- empty variable set: `apply_bin::<OP>`
      | .inner j =>
        match r.st.store.get? j with
        | none => (some f, cloneEdge r f)
        | some vn =>
          if vn.level < minl ∧ q = .unique then (some (.term false), r) else
          if minl > vn.level then applyR cap p op af r f g
          else
          match p.get r.st.tick r.st.cache (encKey (applyQuantKey q op f g vars)) with
          | some h => (some h, cloneEdge r.tickd h)
          | none =>
            let vt := if vn.level = minl then vn.t else vars
            let fte := if fn.level ≤ gn.level then (fn.t, fn.e) else (f, f)
            let gte := if gn.level ≤ fn.level then (gn.t, gn.e) else (g, g)
            pairR (fun s => rec s fte.1 gte.1 vt) (fun s => rec s fte.2 gte.2 vt)
              (fun t e r0 =>
                if minl = vn.level then
                  combR p (encKey (applyQuantKey q op f g vars))
                    (fun s => applyR cap p q.op af s t e) t e r0
                else
                  finishR cap p r0 (encKey (applyQuantKey q op f g vars)) minl t e) r.tickd
    | _, _ => (some f, cloneEdge r f)
  | _, _ => (some f, cloneEdge r f)

/-- `apply_quant::<Q, OP>` (operands borrowed, result owned).
`Operation::Not(h)`: `let inverse = EdgeDropGuard::new(manager, apply_not(manager, rec, h)?);
return quant(.., inverse.borrowed(), vars);`.
`Operation::Done(h)`: `h` is owned (`clone_edge` / `get_terminal` inside `terminal_bin`);
`let h = EdgeDropGuard::new(manager, h); return quant(.., h.borrowed(), vars);`. -/
def applyQuantR (cap : Nat) (p : Policy) (q : Quant) (op : Op) (af : Nat) :
    Nat → RSt → Edge → Edge → Edge → Option Edge × RSt
  | 0, r, f, _, _ => (some f, cloneEdge r f)
  | fuel+1, r, f, g, vars =>
    match terminalBinS op f g with
    | .binary _ o1 o2 => aqBodyR cap p q op af (applyQuantR cap p q op af fuel) r o1 o2 vars
    | .notOf h =>
      match notR cap p af r h with
      | (none, r1) => (none, r1)
      | (some inv, r1) => guardR inv (fun s => quantR cap p q af af s inv vars) r1
    | .done h => guardR h (fun s => quantR cap p q af af s h vars) (cloneEdge r h)

/-- **the seeded defect** `R4-C14-applyquant-collapsed-operand-leak`: the collapsed operand is a
plain edge, `let res = quant(.., h.borrowed(), vars)?; manager.drop_edge(h); return Ok(res);` —
when `quant` fails, `h` is never dropped -/
def leakGuardR (x : Edge) (c : RSt → Option Edge × RSt) (r : RSt) : Option Edge × RSt :=
  match c r with
  | (none, r') => (none, r')
  | (some y, r') => (some y, dropEdge r' x)

def applyQuantLeak (cap : Nat) (p : Policy) (q : Quant) (op : Op) (af : Nat) :
    Nat → RSt → Edge → Edge → Edge → Option Edge × RSt
  | 0, r, f, _, _ => (some f, cloneEdge r f)
  | fuel+1, r, f, g, vars =>
    match terminalBinS op f g with
    | .binary _ o1 o2 => aqBodyR cap p q op af (applyQuantLeak cap p q op af fuel) r o1 o2 vars
    | .notOf h =>
      match notR cap p af r h with
      | (none, r1) => (none, r1)
      | (some inv, r1) => leakGuardR inv (fun s => quantR cap p q af af s inv vars) r1
    | .done h => leakGuardR h (fun s => quantR cap p q af af s h vars) (cloneEdge r h)

/-! ## `substitute_prepare`, `substitute`, `substitute_edge` -/

/-- `drop` of an `EdgeVecDropGuard` / of the replacement functions of a substitution object -/
def dropAll (r : RSt) (es : List Edge) : RSt := es.foldl dropEdge r

/-- the clones a substitution object takes of its replacement functions (`reps.push(f.clone())`) -/
def cloneAll (r : RSt) (es : List Edge) : RSt := es.foldl cloneEdge r

/-- the second loop of `substitute_prepare` (`pairs`: level ↦ replacement, borrowed from the
substitution object). Level `l` with a replacement: `res.push(manager.clone_edge(&e))`; without:
`res.push(get_or_insert(InnerNode::new(level, [⊤, ⊥]))?)`. On `Err` the guard `res` drops the
edges pushed so far (here: every frame drops its own edge on the way out; the counters do not
depend on the order). -/
def prepLoopR (cap : Nat) (pairs : List (Nat × Edge)) : List Nat → RSt → Option (List Edge) × RSt
  | [], r => (some [], r)
  | l :: ls, r =>
    match pairs.lookup l with
    | some rep =>
      match prepLoopR cap pairs ls (cloneEdge r rep) with
      | (none, r2) => (none, dropEdge r2 rep)
      | (some rest, r2) => (some (rep :: rest), r2)
    | none =>
      match varR cap r l false with
      | (none, r1) => (none, r1)
      | (some e, r1) =>
        match prepLoopR cap pairs ls r1 with
        | (none, r2) => (none, dropEdge r2 e)
        | (some rest, r2) => (some (e :: rest), r2)

/-- `substitute` (`f` and the vector `subst` borrowed, result owned) -/
def substituteR (cap : Nat) (p : Policy) (subst : List Edge) (id : Nat) (af : Nat) :
    Nat → RSt → Edge → Option Edge × RSt
  | 0, r, f => (some f, cloneEdge r f)
  | fuel+1, r, f =>
    match f with
    | .term _ => (some f, cloneEdge r f)
    | .inner i =>
      match r.st.store.get? i with
      | none => (some f, cloneEdge r f)
      | some fn =>
        match subst[fn.level]? with
        | none => (some f, cloneEdge r f) -- `level >= subst.len()`
        | some rep =>
          match p.get r.st.tick r.st.cache (encKey (substKey f id)) with
          | some h => (some h, cloneEdge r.tickd h)
          | none =>
            pairR (fun s => substituteR cap p subst id af fuel s fn.t)
              (fun s => substituteR cap p subst id af fuel s fn.e)
              (fun t e r0 =>
                combR p (encKey (substKey f id)) (fun s => iteR cap p af s rep t e) t e r0)
              r.tickd

/-- `substitute_edge`: `let subst = substitute_prepare(manager, substitution.pairs())?;
substitute(manager, rec, edge.borrowed(), &subst, substitution.id())` — the vector is dropped when
the function returns -/
def substituteEdgeR (cap : Nat) (p : Policy) (pairs : List (Nat × Edge)) (id : Nat) (af fuel : Nat)
    (r : RSt) (f : Edge) : Option Edge × RSt :=
  match prepLoopR cap pairs (List.range (pairs.foldl (fun m p => max m (p.1 + 1)) 0)) r with
  | (none, r1) => (none, r1)
  | (some sv, r1) =>
    ((substituteR cap p sv id af fuel r1 f).1, dropAll (substituteR cap p sv id af fuel r1 f).2 sv)

/-! ## `pick_cube_dd`, `pick_cube_dd_set` -/

/-- `LevelViewSet::get_or_insert(InnerNode::new(level, [t, e]))` with owned `t`, `e`: `reduce`
without the `t == e` test -/
def getOrInsertR (cap : Nat) (r : RSt) (level : Nat) (t e : Edge) : Option Edge × RSt :=
  match r.st.store.find? ⟨level, t, e⟩ with
  | some i => (some (.inner i), cloneEdge (dropEdge (dropEdge r t) e) (.inner i))
  | none =>
    if r.st.store.count < cap then
      let a := r.st.store.alloc ⟨level, t, e⟩
      (some (.inner a.2), { st := { r.st with store := a.1 }, rc := rcSet r.rc a.2 2 })
    else (none, dropEdge (dropEdge r t) e)

/-- the choice of `pick_cube_dd(_set)`: forced when a child is `⊥`, else `c` -/
def pickChoice (n : Node) (c : Bool) : Bool :=
  if n.t = .term false then false else if n.e = .term false then true else c

/-- `let sub = EdgeDropGuard::new(manager, inner(..)?); let f = get_terminal(False)?;
let sub = sub.into_edge(); let children = if c { [sub, f] } else { [f, sub] };
get_or_insert(InnerNode::new(level, children))` -/
def pickNodeR (cap : Nat) (level : Nat) (c : Bool) (R : Option Edge × RSt) : Option Edge × RSt :=
  match R with
  | (none, r1) => (none, r1)
  | (some sub, r1) =>
    getOrInsertR cap r1 level (if c then sub else .term false) (if c then .term false else sub)

/-- `pick_cube_dd_edge::inner` (`choice` by level, as the harness calls it) -/
def pickCubeDDR (cap : Nat) (choice : Nat → Bool) : Nat → RSt → Edge → Option Edge × RSt
  | 0, r, f => (some f, cloneEdge r f)
  | fuel+1, r, f =>
    match f with
    | .term _ => (some f, cloneEdge r f)
    | .inner i =>
      match r.st.store.get? i with
      | none => (some f, cloneEdge r f)
      | some n =>
        let c := pickChoice n (choice n.level)
        pickNodeR cap n.level c (pickCubeDDR cap choice fuel r (if c then n.t else n.e))

/-- `literal_set_pop` -/
def litSetPopS (s : Store) : Nat → Edge → Nat → Edge
  | 0, set, _ => set
  | fuel+1, set, u =>
    match set with
    | .term _ => set
    | .inner i =>
      match s.get? i with
      | none => set
      | some n =>
        if n.level < u then litSetPopS s fuel (if n.t = .term false then n.e else n.t) u else set

/-- the literal at `level` of the popped literal set: remaining set and polarity -/
def litAt (s : Store) (ls : Edge) (level : Nat) : Edge × Bool :=
  match ls with
  | .term _ => (ls, false)
  | .inner j =>
    match s.get? j with
    | none => (ls, false)
    | some m =>
      if m.level = level then (if m.e = .term false then (m.t, true) else (m.e, false))
      else (ls, false)

/-- `pick_cube_dd_set_edge::inner` -/
def pickCubeDDSetR (cap : Nat) (af : Nat) : Nat → RSt → Edge → Edge → Option Edge × RSt
  | 0, r, f, _ => (some f, cloneEdge r f)
  | fuel+1, r, f, ls =>
    match f with
    | .term _ => (some f, cloneEdge r f)
    | .inner i =>
      match r.st.store.get? i with
      | none => (some f, cloneEdge r f)
      | some n =>
        let lc := litAt r.st.store (litSetPopS r.st.store af ls n.level) n.level
        let c := pickChoice n lc.2
        pickNodeR cap n.level c (pickCubeDDSetR cap af fuel r (if c then n.t else n.e) lc.1)

end OxiddModel.Bdd.Rc
