import OxiddModel.Bdd.RcQLemmasRc
import OxiddModel.Bdd.RcSHistory

/-!
# Histories mixing all operations, with substitution objects as owners of counted edges

The user of the manager holds handles (`hs`) and **substitution objects** (`ss`): each object owns
one counted clone of every replacement function (`Subst::new(vars, reps)` of the harness's
`mksubst`), until it is dropped (`dropsubst`). `HStQ.owned` = handles ++ edges of all objects is
the list of external references of `RcInv`.

Commands: every command of `RcSHistory.lean` (`var`, `not`, binary, `ite`, `clone`, `drop`, `gc`;
`CmdQ.base`), `quant`, `applyq`, `restrict`, `mksubst`, `dropsubst`, `subst`, `pick`, `pickset` —
each operation under **its own capacity**, so any of them may fail with OutOfMemory at any
allocation point. `CmdQ.run_rc`: every command keeps `RcInv` for `owned`; `runAllQ_rc`: so does
every sequence.
-/
namespace OxiddModel.Bdd.Rc
open OxiddModel.Bdd OxiddModel.Bdd.BDD OxiddModel.Bdd.Refine

/-- the edges owned by a list of substitution objects -/
def substEdges : List (List (Nat × Edge)) → List Edge
  | [] => []
  | ps :: rest => ps.map (·.2) ++ substEdges rest

/-- the manager, the user's handles, the user's substitution objects (level ↦ counted edge) -/
structure HStQ where
  r : RSt
  hs : List Edge
  ss : List (List (Nat × Edge))

/-- all externally owned edges -/
def HStQ.owned (h : HStQ) : List Edge := h.hs ++ substEdges h.ss

/-- operands are positions in the handle list / in the list of substitution objects -/
inductive CmdQ where
  | base (c : Cmd)
  | quant (cap af fuel : Nat) (q : Quant) (a v : Nat)
  | applyq (cap af fuel : Nat) (q : Quant) (op : Op) (a b v : Nat)
  | restrict (cap fuel : Nat) (a v : Nat)
  /-- `pairs`: (level, position of the replacement's handle) -/
  | mksubst (pairs : List (Nat × Nat))
  | dropsubst (k : Nat)
  | subst (cap af fuel : Nat) (id : Nat) (a k : Nat)
  | pick (cap fuel : Nat) (choice : Nat → Bool) (a : Nat)
  | pickset (cap af fuel : Nat) (a b : Nat)

/-- a successful operation yields a new handle, a failed one (OutOfMemory) none -/
def pushQ (h : HStQ) (res : Option Edge × RSt) : HStQ :=
  match res with
  | (some x, r') => ⟨r', x :: h.hs, h.ss⟩
  | (none, r') => ⟨r', h.hs, h.ss⟩

/-- resolve the handle positions of a `mksubst` command -/
def resolvePairs (hs : List Edge) : List (Nat × Nat) → Option (List (Nat × Edge))
  | [] => some []
  | (l, a) :: rest =>
    match hs[a]?, resolvePairs hs rest with
    | some e, some ps => some ((l, e) :: ps)
    | _, _ => none

def CmdQ.run (p : Policy) : CmdQ → HStQ → HStQ
  | .base c, h => ⟨(c.run p ⟨h.r, h.hs⟩).r, (c.run p ⟨h.r, h.hs⟩).hs, h.ss⟩
  | .quant cap af fuel q a v, h =>
    match h.hs[a]?, h.hs[v]? with
    | some f, some vars => pushQ h (quantR cap p q af fuel h.r f vars)
    | _, _ => h
  | .applyq cap af fuel q op a b v, h =>
    match h.hs[a]?, h.hs[b]?, h.hs[v]? with
    | some f, some g, some vars => pushQ h (applyQuantR cap p q op af fuel h.r f g vars)
    | _, _, _ => h
  | .restrict cap fuel a v, h =>
    match h.hs[a]?, h.hs[v]? with
    | some f, some vars => pushQ h (restrictR cap p fuel h.r f vars)
    | _, _ => h
  | .mksubst pairs, h =>
    match resolvePairs h.hs pairs with
    | some ps => ⟨cloneAll h.r (ps.map (·.2)), h.hs, ps :: h.ss⟩
    | none => h
  | .dropsubst k, h =>
    match h.ss[k]? with
    | some ps => ⟨dropAll h.r (ps.map (·.2)), h.hs, h.ss.eraseIdx k⟩
    | none => h
  | .subst cap af fuel id a k, h =>
    match h.hs[a]?, h.ss[k]? with
    | some f, some ps => pushQ h (substituteEdgeR cap p ps id af fuel h.r f)
    | _, _ => h
  | .pick cap fuel choice a, h =>
    match h.hs[a]? with
    | some f => pushQ h (pickCubeDDR cap choice fuel h.r f)
    | none => h
  | .pickset cap af fuel a b, h =>
    match h.hs[a]?, h.hs[b]? with
    | some f, some ls => pushQ h (pickCubeDDSetR cap af fuel h.r f ls)
    | _, _ => h

def runAllQ (p : Policy) (cmds : List CmdQ) (h : HStQ) : HStQ := cmds.foldl (fun h c => c.run p h) h

/-! ## the commands of `RcSHistory.lean` with additional owners -/

theorem pushRes_frame {h : HSt} {S : List Edge} {res : Option Edge × RSt}
    (hres : match res with
      | (some x, r') => RcInv r' (x :: (h.hs ++ S))
      | (none, r') => RcInv r' (h.hs ++ S)) :
    RcInv (pushRes h res).r ((pushRes h res).hs ++ S) := by
  obtain ⟨o, r'⟩ := res
  cases o <;> exact hres

/-- every command of `RcSHistory.lean` keeps the counters exact when there are further owners `S`
(here: the substitution objects) -/
theorem Cmd.run_rc_frame {p : Policy} (pok : p.OK) (c : Cmd) (h : HSt) (S : List Edge)
    (hi : RcInv h.r (h.hs ++ S)) : RcInv (c.run p h).r ((c.run p h).hs ++ S) := by
  have hmem : ∀ {a : Nat} {f : Edge}, h.hs[a]? = some f → h.r.st.store.has f :=
    fun ha => hi.ext_ok _ (List.mem_append_left _ (List.mem_of_getElem? ha))
  cases c with
  | var cap level neg => exact pushRes_frame (varR_rc hi).2
  | not cap fuel a =>
    simp only [Cmd.run]
    cases ha : h.hs[a]? with
    | none => exact hi
    | some f => exact pushRes_frame (notR_rc pok cap fuel h.r f _ hi (hmem ha)).2
  | bin cap fuel op a b =>
    simp only [Cmd.run]
    cases ha : h.hs[a]? with
    | none => exact hi
    | some f =>
      cases hb : h.hs[b]? with
      | none => exact hi
      | some g => exact pushRes_frame (applyR_rc pok cap op fuel h.r f g _ hi (hmem ha) (hmem hb)).2
  | ite cap fuel a b c =>
    simp only [Cmd.run]
    cases ha : h.hs[a]? with
    | none => exact hi
    | some f =>
      cases hb : h.hs[b]? with
      | none => exact hi
      | some g =>
        cases hc : h.hs[c]? with
        | none => exact hi
        | some k =>
          exact pushRes_frame (iteR_rc pok cap fuel h.r f g k _ hi (hmem ha) (hmem hb) (hmem hc)).2
  | clone a =>
    simp only [Cmd.run]
    cases ha : h.hs[a]? with
    | none => exact hi
    | some f => exact cloneEdge_rc hi (hmem ha)
  | drop a =>
    simp only [Cmd.run]
    cases ha : h.hs[a]? with
    | none => exact hi
    | some f =>
      have hf := List.mem_of_getElem? ha
      refine dropEdge_rc (hi.congr (fun e => ?_))
      have := count_cons_erase hf e
      simp only [List.count_cons, List.count_append] at this ⊢
      omega
  | gc n => exact (gcR_rc n hi).1

/-! ## substitution objects -/

theorem cloneAll_st (r : RSt) (es : List Edge) : (cloneAll r es).st = r.st := by
  induction es generalizing r with
  | nil => rfl
  | cons e es ih => simp only [cloneAll, List.foldl_cons] at ih ⊢; rw [ih]; exact cloneEdge_st r e

theorem cloneAll_rc : ∀ (es : List Edge) {r : RSt} {ext : List Edge}, RcInv r ext →
    (∀ e ∈ es, r.st.store.has e) → RcInv (cloneAll r es) (es ++ ext) := by
  intro es
  induction es with
  | nil => intro r ext h _; exact h
  | cons e es ih =>
    intro r ext h hes
    simp only [cloneAll, List.foldl_cons]
    have i1 := cloneEdge_rc h (hes e List.mem_cons_self)
    have := ih i1 (fun x hx => by rw [cloneEdge_st]; exact hes x (List.mem_cons_of_mem _ hx))
    exact this.congr (fun x => by simp only [List.count_append, List.count_cons]; omega)

theorem resolvePairs_mem : ∀ (pairs : List (Nat × Nat)) {hs : List Edge} {ps : List (Nat × Edge)},
    resolvePairs hs pairs = some ps → ∀ e ∈ ps.map (·.2), e ∈ hs := by
  intro pairs
  induction pairs with
  | nil => intro hs ps h e he; cases h; cases he
  | cons pr rest ih =>
    intro hs ps h e he
    obtain ⟨l, a⟩ := pr
    simp only [resolvePairs] at h
    cases ha : hs[a]? with
    | none => rw [ha] at h; cases h
    | some x =>
      cases hr : resolvePairs hs rest with
      | none => rw [ha, hr] at h; cases h
      | some ps' =>
        rw [ha, hr] at h
        cases h
        simp only [List.map_cons, List.mem_cons] at he
        rcases he with rfl | he
        · exact List.mem_of_getElem? ha
        · exact ih hr e he

/-- the edges of the `k`-th object are among the owned ones, and removing the object removes
exactly them -/
theorem substEdges_eraseIdx : ∀ (ss : List (List (Nat × Edge))) (k : Nat) (ps : List (Nat × Edge)),
    ss[k]? = some ps → ∀ x, (substEdges ss).count x =
      (ps.map (·.2)).count x + (substEdges (ss.eraseIdx k)).count x := by
  intro ss
  induction ss with
  | nil => intro k ps h; cases h
  | cons q rest ih =>
    intro k ps h x
    cases k with
    | zero =>
      simp only [List.getElem?_cons_zero, Option.some.injEq] at h
      subst h
      simp [substEdges, List.count_append]
    | succ k =>
      simp only [List.getElem?_cons_succ] at h
      have := ih k ps h x
      simp only [substEdges, List.eraseIdx_cons_succ, List.count_append]
      omega

theorem substEdges_mem {ss : List (List (Nat × Edge))} {k : Nat} {ps : List (Nat × Edge)}
    (h : ss[k]? = some ps) {e : Edge} (he : e ∈ ps.map (·.2)) : e ∈ substEdges ss := by
  have := substEdges_eraseIdx ss k ps h e
  have hp : 0 < (ps.map (·.2)).count e := List.count_pos_iff.mpr he
  exact List.count_pos_iff.mp (by omega)

theorem lookup_mem_snd {ps : List (Nat × Edge)} {l : Nat} {rep : Edge}
    (h : ps.lookup l = some rep) : rep ∈ ps.map (·.2) :=
  List.mem_map.mpr ⟨(l, rep), Refine.lookup_mem (l := ps) h, rfl⟩

/-! ## every command keeps the invariant -/

theorem pushQ_rc {h : HStQ} {res : Option Edge × RSt} (hres : RcPost h.r h.owned res) :
    RcInv (pushQ h res).r (pushQ h res).owned := by
  obtain ⟨o, r'⟩ := res
  cases o <;> exact hres.2

theorem CmdQ.run_rc {p : Policy} (pok : p.OK) (c : CmdQ) (h : HStQ) (hi : RcInv h.r h.owned) :
    RcInv (c.run p h).r (c.run p h).owned := by
  have hmem : ∀ {a : Nat} {f : Edge}, h.hs[a]? = some f → h.r.st.store.has f :=
    fun ha => hi.ext_ok _ (List.mem_append_left _ (List.mem_of_getElem? ha))
  cases c with
  | base c => exact Cmd.run_rc_frame pok c ⟨h.r, h.hs⟩ (substEdges h.ss) hi
  | quant cap af fuel q a v =>
    simp only [CmdQ.run]
    cases ha : h.hs[a]? with
    | none => exact hi
    | some f =>
      cases hv : h.hs[v]? with
      | none => exact hi
      | some vars => exact pushQ_rc (quantR_rc pok cap q af fuel h.r f vars _ hi (hmem ha) (hmem hv))
  | applyq cap af fuel q op a b v =>
    simp only [CmdQ.run]
    cases ha : h.hs[a]? with
    | none => exact hi
    | some f =>
      cases hb : h.hs[b]? with
      | none => exact hi
      | some g =>
        cases hv : h.hs[v]? with
        | none => exact hi
        | some vars =>
          exact pushQ_rc (applyQuantR_rc pok cap q op af fuel h.r f g vars _ hi (hmem ha) (hmem hb)
            (hmem hv))
  | restrict cap fuel a v =>
    simp only [CmdQ.run]
    cases ha : h.hs[a]? with
    | none => exact hi
    | some f =>
      cases hv : h.hs[v]? with
      | none => exact hi
      | some vars => exact pushQ_rc (restrictR_rc pok cap fuel h.r f vars _ hi (hmem ha) (hmem hv))
  | mksubst pairs =>
    simp only [CmdQ.run]
    cases hr : resolvePairs h.hs pairs with
    | none => exact hi
    | some ps =>
      have hm := resolvePairs_mem pairs hr
      have := cloneAll_rc (ps.map (·.2)) hi
        (fun e he => hi.ext_ok e (List.mem_append_left _ (hm e he)))
      refine this.congr (fun x => ?_)
      simp only [HStQ.owned, substEdges, List.count_append]
      omega
  | dropsubst k =>
    simp only [CmdQ.run]
    cases hk : h.ss[k]? with
    | none => exact hi
    | some ps =>
      apply dropAll_rc (ps.map (·.2))
      refine hi.congr (fun x => ?_)
      have := substEdges_eraseIdx h.ss k ps hk x
      simp only [HStQ.owned, List.count_append]
      omega
  | subst cap af fuel id a k =>
    simp only [CmdQ.run]
    cases ha : h.hs[a]? with
    | none => exact hi
    | some f =>
      cases hk : h.ss[k]? with
      | none => exact hi
      | some ps =>
        exact pushQ_rc (substituteEdgeR_rc pok cap ps id af fuel h.r f _ hi (hmem ha)
          (fun l rep hl => hi.ext_ok rep
            (List.mem_append_right _ (substEdges_mem hk (lookup_mem_snd hl)))))
  | pick cap fuel choice a =>
    simp only [CmdQ.run]
    cases ha : h.hs[a]? with
    | none => exact hi
    | some f => exact pushQ_rc (pickCubeDDR_rc cap choice fuel h.r f _ hi (hmem ha))
  | pickset cap af fuel a b =>
    simp only [CmdQ.run]
    cases ha : h.hs[a]? with
    | none => exact hi
    | some f =>
      cases hb : h.hs[b]? with
      | none => exact hi
      | some ls => exact pushQ_rc (pickCubeDDSetR_rc cap af fuel h.r f ls _ hi (hmem ha) (hmem hb))

theorem runAllQ_rc {p : Policy} (pok : p.OK) : ∀ (cmds : List CmdQ) (h : HStQ),
    RcInv h.r h.owned → RcInv (runAllQ p cmds h).r (runAllQ p cmds h).owned := by
  intro cmds
  induction cmds with
  | nil => intro h hi; exact hi
  | cons c cs ih => intro h hi; exact ih _ (CmdQ.run_rc pok c h hi)

end OxiddModel.Bdd.Rc
