import OxiddModel.Bdd.RcQ
import OxiddModel.Bdd.RcSLemmas

/-!
# Erasure: without the counters the algorithms of `RcQ.lean` are those of `ThresholdQ.lean`

`quantR_erase'`, `restrictR_erase'`, `applyQuantR_erase'`, `prepLoopR_erase`, `substituteR_erase'`,
`substituteEdgeR_erase'`: same result (edge or OutOfMemory), same store, same cache, same time
stamp — for all inputs, without any hypothesis.
-/
namespace OxiddModel.Bdd.Rc
open OxiddModel.Bdd OxiddModel.Bdd.BDD OxiddModel.Bdd.Refine

/-- forget the counters (any result type) -/
def eraseG {α : Type} (x : Option α × RSt) : Option α × St := (x.1, x.2.st)

theorem erase_eq_eraseG (x : Option Edge × RSt) : erase x = eraseG x := rfl

@[simp] theorem addR_st (p : Policy) (r : RSt) (key : Key) (h : Edge) :
    (addR p r key h).st = ⟨r.st.store, p.add r.st.tick r.st.cache key h, r.st.tick + 1⟩ := rfl

@[simp] theorem addR_rc (p : Policy) (r : RSt) (key : Key) (h : Edge) :
    (addR p r key h).rc = r.rc := rfl

@[simp] theorem dropAll_st (r : RSt) (es : List Edge) : (dropAll r es).st = r.st := by
  induction es generalizing r with
  | nil => rfl
  | cons e es ih => simp only [dropAll, List.foldl_cons] at ih ⊢; rw [ih]; exact dropEdge_st r e

/-! ## the combinators -/

theorem pairR_erase {c1R c0R : RSt → Option Edge × RSt} {kR : Edge → Edge → RSt → Option Edge × RSt}
    {c1C c0C : St → Option Edge × St} {kC : Edge → Edge → St → Option Edge × St}
    (h1 : ∀ r, erase (c1R r) = c1C r.st) (h0 : ∀ r, erase (c0R r) = c0C r.st)
    (hk : ∀ t e r, erase (kR t e r) = kC t e r.st) (r : RSt) :
    erase (pairR c1R c0R kR r) = bindC c1C (fun t => bindC c0C (fun e s => kC t e s)) r.st := by
  unfold pairR bindC
  have e1 := h1 r
  cases hc1 : c1R r with
  | mk o1 r1 =>
    rw [hc1] at e1
    simp only [erase] at e1
    rw [← e1]
    cases o1 with
    | none => rfl
    | some t =>
      simp only
      have e0 := h0 r1
      cases hc0 : c0R r1 with
      | mk o0 r0 =>
        rw [hc0] at e0
        simp only [erase] at e0
        rw [← e0]
        cases o0 with
        | none => simp [erase]
        | some e => simp only; exact hk t e r0

theorem combR_erase {p : Policy} {key : Key} {cR : RSt → Option Edge × RSt}
    {cC : St → Option Edge × St} (hc : ∀ r, erase (cR r) = cC r.st) (t e : Edge) (r0 : RSt) :
    erase (combR p key cR t e r0) = bindC cC (fun h s => addC p s key h) r0.st := by
  unfold combR bindC
  have e1 := hc r0
  cases hcr : cR r0 with
  | mk o r2 =>
    rw [hcr] at e1
    simp only [erase] at e1
    rw [← e1]
    cases o with
    | none => simp [erase]
    | some h => simp [erase, addC]

theorem guardR_erase {cR : RSt → Option Edge × RSt} (x : Edge) (r : RSt) :
    erase (guardR x cR r) = erase (cR r) := by
  simp [guardR, erase]

/-! ## `quant` -/

theorem quantR_erase' (cap : Nat) (p : Policy) (q : Quant) (af : Nat) (fuel : Nat) :
    ∀ (r : RSt) (f vars : Edge),
    erase (quantR cap p q af fuel r f vars) = quantC cap p q af fuel r.st f vars := by
  induction fuel with
  | zero => intro r f vars; simp [quantR, quantC, erase]
  | succ fuel ih =>
    intro r f vars
    cases f with
    | term b =>
      simp only [quantR, quantC]
      split <;> simp [erase]
    | inner i =>
      simp only [quantR, quantC]
      cases hi : r.st.store.get? i with
      | none => simp [erase]
      | some fn =>
        simp only
        generalize (if q ≠ .unique then r.st.store.setPopS af vars fn.level else vars) = vars'
        cases vars' with
        | term y => simp [erase]
        | inner j =>
          simp only
          cases hj : r.st.store.get? j with
          | none => simp [erase]
          | some vn =>
            simp only
            split
            · simp [erase]
            · cases hget : p.get r.st.tick r.st.cache (encKey (quantKey q (.inner i) (.inner j))) with
              | some h => simp [erase]
              | none =>
                simp only
                exact pairR_erase
                  (c1C := fun s => quantC cap p q af fuel s fn.t _)
                  (c0C := fun s => quantC cap p q af fuel s fn.e _)
                  (kC := fun t e s0 =>
                    if fn.level = vn.level then
                      bindC (fun s => applyC cap p q.op af s t e)
                        (fun h s => addC p s (encKey (quantKey q (.inner i) (.inner j))) h) s0
                    else finishC cap p s0 (encKey (quantKey q (.inner i) (.inner j))) fn.level t e)
                  (fun s => ih s _ _) (fun s => ih s _ _)
                  (fun t e r0 => by
                    split
                    · exact combR_erase (fun s => applyR_erase' cap p q.op af s t e) t e r0
                    · exact finishR_erase cap p r0 _ _ t e)
                  r.tickd

/-! ## `restrict` -/

theorem restrictR_erase' (cap : Nat) (p : Policy) (fuel : Nat) : ∀ (r : RSt) (f vars : Edge),
    erase (restrictR cap p fuel r f vars) = restrictC cap p fuel r.st f vars := by
  induction fuel with
  | zero => intro r f vars; simp [restrictR, restrictC, erase]
  | succ fuel ih =>
    intro r f vars
    simp only [restrictR, restrictC]
    cases restrictInnerS r.st.store (fuel + 1) f vars with
    | done x => simp [erase]
    | recur f' vars' =>
      simp only
      cases hget : p.get r.st.tick r.st.cache (encKey (restrictKey f' vars')) with
      | some h => simp [erase]
      | none =>
        cases f' with
        | term b => simp [erase]
        | inner i =>
          simp only
          cases hi : r.st.store.get? i with
          | none => simp [erase]
          | some fn =>
            simp only
            exact forkR_erase (c1C := fun s => restrictC cap p fuel s fn.t vars')
              (c0C := fun s => restrictC cap p fuel s fn.e vars')
              (fun s => ih s _ _) (fun s => ih s _ _) r.tickd

/-! ## `apply_quant` -/

theorem aqBodyR_erase (cap : Nat) (p : Policy) (q : Quant) (op : Op) (af : Nat)
    {recR : RSt → Edge → Edge → Edge → Option Edge × RSt}
    {recC : St → Edge → Edge → Edge → Option Edge × St}
    (hrec : ∀ r a b c, erase (recR r a b c) = recC r.st a b c) (r : RSt) (f g vars : Edge) :
    erase (aqBodyR cap p q op af recR r f g vars) = aqBodyC cap p q op af recC r.st f g vars := by
  cases f with
  | term b => simp [aqBodyR, aqBodyC, erase]
  | inner i =>
    cases g with
    | term b => simp [aqBodyR, aqBodyC, erase]
    | inner k =>
      simp only [aqBodyR, aqBodyC]
      cases hi : r.st.store.get? i with
      | none => simp [erase]
      | some fn =>
        cases hk : r.st.store.get? k with
        | none => simp [erase]
        | some gn =>
          simp only
          generalize (if q ≠ .unique then r.st.store.setPopS af vars (min fn.level gn.level) else vars) = vars'
          cases vars' with
          | term y => exact applyR_erase' cap p op af r _ _
          | inner j =>
            simp only
            cases hj : r.st.store.get? j with
            | none => simp [erase]
            | some vn =>
              simp only
              split
              · simp [erase]
              · split
                · exact applyR_erase' cap p op af r _ _
                · cases hget : p.get r.st.tick r.st.cache
                      (encKey (applyQuantKey q op (.inner i) (.inner k) (.inner j))) with
                  | some h => simp [erase]
                  | none =>
                    simp only
                    exact pairR_erase
                      (c1C := fun s => recC s _ _ _) (c0C := fun s => recC s _ _ _)
                      (kC := fun t e s0 =>
                        if min fn.level gn.level = vn.level then
                          bindC (fun s => applyC cap p q.op af s t e)
                            (fun h s => addC p s
                              (encKey (applyQuantKey q op (.inner i) (.inner k) (.inner j))) h) s0
                        else finishC cap p s0
                          (encKey (applyQuantKey q op (.inner i) (.inner k) (.inner j)))
                          (min fn.level gn.level) t e)
                      (fun s => hrec s _ _ _) (fun s => hrec s _ _ _)
                      (fun t e r0 => by
                        split
                        · exact combR_erase (fun s => applyR_erase' cap p q.op af s t e) t e r0
                        · exact finishR_erase cap p r0 _ _ t e)
                      r.tickd

theorem applyQuantR_erase' (cap : Nat) (p : Policy) (q : Quant) (op : Op) (af : Nat) (fuel : Nat) :
    ∀ (r : RSt) (f g vars : Edge),
    erase (applyQuantR cap p q op af fuel r f g vars) =
      applyQuantC cap p q op af fuel r.st f g vars := by
  induction fuel with
  | zero => intro r f g vars; simp [applyQuantR, applyQuantC, erase]
  | succ fuel ih =>
    intro r f g vars
    simp only [applyQuantR, applyQuantC]
    cases terminalBinS op f g with
    | binary tag o1 o2 => exact aqBodyR_erase cap p q op af ih r o1 o2 vars
    | notOf h =>
      simp only
      have e1 := notR_erase cap p af r h
      unfold bindC
      cases hn : notR cap p af r h with
      | mk o r1 =>
        rw [hn] at e1
        simp only [erase] at e1
        dsimp only
        rw [← e1]
        cases o with
        | none => rfl
        | some inv =>
          simp only
          rw [guardR_erase]
          exact quantR_erase' cap p q af af r1 inv vars
    | done h =>
      simp only
      rw [guardR_erase]
      have := quantR_erase' cap p q af af (cloneEdge r h) h vars
      rw [cloneEdge_st] at this
      exact this

/-! ## `substitute_prepare`, `substitute` -/

theorem varR_erase (cap : Nat) (l : Nat) (r : RSt) :
    erase (varR cap r l false) = mkVarC cap l r.st := by
  have h := mkNodeR_erase cap r l (.term true) (.term false)
  unfold varR mkVarC erase
  simp only [Bool.not_false]
  cases hm : r.st.store.mkNodeC cap l (.term true) (.term false) with
  | none =>
    rw [hm] at h
    obtain ⟨h1, h2⟩ := h
    simp [h1, h2]
  | some m =>
    rw [hm] at h
    obtain ⟨h1, h2⟩ := h
    simp [h1, h2]

theorem prepLoopR_erase (cap : Nat) (pairs : List (Nat × Edge)) (ls : List Nat) : ∀ (r : RSt),
    eraseG (prepLoopR cap pairs ls r) = prepLoopC cap pairs ls r.st := by
  induction ls with
  | nil => intro r; rfl
  | cons l ls ih =>
    intro r
    cases hl : pairs.lookup l with
    | some rep =>
      simp only [prepLoopR, prepLoopC, hl, bindC]
      have e := ih (cloneEdge r rep)
      rw [cloneEdge_st] at e
      cases hp : prepLoopR cap pairs ls (cloneEdge r rep) with
      | mk o r2 =>
        rw [hp] at e
        simp only [eraseG] at e
        rw [← e]
        cases o <;> simp [eraseG]
    | none =>
      simp only [prepLoopR, prepLoopC, hl, bindC]
      have ev := varR_erase cap l r
      cases hv : varR cap r l false with
      | mk o r1 =>
        rw [hv] at ev
        simp only [erase] at ev
        rw [← ev]
        cases o with
        | none => rfl
        | some e =>
          simp only
          have e2 := ih r1
          cases hp : prepLoopR cap pairs ls r1 with
          | mk o2 r2 =>
            rw [hp] at e2
            simp only [eraseG] at e2
            rw [← e2]
            cases o2 <;> simp [eraseG]

theorem substituteR_erase' (cap : Nat) (p : Policy) (subst : List Edge) (id : Nat) (af : Nat)
    (fuel : Nat) : ∀ (r : RSt) (f : Edge),
    erase (substituteR cap p subst id af fuel r f) = substituteC cap p subst id af fuel r.st f := by
  induction fuel with
  | zero => intro r f; simp [substituteR, substituteC, erase]
  | succ fuel ih =>
    intro r f
    cases f with
    | term b => simp [substituteR, substituteC, erase]
    | inner i =>
      simp only [substituteR, substituteC]
      cases hi : r.st.store.get? i with
      | none => simp [erase]
      | some fn =>
        simp only
        cases hs : subst[fn.level]? with
        | none => simp [erase]
        | some rep =>
          simp only
          cases hget : p.get r.st.tick r.st.cache (encKey (substKey (.inner i) id)) with
          | some h => simp [erase]
          | none =>
            simp only
            exact pairR_erase
              (c1C := fun s => substituteC cap p subst id af fuel s fn.t)
              (c0C := fun s => substituteC cap p subst id af fuel s fn.e)
              (kC := fun t e => bindC (fun s => iteC cap p af s rep t e)
                (fun h s => addC p s (encKey (substKey (.inner i) id)) h))
              (fun s => ih s _) (fun s => ih s _)
              (fun t e r0 => combR_erase (fun s => iteR_erase' cap p af s rep t e) t e r0)
              r.tickd

theorem substituteEdgeR_erase' (cap : Nat) (p : Policy) (pairs : List (Nat × Edge)) (id : Nat)
    (af fuel : Nat) (r : RSt) (f : Edge) :
    erase (substituteEdgeR cap p pairs id af fuel r f) =
      substituteEdgeC cap p pairs id af fuel r.st f := by
  unfold substituteEdgeR substituteEdgeC bindC
  have e := prepLoopR_erase cap pairs (List.range (pairs.foldl (fun m p => max m (p.1 + 1)) 0)) r
  cases hp : prepLoopR cap pairs (List.range (pairs.foldl (fun m p => max m (p.1 + 1)) 0)) r with
  | mk o r1 =>
    rw [hp] at e
    simp only [eraseG] at e
    rw [← e]
    cases o with
    | none => rfl
    | some sv =>
      simp only
      have := substituteR_erase' cap p sv id af fuel r1 f
      simp only [erase] at this ⊢
      rw [dropAll_st]
      exact this

end OxiddModel.Bdd.Rc
