import OxiddModel.Bdd.PickS
import OxiddModel.Bdd.RcQLemmasOrd3
import OxiddModel.Bdd.GlobalSNoRed
import OxiddModel.Bdd.PropertiesC05Q

/-!
# Hash consing and reducedness along all histories of `RcQHistory.lean`

`Canon s` = `s.Unique` (no two slots hold the same node) ∧ `s.NoRed` (no stored node has two equal
children). Every operation of `RcQ.lean` keeps it — on success and on OutOfMemory at any
allocation point, without any hypothesis on operands, cache, policy or fuel:

* `Unique` comes from `BothG.uniq` of the capacity-bounded algorithms (`ThresholdQ.lean`,
  `PickS.lean`) through the erasure theorems;
* `NoRed`: `…C_nored` by induction on the fuel (`reduce` allocates only after the test `t == e`);
  for `pick_cube_dd(_set)`, whose `get_or_insert` has **no** such test, because the child the walk
  descends into is never `⊥` in a reduced store, so the sub-cube is not `⊥` and the two children
  `[sub, ⊥]` differ (`pickCubeDDC_nored`, `pickCubeDDSetC_nored`);
* `CmdQ.run_canon`, `runAllQ_canon`: every command, every history.

`denotes_exists`: in a store with `RcInv` and `OrdInvX` every stored edge denotes a tree.
-/
namespace OxiddModel.Bdd.Rc
open OxiddModel.Bdd OxiddModel.Bdd.BDD OxiddModel.Bdd.Refine OxiddModel.Bdd.Global

/-- hash-consed and reduced -/
structure Canon (s : Store) : Prop where
  uniq : s.Unique
  nored : s.NoRed

theorem unique_sub {s s' : Store} (h : s.Unique) (hs : Sub s' s) : s'.Unique :=
  fun i j n hi hj => h i j n (hs i n hi) (hs j n hj)

theorem nored_sub {s s' : Store} (h : s.NoRed) (hs : Sub s' s) : s'.NoRed :=
  fun i n hi => h i n (hs i n hi)

theorem canon_empty : Canon RSt.empty.st.store := by
  refine ⟨?_, ?_⟩
  · intro i j n hi; simp [RSt.empty, Store.get?] at hi
  · intro i n hi; simp [RSt.empty, Store.get?] at hi

/-! ## `NoRed` for the capacity-bounded algorithms -/

theorem bindC_nored {α β : Type} {c : St → Option α × St} {k : α → St → Option β × St} {st : St}
    (hc : st.store.NoRed → (c st).2.store.NoRed)
    (hk : ∀ r (s : St), s.store.NoRed → (k r s).2.store.NoRed) (h : st.store.NoRed) :
    (bindC c k st).2.store.NoRed := by
  unfold bindC
  have a := hc h
  cases hcs : c st with
  | mk o st1 =>
    rw [hcs] at a
    cases o with
    | none => exact a
    | some r => exact hk r st1 a

theorem quantC_nored (cap : Nat) (p : Policy) (q : Quant) (af : Nat) (fuel : Nat) :
    ∀ (st : St) (f vars : Edge), st.store.NoRed →
      (quantC cap p q af fuel st f vars).2.store.NoRed := by
  induction fuel with
  | zero => intro st f vars h; exact h
  | succ fuel ih =>
    intro st f vars h
    cases f with
    | term b =>
      simp only [quantC]
      split <;> exact h
    | inner i =>
      simp only [quantC]
      cases hi : st.store.get? i with
      | none => exact h
      | some fn =>
        simp only
        generalize (if q ≠ .unique then st.store.setPopS af vars fn.level else vars) = vars'
        cases vars' with
        | term y => exact h
        | inner j =>
          simp only
          cases hj : st.store.get? j with
          | none => exact h
          | some vn =>
            simp only
            split
            · exact h
            · cases hget : p.get st.tick st.cache (encKey (quantKey q (.inner i) (.inner j))) with
              | some r => exact h
              | none =>
                simp only
                refine bindC_nored (st := st.tickd) (fun hs => ih _ _ _ hs) (fun r1 s1 h1 => ?_) h
                refine bindC_nored (fun hs => ih _ _ _ hs) (fun r0 s0 h0 => ?_) h1
                split
                · exact bindC_nored (fun hs => applyC_nored cap p q.op af s0 r1 r0 hs)
                    (fun r s hs => hs) h0
                · exact finishC_nored cap p s0 _ _ r1 r0 h0

theorem restrictC_nored (cap : Nat) (p : Policy) (fuel : Nat) :
    ∀ (st : St) (f vars : Edge), st.store.NoRed →
      (restrictC cap p fuel st f vars).2.store.NoRed := by
  induction fuel with
  | zero => intro st f vars h; exact h
  | succ fuel ih =>
    intro st f vars h
    simp only [restrictC]
    cases restrictInnerS st.store (fuel + 1) f vars with
    | done r => exact h
    | recur f' vars' =>
      simp only
      cases hget : p.get st.tick st.cache (encKey (restrictKey f' vars')) with
      | some r => exact h
      | none =>
        cases f' with
        | term b => exact h
        | inner i =>
          simp only
          cases hi : st.store.get? i with
          | none => exact h
          | some fn =>
            exact forkC_nored (st := st.tickd) (fun s hs => ih s _ _ hs) (fun s hs => ih s _ _ hs) h

theorem aqBodyC_nored (cap : Nat) (p : Policy) (q : Quant) (op : Op) (af : Nat)
    {rec : St → Edge → Edge → Edge → Option Edge × St}
    (hrec : ∀ (st : St) a b c, st.store.NoRed → (rec st a b c).2.store.NoRed) (st : St)
    (f g vars : Edge) (h : st.store.NoRed) :
    (aqBodyC cap p q op af rec st f g vars).2.store.NoRed := by
  cases f with
  | term b => cases g <;> exact h
  | inner i =>
    cases g with
    | term b => exact h
    | inner k =>
      simp only [aqBodyC]
      cases hi : st.store.get? i with
      | none => exact h
      | some fn =>
        cases hk : st.store.get? k with
        | none => exact h
        | some gn =>
          simp only
          generalize (if q ≠ .unique then st.store.setPopS af vars (min fn.level gn.level) else vars) = vars'
          cases vars' with
          | term y => exact applyC_nored cap p op af st _ _ h
          | inner j =>
            simp only
            cases hj : st.store.get? j with
            | none => exact h
            | some vn =>
              simp only
              split
              · exact h
              · split
                · exact applyC_nored cap p op af st _ _ h
                · cases hget : p.get st.tick st.cache
                      (encKey (applyQuantKey q op (.inner i) (.inner k) (.inner j))) with
                  | some r => exact h
                  | none =>
                    simp only
                    refine bindC_nored (st := st.tickd) (fun hs => hrec _ _ _ _ hs)
                      (fun r1 s1 h1 => ?_) h
                    refine bindC_nored (fun hs => hrec _ _ _ _ hs) (fun r0 s0 h0 => ?_) h1
                    split
                    · exact bindC_nored (fun hs => applyC_nored cap p q.op af s0 r1 r0 hs)
                        (fun r s hs => hs) h0
                    · exact finishC_nored cap p s0 _ _ r1 r0 h0

theorem applyQuantC_nored (cap : Nat) (p : Policy) (q : Quant) (op : Op) (af : Nat) (fuel : Nat) :
    ∀ (st : St) (f g vars : Edge), st.store.NoRed →
      (applyQuantC cap p q op af fuel st f g vars).2.store.NoRed := by
  induction fuel with
  | zero => intro st f g vars h; exact h
  | succ fuel ih =>
    intro st f g vars h
    simp only [applyQuantC]
    cases terminalBinS op f g with
    | binary tag o1 o2 => exact aqBodyC_nored cap p q op af ih st o1 o2 vars h
    | notOf x =>
      exact bindC_nored (fun hs => notC_nored cap p af st x hs)
        (fun inv s hs => quantC_nored cap p q af af s inv vars hs) h
    | done x => exact quantC_nored cap p q af af st x vars h

theorem mkVarC_nored (cap : Nat) (l : Nat) (st : St) (h : st.store.NoRed) :
    (mkVarC cap l st).2.store.NoRed := by
  unfold mkVarC
  cases hm : st.store.mkNodeC cap l (.term true) (.term false) with
  | none => exact h
  | some m => exact mkNodeC_nored h hm

theorem prepLoopC_nored (cap : Nat) (pairs : List (Nat × Edge)) (ls : List Nat) :
    ∀ (st : St), st.store.NoRed → (prepLoopC cap pairs ls st).2.store.NoRed := by
  induction ls with
  | nil => intro st h; exact h
  | cons l ls ih =>
    intro st h
    cases hl : pairs.lookup l with
    | some r =>
      simp only [prepLoopC, hl]
      exact bindC_nored (fun hs => ih st hs) (fun rest s hs => hs) h
    | none =>
      simp only [prepLoopC, hl]
      exact bindC_nored (fun hs => mkVarC_nored cap l st hs)
        (fun e s hs => bindC_nored (fun hs' => ih s hs') (fun rest s' hs' => hs') hs) h

theorem substituteC_nored (cap : Nat) (p : Policy) (subst : List Edge) (id : Nat) (af : Nat)
    (fuel : Nat) : ∀ (st : St) (f : Edge), st.store.NoRed →
      (substituteC cap p subst id af fuel st f).2.store.NoRed := by
  induction fuel with
  | zero => intro st f h; exact h
  | succ fuel ih =>
    intro st f h
    cases f with
    | term b => exact h
    | inner i =>
      simp only [substituteC]
      cases hi : st.store.get? i with
      | none => exact h
      | some fn =>
        simp only
        cases hs : subst[fn.level]? with
        | none => exact h
        | some rep =>
          simp only
          cases hget : p.get st.tick st.cache (encKey (substKey (.inner i) id)) with
          | some x => exact h
          | none =>
            simp only
            refine bindC_nored (st := st.tickd) (fun hs => ih _ _ hs) (fun r1 s1 h1 => ?_) h
            refine bindC_nored (fun hs => ih _ _ hs) (fun r0 s0 h0 => ?_) h1
            exact bindC_nored (fun hs => iteC_nored cap p af s0 rep r1 r0 hs) (fun r s hs => hs) h0

theorem substituteEdgeC_nored (cap : Nat) (p : Policy) (pairs : List (Nat × Edge)) (id : Nat)
    (af fuel : Nat) (st : St) (f : Edge) (h : st.store.NoRed) :
    (substituteEdgeC cap p pairs id af fuel st f).2.store.NoRed := by
  unfold substituteEdgeC
  exact bindC_nored (fun hs => prepLoopC_nored cap pairs _ st hs)
    (fun sv s hs => substituteC_nored cap p sv id af fuel s f hs) h

/-! ## `pick_cube_dd(_set)`: `get_or_insert` without the reduction test -/

/-- the child the walk descends into is not `⊥` -/
theorem pickChoice_child_ne {n : Node} (c : Bool) (hne : n.t ≠ n.e) :
    (if pickChoice n c then n.t else n.e) ≠ .term false := by
  unfold pickChoice
  by_cases h1 : n.t = .term false
  · simp only [h1, if_true, Bool.false_eq_true, if_false]
    intro h; exact hne (h1.trans h.symm)
  · by_cases h2 : n.e = .term false
    · simp only [h1, h2, if_false, if_true]; exact h1
    · simp only [h1, h2, if_false]
      cases c
      · simp only [Bool.false_eq_true, if_false]; exact h2
      · simp only [if_true]; exact h1

theorem pickKids_ne {c : Bool} {sub : Edge} (h : sub ≠ .term false) :
    pickKidsT c sub ≠ pickKidsE c sub := by
  unfold pickKidsT pickKidsE
  cases c
  · simp only [Bool.false_eq_true, if_false]; exact Ne.symm h
  · simp only [if_true]; exact h

theorem goiC_nored {cap l : Nat} {t e : Edge} {st : St} (hte : t ≠ e) (h : st.store.NoRed) :
    (goiC cap l t e st).2.store.NoRed ∧ ∀ x, (goiC cap l t e st).1 = some x → x ≠ .term false := by
  unfold goiC
  cases hm : st.store.getOrInsertC cap l t e with
  | none => exact ⟨h, fun x hx => by cases hx⟩
  | some m =>
    obtain ⟨hmeq, _⟩ := getOrInsertC_some hm
    refine ⟨?_, ?_⟩
    · show m.1.NoRed
      rw [hmeq, getOrInsert_eq_mkNode hte]
      exact mkNode_nored _ _ _ _ h
    · intro x hx
      simp only [Option.some.injEq] at hx
      subst hx
      rw [hmeq]
      unfold Store.getOrInsert
      split <;> simp

/-- the final part of both walks: the sub-cube of a non-`⊥` child, then `get_or_insert` -/
theorem pickBind_nored {cap l : Nat} {c : Bool} {cC : St → Option Edge × St} {st : St}
    (hc : (cC st).2.store.NoRed ∧ ∀ x, (cC st).1 = some x → x ≠ .term false) :
    (bindC cC (fun sub s => goiC cap l (pickKidsT c sub) (pickKidsE c sub) s) st).2.store.NoRed ∧
    ∀ x, (bindC cC (fun sub s => goiC cap l (pickKidsT c sub) (pickKidsE c sub) s) st).1 = some x →
      x ≠ .term false := by
  unfold bindC
  cases hcs : cC st with
  | mk o st1 =>
    rw [hcs] at hc
    cases o with
    | none => exact ⟨hc.1, fun x hx => by cases hx⟩
    | some sub => exact goiC_nored (pickKids_ne (hc.2 sub rfl)) hc.1

theorem pickCubeDDC_nored (cap : Nat) (choice : Nat → Bool) (fuel : Nat) :
    ∀ (st : St) (f : Edge), st.store.NoRed → f ≠ .term false →
      (pickCubeDDC cap choice fuel st f).2.store.NoRed ∧
      ∀ x, (pickCubeDDC cap choice fuel st f).1 = some x → x ≠ .term false := by
  induction fuel with
  | zero => intro st f h hf; exact ⟨h, fun x hx => by cases hx; exact hf⟩
  | succ fuel ih =>
    intro st f h hf
    cases f with
    | term b => exact ⟨h, fun x hx => by cases hx; exact hf⟩
    | inner i =>
      cases hi : st.store.get? i with
      | none =>
        simp only [pickCubeDDC, hi]
        exact ⟨h, fun x hx => by cases hx; exact hf⟩
      | some n =>
        simp only [pickCubeDDC, hi]
        exact pickBind_nored (ih st _ h (pickChoice_child_ne _ (h i n hi)))

theorem pickCubeDDSetC_nored (cap : Nat) (af : Nat) (fuel : Nat) :
    ∀ (st : St) (f ls : Edge), st.store.NoRed → f ≠ .term false →
      (pickCubeDDSetC cap af fuel st f ls).2.store.NoRed ∧
      ∀ x, (pickCubeDDSetC cap af fuel st f ls).1 = some x → x ≠ .term false := by
  induction fuel with
  | zero => intro st f ls h hf; exact ⟨h, fun x hx => by cases hx; exact hf⟩
  | succ fuel ih =>
    intro st f ls h hf
    cases f with
    | term b => exact ⟨h, fun x hx => by cases hx; exact hf⟩
    | inner i =>
      cases hi : st.store.get? i with
      | none =>
        simp only [pickCubeDDSetC, hi]
        exact ⟨h, fun x hx => by cases hx; exact hf⟩
      | some n =>
        simp only [pickCubeDDSetC, hi]
        exact pickBind_nored (ih st _ _ h (pickChoice_child_ne _ (h i n hi)))

/-- also for `f = ⊥` (nothing happens) -/
theorem pickCubeDDC_nored' (cap : Nat) (choice : Nat → Bool) (fuel : Nat) (st : St) (f : Edge)
    (h : st.store.NoRed) : (pickCubeDDC cap choice fuel st f).2.store.NoRed := by
  by_cases hf : f = .term false
  · subst hf; cases fuel <;> exact h
  · exact (pickCubeDDC_nored cap choice fuel st f h hf).1

theorem pickCubeDDSetC_nored' (cap : Nat) (af : Nat) (fuel : Nat) (st : St) (f ls : Edge)
    (h : st.store.NoRed) : (pickCubeDDSetC cap af fuel st f ls).2.store.NoRed := by
  by_cases hf : f = .term false
  · subst hf; cases fuel <;> exact h
  · exact (pickCubeDDSetC_nored cap af fuel st f ls h hf).1

/-! ## the counted operations keep `Canon` -/

theorem canon_of_erase {α : Type} {cap : Nat} {s : Store} {st' : St} {RC : Option α × St}
    {RS : St × α} (hc : Canon s) (B : BothG cap s RC RS) (hn : s.NoRed → RC.2.store.NoRed)
    (he : st' = RC.2) : Canon st'.store := by
  subst he
  exact ⟨B.uniq hc.uniq, hn hc.nored⟩

theorem quantR_canon (cap : Nat) (p : Policy) (q : Quant) (af fuel : Nat) (r : RSt) (f vars : Edge)
    (hc : Canon r.st.store) : Canon (quantR cap p q af fuel r f vars).2.st.store :=
  canon_of_erase hc (quantC_both cap p q af fuel r.st f vars)
    (quantC_nored cap p q af fuel r.st f vars) (C05Q.quantR_erase cap p q af fuel r f vars).2

theorem restrictR_canon (cap : Nat) (p : Policy) (fuel : Nat) (r : RSt) (f vars : Edge)
    (hc : Canon r.st.store) : Canon (restrictR cap p fuel r f vars).2.st.store :=
  canon_of_erase hc (restrictC_both cap p fuel r.st f vars).toG
    (restrictC_nored cap p fuel r.st f vars) (C05Q.restrictR_erase cap p fuel r f vars).2

theorem applyQuantR_canon (cap : Nat) (p : Policy) (q : Quant) (op : Op) (af fuel : Nat) (r : RSt)
    (f g vars : Edge) (hc : Canon r.st.store) :
    Canon (applyQuantR cap p q op af fuel r f g vars).2.st.store :=
  canon_of_erase hc (applyQuantC_both cap p q op af fuel r.st f g vars)
    (applyQuantC_nored cap p q op af fuel r.st f g vars)
    (C05Q.applyQuantR_erase cap p q op af fuel r f g vars).2

theorem substituteEdgeR_canon (cap : Nat) (p : Policy) (pairs : List (Nat × Edge)) (id : Nat)
    (af fuel : Nat) (r : RSt) (f : Edge) (hc : Canon r.st.store) :
    Canon (substituteEdgeR cap p pairs id af fuel r f).2.st.store :=
  canon_of_erase hc (substituteEdgeC_both cap p pairs id af fuel r.st f)
    (substituteEdgeC_nored cap p pairs id af fuel r.st f)
    (C05Q.substituteEdgeR_erase cap p pairs id af fuel r f).2

theorem pickCubeDDR_canon (cap : Nat) (choice : Nat → Bool) (fuel : Nat) (r : RSt) (f : Edge)
    (hc : Canon r.st.store) : Canon (pickCubeDDR cap choice fuel r f).2.st.store :=
  canon_of_erase hc (pickCubeDDC_both cap choice fuel r.st f)
    (pickCubeDDC_nored' cap choice fuel r.st f)
    (congrArg Prod.snd (pickCubeDDR_erase' cap choice fuel r f))

theorem pickCubeDDSetR_canon (cap : Nat) (af fuel : Nat) (r : RSt) (f ls : Edge)
    (hc : Canon r.st.store) : Canon (pickCubeDDSetR cap af fuel r f ls).2.st.store :=
  canon_of_erase hc (pickCubeDDSetC_both cap af fuel r.st f ls)
    (pickCubeDDSetC_nored' cap af fuel r.st f ls)
    (congrArg Prod.snd (pickCubeDDSetR_erase' cap af fuel r f ls))

theorem notR_canon (cap : Nat) (p : Policy) (fuel : Nat) (r : RSt) (f : Edge)
    (hc : Canon r.st.store) : Canon (notR cap p fuel r f).2.st.store :=
  canon_of_erase hc (notC_both cap p fuel r.st f).toG (notC_nored cap p fuel r.st f)
    (C05R.notR_erase_eq cap p fuel r f).2

theorem applyR_canon (cap : Nat) (p : Policy) (op : Op) (fuel : Nat) (r : RSt) (f g : Edge)
    (hc : Canon r.st.store) : Canon (applyR cap p op fuel r f g).2.st.store :=
  canon_of_erase hc (applyC_both cap p op fuel r.st f g).toG (applyC_nored cap p op fuel r.st f g)
    (C05R.applyR_erase cap p op fuel r f g).2

theorem iteR_canon (cap : Nat) (p : Policy) (fuel : Nat) (r : RSt) (f g h : Edge)
    (hc : Canon r.st.store) : Canon (iteR cap p fuel r f g h).2.st.store :=
  canon_of_erase hc (iteC_both cap p fuel r.st f g h).toG (iteC_nored cap p fuel r.st f g h)
    (C05R.iteR_erase cap p fuel r f g h).2

theorem mkNodeR_canon (cap : Nat) (r : RSt) (l : Nat) (t e : Edge) (hc : Canon r.st.store) :
    Canon (mkNodeR cap r l t e).2.st.store := by
  have := mkNodeR_erase cap r l t e
  cases hm : r.st.store.mkNodeC cap l t e with
  | none =>
    rw [hm] at this
    rw [this.2]; exact hc
  | some m =>
    rw [hm] at this
    rw [this.2]
    show Canon m.1
    rw [(mkNodeC_some hm).1]
    exact ⟨mkNode_unique _ _ _ _ hc.uniq, mkNode_nored _ _ _ _ hc.nored⟩

/-! ## histories -/

theorem pushRes_canon {h : HSt} {res : Option Edge × RSt} (hc : Canon res.2.st.store) :
    Canon (pushRes h res).r.st.store := by
  obtain ⟨o, r'⟩ := res
  cases o <;> exact hc

theorem pushQ_canon {h : HStQ} {res : Option Edge × RSt} (hc : Canon res.2.st.store) :
    Canon (pushQ h res).r.st.store := by
  obtain ⟨o, r'⟩ := res
  cases o <;> exact hc

theorem Cmd.run_canon (p : Policy) (c : Cmd) (h : HSt) (hc : Canon h.r.st.store) :
    Canon (c.run p h).r.st.store := by
  cases c with
  | var cap level neg => exact pushRes_canon (mkNodeR_canon cap h.r level _ _ hc)
  | not cap fuel a =>
    simp only [Cmd.run]
    cases h.hs[a]? with
    | none => exact hc
    | some f => exact pushRes_canon (notR_canon cap p fuel h.r f hc)
  | bin cap fuel op a b =>
    simp only [Cmd.run]
    cases h.hs[a]? with
    | none => exact hc
    | some f =>
      cases h.hs[b]? with
      | none => exact hc
      | some g => exact pushRes_canon (applyR_canon cap p op fuel h.r f g hc)
  | ite cap fuel a b c =>
    simp only [Cmd.run]
    cases h.hs[a]? with
    | none => exact hc
    | some f =>
      cases h.hs[b]? with
      | none => exact hc
      | some g =>
        cases h.hs[c]? with
        | none => exact hc
        | some k => exact pushRes_canon (iteR_canon cap p fuel h.r f g k hc)
  | clone a =>
    simp only [Cmd.run]
    cases h.hs[a]? with
    | none => exact hc
    | some f => simp only [cloneEdge_st]; exact hc
  | drop a =>
    simp only [Cmd.run]
    cases h.hs[a]? with
    | none => exact hc
    | some f => simp only [dropEdge_st]; exact hc
  | gc n =>
    exact ⟨unique_sub hc.uniq (gcR_sub n h.r), nored_sub hc.nored (gcR_sub n h.r)⟩

theorem CmdQ.run_canon (p : Policy) (c : CmdQ) (h : HStQ) (hc : Canon h.r.st.store) :
    Canon (c.run p h).r.st.store := by
  cases c with
  | base c => exact Cmd.run_canon p c ⟨h.r, h.hs⟩ hc
  | quant cap af fuel q a v =>
    simp only [CmdQ.run]
    cases h.hs[a]? with
    | none => exact hc
    | some f =>
      cases h.hs[v]? with
      | none => exact hc
      | some vars => exact pushQ_canon (quantR_canon cap p q af fuel h.r f vars hc)
  | applyq cap af fuel q op a b v =>
    simp only [CmdQ.run]
    cases h.hs[a]? with
    | none => exact hc
    | some f =>
      cases h.hs[b]? with
      | none => exact hc
      | some g =>
        cases h.hs[v]? with
        | none => exact hc
        | some vars => exact pushQ_canon (applyQuantR_canon cap p q op af fuel h.r f g vars hc)
  | restrict cap fuel a v =>
    simp only [CmdQ.run]
    cases h.hs[a]? with
    | none => exact hc
    | some f =>
      cases h.hs[v]? with
      | none => exact hc
      | some vars => exact pushQ_canon (restrictR_canon cap p fuel h.r f vars hc)
  | mksubst pairs =>
    simp only [CmdQ.run]
    cases resolvePairs h.hs pairs with
    | none => exact hc
    | some ps => simp only [cloneAll_st]; exact hc
  | dropsubst k =>
    simp only [CmdQ.run]
    cases h.ss[k]? with
    | none => exact hc
    | some ps => simp only [dropAll_st]; exact hc
  | subst cap af fuel id a k =>
    simp only [CmdQ.run]
    cases h.hs[a]? with
    | none => exact hc
    | some f =>
      cases h.ss[k]? with
      | none => exact hc
      | some ps => exact pushQ_canon (substituteEdgeR_canon cap p ps id af fuel h.r f hc)
  | pick cap fuel choice a =>
    simp only [CmdQ.run]
    cases h.hs[a]? with
    | none => exact hc
    | some f => exact pushQ_canon (pickCubeDDR_canon cap choice fuel h.r f hc)
  | pickset cap af fuel a b =>
    simp only [CmdQ.run]
    cases h.hs[a]? with
    | none => exact hc
    | some f =>
      cases h.hs[b]? with
      | none => exact hc
      | some ls => exact pushQ_canon (pickCubeDDSetR_canon cap af fuel h.r f ls hc)

theorem runAllQ_canon (p : Policy) : ∀ (cmds : List CmdQ) (h : HStQ), Canon h.r.st.store →
    Canon (runAllQ p cmds h).r.st.store := by
  intro cmds
  induction cmds with
  | nil => intro h hc; exact hc
  | cons c cs ih => intro h hc; exact ih _ (CmdQ.run_canon p c h hc)

/-! ## every stored edge denotes a tree -/

theorem denotes_exists {r : RSt} {ext : List Edge} {N : Nat} (hrc : RcInv r ext) (ho : OrdInvX N r) :
    ∀ (k : Nat) (f : Edge), Above r.st.store (N - k) f → ∃ a, Denotes r.st.store f a := by
  intro k
  induction k with
  | zero =>
    intro f hf
    cases f with
    | term b => exact ⟨_, .term⟩
    | inner i =>
      obtain ⟨n, hn, hl⟩ := hf
      have := ho.bound i n hn
      omega
  | succ k ih =>
    intro f hf
    cases f with
    | term b => exact ⟨_, .term⟩
    | inner i =>
      obtain ⟨n, hn, hl⟩ := hf
      have hb := ho.bound i n hn
      obtain ⟨ct, ce⟩ := child_aboveX hrc ho hn
      obtain ⟨tt, htt⟩ := ih n.t (ct.weaken (by omega))
      obtain ⟨te, hte⟩ := ih n.e (ce.weaken (by omega))
      exact ⟨.node n.level tt te, .inner (l := n.level) (t := n.t) (e := n.e) hn htt hte⟩

theorem denotes_exists_has {r : RSt} {ext : List Edge} {N : Nat} (hrc : RcInv r ext)
    (ho : OrdInvX N r) {f : Edge} (hf : r.st.store.has f) : ∃ a, Denotes r.st.store f a :=
  denotes_exists hrc ho N f ((has_above_zero hf).weaken (by omega))

end OxiddModel.Bdd.Rc
