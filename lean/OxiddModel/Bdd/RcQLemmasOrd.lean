import OxiddModel.Bdd.RcQHistory
import OxiddModel.Bdd.RcSLemmasOrd

/-!
# Orderedness with the extended cache keys: the invariant, `reduce`, the combinators, `not`/binary/`ite`

`RcSLemmasOrd.lean` shows that `apply_not`, `apply_bin`, `apply_ite` keep the store ordered
(children on strictly larger levels, all levels `< N`); its cache invariant `CacheLv` demands that
**every** operand of a cache key is a stored node and bounds the level of the cached result. With
the keys of `quant`, `apply_quant`, `restrict`, `substitute` (`CacheX.encKey`) this is false: the
operand list starts with the operator code and the arity, ends with the substitution id, the
variable set of `quant` bounds nothing, and the result of `substitute` is not bounded by its
operand at all.

`boundOps k` reads the *format* of a key and returns the operands that bound the result
(`none`: no bound, the case of `substitute`):

| key                                             | bounding operands |
|-------------------------------------------------|-------------------|
| `(Not, [f])`, `(tagOf op, [a, b])`, `(Ite, [f, g, h])` | all          |
| `encKey (quantKey q f vars)`                    | `[f]`             |
| `encKey (restrictKey f vars)`                   | `[f]`             |
| `encKey (applyQuantKey q op f g vars)`          | `[f, g]`          |
| `encKey (substKey f id)`                        | none              |

`CacheLvX`: for every entry whose key has bounding operands `ops`: they are stored, and if all of
them are at level `≥ L`, so is the cached result. `OrdInvX N r` = ordered + levels `< N` +
`CacheLvX`. This file re-proves the lemmas of `RcSLemmasOrd.lean` under `OrdInvX` (the cache now
also holds the extended entries while `not`/binary/`ite` run) and gives the level lemmas for the
combinators of `RcQ.lean` (`pairR`, `combR`, `guardR`, `addR`) and for `get_or_insert`.
-/
namespace OxiddModel.Bdd.Rc
open OxiddModel.Bdd OxiddModel.Bdd.BDD OxiddModel.Bdd.Refine

/-! ## the format of a key -/

/-- the operands of a cache key that bound the level of the cached result from below; `none`: the
key gives no bound (`substitute`, and operand lists no algorithm builds) -/
def boundOps (k : Key) : Option (List Edge) :=
  match k with
  | (.not, es) =>
    match es with
    | [f] => some [f]
    | .inner c :: _ :: rest =>
      if c = 10 then none            -- `Substitute`
      else if c < 15 then some (rest.take 1) -- `Restrict`, `Forall`, `Exists`, `Unique`
      else some (rest.take 2)        -- `ForallAnd` … `UniqueImpStrict`
    | _ => none
  | (_, es) => some es

theorem boundOps_not (f : Edge) : boundOps (.not, [f]) = some [f] := rfl

theorem boundOps_bin (op : Op) (o1 o2 : Edge) : boundOps (tagOf op, [o1, o2]) = some [o1, o2] := by
  cases op <;> rfl

theorem boundOps_ite (f g h : Edge) : boundOps (.ite, [f, g, h]) = some [f, g, h] := rfl

theorem boundOps_quant (q : Quant) (f vars : Edge) :
    boundOps (encKey (quantKey q f vars)) = some [f] := by
  cases q <;> rfl

theorem boundOps_restrict (f vars : Edge) : boundOps (encKey (restrictKey f vars)) = some [f] := rfl

theorem boundOps_applyQuant (q : Quant) (op : Op) (f g vars : Edge) :
    boundOps (encKey (applyQuantKey q op f g vars)) = some [f, g] := by
  cases q <;> cases op <;> rfl

theorem boundOps_subst (f : Edge) (id : Nat) : boundOps (encKey (substKey f id)) = none := rfl

/-! ## the invariant -/

/-- what an entry `key ↦ v` must satisfy: the bounding operands of the key are stored and bound
the level of `v` -/
def EntryLv (s : Store) (key : Key) (v : Edge) : Prop :=
  ∀ ops, boundOps key = some ops →
    (∀ o ∈ ops, s.has o) ∧ ∀ L, (∀ o ∈ ops, Above s L o) → Above s L v

/-- cache entries respect levels (key-format aware) -/
def CacheLvX (s : Store) (c : Cache) : Prop := ∀ k v, (k, v) ∈ c → EntryLv s k v

theorem EntryLv.mono {s s' : Store} {k : Key} {v : Edge} (h : EntryLv s k v) (hle : s.Le s') :
    EntryLv s' k v := by
  intro ops hops
  obtain ⟨h1, h2⟩ := h ops hops
  refine ⟨fun o ho => (h1 o ho).mono hle, fun L hL => ?_⟩
  exact (h2 L (fun o ho => Above.of_le_has hle (h1 o ho) (hL o ho))).mono hle

theorem CacheLvX.mono {s s' : Store} {c : Cache} (h : CacheLvX s c) (hle : s.Le s') :
    CacheLvX s' c := fun k v hkv => (h k v hkv).mono hle

structure OrdInvX (N : Nat) (r : RSt) : Prop where
  ord : r.st.store.Ordered
  bound : ∀ i n, r.st.store.get? i = some n → n.level < N
  cache : CacheLvX r.st.store r.st.cache

theorem OrdInvX.tickd {N : Nat} {r : RSt} (h : OrdInvX N r) : OrdInvX N r.tickd :=
  ⟨h.ord, h.bound, h.cache⟩

theorem OrdInvX.of_st {N : Nat} {r r' : RSt} (h : OrdInvX N r) (hs : r'.st = r.st) :
    OrdInvX N r' := by
  refine ⟨?_, ?_, ?_⟩
  · rw [hs]; exact h.ord
  · rw [hs]; exact h.bound
  · rw [hs]; exact h.cache

/-- the old invariant is the new one on a cache without entries -/
theorem ordinvX_empty (N : Nat) : OrdInvX N RSt.empty := by
  refine ⟨?_, ?_, ?_⟩
  · intro i n k m hi; simp [RSt.empty, Store.get?] at hi
  · intro i n hi; simp [RSt.empty, Store.get?] at hi
  · intro k v hkv; cases hkv

/-- postcondition: invariant kept, a result is at level `≥ L` -/
def OrdPostX (N L : Nat) (R : Option Edge × RSt) : Prop :=
  OrdInvX N R.2 ∧ ∀ x, R.1 = some x → Above R.2.st.store L x

theorem OrdPostX.weaken {N L L' : Nat} {R : Option Edge × RSt} (hL : L' ≤ L) (h : OrdPostX N L R) :
    OrdPostX N L' R := ⟨h.1, fun x hx => (h.2 x hx).weaken hL⟩

theorem OrdPostX.clone {N L : Nat} {r : RSt} {x : Edge} (h : OrdInvX N r)
    (hx : Above r.st.store L x) : OrdPostX N L (some x, cloneEdge r x) := by
  refine ⟨h.of_st (cloneEdge_st r x), ?_⟩
  intro y hy
  cases hy
  simp only [cloneEdge_st]
  exact hx

theorem OrdPostX.clone_tickd {N L : Nat} {r : RSt} {x : Edge} (h : OrdInvX N r)
    (hx : Above r.st.store L x) : OrdPostX N L (some x, cloneEdge r.tickd x) :=
  OrdPostX.clone (r := r.tickd) h.tickd hx

theorem OrdPostX.const {N L : Nat} {r : RSt} {b : Bool} (h : OrdInvX N r) :
    OrdPostX N L (some (.term b), r) := ⟨h, fun x hx => by cases hx; trivial⟩

/-- children are strictly below their parent -/
theorem child_aboveX {r : RSt} {ext : List Edge} {N : Nat} (hrc : RcInv r ext) (ho : OrdInvX N r)
    {i : Nat} {n : Node} (hi : r.st.store.get? i = some n) :
    Above r.st.store (n.level + 1) n.t ∧ Above r.st.store (n.level + 1) n.e := by
  obtain ⟨h1, h2⟩ := hrc.kids_ok i n hi
  constructor
  · cases ht : n.t with
    | term b => trivial
    | inner j =>
      rw [ht] at h1
      obtain ⟨m, hm⟩ := h1
      exact ⟨m, hm, ho.ord i n j m hi (.inl ht) hm⟩
  · cases he : n.e with
    | term b => trivial
    | inner j =>
      rw [he] at h2
      obtain ⟨m, hm⟩ := h2
      exact ⟨m, hm, ho.ord i n j m hi (.inr he) hm⟩

/-- a cache hit is at the level of the key's bounding operands -/
theorem hit_above {p : Policy} (pok : p.OK) {N : Nat} {r : RSt} (ho : OrdInvX N r) {key : Key}
    {x : Edge} {ops : List Edge} {L : Nat} (hget : p.get r.st.tick r.st.cache key = some x)
    (hops : boundOps key = some ops) (hL : ∀ o ∈ ops, Above r.st.store L o) :
    Above r.st.store L x :=
  ((ho.cache _ _ (pok.get_mem _ _ _ _ hget)) ops hops).2 L hL

/-! ## `get_or_insert`, `reduce` -/

theorem getOrInsertR_ordX {N cap : Nat} {r : RSt} {l : Nat} {t e : Edge} {ext : List Edge}
    (hrc : RcInv r (t :: e :: ext)) (ho : OrdInvX N r) (hl : l < N)
    (ht : Above r.st.store (l + 1) t) (he : Above r.st.store (l + 1) e) :
    OrdPostX N l (getOrInsertR cap r l t e) := by
  unfold getOrInsertR
  cases hf : r.st.store.find? ⟨l, t, e⟩ with
  | some i =>
    simp only
    refine ⟨ho.of_st (by simp), ?_⟩
    intro x hx; cases hx
    simp only [cloneEdge_st, dropEdge_st]
    exact ⟨_, find?_some hf, Nat.le_refl _⟩
  | none =>
    simp only
    by_cases hc : r.st.store.count < cap
    · simp only [hc, if_true]
      have hle := alloc_le r.st.store ⟨l, t, e⟩
      have hfresh := alloc_fresh r.st.store ⟨l, t, e⟩
      generalize hj : (r.st.store.alloc ⟨l, t, e⟩).2 = j at hfresh
      have hget := get?_alloc r.st.store ⟨l, t, e⟩
      rw [hj] at hget
      have hnot : ∀ x : Edge, r.st.store.has x → x ≠ .inner j := by
        intro x hx hxe
        subst hxe
        obtain ⟨n, hn⟩ := hx
        rw [hfresh] at hn; cases hn
      refine ⟨⟨?_, ?_, ?_⟩, ?_⟩
      · -- ordered
        intro i n k m hi hch hk
        simp only [hget] at hi hk
        split at hi
        · cases hi
          have hkj : k ≠ j := by
            intro hkj; subst hkj
            rcases hch with hch | hch
            · exact hnot t ht.has hch
            · exact hnot e he.has hch
          simp only [hkj, if_false] at hk
          rcases hch with hch | hch
          · simp only at hch; rw [hch] at ht
            have := ht.level_le hk; simp only; omega
          · simp only at hch; rw [hch] at he
            have := he.level_le hk; simp only; omega
        · have hk' := hrc.kids_ok i n hi
          have hkj : k ≠ j := by
            intro hkj; subst hkj
            rcases hch with hch | hch
            · exact hnot _ hk'.1 hch
            · exact hnot _ hk'.2 hch
          simp only [hkj, if_false] at hk
          exact ho.ord i n k m hi hch hk
      · intro i n hi
        simp only [hget] at hi
        split at hi
        · cases hi; exact hl
        · exact ho.bound i n hi
      · exact ho.cache.mono hle
      · intro x hx; cases hx
        exact ⟨⟨l, t, e⟩, by simp [hget], Nat.le_refl _⟩
    · simp only [hc, if_false]
      refine ⟨ho.of_st (by simp), ?_⟩
      intro x hx; cases hx

theorem mkNodeR_ordX {N cap : Nat} {r : RSt} {l : Nat} {t e : Edge} {ext : List Edge}
    (hrc : RcInv r (t :: e :: ext)) (ho : OrdInvX N r) (hl : l < N)
    (ht : Above r.st.store (l + 1) t) (he : Above r.st.store (l + 1) e) :
    OrdPostX N l (mkNodeR cap r l t e) := by
  by_cases hte : t = e
  · unfold mkNodeR
    simp only [hte, if_true]
    refine ⟨ho.of_st (dropEdge_st r e), ?_⟩
    intro x hx; cases hx
    simp only [dropEdge_st]
    exact he.weaken (by omega)
  · rw [← getOrInsertR_eq_mkNodeR hte]
    exact getOrInsertR_ordX hrc ho hl ht he

/-! ## the cache add -/

theorem addR_ordX {p : Policy} (pok : p.OK) {N : Nat} {r : RSt} {key : Key} {h : Edge}
    (ho : OrdInvX N r) (hent : EntryLv r.st.store key h) : OrdInvX N (addR p r key h) := by
  refine ⟨ho.ord, ho.bound, ?_⟩
  intro k v hkv
  simp only [addR] at hkv ⊢
  rcases pok.add_sub _ _ _ _ _ hkv with hold | hnew
  · exact ho.cache k v hold
  · cases hnew; exact hent

/-- the entry made of a key whose bounding operands are at level `≤ l` at most and a result at
level `≥ l` -/
theorem entryLv_of_bound {s s' : Store} {key : Key} {x : Edge} {l : Nat} (hle : s.Le s')
    (hkey : ∀ ops, boundOps key = some ops →
      (∀ o ∈ ops, s.has o) ∧ ∀ L, (∀ o ∈ ops, Above s L o) → L ≤ l)
    (hx : Above s' l x) : EntryLv s' key x := by
  intro ops hops
  obtain ⟨h1, h2⟩ := hkey ops hops
  refine ⟨fun o ho' => (h1 o ho').mono hle, fun L hL => ?_⟩
  have : L ≤ l := h2 L (fun o ho' => Above.of_le_has hle (h1 o ho') (hL o ho'))
  exact hx.weaken this

theorem finishR_eq (cap : Nat) (p : Policy) (r : RSt) (key : Key) (l : Nat) (t e : Edge) :
    finishR cap p r key l t e =
      match mkNodeR cap r l t e with
      | (none, r') => (none, r')
      | (some h, r') => (some h, addR p r' key h) := rfl

/-- `reduce(..)?` + cache add -/
theorem finishR_ordX {p : Policy} (pok : p.OK) {N cap : Nat} {r : RSt} {key : Key} {l : Nat}
    {t e : Edge} {ext : List Edge} (hrc : RcInv r (t :: e :: ext)) (ho : OrdInvX N r) (hl : l < N)
    (ht : Above r.st.store (l + 1) t) (he : Above r.st.store (l + 1) e)
    (hkey : ∀ ops, boundOps key = some ops →
      (∀ o ∈ ops, r.st.store.has o) ∧ ∀ L, (∀ o ∈ ops, Above r.st.store L o) → L ≤ l) :
    OrdPostX N l (finishR cap p r key l t e) := by
  have hm := mkNodeR_ordX (cap := cap) hrc ho hl ht he
  have hle := mkNodeR_le cap r l t e
  rw [finishR_eq]
  cases hR : mkNodeR cap r l t e with
  | mk o r' =>
    rw [hR] at hm hle
    cases o with
    | none => exact ⟨hm.1, fun x hx => by cases hx⟩
    | some x =>
      simp only at hle ⊢
      have hx := hm.2 x rfl
      simp only at hx
      refine ⟨addR_ordX pok hm.1 (entryLv_of_bound hle hkey hx), ?_⟩
      intro y hy; cases hy
      simp only [addR_st]
      exact hx

/-! ## the combinators -/

theorem forkR_ordX {p : Policy} (pok : p.OK) {N cap : Nat} {key : Key} {l : Nat}
    {c1 c0 : RSt → Option Edge × RSt} {r : RSt} {ext : List Edge} (hl : l < N)
    (h1 : RcPost r ext (c1 r)) (h1o : OrdPostX N (l + 1) (c1 r))
    (h0 : ∀ t r1, RcInv r1 (t :: ext) → r.st.store.Le r1.st.store → OrdInvX N r1 →
      RcPost r1 (t :: ext) (c0 r1) ∧ OrdPostX N (l + 1) (c0 r1))
    (hkey : ∀ ops, boundOps key = some ops →
      (∀ o ∈ ops, r.st.store.has o) ∧ ∀ L, (∀ o ∈ ops, Above r.st.store L o) → L ≤ l) :
    OrdPostX N l (forkR cap p key l c1 c0 r) := by
  unfold forkR
  cases hc1 : c1 r with
  | mk o1 r1 =>
    rw [hc1] at h1 h1o
    cases o1 with
    | none => exact ⟨h1o.1, fun x hx => by cases hx⟩
    | some t =>
      obtain ⟨le1, i1⟩ := h1
      simp only at i1 le1 ⊢
      have ht1 := h1o.2 t rfl
      simp only at ht1
      obtain ⟨h0r, h0o⟩ := h0 t r1 i1 le1 h1o.1
      cases hc0 : c0 r1 with
      | mk o0 r0 =>
        rw [hc0] at h0r h0o
        obtain ⟨le0, i0⟩ := h0r
        cases o0 with
        | none =>
          simp only
          exact ⟨h0o.1.of_st (dropEdge_st r0 t), fun x hx => by cases hx⟩
        | some e =>
          simp only at i0 le0 ⊢
          have he0 := h0o.2 e rfl
          simp only at he0
          have hle := le1.trans le0
          refine finishR_ordX pok i0.swap h0o.1 hl (ht1.mono le0) he0 ?_
          intro ops hops
          obtain ⟨k1, k2⟩ := hkey ops hops
          exact ⟨fun o ho' => (k1 o ho').mono hle,
            fun L hL => k2 L (fun o ho' => Above.of_le_has hle (k1 o ho') (hL o ho'))⟩

/-- `rec.binary/ternary/subst`: both sub-results at level `≥ L1`, the continuation decides -/
theorem pairR_ordX {N L1 L : Nat} {c1 c0 : RSt → Option Edge × RSt}
    {k : Edge → Edge → RSt → Option Edge × RSt} {r : RSt} {ext : List Edge}
    (h1 : RcPost r ext (c1 r)) (h1o : OrdPostX N L1 (c1 r))
    (h0 : ∀ t r1, RcInv r1 (t :: ext) → r.st.store.Le r1.st.store → OrdInvX N r1 →
      RcPost r1 (t :: ext) (c0 r1) ∧ OrdPostX N L1 (c0 r1))
    (hk : ∀ t e r0, RcInv r0 (t :: e :: ext) → r.st.store.Le r0.st.store → OrdInvX N r0 →
      Above r0.st.store L1 t → Above r0.st.store L1 e → OrdPostX N L (k t e r0)) :
    OrdPostX N L (pairR c1 c0 k r) := by
  unfold pairR
  cases hc1 : c1 r with
  | mk o1 r1 =>
    rw [hc1] at h1 h1o
    cases o1 with
    | none => exact ⟨h1o.1, fun x hx => by cases hx⟩
    | some t =>
      obtain ⟨le1, i1⟩ := h1
      simp only at i1 le1 ⊢
      have ht1 := h1o.2 t rfl
      simp only at ht1
      obtain ⟨h0r, h0o⟩ := h0 t r1 i1 le1 h1o.1
      cases hc0 : c0 r1 with
      | mk o0 r0 =>
        rw [hc0] at h0r h0o
        obtain ⟨le0, i0⟩ := h0r
        cases o0 with
        | none =>
          simp only
          exact ⟨h0o.1.of_st (dropEdge_st r0 t), fun x hx => by cases hx⟩
        | some e =>
          simp only at i0 le0 ⊢
          have he0 := h0o.2 e rfl
          simp only at he0
          exact hk t e r0 i0.swap (le1.trans le0) h0o.1 (ht1.mono le0) he0

/-- the borrowed call on the two guards, the cache add, the drops -/
theorem combR_ordX {p : Policy} (pok : p.OK) {N L : Nat} {key : Key}
    {c : RSt → Option Edge × RSt} {t e : Edge} {r0 : RSt}
    (hle : r0.st.store.Le (c r0).2.st.store) (hc : OrdPostX N L (c r0))
    (hkey : ∀ ops, boundOps key = some ops →
      (∀ o ∈ ops, r0.st.store.has o) ∧ ∀ L', (∀ o ∈ ops, Above r0.st.store L' o) → L' ≤ L) :
    OrdPostX N L (combR p key c t e r0) := by
  unfold combR
  cases hcr : c r0 with
  | mk o r2 =>
    rw [hcr] at hc hle
    cases o with
    | none =>
      simp only
      exact ⟨hc.1.of_st (by simp only [dropEdge_st]), fun x hx => by cases hx⟩
    | some h =>
      simp only at hle ⊢
      have hh := hc.2 h rfl
      simp only at hh
      refine ⟨(addR_ordX pok hc.1 (entryLv_of_bound hle hkey hh)).of_st
        (by simp only [dropEdge_st]), ?_⟩
      intro y hy; cases hy
      simp only [dropEdge_st, addR_st]
      exact hh

theorem guardR_ordX {N L : Nat} {x : Edge} {c : RSt → Option Edge × RSt} {r : RSt}
    (hc : OrdPostX N L (c r)) : OrdPostX N L (guardR x c r) := by
  unfold guardR
  refine ⟨hc.1.of_st (dropEdge_st _ _), ?_⟩
  intro y hy
  simp only [dropEdge_st]
  exact hc.2 y hy

/-! ## cofactors -/

theorem cofT_aboveX {r : RSt} {ext : List Edge} {N : Nat} (hrc : RcInv r ext) (ho : OrdInvX N r)
    {f : Edge} {lf l : Nat} (hlf : r.st.store.level? f = some lf) (hle : l ≤ lf) :
    Above r.st.store (l + 1) (r.st.store.cofT l f) := by
  obtain ⟨i, n, rfl, hi, hn⟩ := level?_some hlf
  simp only [Store.cofT, hi]
  split
  · rename_i heq
    have := (child_aboveX hrc ho hi).1
    rw [heq] at this; exact this
  · rename_i hne
    exact ⟨n, hi, by omega⟩

theorem cofE_aboveX {r : RSt} {ext : List Edge} {N : Nat} (hrc : RcInv r ext) (ho : OrdInvX N r)
    {f : Edge} {lf l : Nat} (hlf : r.st.store.level? f = some lf) (hle : l ≤ lf) :
    Above r.st.store (l + 1) (r.st.store.cofE l f) := by
  obtain ⟨i, n, rfl, hi, hn⟩ := level?_some hlf
  simp only [Store.cofE, hi]
  split
  · rename_i heq
    have := (child_aboveX hrc ho hi).2
    rw [heq] at this; exact this
  · rename_i hne
    exact ⟨n, hi, by omega⟩

/-! ## `apply_not`, `apply_bin`, `apply_ite` under the extended invariant -/

theorem notR_ordX {p : Policy} (pok : p.OK) (N cap : Nat) (fuel : Nat) :
    ∀ (r : RSt) (f : Edge) (ext : List Edge) (L : Nat), RcInv r ext → OrdInvX N r →
      Above r.st.store L f → OrdPostX N L (notR cap p fuel r f) := by
  induction fuel with
  | zero => intro r f ext L _ ho hf; exact OrdPostX.clone ho hf
  | succ fuel ih =>
    intro r f ext L hrc ho hf
    cases f with
    | term b => exact OrdPostX.clone (x := .term (!b)) ho trivial
    | inner i =>
      simp only [notR]
      cases hget : p.get r.st.tick r.st.cache (.not, [.inner i]) with
      | some x =>
        refine OrdPostX.clone_tickd ho ?_
        exact hit_above pok ho hget (boundOps_not _) (fun o ho' => by
          simp only [List.mem_singleton] at ho'; subst ho'; exact hf)
      | none =>
        cases hi : r.st.store.get? i with
        | none => exact OrdPostX.clone_tickd ho hf
        | some n =>
          simp only
          have hk := hrc.kids_ok i n hi
          have hca := child_aboveX hrc ho hi
          have hLn := hf.level_le hi
          refine OrdPostX.weaken hLn ?_
          refine forkR_ordX pok (N := N) (cap := cap) (key := (.not, [.inner i])) (l := n.level)
            (c1 := fun s => notR cap p fuel s n.t) (c0 := fun s => notR cap p fuel s n.e)
            (r := r.tickd) (ext := ext) (ho.bound i n hi)
            (notR_rc pok cap fuel _ _ _ hrc.tickd hk.1) (ih _ _ _ _ hrc.tickd ho.tickd hca.1)
            (fun t r1 i1 le1 o1 =>
              ⟨notR_rc pok cap fuel _ _ _ i1 (hk.2.mono le1), ih _ _ _ _ i1 o1 (hca.2.mono le1)⟩)
            ?_
          intro ops hops
          rw [boundOps_not] at hops
          cases hops
          refine ⟨fun o ho' => ?_, fun L' hL' => ?_⟩
          · simp only [List.mem_singleton] at ho'; subst ho'; exact ⟨n, hi⟩
          · exact (hL' (.inner i) (by simp)).level_le hi

theorem applyR_ordX {p : Policy} (pok : p.OK) (N cap : Nat) (op : Op) (fuel : Nat) :
    ∀ (r : RSt) (f g : Edge) (ext : List Edge) (L : Nat), RcInv r ext → OrdInvX N r →
      Above r.st.store L f → Above r.st.store L g → OrdPostX N L (applyR cap p op fuel r f g) := by
  induction fuel with
  | zero => intro r f g ext L _ ho hf _; exact OrdPostX.clone ho hf
  | succ fuel ih =>
    intro r f g ext L hrc ho hf hg
    simp only [applyR]
    have hshape := terminalBinS_shape op f g
    cases hT : terminalBinS op f g with
    | done x =>
      rw [hT] at hshape
      refine OrdPostX.clone ho ?_
      rcases hshape with rfl | rfl | ⟨b, rfl⟩
      · exact hf
      · exact hg
      · trivial
    | notOf x =>
      rw [hT] at hshape
      refine notR_ordX pok N cap fuel r x ext L hrc ho ?_
      rcases hshape with rfl | rfl
      · exact hf
      · exact hg
    | binary tag o1 o2 =>
      simp only
      obtain ⟨htag, hops⟩ := terminalBinS_tag op f g tag o1 o2 hT
      subst htag
      have hkeyA : ∀ L', (∀ o ∈ [o1, o2], Above r.st.store L' o) →
          Above r.st.store L' f ∧ Above r.st.store L' g := by
        intro L' h
        have h1 := h o1 (by simp)
        have h2 := h o2 (by simp)
        rcases hops with ⟨rfl, rfl⟩ | ⟨_, rfl, rfl⟩
        · exact ⟨h1, h2⟩
        · exact ⟨h2, h1⟩
      have hkeyAll : ∀ o ∈ [o1, o2], Above r.st.store L o := by
        intro o ho'
        simp only [List.mem_cons, List.mem_nil_iff, or_false] at ho'
        rcases hops with ⟨rfl, rfl⟩ | ⟨_, rfl, rfl⟩ <;> rcases ho' with rfl | rfl <;> assumption
      cases hget : p.get r.st.tick r.st.cache (tagOf op, [o1, o2]) with
      | some x =>
        exact OrdPostX.clone_tickd ho (hit_above pok ho hget (boundOps_bin op o1 o2) hkeyAll)
      | none =>
        cases hlf : r.st.store.level? f with
        | none => exact OrdPostX.clone_tickd ho hf
        | some lf =>
          cases hlg : r.st.store.level? g with
          | none => exact OrdPostX.clone_tickd ho hf
          | some lg =>
            simp only
            have hLf := above_level? hf hlf
            have hLg := above_level? hg hlg
            obtain ⟨i, nf, _, hi, hnf⟩ := level?_some hlf
            have hlN : min lf lg < N := by
              have := ho.bound i nf hi; omega
            refine OrdPostX.weaken (show L ≤ min lf lg by omega) ?_
            refine forkR_ordX pok (N := N) (cap := cap) (r := r.tickd) (ext := ext) hlN
              (c1 := fun s => applyR cap p op fuel s (r.st.store.cofT (min lf lg) f) (r.st.store.cofT (min lf lg) g))
              (c0 := fun s => applyR cap p op fuel s (r.st.store.cofE (min lf lg) f) (r.st.store.cofE (min lf lg) g))
              (applyR_rc pok cap op fuel _ _ _ _ hrc.tickd (cofT_has hrc _ hf.has) (cofT_has hrc _ hg.has))
              (ih _ _ _ _ _ hrc.tickd ho.tickd (cofT_aboveX hrc ho hlf (by omega))
                (cofT_aboveX hrc ho hlg (by omega)))
              (fun t r1 i1 le1 o1 =>
                ⟨applyR_rc pok cap op fuel _ _ _ _ i1 ((cofE_has hrc _ hf.has).mono le1)
                  ((cofE_has hrc _ hg.has).mono le1),
                 ih _ _ _ _ _ i1 o1 ((cofE_aboveX hrc ho hlf (by omega)).mono le1)
                  ((cofE_aboveX hrc ho hlg (by omega)).mono le1)⟩)
              ?_
            intro ops hops'
            rw [boundOps_bin] at hops'
            cases hops'
            refine ⟨fun o ho' => (hkeyAll o ho').has, fun L' hL' => ?_⟩
            obtain ⟨a, b⟩ := hkeyA L' hL'
            have := above_level? a hlf
            have := above_level? b hlg
            omega

theorem iteR_ordX {p : Policy} (pok : p.OK) (N cap : Nat) (fuel : Nat) :
    ∀ (r : RSt) (f g h : Edge) (ext : List Edge) (L : Nat), RcInv r ext → OrdInvX N r →
      Above r.st.store L f → Above r.st.store L g → Above r.st.store L h →
      OrdPostX N L (iteR cap p fuel r f g h) := by
  induction fuel with
  | zero => intro r f g h ext L _ ho hf _ _; exact OrdPostX.clone ho hf
  | succ fuel ih =>
    intro r f g h ext L hrc ho hf hg hh
    simp only [iteR]
    by_cases hgh : g = h
    · simp only [hgh, if_true]; exact OrdPostX.clone ho hh
    · simp only [hgh, if_false]
      by_cases hfg : f = g
      · simp only [hfg, if_true]; exact applyR_ordX pok N cap _ fuel r _ _ ext L hrc ho hg hh
      · simp only [hfg, if_false]
        by_cases hfh : f = h
        · simp only [hfh, if_true]; exact applyR_ordX pok N cap _ fuel r _ _ ext L hrc ho hh hg
        · simp only [hfh, if_false]
          cases f with
          | term b =>
            simp only
            cases b
            · exact OrdPostX.clone ho hh
            · exact OrdPostX.clone ho hg
          | inner i =>
            cases g with
            | term y =>
              cases h with
              | term z =>
                cases y
                · exact notR_ordX pok N cap fuel r _ ext L hrc ho hf
                · exact OrdPostX.clone ho hf
              | inner k => cases y <;> exact applyR_ordX pok N cap _ fuel r _ _ ext L hrc ho hf hh
            | inner j =>
              cases h with
              | term z => cases z <;> exact applyR_ordX pok N cap _ fuel r _ _ ext L hrc ho hf hg
              | inner k =>
                simp only
                have hkeyAll : ∀ o ∈ [Edge.inner i, Edge.inner j, Edge.inner k], Above r.st.store L o := by
                  intro o ho'
                  simp only [List.mem_cons, List.mem_nil_iff, or_false] at ho'
                  rcases ho' with rfl | rfl | rfl <;> assumption
                cases hget : p.get r.st.tick r.st.cache (.ite, [.inner i, .inner j, .inner k]) with
                | some x =>
                  exact OrdPostX.clone_tickd ho (hit_above pok ho hget (boundOps_ite _ _ _) hkeyAll)
                | none =>
                  simp only
                  cases hlf : r.st.store.level? (.inner i) with
                  | none => exact OrdPostX.clone_tickd ho hf
                  | some lf =>
                    cases hlg : r.st.store.level? (.inner j) with
                    | none => exact OrdPostX.clone_tickd ho hf
                    | some lg =>
                      cases hlh : r.st.store.level? (.inner k) with
                      | none => exact OrdPostX.clone_tickd ho hf
                      | some lh =>
                        simp only
                        have hLf := above_level? hf hlf
                        have hLg := above_level? hg hlg
                        have hLh := above_level? hh hlh
                        obtain ⟨i', nf, _, hi, hnf⟩ := level?_some hlf
                        have hlN : min (min lf lg) lh < N := by
                          have := ho.bound i' nf hi; omega
                        refine OrdPostX.weaken (show L ≤ min (min lf lg) lh by omega) ?_
                        refine forkR_ordX pok (N := N) (cap := cap) (r := r.tickd) (ext := ext) hlN
                          (c1 := fun s => iteR cap p fuel s (r.st.store.cofT (min (min lf lg) lh) (.inner i))
                            (r.st.store.cofT (min (min lf lg) lh) (.inner j)) (r.st.store.cofT (min (min lf lg) lh) (.inner k)))
                          (c0 := fun s => iteR cap p fuel s (r.st.store.cofE (min (min lf lg) lh) (.inner i))
                            (r.st.store.cofE (min (min lf lg) lh) (.inner j)) (r.st.store.cofE (min (min lf lg) lh) (.inner k)))
                          (iteR_rc pok cap fuel _ _ _ _ _ hrc.tickd (cofT_has hrc _ hf.has)
                            (cofT_has hrc _ hg.has) (cofT_has hrc _ hh.has))
                          (ih _ _ _ _ _ _ hrc.tickd ho.tickd (cofT_aboveX hrc ho hlf (by omega))
                            (cofT_aboveX hrc ho hlg (by omega)) (cofT_aboveX hrc ho hlh (by omega)))
                          (fun t r1 i1 le1 o1 =>
                            ⟨iteR_rc pok cap fuel _ _ _ _ _ i1 ((cofE_has hrc _ hf.has).mono le1)
                              ((cofE_has hrc _ hg.has).mono le1) ((cofE_has hrc _ hh.has).mono le1),
                             ih _ _ _ _ _ _ i1 o1 ((cofE_aboveX hrc ho hlf (by omega)).mono le1)
                              ((cofE_aboveX hrc ho hlg (by omega)).mono le1)
                              ((cofE_aboveX hrc ho hlh (by omega)).mono le1)⟩)
                          ?_
                        intro ops hops'
                        rw [boundOps_ite] at hops'
                        cases hops'
                        refine ⟨fun o ho' => (hkeyAll o ho').has, fun L' hL' => ?_⟩
                        have a := above_level? (hL' (.inner i) (by simp)) hlf
                        have b := above_level? (hL' (.inner j) (by simp)) hlg
                        have c := above_level? (hL' (.inner k) (by simp)) hlh
                        omega

end OxiddModel.Bdd.Rc
