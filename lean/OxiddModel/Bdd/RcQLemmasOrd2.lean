import OxiddModel.Bdd.RcQLemmasOrd

/-!
# `quant`, `restrict`, `apply_quant` keep the store ordered

With the function operand(s) at level `≥ L` (the variable set only has to point into the store)
the result is at level `≥ L` and `OrdInvX` is kept — on success and on OutOfMemory at any
allocation point: `quantR_ordX`, `restrictR_ordX`, `aqBodyR_ordX`, `applyQuantR_ordX`.
-/
namespace OxiddModel.Bdd.Rc
open OxiddModel.Bdd OxiddModel.Bdd.BDD OxiddModel.Bdd.Refine

/-! ## `quant` -/

theorem quantR_ordX {p : Policy} (pok : p.OK) (N cap : Nat) (q : Quant) (af : Nat) (fuel : Nat) :
    ∀ (r : RSt) (f vars : Edge) (ext : List Edge) (L : Nat), RcInv r ext → OrdInvX N r →
      Above r.st.store L f → r.st.store.has vars →
      OrdPostX N L (quantR cap p q af fuel r f vars) := by
  induction fuel with
  | zero => intro r f vars ext L _ ho hf _; exact OrdPostX.clone ho hf
  | succ fuel ih =>
    intro r f vars ext L hrc ho hf hv
    cases f with
    | term b =>
      simp only [quantR]
      split
      · exact OrdPostX.clone ho hf
      · exact OrdPostX.const ho
    | inner i =>
      simp only [quantR]
      cases hi : r.st.store.get? i with
      | none => exact OrdPostX.clone ho hf
      | some fn =>
        simp only
        have hv' : r.st.store.has
            (if q ≠ .unique then r.st.store.setPopS af vars fn.level else vars) := by
          split
          · exact setPopS_has hrc _ _ hv
          · exact hv
        generalize (if q ≠ .unique then r.st.store.setPopS af vars fn.level else vars) = vars' at hv'
        cases vars' with
        | term y => exact OrdPostX.clone ho hf
        | inner j =>
          simp only
          cases hj : r.st.store.get? j with
          | none => exact OrdPostX.clone ho hf
          | some vn =>
            simp only
            split
            · exact OrdPostX.const ho
            · cases hget : p.get r.st.tick r.st.cache (encKey (quantKey q (.inner i) (.inner j))) with
              | some x =>
                exact OrdPostX.clone_tickd ho (hit_above pok ho hget (boundOps_quant _ _ _)
                  (fun o ho' => by simp only [List.mem_singleton] at ho'; subst ho'; exact hf))
              | none =>
                simp only
                have hk := hrc.kids_ok i fn hi
                have hca := child_aboveX hrc ho hi
                have hLn := hf.level_le hi
                have hlN := ho.bound i fn hi
                have hvt : r.st.store.has (if vn.level = fn.level then vn.t else .inner j) := by
                  split
                  · exact (hrc.kids_ok j vn hj).1
                  · exact hv'
                refine OrdPostX.weaken hLn ?_
                refine pairR_ordX (r := r.tickd) (ext := ext) (L1 := fn.level + 1)
                  (quantR_rc pok cap q af fuel _ _ _ _ hrc.tickd hk.1 hvt)
                  (ih _ _ _ _ _ hrc.tickd ho.tickd hca.1 hvt)
                  (fun t r1 i1 le1 o1 =>
                    ⟨quantR_rc pok cap q af fuel _ _ _ _ i1 (hk.2.mono le1) (hvt.mono le1),
                     ih _ _ _ _ _ i1 o1 (hca.2.mono le1) (hvt.mono le1)⟩) ?_
                intro t e r0 i0 le0 o0 ht he
                have hkey : ∀ ops, boundOps (encKey (quantKey q (.inner i) (.inner j))) = some ops →
                    (∀ o ∈ ops, r0.st.store.has o) ∧
                    ∀ L', (∀ o ∈ ops, Above r0.st.store L' o) → L' ≤ fn.level := by
                  intro ops hops
                  rw [boundOps_quant] at hops
                  cases hops
                  refine ⟨fun o ho' => ?_, fun L' hL' => ?_⟩
                  · simp only [List.mem_singleton] at ho'; subst ho'; exact ⟨fn, le0 i fn hi⟩
                  · exact (hL' (.inner i) (by simp)).level_le (le0 i fn hi)
                split
                · have hrcA := applyR_rc pok cap q.op af r0 t e _ i0
                    (i0.ext_ok t List.mem_cons_self)
                    (i0.ext_ok e (List.mem_cons_of_mem _ List.mem_cons_self))
                  exact combR_ordX pok hrcA.1
                    ((applyR_ordX pok N cap q.op af r0 t e _ _ i0 o0 ht he).weaken (by omega)) hkey
                · exact finishR_ordX pok i0 o0 hlN ht he hkey

/-! ## `restrict` -/

/-- what the inner walk of `restrict` returns is at the level of the function operand -/
def InnerAbove (s : Store) (L : Nat) : InnerRes → Prop
  | .done x => Above s L x
  | .recur f' vars' => Above s L f' ∧ s.has vars'

theorem restrictInnerS_above {r : RSt} {ext : List Edge} {N : Nat} (h : RcInv r ext)
    (ho : OrdInvX N r) (L : Nat) (fuel : Nat) :
    ∀ {f vars : Edge}, Above r.st.store L f → r.st.store.has vars →
    InnerAbove r.st.store L (restrictInnerS r.st.store fuel f vars) := by
  induction fuel with
  | zero => intro f vars hf _; exact hf
  | succ fuel ih =>
    intro f vars hf hv
    cases f with
    | term b => cases vars <;> exact hf
    | inner i =>
      cases vars with
      | term b => exact hf
      | inner j =>
        simp only [restrictInnerS]
        cases hi : r.st.store.get? i with
        | none => exact hf
        | some fn =>
          cases hj : r.st.store.get? j with
          | none => exact hf
          | some vn =>
            simp only
            have hLn := hf.level_le hi
            have hca := child_aboveX h ho hi
            have hfk : Above r.st.store L fn.t ∧ Above r.st.store L fn.e :=
              ⟨hca.1.weaken (by omega), hca.2.weaken (by omega)⟩
            have hvk := h.kids_ok j vn hj
            by_cases h1 : vn.level > fn.level
            · simp only [h1, if_true]; exact ⟨hf, hv⟩
            · simp only [h1, if_false]
              by_cases h2 : vn.level < fn.level
              · simp only [h2, if_true]
                cases hvt : vn.t with
                | inner k => simp only; rw [hvt] at hvk; exact ih hf hvk.1
                | term b =>
                  cases b with
                  | true => exact hf
                  | false =>
                    simp only
                    cases hve : vn.e with
                    | inner k => simp only; rw [hve] at hvk; exact ih hf hvk.2
                    | term b => exact hf
              · simp only [h2, if_false]
                cases hvt : vn.t with
                | inner k => simp only; rw [hvt] at hvk; exact ih hfk.1 hvk.1
                | term b =>
                  cases b with
                  | true => exact hfk.1
                  | false =>
                    simp only
                    cases hve : vn.e with
                    | inner k => simp only; rw [hve] at hvk; exact ih hfk.2 hvk.2
                    | term b => exact hfk.2

theorem restrictR_ordX {p : Policy} (pok : p.OK) (N cap : Nat) (fuel : Nat) :
    ∀ (r : RSt) (f vars : Edge) (ext : List Edge) (L : Nat), RcInv r ext → OrdInvX N r →
      Above r.st.store L f → r.st.store.has vars →
      OrdPostX N L (restrictR cap p fuel r f vars) := by
  induction fuel with
  | zero => intro r f vars ext L _ ho hf _; exact OrdPostX.clone ho hf
  | succ fuel ih =>
    intro r f vars ext L hrc ho hf hv
    simp only [restrictR]
    have hw := restrictInnerS_above hrc ho L (fuel + 1) hf hv
    cases hR : restrictInnerS r.st.store (fuel + 1) f vars with
    | done x =>
      rw [hR] at hw
      exact OrdPostX.clone ho hw
    | recur f' vars' =>
      rw [hR] at hw
      obtain ⟨hf', hv'⟩ := hw
      simp only
      cases hget : p.get r.st.tick r.st.cache (encKey (restrictKey f' vars')) with
      | some x =>
        exact OrdPostX.clone_tickd ho (hit_above pok ho hget (boundOps_restrict _ _)
          (fun o ho' => by simp only [List.mem_singleton] at ho'; subst ho'; exact hf'))
      | none =>
        cases f' with
        | term b => exact OrdPostX.clone_tickd ho hf'
        | inner i =>
          simp only
          cases hi : r.st.store.get? i with
          | none => exact OrdPostX.clone_tickd ho hf'
          | some fn =>
            simp only
            have hk := hrc.kids_ok i fn hi
            have hca := child_aboveX hrc ho hi
            have hLn := hf'.level_le hi
            refine OrdPostX.weaken hLn ?_
            refine forkR_ordX pok (N := N) (cap := cap) (r := r.tickd) (ext := ext)
              (c1 := fun s => restrictR cap p fuel s fn.t vars')
              (c0 := fun s => restrictR cap p fuel s fn.e vars') (ho.bound i fn hi)
              (restrictR_rc pok cap fuel _ _ _ _ hrc.tickd hk.1 hv')
              (ih _ _ _ _ _ hrc.tickd ho.tickd hca.1 hv')
              (fun t r1 i1 le1 o1 =>
                ⟨restrictR_rc pok cap fuel _ _ _ _ i1 (hk.2.mono le1) (hv'.mono le1),
                 ih _ _ _ _ _ i1 o1 (hca.2.mono le1) (hv'.mono le1)⟩) ?_
            intro ops hops
            rw [boundOps_restrict] at hops
            cases hops
            refine ⟨fun o ho' => ?_, fun L' hL' => ?_⟩
            · simp only [List.mem_singleton] at ho'; subst ho'; exact ⟨fn, hi⟩
            · exact (hL' (.inner i) (by simp)).level_le hi

/-! ## `apply_quant` -/

theorem aqBodyR_ordX {p : Policy} (pok : p.OK) (N cap : Nat) (q : Quant) (op : Op) (af : Nat)
    {rec : RSt → Edge → Edge → Edge → Option Edge × RSt}
    (hrec : ∀ (r : RSt) (a b c : Edge) (ext : List Edge), RcInv r ext → r.st.store.has a →
      r.st.store.has b → r.st.store.has c → RcPost r ext (rec r a b c))
    (hreco : ∀ (r : RSt) (a b c : Edge) (ext : List Edge) (L : Nat), RcInv r ext → OrdInvX N r →
      Above r.st.store L a → Above r.st.store L b → r.st.store.has c →
      OrdPostX N L (rec r a b c))
    (r : RSt) (f g vars : Edge) (ext : List Edge) (L : Nat) (hrc : RcInv r ext)
    (ho : OrdInvX N r) (hf : Above r.st.store L f) (hg : Above r.st.store L g)
    (hv : r.st.store.has vars) :
    OrdPostX N L (aqBodyR cap p q op af rec r f g vars) := by
  cases f with
  | term b => cases g <;> exact OrdPostX.clone ho hf
  | inner i =>
    cases g with
    | term b => exact OrdPostX.clone ho hf
    | inner k =>
      simp only [aqBodyR]
      cases hi : r.st.store.get? i with
      | none => exact OrdPostX.clone ho hf
      | some fn =>
        cases hk : r.st.store.get? k with
        | none => exact OrdPostX.clone ho hf
        | some gn =>
          simp only
          have hv' : r.st.store.has
              (if q ≠ .unique then r.st.store.setPopS af vars (min fn.level gn.level) else vars) := by
            split
            · exact setPopS_has hrc _ _ hv
            · exact hv
          generalize (if q ≠ .unique then r.st.store.setPopS af vars (min fn.level gn.level) else vars)
            = vars' at hv'
          cases vars' with
          | term y => exact applyR_ordX pok N cap op af r _ _ ext L hrc ho hf hg
          | inner j =>
            simp only
            cases hj : r.st.store.get? j with
            | none => exact OrdPostX.clone ho hf
            | some vn =>
              simp only
              split
              · exact OrdPostX.const ho
              · split
                · exact applyR_ordX pok N cap op af r _ _ ext L hrc ho hf hg
                · cases hget : p.get r.st.tick r.st.cache
                      (encKey (applyQuantKey q op (.inner i) (.inner k) (.inner j))) with
                  | some x =>
                    refine OrdPostX.clone_tickd ho (hit_above pok ho hget
                      (boundOps_applyQuant _ _ _ _ _) (fun o ho' => ?_))
                    simp only [List.mem_cons, List.mem_nil_iff, or_false] at ho'
                    rcases ho' with rfl | rfl
                    · exact hf
                    · exact hg
                  | none =>
                    simp only
                    have hfk := hrc.kids_ok i fn hi
                    have hgk := hrc.kids_ok k gn hk
                    have hfa := child_aboveX hrc ho hi
                    have hga := child_aboveX hrc ho hk
                    have hLf := hf.level_le hi
                    have hLg := hg.level_le hk
                    have hlN : min fn.level gn.level < N := by
                      have := ho.bound i fn hi; omega
                    have hvt : r.st.store.has
                        (if vn.level = min fn.level gn.level then vn.t else .inner j) := by
                      split
                      · exact (hrc.kids_ok j vn hj).1
                      · exact hv'
                    have hf1 : Above r.st.store (min fn.level gn.level + 1)
                        (if fn.level ≤ gn.level then (fn.t, fn.e) else (Edge.inner i, Edge.inner i)).1 := by
                      split
                      · exact hfa.1.weaken (by omega)
                      · exact ⟨fn, hi, by omega⟩
                    have hf2 : Above r.st.store (min fn.level gn.level + 1)
                        (if fn.level ≤ gn.level then (fn.t, fn.e) else (Edge.inner i, Edge.inner i)).2 := by
                      split
                      · exact hfa.2.weaken (by omega)
                      · exact ⟨fn, hi, by omega⟩
                    have hg1 : Above r.st.store (min fn.level gn.level + 1)
                        (if gn.level ≤ fn.level then (gn.t, gn.e) else (Edge.inner k, Edge.inner k)).1 := by
                      split
                      · exact hga.1.weaken (by omega)
                      · exact ⟨gn, hk, by omega⟩
                    have hg2 : Above r.st.store (min fn.level gn.level + 1)
                        (if gn.level ≤ fn.level then (gn.t, gn.e) else (Edge.inner k, Edge.inner k)).2 := by
                      split
                      · exact hga.2.weaken (by omega)
                      · exact ⟨gn, hk, by omega⟩
                    refine OrdPostX.weaken (show L ≤ min fn.level gn.level by omega) ?_
                    refine pairR_ordX (r := r.tickd) (ext := ext) (L1 := min fn.level gn.level + 1)
                      (hrec _ _ _ _ _ hrc.tickd hf1.has hg1.has hvt)
                      (hreco _ _ _ _ _ _ hrc.tickd ho.tickd hf1 hg1 hvt)
                      (fun t r1 i1 le1 o1 =>
                        ⟨hrec _ _ _ _ _ i1 (hf2.has.mono le1) (hg2.has.mono le1) (hvt.mono le1),
                         hreco _ _ _ _ _ _ i1 o1 (hf2.mono le1) (hg2.mono le1) (hvt.mono le1)⟩) ?_
                    intro t e r0 i0 le0 o0 ht he
                    have hkey : ∀ ops,
                        boundOps (encKey (applyQuantKey q op (.inner i) (.inner k) (.inner j))) = some ops →
                        (∀ o ∈ ops, r0.st.store.has o) ∧
                        ∀ L', (∀ o ∈ ops, Above r0.st.store L' o) → L' ≤ min fn.level gn.level := by
                      intro ops hops
                      rw [boundOps_applyQuant] at hops
                      cases hops
                      refine ⟨fun o ho' => ?_, fun L' hL' => ?_⟩
                      · simp only [List.mem_cons, List.mem_nil_iff, or_false] at ho'
                        rcases ho' with rfl | rfl
                        · exact ⟨fn, le0 i fn hi⟩
                        · exact ⟨gn, le0 k gn hk⟩
                      · have a := (hL' (.inner i) (by simp)).level_le (le0 i fn hi)
                        have b := (hL' (.inner k) (by simp)).level_le (le0 k gn hk)
                        omega
                    split
                    · have hrcA := applyR_rc pok cap q.op af r0 t e _ i0
                        (i0.ext_ok t List.mem_cons_self)
                        (i0.ext_ok e (List.mem_cons_of_mem _ List.mem_cons_self))
                      exact combR_ordX pok hrcA.1
                        ((applyR_ordX pok N cap q.op af r0 t e _ _ i0 o0 ht he).weaken (by omega)) hkey
                    · exact finishR_ordX pok i0 o0 hlN ht he hkey

theorem applyQuantR_ordX {p : Policy} (pok : p.OK) (N cap : Nat) (q : Quant) (op : Op) (af : Nat)
    (fuel : Nat) :
    ∀ (r : RSt) (f g vars : Edge) (ext : List Edge) (L : Nat), RcInv r ext → OrdInvX N r →
      Above r.st.store L f → Above r.st.store L g → r.st.store.has vars →
      OrdPostX N L (applyQuantR cap p q op af fuel r f g vars) := by
  induction fuel with
  | zero => intro r f g vars ext L _ ho hf _ _; exact OrdPostX.clone ho hf
  | succ fuel ih =>
    intro r f g vars ext L hrc ho hf hg hv
    simp only [applyQuantR]
    have hshape := terminalBinS_shape op f g
    have hops := terminalBinS_binary_ops op f g
    cases hT : terminalBinS op f g with
    | binary tag o1 o2 =>
      rw [hT] at hops
      have h12 : Above r.st.store L o1 ∧ Above r.st.store L o2 := by
        rcases hops with ⟨rfl, rfl⟩ | ⟨rfl, rfl⟩
        · exact ⟨hf, hg⟩
        · exact ⟨hg, hf⟩
      exact aqBodyR_ordX pok N cap q op af (applyQuantR_rc pok cap q op af fuel) ih r o1 o2 vars ext L
        hrc ho h12.1 h12.2 hv
    | notOf x =>
      rw [hT] at hshape
      simp only
      have hx : Above r.st.store L x := by
        rcases hshape with rfl | rfl
        · exact hf
        · exact hg
      have hn := notR_rc pok cap af r x ext hrc hx.has
      have hno := notR_ordX pok N cap af r x ext L hrc ho hx
      cases hN : notR cap p af r x with
      | mk o r1 =>
        rw [hN] at hn hno
        cases o with
        | none => exact ⟨hno.1, fun y hy => by cases hy⟩
        | some inv =>
          obtain ⟨le1, i1⟩ := hn
          simp only at i1 le1 ⊢
          exact guardR_ordX (c := fun s => quantR cap p q af af s inv vars)
            (quantR_ordX pok N cap q af af r1 inv vars _ L i1 hno.1 (hno.2 inv rfl) (hv.mono le1))
    | done x =>
      rw [hT] at hshape
      simp only
      have hx : Above r.st.store L x := by
        rcases hshape with rfl | rfl | ⟨b, rfl⟩
        · exact hf
        · exact hg
        · trivial
      have i1 := cloneEdge_rc hrc hx.has
      exact guardR_ordX (c := fun s => quantR cap p q af af s x vars)
        (quantR_ordX pok N cap q af af (cloneEdge r x) x vars _ L i1 (ho.of_st (cloneEdge_st r x))
          (by rw [cloneEdge_st]; exact hx) (by rw [cloneEdge_st]; exact hv))

end OxiddModel.Bdd.Rc
