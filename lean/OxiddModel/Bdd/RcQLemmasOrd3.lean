import OxiddModel.Bdd.RcQLemmasOrd2

/-!
# `substitute`, `pick_cube_dd(_set)` and all histories keep the store ordered

* `prepLoopR_ordX`: `substitute_prepare` creates variable nodes only on levels `< N` (the levels of
  the substitution object);
* `substituteR_ordX`, `substituteEdgeR_ordX`: the result is *some* stored node (level `≥ 0`): the
  replacement functions are arbitrary, so the operand does not bound it — and the key of
  `substitute` has no bounding operand (`boundOps_subst`);
* `pickCubeDDR_ordX`, `pickCubeDDSetR_ordX`: the picked cube is at the level of the function;
* `CmdQ.run_ordX`, `runAllQ_ordX`: every command of `RcQHistory.lean` (old commands, `quant`,
  `applyq`, `restrict`, `mksubst`, `dropsubst`, `subst`, `pick`, `pickset`; succeeding or
  failing) keeps `OrdInvX N` — provided variables are created and substitution objects are built
  on levels `< N` (`CmdQ.OK N`).
-/
namespace OxiddModel.Bdd.Rc
open OxiddModel.Bdd OxiddModel.Bdd.BDD OxiddModel.Bdd.Refine

/-! ## `substitute_prepare` -/

theorem varR_ordX {N cap : Nat} {r : RSt} {l : Nat} {neg : Bool} {ext : List Edge}
    (hrc : RcInv r ext) (ho : OrdInvX N r) (hl : l < N) : OrdPostX N l (varR cap r l neg) := by
  have h2 : RcInv r (.term (!neg) :: .term neg :: ext) :=
    cloneEdge_rc (x := .term (!neg)) (cloneEdge_rc (x := .term neg) hrc trivial) trivial
  exact mkNodeR_ordX (cap := cap) h2 ho hl trivial trivial

theorem prepLoopR_ordX (N cap : Nat) (pairs : List (Nat × Edge)) (ls : List Nat) :
    ∀ (r : RSt) (ext : List Edge), RcInv r ext → OrdInvX N r →
      (∀ l rep, pairs.lookup l = some rep → r.st.store.has rep) → (∀ l ∈ ls, l < N) →
      OrdInvX N (prepLoopR cap pairs ls r).2 := by
  induction ls with
  | nil => intro r ext _ ho _ _; exact ho
  | cons l ls ih =>
    intro r ext h ho hp hls
    have hls' : ∀ l' ∈ ls, l' < N := fun l' hl' => hls l' (List.mem_cons_of_mem _ hl')
    cases hl : pairs.lookup l with
    | some rep =>
      simp only [prepLoopR, hl]
      have hrep := hp l rep hl
      have i1 := cloneEdge_rc h hrep
      have := ih (cloneEdge r rep) (rep :: ext) i1 (ho.of_st (cloneEdge_st r rep))
        (by rw [cloneEdge_st]; exact hp) hls'
      cases hP : prepLoopR cap pairs ls (cloneEdge r rep) with
      | mk o r2 =>
        rw [hP] at this
        cases o with
        | none => exact this.of_st (dropEdge_st _ _)
        | some rest => exact this
    | none =>
      simp only [prepLoopR, hl]
      have hv := varR_rc (cap := cap) (l := l) (neg := false) h
      have hvo := varR_ordX (cap := cap) (neg := false) h ho (hls l List.mem_cons_self)
      cases hV : varR cap r l false with
      | mk o r1 =>
        rw [hV] at hv hvo
        cases o with
        | none => exact hvo.1
        | some e =>
          obtain ⟨le1, i1⟩ := hv
          simp only at i1 le1 ⊢
          have := ih r1 (e :: ext) i1 hvo.1 (fun l rep hlr => (hp l rep hlr).mono le1) hls'
          cases hP : prepLoopR cap pairs ls r1 with
          | mk o2 r2 =>
            rw [hP] at this
            cases o2 with
            | none => exact this.of_st (dropEdge_st _ _)
            | some rest => exact this

/-! ## `substitute`, `substitute_edge` -/

theorem substituteR_ordX {p : Policy} (pok : p.OK) (N cap : Nat) (subst : List Edge) (id : Nat)
    (af : Nat) (fuel : Nat) :
    ∀ (r : RSt) (f : Edge) (ext : List Edge), RcInv r ext → OrdInvX N r → r.st.store.has f →
      (∀ e ∈ subst, r.st.store.has e) → OrdPostX N 0 (substituteR cap p subst id af fuel r f) := by
  induction fuel with
  | zero => intro r f ext _ ho hf _; exact OrdPostX.clone ho (has_above_zero hf)
  | succ fuel ih =>
    intro r f ext h ho hf hs
    cases f with
    | term b => exact OrdPostX.clone ho (has_above_zero hf)
    | inner i =>
      simp only [substituteR]
      cases hi : r.st.store.get? i with
      | none => exact OrdPostX.clone ho (has_above_zero hf)
      | some fn =>
        simp only
        cases hsl : subst[fn.level]? with
        | none => exact OrdPostX.clone ho (has_above_zero hf)
        | some rep =>
          simp only
          have hrep : r.st.store.has rep := hs rep (List.mem_of_getElem? hsl)
          cases hget : p.get r.st.tick r.st.cache (encKey (substKey (.inner i) id)) with
          | some x =>
            exact OrdPostX.clone_tickd ho
              (has_above_zero (h.cache_ok _ _ (pok.get_mem _ _ _ _ hget)))
          | none =>
            simp only
            have hk := h.kids_ok i fn hi
            refine pairR_ordX (r := r.tickd) (ext := ext) (L1 := 0)
              (substituteR_rc pok cap subst id af fuel _ _ _ h.tickd hk.1 hs)
              (ih _ _ _ h.tickd ho.tickd hk.1 hs)
              (fun t r1 i1 le1 o1 =>
                ⟨substituteR_rc pok cap subst id af fuel _ _ _ i1 (hk.2.mono le1)
                  (fun e he => (hs e he).mono le1),
                 ih _ _ _ i1 o1 (hk.2.mono le1) (fun e he => (hs e he).mono le1)⟩) ?_
            intro t e r0 i0 le0 o0 ht he
            have hrcI := iteR_rc pok cap af r0 rep t e _ i0 (hrep.mono le0)
              (i0.ext_ok t List.mem_cons_self)
              (i0.ext_ok e (List.mem_cons_of_mem _ List.mem_cons_self))
            refine combR_ordX pok hrcI.1
              (iteR_ordX pok N cap af r0 rep t e _ 0 i0 o0 (has_above_zero (hrep.mono le0)) ht he) ?_
            intro ops hops
            rw [boundOps_subst] at hops
            cases hops

theorem substituteEdgeR_ordX {p : Policy} (pok : p.OK) (N cap : Nat) (pairs : List (Nat × Edge))
    (id : Nat) (af fuel : Nat) (r : RSt) (f : Edge) (ext : List Edge) (h : RcInv r ext)
    (ho : OrdInvX N r) (hf : r.st.store.has f)
    (hp : ∀ l rep, pairs.lookup l = some rep → r.st.store.has rep)
    (hlv : ∀ l ∈ List.range (pairs.foldl (fun m p => max m (p.1 + 1)) 0), l < N) :
    OrdPostX N 0 (substituteEdgeR cap p pairs id af fuel r f) := by
  unfold substituteEdgeR
  have hP := prepLoopR_rc cap pairs (List.range (pairs.foldl (fun m p => max m (p.1 + 1)) 0)) r ext h hp
  have hPo := prepLoopR_ordX N cap pairs (List.range (pairs.foldl (fun m p => max m (p.1 + 1)) 0))
    r ext h ho hp hlv
  cases hR : prepLoopR cap pairs (List.range (pairs.foldl (fun m p => max m (p.1 + 1)) 0)) r with
  | mk o r1 =>
    rw [hR] at hP hPo
    cases o with
    | none => exact ⟨hPo, fun x hx => by cases hx⟩
    | some sv =>
      obtain ⟨le1, i1⟩ := hP
      simp only at i1 le1 hPo ⊢
      have hs := substituteR_ordX pok N cap sv id af fuel r1 f (sv ++ ext) i1 hPo (hf.mono le1)
        (fun e he => i1.ext_ok e (List.mem_append_left _ he))
      refine ⟨hs.1.of_st (dropAll_st _ _), ?_⟩
      intro x hx
      simp only [dropAll_st]
      exact hs.2 x hx

/-! ## `pick_cube_dd`, `pick_cube_dd_set` -/

theorem pickNodeR_ordX {N cap : Nat} {level : Nat} {c : Bool} {r : RSt} {ext : List Edge}
    {R : Option Edge × RSt} (hl : level < N) (hR : RcPost r ext R)
    (hRo : OrdPostX N (level + 1) R) : OrdPostX N level (pickNodeR cap level c R) := by
  obtain ⟨o, r1⟩ := R
  cases o with
  | none => exact ⟨hRo.1, fun x hx => by cases hx⟩
  | some sub =>
    obtain ⟨le1, i1⟩ := hR
    have hsub := hRo.2 sub rfl
    simp only [pickNodeR] at i1 le1 hsub ⊢
    cases c with
    | true =>
      simp only [if_true]
      exact getOrInsertR_ordX (cloneEdge_rc (x := .term false) i1 trivial).swap hRo.1 hl hsub trivial
    | false =>
      simp only [Bool.false_eq_true, if_false]
      exact getOrInsertR_ordX (cloneEdge_rc (x := .term false) i1 trivial) hRo.1 hl trivial hsub

theorem pickCubeDDR_ordX (N cap : Nat) (choice : Nat → Bool) (fuel : Nat) :
    ∀ (r : RSt) (f : Edge) (ext : List Edge) (L : Nat), RcInv r ext → OrdInvX N r →
      Above r.st.store L f → OrdPostX N L (pickCubeDDR cap choice fuel r f) := by
  induction fuel with
  | zero => intro r f ext L _ ho hf; exact OrdPostX.clone ho hf
  | succ fuel ih =>
    intro r f ext L h ho hf
    cases f with
    | term b => exact OrdPostX.clone ho hf
    | inner i =>
      simp only [pickCubeDDR]
      cases hi : r.st.store.get? i with
      | none => exact OrdPostX.clone ho hf
      | some n =>
        simp only
        have hk := h.kids_ok i n hi
        have hca := child_aboveX h ho hi
        refine OrdPostX.weaken (hf.level_le hi) ?_
        refine pickNodeR_ordX (ext := ext) (r := r) (ho.bound i n hi) ?_ ?_
        · apply pickCubeDDR_rc _ _ _ _ _ _ h
          split
          · exact hk.1
          · exact hk.2
        · apply ih _ _ _ _ h ho
          split
          · exact hca.1
          · exact hca.2

theorem pickCubeDDSetR_ordX (N cap : Nat) (af : Nat) (fuel : Nat) :
    ∀ (r : RSt) (f ls : Edge) (ext : List Edge) (L : Nat), RcInv r ext → OrdInvX N r →
      Above r.st.store L f → r.st.store.has ls →
      OrdPostX N L (pickCubeDDSetR cap af fuel r f ls) := by
  induction fuel with
  | zero => intro r f ls ext L _ ho hf _; exact OrdPostX.clone ho hf
  | succ fuel ih =>
    intro r f ls ext L h ho hf hl
    cases f with
    | term b => exact OrdPostX.clone ho hf
    | inner i =>
      simp only [pickCubeDDSetR]
      cases hi : r.st.store.get? i with
      | none => exact OrdPostX.clone ho hf
      | some n =>
        simp only
        have hk := h.kids_ok i n hi
        have hca := child_aboveX h ho hi
        have hls := litAt_has h n.level (litSetPopS_has h n.level af hl)
        refine OrdPostX.weaken (hf.level_le hi) ?_
        refine pickNodeR_ordX (ext := ext) (r := r) (ho.bound i n hi) ?_ ?_
        · apply pickCubeDDSetR_rc _ _ _ _ _ _ _ h
          · split
            · exact hk.1
            · exact hk.2
          · exact hls
        · apply ih _ _ _ _ _ h ho
          · split
            · exact hca.1
            · exact hca.2
          · exact hls

/-! ## histories -/

theorem pushRes_ordX {N L : Nat} {h : HSt} {res : Option Edge × RSt} (ho : OrdPostX N L res) :
    OrdInvX N (pushRes h res).r := by
  obtain ⟨o, r'⟩ := res
  cases o <;> exact ho.1

theorem pushQ_ordX {N L : Nat} {h : HStQ} {res : Option Edge × RSt} (ho : OrdPostX N L res) :
    OrdInvX N (pushQ h res).r := by
  obtain ⟨o, r'⟩ := res
  cases o <;> exact ho.1

theorem pushQ_ss (h : HStQ) (res : Option Edge × RSt) : (pushQ h res).ss = h.ss := by
  obtain ⟨o, r'⟩ := res
  cases o <;> rfl

theorem gcR_ordX {N : Nat} {r : RSt} {ext : List Edge} (n : Nat) (hi : RcInv r ext)
    (ho : OrdInvX N r) : OrdInvX N (gcR n r) := by
  have hsub := gcR_sub n r
  refine ⟨ordered_sub ho.ord hsub, fun i m hi' => ho.bound i m (hsub i m hi'), ?_⟩
  rw [(gcR_rc n hi).2]
  intro k v hkv; cases hkv

/-- the commands of `RcSHistory.lean` with further owners `S` (the substitution objects) -/
theorem Cmd.run_ordX {p : Policy} (pok : p.OK) {N : Nat} (c : Cmd) (hc : c.OK N) (h : HSt)
    (S : List Edge) (hi : RcInv h.r (h.hs ++ S)) (ho : OrdInvX N h.r) : OrdInvX N (c.run p h).r := by
  have hmem : ∀ {a : Nat} {f : Edge}, h.hs[a]? = some f → Above h.r.st.store 0 f :=
    fun ha => has_above_zero (hi.ext_ok _ (List.mem_append_left _ (List.mem_of_getElem? ha)))
  cases c with
  | var cap level neg => exact pushRes_ordX (varR_ordX hi ho hc)
  | not cap fuel a =>
    simp only [Cmd.run]
    cases ha : h.hs[a]? with
    | none => exact ho
    | some f => exact pushRes_ordX (notR_ordX pok N cap fuel h.r f _ 0 hi ho (hmem ha))
  | bin cap fuel op a b =>
    simp only [Cmd.run]
    cases ha : h.hs[a]? with
    | none => exact ho
    | some f =>
      cases hb : h.hs[b]? with
      | none => exact ho
      | some g =>
        exact pushRes_ordX (applyR_ordX pok N cap op fuel h.r f g _ 0 hi ho (hmem ha) (hmem hb))
  | ite cap fuel a b c =>
    simp only [Cmd.run]
    cases ha : h.hs[a]? with
    | none => exact ho
    | some f =>
      cases hb : h.hs[b]? with
      | none => exact ho
      | some g =>
        cases hc' : h.hs[c]? with
        | none => exact ho
        | some k =>
          exact pushRes_ordX (iteR_ordX pok N cap fuel h.r f g k _ 0 hi ho (hmem ha) (hmem hb)
            (hmem hc'))
  | clone a =>
    simp only [Cmd.run]
    cases ha : h.hs[a]? with
    | none => exact ho
    | some f => exact ho.of_st (cloneEdge_st _ _)
  | drop a =>
    simp only [Cmd.run]
    cases ha : h.hs[a]? with
    | none => exact ho
    | some f => exact ho.of_st (dropEdge_st _ _)
  | gc n => exact gcR_ordX n hi ho

/-- variables are created, and substitution objects are built, on existing levels -/
def CmdQ.OK (N : Nat) : CmdQ → Prop
  | .base c => c.OK N
  | .mksubst pairs => ∀ pr ∈ pairs, pr.1 < N
  | _ => True

/-- every live substitution object replaces levels `< N` only -/
def SubstLv (N : Nat) (ss : List (List (Nat × Edge))) : Prop := ∀ ps ∈ ss, ∀ pr ∈ ps, pr.1 < N

theorem resolvePairs_levels {N : Nat} : ∀ (pairs : List (Nat × Nat)) {hs : List Edge}
    {ps : List (Nat × Edge)}, resolvePairs hs pairs = some ps → (∀ pr ∈ pairs, pr.1 < N) →
    ∀ pr ∈ ps, pr.1 < N := by
  intro pairs
  induction pairs with
  | nil => intro hs ps h _ pr hpr; cases h; cases hpr
  | cons q rest ih =>
    intro hs ps h hlv pr hpr
    obtain ⟨l, a⟩ := q
    simp only [resolvePairs] at h
    cases ha : hs[a]? with
    | none => rw [ha] at h; cases h
    | some x =>
      cases hr : resolvePairs hs rest with
      | none => rw [ha, hr] at h; cases h
      | some ps' =>
        rw [ha, hr] at h
        cases h
        rcases List.mem_cons.mp hpr with rfl | hpr
        · exact hlv (l, a) List.mem_cons_self
        · exact ih hr (fun q hq => hlv q (List.mem_cons_of_mem _ hq)) pr hpr

theorem foldl_max_le {N : Nat} : ∀ (pairs : List (Nat × Edge)) (init : Nat), init ≤ N →
    (∀ pr ∈ pairs, pr.1 < N) → pairs.foldl (fun m p => max m (p.1 + 1)) init ≤ N := by
  intro pairs
  induction pairs with
  | nil => intro init hi _; exact hi
  | cons q rest ih =>
    intro init hi hlv
    simp only [List.foldl_cons]
    apply ih
    · have := hlv q List.mem_cons_self; omega
    · exact fun pr hpr => hlv pr (List.mem_cons_of_mem _ hpr)

theorem CmdQ.run_ordX {p : Policy} (pok : p.OK) {N : Nat} (c : CmdQ) (hc : c.OK N) (h : HStQ)
    (hi : RcInv h.r h.owned) (ho : OrdInvX N h.r) (hs : SubstLv N h.ss) :
    OrdInvX N (c.run p h).r ∧ SubstLv N (c.run p h).ss := by
  have hhas : ∀ {a : Nat} {f : Edge}, h.hs[a]? = some f → h.r.st.store.has f :=
    fun ha => hi.ext_ok _ (List.mem_append_left _ (List.mem_of_getElem? ha))
  have hmem : ∀ {a : Nat} {f : Edge}, h.hs[a]? = some f → Above h.r.st.store 0 f :=
    fun ha => has_above_zero (hhas ha)
  cases c with
  | base c => exact ⟨Cmd.run_ordX pok c hc ⟨h.r, h.hs⟩ (substEdges h.ss) hi ho, hs⟩
  | quant cap af fuel q a v =>
    simp only [CmdQ.run]
    cases ha : h.hs[a]? with
    | none => exact ⟨ho, hs⟩
    | some f =>
      cases hv : h.hs[v]? with
      | none => exact ⟨ho, hs⟩
      | some vars =>
        exact ⟨pushQ_ordX (quantR_ordX pok N cap q af fuel h.r f vars _ 0 hi ho (hmem ha) (hhas hv)),
          by rw [pushQ_ss]; exact hs⟩
  | applyq cap af fuel q op a b v =>
    simp only [CmdQ.run]
    cases ha : h.hs[a]? with
    | none => exact ⟨ho, hs⟩
    | some f =>
      cases hb : h.hs[b]? with
      | none => exact ⟨ho, hs⟩
      | some g =>
        cases hv : h.hs[v]? with
        | none => exact ⟨ho, hs⟩
        | some vars =>
          exact ⟨pushQ_ordX (applyQuantR_ordX pok N cap q op af fuel h.r f g vars _ 0 hi ho (hmem ha)
            (hmem hb) (hhas hv)), by rw [pushQ_ss]; exact hs⟩
  | restrict cap fuel a v =>
    simp only [CmdQ.run]
    cases ha : h.hs[a]? with
    | none => exact ⟨ho, hs⟩
    | some f =>
      cases hv : h.hs[v]? with
      | none => exact ⟨ho, hs⟩
      | some vars =>
        exact ⟨pushQ_ordX (restrictR_ordX pok N cap fuel h.r f vars _ 0 hi ho (hmem ha) (hhas hv)),
          by rw [pushQ_ss]; exact hs⟩
  | mksubst pairs =>
    simp only [CmdQ.run]
    cases hr : resolvePairs h.hs pairs with
    | none => exact ⟨ho, hs⟩
    | some ps =>
      refine ⟨ho.of_st (cloneAll_st _ _), ?_⟩
      intro qs hqs
      rcases List.mem_cons.mp hqs with rfl | hqs
      · exact resolvePairs_levels pairs hr hc
      · exact hs qs hqs
  | dropsubst k =>
    simp only [CmdQ.run]
    cases hk : h.ss[k]? with
    | none => exact ⟨ho, hs⟩
    | some ps =>
      exact ⟨ho.of_st (dropAll_st _ _), fun qs hqs => hs qs (List.mem_of_mem_eraseIdx hqs)⟩
  | subst cap af fuel id a k =>
    simp only [CmdQ.run]
    cases ha : h.hs[a]? with
    | none => exact ⟨ho, hs⟩
    | some f =>
      cases hk : h.ss[k]? with
      | none => exact ⟨ho, hs⟩
      | some ps =>
        refine ⟨pushQ_ordX (substituteEdgeR_ordX pok N cap ps id af fuel h.r f _ hi ho (hhas ha)
          (fun l rep hl => hi.ext_ok rep
            (List.mem_append_right _ (substEdges_mem hk (lookup_mem_snd hl)))) ?_),
          by rw [pushQ_ss]; exact hs⟩
        intro l hl
        have := foldl_max_le (N := N) ps 0 (Nat.zero_le _) (hs ps (List.mem_of_getElem? hk))
        have := List.mem_range.mp hl
        omega
  | pick cap fuel choice a =>
    simp only [CmdQ.run]
    cases ha : h.hs[a]? with
    | none => exact ⟨ho, hs⟩
    | some f =>
      exact ⟨pushQ_ordX (pickCubeDDR_ordX N cap choice fuel h.r f _ 0 hi ho (hmem ha)),
        by rw [pushQ_ss]; exact hs⟩
  | pickset cap af fuel a b =>
    simp only [CmdQ.run]
    cases ha : h.hs[a]? with
    | none => exact ⟨ho, hs⟩
    | some f =>
      cases hb : h.hs[b]? with
      | none => exact ⟨ho, hs⟩
      | some ls =>
        exact ⟨pushQ_ordX (pickCubeDDSetR_ordX N cap af fuel h.r f ls _ 0 hi ho (hmem ha) (hhas hb)),
          by rw [pushQ_ss]; exact hs⟩

theorem runAllQ_ordX {p : Policy} (pok : p.OK) {N : Nat} : ∀ (cmds : List CmdQ) (h : HStQ),
    (∀ c ∈ cmds, c.OK N) → RcInv h.r h.owned → OrdInvX N h.r → SubstLv N h.ss →
    RcInv (runAllQ p cmds h).r (runAllQ p cmds h).owned ∧ OrdInvX N (runAllQ p cmds h).r ∧
      SubstLv N (runAllQ p cmds h).ss := by
  intro cmds
  induction cmds with
  | nil => intro h _ hi ho hs; exact ⟨hi, ho, hs⟩
  | cons c cs ih =>
    intro h hok hi ho hs
    have := CmdQ.run_ordX pok c (hok c List.mem_cons_self) h hi ho hs
    exact ih _ (fun c' hc' => hok c' (List.mem_cons_of_mem _ hc'))
      (CmdQ.run_rc pok c h hi) this.1 this.2

end OxiddModel.Bdd.Rc
