import OxiddModel.Bdd.RcQLemmas
import OxiddModel.Bdd.RcSLemmasAlg

/-!
# `quant`, `restrict`, `apply_quant`, `substitute`, `pick_cube_dd(_set)` keep the counters exact

`RcPost r ext R` (`RcSLemmasAlg.lean`): the run `R` started in `r` by a caller owning `ext` only
extended the store and ends with exact counters for `result :: ext` (success) resp. `ext`
(OutOfMemory at any allocation point). `quantR_rc`, `restrictR_rc`, `applyQuantR_rc`,
`prepLoopR_rc`, `substituteR_rc`, `substituteEdgeR_rc`, `pickCubeDDR_rc`, `pickCubeDDSetR_rc`:
for every capacity, fuel, admissible cache policy and all operands that point to stored nodes.
-/
namespace OxiddModel.Bdd.Rc
open OxiddModel.Bdd OxiddModel.Bdd.BDD OxiddModel.Bdd.Refine

/-! ## the combinators -/

theorem addR_inv {p : Policy} (pok : p.OK) {r : RSt} {ext : List Edge} {key : Key} {h : Edge}
    (hi : RcInv r ext) (hh : r.st.store.has h) : RcInv (addR p r key h) ext := by
  refine ⟨hi.ext_ok, hi.kids_ok, ?_, hi.rc_eq⟩
  intro k v hkv
  rcases pok.add_sub _ _ _ _ _ hkv with hold | hnew
  · exact hi.cache_ok k v hold
  · cases hnew; exact hh

theorem pairR_rc {c1 c0 : RSt → Option Edge × RSt} {k : Edge → Edge → RSt → Option Edge × RSt}
    {r : RSt} {ext : List Edge}
    (h1 : RcPost r ext (c1 r))
    (h0 : ∀ t r1, RcInv r1 (t :: ext) → r.st.store.Le r1.st.store → RcPost r1 (t :: ext) (c0 r1))
    (hk : ∀ t e r0, RcInv r0 (t :: e :: ext) → r.st.store.Le r0.st.store →
      RcPost r0 ext (k t e r0)) :
    RcPost r ext (pairR c1 c0 k r) := by
  unfold pairR
  cases hc1 : c1 r with
  | mk o1 r1 =>
    rw [hc1] at h1
    cases o1 with
    | none => exact h1
    | some t =>
      obtain ⟨le1, i1⟩ := h1
      simp only at i1 le1 ⊢
      have h0' := h0 t r1 i1 le1
      cases hc0 : c0 r1 with
      | mk o0 r0 =>
        rw [hc0] at h0'
        obtain ⟨le0, i0⟩ := h0'
        cases o0 with
        | none =>
          simp only at i0 le0 ⊢
          refine ⟨?_, dropEdge_rc i0⟩
          simp only [dropEdge_st]
          exact le1.trans le0
        | some e =>
          simp only at i0 le0 ⊢
          have hf := hk t e r0 i0.swap (le1.trans le0)
          exact ⟨le1.trans (le0.trans hf.1), hf.2⟩

/-- the two guards are released after the borrowed call — on success (after the cache add) and on
failure -/
theorem combR_rc {p : Policy} (pok : p.OK) {key : Key} {c : RSt → Option Edge × RSt} {t e : Edge}
    {r0 : RSt} {ext : List Edge} (hc : RcPost r0 (t :: e :: ext) (c r0)) :
    RcPost r0 ext (combR p key c t e r0) := by
  unfold combR
  cases hcr : c r0 with
  | mk o r2 =>
    rw [hcr] at hc
    obtain ⟨le2, i2⟩ := hc
    cases o with
    | none =>
      simp only at i2 le2 ⊢
      refine ⟨by simp only [dropEdge_st]; exact le2, ?_⟩
      exact dropEdge_rc (dropEdge_rc i2.swap)
    | some h =>
      simp only at i2 le2 ⊢
      refine ⟨by simp only [dropEdge_st, addR_st]; exact le2, ?_⟩
      have ia := addR_inv pok (key := key) i2 (i2.ext_ok h List.mem_cons_self)
      have ib : RcInv (addR p r2 key h) (e :: t :: h :: ext) :=
        ia.congr (fun x => by simp only [List.count_cons]; omega)
      have ic := dropEdge_rc (dropEdge_rc ib)
      exact ic

theorem guardR_rc {x : Edge} {c : RSt → Option Edge × RSt} {r : RSt} {ext : List Edge}
    (hc : RcPost r (x :: ext) (c r)) : RcPost r ext (guardR x c r) := by
  unfold guardR
  cases hcr : c r with
  | mk o r' =>
    rw [hcr] at hc
    obtain ⟨le', i'⟩ := hc
    cases o with
    | none =>
      simp only at i' le' ⊢
      exact ⟨by simp only [dropEdge_st]; exact le', dropEdge_rc i'⟩
    | some y =>
      simp only at i' le' ⊢
      exact ⟨by simp only [dropEdge_st]; exact le', dropEdge_rc i'.swap⟩

/-! ## `set_pop`, the inner walk of `restrict`, `terminal_bin` stay inside the store -/

theorem setPopS_has {r : RSt} {ext : List Edge} (h : RcInv r ext) (u : Nat) (fuel : Nat) :
    ∀ {set : Edge}, r.st.store.has set → r.st.store.has (r.st.store.setPopS fuel set u) := by
  induction fuel with
  | zero => intro set hs; exact hs
  | succ fuel ih =>
    intro set hs
    cases set with
    | term b => exact hs
    | inner i =>
      simp only [Store.setPopS]
      cases hi : r.st.store.get? i with
      | none => exact hs
      | some n =>
        simp only
        split
        · exact hs
        · exact ih (h.kids_ok i n hi).1

/-- what the inner walk of `restrict` returns points into the store -/
def InnerHas (s : Store) : InnerRes → Prop
  | .done x => s.has x
  | .recur f' vars' => s.has f' ∧ s.has vars'

theorem restrictInnerS_has {r : RSt} {ext : List Edge} (h : RcInv r ext) (fuel : Nat) :
    ∀ {f vars : Edge}, r.st.store.has f → r.st.store.has vars →
    InnerHas r.st.store (restrictInnerS r.st.store fuel f vars) := by
  induction fuel with
  | zero => intro f vars hf _; exact hf
  | succ fuel ih =>
    intro f vars hf hv
    cases f with
    | term b => cases vars <;> exact hf
    | inner i =>
      cases vars with
      | term b => exact hf
      | inner j =>
        simp only [restrictInnerS]
        cases hi : r.st.store.get? i with
        | none => exact hf
        | some fn =>
          cases hj : r.st.store.get? j with
          | none => exact hf
          | some vn =>
            simp only
            have hfk := h.kids_ok i fn hi
            have hvk := h.kids_ok j vn hj
            by_cases h1 : vn.level > fn.level
            · simp only [h1, if_true]; exact ⟨hf, hv⟩
            · simp only [h1, if_false]
              by_cases h2 : vn.level < fn.level
              · simp only [h2, if_true]
                cases hvt : vn.t with
                | inner k => simp only; rw [hvt] at hvk; exact ih hf hvk.1
                | term b =>
                  cases b with
                  | true => exact hf
                  | false =>
                    simp only
                    cases hve : vn.e with
                    | inner k => simp only; rw [hve] at hvk; exact ih hf hvk.2
                    | term b => exact hf
              · simp only [h2, if_false]
                cases hvt : vn.t with
                | inner k => simp only; rw [hvt] at hvk; exact ih hfk.1 hvk.1
                | term b =>
                  cases b with
                  | true => exact hfk.1
                  | false =>
                    simp only
                    cases hve : vn.e with
                    | inner k => simp only; rw [hve] at hvk; exact ih hfk.2 hvk.2
                    | term b => exact hfk.2

/-- the operands `terminal_bin` hands on are the given ones (possibly swapped) -/
theorem terminalBinS_binary_ops (op : Op) (f g : Edge) :
    match terminalBinS op f g with
    | .binary _ o1 o2 => (o1 = f ∧ o2 = g) ∨ (o1 = g ∧ o2 = f)
    | _ => True := by
  rcases f with (_ | _) | i <;> rcases g with (_ | _) | j <;> cases op <;>
    first
    | (simp [terminalBinS]; done)
    | (by_cases hij : i = j <;> by_cases hgt : (Edge.inner i).gt (Edge.inner j) = true <;>
        simp [terminalBinS, hij, hgt])

theorem terminalBinS_binary_has {s : Store} {op : Op} {f g o1 o2 : Edge} {tag : OpTag}
    (hf : s.has f) (hg : s.has g) (ht : terminalBinS op f g = .binary tag o1 o2) :
    s.has o1 ∧ s.has o2 := by
  have := terminalBinS_binary_ops op f g
  rw [ht] at this
  rcases this with ⟨rfl, rfl⟩ | ⟨rfl, rfl⟩
  · exact ⟨hf, hg⟩
  · exact ⟨hg, hf⟩

/-! ## `quant` -/

theorem quantR_rc {p : Policy} (pok : p.OK) (cap : Nat) (q : Quant) (af : Nat) (fuel : Nat) :
    ∀ (r : RSt) (f vars : Edge) (ext : List Edge), RcInv r ext → r.st.store.has f →
      r.st.store.has vars → RcPost r ext (quantR cap p q af fuel r f vars) := by
  induction fuel with
  | zero => intro r f vars ext h hf _; exact RcPost.clone h hf
  | succ fuel ih =>
    intro r f vars ext h hf hv
    cases f with
    | term b =>
      simp only [quantR]
      split
      · exact RcPost.clone h hf
      · exact RcPost.clone (x := .term false) h trivial
    | inner i =>
      simp only [quantR]
      cases hi : r.st.store.get? i with
      | none => exact RcPost.clone h hf
      | some fn =>
        simp only
        have hv' : r.st.store.has
            (if q ≠ .unique then r.st.store.setPopS af vars fn.level else vars) := by
          split
          · exact setPopS_has h _ _ hv
          · exact hv
        generalize (if q ≠ .unique then r.st.store.setPopS af vars fn.level else vars) = vars' at hv'
        cases vars' with
        | term y => exact RcPost.clone h hf
        | inner j =>
          simp only
          cases hj : r.st.store.get? j with
          | none => exact RcPost.clone h hf
          | some vn =>
            simp only
            split
            · exact RcPost.clone (x := .term false) h trivial
            · cases hget : p.get r.st.tick r.st.cache (encKey (quantKey q (.inner i) (.inner j))) with
              | some x => exact RcPost.clone_tickd h (h.cache_ok _ _ (pok.get_mem _ _ _ _ hget))
              | none =>
                simp only
                have hk := h.kids_ok i fn hi
                have hvt : r.st.store.has (if vn.level = fn.level then vn.t else .inner j) := by
                  split
                  · exact (h.kids_ok j vn hj).1
                  · exact hv'
                refine pairR_rc (r := r.tickd) (ih _ _ _ _ h.tickd hk.1 hvt)
                  (fun t r1 i1 le1 => ih _ _ _ _ i1 (hk.2.mono le1) (hvt.mono le1)) ?_
                intro t e r0 i0 le0
                split
                · exact combR_rc pok (applyR_rc pok cap q.op af r0 t e _ i0
                    (i0.ext_ok t List.mem_cons_self)
                    (i0.ext_ok e (List.mem_cons_of_mem _ List.mem_cons_self)))
                · exact finishR_rc pok i0

/-! ## `restrict` -/

theorem restrictR_rc {p : Policy} (pok : p.OK) (cap : Nat) (fuel : Nat) :
    ∀ (r : RSt) (f vars : Edge) (ext : List Edge), RcInv r ext → r.st.store.has f →
      r.st.store.has vars → RcPost r ext (restrictR cap p fuel r f vars) := by
  induction fuel with
  | zero => intro r f vars ext h hf _; exact RcPost.clone h hf
  | succ fuel ih =>
    intro r f vars ext h hf hv
    simp only [restrictR]
    have hw := restrictInnerS_has h (fuel + 1) hf hv
    cases hR : restrictInnerS r.st.store (fuel + 1) f vars with
    | done x =>
      rw [hR] at hw
      exact RcPost.clone h hw
    | recur f' vars' =>
      rw [hR] at hw
      obtain ⟨hf', hv'⟩ := hw
      simp only
      cases hget : p.get r.st.tick r.st.cache (encKey (restrictKey f' vars')) with
      | some x => exact RcPost.clone_tickd h (h.cache_ok _ _ (pok.get_mem _ _ _ _ hget))
      | none =>
        cases f' with
        | term b => exact RcPost.clone_tickd h hf'
        | inner i =>
          simp only
          cases hi : r.st.store.get? i with
          | none => exact RcPost.clone_tickd h hf'
          | some fn =>
            simp only
            have hk := h.kids_ok i fn hi
            exact forkR_rc pok (r := r.tickd) (ext := ext)
              (c1 := fun s => restrictR cap p fuel s fn.t vars')
              (c0 := fun s => restrictR cap p fuel s fn.e vars')
              (ih _ _ _ _ h.tickd hk.1 hv')
              (fun t r1 i1 le1 => ih _ _ _ _ i1 (hk.2.mono le1) (hv'.mono le1))

/-! ## `apply_quant` -/

theorem aqBodyR_rc {p : Policy} (pok : p.OK) (cap : Nat) (q : Quant) (op : Op) (af : Nat)
    {rec : RSt → Edge → Edge → Edge → Option Edge × RSt}
    (hrec : ∀ (r : RSt) (a b c : Edge) (ext : List Edge), RcInv r ext → r.st.store.has a →
      r.st.store.has b → r.st.store.has c → RcPost r ext (rec r a b c))
    (r : RSt) (f g vars : Edge) (ext : List Edge) (h : RcInv r ext) (hf : r.st.store.has f)
    (hg : r.st.store.has g) (hv : r.st.store.has vars) :
    RcPost r ext (aqBodyR cap p q op af rec r f g vars) := by
  cases f with
  | term b => cases g <;> exact RcPost.clone h hf
  | inner i =>
    cases g with
    | term b => exact RcPost.clone h hf
    | inner k =>
      simp only [aqBodyR]
      cases hi : r.st.store.get? i with
      | none => exact RcPost.clone h hf
      | some fn =>
        cases hk : r.st.store.get? k with
        | none => exact RcPost.clone h hf
        | some gn =>
          simp only
          have hv' : r.st.store.has
              (if q ≠ .unique then r.st.store.setPopS af vars (min fn.level gn.level) else vars) := by
            split
            · exact setPopS_has h _ _ hv
            · exact hv
          generalize (if q ≠ .unique then r.st.store.setPopS af vars (min fn.level gn.level) else vars)
            = vars' at hv'
          cases vars' with
          | term y => exact applyR_rc pok cap op af r _ _ ext h hf hg
          | inner j =>
            simp only
            cases hj : r.st.store.get? j with
            | none => exact RcPost.clone h hf
            | some vn =>
              simp only
              split
              · exact RcPost.clone (x := .term false) h trivial
              · split
                · exact applyR_rc pok cap op af r _ _ ext h hf hg
                · cases hget : p.get r.st.tick r.st.cache
                      (encKey (applyQuantKey q op (.inner i) (.inner k) (.inner j))) with
                  | some x => exact RcPost.clone_tickd h (h.cache_ok _ _ (pok.get_mem _ _ _ _ hget))
                  | none =>
                    simp only
                    have hfk := h.kids_ok i fn hi
                    have hgk := h.kids_ok k gn hk
                    have hvt : r.st.store.has
                        (if vn.level = min fn.level gn.level then vn.t else .inner j) := by
                      split
                      · exact (h.kids_ok j vn hj).1
                      · exact hv'
                    have hf1 : r.st.store.has
                        (if fn.level ≤ gn.level then (fn.t, fn.e) else (Edge.inner i, Edge.inner i)).1 := by
                      split
                      · exact hfk.1
                      · exact hf
                    have hf2 : r.st.store.has
                        (if fn.level ≤ gn.level then (fn.t, fn.e) else (Edge.inner i, Edge.inner i)).2 := by
                      split
                      · exact hfk.2
                      · exact hf
                    have hg1 : r.st.store.has
                        (if gn.level ≤ fn.level then (gn.t, gn.e) else (Edge.inner k, Edge.inner k)).1 := by
                      split
                      · exact hgk.1
                      · exact hg
                    have hg2 : r.st.store.has
                        (if gn.level ≤ fn.level then (gn.t, gn.e) else (Edge.inner k, Edge.inner k)).2 := by
                      split
                      · exact hgk.2
                      · exact hg
                    refine pairR_rc (r := r.tickd) (hrec _ _ _ _ _ h.tickd hf1 hg1 hvt)
                      (fun t r1 i1 le1 => hrec _ _ _ _ _ i1 (hf2.mono le1) (hg2.mono le1)
                        (hvt.mono le1)) ?_
                    intro t e r0 i0 le0
                    split
                    · exact combR_rc pok (applyR_rc pok cap q.op af r0 t e _ i0
                        (i0.ext_ok t List.mem_cons_self)
                        (i0.ext_ok e (List.mem_cons_of_mem _ List.mem_cons_self)))
                    · exact finishR_rc pok i0

theorem applyQuantR_rc {p : Policy} (pok : p.OK) (cap : Nat) (q : Quant) (op : Op) (af : Nat)
    (fuel : Nat) :
    ∀ (r : RSt) (f g vars : Edge) (ext : List Edge), RcInv r ext → r.st.store.has f →
      r.st.store.has g → r.st.store.has vars →
      RcPost r ext (applyQuantR cap p q op af fuel r f g vars) := by
  induction fuel with
  | zero => intro r f g vars ext h hf _ _; exact RcPost.clone h hf
  | succ fuel ih =>
    intro r f g vars ext h hf hg hv
    simp only [applyQuantR]
    cases hT : terminalBinS op f g with
    | binary tag o1 o2 =>
      obtain ⟨h1, h2⟩ := terminalBinS_binary_has hf hg hT
      exact aqBodyR_rc pok cap q op af ih r o1 o2 vars ext h h1 h2 hv
    | notOf x =>
      simp only
      have hn := notR_rc pok cap af r x ext h (terminalBinS_notOf_has hf hg hT)
      cases hN : notR cap p af r x with
      | mk o r1 =>
        rw [hN] at hn
        cases o with
        | none => exact hn
        | some inv =>
          obtain ⟨le1, i1⟩ := hn
          simp only at i1 le1 ⊢
          have hq := guardR_rc (c := fun s => quantR cap p q af af s inv vars)
            (quantR_rc pok cap q af af r1 inv vars _ i1 (i1.ext_ok inv List.mem_cons_self)
              (hv.mono le1))
          exact ⟨le1.trans hq.1, hq.2⟩
    | done x =>
      simp only
      have hx := terminalBinS_done_has hf hg hT
      have i1 := cloneEdge_rc h hx
      have hq := guardR_rc (c := fun s => quantR cap p q af af s x vars)
        (quantR_rc pok cap q af af (cloneEdge r x) x vars _ i1 (by rw [cloneEdge_st]; exact hx)
          (by rw [cloneEdge_st]; exact hv))
      have hq1 := hq.1
      rw [cloneEdge_st] at hq1
      exact ⟨hq1, hq.2⟩

/-! ## `substitute_prepare`, `substitute`, `substitute_edge` -/

theorem dropAll_rc : ∀ (es : List Edge) {r : RSt} {ext : List Edge}, RcInv r (es ++ ext) →
    RcInv (dropAll r es) ext := by
  intro es
  induction es with
  | nil => intro r ext h; exact h
  | cons e es ih =>
    intro r ext h
    simp only [dropAll, List.foldl_cons]
    exact ih (dropEdge_rc h)

/-- postcondition of `substitute_prepare`: on success the vector's edges are owned -/
def PrepPost (r : RSt) (ext : List Edge) (R : Option (List Edge) × RSt) : Prop :=
  r.st.store.Le R.2.st.store ∧
  match R with
  | (some sv, r') => RcInv r' (sv ++ ext)
  | (none, r') => RcInv r' ext

theorem varR_rc {cap : Nat} {r : RSt} {l : Nat} {neg : Bool} {ext : List Edge} (h : RcInv r ext) :
    RcPost r ext (varR cap r l neg) := by
  have h2 : RcInv r (.term (!neg) :: .term neg :: ext) :=
    cloneEdge_rc (x := .term (!neg)) (cloneEdge_rc (x := .term neg) h trivial) trivial
  exact ⟨mkNodeR_le cap r l _ _, mkNodeR_rc h2⟩

theorem prepLoopR_rc (cap : Nat) (pairs : List (Nat × Edge)) (ls : List Nat) :
    ∀ (r : RSt) (ext : List Edge), RcInv r ext →
      (∀ l rep, pairs.lookup l = some rep → r.st.store.has rep) →
      PrepPost r ext (prepLoopR cap pairs ls r) := by
  induction ls with
  | nil => intro r ext h _; exact ⟨Store.Le.refl _, h⟩
  | cons l ls ih =>
    intro r ext h hp
    cases hl : pairs.lookup l with
    | some rep =>
      simp only [prepLoopR, hl]
      have hrep := hp l rep hl
      have i1 := cloneEdge_rc h hrep
      have := ih (cloneEdge r rep) (rep :: ext) i1 (by rw [cloneEdge_st]; exact hp)
      cases hP : prepLoopR cap pairs ls (cloneEdge r rep) with
      | mk o r2 =>
        rw [hP] at this
        obtain ⟨le2, i2⟩ := this
        rw [cloneEdge_st] at le2
        cases o with
        | none =>
          simp only at i2 le2 ⊢
          exact ⟨by simp only [dropEdge_st]; exact le2, dropEdge_rc i2⟩
        | some rest =>
          simp only at i2 le2 ⊢
          refine ⟨le2, i2.congr (fun x => ?_)⟩
          simp only [List.count_append, List.count_cons]
          omega
    | none =>
      simp only [prepLoopR, hl]
      have hv := varR_rc (cap := cap) (l := l) (neg := false) h
      cases hV : varR cap r l false with
      | mk o r1 =>
        rw [hV] at hv
        cases o with
        | none => exact hv
        | some e =>
          obtain ⟨le1, i1⟩ := hv
          simp only at i1 le1 ⊢
          have := ih r1 (e :: ext) i1 (fun l rep hlr => (hp l rep hlr).mono le1)
          cases hP : prepLoopR cap pairs ls r1 with
          | mk o2 r2 =>
            rw [hP] at this
            obtain ⟨le2, i2⟩ := this
            cases o2 with
            | none =>
              simp only at i2 le2 ⊢
              exact ⟨by simp only [dropEdge_st]; exact le1.trans le2, dropEdge_rc i2⟩
            | some rest =>
              simp only at i2 le2 ⊢
              refine ⟨le1.trans le2, i2.congr (fun x => ?_)⟩
              simp only [List.count_append, List.count_cons]
              omega

theorem substituteR_rc {p : Policy} (pok : p.OK) (cap : Nat) (subst : List Edge) (id : Nat)
    (af : Nat) (fuel : Nat) :
    ∀ (r : RSt) (f : Edge) (ext : List Edge), RcInv r ext → r.st.store.has f →
      (∀ e ∈ subst, r.st.store.has e) → RcPost r ext (substituteR cap p subst id af fuel r f) := by
  induction fuel with
  | zero => intro r f ext h hf _; exact RcPost.clone h hf
  | succ fuel ih =>
    intro r f ext h hf hs
    cases f with
    | term b => exact RcPost.clone h hf
    | inner i =>
      simp only [substituteR]
      cases hi : r.st.store.get? i with
      | none => exact RcPost.clone h hf
      | some fn =>
        simp only
        cases hsl : subst[fn.level]? with
        | none => exact RcPost.clone h hf
        | some rep =>
          simp only
          have hrep : r.st.store.has rep := hs rep (List.mem_of_getElem? hsl)
          cases hget : p.get r.st.tick r.st.cache (encKey (substKey (.inner i) id)) with
          | some x => exact RcPost.clone_tickd h (h.cache_ok _ _ (pok.get_mem _ _ _ _ hget))
          | none =>
            simp only
            have hk := h.kids_ok i fn hi
            refine pairR_rc (r := r.tickd) (ih _ _ _ h.tickd hk.1 hs)
              (fun t r1 i1 le1 => ih _ _ _ i1 (hk.2.mono le1) (fun e he => (hs e he).mono le1)) ?_
            intro t e r0 i0 le0
            exact combR_rc pok (iteR_rc pok cap af r0 rep t e _ i0 (hrep.mono le0)
              (i0.ext_ok t List.mem_cons_self)
              (i0.ext_ok e (List.mem_cons_of_mem _ List.mem_cons_self)))

theorem substituteEdgeR_rc {p : Policy} (pok : p.OK) (cap : Nat) (pairs : List (Nat × Edge))
    (id : Nat) (af fuel : Nat) (r : RSt) (f : Edge) (ext : List Edge) (h : RcInv r ext)
    (hf : r.st.store.has f) (hp : ∀ l rep, pairs.lookup l = some rep → r.st.store.has rep) :
    RcPost r ext (substituteEdgeR cap p pairs id af fuel r f) := by
  unfold substituteEdgeR
  have hP := prepLoopR_rc cap pairs (List.range (pairs.foldl (fun m p => max m (p.1 + 1)) 0)) r ext h hp
  cases hR : prepLoopR cap pairs (List.range (pairs.foldl (fun m p => max m (p.1 + 1)) 0)) r with
  | mk o r1 =>
    rw [hR] at hP
    cases o with
    | none => exact hP
    | some sv =>
      obtain ⟨le1, i1⟩ := hP
      simp only at i1 le1 ⊢
      have hs := substituteR_rc pok cap sv id af fuel r1 f (sv ++ ext) i1 (hf.mono le1)
        (fun e he => i1.ext_ok e (List.mem_append_left _ he))
      cases hS : substituteR cap p sv id af fuel r1 f with
      | mk o2 r2 =>
        rw [hS] at hs
        obtain ⟨le2, i2⟩ := hs
        cases o2 with
        | none =>
          simp only at i2 le2 ⊢
          exact ⟨by rw [dropAll_st]; exact le1.trans le2, dropAll_rc sv i2⟩
        | some x =>
          simp only at i2 le2 ⊢
          refine ⟨by rw [dropAll_st]; exact le1.trans le2, ?_⟩
          have i3 : RcInv r2 (sv ++ (x :: ext)) :=
            i2.congr (fun y => by simp only [List.count_append, List.count_cons]; omega)
          exact dropAll_rc sv i3

/-! ## `get_or_insert`, `pick_cube_dd(_set)` -/

theorem getOrInsertR_eq_mkNodeR {cap : Nat} {r : RSt} {l : Nat} {t e : Edge} (hte : t ≠ e) :
    getOrInsertR cap r l t e = mkNodeR cap r l t e := by
  unfold getOrInsertR mkNodeR
  rw [if_neg hte]
  cases r.st.store.find? ⟨l, t, e⟩ <;> rfl

theorem getOrInsertR_le (cap : Nat) (r : RSt) (l : Nat) (t e : Edge) :
    r.st.store.Le (getOrInsertR cap r l t e).2.st.store := by
  unfold getOrInsertR
  split
  · simp only [cloneEdge_st, dropEdge_st]; exact Store.Le.refl _
  · split
    · exact alloc_le _ _
    · simp only [dropEdge_st]; exact Store.Le.refl _

/-- `get_or_insert` with owned children: hit (both dropped, the found node retained),
allocation (both move into the node, `rc = 2`), OutOfMemory (both dropped) -/
theorem getOrInsertR_rc {cap : Nat} {r : RSt} {l : Nat} {t e : Edge} {ext : List Edge}
    (h : RcInv r (t :: e :: ext)) :
    match getOrInsertR cap r l t e with
    | (some x, r') => RcInv r' (x :: ext)
    | (none, r') => RcInv r' ext := by
  by_cases hte : t = e
  · -- a redundant node `(l, t, t)` (never the case for `pick_cube_dd` on a reduced diagram)
    subst hte
    unfold getOrInsertR
    cases hf : r.st.store.find? ⟨l, t, t⟩ with
    | some i =>
      simp only
      have h2 : RcInv (dropEdge (dropEdge r t) t) ext := dropEdge_rc (dropEdge_rc h)
      refine cloneEdge_rc h2 ?_
      simp only [dropEdge_st]
      exact has_of_find hf
    | none =>
      simp only
      by_cases hc : r.st.store.count < cap
      · simp only [hc, if_true]
        have hle := alloc_le r.st.store ⟨l, t, t⟩
        have hfresh := alloc_fresh r.st.store ⟨l, t, t⟩
        generalize hj : (r.st.store.alloc ⟨l, t, t⟩).2 = j at hfresh
        have hget := get?_alloc r.st.store ⟨l, t, t⟩
        rw [hj] at hget
        have hnot : ∀ x : Edge, r.st.store.has x → x ≠ .inner j := by
          intro x hx hxe
          subst hxe
          obtain ⟨n, hn⟩ := hx
          rw [hfresh] at hn; cases hn
        have ht := h.ext_ok t List.mem_cons_self
        refine ⟨?_, ?_, ?_, ?_⟩
        · intro x hx
          rcases List.mem_cons.mp hx with rfl | hx
          · exact ⟨⟨l, t, t⟩, by simp [hget]⟩
          · exact (h.ext_ok x (List.mem_cons_of_mem _ (List.mem_cons_of_mem _ hx))).mono hle
        · intro i n hi
          simp only [hget] at hi
          split at hi
          · cases hi; exact ⟨ht.mono hle, ht.mono hle⟩
          · obtain ⟨h1, h2⟩ := h.kids_ok i n hi
            exact ⟨h1.mono hle, h2.mono hle⟩
        · intro k v hkv
          exact (h.cache_ok k v hkv).mono hle
        · intro i n hi
          simp only [hget] at hi
          simp only [rcGet_rcSet, parents_alloc]
          split at hi
          · rename_i hij
            subst hij
            cases hi
            simp only [if_true, List.count_cons_self]
            have hz : parents r.st.store i = 0 := parents_zero (fun k n hk =>
              ⟨hnot _ (h.kids_ok k n hk).1, hnot _ (h.kids_ok k n hk).2⟩)
            have hce : ext.count (.inner i) = 0 := by
              apply List.count_eq_zero.mpr
              intro hm
              exact hnot _ (h.ext_ok _ (List.mem_cons_of_mem _ (List.mem_cons_of_mem _ hm))) rfl
            simp [hz, hce, cnt, hnot t ht]
          · rename_i hij
            have := h.rc_eq i n hi
            simp only [count_inner_cons] at this
            have hne : Edge.inner j ≠ Edge.inner i := fun e => hij (by cases e; rfl)
            simp only [hij, if_false, count_inner_cons, cnt, hne]
            simp only [cnt] at this
            omega
      · simp only [hc, if_false]
        exact dropEdge_rc (dropEdge_rc h)
  · rw [getOrInsertR_eq_mkNodeR hte]
    exact mkNodeR_rc h

theorem pickNodeR_rc {cap : Nat} {level : Nat} {c : Bool} {r : RSt} {ext : List Edge}
    {R : Option Edge × RSt} (hR : RcPost r ext R) : RcPost r ext (pickNodeR cap level c R) := by
  obtain ⟨o, r1⟩ := R
  cases o with
  | none => exact hR
  | some sub =>
    obtain ⟨le1, i1⟩ := hR
    simp only [pickNodeR] at i1 le1 ⊢
    refine ⟨le1.trans (getOrInsertR_le _ _ _ _ _), ?_⟩
    cases c with
    | true =>
      simp only [if_true]
      exact getOrInsertR_rc (cloneEdge_rc (x := .term false) i1 trivial).swap
    | false =>
      simp only [Bool.false_eq_true, if_false]
      exact getOrInsertR_rc (cloneEdge_rc (x := .term false) i1 trivial)

theorem pickCubeDDR_rc (cap : Nat) (choice : Nat → Bool) (fuel : Nat) :
    ∀ (r : RSt) (f : Edge) (ext : List Edge), RcInv r ext → r.st.store.has f →
      RcPost r ext (pickCubeDDR cap choice fuel r f) := by
  induction fuel with
  | zero => intro r f ext h hf; exact RcPost.clone h hf
  | succ fuel ih =>
    intro r f ext h hf
    cases f with
    | term b => exact RcPost.clone h hf
    | inner i =>
      simp only [pickCubeDDR]
      cases hi : r.st.store.get? i with
      | none => exact RcPost.clone h hf
      | some n =>
        simp only
        have hk := h.kids_ok i n hi
        apply pickNodeR_rc
        apply ih _ _ _ h
        split
        · exact hk.1
        · exact hk.2

theorem litSetPopS_has {r : RSt} {ext : List Edge} (h : RcInv r ext) (u : Nat) (fuel : Nat) :
    ∀ {set : Edge}, r.st.store.has set → r.st.store.has (litSetPopS r.st.store fuel set u) := by
  induction fuel with
  | zero => intro set hs; exact hs
  | succ fuel ih =>
    intro set hs
    cases set with
    | term b => exact hs
    | inner i =>
      simp only [litSetPopS]
      cases hi : r.st.store.get? i with
      | none => exact hs
      | some n =>
        simp only
        split
        · apply ih
          split
          · exact (h.kids_ok i n hi).2
          · exact (h.kids_ok i n hi).1
        · exact hs

theorem litAt_has {r : RSt} {ext : List Edge} (h : RcInv r ext) {ls : Edge} (level : Nat)
    (hs : r.st.store.has ls) : r.st.store.has (litAt r.st.store ls level).1 := by
  cases ls with
  | term b => exact hs
  | inner j =>
    simp only [litAt]
    cases hj : r.st.store.get? j with
    | none => exact hs
    | some m =>
      simp only
      split
      · split
        · exact (h.kids_ok j m hj).1
        · exact (h.kids_ok j m hj).2
      · exact hs

theorem pickCubeDDSetR_rc (cap : Nat) (af : Nat) (fuel : Nat) :
    ∀ (r : RSt) (f ls : Edge) (ext : List Edge), RcInv r ext → r.st.store.has f →
      r.st.store.has ls → RcPost r ext (pickCubeDDSetR cap af fuel r f ls) := by
  induction fuel with
  | zero => intro r f ls ext h hf _; exact RcPost.clone h hf
  | succ fuel ih =>
    intro r f ls ext h hf hl
    cases f with
    | term b => exact RcPost.clone h hf
    | inner i =>
      simp only [pickCubeDDSetR]
      cases hi : r.st.store.get? i with
      | none => exact RcPost.clone h hf
      | some n =>
        simp only
        have hk := h.kids_ok i n hi
        apply pickNodeR_rc
        apply ih _ _ _ _ h
        · split
          · exact hk.1
          · exact hk.2
        · exact litAt_has h _ (litSetPopS_has h _ _ hl)

end OxiddModel.Bdd.Rc
