import OxiddModel.Bdd.CapS

/-!
# The id store with an explicit reference counter per node (`rc` field of the index manager)

This is `CapS.lean` (capacity-bounded `notC/applyC/iteC` over the hash-consed id store) extended by
what the Rust code does to the **counters**. In the Rust code every `Edge` value is an owned
reference; the model makes every `clone_edge`, `drop_edge` and `EdgeDropGuard` of
`crates/oxidd-rules-bdd/src/simple/apply_rec.rs`, `crates/oxidd-rules-bdd/src/recursor.rs`
(`SequentialRecursor`), `crates/oxidd-rules-bdd/src/simple/mod.rs` (`reduce`, `terminal_bin`) and
`crates/oxidd-manager-index/src/manager.rs` (`add_node`, `LevelViewSet::get_or_insert`,
`drop_edge`, `clone_edge`, `LevelViewSet::gc`, `Manager::gc`) explicit.

Conventions taken from the code:

* the counter of a node is the raw `rc` field (`node/fixed_arity.rs`): a fresh node starts at `2`
  (`InnerNode::new`: one reference for the unique table, one for the edge `add_node` returns);
  `InnerNode::ref_count()` reports `rc - 1` (`refCount` below), and that is what the harness dump
  prints and what its oracle compares with `handles + stored parent edges`;
* `Manager::gc` removes the nodes with `rc == 1` (`LevelViewSet::gc`: `retain(|e| rc != 1, …)`),
  level by level from the top, `free_slot` drops the children;
* terminals of the simple BDD are static: no counters;
* the apply cache stores *borrowed* edges (`oxidd-cache/src/direct.rs`, `Entry::set`:
  `write_edge(src.borrowed())`), `get` returns a **clone** of the value (`manager.clone_edge`),
  and the whole cache is cleared in `pre_gc`. So entries hold no counted reference and a hit
  increments the counter of the result.

`notR / applyR op / iteR` mirror `apply_not / apply_bin::<OP> / apply_ite` statement by statement:
the `Done(h)` results of `terminal_bin` are owned (`clone_edge` or `get_terminal`), a cache hit
returns a clone, `rec.binary(..)?` is the sequential recursor (`ra` is wrapped in an
`EdgeDropGuard`, so it is dropped when the second call fails), `reduce(.., t.into_edge(),
e.into_edge(), ..)?` consumes both results: on `t == e` it drops `e`; on a unique-table hit
`get_or_insert` drops the rejected node (its children `t`, `e`, in this order) and retains the
node found; on `OutOfMemory` `add_node` drops the children.

Forgetting the counters (`RSt.st`) these functions **are** `notC/applyC/iteC` (`RcSLemmas.lean`).
-/
namespace OxiddModel.Bdd.Rc
open OxiddModel.Bdd OxiddModel.Bdd.BDD OxiddModel.Bdd.Refine

/-! ## the counter array -/

/-- value of the `rc` field of slot `i` (0 for slots never used) -/
def rcGet (m : Array Nat) (i : Nat) : Nat := m.getD i 0

/-- write the `rc` field of slot `i` (the array grows with the store) -/
def rcSet (m : Array Nat) (i v : Nat) : Array Nat :=
  if i < m.size then m.set! i v else (m ++ Array.replicate (i + 1 - m.size) 0).set! i v

/-- store + apply cache + time stamp (`Refine.St`) and one counter per slot -/
structure RSt where
  st : St
  rc : Array Nat

def RSt.store (r : RSt) : Store := r.st.store

/-- the state after one cache access -/
def RSt.tickd (r : RSt) : RSt := { r with st := r.st.tickd }

/-- what `InnerNode::ref_count()` reports: the counter without the unique table's own reference -/
def RSt.refCount (r : RSt) (i : Nat) : Nat := rcGet r.rc i - 1

/-! ## `clone_edge`, `drop_edge` -/

/-- `Store::clone_edge`: `retain()` on the node; terminals are static -/
def cloneEdge (r : RSt) : Edge → RSt
  | .term _ => r
  | .inner i => { r with rc := rcSet r.rc i (rcGet r.rc i + 1) }

/-- `Store::drop_edge`: `release()` on the node (never frees: the unique table keeps its reference) -/
def dropEdge (r : RSt) : Edge → RSt
  | .term _ => r
  | .inner i => { r with rc := rcSet r.rc i (rcGet r.rc i - 1) }

/-! ## `reduce` = reduction rule + `get_or_insert` + `add_node` -/

/-- `reduce(manager, level, t, e, op)` with **owned** `t`, `e`:
* `t == e`: `drop_edge(e); return Ok(t)`;
* unique-table hit (`LevelViewSet::get_or_insert`, `Ok(slot)`): `drop(node)` = `drop_edge(t)`,
  `drop_edge(e)`; then `clone_edge_unchecked(found)`;
* miss, slot available (`add_node`, `Ok`): the children move into the node, `rc = 2`;
* miss, store full (`add_node`, `Err(OutOfMemory)`): `node.drop_with(|e| self.drop_edge(e))`. -/
def mkNodeR (cap : Nat) (r : RSt) (level : Nat) (t e : Edge) : Option Edge × RSt :=
  if t = e then (some t, dropEdge r e) else
  match r.st.store.find? ⟨level, t, e⟩ with
  | some i => (some (.inner i), cloneEdge (dropEdge (dropEdge r t) e) (.inner i))
  | none =>
    if r.st.store.count < cap then
      let a := r.st.store.alloc ⟨level, t, e⟩
      (some (.inner a.2), { st := { r.st with store := a.1 }, rc := rcSet r.rc a.2 2 })
    else (none, dropEdge (dropEdge r t) e)

/-- the seeded defect `C05-oom-leaks-children`: `add_node` returns the error without dropping the
children of the rejected node -/
def mkNodeLeak (cap : Nat) (r : RSt) (level : Nat) (t e : Edge) : Option Edge × RSt :=
  if t = e then (some t, dropEdge r e) else
  match r.st.store.find? ⟨level, t, e⟩ with
  | some i => (some (.inner i), cloneEdge (dropEdge (dropEdge r t) e) (.inner i))
  | none =>
    if r.st.store.count < cap then
      let a := r.st.store.alloc ⟨level, t, e⟩
      (some (.inner a.2), { st := { r.st with store := a.1 }, rc := rcSet r.rc a.2 2 })
    else (none, r)

/-! ## the algorithms -/

/-- `let h = reduce(..)?; apply_cache().add(.., h.borrowed()); Ok(h)` -/
def finishR (cap : Nat) (p : Policy) (r : RSt) (key : Key) (l : Nat) (e1 e0 : Edge) :
    Option Edge × RSt :=
  match mkNodeR cap r l e1 e0 with
  | (none, r') => (none, r')
  | (some h, r') =>
    (some h, { r' with st := ⟨r'.st.store, p.add r'.st.tick r'.st.cache key h, r'.st.tick + 1⟩ })

/-- `let (t, e) = rec.binary(op, manager, a, b)?` with the `SequentialRecursor`
(`let ra = EdgeDropGuard::new(manager, op(a)?); let rb = EdgeDropGuard::new(manager, op(b)?);`),
followed by `reduce(.., t.into_edge(), e.into_edge(), ..)?` and the cache add: when the second
call fails the guard of the first result drops it -/
def forkR (cap : Nat) (p : Policy) (key : Key) (l : Nat) (c1 c0 : RSt → Option Edge × RSt)
    (r : RSt) : Option Edge × RSt :=
  match c1 r with
  | (none, r1) => (none, r1)
  | (some t, r1) =>
    match c0 r1 with
    | (none, r0) => (none, dropEdge r0 t)
    | (some e, r0) => finishR cap p r0 key l t e

/-- `apply_not` (the operand is borrowed, the result is owned) -/
def notR (cap : Nat) (p : Policy) : Nat → RSt → Edge → Option Edge × RSt
  | 0, r, f => (some f, cloneEdge r f)
  | fuel+1, r, f =>
    match f with
    | .term b => (some (.term (!b)), r) -- `get_terminal(!t)`
    | .inner i =>
      match p.get r.st.tick r.st.cache (.not, [f]) with
      | some h => (some h, cloneEdge r.tickd h) -- `get` returns a clone
      | none =>
        match r.st.store.get? i with
        | none => (some f, cloneEdge r.tickd f) -- dangling edge (excluded by the invariant)
        | some n =>
          forkR cap p (.not, [f]) n.level (fun s => notR cap p fuel s n.t)
            (fun s => notR cap p fuel s n.e) r.tickd

/-- `apply_bin::<OP>` (operands borrowed, result owned): `Done(h)` of `terminal_bin` is
`clone_edge(f|g)` or `get_terminal(..)` -/
def applyR (cap : Nat) (p : Policy) (op : Op) : Nat → RSt → Edge → Edge → Option Edge × RSt
  | 0, r, f, _ => (some f, cloneEdge r f)
  | fuel+1, r, f, g =>
    match terminalBinS op f g with
    | .done h => (some h, cloneEdge r h)
    | .notOf h => notR cap p fuel r h
    | .binary tag o1 o2 =>
      match p.get r.st.tick r.st.cache (tag, [o1, o2]) with
      | some h => (some h, cloneEdge r.tickd h)
      | none =>
        match r.st.store.level? f, r.st.store.level? g with
        | some lf, some lg =>
          let l := min lf lg
          forkR cap p (tag, [o1, o2]) l
            (fun s => applyR cap p op fuel s (r.st.store.cofT l f) (r.st.store.cofT l g))
            (fun s => applyR cap p op fuel s (r.st.store.cofE l f) (r.st.store.cofE l g)) r.tickd
        | _, _ => (some f, cloneEdge r.tickd f)

/-- `apply_ite` (operands borrowed, result owned) -/
def iteR (cap : Nat) (p : Policy) : Nat → RSt → Edge → Edge → Edge → Option Edge × RSt
  | 0, r, f, _, _ => (some f, cloneEdge r f)
  | fuel+1, r, f, g, h =>
    if g = h then (some g, cloneEdge r g) else
    if f = g then applyR cap p .or fuel r f h else
    if f = h then applyR cap p .and fuel r f g else
    match f with
    | .term b => (some (if b then g else h), cloneEdge r (if b then g else h))
    | .inner _ =>
      match g, h with
      | .term true, .inner _ => applyR cap p .or fuel r f h
      | .term false, .inner _ => applyR cap p .impStrict fuel r f h
      | .inner _, .term true => applyR cap p .imp fuel r f g
      | .inner _, .term false => applyR cap p .and fuel r f g
      | .term gb, .term _ => if gb then (some f, cloneEdge r f) else notR cap p fuel r f
      | .inner _, .inner _ =>
        match p.get r.st.tick r.st.cache (.ite, [f, g, h]) with
        | some x => (some x, cloneEdge r.tickd x)
        | none =>
          match r.st.store.level? f, r.st.store.level? g, r.st.store.level? h with
          | some lf, some lg, some lh =>
            let l := min (min lf lg) lh
            forkR cap p (.ite, [f, g, h]) l
              (fun s => iteR cap p fuel s (r.st.store.cofT l f) (r.st.store.cofT l g) (r.st.store.cofT l h))
              (fun s => iteR cap p fuel s (r.st.store.cofE l f) (r.st.store.cofE l g) (r.st.store.cofE l h))
              r.tickd
          | _, _, _ => (some f, cloneEdge r.tickd f)

/-- `BDDFunction::var_edge` / `not_var_edge`: `get_or_insert(InnerNode::new(level, [⊤, ⊥]))`
(no reduction test; the children are terminals) -/
def varR (cap : Nat) (r : RSt) (level : Nat) (neg : Bool) : Option Edge × RSt :=
  mkNodeR cap r level (.term (!neg)) (.term neg)

/-! ## garbage collection -/

/-- one step of `LevelViewSet::gc` (`retain`): the node in slot `i`, if it is on level `l` and
only the unique table references it (`rc == 1`), is removed from the table and `free_slot`
drops its children -/
def gcSlot (l : Nat) (r : RSt) (i : Nat) : RSt :=
  match r.st.store.get? i with
  | none => r
  | some n =>
    if n.level = l ∧ rcGet r.rc i = 1 then
      dropEdge (dropEdge { r with st := { r.st with store := ⟨r.st.store.nodes.set! i none⟩ } } n.t) n.e
    else r

/-- `level.gc(store)` for the unique table of level `l` -/
def gcLevel (r : RSt) (l : Nat) : RSt :=
  (List.range r.st.store.nodes.size).foldl (gcSlot l) r

/-- `Manager::gc`: `pre_gc` clears the apply cache; the unique tables are visited in level order
(`for level in &self.unique_table`) -/
def gcR (numLevels : Nat) (r : RSt) : RSt :=
  (List.range numLevels).foldl gcLevel { r with st := { r.st with cache := [] } }

/-! ## the empty manager -/

def RSt.empty : RSt := ⟨⟨⟨#[]⟩, [], 0⟩, #[]⟩

end OxiddModel.Bdd.Rc
