import OxiddModel.Bdd.RcS

/-!
# Counter array, erasure of the counters

* `rcGet_rcSet`: the counter array behaves like a function update;
* **erasure**: forgetting the counters, `mkNodeR/finishR/forkR/notR/applyR/iteR` are
  `mkNodeC/finishC/forkC/notC/applyC/iteC` (same result, same store, same cache, same time stamp),
  for all inputs without any hypothesis.
-/
namespace OxiddModel.Bdd.Rc
open OxiddModel.Bdd OxiddModel.Bdd.BDD OxiddModel.Bdd.Refine

/-! ## the counter array -/

theorem rcGet_rcSet (m : Array Nat) (i v j : Nat) :
    rcGet (rcSet m i v) j = if j = i then v else rcGet m j := by
  have key : ∀ (a : Array Nat), i < a.size →
      (a.set! i v).getD j 0 = if j = i then v else a.getD j 0 := by
    intro a hi
    by_cases hj : j = i
    · subst hj; simp [Array.getD, hi]
    · simp only [hj, if_false]
      simp only [Array.getD_eq_getD_getElem?, Array.set!_eq_setIfInBounds,
        Array.getElem?_setIfInBounds]
      simp [Ne.symm hj]
  unfold rcGet rcSet
  by_cases hi : i < m.size
  · simp only [hi, if_true]
    exact key m hi
  · simp only [hi, if_false]
    rw [key _ (by simp; omega)]
    by_cases hj : j = i
    · simp [hj]
    · simp only [hj, if_false]
      simp only [Array.getD_eq_getD_getElem?]
      rw [Array.getElem?_append]
      by_cases hjm : j < m.size
      · simp [hjm]
      · simp only [hjm, if_false]
        have : m[j]? = none := by simp; omega
        rw [this]
        by_cases hji : j - m.size < i + 1 - m.size
        · simp [hji]
        · simp [hji]

/-! ## the counters do not influence anything else -/

@[simp] theorem cloneEdge_st (r : RSt) (e : Edge) : (cloneEdge r e).st = r.st := by
  cases e <;> rfl

@[simp] theorem dropEdge_st (r : RSt) (e : Edge) : (dropEdge r e).st = r.st := by
  cases e <;> rfl

@[simp] theorem tickd_st (r : RSt) : r.tickd.st = r.st.tickd := rfl
@[simp] theorem tickd_rc (r : RSt) : r.tickd.rc = r.rc := rfl

/-- forget the counters -/
def erase (x : Option Edge × RSt) : Option Edge × St := (x.1, x.2.st)

/-- `mkNodeR` without counters is `mkNodeC` -/
theorem mkNodeR_erase (cap : Nat) (r : RSt) (l : Nat) (t e : Edge) :
    match r.st.store.mkNodeC cap l t e with
    | none => (mkNodeR cap r l t e).1 = none ∧ (mkNodeR cap r l t e).2.st = r.st
    | some m => (mkNodeR cap r l t e).1 = some m.2 ∧
        (mkNodeR cap r l t e).2.st = { r.st with store := m.1 } := by
  unfold Store.mkNodeC mkNodeR
  by_cases hte : t = e
  · simp [hte]
  · simp only [hte, if_false]
    cases hf : r.st.store.find? ⟨l, t, e⟩ with
    | some i => simp
    | none =>
      by_cases hc : r.st.store.count < cap
      · simp [hc]
      · simp [hc]

theorem finishR_erase (cap : Nat) (p : Policy) (r : RSt) (key : Key) (l : Nat) (e1 e0 : Edge) :
    erase (finishR cap p r key l e1 e0) = finishC cap p r.st key l e1 e0 := by
  have h := mkNodeR_erase cap r l e1 e0
  unfold finishR finishC erase
  cases hm : r.st.store.mkNodeC cap l e1 e0 with
  | none =>
    rw [hm] at h
    cases hR : mkNodeR cap r l e1 e0 with
    | mk o r' =>
      rw [hR] at h
      obtain ⟨h1, h2⟩ := h
      simp only at h1 h2
      subst h1
      simp [h2]
  | some m =>
    rw [hm] at h
    cases hR : mkNodeR cap r l e1 e0 with
    | mk o r' =>
      rw [hR] at h
      obtain ⟨h1, h2⟩ := h
      simp only at h1 h2
      subst h1
      simp [h2]

theorem forkR_erase {cap : Nat} {p : Policy} {key : Key} {l : Nat}
    {c1R c0R : RSt → Option Edge × RSt} {c1C c0C : St → Option Edge × St}
    (h1 : ∀ r, erase (c1R r) = c1C r.st) (h0 : ∀ r, erase (c0R r) = c0C r.st) (r : RSt) :
    erase (forkR cap p key l c1R c0R r) = forkC cap p key l c1C c0C r.st := by
  unfold forkR forkC
  have e1 := h1 r
  cases hc1 : c1R r with
  | mk o1 r1 =>
    rw [hc1] at e1
    simp only [erase] at e1
    rw [← e1]
    cases o1 with
    | none => rfl
    | some t =>
      simp only
      have e0 := h0 r1
      cases hc0 : c0R r1 with
      | mk o0 r0 =>
        rw [hc0] at e0
        simp only [erase] at e0
        rw [← e0]
        cases o0 with
        | none => simp [erase]
        | some e => simp only; exact finishR_erase cap p r0 key l t e

theorem notR_erase (cap : Nat) (p : Policy) (fuel : Nat) : ∀ (r : RSt) (f : Edge),
    erase (notR cap p fuel r f) = notC cap p fuel r.st f := by
  induction fuel with
  | zero => intro r f; simp [notR, notC, erase]
  | succ fuel ih =>
    intro r f
    cases f with
    | term b => simp [notR, notC, erase]
    | inner i =>
      simp only [notR, notC]
      cases hget : p.get r.st.tick r.st.cache (.not, [.inner i]) with
      | some h => simp [erase]
      | none =>
        cases hi : r.st.store.get? i with
        | none => simp [erase]
        | some n =>
          simp only
          exact forkR_erase (c1C := fun s => notC cap p fuel s n.t) (c0C := fun s => notC cap p fuel s n.e)
            (fun s => ih s _) (fun s => ih s _) r.tickd

theorem applyR_erase' (cap : Nat) (p : Policy) (op : Op) (fuel : Nat) : ∀ (r : RSt) (f g : Edge),
    erase (applyR cap p op fuel r f g) = applyC cap p op fuel r.st f g := by
  induction fuel with
  | zero => intro r f g; simp [applyR, applyC, erase]
  | succ fuel ih =>
    intro r f g
    simp only [applyR, applyC]
    cases hT : terminalBinS op f g with
    | done e => simp [erase]
    | notOf e => exact notR_erase cap p fuel r e
    | binary tag o1 o2 =>
      simp only
      cases hget : p.get r.st.tick r.st.cache (tag, [o1, o2]) with
      | some h => simp [erase]
      | none =>
        cases hlf : r.st.store.level? f with
        | none => simp [erase]
        | some lf =>
          cases hlg : r.st.store.level? g with
          | none => simp [erase]
          | some lg =>
            simp only
            exact forkR_erase
              (c1C := fun s => applyC cap p op fuel s (r.st.store.cofT (min lf lg) f) (r.st.store.cofT (min lf lg) g))
              (c0C := fun s => applyC cap p op fuel s (r.st.store.cofE (min lf lg) f) (r.st.store.cofE (min lf lg) g))
              (fun s => ih s _ _) (fun s => ih s _ _) r.tickd

theorem iteR_erase' (cap : Nat) (p : Policy) (fuel : Nat) : ∀ (r : RSt) (f g h : Edge),
    erase (iteR cap p fuel r f g h) = iteC cap p fuel r.st f g h := by
  induction fuel with
  | zero => intro r f g h; simp [iteR, iteC, erase]
  | succ fuel ih =>
    intro r f g h
    simp only [iteR, iteC]
    by_cases hgh : g = h
    · simp [hgh, erase]
    · simp only [hgh, if_false]
      by_cases hfg : f = g
      · simp only [hfg, if_true]; exact applyR_erase' cap p _ fuel r _ _
      · simp only [hfg, if_false]
        by_cases hfh : f = h
        · simp only [hfh, if_true]; exact applyR_erase' cap p _ fuel r _ _
        · simp only [hfh, if_false]
          cases f with
          | term b => simp [erase]
          | inner i =>
            cases g with
            | term y =>
              cases h with
              | term z =>
                cases y
                · exact notR_erase cap p fuel r _
                · simp [erase]
              | inner k => cases y <;> exact applyR_erase' cap p _ fuel r _ _
            | inner j =>
              cases h with
              | term z => cases z <;> exact applyR_erase' cap p _ fuel r _ _
              | inner k =>
                simp only
                cases hget : p.get r.st.tick r.st.cache (.ite, [.inner i, .inner j, .inner k]) with
                | some x => simp [erase]
                | none =>
                  simp only
                  cases hlf : r.st.store.level? (.inner i) with
                  | none => simp [erase]
                  | some lf =>
                    cases hlg : r.st.store.level? (.inner j) with
                    | none => simp [erase]
                    | some lg =>
                      cases hlh : r.st.store.level? (.inner k) with
                      | none => simp [erase]
                      | some lh =>
                        simp only
                        exact forkR_erase
                          (c1C := fun s => iteC cap p fuel s (r.st.store.cofT (min (min lf lg) lh) (.inner i))
                            (r.st.store.cofT (min (min lf lg) lh) (.inner j)) (r.st.store.cofT (min (min lf lg) lh) (.inner k)))
                          (c0C := fun s => iteC cap p fuel s (r.st.store.cofE (min (min lf lg) lh) (.inner i))
                            (r.st.store.cofE (min (min lf lg) lh) (.inner j)) (r.st.store.cofE (min (min lf lg) lh) (.inner k)))
                          (fun s => ih s _ _ _) (fun s => ih s _ _ _) r.tickd

end OxiddModel.Bdd.Rc
