import OxiddModel.Bdd.RcSLemmasInv

/-!
# The apply algorithms keep the counters exact — on success and on every failure path

`RcPost r ext R`: the run `R` started in `r` by a caller owning `ext` only extended the store and
ends with exact counters for `result :: ext` (success) resp. `ext` (OutOfMemory).
`finishR_rc`, `forkR_rc` (the sequential recursor with its drop guard), `notR_rc`, `applyR_rc`,
`iteR_rc`: for every capacity, fuel, policy (`Policy.OK`) and all operands that point to stored
nodes. No semantic hypothesis (denotation, fuel bound) is needed.
-/
namespace OxiddModel.Bdd.Rc
open OxiddModel.Bdd OxiddModel.Bdd.BDD OxiddModel.Bdd.Refine

/-- postcondition of a run from `r` whose caller owns the edges `ext` -/
def RcPost (r : RSt) (ext : List Edge) (R : Option Edge × RSt) : Prop :=
  r.st.store.Le R.2.st.store ∧
  match R with
  | (some x, r') => RcInv r' (x :: ext)
  | (none, r') => RcInv r' ext

theorem RcPost.ok {r r' : RSt} {ext : List Edge} {x : Edge} (hle : r.st.store.Le r'.st.store)
    (h : RcInv r' (x :: ext)) : RcPost r ext (some x, r') := ⟨hle, h⟩

/-- returning a clone of a stored edge -/
theorem RcPost.clone {r : RSt} {ext : List Edge} {x : Edge} (h : RcInv r ext)
    (hx : r.st.store.has x) : RcPost r ext (some x, cloneEdge r x) :=
  ⟨by rw [cloneEdge_st]; exact Store.Le.refl _, cloneEdge_rc h hx⟩

theorem RcPost.clone_tickd {r : RSt} {ext : List Edge} {x : Edge} (h : RcInv r ext)
    (hx : r.st.store.has x) : RcPost r ext (some x, cloneEdge r.tickd x) :=
  ⟨by rw [cloneEdge_st]; exact Store.Le.refl _, cloneEdge_rc h.tickd hx⟩

theorem mkNodeR_le (cap : Nat) (r : RSt) (l : Nat) (t e : Edge) :
    r.st.store.Le (mkNodeR cap r l t e).2.st.store := by
  unfold mkNodeR
  split
  · simp only [dropEdge_st]; exact Store.Le.refl _
  · split
    · simp only [cloneEdge_st, dropEdge_st]; exact Store.Le.refl _
    · split
      · exact alloc_le _ _
      · simp only [dropEdge_st]; exact Store.Le.refl _

theorem mkNodeR_cache (cap : Nat) (r : RSt) (l : Nat) (t e : Edge) :
    (mkNodeR cap r l t e).2.st.cache = r.st.cache ∧ (mkNodeR cap r l t e).2.st.tick = r.st.tick := by
  unfold mkNodeR
  split
  · simp
  · split
    · simp
    · split <;> simp

/-- `reduce(..)?` + cache add -/
theorem finishR_rc {p : Policy} (pok : p.OK) {cap : Nat} {r : RSt} {key : Key} {l : Nat}
    {t e : Edge} {ext : List Edge} (h : RcInv r (t :: e :: ext)) :
    RcPost r ext (finishR cap p r key l t e) := by
  have hm := mkNodeR_rc (cap := cap) (l := l) h
  have hle := mkNodeR_le cap r l t e
  unfold finishR
  cases hR : mkNodeR cap r l t e with
  | mk o r' =>
    rw [hR] at hm hle
    cases o with
    | none => exact ⟨hle, hm⟩
    | some x =>
      simp only at hm ⊢
      refine ⟨hle, ⟨hm.ext_ok, hm.kids_ok, ?_, hm.rc_eq⟩⟩
      intro k v hkv
      rcases pok.add_sub _ _ _ _ _ hkv with hold | hnew
      · exact hm.cache_ok k v hold
      · cases hnew
        exact hm.ext_ok x List.mem_cons_self

/-- the sequential recursor: first call, second call (the first result is guarded), `reduce`,
cache add — exact counters whichever of the three fails -/
theorem forkR_rc {p : Policy} (pok : p.OK) {cap : Nat} {key : Key} {l : Nat}
    {c1 c0 : RSt → Option Edge × RSt} {r : RSt} {ext : List Edge}
    (h1 : RcPost r ext (c1 r))
    (h0 : ∀ t r1, RcInv r1 (t :: ext) → r.st.store.Le r1.st.store → RcPost r1 (t :: ext) (c0 r1)) :
    RcPost r ext (forkR cap p key l c1 c0 r) := by
  unfold forkR
  cases hc1 : c1 r with
  | mk o1 r1 =>
    rw [hc1] at h1
    cases o1 with
    | none => exact h1
    | some t =>
      obtain ⟨le1, i1⟩ := h1
      simp only at i1 le1 ⊢
      have h0' := h0 t r1 i1 le1
      cases hc0 : c0 r1 with
      | mk o0 r0 =>
        rw [hc0] at h0'
        obtain ⟨le0, i0⟩ := h0'
        cases o0 with
        | none =>
          simp only at i0 le0 ⊢
          refine ⟨?_, dropEdge_rc i0⟩
          simp only [dropEdge_st]
          exact le1.trans le0
        | some e =>
          simp only at i0 le0 ⊢
          have hf := finishR_rc pok (cap := cap) (key := key) (l := l) i0.swap
          exact ⟨le1.trans (le0.trans hf.1), hf.2⟩

/-! ## cofactors and terminal cases stay inside the store -/

theorem cofT_has {r : RSt} {ext : List Edge} (h : RcInv r ext) (l : Nat) {f : Edge}
    (hf : r.st.store.has f) : r.st.store.has (r.st.store.cofT l f) := by
  cases f with
  | term b => trivial
  | inner i =>
    cases hi : r.st.store.get? i with
    | none => simp only [Store.cofT, hi]; exact hf
    | some n =>
      simp only [Store.cofT, hi]
      split
      · exact (h.kids_ok i n hi).1
      · exact hf

theorem cofE_has {r : RSt} {ext : List Edge} (h : RcInv r ext) (l : Nat) {f : Edge}
    (hf : r.st.store.has f) : r.st.store.has (r.st.store.cofE l f) := by
  cases f with
  | term b => trivial
  | inner i =>
    cases hi : r.st.store.get? i with
    | none => simp only [Store.cofE, hi]; exact hf
    | some n =>
      simp only [Store.cofE, hi]
      split
      · exact (h.kids_ok i n hi).2
      · exact hf

/-- what `terminal_bin` returns is an operand or a terminal -/
theorem terminalBinS_shape (op : Op) (f g : Edge) :
    match terminalBinS op f g with
    | .done h => h = f ∨ h = g ∨ ∃ b, h = .term b
    | .notOf h => h = f ∨ h = g
    | .binary _ _ _ => True := by
  rcases f with (_ | _) | i <;> rcases g with (_ | _) | j <;> cases op <;>
    first
    | (simp [terminalBinS]; done)
    | (by_cases hij : i = j <;> by_cases hgt : (Edge.inner i).gt (Edge.inner j) = true <;>
        simp [terminalBinS, hij, hgt])

theorem terminalBinS_done_has {s : Store} {op : Op} {f g h : Edge} (hf : s.has f) (hg : s.has g)
    (ht : terminalBinS op f g = .done h) : s.has h := by
  have := terminalBinS_shape op f g
  rw [ht] at this
  rcases this with rfl | rfl | ⟨b, rfl⟩
  · exact hf
  · exact hg
  · trivial

theorem terminalBinS_notOf_has {s : Store} {op : Op} {f g h : Edge} (hf : s.has f) (hg : s.has g)
    (ht : terminalBinS op f g = .notOf h) : s.has h := by
  have := terminalBinS_shape op f g
  rw [ht] at this
  rcases this with rfl | rfl
  · exact hf
  · exact hg

/-! ## the three algorithms -/

theorem notR_rc {p : Policy} (pok : p.OK) (cap : Nat) (fuel : Nat) :
    ∀ (r : RSt) (f : Edge) (ext : List Edge), RcInv r ext → r.st.store.has f →
      RcPost r ext (notR cap p fuel r f) := by
  induction fuel with
  | zero => intro r f ext h hf; exact RcPost.clone h hf
  | succ fuel ih =>
    intro r f ext h hf
    cases f with
    | term b => exact RcPost.clone (x := .term (!b)) h trivial
    | inner i =>
      simp only [notR]
      cases hget : p.get r.st.tick r.st.cache (.not, [.inner i]) with
      | some x => exact RcPost.clone_tickd h (h.cache_ok _ _ (pok.get_mem _ _ _ _ hget))
      | none =>
        cases hi : r.st.store.get? i with
        | none => exact RcPost.clone_tickd h hf
        | some n =>
          simp only
          have hk := h.kids_ok i n hi
          have := forkR_rc pok (cap := cap) (key := (.not, [.inner i])) (l := n.level)
            (c1 := fun s => notR cap p fuel s n.t) (c0 := fun s => notR cap p fuel s n.e)
            (r := r.tickd) (ext := ext) (ih _ _ _ h.tickd hk.1)
            (fun t r1 i1 le1 => ih _ _ _ i1 (hk.2.mono le1))
          exact this

theorem applyR_rc {p : Policy} (pok : p.OK) (cap : Nat) (op : Op) (fuel : Nat) :
    ∀ (r : RSt) (f g : Edge) (ext : List Edge), RcInv r ext → r.st.store.has f →
      r.st.store.has g → RcPost r ext (applyR cap p op fuel r f g) := by
  induction fuel with
  | zero => intro r f g ext h hf _; exact RcPost.clone h hf
  | succ fuel ih =>
    intro r f g ext h hf hg
    simp only [applyR]
    cases hT : terminalBinS op f g with
    | done x => exact RcPost.clone h (terminalBinS_done_has hf hg hT)
    | notOf x => exact notR_rc pok cap fuel r x ext h (terminalBinS_notOf_has hf hg hT)
    | binary tag o1 o2 =>
      simp only
      cases hget : p.get r.st.tick r.st.cache (tag, [o1, o2]) with
      | some x => exact RcPost.clone_tickd h (h.cache_ok _ _ (pok.get_mem _ _ _ _ hget))
      | none =>
        cases hlf : r.st.store.level? f with
        | none => exact RcPost.clone_tickd h hf
        | some lf =>
          cases hlg : r.st.store.level? g with
          | none => exact RcPost.clone_tickd h hf
          | some lg =>
            simp only
            exact forkR_rc pok (cap := cap) (r := r.tickd) (ext := ext)
              (c1 := fun s => applyR cap p op fuel s (r.st.store.cofT (min lf lg) f) (r.st.store.cofT (min lf lg) g))
              (c0 := fun s => applyR cap p op fuel s (r.st.store.cofE (min lf lg) f) (r.st.store.cofE (min lf lg) g))
              (ih _ _ _ _ h.tickd (cofT_has h _ hf) (cofT_has h _ hg))
              (fun t r1 i1 le1 => ih _ _ _ _ i1 ((cofE_has h _ hf).mono le1) ((cofE_has h _ hg).mono le1))

theorem iteR_rc {p : Policy} (pok : p.OK) (cap : Nat) (fuel : Nat) :
    ∀ (r : RSt) (f g h : Edge) (ext : List Edge), RcInv r ext → r.st.store.has f →
      r.st.store.has g → r.st.store.has h → RcPost r ext (iteR cap p fuel r f g h) := by
  induction fuel with
  | zero => intro r f g h ext hi hf _ _; exact RcPost.clone hi hf
  | succ fuel ih =>
    intro r f g h ext hi hf hg hh
    simp only [iteR]
    by_cases hgh : g = h
    · simp only [hgh, if_true]; exact RcPost.clone hi hh
    · simp only [hgh, if_false]
      by_cases hfg : f = g
      · simp only [hfg, if_true]; exact applyR_rc pok cap _ fuel r _ _ ext hi hg hh
      · simp only [hfg, if_false]
        by_cases hfh : f = h
        · simp only [hfh, if_true]; exact applyR_rc pok cap _ fuel r _ _ ext hi hh hg
        · simp only [hfh, if_false]
          cases f with
          | term b =>
            simp only
            cases b
            · exact RcPost.clone hi hh
            · exact RcPost.clone hi hg
          | inner i =>
            cases g with
            | term y =>
              cases h with
              | term z =>
                cases y
                · exact notR_rc pok cap fuel r _ ext hi hf
                · exact RcPost.clone hi hf
              | inner k => cases y <;> exact applyR_rc pok cap _ fuel r _ _ ext hi hf hh
            | inner j =>
              cases h with
              | term z => cases z <;> exact applyR_rc pok cap _ fuel r _ _ ext hi hf hg
              | inner k =>
                simp only
                cases hget : p.get r.st.tick r.st.cache (.ite, [.inner i, .inner j, .inner k]) with
                | some x => exact RcPost.clone_tickd hi (hi.cache_ok _ _ (pok.get_mem _ _ _ _ hget))
                | none =>
                  simp only
                  cases hlf : r.st.store.level? (.inner i) with
                  | none => exact RcPost.clone_tickd hi hf
                  | some lf =>
                    cases hlg : r.st.store.level? (.inner j) with
                    | none => exact RcPost.clone_tickd hi hf
                    | some lg =>
                      cases hlh : r.st.store.level? (.inner k) with
                      | none => exact RcPost.clone_tickd hi hf
                      | some lh =>
                        simp only
                        exact forkR_rc pok (cap := cap) (r := r.tickd) (ext := ext)
                          (c1 := fun s => iteR cap p fuel s (r.st.store.cofT (min (min lf lg) lh) (.inner i))
                            (r.st.store.cofT (min (min lf lg) lh) (.inner j)) (r.st.store.cofT (min (min lf lg) lh) (.inner k)))
                          (c0 := fun s => iteR cap p fuel s (r.st.store.cofE (min (min lf lg) lh) (.inner i))
                            (r.st.store.cofE (min (min lf lg) lh) (.inner j)) (r.st.store.cofE (min (min lf lg) lh) (.inner k)))
                          (ih _ _ _ _ _ hi.tickd (cofT_has hi _ hf) (cofT_has hi _ hg) (cofT_has hi _ hh))
                          (fun t r1 i1 le1 => ih _ _ _ _ _ i1 ((cofE_has hi _ hf).mono le1)
                            ((cofE_has hi _ hg).mono le1) ((cofE_has hi _ hh).mono le1))

end OxiddModel.Bdd.Rc
