import OxiddModel.Bdd.RcSLemmas

/-!
# The reference-count invariant and its preservation by the primitives

`RcInv r ext`: for every stored node `rc = 1 + #(occurrences in ext) + #(stored parent edges)`
(the `1` is the unique table's own reference — `ref_count()` reports `rc - 1`), where `ext` is the
multiset (a list, used only through `List.count` / membership) of the **externally owned** edges:
the handles of the user plus the temporaries the running algorithm currently owns. It also
contains the closedness facts the counters rely on: external edges, child edges and cached
results point to stored nodes.

`cloneEdge_rc`, `dropEdge_rc`, `mkNodeR_rc` (all four branches of `reduce`: reduction, unique-table
hit, allocation, OutOfMemory).
-/
namespace OxiddModel.Bdd.Rc
open OxiddModel.Bdd OxiddModel.Bdd.BDD OxiddModel.Bdd.Refine

/-! ## stored parent edges -/

/-- 1 if the edge points to slot `i` -/
def cnt (e : Edge) (i : Nat) : Nat := if e = .inner i then 1 else 0

/-- number of child edges of a slot's content that point to slot `i` -/
def refsOpt (i : Nat) : Option Node → Nat
  | none => 0
  | some n => cnt n.t i + cnt n.e i

/-- number of stored parent edges of slot `i` (parents that are garbage included) -/
def parents (s : Store) (i : Nat) : Nat := (s.nodes.toList.map (refsOpt i)).sum

/-- the edge points to a terminal or to an occupied slot -/
def _root_.OxiddModel.Bdd.Refine.Store.has (s : Store) : Edge → Prop
  | .term _ => True
  | .inner i => ∃ n, s.get? i = some n

/-- **the reference-count invariant** -/
structure RcInv (r : RSt) (ext : List Edge) : Prop where
  /-- every externally owned edge points to a stored node -/
  ext_ok : ∀ e ∈ ext, r.st.store.has e
  /-- the children of stored nodes are stored -/
  kids_ok : ∀ i n, r.st.store.get? i = some n → r.st.store.has n.t ∧ r.st.store.has n.e
  /-- cached results point to stored nodes (the cache is cleared at `gc`) -/
  cache_ok : ∀ k v, (k, v) ∈ r.st.cache → r.st.store.has v
  /-- counter = table's reference + external references + stored parent edges -/
  rc_eq : ∀ i n, r.st.store.get? i = some n →
    rcGet r.rc i = 1 + ext.count (.inner i) + parents r.st.store i

theorem _root_.OxiddModel.Bdd.Refine.Store.has.mono {s s' : Store} (hle : s.Le s') {e : Edge} (h : s.has e) : s'.has e := by
  cases e with
  | term b => trivial
  | inner i => obtain ⟨n, hn⟩ := h; exact ⟨n, hle i n hn⟩

/-- `ext` matters only as a multiset -/
theorem RcInv.congr {r : RSt} {ext ext' : List Edge} (h : RcInv r ext)
    (hc : ∀ e, ext.count e = ext'.count e) : RcInv r ext' where
  ext_ok e he := by
    apply h.ext_ok
    have : 0 < ext'.count e := List.count_pos_iff.mpr he
    rw [← hc] at this
    exact List.count_pos_iff.mp this
  kids_ok := h.kids_ok
  cache_ok := h.cache_ok
  rc_eq i n hi := by rw [h.rc_eq i n hi, hc]

theorem RcInv.swap {r : RSt} {a b : Edge} {ext : List Edge} (h : RcInv r (a :: b :: ext)) :
    RcInv r (b :: a :: ext) :=
  h.congr (fun e => by simp only [List.count_cons]; omega)

/-- the counters are not looked at by the other components -/
theorem RcInv.tickd {r : RSt} {ext : List Edge} (h : RcInv r ext) : RcInv r.tickd ext :=
  ⟨h.ext_ok, h.kids_ok, h.cache_ok, h.rc_eq⟩

/-! ## `clone_edge` / `drop_edge` -/

theorem count_inner_cons (x : Edge) (ext : List Edge) (i : Nat) :
    (x :: ext).count (.inner i) = ext.count (.inner i) + cnt x i := by
  simp only [List.count_cons, cnt]
  by_cases h : x = .inner i
  · simp [h]
  · simp [h]

/-- cloning an edge to a stored node adds one external reference -/
theorem cloneEdge_rc {r : RSt} {ext : List Edge} {x : Edge} (h : RcInv r ext)
    (hx : r.st.store.has x) : RcInv (cloneEdge r x) (x :: ext) := by
  refine ⟨?_, ?_, ?_, ?_⟩
  · intro e he
    rw [cloneEdge_st]
    rcases List.mem_cons.mp he with rfl | he
    · exact hx
    · exact h.ext_ok e he
  · rw [cloneEdge_st]; exact h.kids_ok
  · rw [cloneEdge_st]; exact h.cache_ok
  · intro i n hi
    rw [cloneEdge_st] at hi ⊢
    rw [count_inner_cons, ← Nat.add_assoc, Nat.add_right_comm, ← h.rc_eq i n hi]
    cases x with
    | term b => simp [cloneEdge, cnt]
    | inner j =>
      simp only [cloneEdge, rcGet_rcSet, cnt]
      by_cases hij : i = j
      · subst hij; simp
      · have : Edge.inner j ≠ Edge.inner i := fun e => hij (by cases e; rfl)
        simp [hij, this]

/-- dropping an externally owned edge removes one external reference -/
theorem dropEdge_rc {r : RSt} {ext : List Edge} {x : Edge} (h : RcInv r (x :: ext)) :
    RcInv (dropEdge r x) ext := by
  refine ⟨?_, ?_, ?_, ?_⟩
  · intro e he
    rw [dropEdge_st]
    exact h.ext_ok e (List.mem_cons_of_mem _ he)
  · rw [dropEdge_st]; exact h.kids_ok
  · rw [dropEdge_st]; exact h.cache_ok
  · intro i n hi
    rw [dropEdge_st] at hi ⊢
    have := h.rc_eq i n hi
    rw [count_inner_cons] at this
    cases x with
    | term b => simpa [dropEdge, cnt] using this
    | inner j =>
      simp only [dropEdge, rcGet_rcSet]
      simp only [cnt] at this
      by_cases hij : i = j
      · subst hij; simp at this ⊢; omega
      · have hne : Edge.inner j ≠ Edge.inner i := fun e => hij (by cases e; rfl)
        simp only [hne, if_false] at this
        simp [hij, this]

/-- a dropped edge was really counted: no underflow, the node keeps the table's reference -/
theorem dropEdge_no_underflow {r : RSt} {ext : List Edge} {j : Nat}
    (h : RcInv r (.inner j :: ext)) : 2 ≤ rcGet r.rc j := by
  obtain ⟨n, hn⟩ := h.ext_ok (.inner j) List.mem_cons_self
  have := h.rc_eq j n hn
  simp only [List.count_cons_self] at this
  omega

/-! ## list sums -/

theorem sum_map_set {α} (f : α → Nat) : ∀ (l : List α) (k : Nat) (x : α) (hk : k < l.length),
    ((l.set k x).map f).sum + f l[k] = (l.map f).sum + f x := by
  intro l
  induction l with
  | nil => intro k x hk; simp at hk
  | cons a as ih =>
    intro k x hk
    cases k with
    | zero => simp; omega
    | succ k =>
      simp only [List.set_cons_succ, List.map_cons, List.sum_cons, List.getElem_cons_succ]
      have := ih k x (by simpa using hk)
      omega

theorem sum_map_zero {α} (f : α → Nat) (l : List α) (h : ∀ a ∈ l, f a = 0) : (l.map f).sum = 0 := by
  induction l with
  | nil => rfl
  | cons a as ih =>
    simp only [List.map_cons, List.sum_cons]
    rw [h a List.mem_cons_self, ih (fun b hb => h b (List.mem_cons_of_mem _ hb))]

/-! ## parents under allocation and freeing -/

theorem mem_nodes_get? {s : Store} {n : Node} (h : some n ∈ s.nodes.toList) :
    ∃ k, s.get? k = some n := by
  obtain ⟨k, hk, hkn⟩ := List.mem_iff_getElem.mp h
  refine ⟨k, ?_⟩
  have hk' : k < s.nodes.size := by simpa using hk
  have : s.nodes[k] = some n := by simpa using hkn
  simp [Store.get?, hk', this]

/-- no stored node points to `j` ⇒ no parent edges -/
theorem parents_zero {s : Store} {j : Nat}
    (h : ∀ k n, s.get? k = some n → n.t ≠ .inner j ∧ n.e ≠ .inner j) : parents s j = 0 := by
  apply sum_map_zero
  intro o ho
  cases o with
  | none => rfl
  | some n =>
    obtain ⟨k, hk⟩ := mem_nodes_get? ho
    obtain ⟨h1, h2⟩ := h k n hk
    simp [refsOpt, cnt, h1, h2]

theorem parents_alloc (s : Store) (n : Node) (i : Nat) :
    parents (s.alloc n).1 i = parents s i + (cnt n.t i + cnt n.e i) := by
  unfold Store.alloc parents
  split
  · rename_i k hk
    obtain ⟨hlt, heq⟩ := Array.findIdx?_eq_some_iff_findIdx_eq.mp hk
    have hnone := Array.findIdx_getElem (xs := s.nodes) (p := (· == none)) (w := by rw [heq]; exact hlt)
    simp only [heq] at hnone
    have hn : s.nodes[k] = none := beq_iff_eq.mp hnone
    have hl : k < s.nodes.toList.length := by simpa using hlt
    have := sum_map_set (refsOpt i) s.nodes.toList k (some n) hl
    have hk0 : refsOpt i s.nodes.toList[k] = 0 := by
      have : s.nodes.toList[k] = none := by simpa using hn
      rw [this]; rfl
    rw [hk0] at this
    simp only [Array.set!_eq_setIfInBounds, Array.toList_setIfInBounds]
    simpa [refsOpt] using this
  · simp [refsOpt]

theorem get?_free (s : Store) (k j : Nat) :
    (⟨s.nodes.set! k none⟩ : Store).get? j = if j = k then none else s.get? j := by
  simp only [Store.get?, Array.set!_eq_setIfInBounds, Array.getElem?_setIfInBounds]
  by_cases hj : j = k
  · subst hj
    by_cases hlt : j < s.nodes.size
    · simp [hlt]
    · simp [hlt]
  · simp [hj, Ne.symm hj]

theorem parents_free (s : Store) (k : Nat) (n : Node) (i : Nat) (h : s.get? k = some n) :
    parents ⟨s.nodes.set! k none⟩ i + (cnt n.t i + cnt n.e i) = parents s i := by
  unfold parents
  have hlt : k < s.nodes.size := by
    by_cases hlt : k < s.nodes.size
    · exact hlt
    · simp [Store.get?, hlt] at h
  have hn : s.nodes[k] = some n := by
    simpa [Store.get?, hlt] using h
  have hl : k < s.nodes.toList.length := by simpa using hlt
  have := sum_map_set (refsOpt i) s.nodes.toList k none hl
  have hk0 : refsOpt i s.nodes.toList[k] = cnt n.t i + cnt n.e i := by
    have : s.nodes.toList[k] = some n := by simpa using hn
    rw [this]; rfl
  rw [hk0] at this
  simp only [Array.set!_eq_setIfInBounds, Array.toList_setIfInBounds]
  simpa [refsOpt] using this

/-! ## `reduce` -/

theorem has_of_find {s : Store} {n : Node} {i : Nat} (h : s.find? n = some i) : s.has (.inner i) :=
  ⟨n, find?_some h⟩

/-- **`mkNodeR_rc`**: `reduce` consumes the two owned children; on success the caller owns the
result instead, on OutOfMemory it owns nothing more — in every branch the counters are exact. -/
theorem mkNodeR_rc {cap : Nat} {r : RSt} {l : Nat} {t e : Edge} {ext : List Edge}
    (h : RcInv r (t :: e :: ext)) :
    match mkNodeR cap r l t e with
    | (some x, r') => RcInv r' (x :: ext)
    | (none, r') => RcInv r' ext := by
  unfold mkNodeR
  by_cases hte : t = e
  · simp only [hte, if_true]
    subst hte
    exact dropEdge_rc h
  · simp only [hte, if_false]
    cases hf : r.st.store.find? ⟨l, t, e⟩ with
    | some i =>
      simp only
      have h2 : RcInv (dropEdge (dropEdge r t) e) ext := dropEdge_rc (dropEdge_rc h)
      refine cloneEdge_rc h2 ?_
      simp only [dropEdge_st]
      exact has_of_find hf
    | none =>
      simp only
      by_cases hc : r.st.store.count < cap
      · simp only [hc, if_true]
        -- allocation
        have hle := alloc_le r.st.store ⟨l, t, e⟩
        have hfresh := alloc_fresh r.st.store ⟨l, t, e⟩
        generalize hj : (r.st.store.alloc ⟨l, t, e⟩).2 = j at hfresh
        have hget := get?_alloc r.st.store ⟨l, t, e⟩
        rw [hj] at hget
        have hnot : ∀ x : Edge, r.st.store.has x → x ≠ .inner j := by
          intro x hx hxe
          subst hxe
          obtain ⟨n, hn⟩ := hx
          rw [hfresh] at hn; cases hn
        have ht := h.ext_ok t List.mem_cons_self
        have he := h.ext_ok e (List.mem_cons_of_mem _ List.mem_cons_self)
        refine ⟨?_, ?_, ?_, ?_⟩
        · intro x hx
          rcases List.mem_cons.mp hx with rfl | hx
          · exact ⟨⟨l, t, e⟩, by simp [hget]⟩
          · exact (h.ext_ok x (List.mem_cons_of_mem _ (List.mem_cons_of_mem _ hx))).mono hle
        · intro i n hi
          simp only [hget] at hi
          split at hi
          · cases hi; exact ⟨ht.mono hle, he.mono hle⟩
          · obtain ⟨h1, h2⟩ := h.kids_ok i n hi
            exact ⟨h1.mono hle, h2.mono hle⟩
        · intro k v hkv
          exact (h.cache_ok k v hkv).mono hle
        · intro i n hi
          simp only [hget] at hi
          simp only [rcGet_rcSet, parents_alloc]
          split at hi
          · rename_i hij
            subst hij
            cases hi
            simp only [if_true, List.count_cons_self]
            have hz : parents r.st.store i = 0 := parents_zero (fun k n hk =>
              ⟨hnot _ (h.kids_ok k n hk).1, hnot _ (h.kids_ok k n hk).2⟩)
            have hce : ext.count (.inner i) = 0 := by
              apply List.count_eq_zero.mpr
              intro hm
              exact hnot _ (h.ext_ok _ (List.mem_cons_of_mem _ (List.mem_cons_of_mem _ hm))) rfl
            simp [hz, hce, cnt, hnot t ht, hnot e he]
          · rename_i hij
            have := h.rc_eq i n hi
            simp only [count_inner_cons] at this
            have hne : Edge.inner j ≠ Edge.inner i := fun e => hij (by cases e; rfl)
            simp only [hij, if_false, count_inner_cons, cnt, hne]
            simp only [cnt] at this
            omega
      · simp only [hc, if_false]
        exact dropEdge_rc (dropEdge_rc h)

end OxiddModel.Bdd.Rc
