import OxiddModel.Bdd.RcSHistory

/-!
# The algorithms keep the store ordered (what `gcR_exact` assumes)

`OrdInv N r`: children of stored nodes are on strictly larger levels, all levels are `< N`, and
every cache entry maps operands that are all at level `≥ L` to a result at level `≥ L`
(`CacheLv`; this is what makes a cache hit as good as a recomputation for the level argument).
`notR_ord / applyR_ord / iteR_ord`: with operands at level `≥ L` the result is at level `≥ L` and
`OrdInv` is kept — on success and on failure; `Cmd.run_ord`, `runAll_ord`: along every history.
-/
namespace OxiddModel.Bdd.Rc
open OxiddModel.Bdd OxiddModel.Bdd.BDD OxiddModel.Bdd.Refine

/-- the edge points to a terminal or to a stored node at level `≥ L` -/
def Above (s : Store) (L : Nat) : Edge → Prop
  | .term _ => True
  | .inner i => ∃ n, s.get? i = some n ∧ L ≤ n.level

theorem Above.mono {s s' : Store} {L : Nat} {e : Edge} (hle : s.Le s') (h : Above s L e) :
    Above s' L e := by
  cases e with
  | term b => trivial
  | inner i => obtain ⟨n, hn, hl⟩ := h; exact ⟨n, hle i n hn, hl⟩

theorem Above.weaken {s : Store} {L L' : Nat} {e : Edge} (hL : L' ≤ L) (h : Above s L e) :
    Above s L' e := by
  cases e with
  | term b => trivial
  | inner i => obtain ⟨n, hn, hl⟩ := h; exact ⟨n, hn, by omega⟩

theorem Above.has {s : Store} {L : Nat} {e : Edge} (h : Above s L e) : s.has e := by
  cases e with
  | term b => trivial
  | inner i => obtain ⟨n, hn, _⟩ := h; exact ⟨n, hn⟩

theorem Above.of_le_has {s s' : Store} {L : Nat} {e : Edge} (hle : s.Le s') (hh : s.has e)
    (h : Above s' L e) : Above s L e := by
  cases e with
  | term b => trivial
  | inner i =>
    obtain ⟨n, hn⟩ := hh
    obtain ⟨n', hn', hl⟩ := h
    have := hle i n hn
    rw [this] at hn'; cases hn'
    exact ⟨n, hn, hl⟩

theorem Above.level_le {s : Store} {L i : Nat} {n : Node} (h : Above s L (.inner i))
    (hn : s.get? i = some n) : L ≤ n.level := by
  obtain ⟨n', hn', hl⟩ := h
  rw [hn] at hn'; cases hn'; exact hl

/-- cache entries respect levels -/
def CacheLv (s : Store) (c : Cache) : Prop :=
  ∀ k v, (k, v) ∈ c → (∀ o ∈ k.2, s.has o) ∧ ∀ L, (∀ o ∈ k.2, Above s L o) → Above s L v

theorem CacheLv.mono {s s' : Store} {c : Cache} (h : CacheLv s c) (hle : s.Le s') : CacheLv s' c := by
  intro k v hkv
  obtain ⟨h1, h2⟩ := h k v hkv
  refine ⟨fun o ho => (h1 o ho).mono hle, fun L hL => ?_⟩
  exact (h2 L (fun o ho => Above.of_le_has hle (h1 o ho) (hL o ho))).mono hle

structure OrdInv (N : Nat) (r : RSt) : Prop where
  ord : r.st.store.Ordered
  bound : ∀ i n, r.st.store.get? i = some n → n.level < N
  cache : CacheLv r.st.store r.st.cache

theorem OrdInv.tickd {N : Nat} {r : RSt} (h : OrdInv N r) : OrdInv N r.tickd := ⟨h.ord, h.bound, h.cache⟩

theorem OrdInv.of_st {N : Nat} {r r' : RSt} (h : OrdInv N r) (hs : r'.st = r.st) : OrdInv N r' := by
  refine ⟨?_, ?_, ?_⟩
  · rw [hs]; exact h.ord
  · rw [hs]; exact h.bound
  · rw [hs]; exact h.cache

/-- postcondition: invariant kept, a result is at level `≥ L` -/
def OrdPost (N L : Nat) (R : Option Edge × RSt) : Prop :=
  OrdInv N R.2 ∧ ∀ x, R.1 = some x → Above R.2.st.store L x

theorem OrdPost.weaken {N L L' : Nat} {R : Option Edge × RSt} (hL : L' ≤ L) (h : OrdPost N L R) :
    OrdPost N L' R := ⟨h.1, fun x hx => (h.2 x hx).weaken hL⟩

theorem OrdPost.clone {N L : Nat} {r : RSt} {x : Edge} (h : OrdInv N r) (hx : Above r.st.store L x) :
    OrdPost N L (some x, cloneEdge r x) := by
  refine ⟨h.of_st (cloneEdge_st r x), ?_⟩
  intro y hy
  cases hy
  simp only [cloneEdge_st]
  exact hx

theorem OrdPost.clone_tickd {N L : Nat} {r : RSt} {x : Edge} (h : OrdInv N r)
    (hx : Above r.st.store L x) : OrdPost N L (some x, cloneEdge r.tickd x) :=
  OrdPost.clone (r := r.tickd) h.tickd hx

/-- children are strictly below their parent -/
theorem child_above {r : RSt} {ext : List Edge} {N : Nat} (hrc : RcInv r ext) (ho : OrdInv N r)
    {i : Nat} {n : Node} (hi : r.st.store.get? i = some n) :
    Above r.st.store (n.level + 1) n.t ∧ Above r.st.store (n.level + 1) n.e := by
  obtain ⟨h1, h2⟩ := hrc.kids_ok i n hi
  constructor
  · cases ht : n.t with
    | term b => trivial
    | inner j =>
      rw [ht] at h1
      obtain ⟨m, hm⟩ := h1
      exact ⟨m, hm, ho.ord i n j m hi (.inl ht) hm⟩
  · cases he : n.e with
    | term b => trivial
    | inner j =>
      rw [he] at h2
      obtain ⟨m, hm⟩ := h2
      exact ⟨m, hm, ho.ord i n j m hi (.inr he) hm⟩

/-! ## `reduce` -/

theorem mkNodeR_ord {N cap : Nat} {r : RSt} {l : Nat} {t e : Edge} {ext : List Edge}
    (hrc : RcInv r (t :: e :: ext)) (ho : OrdInv N r) (hl : l < N)
    (ht : Above r.st.store (l + 1) t) (he : Above r.st.store (l + 1) e) :
    OrdPost N l (mkNodeR cap r l t e) := by
  unfold mkNodeR
  by_cases hte : t = e
  · simp only [hte, if_true]
    refine ⟨ho.of_st (dropEdge_st r e), ?_⟩
    intro x hx; cases hx
    simp only [dropEdge_st]
    exact he.weaken (by omega)
  · simp only [hte, if_false]
    cases hf : r.st.store.find? ⟨l, t, e⟩ with
    | some i =>
      simp only
      refine ⟨ho.of_st (by simp), ?_⟩
      intro x hx; cases hx
      simp only [cloneEdge_st, dropEdge_st]
      exact ⟨_, find?_some hf, Nat.le_refl _⟩
    | none =>
      simp only
      by_cases hc : r.st.store.count < cap
      · simp only [hc, if_true]
        have hle := alloc_le r.st.store ⟨l, t, e⟩
        have hfresh := alloc_fresh r.st.store ⟨l, t, e⟩
        generalize hj : (r.st.store.alloc ⟨l, t, e⟩).2 = j at hfresh
        have hget := get?_alloc r.st.store ⟨l, t, e⟩
        rw [hj] at hget
        have hnot : ∀ x : Edge, r.st.store.has x → x ≠ .inner j := by
          intro x hx hxe
          subst hxe
          obtain ⟨n, hn⟩ := hx
          rw [hfresh] at hn; cases hn
        refine ⟨⟨?_, ?_, ?_⟩, ?_⟩
        · -- ordered
          intro i n k m hi hch hk
          simp only [hget] at hi hk
          split at hi
          · cases hi
            -- the new node: its children are old nodes at level > l
            have hkj : k ≠ j := by
              intro hkj; subst hkj
              rcases hch with hch | hch
              · exact hnot t ht.has hch
              · exact hnot e he.has hch
            simp only [hkj, if_false] at hk
            rcases hch with hch | hch
            · simp only at hch; rw [hch] at ht
              have := ht.level_le hk; simp only; omega
            · simp only at hch; rw [hch] at he
              have := he.level_le hk; simp only; omega
          · -- an old node: its children are old nodes
            have hk' := hrc.kids_ok i n hi
            have hkj : k ≠ j := by
              intro hkj; subst hkj
              rcases hch with hch | hch
              · exact hnot _ hk'.1 hch
              · exact hnot _ hk'.2 hch
            simp only [hkj, if_false] at hk
            exact ho.ord i n k m hi hch hk
        · intro i n hi
          simp only [hget] at hi
          split at hi
          · cases hi; exact hl
          · exact ho.bound i n hi
        · exact ho.cache.mono hle
        · intro x hx; cases hx
          exact ⟨⟨l, t, e⟩, by simp [hget], Nat.le_refl _⟩
      · simp only [hc, if_false]
        refine ⟨ho.of_st (by simp), ?_⟩
        intro x hx; cases hx

/-- `reduce(..)?` + cache add; the key's operands bound the level from above -/
theorem finishR_ord {p : Policy} (pok : p.OK) {N cap : Nat} {r : RSt} {key : Key} {l : Nat}
    {t e : Edge} {ext : List Edge} (hrc : RcInv r (t :: e :: ext)) (ho : OrdInv N r) (hl : l < N)
    (ht : Above r.st.store (l + 1) t) (he : Above r.st.store (l + 1) e)
    (hkey : ∀ o ∈ key.2, r.st.store.has o)
    (hlev : ∀ L, (∀ o ∈ key.2, Above r.st.store L o) → L ≤ l) :
    OrdPost N l (finishR cap p r key l t e) := by
  have hm := mkNodeR_ord (cap := cap) hrc ho hl ht he
  have hle := mkNodeR_le cap r l t e
  unfold finishR
  cases hR : mkNodeR cap r l t e with
  | mk o r' =>
    rw [hR] at hm hle
    cases o with
    | none => exact ⟨hm.1, fun x hx => by cases hx⟩
    | some x =>
      simp only at hle ⊢
      have hx := hm.2 x rfl
      simp only at hx
      refine ⟨⟨hm.1.ord, hm.1.bound, ?_⟩, ?_⟩
      · intro k v hkv
        simp only at hkv ⊢
        rcases pok.add_sub _ _ _ _ _ hkv with hold | hnew
        · exact hm.1.cache k v hold
        · cases hnew
          refine ⟨fun o ho' => (hkey o ho').mono hle, fun L hL => ?_⟩
          have : L ≤ l := hlev L (fun o ho' => Above.of_le_has hle (hkey o ho') (hL o ho'))
          exact hx.weaken this
      · intro y hy; cases hy; exact hx

theorem forkR_ord {p : Policy} (pok : p.OK) {N cap : Nat} {key : Key} {l : Nat}
    {c1 c0 : RSt → Option Edge × RSt} {r : RSt} {ext : List Edge} (hl : l < N)
    (h1 : RcPost r ext (c1 r)) (h1o : OrdPost N (l + 1) (c1 r))
    (h0 : ∀ t r1, RcInv r1 (t :: ext) → r.st.store.Le r1.st.store → OrdInv N r1 →
      RcPost r1 (t :: ext) (c0 r1) ∧ OrdPost N (l + 1) (c0 r1))
    (hkey : ∀ o ∈ key.2, r.st.store.has o)
    (hlev : ∀ L, (∀ o ∈ key.2, Above r.st.store L o) → L ≤ l) :
    OrdPost N l (forkR cap p key l c1 c0 r) := by
  unfold forkR
  cases hc1 : c1 r with
  | mk o1 r1 =>
    rw [hc1] at h1 h1o
    cases o1 with
    | none => exact ⟨h1o.1, fun x hx => by cases hx⟩
    | some t =>
      obtain ⟨le1, i1⟩ := h1
      simp only at i1 le1 ⊢
      have ht1 := h1o.2 t rfl
      simp only at ht1
      obtain ⟨h0r, h0o⟩ := h0 t r1 i1 le1 h1o.1
      cases hc0 : c0 r1 with
      | mk o0 r0 =>
        rw [hc0] at h0r h0o
        obtain ⟨le0, i0⟩ := h0r
        cases o0 with
        | none =>
          simp only
          exact ⟨h0o.1.of_st (dropEdge_st r0 t), fun x hx => by cases hx⟩
        | some e =>
          simp only at i0 le0 ⊢
          have he0 := h0o.2 e rfl
          simp only at he0
          have hle := le1.trans le0
          exact finishR_ord pok i0.swap h0o.1 hl (ht1.mono le0) he0
            (fun o ho' => (hkey o ho').mono hle)
            (fun L hL => hlev L (fun o ho' => Above.of_le_has hle (hkey o ho') (hL o ho')))

/-! ## cofactors -/

theorem level?_some {s : Store} {f : Edge} {lf : Nat} (h : s.level? f = some lf) :
    ∃ i n, f = .inner i ∧ s.get? i = some n ∧ n.level = lf := by
  cases f with
  | term b => simp [Store.level?] at h
  | inner i =>
    simp only [Store.level?] at h
    cases hi : s.get? i with
    | none => rw [hi] at h; cases h
    | some n => rw [hi] at h; simp at h; exact ⟨i, n, rfl, hi, h⟩

theorem cofT_above {r : RSt} {ext : List Edge} {N : Nat} (hrc : RcInv r ext) (ho : OrdInv N r)
    {f : Edge} {lf l : Nat} (hlf : r.st.store.level? f = some lf) (hle : l ≤ lf) :
    Above r.st.store (l + 1) (r.st.store.cofT l f) := by
  obtain ⟨i, n, rfl, hi, hn⟩ := level?_some hlf
  simp only [Store.cofT, hi]
  split
  · rename_i heq
    have := (child_above hrc ho hi).1
    rw [heq] at this; exact this
  · rename_i hne
    exact ⟨n, hi, by omega⟩

theorem cofE_above {r : RSt} {ext : List Edge} {N : Nat} (hrc : RcInv r ext) (ho : OrdInv N r)
    {f : Edge} {lf l : Nat} (hlf : r.st.store.level? f = some lf) (hle : l ≤ lf) :
    Above r.st.store (l + 1) (r.st.store.cofE l f) := by
  obtain ⟨i, n, rfl, hi, hn⟩ := level?_some hlf
  simp only [Store.cofE, hi]
  split
  · rename_i heq
    have := (child_above hrc ho hi).2
    rw [heq] at this; exact this
  · rename_i hne
    exact ⟨n, hi, by omega⟩

theorem above_level? {s : Store} {f : Edge} {L lf : Nat} (h : Above s L f)
    (hlf : s.level? f = some lf) : L ≤ lf := by
  obtain ⟨i, n, rfl, hi, hn⟩ := level?_some hlf
  have := h.level_le hi
  omega

/-! ## the algorithms -/

theorem notR_ord {p : Policy} (pok : p.OK) (N cap : Nat) (fuel : Nat) :
    ∀ (r : RSt) (f : Edge) (ext : List Edge) (L : Nat), RcInv r ext → OrdInv N r →
      Above r.st.store L f → OrdPost N L (notR cap p fuel r f) := by
  induction fuel with
  | zero => intro r f ext L _ ho hf; exact OrdPost.clone ho hf
  | succ fuel ih =>
    intro r f ext L hrc ho hf
    cases f with
    | term b => exact OrdPost.clone (x := .term (!b)) ho trivial
    | inner i =>
      simp only [notR]
      cases hget : p.get r.st.tick r.st.cache (.not, [.inner i]) with
      | some x =>
        refine OrdPost.clone_tickd ho ?_
        exact (ho.cache _ _ (pok.get_mem _ _ _ _ hget)).2 L (fun o ho' => by
          simp only [List.mem_singleton] at ho'; subst ho'; exact hf)
      | none =>
        cases hi : r.st.store.get? i with
        | none => exact OrdPost.clone_tickd ho hf
        | some n =>
          simp only
          have hk := hrc.kids_ok i n hi
          have hca := child_above hrc ho hi
          have hLn := hf.level_le hi
          refine OrdPost.weaken hLn ?_
          refine forkR_ord pok (N := N) (cap := cap) (key := (.not, [.inner i])) (l := n.level)
            (c1 := fun s => notR cap p fuel s n.t) (c0 := fun s => notR cap p fuel s n.e)
            (r := r.tickd) (ext := ext) (ho.bound i n hi)
            (notR_rc pok cap fuel _ _ _ hrc.tickd hk.1) (ih _ _ _ _ hrc.tickd ho.tickd hca.1)
            (fun t r1 i1 le1 o1 =>
              ⟨notR_rc pok cap fuel _ _ _ i1 (hk.2.mono le1), ih _ _ _ _ i1 o1 (hca.2.mono le1)⟩)
            ?_ ?_
          · intro o ho'
            simp only [List.mem_singleton] at ho'; subst ho'; exact ⟨n, hi⟩
          · intro L' hL'
            exact (hL' (.inner i) (by simp)).level_le hi

theorem applyR_ord {p : Policy} (pok : p.OK) (N cap : Nat) (op : Op) (fuel : Nat) :
    ∀ (r : RSt) (f g : Edge) (ext : List Edge) (L : Nat), RcInv r ext → OrdInv N r →
      Above r.st.store L f → Above r.st.store L g → OrdPost N L (applyR cap p op fuel r f g) := by
  induction fuel with
  | zero => intro r f g ext L _ ho hf _; exact OrdPost.clone ho hf
  | succ fuel ih =>
    intro r f g ext L hrc ho hf hg
    simp only [applyR]
    have hshape := terminalBinS_shape op f g
    cases hT : terminalBinS op f g with
    | done x =>
      rw [hT] at hshape
      refine OrdPost.clone ho ?_
      rcases hshape with rfl | rfl | ⟨b, rfl⟩
      · exact hf
      · exact hg
      · trivial
    | notOf x =>
      rw [hT] at hshape
      refine notR_ord pok N cap fuel r x ext L hrc ho ?_
      rcases hshape with rfl | rfl
      · exact hf
      · exact hg
    | binary tag o1 o2 =>
      simp only
      obtain ⟨_, hops⟩ := terminalBinS_tag op f g tag o1 o2 hT
      have hkeyA : ∀ L', (∀ o ∈ [o1, o2], Above r.st.store L' o) →
          Above r.st.store L' f ∧ Above r.st.store L' g := by
        intro L' h
        have h1 := h o1 (by simp)
        have h2 := h o2 (by simp)
        rcases hops with ⟨rfl, rfl⟩ | ⟨_, rfl, rfl⟩
        · exact ⟨h1, h2⟩
        · exact ⟨h2, h1⟩
      have hkeyAll : ∀ o ∈ [o1, o2], Above r.st.store L o := by
        intro o ho'
        simp only [List.mem_cons, List.mem_nil_iff, or_false] at ho'
        rcases hops with ⟨rfl, rfl⟩ | ⟨_, rfl, rfl⟩ <;> rcases ho' with rfl | rfl <;> assumption
      cases hget : p.get r.st.tick r.st.cache (tag, [o1, o2]) with
      | some x =>
        exact OrdPost.clone_tickd ho ((ho.cache _ _ (pok.get_mem _ _ _ _ hget)).2 L hkeyAll)
      | none =>
        cases hlf : r.st.store.level? f with
        | none => exact OrdPost.clone_tickd ho hf
        | some lf =>
          cases hlg : r.st.store.level? g with
          | none => exact OrdPost.clone_tickd ho hf
          | some lg =>
            simp only
            have hLf := above_level? hf hlf
            have hLg := above_level? hg hlg
            obtain ⟨i, nf, _, hi, hnf⟩ := level?_some hlf
            have hlN : min lf lg < N := by
              have := ho.bound i nf hi; omega
            refine OrdPost.weaken (show L ≤ min lf lg by omega) ?_
            refine forkR_ord pok (N := N) (cap := cap) (r := r.tickd) (ext := ext) hlN
              (c1 := fun s => applyR cap p op fuel s (r.st.store.cofT (min lf lg) f) (r.st.store.cofT (min lf lg) g))
              (c0 := fun s => applyR cap p op fuel s (r.st.store.cofE (min lf lg) f) (r.st.store.cofE (min lf lg) g))
              (applyR_rc pok cap op fuel _ _ _ _ hrc.tickd (cofT_has hrc _ hf.has) (cofT_has hrc _ hg.has))
              (ih _ _ _ _ _ hrc.tickd ho.tickd (cofT_above hrc ho hlf (by omega))
                (cofT_above hrc ho hlg (by omega)))
              (fun t r1 i1 le1 o1 =>
                ⟨applyR_rc pok cap op fuel _ _ _ _ i1 ((cofE_has hrc _ hf.has).mono le1)
                  ((cofE_has hrc _ hg.has).mono le1),
                 ih _ _ _ _ _ i1 o1 ((cofE_above hrc ho hlf (by omega)).mono le1)
                  ((cofE_above hrc ho hlg (by omega)).mono le1)⟩)
              ?_ ?_
            · intro o ho'
              exact (hkeyAll o ho').has
            · intro L' hL'
              obtain ⟨a, b⟩ := hkeyA L' hL'
              have := above_level? a hlf
              have := above_level? b hlg
              omega

theorem iteR_ord {p : Policy} (pok : p.OK) (N cap : Nat) (fuel : Nat) :
    ∀ (r : RSt) (f g h : Edge) (ext : List Edge) (L : Nat), RcInv r ext → OrdInv N r →
      Above r.st.store L f → Above r.st.store L g → Above r.st.store L h →
      OrdPost N L (iteR cap p fuel r f g h) := by
  induction fuel with
  | zero => intro r f g h ext L _ ho hf _ _; exact OrdPost.clone ho hf
  | succ fuel ih =>
    intro r f g h ext L hrc ho hf hg hh
    simp only [iteR]
    by_cases hgh : g = h
    · simp only [hgh, if_true]; exact OrdPost.clone ho hh
    · simp only [hgh, if_false]
      by_cases hfg : f = g
      · simp only [hfg, if_true]; exact applyR_ord pok N cap _ fuel r _ _ ext L hrc ho hg hh
      · simp only [hfg, if_false]
        by_cases hfh : f = h
        · simp only [hfh, if_true]; exact applyR_ord pok N cap _ fuel r _ _ ext L hrc ho hh hg
        · simp only [hfh, if_false]
          cases f with
          | term b =>
            simp only
            cases b
            · exact OrdPost.clone ho hh
            · exact OrdPost.clone ho hg
          | inner i =>
            cases g with
            | term y =>
              cases h with
              | term z =>
                cases y
                · exact notR_ord pok N cap fuel r _ ext L hrc ho hf
                · exact OrdPost.clone ho hf
              | inner k => cases y <;> exact applyR_ord pok N cap _ fuel r _ _ ext L hrc ho hf hh
            | inner j =>
              cases h with
              | term z => cases z <;> exact applyR_ord pok N cap _ fuel r _ _ ext L hrc ho hf hg
              | inner k =>
                simp only
                have hkeyAll : ∀ o ∈ [Edge.inner i, Edge.inner j, Edge.inner k], Above r.st.store L o := by
                  intro o ho'
                  simp only [List.mem_cons, List.mem_nil_iff, or_false] at ho'
                  rcases ho' with rfl | rfl | rfl <;> assumption
                cases hget : p.get r.st.tick r.st.cache (.ite, [.inner i, .inner j, .inner k]) with
                | some x =>
                  exact OrdPost.clone_tickd ho ((ho.cache _ _ (pok.get_mem _ _ _ _ hget)).2 L hkeyAll)
                | none =>
                  simp only
                  cases hlf : r.st.store.level? (.inner i) with
                  | none => exact OrdPost.clone_tickd ho hf
                  | some lf =>
                    cases hlg : r.st.store.level? (.inner j) with
                    | none => exact OrdPost.clone_tickd ho hf
                    | some lg =>
                      cases hlh : r.st.store.level? (.inner k) with
                      | none => exact OrdPost.clone_tickd ho hf
                      | some lh =>
                        simp only
                        have hLf := above_level? hf hlf
                        have hLg := above_level? hg hlg
                        have hLh := above_level? hh hlh
                        obtain ⟨i', nf, _, hi, hnf⟩ := level?_some hlf
                        have hlN : min (min lf lg) lh < N := by
                          have := ho.bound i' nf hi; omega
                        refine OrdPost.weaken (show L ≤ min (min lf lg) lh by omega) ?_
                        refine forkR_ord pok (N := N) (cap := cap) (r := r.tickd) (ext := ext) hlN
                          (c1 := fun s => iteR cap p fuel s (r.st.store.cofT (min (min lf lg) lh) (.inner i))
                            (r.st.store.cofT (min (min lf lg) lh) (.inner j)) (r.st.store.cofT (min (min lf lg) lh) (.inner k)))
                          (c0 := fun s => iteR cap p fuel s (r.st.store.cofE (min (min lf lg) lh) (.inner i))
                            (r.st.store.cofE (min (min lf lg) lh) (.inner j)) (r.st.store.cofE (min (min lf lg) lh) (.inner k)))
                          (iteR_rc pok cap fuel _ _ _ _ _ hrc.tickd (cofT_has hrc _ hf.has)
                            (cofT_has hrc _ hg.has) (cofT_has hrc _ hh.has))
                          (ih _ _ _ _ _ _ hrc.tickd ho.tickd (cofT_above hrc ho hlf (by omega))
                            (cofT_above hrc ho hlg (by omega)) (cofT_above hrc ho hlh (by omega)))
                          (fun t r1 i1 le1 o1 =>
                            ⟨iteR_rc pok cap fuel _ _ _ _ _ i1 ((cofE_has hrc _ hf.has).mono le1)
                              ((cofE_has hrc _ hg.has).mono le1) ((cofE_has hrc _ hh.has).mono le1),
                             ih _ _ _ _ _ _ i1 o1 ((cofE_above hrc ho hlf (by omega)).mono le1)
                              ((cofE_above hrc ho hlg (by omega)).mono le1)
                              ((cofE_above hrc ho hlh (by omega)).mono le1)⟩)
                          ?_ ?_
                        · intro o ho'
                          exact (hkeyAll o ho').has
                        · intro L' hL'
                          have a := above_level? (hL' (.inner i) (by simp)) hlf
                          have b := above_level? (hL' (.inner j) (by simp)) hlg
                          have c := above_level? (hL' (.inner k) (by simp)) hlh
                          omega

/-! ## histories -/

/-- variables are created on existing levels -/
def Cmd.OK (N : Nat) : Cmd → Prop
  | .var _ level _ => level < N
  | _ => True

theorem has_above_zero {s : Store} {e : Edge} (h : s.has e) : Above s 0 e := by
  cases e with
  | term b => trivial
  | inner i => obtain ⟨n, hn⟩ := h; exact ⟨n, hn, Nat.zero_le _⟩

theorem pushRes_ord {N L : Nat} {h : HSt} {res : Option Edge × RSt} (ho : OrdPost N L res) :
    OrdInv N (pushRes h res).r := by
  obtain ⟨o, r'⟩ := res
  cases o <;> exact ho.1

theorem gcR_ord {N : Nat} {r : RSt} (n : Nat) (ho : OrdInv N r) : OrdInv N (gcR n r) := by
  have hsub := gcR_sub n r
  refine ⟨ordered_sub ho.ord hsub, fun i m hi => ho.bound i m (hsub i m hi), ?_⟩
  have : (gcR n r).st.cache = [] := by
    unfold gcR
    exact gcLevels_ind (P := fun r' => r'.st.cache = [])
      (fun l r' i h => by
        rw [gcSlot_eq]
        cases r'.st.store.get? i with
        | none => exact h
        | some m =>
          simp only
          split
          · rw [freeSlot_cache]; exact h
          · exact h) _ _ rfl
  rw [this]
  intro k v hkv; cases hkv

theorem Cmd.run_ord {p : Policy} (pok : p.OK) {N : Nat} (c : Cmd) (hc : c.OK N) (h : HSt)
    (hi : RcInv h.r h.hs) (ho : OrdInv N h.r) : OrdInv N (c.run p h).r := by
  cases c with
  | var cap level neg =>
    have hv : RcInv h.r (.term (!neg) :: .term neg :: h.hs) :=
      cloneEdge_rc (x := .term (!neg)) (cloneEdge_rc (x := .term neg) hi trivial) trivial
    exact pushRes_ord (mkNodeR_ord (cap := cap) hv ho hc trivial trivial)
  | not cap fuel a =>
    simp only [Cmd.run]
    cases ha : h.hs[a]? with
    | none => exact ho
    | some f =>
      exact pushRes_ord (notR_ord pok N cap fuel h.r f h.hs 0 hi ho
        (has_above_zero (hi.ext_ok f (List.mem_of_getElem? ha))))
  | bin cap fuel op a b =>
    simp only [Cmd.run]
    cases ha : h.hs[a]? with
    | none => exact ho
    | some f =>
      cases hb : h.hs[b]? with
      | none => exact ho
      | some g =>
        exact pushRes_ord (applyR_ord pok N cap op fuel h.r f g h.hs 0 hi ho
          (has_above_zero (hi.ext_ok f (List.mem_of_getElem? ha)))
          (has_above_zero (hi.ext_ok g (List.mem_of_getElem? hb))))
  | ite cap fuel a b c =>
    simp only [Cmd.run]
    cases ha : h.hs[a]? with
    | none => exact ho
    | some f =>
      cases hb : h.hs[b]? with
      | none => exact ho
      | some g =>
        cases hc' : h.hs[c]? with
        | none => exact ho
        | some k =>
          exact pushRes_ord (iteR_ord pok N cap fuel h.r f g k h.hs 0 hi ho
            (has_above_zero (hi.ext_ok f (List.mem_of_getElem? ha)))
            (has_above_zero (hi.ext_ok g (List.mem_of_getElem? hb)))
            (has_above_zero (hi.ext_ok k (List.mem_of_getElem? hc'))))
  | clone a =>
    simp only [Cmd.run]
    cases ha : h.hs[a]? with
    | none => exact ho
    | some f => exact ho.of_st (cloneEdge_st _ _)
  | drop a =>
    simp only [Cmd.run]
    cases ha : h.hs[a]? with
    | none => exact ho
    | some f => exact ho.of_st (dropEdge_st _ _)
  | gc n => exact gcR_ord n ho

theorem runAll_ord {p : Policy} (pok : p.OK) {N : Nat} : ∀ (cmds : List Cmd) (h : HSt),
    (∀ c ∈ cmds, c.OK N) → RcInv h.r h.hs → OrdInv N h.r →
    RcInv (runAll p cmds h).r (runAll p cmds h).hs ∧ OrdInv N (runAll p cmds h).r := by
  intro cmds
  induction cmds with
  | nil => intro h _ hi ho; exact ⟨hi, ho⟩
  | cons c cs ih =>
    intro h hok hi ho
    exact ih _ (fun c' hc' => hok c' (List.mem_cons_of_mem _ hc'))
      (Cmd.run_rc pok c h hi) (Cmd.run_ord pok c (hok c List.mem_cons_self) h hi ho)

end OxiddModel.Bdd.Rc
