import OxiddModel.Bdd.QuantSem

/-!
# `restrict`: the cofactor with respect to a literal cube
-/
namespace OxiddModel.Bdd
open BDD

theorem litsOf_pos {n l : Nat} {rest : BDD} (hr : IsLitCube n rest) :
    litsOf (.node l rest (.leaf false)) = (l, true) :: litsOf rest := by
  cases hr <;> rfl

theorem litsOf_neg (l : Nat) (rest : BDD) :
    litsOf (.node l (.leaf false) rest) = (l, false) :: litsOf rest := rfl

/-- **`restrict_sem`** -/
theorem restrict_sem {n m : Nat} {f vars : BDD} (hf : Ordered n f) (hv : IsLitCube m vars)
    (σ : Nat → Bool) : (restrict f vars).eval σ = f.eval (override σ (litsOf vars)) := by
  fun_induction restrict f vars generalizing n m with
  | case1 fl ft fe vl vt ve hgt iht ihe =>
    -- `f` above the top-most literal
    cases hf with
    | node hn hft hfe =>
    rw [mk_eval, iht hft hv, ihe hfe hv]
    have hv' : IsLitCube (fl+1) (.node vl vt ve) := by
      cases hv with
      | pos h1 h2 => exact .pos (by omega) h2
      | neg h1 h2 => exact .neg (by omega) h2
    simp only [eval]
    rw [hv'.override_lt σ (Nat.lt_succ_self fl)]
  | case2 fl ft fe vl ve _ hlt l1 a1 b1 ih =>
    cases hv with
    | pos h1 h2 =>
      rw [ih hf h2, litsOf_pos h2, override_cons]
      cases hf with
      | node hn hft hfe =>
        exact (eval_upd_lt (.node (Nat.le_refl _) hft hfe) hlt _ _).symm
  | case3 fl ft fe vl ve _ hlt =>
    cases hv with
    | pos h1 h2 =>
      rw [litsOf_pos h2, override_cons]
      cases hf with
      | node hn hft hfe =>
        exact (eval_upd_lt (.node (Nat.le_refl _) hft hfe) hlt _ _).symm
  | case4 fl ft fe vl _ hlt l t a ih =>
    cases hv with
    | neg h1 h2 =>
      rw [ih hf h2, litsOf_neg, override_cons]
      cases hf with
      | node hn hft hfe =>
        exact (eval_upd_lt (.node (Nat.le_refl _) hft hfe) hlt _ _).symm
  | case5 fl ft fe vl _ hlt a =>
    cases hv with
    | pos h1 h2 => cases h2
    | neg h1 h2 =>
      rw [litsOf_neg, override_cons]
      cases hf with
      | node hn hft hfe =>
        exact (eval_upd_lt (.node (Nat.le_refl _) hft hfe) hlt _ _).symm
  | case6 fl ft fe vl ve h1 h2 l1 a1 b1 ih =>
    have : vl = fl := by omega
    subst this
    cases hf with
    | node hn hft hfe =>
    cases hv with
    | pos h1 h2 =>
      rw [ih hft h2, litsOf_pos h2, override_cons, eval_node_upd_true hft]
  | case7 fl ft fe vl ve h1 h2 =>
    have : vl = fl := by omega
    subst this
    cases hf with
    | node hn hft hfe =>
    cases hv with
    | pos h1 h2 =>
      rw [litsOf_pos h2, override_cons, eval_node_upd_true hft]; rfl
  | case8 fl ft fe vl h1 h2 l t a ih =>
    have : vl = fl := by omega
    subst this
    cases hf with
    | node hn hft hfe =>
    cases hv with
    | neg h1 h2 =>
      rw [ih hfe h2, litsOf_neg, override_cons, eval_node_upd_false hfe]
  | case9 fl ft fe vl h1 h2 a =>
    have : vl = fl := by omega
    subst this
    cases hf with
    | node hn hft hfe =>
    cases hv with
    | pos h1 h2 => cases h2
    | neg h1 h2 =>
      rw [litsOf_neg, override_cons, eval_node_upd_false hfe]; rfl
  | case10 f vars hne =>
    cases f with
    | leaf b => rfl
    | node fl ft fe =>
      cases vars with
      | leaf b => rfl
      | node vl vt ve => exact (hne _ _ _ _ _ _ rfl rfl).elim

theorem restrict_ordered {n : Nat} {f : BDD} (vars : BDD) (hf : Ordered n f) :
    Ordered n (restrict f vars) := by
  fun_induction restrict f vars generalizing n with
  | case1 fl ft fe vl vt ve hgt iht ihe =>
    cases hf with
    | node hn hft hfe => exact mk_ordered hn (iht hft) (ihe hfe)
  | case2 fl ft fe vl ve _ hlt l1 a1 b1 ih => exact ih hf
  | case3 => exact hf
  | case4 fl ft fe vl _ hlt l t a ih => exact ih hf
  | case5 => exact hf
  | case6 fl ft fe vl ve h1 h2 l1 a1 b1 ih =>
    cases hf with
    | node hn hft hfe => exact (ih hft).mono (by omega)
  | case7 =>
    cases hf with
    | node hn hft hfe => exact hft.mono (by omega)
  | case8 fl ft fe vl h1 h2 l t a ih =>
    cases hf with
    | node hn hft hfe => exact (ih hfe).mono (by omega)
  | case9 =>
    cases hf with
    | node hn hft hfe => exact hfe.mono (by omega)
  | case10 => exact hf

theorem restrict_reduced {f : BDD} (vars : BDD) (hf : Reduced f) : Reduced (restrict f vars) := by
  fun_induction restrict f vars with
  | case1 fl ft fe vl vt ve hgt iht ihe => exact mk_reduced (iht hf.2.1) (ihe hf.2.2)
  | case2 fl ft fe vl ve _ hlt l1 a1 b1 ih => exact ih hf
  | case3 => exact hf
  | case4 fl ft fe vl _ hlt l t a ih => exact ih hf
  | case5 => exact hf
  | case6 fl ft fe vl ve h1 h2 l1 a1 b1 ih => exact ih hf.2.1
  | case7 => exact hf.2.1
  | case8 fl ft fe vl h1 h2 l t a ih => exact ih hf.2.2
  | case9 => exact hf.2.2
  | case10 => exact hf

/-- **`restrict_nf`** (for every `vars` operand) -/
theorem restrict_nf {n : Nat} {f : BDD} (vars : BDD) (hf : NF n f) : NF n (restrict f vars) :=
  ⟨restrict_ordered vars hf.1, restrict_reduced vars hf.2⟩

end OxiddModel.Bdd
