import OxiddModel.Bdd.ApplyX
import OxiddModel.Bdd.Restrict

/-!
# `restrict` on the store, with the apply cache

`restrictS` follows `restrict` of `crates/oxidd-rules-bdd/src/simple/apply_rec.rs`:

* the tail-recursive `inner` walk (`restrictInnerS`): no cache access, no node creation. It skips
  the literals of the cube `vars` above the top of `f`, follows the selected child of `f` while
  the top literal of the cube is at the level of `f`, and stops with `Done(res)` or, as soon as `f`
  is above the top-most remaining literal, with `Rec { f, vars }`;
* for `Rec`: cache query under the key `(Restrict, [f, vars])` **for the `f` and `vars` the walk
  stopped at** → recursion on both children of `f` with `vars` → `reduce` → cache add.

`restrictS_spec`: for every admissible policy and sound cache the result denotes `restrict a v`,
and — every node created is a node of the result — store and result are `intern s (restrict a v)`
(`PostX`, including canonicity).
-/
namespace OxiddModel.Bdd.Refine
open OxiddModel.Bdd OxiddModel.Bdd.BDD

/-! ## tree level: unfolding `restrict` -/

theorem restrict_leaf_l (b : Bool) (v : BDD) : restrict (.leaf b) v = .leaf b := by
  rw [restrict]
  intro _ _ _ _ _ _ h; cases h

theorem restrict_leaf_r (f : BDD) (b : Bool) : restrict f (.leaf b) = f := by
  rw [restrict]
  intro _ _ _ _ _ _ _ h; cases h

theorem restrict_gt {fl vl : Nat} (ft fe vt ve : BDD) (h : vl > fl) :
    restrict (.node fl ft fe) (.node vl vt ve) =
      mk fl (restrict ft (.node vl vt ve)) (restrict fe (.node vl vt ve)) := by
  rw [restrict.eq_def]; simp only [h, if_true]

theorem restrict_lt_pos_node {fl vl l1 : Nat} (ft fe a1 b1 ve : BDD) (h : vl < fl) :
    restrict (.node fl ft fe) (.node vl (.node l1 a1 b1) ve) =
      restrict (.node fl ft fe) (.node l1 a1 b1) := by
  have h' : ¬ vl > fl := by omega
  rw [restrict.eq_def]; simp only [h, h', if_true, if_false]

theorem restrict_lt_pos_top {fl vl : Nat} (ft fe ve : BDD) (h : vl < fl) :
    restrict (.node fl ft fe) (.node vl (.leaf true) ve) = .node fl ft fe := by
  have h' : ¬ vl > fl := by omega
  rw [restrict.eq_def]; simp only [h, h', if_true, if_false]

theorem restrict_lt_neg_node {fl vl l2 : Nat} (ft fe a2 b2 : BDD) (h : vl < fl) :
    restrict (.node fl ft fe) (.node vl (.leaf false) (.node l2 a2 b2)) =
      restrict (.node fl ft fe) (.node l2 a2 b2) := by
  have h' : ¬ vl > fl := by omega
  rw [restrict.eq_def]; simp only [h, h', if_true, if_false]

theorem restrict_lt_neg_leaf {fl vl : Nat} (ft fe : BDD) (b : Bool) (h : vl < fl) :
    restrict (.node fl ft fe) (.node vl (.leaf false) (.leaf b)) = .node fl ft fe := by
  have h' : ¬ vl > fl := by omega
  rw [restrict.eq_def]; simp only [h, h', if_true, if_false]

theorem restrict_eq_pos_node {l l1 : Nat} (ft fe a1 b1 ve : BDD) :
    restrict (.node l ft fe) (.node l (.node l1 a1 b1) ve) = restrict ft (.node l1 a1 b1) := by
  rw [restrict.eq_def]; simp only [Nat.lt_irrefl, gt_iff_lt, if_false]

theorem restrict_eq_pos_top {l : Nat} (ft fe ve : BDD) :
    restrict (.node l ft fe) (.node l (.leaf true) ve) = ft := by
  rw [restrict.eq_def]; simp only [Nat.lt_irrefl, gt_iff_lt, if_false]

theorem restrict_eq_neg_node {l l2 : Nat} (ft fe a2 b2 : BDD) :
    restrict (.node l ft fe) (.node l (.leaf false) (.node l2 a2 b2)) =
      restrict fe (.node l2 a2 b2) := by
  rw [restrict.eq_def]; simp only [Nat.lt_irrefl, gt_iff_lt, if_false]

theorem restrict_eq_neg_leaf {l : Nat} (ft fe : BDD) (b : Bool) :
    restrict (.node l ft fe) (.node l (.leaf false) (.leaf b)) = fe := by
  rw [restrict.eq_def]; simp only [Nat.lt_irrefl, gt_iff_lt, if_false]

/-! ## the tail-recursive walk -/

/-- `InnerResult` -/
inductive InnerRes where
  | done (r : Edge)
  | recur (f vars : Edge)
deriving Repr, DecidableEq

/-- the entry check of `restrict` (both operands inner nodes, else `f`) together with the
tail-recursive `inner` -/
def restrictInnerS (s : Store) : Nat → Edge → Edge → InnerRes
  | 0, f, _ => .done f
  | fuel+1, f, vars =>
    match f, vars with
    | .inner i, .inner j =>
      match s.get? i, s.get? j with
      | some fn, some vn =>
        if vn.level > fn.level then
          -- f above vars
          .recur f vars
        else if vn.level < fn.level then
          -- vars above f
          match vn.t with
          | .inner _ => restrictInnerS s fuel f vn.t
          | .term true => .done f
          | .term false =>
            match vn.e with
            | .inner _ => restrictInnerS s fuel f vn.e
            | .term _ => .done f
        else
          -- top var at the level of f ⇒ select accordingly
          match vn.t with
          | .inner _ => restrictInnerS s fuel fn.t vn.t -- positive literal ⇒ then branch
          | .term true => .done fn.t
          | .term false => -- negative literal ⇒ else branch
            match vn.e with
            | .inner _ => restrictInnerS s fuel fn.e vn.e
            | .term _ => .done fn.e
      | _, _ => .done f -- dangling edge (excluded by `Denotes`)
    | _, _ => .done f

/-- what the walk guarantees -/
def InnerOK (s : Store) (a v : BDD) : InnerRes → Prop
  | .done r => Denotes s r (restrict a v)
  | .recur f' vars' =>
    ∃ i fl ft fe ftt fte vl vtt vte, f' = .inner i ∧ s.get? i = some ⟨fl, ft, fe⟩ ∧
      Denotes s ft ftt ∧ Denotes s fe fte ∧
      Denotes s vars' (.node vl vtt vte) ∧ vl > fl ∧
      restrict a v = restrict (.node fl ftt fte) (.node vl vtt vte) ∧
      (BDD.node fl ftt fte).size ≤ a.size ∧ (BDD.node vl vtt vte).size ≤ v.size

theorem InnerOK.congr {s : Store} {a v a' v' : BDD} {r : InnerRes}
    (he : restrict a v = restrict a' v') (hsa : a'.size ≤ a.size) (hsv : v'.size ≤ v.size)
    (h : InnerOK s a' v' r) : InnerOK s a v r := by
  cases r with
  | done r => simp only [InnerOK] at h ⊢; rw [he]; exact h
  | recur f' vars' =>
    simp only [InnerOK] at h ⊢
    obtain ⟨i', fl', ft', fe', ftt', fte', vl', vtt', vte', h1, h2, h3, h4, h5, h6, h7, h8, h9⟩ := h
    exact ⟨i', fl', ft', fe', ftt', fte', vl', vtt', vte', h1, h2, h3, h4, h5, h6, he.trans h7,
      Nat.le_trans h8 hsa, Nat.le_trans h9 hsv⟩

theorem restrictInnerS_ok (s : Store) (fuel : Nat) : ∀ (f vars : Edge) (a v : BDD),
    Denotes s f a → Denotes s vars v → a.size + v.size ≤ fuel →
    InnerOK s a v (restrictInnerS s fuel f vars) := by
  induction fuel with
  | zero => intro f vars a v _ _ hsz; have := size_pos a; omega
  | succ fuel ih =>
    intro f vars a v hf hv hsz
    cases hf with
    | @term x =>
      simp only [restrictInnerS, InnerOK, restrict_leaf_l]
      exact .term
    | @inner i fl ft fe ftt fte hi hft hfe =>
      have hdf : Denotes s (.inner i) (.node fl ftt fte) := .inner hi hft hfe
      cases hv with
      | @term y =>
        simp only [restrictInnerS, InnerOK, restrict_leaf_r]
        exact hdf
      | @inner j vl vt ve vtt vte hj hvt hve =>
        have hdv : Denotes s (.inner j) (.node vl vtt vte) := .inner hj hvt hve
        simp only [BDD.size] at hsz
        simp only [restrictInnerS, hi, hj]
        by_cases hgt : vl > fl
        · simp only [hgt, if_true, InnerOK]
          exact ⟨i, fl, ft, fe, ftt, fte, vl, vtt, vte, rfl, hi, hft, hfe, hdv, hgt, rfl,
            Nat.le_refl _, Nat.le_refl _⟩
        · simp only [hgt, if_false]
          by_cases hlt : vl < fl
          · simp only [hlt, if_true]
            cases hvt with
            | @inner j1 l1 t1 e1 tt1 te1 hj1 ht1 he1 =>
              have hd1 : Denotes s (.inner j1) (.node l1 tt1 te1) := .inner hj1 ht1 he1
              have := ih (.inner i) (.inner j1) _ _ hdf hd1 (by simp only [BDD.size] at hsz ⊢; omega)
              exact this.congr (restrict_lt_pos_node _ _ _ _ _ hlt) (by simp only [BDD.size]; omega)
                (by simp only [BDD.size]; omega)
            | @term y =>
              cases y
              · -- negative literal above f
                simp only
                cases hve with
                | @inner j2 l2 t2 e2 tt2 te2 hj2 ht2 he2 =>
                  have hd2 : Denotes s (.inner j2) (.node l2 tt2 te2) := .inner hj2 ht2 he2
                  have := ih (.inner i) (.inner j2) _ _ hdf hd2
                    (by simp only [BDD.size] at hsz ⊢; omega)
                  exact this.congr (restrict_lt_neg_node _ _ _ _ hlt) (by simp only [BDD.size]; omega)
                    (by simp only [BDD.size]; omega)
                | @term z =>
                  simp only [InnerOK, restrict_lt_neg_leaf _ _ _ hlt]
                  exact hdf
              · simp only [InnerOK, restrict_lt_pos_top _ _ _ hlt]
                exact hdf
          · have heq : vl = fl := by omega
            subst heq
            simp only [hlt, if_false]
            cases hvt with
            | @inner j1 l1 t1 e1 tt1 te1 hj1 ht1 he1 =>
              have hd1 : Denotes s (.inner j1) (.node l1 tt1 te1) := .inner hj1 ht1 he1
              have := ih ft (.inner j1) _ _ hft hd1 (by simp only [BDD.size] at hsz ⊢; omega)
              exact this.congr (restrict_eq_pos_node _ _ _ _ _) (by simp only [BDD.size]; omega)
                (by simp only [BDD.size]; omega)
            | @term y =>
              cases y
              · simp only
                cases hve with
                | @inner j2 l2 t2 e2 tt2 te2 hj2 ht2 he2 =>
                  have hd2 : Denotes s (.inner j2) (.node l2 tt2 te2) := .inner hj2 ht2 he2
                  have := ih fe (.inner j2) _ _ hfe hd2 (by simp only [BDD.size] at hsz ⊢; omega)
                  exact this.congr (restrict_eq_neg_node _ _ _ _) (by simp only [BDD.size]; omega)
                    (by simp only [BDD.size]; omega)
                | @term z =>
                  simp only [InnerOK, restrict_eq_neg_leaf]
                  exact hfe
              · simp only [InnerOK, restrict_eq_pos_top]
                exact hft

/-! ## the algorithm -/

/-- `restrict` -/
def restrictS (p : Policy) : Nat → St → Edge → Edge → St × Edge
  | 0, st, f, _ => (st, f)
  | fuel+1, st, f, vars =>
    match restrictInnerS st.store (fuel + 1) f vars with
    | .done r => (st, r)
    | .recur f' vars' =>
      -- f above top-most restrict variable: query apply cache
      match p.get st.tick st.cache (encKey (restrictKey f' vars')) with
      | some r => (st.tickd, r)
      | none =>
        match f' with
        | .term _ => (st.tickd, f') -- unreachable: `Rec` carries an inner node
        | .inner i =>
          match st.store.get? i with
          | none => (st.tickd, f') -- dangling edge (excluded by `Denotes`)
          | some fn =>
            let r1 := restrictS p fuel st.tickd fn.t vars'
            let r0 := restrictS p fuel r1.1 fn.e vars'
            finishS p r0.1 (encKey (restrictKey f' vars')) fn.level r1.2 r0.2

theorem restrictKey_means {reg : Nat → List BDD} {s : Store} {f vars : Edge} {a v : BDD}
    (hf : Denotes s f a) (hv : Denotes s vars v) :
    KeyMeans reg s (encKey (restrictKey f vars)) (restrict a v) :=
  KeyMeans.of (restrictKey_wf f vars) (DenotesL.two hf hv) rfl

theorem restrictS_spec {p : Policy} (pok : p.OK) (reg : Nat → List BDD) (fuel : Nat) :
    ∀ (st : St) (f vars : Edge) (a v : BDD),
    InvX reg st → Denotes st.store f a → Denotes st.store vars v → a.size + v.size ≤ fuel →
    PostX reg st.store (restrict a v) (restrictS p fuel st f vars) := by
  induction fuel with
  | zero => intro st f vars a v _ _ _ hsz; have := size_pos a; omega
  | succ fuel ih =>
    intro st f vars a v hinv hf hv hsz
    have hin := restrictInnerS_ok st.store (fuel + 1) f vars a v hf hv hsz
    simp only [restrictS]
    revert hin
    cases restrictInnerS st.store (fuel + 1) f vars with
    | done r =>
      intro hin
      exact PostX.done hinv hin
    | recur f' vars' =>
      simp only [InnerOK]
      rintro ⟨i, fl, ft, fe, ftt, fte, vl, vtt, vte, rfl, hi, hft, hfe, hdv, hgt, heq, hs1, hs2⟩
      have hdf : Denotes st.store (.inner i) (.node fl ftt fte) := .inner hi hft hfe
      rw [heq]
      have hkey := restrictKey_means (reg := reg) hdf hdv
      cases hget : p.get st.tick st.cache (encKey (restrictKey (.inner i) vars')) with
      | some r =>
        have hent := hinv.2 _ _ (pok.get_mem _ _ _ _ hget)
        exact PostX.done (st := st.tickd) hinv.tickd
          (hent.hit (restrictKey_wf _ _) (DenotesL.two hdf hdv) rfl)
      | none =>
        simp only [hi]
        rw [restrict_gt _ _ _ _ hgt] at hkey ⊢
        simp only [BDD.size] at hs1 hs2 hsz
        have p1 := ih st.tickd ft vars' ftt _ hinv.tickd hft hdv
          (by simp only [BDD.size]; omega)
        have p0 := ih _ fe vars' fte _ p1.inv (hfe.mono p1.le) (hdv.mono p1.le)
          (by simp only [BDD.size]; omega)
        exact finishS_postX pok p1 p0 _ fl hkey

end OxiddModel.Bdd.Refine
