import OxiddModel.Bdd.Model

/-!
# The node store as a set of (hash-consed) trees: reference counts and garbage collection

Hash consing makes a stored node and the tree it unfolds to interchangeable (canonicity +
injectivity of `Denotes`, see `StoreRefine.lean`), so the unique table is modelled as a duplicate
free list `S` of inner-node trees that is closed under taking children. Reference counts are the
number of live handles plus the number of stored parent edges (the table's own reference, which
the index manager also counts, is left out: `ref_count()` reports the count without it).

`gcLevels` mirrors `Manager::gc` of the index-based manager: the unique tables are visited level
by level from the top; in each level the nodes whose count is zero are removed (`retain`), and
removing a node releases its children (`free_slot` drops them), which live on lower levels and are
therefore visited later in the same pass.
-/
namespace OxiddModel.Bdd
open BDD

def kids : BDD → List BDD
  | .node _ t e => [t, e]
  | .leaf _ => []

def levelOf : BDD → Option Nat
  | .node l _ _ => some l
  | .leaf _ => none

/-- the store is closed under children -/
def Closed (S : List BDD) : Prop := ∀ n ∈ S, ∀ c ∈ kids n, c.isLeaf = true ∨ c ∈ S

/-- reference count of `n`: live handles pointing to it + stored parent edges -/
def rc (hs S : List BDD) (n : BDD) : Nat :=
  hs.count n + (S.map fun p => (kids p).count n).sum

/-- one level of the collection: drop the nodes of level `l` whose count is zero -/
def gcLevel (hs : List BDD) (l : Nat) (S : List BDD) : List BDD :=
  S.filter fun n => !(levelOf n == some l && rc hs S n == 0)

/-- the collection pass over the levels in the given order (top-down: `List.range numLevels`) -/
def gcLevels (hs : List BDD) : List Nat → List BDD → List BDD
  | [], S => S
  | l :: ls, S => gcLevels hs ls (gcLevel hs l S)

def gc (hs : List BDD) (numLevels : Nat) (S : List BDD) : List BDD :=
  gcLevels hs (List.range numLevels) S

/-- reachability from the live handles -/
inductive Reach (hs : List BDD) : BDD → Prop
  | root : n ∈ hs → Reach hs n
  | kid : Reach hs p → c ∈ kids p → Reach hs c

/-- all inner nodes reachable from the handles (executable) -/
def reachList (hs : List BDD) : List BDD :=
  (hs.foldl (fun acc t => subtrees t acc) []).filter (fun t => !t.isLeaf)

end OxiddModel.Bdd
