import OxiddModel.Bdd.Ite

/-!
# The node store: hash-consed nodes with ids, and what an edge denotes

This is the *store level* below the tree model of `Model.lean`: a manager is an array of slots
(`Store`), an edge is a terminal or the id of a slot (`Edge`), `mkNode` is `reduce` of
`crates/oxidd-rules-bdd/src/simple/mod.rs` (reduction rule, then `get_or_insert` into the unique
table = lookup-or-allocate). `Denotes s e t` relates an edge of store `s` to the tree it unfolds
to. The lemmas here are independent of any particular operator:

* `Denotes.functional`, `Denotes.mono` (store extension `Store.Le`),
* `Unique` (no two slots hold the same node: the hash-consing invariant) ⇒ `Inj` (edge equality
  ⇔ tree equality: `inj_of_unique`), which is what justifies modelling `f == g` on edges by `=`
  on trees in `Model.lean`,
* `mkNode_le`, `mkNode_unique`, `mkNode_denotes` (`mkNode` refines `mk`),
* `intern`: the canonical way to enter a tree into a store, with `intern_of_denotes` (idempotent
  on trees that are already present). It is used to show that the *store* after an operation,
  not only the result, is independent of the apply cache.

Everything lives in the namespace `OxiddModel.Bdd.Refine` (the driver has its own `St`).
-/
namespace OxiddModel.Bdd.Refine
open OxiddModel.Bdd OxiddModel.Bdd.BDD

/-! ## store level -/

inductive Edge where
  | term : Bool → Edge
  | inner : Nat → Edge
deriving DecidableEq, Repr, Inhabited

structure Node where
  level : Nat
  t : Edge
  e : Edge
deriving DecidableEq, Repr

structure Store where
  nodes : Array (Option Node)
deriving Repr

def Store.get? (s : Store) (i : Nat) : Option Node := (s.nodes[i]?).join

/-- unique-table lookup -/
def Store.find? (s : Store) (n : Node) : Option Nat :=
  s.nodes.findIdx? (· == some n)

/-- slot allocation: first free slot, else grow -/
def Store.alloc (s : Store) (n : Node) : Store × Nat :=
  match s.nodes.findIdx? (· == none) with
  | some i => (⟨s.nodes.set! i (some n)⟩, i)
  | none => (⟨s.nodes.push (some n)⟩, s.nodes.size)

/-- `reduce` (simple/mod.rs): `if t == e { return t }`, else `get_or_insert` -/
def Store.mkNode (s : Store) (level : Nat) (t e : Edge) : Store × Edge :=
  if t = e then (s, t) else
  match s.find? ⟨level, t, e⟩ with
  | some i => (s, .inner i)
  | none => let r := s.alloc ⟨level, t, e⟩; (r.1, .inner r.2)

/-- the tree an edge unfolds to -/
inductive Denotes (s : Store) : Edge → BDD → Prop
  | term : Denotes s (.term b) (.leaf b)
  | inner : s.get? i = some ⟨l, t, e⟩ → Denotes s t tt → Denotes s e te →
      Denotes s (.inner i) (.node l tt te)

theorem Denotes.functional {s : Store} {x : Edge} {a b : BDD}
    (ha : Denotes s x a) (hb : Denotes s x b) : a = b := by
  induction ha generalizing b with
  | term => cases hb; rfl
  | inner hi _ _ iht ihe =>
    cases hb with
    | inner hi' ht' he' =>
      rw [hi] at hi'; cases hi'
      rw [iht ht', ihe he']

/-- store extension: every occupied slot keeps its content -/
def Store.Le (s s' : Store) : Prop := ∀ i n, s.get? i = some n → s'.get? i = some n

theorem Store.Le.refl (s : Store) : s.Le s := fun _ _ h => h
theorem Store.Le.trans {a b c : Store} (h1 : a.Le b) (h2 : b.Le c) : a.Le c :=
  fun i n h => h2 i n (h1 i n h)

theorem Denotes.mono {s s' : Store} (h : s.Le s') {x : Edge} {a : BDD}
    (ha : Denotes s x a) : Denotes s' x a := by
  induction ha with
  | term => exact .term
  | inner hi _ _ iht ihe => exact .inner (h _ _ hi) iht ihe

theorem get?_alloc (s : Store) (n : Node) (j : Nat) :
    (s.alloc n).1.get? j = if j = (s.alloc n).2 then some n else s.get? j := by
  unfold Store.alloc
  split
  · rename_i i hi
    have hlt : i < s.nodes.size := (Array.findIdx?_eq_some_iff_findIdx_eq.mp hi).1
    simp only [Store.get?]
    by_cases hj : j = i
    · subst hj; simp [Array.set!, hlt]
    · simp [Array.set!, hj, Ne.symm hj]
  · simp only [Store.get?]
    by_cases hj : j = s.nodes.size
    · subst hj; simp
    · simp [Array.getElem?_push, hj]

theorem find?_some {s : Store} {n : Node} {i : Nat} (h : s.find? n = some i) : s.get? i = some n := by
  unfold Store.find? at h
  obtain ⟨hlt, heq⟩ := Array.findIdx?_eq_some_iff_findIdx_eq.mp h
  have := Array.findIdx_getElem (xs := s.nodes) (p := (· == some n)) (w := by rw [heq]; exact hlt)
  simp only [heq] at this
  simp [Store.get?, hlt, beq_iff_eq.mp this]

theorem find?_none {s : Store} {n : Node} (h : s.find? n = none) : ∀ i, s.get? i ≠ some n := by
  intro i hi
  unfold Store.find? at h
  rw [Array.findIdx?_eq_none_iff] at h
  unfold Store.get? at hi
  cases hx : s.nodes[i]? with
  | none => simp [hx] at hi
  | some x =>
    have hmem : x ∈ s.nodes := Array.mem_of_getElem? hx
    have := h x hmem
    simp [hx] at hi
    subst hi
    simp at this

theorem alloc_fresh (s : Store) (n : Node) : s.get? (s.alloc n).2 = none := by
  unfold Store.alloc
  split
  · rename_i i hi
    obtain ⟨hlt, heq⟩ := Array.findIdx?_eq_some_iff_findIdx_eq.mp hi
    have := Array.findIdx_getElem (xs := s.nodes) (p := (· == none)) (w := by rw [heq]; exact hlt)
    simp only [heq] at this
    simp [Store.get?, hlt, beq_iff_eq.mp this]
  · simp [Store.get?]

theorem alloc_le (s : Store) (n : Node) : s.Le (s.alloc n).1 := by
  intro i m hi
  rw [get?_alloc]
  split
  · rename_i h; subst h; rw [alloc_fresh] at hi; cases hi
  · exact hi

theorem mkNode_le (s : Store) (l : Nat) (t e : Edge) : s.Le (s.mkNode l t e).1 := by
  unfold Store.mkNode
  split
  · exact Store.Le.refl _
  · split
    · exact Store.Le.refl _
    · exact alloc_le _ _

/-- denotation is injective: the hash-consing invariant at the semantic level -/
def Store.Inj (s : Store) : Prop := ∀ x y a, Denotes s x a → Denotes s y a → x = y

/-- `mkNode` refines `mk` -/
theorem mkNode_denotes (s : Store) (l : Nat) (t e : Edge) (tt te : BDD)
    (ht : Denotes s t tt) (he : Denotes s e te) (inj : s.Inj) :
    Denotes (s.mkNode l t e).1 (s.mkNode l t e).2 (mk l tt te) := by
  have hle := mkNode_le s l t e
  unfold Store.mkNode at *
  unfold mk
  by_cases hte : t = e
  · subst hte
    have := Denotes.functional ht he
    simp [this]; exact he
  · have hne : tt ≠ te := fun h => hte (inj _ _ _ ht (h ▸ he))
    simp only [hte, hne, if_false] at *
    split
    · rename_i i hi
      exact .inner (find?_some hi) ht he
    · rename_i hnone
      simp only [hnone] at hle
      refine .inner ?_ (ht.mono hle) (he.mono hle)
      rw [get?_alloc]; simp

/-- no two slots hold the same node -/
def Store.Unique (s : Store) : Prop :=
  ∀ i j n, s.get? i = some n → s.get? j = some n → i = j

theorem inj_of_unique {s : Store} (hu : s.Unique) : s.Inj := by
  intro x y a hx hy
  induction hx generalizing y with
  | term => cases hy; rfl
  | @inner i l t tt e te hi _ _ iht ihe =>
    cases hy with
    | @inner j _ t' _ e' _ hj ht' he' =>
      have h1 := iht _ ht'
      have h2 := ihe _ he'
      subst h1 h2
      rw [hu i j _ hi hj]

theorem mkNode_unique (s : Store) (l : Nat) (t e : Edge) (hu : s.Unique) :
    (s.mkNode l t e).1.Unique := by
  unfold Store.mkNode
  split
  · exact hu
  · split
    · exact hu
    · rename_i hnone
      intro i j n hi hj
      simp only [get?_alloc] at hi hj
      split at hi <;> split at hj
      · omega
      · cases hi; exact absurd hj (find?_none hnone j)
      · cases hj; exact absurd hi (find?_none hnone i)
      · exact hu i j n hi hj

/-! ## reducedness of the store, canonical interning -/

/-- no stored node has two identical children (the reduction rule, as a store invariant) -/
def Store.NoRed (s : Store) : Prop := ∀ i n, s.get? i = some n → n.t ≠ n.e

theorem mkNode_nored (s : Store) (l : Nat) (t e : Edge) (hr : s.NoRed) :
    (s.mkNode l t e).1.NoRed := by
  unfold Store.mkNode
  split
  · exact hr
  · rename_i hte
    split
    · exact hr
    · intro i n hi
      simp only [get?_alloc] at hi
      split at hi
      · cases hi; exact hte
      · exact hr i n hi

/-- enter a tree into the store bottom-up, then-child first (the order in which the recursive
apply algorithms create nodes) -/
def intern (s : Store) : BDD → Store × Edge
  | .leaf b => (s, .term b)
  | .node l t e =>
    let r1 := intern s t
    let r0 := intern r1.1 e
    r0.1.mkNode l r1.2 r0.2

theorem intern_le (s : Store) (a : BDD) : s.Le (intern s a).1 := by
  induction a generalizing s with
  | leaf b => exact Store.Le.refl _
  | node l t e iht ihe =>
    simp only [intern]
    exact (iht s).trans ((ihe _).trans (mkNode_le _ _ _ _))

theorem intern_unique (s : Store) (a : BDD) (hu : s.Unique) : (intern s a).1.Unique := by
  induction a generalizing s with
  | leaf b => exact hu
  | node l t e iht ihe =>
    simp only [intern]
    exact mkNode_unique _ _ _ _ (ihe _ (iht s hu))

theorem intern_nored (s : Store) (a : BDD) (hr : s.NoRed) : (intern s a).1.NoRed := by
  induction a generalizing s with
  | leaf b => exact hr
  | node l t e iht ihe =>
    simp only [intern]
    exact mkNode_nored _ _ _ _ (ihe _ (iht s hr))

/-- a tree that is already present is found again: nothing is allocated and the very same edge is
returned -/
theorem intern_of_denotes {s : Store} (hu : s.Unique) (hr : s.NoRed) {x : Edge} {a : BDD}
    (h : Denotes s x a) : intern s a = (s, x) := by
  induction h with
  | term => rfl
  | @inner i l t e tt te hi _ _ iht ihe =>
    simp only [intern, iht, ihe]
    have hte : t ≠ e := hr i _ hi
    unfold Store.mkNode
    simp only [hte, if_false]
    cases hf : s.find? ⟨l, t, e⟩ with
    | none => exact absurd hi (find?_none hf i)
    | some j => rw [hu j i _ (find?_some hf) hi]

/-- interning a reduced tree yields an edge denoting it -/
theorem intern_denotes (s : Store) (a : BDD) (hu : s.Unique) (ha : Reduced a) :
    Denotes (intern s a).1 (intern s a).2 a := by
  induction a generalizing s with
  | leaf b => exact .term
  | node l t e iht ihe =>
    simp only [intern]
    have h1 := iht s hu ha.2.1
    have u1 := intern_unique s t hu
    have h0 := ihe _ u1 ha.2.2
    have u0 := intern_unique _ e u1
    have := mkNode_denotes _ l _ _ _ _ (h1.mono (intern_le _ e)) h0 (inj_of_unique u0)
    simpa [mk, ha.1] using this

end OxiddModel.Bdd.Refine
