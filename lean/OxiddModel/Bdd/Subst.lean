import OxiddModel.Bdd.QuantSem

/-!
# `substitute`: simultaneous substitution of levels by functions
-/
namespace OxiddModel.Bdd
open BDD

/-- the assignment seen by `f` after substitution: level `l` takes the value of its replacement
`sv[l]` under `σ`; levels beyond the vector keep their value -/
def substAssign (sv : List BDD) (σ : Nat → Bool) : Nat → Bool :=
  fun l => match sv[l]? with
    | some r => r.eval σ
    | none => σ l

/-- the assignment specified by a list of `(level, replacement)` pairs: listed levels take the value
of their replacement (all evaluated under the *same* `σ`, i.e. simultaneously), all other levels
are untouched -/
def pairsAssign (pairs : List (Nat × BDD)) (σ : Nat → Bool) : Nat → Bool :=
  fun l => match pairs.lookup l with
    | some r => r.eval σ
    | none => σ l

theorem substitute_node_none {sv : List BDD} {l : Nat} (t e : BDD) (h : sv[l]? = none) :
    substitute sv (.node l t e) = .node l t e := by
  rw [substitute]; simp only [h]

theorem substitute_node_some {sv : List BDD} {l : Nat} {r : BDD} (t e : BDD) (h : sv[l]? = some r) :
    substitute sv (.node l t e) = applyIte r (substitute sv t) (substitute sv e) := by
  rw [substitute]; simp only [h]

/-- **`subst_sem`**: nothing is required of the replacement functions -/
theorem subst_sem (sv : List BDD) {n : Nat} {f : BDD} (hf : Ordered n f) (σ : Nat → Bool) :
    (substitute sv f).eval σ = f.eval (substAssign sv σ) := by
  induction f generalizing n with
  | leaf b => rfl
  | node l t e iht ihe =>
    cases hf with
    | node hn ht he =>
    cases h : sv[l]? with
    | none =>
      -- the level is beyond the vector, and so are all levels below it
      rw [substitute_node_none t e h]
      have hlen : sv.length ≤ l := List.getElem?_eq_none_iff.mp h
      apply eval_indep (n := l) (.node (Nat.le_refl _) ht he)
      intro v hv
      have : sv[v]? = none := List.getElem?_eq_none_iff.mpr (by omega)
      simp only [substAssign, this]
    | some r =>
      rw [substitute_node_some t e h, applyIte_eval, iht ht, ihe he]
      simp only [eval]
      have : substAssign sv σ l = r.eval σ := by simp only [substAssign, h]
      rw [this]

theorem NF.mono {n m : Nat} {a : BDD} (h : NF n a) (hmn : m ≤ n) : NF m a := ⟨h.1.mono hmn, h.2⟩

/-- **`subst_nf`** -/
theorem subst_nf {sv : List BDD} {k n : Nat} {f : BDD} (hsv : ∀ r ∈ sv, NF k r) (hf : NF n f)
    (hkn : k ≤ n) : NF k (substitute sv f) := by
  induction f generalizing n with
  | leaf b => exact ⟨.leaf, trivial⟩
  | node l t e iht ihe =>
    cases h : sv[l]? with
    | none => rw [substitute_node_none t e h]; exact NF.mono hf hkn
    | some r =>
      rw [substitute_node_some t e h]
      obtain ⟨ho, hr⟩ := hf
      cases ho with
      | node hn ht he =>
        exact applyIte_nf _ _ _ k (hsv r (List.mem_of_getElem? h))
          (iht ⟨ht, hr.2.1⟩ (by omega)) (ihe ⟨he, hr.2.2⟩ (by omega))

/-! ## `substitute_prepare` -/

theorem foldl_max_ge (pairs : List (Nat × BDD)) (init : Nat) :
    init ≤ pairs.foldl (fun m p => max m (p.1 + 1)) init := by
  induction pairs generalizing init with
  | nil => exact Nat.le_refl _
  | cons p ps ih =>
    simp only [List.foldl_cons]
    exact Nat.le_trans (Nat.le_max_left _ _) (ih _)

theorem lookup_lt_len {pairs : List (Nat × BDD)} {l : Nat} {r : BDD} (init : Nat)
    (h : pairs.lookup l = some r) : l < pairs.foldl (fun m p => max m (p.1 + 1)) init := by
  induction pairs generalizing init with
  | nil => simp [List.lookup] at h
  | cons p ps ih =>
    obtain ⟨k, v⟩ := p
    simp only [List.foldl_cons]
    simp only [List.lookup] at h
    by_cases hk : l = k
    · subst hk
      have := foldl_max_ge ps (max init (l + 1))
      omega
    · have : (l == k) = false := by simp [hk]
      rw [this] at h
      exact ih _ h

theorem lookup_mem {pairs : List (Nat × BDD)} {l : Nat} {r : BDD} (h : pairs.lookup l = some r) :
    (l, r) ∈ pairs := by
  induction pairs with
  | nil => simp [List.lookup] at h
  | cons p ps ih =>
    obtain ⟨k, v⟩ := p
    simp only [List.lookup] at h
    by_cases hk : l = k
    · subst hk; simp at h; subst h; exact List.mem_cons_self
    · have : (l == k) = false := by simp [hk]
      rw [this] at h
      exact List.mem_cons_of_mem _ (ih h)

/-- entry `l` of the prepared vector -/
theorem substPrepare_getElem? (pairs : List (Nat × BDD)) (l : Nat) :
    (substPrepare pairs)[l]? =
      if l < pairs.foldl (fun m p => max m (p.1 + 1)) 0 then
        some (match pairs.lookup l with
          | some r => r
          | none => var l)
      else none := by
  simp only [substPrepare, List.getElem?_map, var]
  by_cases h : l < pairs.foldl (fun m p => max m (p.1 + 1)) 0
  · rw [if_pos h, List.getElem?_range h]; rfl
  · rw [if_neg h, List.getElem?_eq_none_iff.mpr (by simpa using Nat.le_of_not_lt h)]; rfl

/-- the prepared vector specifies exactly the simultaneous substitution of the listed levels:
unlisted levels inside the vector are mapped to their own variable, levels beyond it are skipped -/
theorem substAssign_prepare (pairs : List (Nat × BDD)) (σ : Nat → Bool) :
    substAssign (substPrepare pairs) σ = pairsAssign pairs σ := by
  funext l
  simp only [substAssign, pairsAssign, substPrepare_getElem?]
  by_cases hl : l < pairs.foldl (fun m p => max m (p.1 + 1)) 0
  · rw [if_pos hl]
    cases h : pairs.lookup l with
    | none => simp [var, eval]
    | some r => rfl
  · rw [if_neg hl]
    cases h : pairs.lookup l with
    | none => rfl
    | some r => exact absurd (lookup_lt_len 0 h) hl

/-- **`subst_prepare_sem`** -/
theorem subst_prepare_sem (pairs : List (Nat × BDD)) {n : Nat} {f : BDD} (hf : Ordered n f)
    (σ : Nat → Bool) :
    (substitute (substPrepare pairs) f).eval σ = f.eval (pairsAssign pairs σ) := by
  rw [subst_sem _ hf, substAssign_prepare]

theorem substPrepare_nf {pairs : List (Nat × BDD)} (h : ∀ p ∈ pairs, NF 0 p.2) :
    ∀ r ∈ substPrepare pairs, NF 0 r := by
  intro r hr
  simp only [substPrepare, List.mem_map, List.mem_range] at hr
  obtain ⟨l, _, rfl⟩ := hr
  cases hl : pairs.lookup l with
  | none =>
    refine ⟨.node (Nat.zero_le _) .leaf .leaf, ?_⟩
    simp [Reduced]
  | some r => exact h _ (lookup_mem hl)

/-- **`subst_prepare_nf`** -/
theorem subst_prepare_nf {pairs : List (Nat × BDD)} {n : Nat} {f : BDD} (h : ∀ p ∈ pairs, NF 0 p.2)
    (hf : NF n f) : NF 0 (substitute (substPrepare pairs) f) :=
  subst_nf (substPrepare_nf h) hf (Nat.zero_le _)

end OxiddModel.Bdd
