import OxiddModel.Bdd.ApplyX
import OxiddModel.Bdd.Subst

/-!
# `substitute_prepare` and `substitute` on the store, with the apply cache

* `substPrepareS` = `substitute_prepare` (`apply_rec.rs`): the vector *level ↦ replacement edge*
  up to the lowest substituted level; a level that is not mentioned gets the variable node of
  that level, created with `get_or_insert(InnerNode::new(level, [⊤, ⊥]))` (`Store.mkNode` with two
  different terminals does exactly that). It refines the tree-level `substPrepare`.
* `substituteS` = `substitute`: terminal / level beyond the vector ⇒ `f`; cache query under the key
  `(Substitute, [f], [cache_id])` — the replacement vector itself is **not** part of the key, only
  the numeric `cache_id` —; recursion on both children; `apply_ite(subst[level], t, e)`; cache add.

The meaning of a `Substitute` entry is therefore relative to the *registry* `reg : id ↦ vector`
(`specX reg .substitute [a] [id] = substitute (reg id) a`), and `substituteS_spec` has the
hypothesis `DenotesL st.store subst (reg id)`: **the vector passed together with `id` is the one
registered under `id`**. That `reg` is a function is the uniqueness of substitution ids
(`Substitution::id()` / `new_substitution_id`). `C04S.subst_id_reuse_unsound`
(`PropertiesC04S.lean`) shows that the hypothesis
cannot be dropped.

Fuel: `fuel` bounds the recursion on `f`; `af` is handed to the inner `apply_ite` calls
(`substNeed` suffices).
-/
namespace OxiddModel.Bdd.Refine
open OxiddModel.Bdd OxiddModel.Bdd.BDD

/-! ## operand lists -/

theorem DenotesL.getElem? {s : Store} {es : List Edge} {ts : List BDD} (h : DenotesL s es ts)
    (l : Nat) :
    (es[l]? = none ∧ ts[l]? = none) ∨ ∃ e t, es[l]? = some e ∧ ts[l]? = some t ∧ Denotes s e t := by
  induction h generalizing l with
  | nil => exact .inl ⟨rfl, rfl⟩
  | @cons e t es ts hd _ ih =>
    cases l with
    | zero => exact .inr ⟨e, t, rfl, rfl, hd⟩
    | succ l => simpa using ih l

/-! ## `substitute_prepare` -/

/-- the `(level, replacement)` pairs on both levels -/
inductive DenotesP (s : Store) : List (Nat × Edge) → List (Nat × BDD) → Prop
  | nil : DenotesP s [] []
  | cons : Denotes s e t → DenotesP s ps pts → DenotesP s ((l, e) :: ps) ((l, t) :: pts)

theorem DenotesP.mono {s s' : Store} (hle : s.Le s') {ps : List (Nat × Edge)}
    {pts : List (Nat × BDD)} (h : DenotesP s ps pts) : DenotesP s' ps pts := by
  induction h with
  | nil => exact .nil
  | cons hd _ ih => exact .cons (hd.mono hle) ih

theorem DenotesP.lookup {s : Store} {ps : List (Nat × Edge)} {pts : List (Nat × BDD)}
    (h : DenotesP s ps pts) (l : Nat) :
    (ps.lookup l = none ∧ pts.lookup l = none) ∨
      ∃ e t, ps.lookup l = some e ∧ pts.lookup l = some t ∧ Denotes s e t := by
  induction h with
  | nil => exact .inl ⟨rfl, rfl⟩
  | @cons e t ps pts k hd _ ih =>
    simp only [List.lookup]
    by_cases hk : l = k
    · subst hk; simp only [beq_self_eq_true]; exact .inr ⟨e, t, rfl, rfl, hd⟩
    · have : (l == k) = false := by simp [hk]
      simp only [this]; exact ih

theorem DenotesP.len {s : Store} {ps : List (Nat × Edge)} {pts : List (Nat × BDD)}
    (h : DenotesP s ps pts) (init : Nat) :
    ps.foldl (fun m p => max m (p.1 + 1)) init = pts.foldl (fun m p => max m (p.1 + 1)) init := by
  induction h generalizing init with
  | nil => rfl
  | cons _ _ ih => simp only [List.foldl]; exact ih _

/-- the second loop of `substitute_prepare` over the levels `ls` -/
def prepLoop (pairs : List (Nat × Edge)) : Store → List Nat → Store × List Edge
  | s, [] => (s, [])
  | s, l :: ls =>
    match pairs.lookup l with
    | some r =>
      let rest := prepLoop pairs s ls
      (rest.1, r :: rest.2)
    | none =>
      -- `get_or_insert(InnerNode::new(level, [⊤, ⊥]))`
      let m := s.mkNode l (.term true) (.term false)
      let rest := prepLoop pairs m.1 ls
      (rest.1, m.2 :: rest.2)

/-- `substitute_prepare` -/
def substPrepareS (s : Store) (pairs : List (Nat × Edge)) : Store × List Edge :=
  prepLoop pairs s (List.range (pairs.foldl (fun m p => max m (p.1 + 1)) 0))

theorem prepLoop_spec (pairs : List (Nat × Edge)) (pairsT : List (Nat × BDD)) (ls : List Nat) :
    ∀ (s : Store), s.Unique → DenotesP s pairs pairsT →
    s.Le (prepLoop pairs s ls).1 ∧ (prepLoop pairs s ls).1.Unique ∧
    (s.NoRed → (prepLoop pairs s ls).1.NoRed) ∧
    DenotesL (prepLoop pairs s ls).1 (prepLoop pairs s ls).2
      (ls.map fun l => match pairsT.lookup l with
        | some r => r
        | none => .node l (.leaf true) (.leaf false)) := by
  induction ls with
  | nil => intro s hu _; exact ⟨Store.Le.refl _, hu, id, .nil⟩
  | cons l ls ih =>
    intro s hu hp
    simp only [prepLoop, List.map]
    rcases hp.lookup l with ⟨h1, h2⟩ | ⟨e, t, h1, h2, hd⟩
    · simp only [h1, h2]
      have hle := mkNode_le s l (.term true) (.term false)
      have hu' := mkNode_unique s l (.term true) (.term false) hu
      obtain ⟨r1, r2, r3, r4⟩ := ih _ hu' (hp.mono hle)
      have hd := mkNode_denotes s l (.term true) (.term false) _ _ .term .term (inj_of_unique hu)
      have hmk : mk l (.leaf true) (.leaf false) = .node l (.leaf true) (.leaf false) := by
        simp [mk]
      rw [hmk] at hd
      exact ⟨hle.trans r1, r2, fun hr => r3 (mkNode_nored _ _ _ _ hr), .cons (hd.mono r1) r4⟩
    · simp only [h1, h2]
      obtain ⟨r1, r2, r3, r4⟩ := ih s hu hp
      exact ⟨r1, r2, r3, .cons (hd.mono r1) r4⟩

/-- **`substitute_prepare` refines `substPrepare`**: the store is only extended (by variable
nodes), hash consing and reducedness are kept, and the returned edges denote the tree-level
replacement vector -/
theorem substPrepareS_spec (s : Store) (pairs : List (Nat × Edge)) (pairsT : List (Nat × BDD))
    (hu : s.Unique) (hp : DenotesP s pairs pairsT) :
    s.Le (substPrepareS s pairs).1 ∧ (substPrepareS s pairs).1.Unique ∧
    (s.NoRed → (substPrepareS s pairs).1.NoRed) ∧
    DenotesL (substPrepareS s pairs).1 (substPrepareS s pairs).2 (substPrepare pairsT) := by
  have := prepLoop_spec pairs pairsT
    (List.range (pairs.foldl (fun m p => max m (p.1 + 1)) 0)) s hu hp
  simp only [substPrepareS, substPrepare, ← hp.len 0]
  exact this

/-! ## `substitute` -/

/-- fuel that suffices for the inner `apply_ite` calls of `substitute sv f` -/
def substNeed (sv : List BDD) : BDD → Nat
  | .leaf _ => 0
  | .node l t e =>
    match sv[l]? with
    | none => 0
    | some r =>
      max (max (substNeed sv t) (substNeed sv e))
        (r.size + (substitute sv t).size + (substitute sv e).size)

/-- `substitute` -/
def substituteS (p : Policy) (subst : List Edge) (id : Nat) (af : Nat) :
    Nat → St → Edge → St × Edge
  | 0, st, f => (st, f)
  | fuel+1, st, f =>
    match f with
    | .term _ => (st, f)
    | .inner i =>
      match st.store.get? i with
      | none => (st, f) -- dangling edge (excluded by `Denotes`)
      | some fn =>
        match subst[fn.level]? with
        | none => (st, f) -- `level >= subst.len()`
        | some rep =>
          -- query apply cache
          match p.get st.tick st.cache (encKey (substKey f id)) with
          | some h => (st.tickd, h)
          | none =>
            let r1 := substituteS p subst id af fuel st.tickd fn.t
            let r0 := substituteS p subst id af fuel r1.1 fn.e
            let r := iteS p af r0.1 rep r1.2 r0.2
            addS p r.1 (encKey (substKey f id)) r.2

theorem substKey_means {reg : Nat → List BDD} {s : Store} {f : Edge} {a : BDD} (id : Nat)
    (hf : Denotes s f a) : KeyMeans reg s (encKey (substKey f id)) (substitute (reg id) a) :=
  KeyMeans.of (substKey_wf f id) (DenotesL.one hf) rfl

theorem substituteS_spec {p : Policy} (pok : p.OK) (reg : Nat → List BDD) (subst : List Edge)
    (id : Nat) (af : Nat) (fuel : Nat) : ∀ (st : St) (f : Edge) (a : BDD),
    InvX reg st → DenotesL st.store subst (reg id) → Denotes st.store f a → a.size ≤ fuel →
    substNeed (reg id) a ≤ af →
    PostW reg st.store (substitute (reg id) a) (substituteS p subst id af fuel st f) := by
  induction fuel with
  | zero => intro st f a _ _ _ hsz _; have := size_pos a; omega
  | succ fuel ih =>
    intro st f a hinv hsub hf hsz hneed
    cases hf with
    | @term x => exact PostW.done hinv .term
    | @inner i l t e tt te hi hft hfe =>
      have hdf : Denotes st.store (.inner i) (.node l tt te) := .inner hi hft hfe
      simp only [BDD.size] at hsz
      simp only [substituteS, hi]
      rcases hsub.getElem? l with ⟨h1, h2⟩ | ⟨rep, rt, h1, h2, hrep⟩
      · simp only [h1]
        rw [substitute_node_none _ _ h2]
        exact PostW.done hinv hdf
      · simp only [h1]
        simp only [substNeed, h2] at hneed
        have hkey := substKey_means (reg := reg) id hdf
        rw [substitute_node_some _ _ h2] at hkey ⊢
        cases hget : p.get st.tick st.cache (encKey (substKey (.inner i) id)) with
        | some r =>
          have hent := hinv.2 _ _ (pok.get_mem _ _ _ _ hget)
          have := hent.hit (substKey_wf _ id) (DenotesL.one hdf) rfl
          rw [substitute_node_some _ _ h2] at this
          exact PostW.done (st := st.tickd) hinv.tickd this
        | none =>
          simp only
          have p1 := ih st.tickd t tt hinv.tickd hsub hft (by omega) (by omega)
          have p0 := ih _ e te p1.inv (hsub.mono p1.le) (hfe.mono p1.le) (by omega) (by omega)
          have pa := (iteS_specX pok reg af _ _ _ _ _ _ _ p0.inv
            (hrep.mono (p1.le.trans p0.le)) (p1.den.mono p0.le) p0.den (by omega)).toW
          have pa' : PostW reg st.store _ _ :=
            PostW.trans (p1.le.trans p0.le) (fun hr => p0.nored (p1.nored hr)) pa
          exact addS_postW pok pa' _ hkey

/-! ## `substitute_edge` = prepare, then substitute -/

/-- `FunctionSubst::substitute_edge`: `substitute_prepare(pairs)`, then
`substitute(f, &subst, substitution.id())` -/
def substituteEdgeS (p : Policy) (pairs : List (Nat × Edge)) (id : Nat) (af fuel : Nat)
    (st : St) (f : Edge) : St × Edge :=
  let pr := substPrepareS st.store pairs
  substituteS p pr.2 id af fuel ⟨pr.1, st.cache, st.tick⟩ f

theorem substituteEdgeS_spec {p : Policy} (pok : p.OK) (reg : Nat → List BDD)
    (pairs : List (Nat × Edge)) (pairsT : List (Nat × BDD)) (id : Nat) (af fuel : Nat)
    (st : St) (f : Edge) (a : BDD) (hinv : InvX reg st) (hp : DenotesP st.store pairs pairsT)
    (hreg : reg id = substPrepare pairsT) (hf : Denotes st.store f a) (hsz : a.size ≤ fuel)
    (hneed : substNeed (substPrepare pairsT) a ≤ af) :
    PostW reg st.store (substitute (substPrepare pairsT) a)
      (substituteEdgeS p pairs id af fuel st f) := by
  obtain ⟨h1, h2, h3, h4⟩ := substPrepareS_spec st.store pairs pairsT hinv.1 hp
  have hinv' : InvX reg ⟨(substPrepareS st.store pairs).1, st.cache, st.tick⟩ :=
    ⟨h2, hinv.2.mono h1⟩
  have := substituteS_spec pok reg (substPrepareS st.store pairs).2 id af fuel
    ⟨(substPrepareS st.store pairs).1, st.cache, st.tick⟩ f a hinv' (hreg ▸ h4) (hf.mono h1) hsz
    (hreg ▸ hneed)
  rw [hreg] at this
  exact PostW.trans h1 h3 this

end OxiddModel.Bdd.Refine
