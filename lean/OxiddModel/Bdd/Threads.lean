import OxiddModel.Bdd.Guarantee

/-!
# Threads as resumptions over the atomic actions: an interleaving machine for the BDD apply algorithms

`ApplyE.lean` / `Guarantee.lean` prove the two ingredients of a rely/guarantee argument. This file
defines the object these ingredients are about: a **small-step machine** in which several user
threads run `apply_not`, `apply_bin::<OP>` (8 operators) and `apply_ite` of
`crates/oxidd-rules-bdd/src/simple/apply_rec.rs` on ONE shared state `St` (unique table + apply
cache + time stamp), interleaved at the granularity of the atomic `Action`s of `Guarantee.lean`,
together with a collector that may run at any moment.

## a thread's control state: `Task`

The call stack of a running operation is a *tree* (`Task`), because the parallel recursor
(`crates/oxidd-rules-bdd/src/recursor.rs`, `ParallelRecursor::binary` = `workers().join(..)`) runs
the two cofactor calls as separately schedulable sub-tasks:

* `call d c` — at the entry of the (recursive) call `c` with remaining split depth `d`
  (`ParallelRecursor.remaining_depth`; `0` = `SequentialRecursor`);
* `miss d c key` — after the cache query missed, before the operand nodes are read;
* `seq1 fr c0 t1` — sequential recursor: then-branch `t1` running, else-call `c0` pending;
* `seq0 fr r1 t0` — then-result `r1` held (`EdgeDropGuard`), else-branch `t0` running;
* `par fr t1 t0` — parallel recursor: both branches running, `join` afterwards;
* `made key r` — `reduce` done (node `r` created), before `apply_cache().add`;
* `ret r` — finished with result edge `r`.

One step (`Task.step`) of a task performs exactly ONE atomic action on the shared state
(or a thread-local transition): terminal cases + cache query (`Action.cacheGet`), reading the
operand nodes (local: nodes are immutable), `reduce` (`Action.mk`), cache add (`Action.cacheAdd`).
In a `par` node the scheduler chooses (by a path of booleans) which branch moves.
The program text is that of `notS/applyS/iteS` (`ApplyS.lean`): same terminal cases, cache lookup
before recursion, `mkNode` then cache add; `ThreadsSeq.lean` proves that a thread running alone
computes exactly `applyS`'s state and edge.

## threads, handles, collector

A `Thread` owns a list of handles (`hs`, slots are `none` after `drop`), runs a script of commands
(`not i`, `bin op i j`, `ite i j k` on handle indices — the result is appended as a new handle —,
`clone i`, `drop i`) and has at most one operation in progress (`cur`). The global configuration
`Cfg` is the shared `St`, the list of threads and the flag "a collection is going on". A schedule
is a list of `Sel`: `Sel.thread tid path` lets thread `tid` do one step; the collector either runs
a complete collection atomically (`Sel.gc` = `Action.gc roots`) or — as in `Manager::gc` of the
index manager — in phases that interleave with the threads: `Sel.gcBegin` (`pre_gc`: the apply
cache is cleared and all its buckets stay locked: until `gcEnd` every cache query of a thread
misses and every cache add is dropped), `Sel.gcLevel l` (under the mutex of level `l`: every node
of that level whose reference count is the table's own is freed), `Sel.gcEnd` (`post_gc`).

The root set of the collector (`Cfg.roots`) consists of the edges that carry a **reference
count**: all handles of all threads and the results owned by frames of running operations
(`Task.owned`: `EdgeDropGuard`s, the node returned by `reduce`, a finished sub-task's result).
The *borrowed* edges (`Borrowed<M::Edge>`: operands of recursive calls, i.e. cofactors read from
nodes, and cache keys) are **not** roots; that they are protected all the same — they are
reachable from handles of the same thread — is part of the proof (`ThreadsBorrow.lean`), not of
the model.

**Assumptions of the model (not proved here):** the actions are atomic (in the code: level mutex
around `get_or_insert` and the sweep of that level, bucket lock with `try_lock` for cache
get/add — a failing `try_lock` is a `Policy` that misses / drops —, all buckets locked during
`gc`, the level mutex around one level's sweep); sequentially consistent memory; the reference
counts are exact (C05), so that "count is the table's own" means "neither a handle, nor owned by
a frame, nor the child of a stored node".
-/
namespace OxiddModel.Bdd.Threads
open OxiddModel.Bdd OxiddModel.Bdd.BDD OxiddModel.Bdd.Refine

/-! ## calls and tasks -/

/-- a (recursive) call of one of the three algorithms -/
inductive Call where
  | not (f : Edge)
  | bin (op : Op) (f g : Edge)
  | ite (f g h : Edge)
deriving DecidableEq, Repr

/-- the operand edges of a call (borrowed from the caller) -/
def Call.edges : Call → List Edge
  | .not f => [f]
  | .bin _ f g => [f, g]
  | .ite f g h => [f, g, h]

/-- what a frame keeps across its recursive calls: the cache key (operator tag and the operand
edges as normalised by `terminal_bin`) and the level of the node to be created -/
structure Frame where
  key : Key
  lvl : Nat
deriving DecidableEq, Repr

inductive Task where
  | call (d : Nat) (c : Call)
  | miss (d : Nat) (c : Call) (key : Key)
  | seq1 (fr : Frame) (c0 : Call) (t1 : Task)
  | seq0 (fr : Frame) (r1 : Edge) (t0 : Task)
  | par (fr : Frame) (t1 t0 : Task)
  | made (key : Key) (r : Edge)
  | ret (r : Edge)
deriving DecidableEq, Repr

/-- the result of a finished task -/
def Task.ret? : Task → Option Edge
  | .ret r => some r
  | _ => none

/-- all edges a task holds: operands of all frames, pending cofactors, results already computed -/
def Task.held : Task → List Edge
  | .call _ c => c.edges
  | .miss _ c key => c.edges ++ key.2
  | .seq1 fr c0 t1 => fr.key.2 ++ (c0.edges ++ t1.held)
  | .seq0 fr r1 t0 => fr.key.2 ++ (r1 :: t0.held)
  | .par fr t1 t0 => fr.key.2 ++ (t1.held ++ t0.held)
  | .made key r => r :: key.2
  | .ret r => [r]

/-- the edges a task **owns** a reference to (they carry a reference count): results of finished
sub-tasks, the then-result kept in an `EdgeDropGuard`, the node `reduce` returned. Operands and
cache keys are borrowed. -/
def Task.owned : Task → List Edge
  | .call _ _ => []
  | .miss _ _ _ => []
  | .seq1 _ _ t1 => t1.owned
  | .seq0 _ r1 t0 => r1 :: t0.owned
  | .par _ t1 t0 => t1.owned ++ t0.owned
  | .made _ r => [r]
  | .ret r => [r]

/-- what one step does: at most one atomic action on the shared state, and the next control state -/
abbrev Out := Option Action × Task

/-- apply an optional action -/
def runOpt : Option Action → St → St
  | some a, st => a.run st
  | none, st => st

/-- the cache query of a call that is not a terminal case -/
def query (p : Policy) (st : St) (d : Nat) (c : Call) (key : Key) : Out :=
  match p.get st.tick st.cache key with
  | some h => (some .cacheGet, .ret h)
  | none => (some .cacheGet, .miss d c key)

/-- entry of a call: terminal cases (thread-local, they only compare edges), delegation, or the
cache query. Mirrors the part of `notS/applyS/iteS` before `level?` is read. -/
def Call.entry (p : Policy) (st : St) (d : Nat) : Call → Out
  | .not f =>
    match f with
    | .term b => (none, .ret (.term (!b)))
    | .inner _ => query p st d (.not f) (.not, [f])
  | .bin op f g =>
    match terminalBinS op f g with
    | .done h => (none, .ret h)
    | .notOf h => (none, .call d (.not h))
    | .binary tag o1 o2 => query p st d (.bin op f g) (tag, [o1, o2])
  | .ite f g h =>
    if g = h then (none, .ret g) else
    if f = g then (none, .call d (.bin .or f h)) else
    if f = h then (none, .call d (.bin .and f g)) else
    match f with
    | .term b => (none, .ret (if b then g else h))
    | .inner _ =>
      match g, h with
      | .term true, .inner _ => (none, .call d (.bin .or f h))
      | .term false, .inner _ => (none, .call d (.bin .impStrict f h))
      | .inner _, .term true => (none, .call d (.bin .imp f g))
      | .inner _, .term false => (none, .call d (.bin .and f g))
      | .term gb, .term _ => if gb then (none, .ret f) else (none, .call d (.not f))
      | .inner _, .inner _ => query p st d (.ite f g h) (.ite, [f, g, h])

/-- `Recursor::unary/binary/ternary`: the sequential recursor (`d = 0`) runs the then-call first,
the parallel recursor forks both calls with `remaining_depth - 1` -/
def fork (d : Nat) (fr : Frame) (c1 c0 : Call) : Task :=
  match d with
  | 0 => .seq1 fr c0 (.call 0 c1)
  | d + 1 => .par fr (.call d c1) (.call d c0)

/-- after a miss: read level and children of the operand nodes, select the cofactors, start the
recursive calls. Mirrors `level?`/`cofT`/`cofE` of `notS/applyS/iteS` (a dangling operand returns
the operand, as there; excluded by `Denotes`). -/
def Call.expand (s : Store) (d : Nat) (key : Key) : Call → Task
  | .not f =>
    match f with
    | .term _ => .ret f
    | .inner i =>
      match s.get? i with
      | none => .ret f
      | some n => fork d ⟨key, n.level⟩ (.not n.t) (.not n.e)
  | .bin op f g =>
    match s.level? f, s.level? g with
    | some lf, some lg =>
      let l := min lf lg
      fork d ⟨key, l⟩ (.bin op (s.cofT l f) (s.cofT l g)) (.bin op (s.cofE l f) (s.cofE l g))
    | _, _ => .ret f
  | .ite f g h =>
    match s.level? f, s.level? g, s.level? h with
    | some lf, some lg, some lh =>
      let l := min (min lf lg) lh
      fork d ⟨key, l⟩ (.ite (s.cofT l f) (s.cofT l g) (s.cofT l h))
        (.ite (s.cofE l f) (s.cofE l g) (s.cofE l h))
    | _, _, _ => .ret f

/-- `reduce`: the atomic `get_or_insert`; the task remembers the edge it got back -/
def reduceOut (st : St) (fr : Frame) (r1 r0 : Edge) : Out :=
  (some (.mk fr.lvl r1 r0), .made fr.key (st.store.mkNode fr.lvl r1 r0).2)

/-- which branch of a `par` node moves: the one the scheduler asks for (`true`/empty path = then)
unless it is finished already -/
def pickLeft (path : List Bool) (t1 t0 : Task) : Bool :=
  match t1.ret?, t0.ret? with
  | some _, _ => false
  | none, some _ => true
  | none, none => path.headD true

/-- **one step of a task** in shared state `st`; `path` resolves the choices at `par` nodes
(outermost first). A finished task stutters. -/
def Task.step (p : Policy) (st : St) : Task → List Bool → Out
  | .ret r, _ => (none, .ret r)
  | .call d c, _ => c.entry p st d
  | .miss d c key, _ => (none, c.expand st.store d key)
  | .seq1 fr c0 t1, path =>
    match t1.ret? with
    | some r1 => (none, .seq0 fr r1 (.call 0 c0))
    | none => let o := t1.step p st path; (o.1, .seq1 fr c0 o.2)
  | .seq0 fr r1 t0, path =>
    match t0.ret? with
    | some r0 => reduceOut st fr r1 r0
    | none => let o := t0.step p st path; (o.1, .seq0 fr r1 o.2)
  | .par fr t1 t0, path =>
    match t1.ret?, t0.ret? with
    | some r1, some r0 => reduceOut st fr r1 r0
    | _, _ =>
      if pickLeft path t1 t0 then
        let o := t1.step p st path.tail; (o.1, .par fr o.2 t0)
      else
        let o := t0.step p st path.tail; (o.1, .par fr t1 o.2)
  | .made key r, _ => (some (.cacheAdd p key r), .ret r)

/-! ## threads -/

/-- script commands; operands are indices into the thread's handle list -/
inductive Cmd where
  | not (i : Nat)
  | bin (op : Op) (i j : Nat)
  | ite (i j k : Nat)
  | clone (i : Nat)
  | drop (i : Nat)
deriving DecidableEq, Repr

structure Thread where
  /-- split depth of the recursor used for this thread's operations (`0`: sequential) -/
  depth : Nat
  /-- the handles the thread owns (`none`: dropped) -/
  hs : List (Option Edge)
  /-- the commands still to be issued -/
  script : List Cmd
  /-- the operation in progress -/
  cur : Option Task
deriving DecidableEq, Repr

/-- handle lookup: a live handle at index `i` -/
def hget {α} (hs : List (Option α)) (i : Nat) : Option α := (hs[i]?).join

/-- issue the next command (thread-local: the handle list is private; in the code clone/drop are
atomic counter updates, which is what makes `Cfg.roots` the collector's root set). A command whose
operand index is not a live handle is skipped. -/
def Cmd.start (th : Thread) (rest : List Cmd) : Cmd → Thread
  | .not i =>
    match hget th.hs i with
    | some f => { th with script := rest, cur := some (.call th.depth (.not f)) }
    | none => { th with script := rest }
  | .bin op i j =>
    match hget th.hs i, hget th.hs j with
    | some f, some g => { th with script := rest, cur := some (.call th.depth (.bin op f g)) }
    | _, _ => { th with script := rest }
  | .ite i j k =>
    match hget th.hs i, hget th.hs j, hget th.hs k with
    | some f, some g, some h =>
      { th with script := rest, cur := some (.call th.depth (.ite f g h)) }
    | _, _, _ => { th with script := rest }
  | .clone i =>
    match hget th.hs i with
    | some f => { th with script := rest, hs := th.hs ++ [some f] }
    | none => { th with script := rest }
  | .drop i => { th with script := rest, hs := th.hs.set i none }

/-- **one step of a thread**: continue the running operation, or store its result as a new
handle, or issue the next command. A thread with nothing left to do stutters. -/
def Thread.step (p : Policy) (st : St) (th : Thread) (path : List Bool) : Option Action × Thread :=
  match th.cur with
  | some t =>
    match t.ret? with
    | some r => (none, { th with hs := th.hs ++ [some r], cur := none })
    | none => let o := t.step p st path; (o.1, { th with cur := some o.2 })
  | none =>
    match th.script with
    | [] => (none, th)
    | c :: rest => (none, c.start th rest)

def Thread.done (th : Thread) : Bool := th.cur.isNone && th.script.isEmpty

/-- the live handles of a thread -/
def Thread.handles (th : Thread) : List Edge := th.hs.filterMap id

/-- the edges a thread holds: its live handles and everything its running operation holds -/
def Thread.held (th : Thread) : List Edge :=
  th.handles ++ (match th.cur with | some t => t.held | none => [])

/-- the edges of a thread that carry a reference count: handles and owned results -/
def Thread.owned (th : Thread) : List Edge :=
  th.handles ++ (match th.cur with | some t => t.owned | none => [])

/-! ## the machine -/

structure Cfg where
  st : St
  threads : List Thread
  /-- a phased collection is going on: the apply cache is locked -/
  gcActive : Bool := false

/-- the collector's root set: every edge with a reference count (handles and owned results of all
threads) -/
def Cfg.roots (c : Cfg) : List Edge := c.threads.flatMap Thread.owned

/-- the cache behaviour a thread sees: while a collection holds all buckets locked, `try_lock`
fails, i.e. every query misses and every add is dropped -/
def effPol (p : Policy) : Bool → Policy
  | true => Policy.none
  | false => p

/-- the sweep of one level: every node of level `l` that is referenced neither by a stored node
nor by a root is removed. This is `LevelViewSet::gc` (`retain(|edge| rc != 1)`, manager.rs) called
by `Manager::gc` for one level under `level.lock()`, between `pre_gc` and `post_gc`; nodes of one
level do not refer to each other, so the references of the store before the sweep are the
reference counts seen during it. Children of freed nodes lose a reference and are freed when
their (lower) level is swept later — here: by a later `gcLevel` step. -/
def sweepLevel (s : Store) (roots : List Edge) (l : Nat) : Store :=
  ⟨s.nodes.mapIdx fun j o =>
    if roots.contains (.inner j) || s.refd j then o else o.filter (fun n => n.level != l)⟩

/-- a scheduling decision -/
inductive Sel where
  /-- thread `tid` performs one step; `path` picks the branch at `par` nodes -/
  | thread (tid : Nat) (path : List Bool)
  /-- a complete collection as one atomic action: apply cache cleared, every node that is
  referenced neither by a stored node nor by a root is freed -/
  | gc
  /-- `pre_gc`: the apply cache is cleared and stays locked -/
  | gcBegin
  /-- one level of a phased collection (no effect unless a collection is going on) -/
  | gcLevel (l : Nat)
  /-- `post_gc`: the apply cache is unlocked -/
  | gcEnd
deriving DecidableEq, Repr

/-- **one step of the machine** -/
def Cfg.step (p : Policy) (c : Cfg) : Sel → Cfg
  | .thread tid path =>
    match c.threads[tid]? with
    | none => c
    | some th =>
      let o := th.step (effPol p c.gcActive) c.st path
      { c with st := runOpt o.1 c.st, threads := c.threads.set tid o.2 }
  | .gc => { c with st := (Action.gc c.roots).run c.st }
  | .gcBegin => { c with st := Action.cacheClear.run c.st, gcActive := true }
  | .gcLevel l =>
    if c.gcActive then
      { c with st := { c.st with store := sweepLevel c.st.store c.roots l } }
    else c
  | .gcEnd => { c with gcActive := false }

/-- run a schedule -/
def Cfg.run (p : Policy) (c : Cfg) : List Sel → Cfg
  | [] => c
  | s :: ss => (c.step p s).run p ss

def Cfg.allDone (c : Cfg) : Bool := c.threads.all Thread.done

/-- how often the schedule selects thread `tid` -/
def selCount (tid : Nat) : List Sel → Nat
  | [] => 0
  | .thread i _ :: ss => (if i = tid then 1 else 0) + selCount tid ss
  | _ :: ss => selCount tid ss

/-! ## the sequential specification of a script, on trees -/

/-- what a command does to the denotations of the handles: operators append the tree-level result
(`applyNot`, `applyBin op`, `applyIte` of `Model.lean`) -/
def evalCmd (ts : List (Option BDD)) : Cmd → List (Option BDD)
  | .not i =>
    match hget ts i with
    | some a => ts ++ [some (applyNot a)]
    | none => ts
  | .bin op i j =>
    match hget ts i, hget ts j with
    | some a, some b => ts ++ [some (applyBin op a b)]
    | _, _ => ts
  | .ite i j k =>
    match hget ts i, hget ts j, hget ts k with
    | some a, some b, some c => ts ++ [some (applyIte a b c)]
    | _, _, _ => ts
  | .clone i =>
    match hget ts i with
    | some a => ts ++ [some a]
    | none => ts
  | .drop i => ts.set i none

/-- the handles (as trees) after the whole script, executed sequentially and alone -/
def evalScript : List Cmd → List (Option BDD) → List (Option BDD)
  | [], ts => ts
  | c :: cs, ts => evalScript cs (evalCmd ts c)

end OxiddModel.Bdd.Threads
