import OxiddModel.Bdd.ThreadsGc

/-!
# Borrowed edges are protected without being roots

The operands of recursive calls and the cache keys kept in frames are *borrowed* edges
(`Borrowed<M::Edge>` in `apply_rec.rs`): they carry no reference count and are therefore not in
the collector's root set. `BorrowOK s H t` says that every borrowed edge of task `t` is reachable
in store `s` from the handles `H` of the thread that runs `t` (operands of the top call are
handles; operands of recursive calls are cofactors, i.e. the operand itself or a child of its
node). It is kept by every step of the task (`Task.step_borrow`), by store extension and by every
`Removal` whose roots contain `H`. Together with `Removal.denotes_reach` this gives what the
collection steps need: all edges *held* by a task (`Task.held`) keep their denotation although only
the owned ones (`Task.owned`) and the handles are roots (`BorrowOK.held`).
-/
namespace OxiddModel.Bdd.Threads
open OxiddModel.Bdd OxiddModel.Bdd.BDD OxiddModel.Bdd.Refine

def BorrowOK (s : Store) (H : List Edge) : Task → Prop
  | .call _ c => ∀ e, e ∈ c.edges → Reach s H e
  | .miss _ c key => (∀ e, e ∈ c.edges → Reach s H e) ∧ (∀ e, e ∈ key.2 → Reach s H e)
  | .seq1 fr c0 t1 =>
    (∀ e, e ∈ fr.key.2 → Reach s H e) ∧ (∀ e, e ∈ c0.edges → Reach s H e) ∧ BorrowOK s H t1
  | .seq0 fr _ t0 => (∀ e, e ∈ fr.key.2 → Reach s H e) ∧ BorrowOK s H t0
  | .par fr t1 t0 => (∀ e, e ∈ fr.key.2 → Reach s H e) ∧ BorrowOK s H t1 ∧ BorrowOK s H t0
  | .made key _ => ∀ e, e ∈ key.2 → Reach s H e
  | .ret _ => True

/-- transport along any store change that keeps reachability from `H` -/
theorem BorrowOK.map {s s' : Store} {H : List Edge} (hr : ∀ e, Reach s H e → Reach s' H e)
    {t : Task} (h : BorrowOK s H t) : BorrowOK s' H t := by
  induction t with
  | call d c => exact fun e he => hr e (h e he)
  | miss d c key => exact ⟨fun e he => hr e (h.1 e he), fun e he => hr e (h.2 e he)⟩
  | seq1 fr c0 t1 ih =>
    exact ⟨fun e he => hr e (h.1 e he), fun e he => hr e (h.2.1 e he), ih h.2.2⟩
  | seq0 fr r1 t0 ih => exact ⟨fun e he => hr e (h.1 e he), ih h.2⟩
  | par fr t1 t0 ih1 ih0 => exact ⟨fun e he => hr e (h.1 e he), ih1 h.2.1, ih0 h.2.2⟩
  | made key r => exact fun e he => hr e (h e he)
  | ret r => trivial

theorem BorrowOK.mono {s s' : Store} {H : List Edge} {t : Task} (h : BorrowOK s H t)
    (hle : s.Le s') : BorrowOK s' H t := h.map fun _ hr => hr.mono hle

theorem BorrowOK.removal {s s' : Store} {H roots : List Edge} {t : Task} (h : BorrowOK s H t)
    (hrem : Removal s s' roots) (hsub : ∀ e, e ∈ H → e ∈ roots) : BorrowOK s' H t :=
  h.map fun _ hr => hrem.reach hsub hr

/-- every edge a task holds is owned by it or reachable from the thread's handles -/
theorem BorrowOK.held {s : Store} {H : List Edge} {t : Task} (h : BorrowOK s H t) :
    ∀ e, e ∈ t.held → e ∈ t.owned ∨ Reach s H e := by
  induction t with
  | call d c => exact fun e he => .inr (h e he)
  | miss d c key =>
    intro e he
    rcases List.mem_append.mp he with h1 | h1
    · exact .inr (h.1 e h1)
    · exact .inr (h.2 e h1)
  | seq1 fr c0 t1 ih =>
    intro e he
    simp only [Task.held, List.mem_append] at he
    rcases he with h1 | h1 | h1
    · exact .inr (h.1 e h1)
    · exact .inr (h.2.1 e h1)
    · exact ih h.2.2 e h1
  | seq0 fr r1 t0 ih =>
    intro e he
    simp only [Task.held, List.mem_append, List.mem_cons] at he
    rcases he with h1 | h1 | h1
    · exact .inr (h.1 e h1)
    · exact .inl (by simp [Task.owned, h1])
    · rcases ih h.2 e h1 with h2 | h2
      · exact .inl (by simp [Task.owned, h2])
      · exact .inr h2
  | par fr t1 t0 ih1 ih0 =>
    intro e he
    simp only [Task.held, List.mem_append] at he
    rcases he with h1 | h1 | h1
    · exact .inr (h.1 e h1)
    · rcases ih1 h.2.1 e h1 with h2 | h2
      · exact .inl (by simp [Task.owned, h2])
      · exact .inr h2
    · rcases ih0 h.2.2 e h1 with h2 | h2
      · exact .inl (by simp [Task.owned, h2])
      · exact .inr h2
  | made key r =>
    intro e he
    simp only [Task.held, List.mem_cons] at he
    rcases he with h1 | h1
    · exact .inl (by simp [Task.owned, h1])
    · exact .inr (h e h1)
  | ret r =>
    intro e he
    simp only [Task.held, List.mem_cons, List.not_mem_nil, or_false] at he
    exact .inl (by simp [Task.owned, he])

/-! ## entry, expansion -/

/-- `Not(h)` of `terminal_bin` is one of the operands -/
theorem terminalBinS_notOf (op : Op) (f g h : Edge) (hS : terminalBinS op f g = .notOf h) :
    h = f ∨ h = g := by
  cases op <;> simp only [terminalBinS] at hS <;>
    (split at hS
     · cases hS <;> simp
     · split at hS <;> (try split at hS) <;> cases hS <;> simp)

theorem query_borrow {s : Store} {H : List Edge} (p : Policy) (st : St) (d : Nat) (c : Call)
    (key : Key) (hc : ∀ e, e ∈ c.edges → Reach s H e) (hk : ∀ e, e ∈ key.2 → Reach s H e) :
    BorrowOK s H (query p st d c key).2 := by
  unfold query
  split
  · trivial
  · exact ⟨hc, hk⟩

theorem borrow_call {s : Store} {H : List Edge} {c : Call} (hc : ∀ e, e ∈ c.edges → Reach s H e)
    (d : Nat) (c' : Call) (hsub : ∀ e, e ∈ c'.edges → e ∈ c.edges) : BorrowOK s H (.call d c') :=
  fun e he => hc e (hsub e he)

theorem entry_borrow {s : Store} {H : List Edge} (p : Policy) (st : St) (d : Nat) (c : Call)
    (hc : ∀ e, e ∈ c.edges → Reach s H e) : BorrowOK s H (c.entry p st d).2 := by
  cases c with
  | not f =>
    cases f with
    | term b => trivial
    | inner i => exact query_borrow p st d _ _ hc hc
  | bin op f g =>
    simp only [Call.entry]
    cases hS : terminalBinS op f g with
    | done h => trivial
    | notOf h =>
      refine borrow_call hc d _ ?_
      rcases terminalBinS_notOf op f g h hS with e | e <;> subst e <;> simp [Call.edges]
    | binary tag o1 o2 =>
      refine query_borrow p st d _ _ hc (fun e he => hc e ?_)
      rcases (terminalBinS_tag op f g tag o1 o2 hS).2 with ⟨h1, h2⟩ | ⟨_, h1, h2⟩ <;>
        subst h1 h2 <;> simp only [List.mem_cons, List.not_mem_nil, or_false] at he <;>
        rcases he with e1 | e1 <;> subst e1 <;> simp [Call.edges]
  | ite f g h =>
    simp only [Call.entry]
    repeat' split
    all_goals first
      | exact trivial
      | exact query_borrow p st d _ _ hc hc
      | exact borrow_call hc d _ (by simp [Call.edges])

theorem fork_borrow {s : Store} {H : List Edge} (d : Nat) (key : Key) (l : Nat) (c1 c0 : Call)
    (hk : ∀ e, e ∈ key.2 → Reach s H e) (h1 : ∀ e, e ∈ c1.edges → Reach s H e)
    (h0 : ∀ e, e ∈ c0.edges → Reach s H e) : BorrowOK s H (fork d ⟨key, l⟩ c1 c0) := by
  cases d with
  | zero => exact ⟨hk, h0, h1⟩
  | succ d => exact ⟨hk, h1, h0⟩

theorem expand_borrow {s : Store} {H : List Edge} (d : Nat) (key : Key) (c : Call)
    (hc : ∀ e, e ∈ c.edges → Reach s H e) (hk : ∀ e, e ∈ key.2 → Reach s H e) :
    BorrowOK s H (c.expand s d key) := by
  cases c with
  | not f =>
    cases f with
    | term b => trivial
    | inner i =>
      simp only [Call.expand]
      cases hi : s.get? i with
      | none => trivial
      | some n =>
        have hf : Reach s H (.inner i) := hc _ (by simp [Call.edges])
        refine fork_borrow d key _ _ _ hk ?_ ?_
        · intro e he
          simp only [Call.edges, List.mem_cons, List.not_mem_nil, or_false] at he
          subst he; exact .childT hf hi
        · intro e he
          simp only [Call.edges, List.mem_cons, List.not_mem_nil, or_false] at he
          subst he; exact .childE hf hi
  | bin op f g =>
    have hf : Reach s H f := hc _ (by simp [Call.edges])
    have hg : Reach s H g := hc _ (by simp [Call.edges])
    simp only [Call.expand]
    split
    · refine fork_borrow d key _ _ _ hk ?_ ?_
      · intro e he
        simp only [Call.edges, List.mem_cons, List.not_mem_nil, or_false] at he
        rcases he with e1 | e1 <;> subst e1
        · exact cofT_reach _ hf
        · exact cofT_reach _ hg
      · intro e he
        simp only [Call.edges, List.mem_cons, List.not_mem_nil, or_false] at he
        rcases he with e1 | e1 <;> subst e1
        · exact cofE_reach _ hf
        · exact cofE_reach _ hg
    · trivial
  | ite f g h =>
    have hf : Reach s H f := hc _ (by simp [Call.edges])
    have hg : Reach s H g := hc _ (by simp [Call.edges])
    have hh : Reach s H h := hc _ (by simp [Call.edges])
    simp only [Call.expand]
    split
    · refine fork_borrow d key _ _ _ hk ?_ ?_
      · intro e he
        simp only [Call.edges, List.mem_cons, List.not_mem_nil, or_false] at he
        rcases he with e1 | e1 | e1 <;> subst e1
        · exact cofT_reach _ hf
        · exact cofT_reach _ hg
        · exact cofT_reach _ hh
      · intro e he
        simp only [Call.edges, List.mem_cons, List.not_mem_nil, or_false] at he
        rcases he with e1 | e1 | e1 <;> subst e1
        · exact cofE_reach _ hf
        · exact cofE_reach _ hg
        · exact cofE_reach _ hh
    · trivial

/-! ## the step -/

/-- **One step of a task keeps its borrowed edges reachable from the handles.** (`hle`: the step
only extends the store — `ActOK.le`.) -/
theorem Task.step_borrow {p : Policy} {st : St} {H : List Edge} (t : Task) :
    ∀ (path : List Bool), BorrowOK st.store H t →
      st.store.Le (runOpt (t.step p st path).1 st).store →
      BorrowOK (runOpt (t.step p st path).1 st).store H (t.step p st path).2 := by
  induction t with
  | ret r => intro _ _ _; trivial
  | call d c => intro path h hle; exact (entry_borrow p st d c h).mono hle
  | miss d c key => intro path h hle; exact (expand_borrow d key c h.1 h.2).mono hle
  | made key r => intro _ _ _; trivial
  | seq1 fr c0 t1 ih =>
    intro path h hle
    cases hr : t1.ret? with
    | some r1 =>
      have e : (Task.seq1 fr c0 t1).step p st path = (none, .seq0 fr r1 (.call 0 c0)) := by
        simp only [Task.step, hr]
      rw [e]
      exact ⟨h.1, h.2.1⟩
    | none =>
      have e : (Task.seq1 fr c0 t1).step p st path =
          ((t1.step p st path).1, .seq1 fr c0 (t1.step p st path).2) := by
        simp only [Task.step, hr]
      rw [e] at hle ⊢
      exact ⟨fun e he => (h.1 e he).mono hle, fun e he => (h.2.1 e he).mono hle,
        ih path h.2.2 hle⟩
  | seq0 fr r1 t0 ih =>
    intro path h hle
    cases hr : t0.ret? with
    | some r0 =>
      have e : (Task.seq0 fr r1 t0).step p st path = reduceOut st fr r1 r0 := by
        simp only [Task.step, hr]
      rw [e] at hle ⊢
      exact fun e he => (h.1 e he).mono hle
    | none =>
      have e : (Task.seq0 fr r1 t0).step p st path =
          ((t0.step p st path).1, .seq0 fr r1 (t0.step p st path).2) := by
        simp only [Task.step, hr]
      rw [e] at hle ⊢
      exact ⟨fun e he => (h.1 e he).mono hle, ih path h.2 hle⟩
  | par fr t1 t0 ih1 ih0 =>
    intro path h hle
    have left : (Task.par fr t1 t0).step p st path =
        ((t1.step p st path.tail).1, .par fr (t1.step p st path.tail).2 t0) →
        BorrowOK (runOpt ((Task.par fr t1 t0).step p st path).1 st).store H
          ((Task.par fr t1 t0).step p st path).2 := by
      intro e
      rw [e] at hle ⊢
      exact ⟨fun e he => (h.1 e he).mono hle, ih1 path.tail h.2.1 hle, h.2.2.mono hle⟩
    have right : (Task.par fr t1 t0).step p st path =
        ((t0.step p st path.tail).1, .par fr t1 (t0.step p st path.tail).2) →
        BorrowOK (runOpt ((Task.par fr t1 t0).step p st path).1 st).store H
          ((Task.par fr t1 t0).step p st path).2 := by
      intro e
      rw [e] at hle ⊢
      exact ⟨fun e he => (h.1 e he).mono hle, h.2.1.mono hle, ih0 path.tail h.2.2 hle⟩
    cases hr1 : t1.ret? with
    | some r1 =>
      cases hr0 : t0.ret? with
      | some r0 =>
        have e : (Task.par fr t1 t0).step p st path = reduceOut st fr r1 r0 := by
          simp only [Task.step, hr1, hr0]
        rw [e] at hle ⊢
        exact fun e he => (h.1 e he).mono hle
      | none => exact right (by simp [Task.step, hr1, hr0, pickLeft])
    | none =>
      cases hr0 : t0.ret? with
      | some r0 => exact left (by simp [Task.step, hr1, hr0, pickLeft])
      | none =>
        cases hp : path.headD true with
        | true => exact left (by simp only [Task.step, hr1, hr0, pickLeft, hp, if_true])
        | false =>
          exact right (by simp only [Task.step, hr1, hr0, pickLeft, hp, Bool.false_eq_true, if_false])

end OxiddModel.Bdd.Threads
