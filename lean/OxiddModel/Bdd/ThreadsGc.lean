import OxiddModel.Bdd.Threads

/-!
# What a collection may and may not remove

`Removal s s' roots`: `s'` arises from `s` by emptying slots that are *unprotected* — neither a
root nor referenced by a stored node of `s` (reference count = the table's own). Both the atomic
collection `Store.sweep` and the sweep of a single level `sweepLevel` are removals. A removal
keeps `Unique`, keeps the denotation of every protected edge, and keeps reachability from the
roots (`Reach`): everything reachable from an edge with a reference count survives, although only
the *first* edge of the chain is a root. This is why borrowed edges need not be roots.
-/
namespace OxiddModel.Bdd.Threads
open OxiddModel.Bdd OxiddModel.Bdd.BDD OxiddModel.Bdd.Refine

/-- slot `j` is protected: a root, or referenced by a stored node -/
def prot (s : Store) (roots : List Edge) (j : Nat) : Bool := roots.contains (.inner j) || s.refd j

/-- `s'` is `s` with some unprotected slots emptied -/
def Removal (s s' : Store) (roots : List Edge) : Prop :=
  ∀ j, (s'.get? j = s.get? j ∨ s'.get? j = none) ∧ (prot s roots j = true → s'.get? j = s.get? j)

theorem sweep_removal (s : Store) (roots : List Edge) : Removal s (s.sweep roots) roots := by
  intro j
  rw [get?_sweep]
  unfold prot
  split
  · exact ⟨.inl rfl, fun _ => rfl⟩
  · rename_i h; exact ⟨.inr rfl, fun h' => absurd h' h⟩

theorem get?_sweepLevel (s : Store) (roots : List Edge) (l j : Nat) :
    (sweepLevel s roots l).get? j =
      if prot s roots j then s.get? j else (s.get? j).filter (fun n => n.level != l) := by
  simp only [Store.get?, sweepLevel, Array.getElem?_mapIdx, prot]
  cases s.nodes[j]? with
  | none => simp
  | some o =>
    simp only [Option.map_some, Option.join_some]
    by_cases h : (roots.contains (Edge.inner j) || s.refd j) = true
    · simp only [h, if_true]
    · simp only [h]

theorem sweepLevel_removal (s : Store) (roots : List Edge) (l : Nat) :
    Removal s (sweepLevel s roots l) roots := by
  intro j
  rw [get?_sweepLevel]
  split
  · exact ⟨.inl rfl, fun _ => rfl⟩
  · rename_i h
    refine ⟨?_, fun h' => absurd h' h⟩
    cases s.get? j with
    | none => exact .inl rfl
    | some n =>
      simp only [Option.filter]
      split
      · exact .inl rfl
      · exact .inr rfl

theorem Removal.unique {s s' : Store} {roots : List Edge} (h : Removal s s' roots)
    (hu : s.Unique) : s'.Unique := by
  intro i j n hi hj
  have e1 : s.get? i = some n := by
    rcases (h i).1 with e | e
    · rw [← e]; exact hi
    · rw [e] at hi; cases hi
  have e2 : s.get? j = some n := by
    rcases (h j).1 with e | e
    · rw [← e]; exact hj
    · rw [e] at hj; cases hj
  exact hu i j n e1 e2

theorem prot_child {s : Store} (roots : List Edge) {i j : Nat} {n : Node} (hi : s.get? i = some n)
    (hc : n.t = .inner j ∨ n.e = .inner j) : prot s roots j = true := by
  unfold prot; rw [refd_of_child hi hc]; simp

/-- a protected edge keeps its denotation (and everything below it survives) -/
theorem Removal.denotes {s s' : Store} {roots : List Edge} (h : Removal s s' roots) {x : Edge}
    {a : BDD} (hd : Denotes s x a) :
    (∀ j, x = .inner j → prot s roots j = true) → Denotes s' x a := by
  induction hd with
  | term => intro _; exact .term
  | @inner i l t e tt te hi _ _ iht ihe =>
    intro hk
    refine .inner (by rw [(h i).2 (hk i rfl)]; exact hi) (iht ?_) (ihe ?_)
    · intro j hj; exact prot_child roots hi (.inl hj)
    · intro j hj; exact prot_child roots hi (.inr hj)

/-! ## reachability from edges with a reference count -/

/-- `e` is a terminal, one of the edges `O`, or a descendant of one of them in store `s` -/
inductive Reach (s : Store) (O : List Edge) : Edge → Prop
  | term (b : Bool) : Reach s O (.term b)
  | root {e : Edge} : e ∈ O → Reach s O e
  | childT {i : Nat} {n : Node} : Reach s O (.inner i) → s.get? i = some n → Reach s O n.t
  | childE {i : Nat} {n : Node} : Reach s O (.inner i) → s.get? i = some n → Reach s O n.e

theorem Reach.mono {s s' : Store} {O : List Edge} {e : Edge} (h : Reach s O e) (hle : s.Le s') :
    Reach s' O e := by
  induction h with
  | term b => exact .term b
  | root hm => exact .root hm
  | childT _ hi ih => exact .childT ih (hle _ _ hi)
  | childE _ hi ih => exact .childE ih (hle _ _ hi)

/-- a reachable slot is protected as soon as the roots contain `O` -/
theorem Reach.prot {s : Store} {O roots : List Edge} (hsub : ∀ e, e ∈ O → e ∈ roots) {e : Edge}
    (h : Reach s O e) : ∀ j, e = .inner j → prot s roots j = true := by
  cases h with
  | term b => intro j hj; cases hj
  | root hm =>
    intro j hj; subst hj
    unfold Threads.prot
    have : roots.contains (.inner j) = true := by simpa using hsub _ hm
    rw [this]; rfl
  | childT _ hi => intro j hj; exact prot_child roots hi (.inl hj)
  | childE _ hi => intro j hj; exact prot_child roots hi (.inr hj)

/-- reachability survives a removal -/
theorem Removal.reach {s s' : Store} {roots O : List Edge} (h : Removal s s' roots)
    (hsub : ∀ e, e ∈ O → e ∈ roots) {e : Edge} (hr : Reach s O e) : Reach s' O e := by
  induction hr with
  | term b => exact .term b
  | root hm => exact .root hm
  | @childT i n hr' hi ih =>
    exact .childT ih (by rw [(h i).2 (hr'.prot hsub i rfl)]; exact hi)
  | @childE i n hr' hi ih =>
    exact .childE ih (by rw [(h i).2 (hr'.prot hsub i rfl)]; exact hi)

/-- a reachable edge keeps its denotation under a removal -/
theorem Removal.denotes_reach {s s' : Store} {roots O : List Edge} (h : Removal s s' roots)
    (hsub : ∀ e, e ∈ O → e ∈ roots) {e : Edge} (hr : Reach s O e) {a : BDD} (hd : Denotes s e a) :
    Denotes s' e a := h.denotes hd (hr.prot hsub)

theorem cofT_reach {s : Store} {O : List Edge} (l : Nat) {f : Edge} (h : Reach s O f) :
    Reach s O (s.cofT l f) := by
  cases f with
  | term b => exact .term b
  | inner i =>
    simp only [Store.cofT]
    cases hi : s.get? i with
    | none => exact h
    | some n =>
      simp only
      split
      · exact .childT h hi
      · exact h

theorem cofE_reach {s : Store} {O : List Edge} (l : Nat) {f : Edge} (h : Reach s O f) :
    Reach s O (s.cofE l f) := by
  cases f with
  | term b => exact .term b
  | inner i =>
    simp only [Store.cofE]
    cases hi : s.get? i with
    | none => exact h
    | some n =>
      simp only
      split
      · exact .childE h hi
      · exact h

end OxiddModel.Bdd.Threads
