import OxiddModel.Bdd.Threads

/-!
# The per-task invariant of the interleaving machine

`TaskOK s t T n`: in store `s` every edge held by any frame of task `t` denotes a tree, the
frames fit together so that the eventual result of `t` must denote the tree `T` (its
*obligation*), every cache key kept in a frame is a key for the frame's obligation, and `t`
finishes within `n` of its own steps. The trees are fixed: they do not depend on the store, which
other threads and the collector keep changing. `TaskOK` mentions only `Denotes` of held edges, so
it is kept by every store change that is `StableOn` the held edges (`TaskOK.stable`) — in
particular by every store extension (`TaskOK.mono`) and by every collection whose roots contain
the held edges.
-/
namespace OxiddModel.Bdd.Threads
open OxiddModel.Bdd OxiddModel.Bdd.BDD OxiddModel.Bdd.Refine

/-! ## step budget -/

/-- own steps a call needs at most when its operand sizes sum up to `n`: entry, expansion, two
recursive calls, hand-over, `reduce`, cache add -/
def W : Nat → Nat
  | 0 => 1
  | n + 1 => 2 * W n + 5

theorem W_pos (n : Nat) : 1 ≤ W n := by cases n <;> simp [W]

theorem W_le_succ (n : Nat) : W n + 1 ≤ W (n + 1) := by simp only [W]; omega

theorem W_mono {m n : Nat} (h : m ≤ n) : W m ≤ W n := by
  induction h with
  | refl => exact Nat.le_refl _
  | step _ ih => exact Nat.le_trans ih (Nat.le_trans (Nat.le_succ _) (W_le_succ _))

/-! ## what calls and keys denote -/

/-- call `c` computes tree `T`; its operand sizes sum up to at most `m` -/
def CallDen (s : Store) : Call → BDD → Nat → Prop
  | .not f, T, m => ∃ a, Denotes s f a ∧ T = applyNot a ∧ a.size ≤ m
  | .bin op f g, T, m =>
    ∃ a b, Denotes s f a ∧ Denotes s g b ∧ T = applyBin op a b ∧ a.size + b.size ≤ m
  | .ite f g h, T, m =>
    ∃ a b c, Denotes s f a ∧ Denotes s g b ∧ Denotes s h c ∧ T = applyIte a b c ∧
      a.size + b.size + c.size ≤ m

/-- call `c` computes `T` and is *not* a terminal case (this is a fact about the operand trees,
hence stable); operand sizes sum up to at most `m + 1` -/
def MissDen (s : Store) : Call → BDD → Nat → Prop
  | .not f, T, m =>
    ∃ l tt te, Denotes s f (.node l tt te) ∧ T = applyNot (.node l tt te) ∧ tt.size + te.size ≤ m
  | .bin op f g, T, m =>
    ∃ a b o x y, Denotes s f a ∧ Denotes s g b ∧ terminalBin op a b = .binary o x y ∧
      T = applyBin op a b ∧ a.size + b.size ≤ m + 1
  | .ite f g h, T, m =>
    ∃ lf ft fe lg gt ge lh ht he, Denotes s f (.node lf ft fe) ∧ Denotes s g (.node lg gt ge) ∧
      Denotes s h (.node lh ht he) ∧ BDD.node lg gt ge ≠ .node lh ht he ∧
      BDD.node lf ft fe ≠ .node lg gt ge ∧ BDD.node lf ft fe ≠ .node lh ht he ∧
      T = applyIte (.node lf ft fe) (.node lg gt ge) (.node lh ht he) ∧
      (BDD.node lf ft fe).size + (BDD.node lg gt ge).size + (BDD.node lh ht he).size ≤ m + 1

/-- `key` is a cache key for the tree `T`: its operands denote trees on which the tagged operator
yields `T` -/
def KeyDen (s : Store) (key : Key) (T : BDD) : Prop :=
  ∃ ts, DenotesL s key.2 ts ∧ specOf key.1 ts = some T

theorem mem_append_l {α} {a : α} {l1 l2 : List α} (h : a ∈ l1) : a ∈ l1 ++ l2 :=
  List.mem_append.mpr (.inl h)
theorem mem_append_r {α} {a : α} {l1 l2 : List α} (h : a ∈ l2) : a ∈ l1 ++ l2 :=
  List.mem_append.mpr (.inr h)

theorem CallDen.stable {s s' : Store} {c : Call} {T : BDD} {m : Nat} (hst : StableOn c.edges s s')
    (h : CallDen s c T m) : CallDen s' c T m := by
  cases c with
  | not f =>
    obtain ⟨a, ha, hT, hm⟩ := h
    exact ⟨a, hst f (by simp [Call.edges]) _ ha, hT, hm⟩
  | bin op f g =>
    obtain ⟨a, b, ha, hb, hT, hm⟩ := h
    exact ⟨a, b, hst f (by simp [Call.edges]) _ ha, hst g (by simp [Call.edges]) _ hb, hT, hm⟩
  | ite f g h' =>
    obtain ⟨a, b, c, ha, hb, hc, hT, hm⟩ := h
    exact ⟨a, b, c, hst f (by simp [Call.edges]) _ ha, hst g (by simp [Call.edges]) _ hb,
      hst h' (by simp [Call.edges]) _ hc, hT, hm⟩

theorem MissDen.stable {s s' : Store} {c : Call} {T : BDD} {m : Nat} (hst : StableOn c.edges s s')
    (h : MissDen s c T m) : MissDen s' c T m := by
  cases c with
  | not f =>
    obtain ⟨l, tt, te, ha, hT, hm⟩ := h
    exact ⟨l, tt, te, hst f (by simp [Call.edges]) _ ha, hT, hm⟩
  | bin op f g =>
    obtain ⟨a, b, o, x, y, ha, hb, hbin, hT, hm⟩ := h
    exact ⟨a, b, o, x, y, hst f (by simp [Call.edges]) _ ha, hst g (by simp [Call.edges]) _ hb,
      hbin, hT, hm⟩
  | ite f g h' =>
    obtain ⟨lf, ft, fe, lg, gt, ge, lh, ht, he, ha, hb, hc, h1, h2, h3, hT, hm⟩ := h
    exact ⟨lf, ft, fe, lg, gt, ge, lh, ht, he, hst f (by simp [Call.edges]) _ ha,
      hst g (by simp [Call.edges]) _ hb, hst h' (by simp [Call.edges]) _ hc, h1, h2, h3, hT, hm⟩

theorem KeyDen.stable {s s' : Store} {key : Key} {T : BDD} (hst : StableOn key.2 s s')
    (h : KeyDen s key T) : KeyDen s' key T := by
  obtain ⟨ts, hd, hs⟩ := h
  exact ⟨ts, hd.stable hst (fun _ he => he), hs⟩

theorem CallDen.le {s : Store} {c : Call} {T : BDD} {m m' : Nat} (h : CallDen s c T m)
    (hm : m ≤ m') : CallDen s c T m' := by
  cases c with
  | not f => obtain ⟨a, ha, hT, hs⟩ := h; exact ⟨a, ha, hT, by omega⟩
  | bin op f g => obtain ⟨a, b, ha, hb, hT, hs⟩ := h; exact ⟨a, b, ha, hb, hT, by omega⟩
  | ite f g h' =>
    obtain ⟨a, b, c, ha, hb, hc, hT, hs⟩ := h; exact ⟨a, b, c, ha, hb, hc, hT, by omega⟩

/-! ## the invariant of a task -/

inductive TaskOK (s : Store) : Task → BDD → Nat → Prop
  /-- finished: the result denotes the obligation -/
  | ret {r T n} : Denotes s r T → TaskOK s (.ret r) T n
  /-- at the entry of a call -/
  | call {d c T n} (m : Nat) : CallDen s c T m → W m ≤ n → TaskOK s (.call d c) T n
  /-- after a cache miss: not a terminal case, and the key is a key for the obligation -/
  | miss {d c key T n} (m : Nat) : MissDen s c T m → KeyDen s key T → 2 * W m + 4 ≤ n →
      TaskOK s (.miss d c key) T n
  /-- then-branch running: its obligation `T1`, the pending else-call computes `T0` -/
  | seq1 {fr c0 t1 T n} (T1 T0 : BDD) (n1 m0 : Nat) : TaskOK s t1 T1 n1 → CallDen s c0 T0 m0 →
      KeyDen s fr.key T → T = mk fr.lvl T1 T0 → n1 + W m0 + 3 ≤ n → TaskOK s (.seq1 fr c0 t1) T n
  /-- else-branch running, then-result held -/
  | seq0 {fr r1 t0 T n} (T1 T0 : BDD) (n0 : Nat) : Denotes s r1 T1 → TaskOK s t0 T0 n0 →
      KeyDen s fr.key T → T = mk fr.lvl T1 T0 → n0 + 2 ≤ n → TaskOK s (.seq0 fr r1 t0) T n
  /-- both branches running -/
  | par {fr t1 t0 T n} (T1 T0 : BDD) (n1 n0 : Nat) : TaskOK s t1 T1 n1 → TaskOK s t0 T0 n0 →
      KeyDen s fr.key T → T = mk fr.lvl T1 T0 → n1 + n0 + 2 ≤ n → TaskOK s (.par fr t1 t0) T n
  /-- node created, cache add pending -/
  | made {key r T n} : Denotes s r T → KeyDen s key T → 1 ≤ n → TaskOK s (.made key r) T n

/-- the budget may be increased -/
theorem TaskOK.le {s : Store} {t : Task} {T : BDD} {n n' : Nat} (h : TaskOK s t T n) (hn : n ≤ n') :
    TaskOK s t T n' := by
  cases h with
  | ret h => exact .ret h
  | call m h hw => exact .call m h (by omega)
  | miss m h hk hw => exact .miss m h hk (by omega)
  | seq1 T1 T0 n1 m0 h1 h0 hk hT hw => exact .seq1 T1 T0 n1 m0 h1 h0 hk hT (by omega)
  | seq0 T1 T0 n0 h1 h0 hk hT hw => exact .seq0 T1 T0 n0 h1 h0 hk hT (by omega)
  | par T1 T0 n1 n0 h1 h0 hk hT hw => exact .par T1 T0 n1 n0 h1 h0 hk hT (by omega)
  | made h hk hw => exact .made h hk (by omega)

/-- an unfinished task has a positive budget -/
theorem TaskOK.pos {s : Store} {t : Task} {T : BDD} {n : Nat} (h : TaskOK s t T n)
    (hr : t.ret? = none) : 1 ≤ n := by
  cases h with
  | ret h => simp [Task.ret?] at hr
  | call m h hw => have := W_pos m; omega
  | miss m h hk hw => omega
  | seq1 T1 T0 n1 m0 h1 h0 hk hT hw => omega
  | seq0 T1 T0 n0 h1 h0 hk hT hw => omega
  | par T1 T0 n1 n0 h1 h0 hk hT hw => omega
  | made h hk hw => exact hw

/-- **Stability.** The invariant of a task survives every change of the store that keeps the
denotations of the edges the task holds. -/
theorem TaskOK.stable {s s' : Store} {t : Task} {T : BDD} {n : Nat} (h : TaskOK s t T n)
    (hst : StableOn t.held s s') : TaskOK s' t T n := by
  induction h with
  | ret h => exact .ret (hst _ (by simp [Task.held]) _ h)
  | call m h hw => exact .call m (h.stable hst) hw
  | miss m h hk hw =>
    exact .miss m (h.stable (hst.subset fun e he => mem_append_l he))
      (hk.stable (hst.subset fun e he => mem_append_r he)) hw
  | seq1 T1 T0 n1 m0 _ h0 hk hT hw ih =>
    exact .seq1 T1 T0 n1 m0 (ih (hst.subset fun e he => mem_append_r (mem_append_r he)))
      (h0.stable (hst.subset fun e he => mem_append_r (mem_append_l he)))
      (hk.stable (hst.subset fun e he => mem_append_l he)) hT hw
  | seq0 T1 T0 n0 h1 _ hk hT hw ih =>
    exact .seq0 T1 T0 n0 (hst _ (mem_append_r List.mem_cons_self) _ h1)
      (ih (hst.subset fun e he => mem_append_r (List.mem_cons_of_mem _ he)))
      (hk.stable (hst.subset fun e he => mem_append_l he)) hT hw
  | par T1 T0 n1 n0 _ _ hk hT hw ih1 ih0 =>
    exact .par T1 T0 n1 n0 (ih1 (hst.subset fun e he => mem_append_r (mem_append_l he)))
      (ih0 (hst.subset fun e he => mem_append_r (mem_append_r he)))
      (hk.stable (hst.subset fun e he => mem_append_l he)) hT hw
  | made h hk hw =>
    exact .made (hst _ (by simp [Task.held]) _ h)
      (hk.stable (hst.subset fun e he => List.mem_cons_of_mem _ he)) hw

theorem TaskOK.mono {s s' : Store} {t : Task} {T : BDD} {n : Nat} (h : TaskOK s t T n)
    (hle : s.Le s') : TaskOK s' t T n := h.stable (StableOn.of_le hle)

theorem CallDen.mono {s s' : Store} {c : Call} {T : BDD} {m : Nat} (h : CallDen s c T m)
    (hle : s.Le s') : CallDen s' c T m := h.stable (StableOn.of_le hle)

theorem KeyDen.mono {s s' : Store} {key : Key} {T : BDD} (h : KeyDen s key T) (hle : s.Le s') :
    KeyDen s' key T := h.stable (StableOn.of_le hle)

/-- the recursor's fork is well-formed when both calls are -/
theorem fork_ok {s : Store} (d : Nat) (key : Key) (l : Nat) {c1 c0 : Call} {T1 T0 : BDD} {m : Nat}
    (h1 : CallDen s c1 T1 m) (h0 : CallDen s c0 T0 m) (hk : KeyDen s key (mk l T1 T0)) :
    TaskOK s (fork d ⟨key, l⟩ c1 c0) (mk l T1 T0) (2 * W m + 3) := by
  cases d with
  | zero => exact .seq1 T1 T0 (W m) m (.call m h1 (Nat.le_refl _)) h0 hk rfl (by omega)
  | succ d =>
    exact .par T1 T0 (W m) (W m) (.call m h1 (Nat.le_refl _)) (.call m h0 (Nat.le_refl _)) hk rfl
      (by omega)

end OxiddModel.Bdd.Threads
