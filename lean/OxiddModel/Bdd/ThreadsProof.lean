import OxiddModel.Bdd.ThreadsStep
import OxiddModel.Bdd.ThreadsBorrow

/-!
# The interleaving theorem: the invariant of the whole machine, kept by every step of every schedule

* `ThreadInv s th F N`: the handles of thread `th` denote trees `ts`, its running operation (if
  any) satisfies `TaskOK` with obligation `T`, and *executing the rest of the script sequentially
  on trees* from `ts` (plus `T`) yields `F` — the thread's **final specification**, fixed at the
  start: `F = evalScript script₀ ts₀`. `N` bounds the number of the thread's own remaining steps.
* `ThreadCov s th`: the borrowed edges of the running operation are reachable from the thread's
  handles (`BorrowOK`).
* `GInv c F B`: `Inv` (`Unique ∧ CacheOK`) of the shared state, "the cache is empty while a
  phased collection is going on", and `ThreadInv`, `ThreadCov` of every thread.
* `Cfg.step_ginv`: **every step** — any thread, any `par` path, an atomic collection, or a phase
  of a phased collection — keeps `GInv`; the acting thread's budget decreases (if it was not
  finished). A thread's own action only extends the store (`ActOK.le`), which keeps the
  invariants of all other threads (`TaskOK.mono`); a collection step is a `Removal` w.r.t. the
  roots (edges with a reference count), and every edge *held* by a thread is a root or reachable
  from one (`held_stable_of_removal`), hence keeps its denotation (`TaskOK.stable`). While the
  collection holds the cache locked no entry can be added (`Task.step_cache_none`), so no entry
  can refer to a node freed by a later phase.
* `Cfg.run_ginv`: hence every schedule keeps it, and a thread selected more often than its
  initial budget is finished.
-/
namespace OxiddModel.Bdd.Threads
open OxiddModel.Bdd OxiddModel.Bdd.BDD OxiddModel.Bdd.Refine

/-! ## handles -/

/-- a handle slot and its denotation: both dropped, or the edge denotes the tree -/
def SlotDen (s : Store) : Option Edge → Option BDD → Prop
  | some e, some t => Denotes s e t
  | none, none => True
  | _, _ => False

/-- the handle list denotes the list of trees, slot by slot -/
def HsDen (s : Store) (hs : List (Option Edge)) (ts : List (Option BDD)) : Prop :=
  hs.length = ts.length ∧ ∀ i, SlotDen s (hget hs i) (hget ts i)

theorem HsDen.live {s : Store} {hs : List (Option Edge)} {ts : List (Option BDD)} {i : Nat}
    {e : Edge} (h : HsDen s hs ts) (he : hget hs i = some e) :
    ∃ t, hget ts i = some t ∧ Denotes s e t := by
  have := h.2 i
  rw [he] at this
  cases ht : hget ts i with
  | none => rw [ht] at this; exact this.elim
  | some t => rw [ht] at this; exact ⟨t, rfl, this⟩

theorem HsDen.dead {s : Store} {hs : List (Option Edge)} {ts : List (Option BDD)} {i : Nat}
    (h : HsDen s hs ts) (he : hget hs i = none) : hget ts i = none := by
  have := h.2 i
  rw [he] at this
  cases ht : hget ts i with
  | none => rfl
  | some t => rw [ht] at this; exact this.elim

/-- a live slot of the specification is a live handle denoting that tree -/
theorem HsDen.get {s : Store} {hs : List (Option Edge)} {ts : List (Option BDD)} {i : Nat}
    {t : BDD} (h : HsDen s hs ts) (ht : hget ts i = some t) :
    ∃ e, hget hs i = some e ∧ Denotes s e t := by
  have := h.2 i
  rw [ht] at this
  cases he : hget hs i with
  | none => rw [he] at this; exact this.elim
  | some e => rw [he] at this; exact ⟨e, rfl, this⟩

theorem hget_append {α} (l : List (Option α)) (x : Option α) (i : Nat) :
    hget (l ++ [x]) i = if i < l.length then hget l i else if i = l.length then x else none := by
  unfold hget
  rw [List.getElem?_append]
  by_cases h1 : i < l.length
  · simp [h1]
  · simp only [h1, if_false]
    by_cases h2 : i = l.length
    · subst h2; simp
    · simp only [h2, if_false]
      have : 1 ≤ i - l.length := by omega
      rw [List.getElem?_eq_none (by simp; omega)]
      rfl

theorem hget_ge {α} (l : List (Option α)) (i : Nat) (h : l.length ≤ i) : hget l i = none := by
  unfold hget; rw [List.getElem?_eq_none h]; rfl

theorem hget_set_none {α} (l : List (Option α)) (i j : Nat) :
    hget (l.set i none) j = if i = j then none else hget l j := by
  unfold hget
  rw [List.getElem?_set]
  by_cases h : i = j
  · subst h
    simp only [if_true]
    split <;> rfl
  · simp [h]

theorem HsDen.append {s : Store} {hs : List (Option Edge)} {ts : List (Option BDD)}
    {x : Option Edge} {y : Option BDD} (h : HsDen s hs ts) (hxy : SlotDen s x y) :
    HsDen s (hs ++ [x]) (ts ++ [y]) := by
  refine ⟨by simp [h.1], fun i => ?_⟩
  rw [hget_append, hget_append, ← h.1]
  split
  · exact h.2 i
  · split
    · exact hxy
    · trivial

theorem HsDen.drop {s : Store} {hs : List (Option Edge)} {ts : List (Option BDD)} (i : Nat)
    (h : HsDen s hs ts) : HsDen s (hs.set i none) (ts.set i none) := by
  refine ⟨by simp [h.1], fun j => ?_⟩
  rw [hget_set_none, hget_set_none]
  split
  · trivial
  · exact h.2 j

theorem hget_mem {hs : List (Option Edge)} {i : Nat} {e : Edge} (h : hget hs i = some e) :
    e ∈ hs.filterMap id := by
  unfold hget at h
  cases hx : hs[i]? with
  | none => rw [hx] at h; cases h
  | some o =>
    rw [hx] at h
    simp only [Option.join] at h
    subst h
    exact List.mem_filterMap.mpr ⟨some e, List.mem_of_getElem? hx, rfl⟩

theorem HsDen.stable {s s' : Store} {hs : List (Option Edge)} {ts : List (Option BDD)}
    (h : HsDen s hs ts) (hst : StableOn (hs.filterMap id) s s') : HsDen s' hs ts := by
  refine ⟨h.1, fun i => ?_⟩
  have := h.2 i
  cases he : hget hs i with
  | none =>
    rw [he] at this
    cases ht : hget ts i with
    | none => trivial
    | some t => rw [ht] at this; exact this.elim
  | some e =>
    rw [he] at this
    cases ht : hget ts i with
    | none => rw [ht] at this; exact this.elim
    | some t => rw [ht] at this; exact hst e (hget_mem he) _ this

/-! ## budget of a script -/

/-- own steps a command needs at most once issued (the operation plus storing its result) -/
def cmdCost (ts : List (Option BDD)) : Cmd → Nat
  | .not i =>
    match hget ts i with
    | some a => W a.size + 1
    | none => 0
  | .bin _ i j =>
    match hget ts i, hget ts j with
    | some a, some b => W (a.size + b.size) + 1
    | _, _ => 0
  | .ite i j k =>
    match hget ts i, hget ts j, hget ts k with
    | some a, some b, some c => W (a.size + b.size + c.size) + 1
    | _, _, _ => 0
  | .clone _ => 0
  | .drop _ => 0

/-- **the step bound of a thread**: own steps needed at most to execute the script from handles
denoting `ts` — a function of the script and the operand *trees* only -/
def scriptBound : List Cmd → List (Option BDD) → Nat
  | [], _ => 0
  | c :: cs, ts => 1 + cmdCost ts c + scriptBound cs (evalCmd ts c)

/-! ## the invariant of a thread -/

def ThreadInv (s : Store) (th : Thread) (F : List (Option BDD)) (N : Nat) : Prop :=
  ∃ ts, HsDen s th.hs ts ∧
    match th.cur with
    | none => evalScript th.script ts = F ∧ scriptBound th.script ts ≤ N
    | some t => ∃ T n, TaskOK s t T n ∧ evalScript th.script (ts ++ [some T]) = F ∧
        n + 1 + scriptBound th.script (ts ++ [some T]) ≤ N

theorem ThreadInv.idle {s : Store} {th : Thread} {F : List (Option BDD)} {N : Nat}
    (ts : List (Option BDD)) (hhs : HsDen s th.hs ts) (hc : th.cur = none)
    (hF : evalScript th.script ts = F) (hN : scriptBound th.script ts ≤ N) : ThreadInv s th F N :=
  ⟨ts, hhs, by rw [hc]; exact ⟨hF, hN⟩⟩

theorem ThreadInv.busy {s : Store} {th : Thread} {F : List (Option BDD)} {N : Nat}
    (ts : List (Option BDD)) (hhs : HsDen s th.hs ts) (t : Task) (T : BDD) (n : Nat)
    (hc : th.cur = some t) (hok : TaskOK s t T n) (hF : evalScript th.script (ts ++ [some T]) = F)
    (hN : n + 1 + scriptBound th.script (ts ++ [some T]) ≤ N) : ThreadInv s th F N :=
  ⟨ts, hhs, by rw [hc]; exact ⟨T, n, hok, hF, hN⟩⟩

/-- a thread's invariant survives every store change that keeps the edges it holds -/
theorem ThreadInv.stable {s s' : Store} {th : Thread} {F : List (Option BDD)} {N : Nat}
    (h : ThreadInv s th F N) (hst : StableOn th.held s s') : ThreadInv s' th F N := by
  obtain ⟨ts, hhs, hcur⟩ := h
  have hhs' := hhs.stable (hst.subset fun e he => mem_append_l he)
  cases hc : th.cur with
  | none =>
    rw [hc] at hcur
    exact ThreadInv.idle ts hhs' hc hcur.1 hcur.2
  | some t =>
    rw [hc] at hcur
    obtain ⟨T, n, hok, hF, hN⟩ := hcur
    refine ThreadInv.busy ts hhs' t T n hc (hok.stable (hst.subset fun e he => ?_)) hF hN
    unfold Thread.held
    rw [hc]
    exact mem_append_r he

theorem ThreadInv.mono {s s' : Store} {th : Thread} {F : List (Option BDD)} {N : Nat}
    (h : ThreadInv s th F N) (hle : s.Le s') : ThreadInv s' th F N :=
  h.stable (StableOn.of_le hle)

theorem ThreadInv.le {s : Store} {th : Thread} {F : List (Option BDD)} {N N' : Nat}
    (h : ThreadInv s th F N) (hn : N ≤ N') : ThreadInv s th F N' := by
  obtain ⟨ts, hhs, hcur⟩ := h
  refine ⟨ts, hhs, ?_⟩
  cases hc : th.cur with
  | none => rw [hc] at hcur; exact ⟨hcur.1, by have := hcur.2; omega⟩
  | some t =>
    rw [hc] at hcur
    obtain ⟨T, n, hok, hF, hN⟩ := hcur
    exact ⟨T, n, hok, hF, by omega⟩

/-- a finished thread's handles denote the final specification -/
theorem ThreadInv.final {s : Store} {th : Thread} {F : List (Option BDD)} {N : Nat}
    (h : ThreadInv s th F N) (hd : th.done = true) : HsDen s th.hs F := by
  obtain ⟨ts, hhs, hcur⟩ := h
  simp only [Thread.done, Bool.and_eq_true, Option.isNone_iff_eq_none, List.isEmpty_iff] at hd
  rw [hd.1] at hcur
  rw [hd.2] at hcur
  simp only [evalScript] at hcur
  rw [← hcur.1]; exact hhs

/-! ## issuing a command -/

theorem Cmd.start_ok {s : Store} (th : Thread) (c : Cmd) (rest : List Cmd)
    {F : List (Option BDD)} {N : Nat} (ts : List (Option BDD)) (hhs : HsDen s th.hs ts)
    (hc : th.cur = none) (hF : evalScript (c :: rest) ts = F)
    (hN : scriptBound (c :: rest) ts ≤ N) : ThreadInv s (c.start th rest) F (N - 1) := by
  simp only [evalScript] at hF
  simp only [scriptBound] at hN
  cases c with
  | not i =>
    cases h1 : hget th.hs i with
    | none =>
      have t1 := hhs.dead h1
      simp only [Cmd.start, h1]
      simp only [evalCmd, cmdCost, t1] at hF hN
      exact ThreadInv.idle ts hhs hc hF (by dsimp only; omega)
    | some f =>
      obtain ⟨a, t1, d1⟩ := hhs.live h1
      simp only [Cmd.start, h1]
      simp only [evalCmd, cmdCost, t1] at hF hN
      exact ThreadInv.busy ts hhs _ (applyNot a) (W a.size) rfl
        (.call a.size ⟨a, d1, rfl, Nat.le_refl _⟩ (Nat.le_refl _)) hF (by dsimp only; omega)
  | bin op i j =>
    cases h1 : hget th.hs i with
    | none =>
      have t1 := hhs.dead h1
      simp only [Cmd.start, h1]
      simp only [evalCmd, cmdCost, t1] at hF hN
      exact ThreadInv.idle ts hhs hc hF (by dsimp only; omega)
    | some f =>
      obtain ⟨a, t1, d1⟩ := hhs.live h1
      cases h2 : hget th.hs j with
      | none =>
        have t2 := hhs.dead h2
        simp only [Cmd.start, h1, h2]
        simp only [evalCmd, cmdCost, t1, t2] at hF hN
        exact ThreadInv.idle ts hhs hc hF (by dsimp only; omega)
      | some g =>
        obtain ⟨b, t2, d2⟩ := hhs.live h2
        simp only [Cmd.start, h1, h2]
        simp only [evalCmd, cmdCost, t1, t2] at hF hN
        exact ThreadInv.busy ts hhs _ (applyBin op a b) (W (a.size + b.size)) rfl
          (.call _ ⟨a, b, d1, d2, rfl, Nat.le_refl _⟩ (Nat.le_refl _)) hF (by dsimp only; omega)
  | ite i j k =>
    cases h1 : hget th.hs i with
    | none =>
      have t1 := hhs.dead h1
      simp only [Cmd.start, h1]
      simp only [evalCmd, cmdCost, t1] at hF hN
      exact ThreadInv.idle ts hhs hc hF (by dsimp only; omega)
    | some f =>
      obtain ⟨a, t1, d1⟩ := hhs.live h1
      cases h2 : hget th.hs j with
      | none =>
        have t2 := hhs.dead h2
        simp only [Cmd.start, h1, h2]
        simp only [evalCmd, cmdCost, t1, t2] at hF hN
        exact ThreadInv.idle ts hhs hc hF (by dsimp only; omega)
      | some g =>
        obtain ⟨b, t2, d2⟩ := hhs.live h2
        cases h3 : hget th.hs k with
        | none =>
          have t3 := hhs.dead h3
          simp only [Cmd.start, h1, h2, h3]
          simp only [evalCmd, cmdCost, t1, t2, t3] at hF hN
          exact ThreadInv.idle ts hhs hc hF (by dsimp only; omega)
        | some h =>
          obtain ⟨c, t3, d3⟩ := hhs.live h3
          simp only [Cmd.start, h1, h2, h3]
          simp only [evalCmd, cmdCost, t1, t2, t3] at hF hN
          exact ThreadInv.busy ts hhs _ (applyIte a b c) (W (a.size + b.size + c.size)) rfl
            (.call _ ⟨a, b, c, d1, d2, d3, rfl, Nat.le_refl _⟩ (Nat.le_refl _)) hF (by dsimp only; omega)
  | clone i =>
    cases h1 : hget th.hs i with
    | none =>
      have t1 := hhs.dead h1
      simp only [Cmd.start, h1]
      simp only [evalCmd, cmdCost, t1] at hF hN
      exact ThreadInv.idle ts hhs hc hF (by dsimp only; omega)
    | some f =>
      obtain ⟨a, t1, d1⟩ := hhs.live h1
      simp only [Cmd.start, h1]
      simp only [evalCmd, cmdCost, t1] at hF hN
      exact ThreadInv.idle (ts ++ [some a]) (hhs.append d1) hc hF (by dsimp only; omega)
  | drop i =>
    simp only [Cmd.start]
    simp only [evalCmd, cmdCost] at hF hN
    exact ThreadInv.idle (ts.set i none) (hhs.drop i) hc hF (by dsimp only; omega)

/-! ## one step of a thread -/

theorem Thread.step_done {p : Policy} (st : St) (th : Thread) (path : List Bool)
    (hd : th.done = true) : th.step p st path = (none, th) := by
  simp only [Thread.done, Bool.and_eq_true, Option.isNone_iff_eq_none, List.isEmpty_iff] at hd
  simp only [Thread.step, hd.1, hd.2]

/-- **One step of a thread** keeps its invariant (same final specification `F`) and uses up one
unit of its budget; the action is admissible. -/
theorem Thread.step_ok {p : Policy} (pok : p.OK) {st : St} (hinv : Inv st) (th : Thread)
    (path : List Bool) {F : List (Option BDD)} {N : Nat} (h : ThreadInv st.store th F N) :
    ActOK st (th.step p st path).1 ∧
    ThreadInv (runOpt (th.step p st path).1 st).store (th.step p st path).2 F (N - 1) ∧
    (th.done = false → 1 ≤ N) := by
  obtain ⟨ts, hhs, hcur⟩ := h
  cases hc : th.cur with
  | some t =>
    rw [hc] at hcur
    obtain ⟨T, n, hok, hF, hN⟩ := hcur
    cases hr : t.ret? with
    | some r =>
      have := ret?_eq_some hr
      subst this
      cases hok with
      | ret hd =>
        simp only [Thread.step, hc, Task.ret?]
        exact ⟨ActOK.none st, ThreadInv.idle (ts ++ [some T]) (hhs.append hd) rfl hF (by dsimp only; omega),
          fun _ => by omega⟩
    | none =>
      have hp := hok.pos hr
      obtain ⟨n', rfl⟩ : ∃ k, n = k + 1 := ⟨n - 1, by omega⟩
      have S := Task.step_ok pok hinv t path T n' hok hr
      simp only [Thread.step, hc, hr]
      refine ⟨S.act, ?_, fun _ => by omega⟩
      have hle := S.act.le
      exact ThreadInv.busy ts ⟨hhs.1, fun i => (hhs.stable (StableOn.of_le hle)).2 i⟩ _ T n' rfl
        S.ok hF (by dsimp only; omega)
  | none =>
    rw [hc] at hcur
    cases hs : th.script with
    | nil =>
      rw [hs] at hcur
      simp only [Thread.step, hc, hs]
      refine ⟨ActOK.none st, ThreadInv.idle ts hhs hc (by rw [hs]; exact hcur.1) ?_, ?_⟩
      · rw [hs]; simp [scriptBound]
      · intro hd; simp [Thread.done, hc, hs] at hd
    | cons c rest =>
      rw [hs] at hcur
      simp only [Thread.step, hc, hs]
      refine ⟨ActOK.none st, Cmd.start_ok th c rest ts hhs hc hcur.1 hcur.2, fun _ => ?_⟩
      have := hcur.2
      simp only [scriptBound] at this
      omega

/-! ## borrowed edges -/

/-- the borrowed edges of the running operation are reachable from the thread's handles -/
def ThreadCov (s : Store) (th : Thread) : Prop :=
  match th.cur with
  | none => True
  | some t => BorrowOK s th.handles t

theorem ThreadCov.map {s s' : Store} {th : Thread}
    (hr : ∀ e, Reach s th.handles e → Reach s' th.handles e) (h : ThreadCov s th) :
    ThreadCov s' th := by
  unfold ThreadCov at *
  cases hc : th.cur with
  | none => trivial
  | some t => rw [hc] at h; exact h.map hr

theorem handles_sub_owned (th : Thread) : ∀ e, e ∈ th.handles → e ∈ th.owned :=
  fun _ he => mem_append_l he

/-- **a collection step keeps the denotation of every edge a thread holds**, although only the
edges with a reference count are roots -/
theorem held_stable_of_removal {s s' : Store} {roots : List Edge} {th : Thread}
    (hrem : Removal s s' roots) (hsub : ∀ e, e ∈ th.owned → e ∈ roots) (hcov : ThreadCov s th) :
    StableOn th.held s s' := by
  intro e he t hd
  have root_ok : e ∈ roots → Denotes s' e t :=
    fun hm => hrem.denotes_reach (O := roots) (fun _ h => h) (.root hm) hd
  unfold Thread.held at he
  rcases List.mem_append.mp he with h1 | h1
  · exact root_ok (hsub e (handles_sub_owned th e h1))
  · unfold ThreadCov at hcov
    cases hc : th.cur with
    | none => rw [hc] at h1; cases h1
    | some tk =>
      rw [hc] at h1 hcov
      rcases hcov.held e h1 with h2 | h2
      · exact root_ok (hsub e (by unfold Thread.owned; rw [hc]; exact mem_append_r h2))
      · exact hrem.denotes_reach (fun e he => hsub e (handles_sub_owned th e he)) h2 hd

theorem Cmd.start_cov {s : Store} (th : Thread) (c : Cmd) (rest : List Cmd) (hc : th.cur = none) :
    ThreadCov s (c.start th rest) := by
  have root : ∀ {i : Nat} {f : Edge}, hget th.hs i = some f → Reach s th.handles f :=
    fun h => .root (hget_mem h)
  cases c with
  | not i =>
    cases h1 : hget th.hs i with
    | none => simp [Cmd.start, h1, ThreadCov, hc]
    | some f =>
      simp only [Cmd.start, h1, ThreadCov]
      intro e he
      simp only [Call.edges, List.mem_cons, List.not_mem_nil, or_false] at he
      subst he; exact root h1
  | bin op i j =>
    cases h1 : hget th.hs i with
    | none => simp [Cmd.start, h1, ThreadCov, hc]
    | some f =>
      cases h2 : hget th.hs j with
      | none => simp [Cmd.start, h1, h2, ThreadCov, hc]
      | some g =>
        simp only [Cmd.start, h1, h2, ThreadCov]
        intro e he
        simp only [Call.edges, List.mem_cons, List.not_mem_nil, or_false] at he
        rcases he with e1 | e1 <;> subst e1
        · exact root h1
        · exact root h2
  | ite i j k =>
    cases h1 : hget th.hs i with
    | none => simp [Cmd.start, h1, ThreadCov, hc]
    | some f =>
      cases h2 : hget th.hs j with
      | none => simp [Cmd.start, h1, h2, ThreadCov, hc]
      | some g =>
        cases h3 : hget th.hs k with
        | none => simp [Cmd.start, h1, h2, h3, ThreadCov, hc]
        | some h =>
          simp only [Cmd.start, h1, h2, h3, ThreadCov]
          intro e he
          simp only [Call.edges, List.mem_cons, List.not_mem_nil, or_false] at he
          rcases he with e1 | e1 | e1 <;> subst e1
          · exact root h1
          · exact root h2
          · exact root h3
  | clone i => cases h1 : hget th.hs i <;> simp [Cmd.start, h1, ThreadCov, hc]
  | drop i => simp [Cmd.start, ThreadCov, hc]

/-- one step of a thread keeps `ThreadCov` (`hle`: the step only extends the store) -/
theorem Thread.step_cov {p : Policy} {st : St} (th : Thread) (path : List Bool)
    (h : ThreadCov st.store th)
    (hle : st.store.Le (runOpt (th.step p st path).1 st).store) :
    ThreadCov (runOpt (th.step p st path).1 st).store (th.step p st path).2 := by
  unfold ThreadCov at h
  cases hc : th.cur with
  | some t =>
    rw [hc] at h
    cases hr : t.ret? with
    | some r => simp only [Thread.step, hc, hr, ThreadCov]
    | none =>
      simp only [Thread.step, hc, hr] at hle ⊢
      exact Task.step_borrow t path h hle
  | none =>
    cases hs : th.script with
    | nil => simp only [Thread.step, hc, hs, ThreadCov]
    | cons c rest =>
      simp only [Thread.step, hc, hs]
      exact Cmd.start_cov th c rest hc

/-! ## the cache is unusable while a collection holds it locked -/

theorem effPol_ok {p : Policy} (pok : p.OK) (b : Bool) : (effPol p b).OK := by
  cases b
  · exact pok
  · exact Policy.none_ok

/-- the kinds of actions a task performs -/
def ActKind (p : Policy) (o : Option Action) : Prop :=
  o = none ∨ o = some .cacheGet ∨ (∃ l a b, o = some (.mk l a b)) ∨
    ∃ k r, o = some (.cacheAdd p k r)

theorem query_kind (p : Policy) (st : St) (d : Nat) (c : Call) (key : Key) :
    ActKind p (query p st d c key).1 := by
  unfold query; split <;> exact .inr (.inl rfl)

theorem entry_kind (p : Policy) (st : St) (d : Nat) (c : Call) : ActKind p (c.entry p st d).1 := by
  cases c with
  | not f =>
    cases f with
    | term b => exact .inl rfl
    | inner i => exact query_kind p st d _ _
  | bin op f g =>
    simp only [Call.entry]
    cases terminalBinS op f g with
    | done h => exact .inl rfl
    | notOf h => exact .inl rfl
    | binary tag o1 o2 => exact query_kind p st d _ _
  | ite f g h =>
    simp only [Call.entry]
    repeat' split
    all_goals first
      | exact .inl rfl
      | exact query_kind p st d _ _

theorem Task.step_kind (p : Policy) (st : St) (t : Task) :
    ∀ path, ActKind p (t.step p st path).1 := by
  induction t with
  | ret r => intro _; exact .inl rfl
  | call d c => intro _; exact entry_kind p st d c
  | miss d c key => intro _; exact .inl rfl
  | made key r => intro _; exact .inr (.inr (.inr ⟨key, r, rfl⟩))
  | seq1 fr c0 t1 ih =>
    intro path
    simp only [Task.step]
    cases t1.ret? with
    | some r1 => exact .inl rfl
    | none => exact ih path
  | seq0 fr r1 t0 ih =>
    intro path
    simp only [Task.step]
    cases t0.ret? with
    | some r0 => exact .inr (.inr (.inl ⟨_, _, _, rfl⟩))
    | none => exact ih path
  | par fr t1 t0 ih1 ih0 =>
    intro path
    simp only [Task.step]
    split
    · exact .inr (.inr (.inl ⟨_, _, _, rfl⟩))
    · split
      · exact ih1 path.tail
      · exact ih0 path.tail

theorem ActKind.cache_none {o : Option Action} (h : ActKind Policy.none o) (st : St) :
    (runOpt o st).cache = st.cache := by
  rcases h with h | h | ⟨l, a, b, h⟩ | ⟨k, r, h⟩ <;> subst h <;> rfl

/-- **while the cache is locked, no step of a thread changes it** -/
theorem Thread.step_cache_none (st : St) (th : Thread) (path : List Bool) :
    (runOpt (th.step Policy.none st path).1 st).cache = st.cache := by
  unfold Thread.step
  cases th.cur with
  | some t =>
    simp only
    cases t.ret? with
    | some r => rfl
    | none => exact (Task.step_kind Policy.none st t path).cache_none st
  | none =>
    simp only
    cases th.script with
    | nil => rfl
    | cons c rest => rfl

/-! ## the invariant of the machine -/

/-- `F i`: final specification of thread `i`; `B i`: its remaining step budget -/
def GInv (c : Cfg) (F : Nat → List (Option BDD)) (B : Nat → Nat) : Prop :=
  Inv c.st ∧ (c.gcActive = true → c.st.cache = []) ∧
  ∀ i th, c.threads[i]? = some th →
    ThreadInv c.st.store th (F i) (B i) ∧ ThreadCov c.st.store th

theorem owned_sub_roots {c : Cfg} {i : Nat} {th : Thread} (h : c.threads[i]? = some th) :
    ∀ e, e ∈ th.owned → e ∈ c.roots :=
  fun _ he => List.mem_flatMap.mpr ⟨th, List.mem_of_getElem? h, he⟩

/-- the budget function after a step -/
def stepB (c : Cfg) (B : Nat → Nat) : Sel → Nat → Nat
  | .thread tid _, i => if i = tid ∧ tid < c.threads.length then B i - 1 else B i
  | _, i => B i

/-- a collection step (atomic, or one level): all threads keep their invariants -/
theorem removal_threads {c : Cfg} {s' : Store} {F : Nat → List (Option BDD)} {B : Nat → Nat}
    (hrem : Removal c.st.store s' c.roots)
    (hth : ∀ i th, c.threads[i]? = some th →
      ThreadInv c.st.store th (F i) (B i) ∧ ThreadCov c.st.store th) :
    ∀ i th, c.threads[i]? = some th → ThreadInv s' th (F i) (B i) ∧ ThreadCov s' th := by
  intro i th hi
  obtain ⟨h1, h2⟩ := hth i th hi
  have hsub := owned_sub_roots hi
  exact ⟨h1.stable (held_stable_of_removal hrem hsub h2),
    h2.map fun e hr => hrem.reach (fun e he => hsub e (handles_sub_owned th e he)) hr⟩

/-- **Every step of the machine keeps the invariant**: a step of any thread along any `par` path,
an atomic collection, or any phase of a phased collection, with the current root set. -/
theorem Cfg.step_ginv {p : Policy} (pok : p.OK) {c : Cfg} {F : Nat → List (Option BDD)}
    {B : Nat → Nat} (h : GInv c F B) (sel : Sel) : GInv (c.step p sel) F (stepB c B sel) := by
  obtain ⟨hinv, hgc, hth⟩ := h
  cases sel with
  | gc =>
    have hrem := sweep_removal c.st.store c.roots
    refine ⟨⟨hrem.unique hinv.1, CacheOK.nil _⟩, fun _ => rfl, ?_⟩
    exact removal_threads (c := c) hrem hth
  | gcBegin => exact ⟨⟨hinv.1, CacheOK.nil _⟩, fun _ => rfl, hth⟩
  | gcEnd =>
    refine ⟨hinv, ?_, hth⟩
    intro h
    change false = true at h
    cases h
  | gcLevel l =>
    cases ha : c.gcActive with
    | false =>
      have e : c.step p (.gcLevel l) = c := by simp [Cfg.step, ha]
      rw [e]
      exact ⟨hinv, hgc, hth⟩
    | true =>
      have e : c.step p (.gcLevel l) =
          { c with st := { c.st with store := sweepLevel c.st.store c.roots l } } := by
        simp [Cfg.step, ha]
      rw [e]
      have hrem := sweepLevel_removal c.st.store c.roots l
      have hc := hgc ha
      refine ⟨⟨hrem.unique hinv.1, ?_⟩, fun _ => hc, ?_⟩
      · show CacheOK _ c.st.cache
        rw [hc]; exact CacheOK.nil _
      · exact removal_threads (c := c) hrem hth
  | thread tid path =>
    simp only [Cfg.step]
    cases ht : c.threads[tid]? with
    | none =>
      have hlen : ¬ tid < c.threads.length := by
        intro hl; rw [List.getElem?_eq_getElem hl] at ht; cases ht
      refine ⟨hinv, hgc, fun i th hi => ?_⟩
      simp only [stepB, hlen, and_false, if_false]
      exact hth i th hi
    | some th =>
      have hlen : tid < c.threads.length := by
        apply Classical.byContradiction; intro hl
        rw [List.getElem?_eq_none (by omega)] at ht; cases ht
      obtain ⟨hact, hti, _⟩ :=
        Thread.step_ok (effPol_ok pok c.gcActive) hinv th path (hth tid th ht).1
      have hcov := Thread.step_cov (p := effPol p c.gcActive) th path (hth tid th ht).2 hact.le
      refine ⟨hact.inv hinv, ?_, fun i th' hi => ?_⟩
      · intro ha
        have ha' : c.gcActive = true := ha
        show (runOpt (th.step (effPol p c.gcActive) c.st path).1 c.st).cache = []
        rw [ha']
        exact (Thread.step_cache_none c.st th path).trans (hgc ha')
      · simp only [stepB, hlen, and_true]
        simp only [List.getElem?_set] at hi
        by_cases hit : tid = i
        · subst hit
          simp only [if_true, hlen] at hi
          cases hi
          simp only [if_true]
          exact ⟨hti, hcov⟩
        · simp only [hit, if_false] at hi
          have : ¬ i = tid := fun e => hit e.symm
          simp only [this, if_false]
          exact ⟨(hth i th' hi).1.mono hact.le, (hth i th' hi).2.map fun e hr => hr.mono hact.le⟩

theorem Cfg.step_length {p : Policy} (c : Cfg) (sel : Sel) :
    (c.step p sel).threads.length = c.threads.length := by
  cases sel with
  | gc => rfl
  | gcBegin => rfl
  | gcEnd => rfl
  | gcLevel l => simp only [Cfg.step]; split <;> rfl
  | thread tid path =>
    simp only [Cfg.step]
    cases c.threads[tid]? with
    | none => rfl
    | some th => simp

theorem Cfg.run_length {p : Policy} (c : Cfg) (sched : List Sel) :
    (c.run p sched).threads.length = c.threads.length := by
  induction sched generalizing c with
  | nil => rfl
  | cons s ss ih => simp only [Cfg.run]; rw [ih, Cfg.step_length]

/-- the collector never touches the threads -/
theorem Cfg.step_threads {p : Policy} (c : Cfg) (sel : Sel) (h : ∀ tid path, sel ≠ .thread tid path) :
    (c.step p sel).threads = c.threads := by
  cases sel with
  | gc => rfl
  | gcBegin => rfl
  | gcEnd => rfl
  | gcLevel l => simp only [Cfg.step]; split <;> rfl
  | thread tid path => exact absurd rfl (h tid path)

/-- a finished thread stays as it is, whatever the others do -/
theorem Cfg.step_done {p : Policy} (c : Cfg) (sel : Sel) {i : Nat} {th : Thread}
    (hi : c.threads[i]? = some th) (hd : th.done = true) : (c.step p sel).threads[i]? = some th := by
  cases sel with
  | gc => exact hi
  | gcBegin => exact hi
  | gcEnd => exact hi
  | gcLevel l => rw [Cfg.step_threads c _ (fun _ _ h => by cases h)]; exact hi
  | thread tid path =>
    simp only [Cfg.step]
    cases ht : c.threads[tid]? with
    | none => exact hi
    | some th' =>
      simp only [List.getElem?_set]
      by_cases hit : tid = i
      · subst hit
        rw [hi] at ht; cases ht
        rw [Thread.step_done c.st th path hd]
        have hlen : tid < c.threads.length := by
          apply Classical.byContradiction; intro hl
          rw [List.getElem?_eq_none (by omega)] at hi; cases hi
        simp [hlen]
      · simp only [hit, if_false]; exact hi

theorem Cfg.run_done {p : Policy} (c : Cfg) (sched : List Sel) {i : Nat} {th : Thread}
    (hi : c.threads[i]? = some th) (hd : th.done = true) : (c.run p sched).threads[i]? = some th := by
  induction sched generalizing c with
  | nil => exact hi
  | cons s ss ih => exact ih _ (Cfg.step_done c s hi hd)

/-- **Every schedule keeps the invariant**, and every thread that is not finished at the end has
used up one unit of its budget for every time it was selected. -/
theorem Cfg.run_ginv {p : Policy} (pok : p.OK) (sched : List Sel) :
    ∀ {c : Cfg} {F : Nat → List (Option BDD)} {B : Nat → Nat}, GInv c F B →
      ∃ B', GInv (c.run p sched) F B' ∧
        ∀ i th, (c.run p sched).threads[i]? = some th → th.done = true ∨
          B' i + selCount i sched ≤ B i := by
  induction sched with
  | nil =>
    intro c F B h
    exact ⟨B, h, fun i th _ => .inr (by simp [selCount])⟩
  | cons s ss ih =>
    intro c F B h
    have h1 := Cfg.step_ginv pok h s
    obtain ⟨B', hB', hcount⟩ := ih h1
    refine ⟨B', hB', fun i th hi => ?_⟩
    simp only [Cfg.run] at hi
    rcases hcount i th hi with hd | hle
    · exact .inl hd
    · cases s with
      | gc => exact .inr (by simpa [selCount, stepB] using hle)
      | gcBegin => exact .inr (by simpa [selCount, stepB] using hle)
      | gcEnd => exact .inr (by simpa [selCount, stepB] using hle)
      | gcLevel l => exact .inr (by simpa [selCount, stepB] using hle)
      | thread tid path =>
        simp only [selCount]
        by_cases hit : tid = i
        · subst hit
          simp only [if_true]
          -- thread `tid` exists in `c` (lengths are preserved)
          have hlen : tid < c.threads.length := by
            have h1 : tid < (((c.step p (.thread tid path)).run p ss).threads).length := by
              apply Classical.byContradiction; intro hl
              rw [List.getElem?_eq_none (by omega)] at hi; cases hi
            rwa [Cfg.run_length, Cfg.step_length] at h1
          have hget : c.threads[tid]? = some c.threads[tid] := List.getElem?_eq_getElem hlen
          by_cases hd : (c.threads[tid]).done = true
          · -- finished before the step: stays the same thread
            have := Cfg.run_done (p := p) c (.thread tid path :: ss) hget hd
            simp only [Cfg.run] at this
            rw [this] at hi; cases hi
            exact .inl hd
          · have hpos := (Thread.step_ok (effPol_ok pok c.gcActive) h.1 _ path
              (h.2.2 tid _ hget).1).2.2 (by simpa using hd)
            simp only [stepB, hlen, and_true, if_true] at hle
            exact .inr (by omega)
        · simp only [hit, if_false]
          have : ¬ i = tid := fun e => hit e.symm
          simp only [stepB, this, false_and, if_false] at hle
          exact .inr (by omega)

end OxiddModel.Bdd.Threads
