import OxiddModel.Bdd.ThreadsProof

/-!
# From the machine invariant to statements about initial configurations and schedules

* `Init c ts0`: an initial configuration (hash-consed store, sound cache, no operation in
  progress, every handle of thread `i` denotes the tree `ts0 i` lists for it);
  `ginv_init`: it satisfies `GInv` with the final specifications
  `specF i = evalScript script_i (ts0 i)` and budgets `specB i = scriptBound script_i (ts0 i)`.
* handles are never modified except by the owner's `drop` (`Cfg.run_hget`), and the sequential
  specification keeps undropped slots (`evalScript_keeps`).
* `fairSched`: a schedule giving every thread more slots than its budget, with `selCount_fair`.
-/
namespace OxiddModel.Bdd.Threads
open OxiddModel.Bdd OxiddModel.Bdd.BDD OxiddModel.Bdd.Refine

/-! ## initial configurations -/

structure Init (c : Cfg) (ts0 : Nat → List (Option BDD)) : Prop where
  unique : c.st.store.Unique
  cache : CacheOK c.st.store c.st.cache
  /-- no collection is going on (or, if one is, it has cleared the cache) -/
  nogc : c.gcActive = true → c.st.cache = []
  idle : ∀ (i : Nat) (th : Thread), c.threads[i]? = some th → th.cur = none
  handles : ∀ (i : Nat) (th : Thread), c.threads[i]? = some th → HsDen c.st.store th.hs (ts0 i)

/-- the final specification of thread `i`: its script executed sequentially on trees -/
def specF (c : Cfg) (ts0 : Nat → List (Option BDD)) (i : Nat) : List (Option BDD) :=
  match c.threads[i]? with
  | some th => evalScript th.script (ts0 i)
  | none => []

/-- the step budget of thread `i` -/
def specB (c : Cfg) (ts0 : Nat → List (Option BDD)) (i : Nat) : Nat :=
  match c.threads[i]? with
  | some th => scriptBound th.script (ts0 i)
  | none => 0

theorem ginv_init {c : Cfg} {ts0 : Nat → List (Option BDD)} (h : Init c ts0) :
    GInv c (specF c ts0) (specB c ts0) :=
  ⟨⟨h.unique, h.cache⟩, h.nogc, fun i th hi =>
    ⟨ThreadInv.idle (ts0 i) (h.handles i th hi) (h.idle i th hi) (by simp only [specF, hi])
      (by simp only [specB, hi]; exact Nat.le_refl _),
     by unfold ThreadCov; rw [h.idle i th hi]; trivial⟩⟩

theorem getElem?_some_of_lt {α} {l : List α} {i : Nat} (h : i < l.length) :
    ∃ a, l[i]? = some a := ⟨l[i], List.getElem?_eq_getElem h⟩

theorem lt_of_getElem?_some {α} {l : List α} {i : Nat} {a : α} (h : l[i]? = some a) :
    i < l.length := by
  apply Classical.byContradiction; intro hl
  rw [List.getElem?_eq_none (by omega)] at h; cases h

/-! ## undropped handles stay what they are -/

/-- the script never drops slot `j` -/
def NoDrop (sc : List Cmd) (j : Nat) : Prop := ∀ c, c ∈ sc → c ≠ .drop j

theorem hget_append_some {α} {l : List (Option α)} {j : Nat} {a : α} (x : Option α)
    (h : hget l j = some a) : hget (l ++ [x]) j = some a := by
  rw [hget_append]
  have : j < l.length := by
    apply Classical.byContradiction; intro hl
    rw [hget_ge l j (by omega)] at h; cases h
  simp [this, h]

theorem evalCmd_keeps {ts : List (Option BDD)} {j : Nat} {t : BDD} (c : Cmd)
    (h : hget ts j = some t) (hc : c ≠ .drop j) : hget (evalCmd ts c) j = some t := by
  cases c with
  | not i => simp only [evalCmd]; split <;> first | exact hget_append_some _ h | exact h
  | bin op i k => simp only [evalCmd]; split <;> first | exact hget_append_some _ h | exact h
  | ite i k l => simp only [evalCmd]; split <;> first | exact hget_append_some _ h | exact h
  | clone i => simp only [evalCmd]; split <;> first | exact hget_append_some _ h | exact h
  | drop i =>
    simp only [evalCmd]
    rw [hget_set_none]
    have : ¬ i = j := fun e => hc (by rw [e])
    simp [this, h]

/-- the sequential specification keeps every slot the script does not drop -/
theorem evalScript_keeps {sc : List Cmd} {ts : List (Option BDD)} {j : Nat} {t : BDD}
    (h : hget ts j = some t) (hnd : NoDrop sc j) : hget (evalScript sc ts) j = some t := by
  induction sc generalizing ts with
  | nil => exact h
  | cons c cs ih =>
    simp only [evalScript]
    exact ih (evalCmd_keeps c h (hnd c List.mem_cons_self))
      (fun c' hc' => hnd c' (List.mem_cons_of_mem _ hc'))

theorem Cmd.start_hget (th : Thread) (c : Cmd) (rest : List Cmd) {j : Nat} {e : Edge}
    (h : hget th.hs j = some e) (hc : c ≠ .drop j) :
    hget (c.start th rest).hs j = some e ∧ (c.start th rest).script = rest := by
  cases c with
  | not i => cases h1 : hget th.hs i <;> simp [Cmd.start, h1, h]
  | bin op i k =>
    cases h1 : hget th.hs i <;> cases h2 : hget th.hs k <;> simp [Cmd.start, h1, h2, h]
  | ite i k l =>
    cases h1 : hget th.hs i <;> cases h2 : hget th.hs k <;> cases h3 : hget th.hs l <;>
      simp [Cmd.start, h1, h2, h3, h]
  | clone i => cases h1 : hget th.hs i <;> simp [Cmd.start, h1, h, hget_append_some _ h]
  | drop i =>
    have : ¬ i = j := fun e => hc (by rw [e])
    simp [Cmd.start, hget_set_none, this, h]

/-- a step of a thread leaves a handle it will never drop untouched -/
theorem Thread.step_hget {p : Policy} (st : St) (th : Thread) (path : List Bool) {j : Nat}
    {e : Edge} (h : hget th.hs j = some e) (hnd : NoDrop th.script j) :
    hget (th.step p st path).2.hs j = some e ∧ NoDrop (th.step p st path).2.script j := by
  unfold Thread.step
  cases hc : th.cur with
  | some t =>
    simp only
    cases hr : t.ret? with
    | some r => exact ⟨hget_append_some _ h, hnd⟩
    | none => exact ⟨h, hnd⟩
  | none =>
    simp only
    cases hs : th.script with
    | nil => exact ⟨h, hnd⟩
    | cons c rest =>
      simp only
      rw [hs] at hnd
      have := Cmd.start_hget th c rest h (hnd c List.mem_cons_self)
      exact ⟨this.1, by rw [this.2]; exact fun c' hc' => hnd c' (List.mem_cons_of_mem _ hc')⟩

theorem Cfg.step_hget {p : Policy} (c : Cfg) (sel : Sel) {i j : Nat} {th : Thread} {e : Edge}
    (hi : c.threads[i]? = some th) (h : hget th.hs j = some e) (hnd : NoDrop th.script j) :
    ∃ th', (c.step p sel).threads[i]? = some th' ∧ hget th'.hs j = some e ∧
      NoDrop th'.script j := by
  cases sel with
  | gc => exact ⟨th, hi, h, hnd⟩
  | gcBegin => exact ⟨th, hi, h, hnd⟩
  | gcEnd => exact ⟨th, hi, h, hnd⟩
  | gcLevel l => exact ⟨th, by rw [Cfg.step_threads c _ (fun _ _ h => by cases h)]; exact hi, h, hnd⟩
  | thread tid path =>
    simp only [Cfg.step]
    cases ht : c.threads[tid]? with
    | none => exact ⟨th, hi, h, hnd⟩
    | some th1 =>
      simp only [List.getElem?_set]
      by_cases hit : tid = i
      · subst hit
        rw [hi] at ht; cases ht
        have hlen := lt_of_getElem?_some hi
        have := Thread.step_hget (p := effPol p c.gcActive) c.st th path h hnd
        exact ⟨_, by simp [hlen], this.1, this.2⟩
      · simp only [hit, if_false]; exact ⟨th, hi, h, hnd⟩

/-- **handles are private**: whatever the other threads and the collector do, a handle its owner
never drops is the very same edge at the end -/
theorem Cfg.run_hget {p : Policy} (c : Cfg) (sched : List Sel) {i j : Nat} {th : Thread}
    {e : Edge} (hi : c.threads[i]? = some th) (h : hget th.hs j = some e)
    (hnd : NoDrop th.script j) :
    ∃ th', (c.run p sched).threads[i]? = some th' ∧ hget th'.hs j = some e := by
  induction sched generalizing c th with
  | nil => exact ⟨th, hi, h⟩
  | cons s ss ih =>
    obtain ⟨th1, h1, h2, h3⟩ := Cfg.step_hget (p := p) c s hi h hnd
    exact ih _ h1 h2 h3

/-! ## completion -/

theorem allDone_iff (c : Cfg) :
    c.allDone = true ↔ ∀ (i : Nat) (th : Thread), c.threads[i]? = some th → th.done = true := by
  simp only [Cfg.allDone, List.all_eq_true]
  constructor
  · intro h i th hi; exact h th (List.mem_of_getElem? hi)
  · intro h th hm
    obtain ⟨i, hi⟩ := List.mem_iff_getElem?.mp hm
    exact h i th hi

/-! ## a fair schedule -/

theorem selCount_append (tid : Nat) (a b : List Sel) :
    selCount tid (a ++ b) = selCount tid a + selCount tid b := by
  induction a with
  | nil => simp [selCount]
  | cons s ss ih =>
    cases s with
    | gc => simp only [List.cons_append, selCount, ih]
    | gcBegin => simp only [List.cons_append, selCount, ih]
    | gcEnd => simp only [List.cons_append, selCount, ih]
    | gcLevel l => simp only [List.cons_append, selCount, ih]
    | thread i π => simp only [List.cons_append, selCount, ih]; omega

theorem selCount_replicate (tid i : Nat) (n : Nat) :
    selCount tid (List.replicate n (.thread i [])) = if i = tid then n else 0 := by
  induction n with
  | zero => simp [selCount]
  | succ n ih =>
    simp only [List.replicate, selCount, ih]
    split <;> omega

/-- thread `i`, `i+1`, … get `b + 1` consecutive slots each, for the budgets `b` listed -/
def fairFrom : Nat → List Nat → List Sel
  | _, [] => []
  | i, b :: bs => List.replicate (b + 1) (.thread i []) ++ fairFrom (i + 1) bs

theorem selCount_fairFrom (bs : List Nat) : ∀ (i k b : Nat), bs[k]? = some b →
    b + 1 ≤ selCount (i + k) (fairFrom i bs) := by
  induction bs with
  | nil => intro i k b h; simp at h
  | cons b0 bs ih =>
    intro i k b h
    simp only [fairFrom, selCount_append, selCount_replicate]
    cases k with
    | zero =>
      simp only [List.getElem?_cons_zero, Option.some.injEq] at h
      subst h
      simp
    | succ k =>
      simp only [List.getElem?_cons_succ] at h
      have := ih (i + 1) k b h
      have e : i + 1 + k = i + (k + 1) := by omega
      rw [e] at this
      omega

/-- a schedule without collections that gives every thread more slots than its budget -/
def fairSched (c : Cfg) (ts0 : Nat → List (Option BDD)) : List Sel :=
  fairFrom 0 (c.threads.mapIdx fun i th => scriptBound th.script (ts0 i))

theorem selCount_fair (c : Cfg) (ts0 : Nat → List (Option BDD)) {i : Nat} {th : Thread}
    (hi : c.threads[i]? = some th) :
    scriptBound th.script (ts0 i) < selCount i (fairSched c ts0) := by
  have := selCount_fairFrom (c.threads.mapIdx fun i th => scriptBound th.script (ts0 i)) 0 i
    (scriptBound th.script (ts0 i)) (by simp [List.getElem?_mapIdx, hi])
  simp only [Nat.zero_add] at this
  exact this

end OxiddModel.Bdd.Threads
