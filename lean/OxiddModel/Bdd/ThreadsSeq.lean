import OxiddModel.Bdd.ThreadsProof

/-!
# The machine's program text is that of `notS/applyS/iteS`

A task running **alone** with the sequential recursor (`d = 0`), i.e. the sequential schedule of
the machine, goes through exactly the states of the functional algorithms of `ApplyS.lean`:
started at `call 0 c` in state `st` it reaches `ret r` in state `st'` where `(st', r)` is the
value of `notS` / `applyS op` / `iteS` — **the same store, the same cache, the same time stamp and
the same edge** (not only the same denotation). `Steps` is the solo small-step relation;
`Cfg.run_solo` transfers it to the machine with one thread.
-/
namespace OxiddModel.Bdd.Threads
open OxiddModel.Bdd OxiddModel.Bdd.BDD OxiddModel.Bdd.Refine

/-- solo execution of a task (no other thread, no collector, empty `par` path) -/
inductive Steps (p : Policy) : St → Task → St → Task → Prop
  | refl (st : St) (t : Task) : Steps p st t st t
  | step {st : St} {t : Task} {st' : St} {t' : Task} : t.ret? = none →
      Steps p (runOpt (t.step p st []).1 st) (t.step p st []).2 st' t' → Steps p st t st' t'

theorem Steps.head {p : Policy} {st st' : St} {t t' : Task} (hr : t.ret? = none)
    {a : Option Action} {t1 : Task} (he : t.step p st [] = (a, t1))
    (h : Steps p (runOpt a st) t1 st' t') : Steps p st t st' t' :=
  .step hr (by rw [he]; exact h)

theorem Steps.trans {p : Policy} {s1 s2 s3 : St} {t1 t2 t3 : Task} (h1 : Steps p s1 t1 s2 t2)
    (h2 : Steps p s2 t2 s3 t3) : Steps p s1 t1 s3 t3 := by
  induction h1 with
  | refl => exact h2
  | step hr _ ih => exact .step hr (ih h2)

theorem Steps.seq1 {p : Policy} (fr : Frame) (c0 : Call) {st st' : St} {t t' : Task}
    (h : Steps p st t st' t') : Steps p st (.seq1 fr c0 t) st' (.seq1 fr c0 t') := by
  induction h with
  | refl => exact .refl _ _
  | step hr _ ih => exact .head rfl (by simp only [Task.step, hr]) ih

theorem Steps.seq0 {p : Policy} (fr : Frame) (r1 : Edge) {st st' : St} {t t' : Task}
    (h : Steps p st t st' t') : Steps p st (.seq0 fr r1 t) st' (.seq0 fr r1 t') := by
  induction h with
  | refl => exact .refl _ _
  | step hr _ ih => exact .head rfl (by simp only [Task.step, hr]) ih

/-- a frame of the sequential recursor: then-call, else-call, `reduce`, cache add = `finishS` -/
theorem Steps.frame {p : Policy} (fr : Frame) (c1 c0 : Call) {st1 : St} {R1 R0 : St × Edge}
    (h1 : Steps p st1 (.call 0 c1) R1.1 (.ret R1.2))
    (h0 : Steps p R1.1 (.call 0 c0) R0.1 (.ret R0.2)) :
    Steps p st1 (.seq1 fr c0 (.call 0 c1)) (finishS p R0.1 fr.key fr.lvl R1.2 R0.2).1
      (.ret (finishS p R0.1 fr.key fr.lvl R1.2 R0.2).2) := by
  refine (h1.seq1 fr c0).trans ?_
  refine .head rfl (a := none) (t1 := .seq0 fr R1.2 (.call 0 c0)) rfl ?_
  refine (h0.seq0 fr R1.2).trans ?_
  refine .head rfl (a := some (.mk fr.lvl R1.2 R0.2))
    (t1 := .made fr.key (R0.1.store.mkNode fr.lvl R1.2 R0.2).2) rfl ?_
  exact .head rfl (a := some (.cacheAdd p fr.key (R0.1.store.mkNode fr.lvl R1.2 R0.2).2))
    (t1 := .ret (R0.1.store.mkNode fr.lvl R1.2 R0.2).2) rfl (.refl _ _)

theorem query_hit {p : Policy} {st : St} {key : Key} {r : Edge} (d : Nat) (c : Call)
    (h : p.get st.tick st.cache key = some r) : query p st d c key = (some .cacheGet, .ret r) := by
  simp only [query, h]

theorem query_miss {p : Policy} {st : St} {key : Key} (d : Nat) (c : Call)
    (h : p.get st.tick st.cache key = none) :
    query p st d c key = (some .cacheGet, .miss d c key) := by
  simp only [query, h]

/-! ## `apply_not` -/

theorem notS_steps {p : Policy} (pok : p.OK) (fuel : Nat) : ∀ (st : St) (f : Edge) (a : BDD),
    Inv st → Denotes st.store f a → a.size ≤ fuel →
    Steps p st (.call 0 (.not f)) (notS p fuel st f).1 (.ret (notS p fuel st f).2) := by
  induction fuel with
  | zero =>
    intro st f a _ _ hsz
    have := size_pos a
    omega
  | succ fuel ih =>
    intro st f a hinv hf hsz
    cases hf with
    | @term x => exact .head rfl (a := none) (t1 := .ret (.term (!x))) rfl (.refl _ _)
    | @inner i l t e tt te hi hft hfe =>
      simp only [notS]
      cases hq : p.get st.tick st.cache (.not, [.inner i]) with
      | some h =>
        exact .head rfl (query_hit 0 _ hq) (.refl _ _)
      | none =>
        simp only [hi]
        simp only [BDD.size] at hsz
        have p1 := notS_spec pok fuel st.tickd t tt hinv.tickd hft (by omega)
        refine .head rfl (query_miss 0 _ hq) ?_
        refine .head rfl (a := none)
          (t1 := .seq1 ⟨(.not, [.inner i]), l⟩ (.not e) (.call 0 (.not t))) ?_ ?_
        · show (none, Call.expand st.store 0 _ (.not (.inner i))) = _
          simp only [Call.expand, hi, fork]
        · exact Steps.frame ⟨(.not, [.inner i]), l⟩ (.not t) (.not e)
            (ih st.tickd t tt hinv.tickd hft (by omega))
            (ih _ e te p1.inv (hfe.mono p1.le) (by omega))

/-! ## `apply_bin::<OP>` -/

theorem applyS_steps {p : Policy} (pok : p.OK) (op : Op) (fuel : Nat) :
    ∀ (st : St) (f g : Edge) (a b : BDD),
    Inv st → Denotes st.store f a → Denotes st.store g b → a.size + b.size ≤ fuel →
    Steps p st (.call 0 (.bin op f g)) (applyS p op fuel st f g).1
      (.ret (applyS p op fuel st f g).2) := by
  induction fuel with
  | zero =>
    intro st f g a b _ _ _ hsz
    have := size_pos a
    omega
  | succ fuel ih =>
    intro st f g a b hinv hf hg hsz
    have hinj := inj_of_unique hinv.1
    have hc := terminalBinS_corr op hinj hf hg
    have hsa := size_pos a
    have hsb := size_pos b
    simp only [applyS]
    cases hS : terminalBinS op f g with
    | done e =>
      exact .head rfl (a := none) (t1 := .ret e) (by simp only [Task.step, Call.entry, hS])
        (.refl _ _)
    | notOf e =>
      cases hT : terminalBin op a b with
      | done t => rw [hS, hT] at hc; exact hc.elim
      | notOf t =>
        rw [hS, hT] at hc
        have hsh := terminalBin_shape op a b
        rw [hT] at hsh
        have : t.size ≤ fuel := by
          rcases hsh with h | h <;> subst h <;> omega
        exact .head rfl (a := none) (t1 := .call 0 (.not e))
          (by simp only [Task.step, Call.entry, hS]) (notS_steps pok fuel st e t hinv hc this)
      | binary o x y => rw [hS, hT] at hc; exact hc.elim
    | binary tag o1 o2 =>
      cases hT : terminalBin op a b with
      | done t => rw [hS, hT] at hc; exact hc.elim
      | notOf t => rw [hS, hT] at hc; exact hc.elim
      | binary o x y =>
        simp only
        have hentry : (Task.call 0 (.bin op f g)).step p st [] =
            query p st 0 (.bin op f g) (tag, [o1, o2]) := by
          simp only [Task.step, Call.entry, hS]
        cases hq : p.get st.tick st.cache (tag, [o1, o2]) with
        | some h =>
          exact .head rfl (hentry.trans (query_hit 0 _ hq)) (.refl _ _)
        | none =>
          have hsp := terminalBin_spec op a b
          rw [hT] at hsp
          obtain ⟨_, _, _, hla, hlb⟩ := hsp
          cases a with
          | leaf _ => simp [isLeaf] at hla
          | node lf ft fe =>
          cases b with
          | leaf _ => simp [isLeaf] at hlb
          | node lg gt ge =>
          rw [level?_denotes hf, level?_denotes hg]
          simp only
          have hmin : min lf lg = lf ∨ min lf lg = lg := by omega
          have sz1 : (tcofT (min lf lg) (.node lf ft fe)).size +
              (tcofT (min lf lg) (.node lg gt ge)).size ≤ fuel := by
            have h1 := tcofT_size_le (min lf lg) (.node lf ft fe)
            have h2 := tcofT_size_le (min lf lg) (.node lg gt ge)
            rcases hmin with h | h <;> rw [h] at h1 h2 ⊢
            · have := tcofT_size_lt lf ft fe; omega
            · have := tcofT_size_lt lg gt ge; omega
          have sz0 : (tcofE (min lf lg) (.node lf ft fe)).size +
              (tcofE (min lf lg) (.node lg gt ge)).size ≤ fuel := by
            have h1 := tcofE_size_le (min lf lg) (.node lf ft fe)
            have h2 := tcofE_size_le (min lf lg) (.node lg gt ge)
            rcases hmin with h | h <;> rw [h] at h1 h2 ⊢
            · have := tcofE_size_lt lf ft fe; omega
            · have := tcofE_size_lt lg gt ge; omega
          have p1 := applyS_spec pok op fuel st.tickd _ _ _ _ hinv.tickd
            (cofT_denotes (min lf lg) hf) (cofT_denotes (min lf lg) hg) sz1
          refine .head rfl (hentry.trans (query_miss 0 _ hq)) ?_
          refine .head rfl (a := none)
            (t1 := .seq1 ⟨(tag, [o1, o2]), min lf lg⟩
              (.bin op (st.store.cofE (min lf lg) f) (st.store.cofE (min lf lg) g))
              (.call 0 (.bin op (st.store.cofT (min lf lg) f) (st.store.cofT (min lf lg) g))))
            ?_ ?_
          · show (none, Call.expand st.store 0 _ (.bin op f g)) = _
            simp only [Call.expand, level?_denotes hf, level?_denotes hg, fork]
          · exact Steps.frame ⟨(tag, [o1, o2]), min lf lg⟩ _ _
              (ih st.tickd _ _ _ _ hinv.tickd (cofT_denotes (min lf lg) hf)
                (cofT_denotes (min lf lg) hg) sz1)
              (ih _ _ _ _ _ p1.inv ((cofE_denotes (min lf lg) hf).mono p1.le)
                ((cofE_denotes (min lf lg) hg).mono p1.le) sz0)

/-! ## `apply_ite` -/

theorem iteS_steps {p : Policy} (pok : p.OK) (fuel : Nat) :
    ∀ (st : St) (f g h : Edge) (a b c : BDD),
    Inv st → Denotes st.store f a → Denotes st.store g b → Denotes st.store h c →
    a.size + b.size + c.size ≤ fuel →
    Steps p st (.call 0 (.ite f g h)) (iteS p fuel st f g h).1 (.ret (iteS p fuel st f g h).2) := by
  induction fuel with
  | zero =>
    intro st f g h a b c _ _ _ _ hsz
    have := size_pos a
    omega
  | succ fuel ih =>
    intro st f g h a b c hinv hf hg hh hsz
    have hinj := inj_of_unique hinv.1
    have hsa := size_pos a
    have hsb := size_pos b
    have hsc := size_pos c
    -- delegation to a binary operator on two of the operands
    have deleg : ∀ (op : Op) (x y : Edge) (tx ty : BDD), Denotes st.store x tx →
        Denotes st.store y ty → tx.size + ty.size ≤ fuel →
        (Task.call 0 (.ite f g h)).step p st [] = (none, .call 0 (.bin op x y)) →
        Steps p st (.call 0 (.ite f g h)) (applyS p op fuel st x y).1
          (.ret (applyS p op fuel st x y).2) :=
      fun op x y tx ty hx hy hs he =>
        .head rfl he (applyS_steps pok op fuel st x y tx ty hinv hx hy hs)
    simp only [iteS]
    by_cases hgh : g = h
    · subst hgh
      simp only [if_true]
      exact .head rfl (a := none) (t1 := .ret g) (by simp only [Task.step, Call.entry, if_true])
        (.refl _ _)
    · have hbc : b ≠ c := fun e => hgh (hinj _ _ _ hg (e ▸ hh))
      simp only [hgh, if_false]
      by_cases hfg : f = g
      · subst hfg
        have := Denotes.functional hf hg
        subst this
        simp only [if_true]
        exact deleg .or f h a c hf hh (by omega)
          (by simp only [Task.step, Call.entry, hgh, if_false, if_true])
      · have hab : a ≠ b := fun e => hfg (hinj _ _ _ hf (e ▸ hg))
        simp only [hfg, if_false]
        by_cases hfh : f = h
        · subst hfh
          have := Denotes.functional hf hh
          subst this
          simp only [if_true]
          exact deleg .and f g a b hf hg (by omega)
            (by simp only [Task.step, Call.entry, hgh, hfg, if_false, if_true])
        · have hac : a ≠ c := fun e => hfh (hinj _ _ _ hf (e ▸ hh))
          simp only [hfh, if_false]
          cases hf with
          | @term x =>
            simp only
            exact .head rfl (a := none) (t1 := .ret (if x then g else h))
              (by simp only [Task.step, Call.entry, hgh, hfg, hfh, if_false]) (.refl _ _)
          | @inner i l t e tt te hi hft hfe =>
            have hdf : Denotes st.store (.inner i) (.node l tt te) := .inner hi hft hfe
            cases hg with
            | @term y =>
              cases hh with
              | @term z =>
                cases y <;> cases z <;> first
                  | exact absurd rfl hgh
                  | (simp only [Bool.false_eq_true, if_false]
                     exact .head rfl (a := none) (t1 := .call 0 (.not (.inner i)))
                       (by simp only [Task.step, Call.entry, hgh, hfg, hfh, if_false,
                         Bool.false_eq_true])
                       (notS_steps pok fuel st _ _ hinv hdf (by omega)))
                  | (simp only [if_true]
                     exact .head rfl (a := none) (t1 := .ret (.inner i))
                       (by simp only [Task.step, Call.entry, hgh, hfg, hfh, if_false, if_true])
                       (.refl _ _))
              | @inner k l'' t'' e'' tt'' te'' hk hht hhe =>
                have hdh : Denotes st.store (.inner k) (.node l'' tt'' te'') := .inner hk hht hhe
                cases y
                · simp only
                  exact deleg .impStrict _ _ _ _ hdf hdh (by omega)
                    (by simp only [Task.step, Call.entry, hgh, hfg, hfh, if_false])
                · simp only
                  exact deleg .or _ _ _ _ hdf hdh (by omega)
                    (by simp only [Task.step, Call.entry, hgh, hfg, hfh, if_false])
            | @inner j l' t' e' tt' te' hj hgt hge =>
              have hdg : Denotes st.store (.inner j) (.node l' tt' te') := .inner hj hgt hge
              cases hh with
              | @term z =>
                cases z
                · simp only
                  exact deleg .and _ _ _ _ hdf hdg (by omega)
                    (by simp only [Task.step, Call.entry, hgh, hfg, hfh, if_false])
                · simp only
                  exact deleg .imp _ _ _ _ hdf hdg (by omega)
                    (by simp only [Task.step, Call.entry, hgh, hfg, hfh, if_false])
              | @inner k l'' t'' e'' tt'' te'' hk hht hhe =>
                have hdh : Denotes st.store (.inner k) (.node l'' tt'' te'') := .inner hk hht hhe
                simp only
                have hentry : (Task.call 0 (.ite (.inner i) (.inner j) (.inner k))).step p st [] =
                    query p st 0 (.ite (.inner i) (.inner j) (.inner k))
                      (.ite, [.inner i, .inner j, .inner k]) := by
                  simp only [Task.step, Call.entry, hgh, hfg, hfh, if_false]
                cases hq : p.get st.tick st.cache (.ite, [.inner i, .inner j, .inner k]) with
                | some r =>
                  exact .head rfl (hentry.trans (query_hit 0 _ hq)) (.refl _ _)
                | none =>
                  rw [level?_denotes hdf, level?_denotes hdg, level?_denotes hdh]
                  simp only
                  generalize hl : min (min l l') l'' = m
                  have hmin : m = l ∨ m = l' ∨ m = l'' := by omega
                  have ha1 := tcofT_size_le m (.node l tt te)
                  have hb1 := tcofT_size_le m (.node l' tt' te')
                  have hc1 := tcofT_size_le m (.node l'' tt'' te'')
                  have ha0 := tcofE_size_le m (.node l tt te)
                  have hb0 := tcofE_size_le m (.node l' tt' te')
                  have hc0 := tcofE_size_le m (.node l'' tt'' te'')
                  have sz : (tcofT m (.node l tt te)).size + (tcofT m (.node l' tt' te')).size +
                      (tcofT m (.node l'' tt'' te'')).size ≤ fuel ∧
                      (tcofE m (.node l tt te)).size + (tcofE m (.node l' tt' te')).size +
                      (tcofE m (.node l'' tt'' te'')).size ≤ fuel := by
                    rcases hmin with h | h | h <;> subst h
                    · have := tcofT_size_lt m tt te; have := tcofE_size_lt m tt te; omega
                    · have := tcofT_size_lt m tt' te'; have := tcofE_size_lt m tt' te'; omega
                    · have := tcofT_size_lt m tt'' te''; have := tcofE_size_lt m tt'' te''; omega
                  have p1 := iteS_spec pok fuel st.tickd _ _ _ _ _ _ hinv.tickd (cofT_denotes m hdf)
                    (cofT_denotes m hdg) (cofT_denotes m hdh) sz.1
                  refine .head rfl (hentry.trans (query_miss 0 _ hq)) ?_
                  refine .head rfl (a := none)
                    (t1 := .seq1 ⟨(.ite, [.inner i, .inner j, .inner k]), m⟩
                      (.ite (st.store.cofE m (.inner i)) (st.store.cofE m (.inner j))
                        (st.store.cofE m (.inner k)))
                      (.call 0 (.ite (st.store.cofT m (.inner i)) (st.store.cofT m (.inner j))
                        (st.store.cofT m (.inner k))))) ?_ ?_
                  · show (none, Call.expand st.store 0 _ (.ite (.inner i) (.inner j) (.inner k))) = _
                    simp only [Call.expand, level?_denotes hdf, level?_denotes hdg,
                      level?_denotes hdh, fork, hl]
                  · exact Steps.frame ⟨(.ite, [.inner i, .inner j, .inner k]), m⟩ _ _
                      (ih st.tickd _ _ _ _ _ _ hinv.tickd (cofT_denotes m hdf) (cofT_denotes m hdg)
                        (cofT_denotes m hdh) sz.1)
                      (ih _ _ _ _ _ _ _ p1.inv ((cofE_denotes m hdf).mono p1.le)
                        ((cofE_denotes m hdg).mono p1.le) ((cofE_denotes m hdh).mono p1.le) sz.2)

/-! ## transfer to the machine -/

/-- a machine with one thread whose operation `t` runs alone: the thread's steps are the solo
steps of the task -/
theorem Cfg.run_solo {p : Policy} {st st' : St} {t t' : Task} (h : Steps p st t st' t')
    (d : Nat) (hs : List (Option Edge)) (sc : List Cmd) :
    ∃ n, (Cfg.run p ⟨st, [⟨d, hs, sc, some t⟩], false⟩ (List.replicate n (.thread 0 []))) =
      ⟨st', [⟨d, hs, sc, some t'⟩], false⟩ := by
  induction h with
  | refl => exact ⟨0, rfl⟩
  | @step st t st' t' hr _ ih =>
    obtain ⟨n, hn⟩ := ih
    refine ⟨n + 1, ?_⟩
    simp only [List.replicate, Cfg.run]
    rw [← hn]
    congr 1
    simp [Cfg.step, Thread.step, hr, effPol]

end OxiddModel.Bdd.Threads
