import OxiddModel.Bdd.ThreadsInv

/-!
# Every step of a task keeps its invariant and uses up one unit of its budget

`Task.step_ok`: in a shared state satisfying `Inv` (`Unique ∧ CacheOK`), one step of a task with
invariant `TaskOK st.store t T (n+1)` performs an action whose precondition (`Action.Pre`, for the
cache add: the entry is sound) holds and which is not a collection, and afterwards the task
satisfies `TaskOK st'.store t' T n` — same obligation `T`, one step less. The proof follows
`notS_spec/applyS_spec/iteS_spec` case by case, but *one atomic action at a time*: between any two
steps the store may have been changed arbitrarily within `StableOn` (see `TaskOK.stable`).
-/
namespace OxiddModel.Bdd.Threads
open OxiddModel.Bdd OxiddModel.Bdd.BDD OxiddModel.Bdd.Refine

/-- the actions of user threads: everything but the collection -/
def NotGc : Action → Prop
  | .gc _ => False
  | _ => True

/-- the actions a thread performs only extend the store -/
theorem notGc_le {a : Action} (h : NotGc a) (st : St) : st.store.Le (a.run st).store := by
  cases a with
  | mk l t e => exact mkNode_le _ _ _ _
  | cacheGet => exact Store.Le.refl _
  | cacheAdd p k r => exact Store.Le.refl _
  | cacheClear => exact Store.Le.refl _
  | gc roots => exact h.elim

/-- an optional action is admissible in `st` -/
def ActOK (st : St) (o : Option Action) : Prop := ∀ a, o = some a → a.Pre st ∧ NotGc a

theorem ActOK.none (st : St) : ActOK st none := fun _ h => by cases h

theorem ActOK.le {st : St} {o : Option Action} (h : ActOK st o) : st.store.Le (runOpt o st).store := by
  cases o with
  | none => exact Store.Le.refl _
  | some a => exact notGc_le (h a rfl).2 st

/-- by `step_guarantee` -/
theorem ActOK.inv {st : St} {o : Option Action} (h : ActOK st o) (hinv : Inv st) :
    Inv (runOpt o st) := by
  cases o with
  | none => exact hinv
  | some a =>
    cases a with
    | gc roots => exact (h _ rfl).2.elim
    | mk l t e => exact (step_guarantee (.mk l t e) st [] hinv (h _ rfl).1 trivial).1
    | cacheGet => exact (step_guarantee .cacheGet st [] hinv (h _ rfl).1 trivial).1
    | cacheAdd p k r => exact (step_guarantee (.cacheAdd p k r) st [] hinv (h _ rfl).1 trivial).1
    | cacheClear => exact (step_guarantee .cacheClear st [] hinv (h _ rfl).1 trivial).1

/-- what a step of a task with obligation `T` and budget `n + 1` achieves -/
structure StepOK (st : St) (o : Out) (T : BDD) (n : Nat) : Prop where
  /-- the action's precondition holds; it is not a collection -/
  act : ActOK st o.1
  /-- the task's invariant afterwards: same obligation, one step less -/
  ok : TaskOK (runOpt o.1 st).store o.2 T n

theorem StepOK.local {st : St} {t : Task} {T : BDD} {n : Nat} (h : TaskOK st.store t T n) :
    StepOK st (none, t) T n := ⟨ActOK.none st, h⟩

/-! ## cache query -/

theorem query_ok {p : Policy} (pok : p.OK) {st : St} (hinv : Inv st) (d : Nat) (c : Call)
    (key : Key) {T : BDD} {n : Nat} (m : Nat) (hm : MissDen st.store c T m)
    (hk : KeyDen st.store key T) (hw : 2 * W m + 4 ≤ n) : StepOK st (query p st d c key) T n := by
  unfold query
  split
  · rename_i r hr
    refine ⟨fun a ha => by cases ha; exact ⟨trivial, trivial⟩, ?_⟩
    obtain ⟨ts, hd, hs⟩ := hk
    exact .ret ((hinv.2 _ _ (pok.get_mem _ _ _ _ hr)).hit hd hs)
  · exact ⟨fun a ha => by cases ha; exact ⟨trivial, trivial⟩, .miss m hm hk hw⟩

/-! ## entry of a call -/

theorem size_node_pos (l : Nat) (t e : BDD) : 3 ≤ (BDD.node l t e).size := by
  have := size_pos t; have := size_pos e; simp only [BDD.size]; omega

theorem entry_not_ok {p : Policy} (pok : p.OK) {st : St} (hinv : Inv st) (d : Nat) (f : Edge)
    {T : BDD} {n m : Nat} (h : CallDen st.store (.not f) T m) (hw : W m ≤ n + 1) :
    StepOK st ((Call.not f).entry p st d) T n := by
  obtain ⟨a, ha, hT, hm⟩ := h
  subst hT
  cases ha with
  | term => exact StepOK.local (.ret .term)
  | @inner i l t e tt te hi ht he =>
    have hdf : Denotes st.store (.inner i) (.node l tt te) := .inner hi ht he
    simp only [Call.entry]
    simp only [BDD.size] at hm
    obtain ⟨m', rfl⟩ : ∃ m', m = m' + 1 := ⟨m - 1, by omega⟩
    simp only [W] at hw
    exact query_ok pok hinv d _ _ m' ⟨l, tt, te, hdf, rfl, by omega⟩ ⟨_, DenotesL.one hdf, rfl⟩
      (by omega)

theorem entry_bin_ok {p : Policy} (pok : p.OK) {st : St} (hinv : Inv st) (d : Nat) (op : Op)
    (f g : Edge) {T : BDD} {n m : Nat} (h : CallDen st.store (.bin op f g) T m)
    (hw : W m ≤ n + 1) : StepOK st ((Call.bin op f g).entry p st d) T n := by
  obtain ⟨a, b, hf, hg, hT, hm⟩ := h
  subst hT
  have hinj := inj_of_unique hinv.1
  have hc := terminalBinS_corr op hinj hf hg
  have hsa := size_pos a
  have hsb := size_pos b
  obtain ⟨m', rfl⟩ : ∃ m', m = m' + 1 := ⟨m - 1, by omega⟩
  have hw' : W m' ≤ n := by have := W_le_succ m'; omega
  simp only [Call.entry]
  cases hS : terminalBinS op f g with
  | done e =>
    cases hT : terminalBin op a b with
    | done t =>
      rw [hS, hT] at hc
      rw [applyBin_done hT]
      exact StepOK.local (.ret hc)
    | notOf t => rw [hS, hT] at hc; exact hc.elim
    | binary o x y => rw [hS, hT] at hc; exact hc.elim
  | notOf e =>
    cases hT : terminalBin op a b with
    | done t => rw [hS, hT] at hc; exact hc.elim
    | notOf t =>
      rw [hS, hT] at hc
      rw [applyBin_notOf hT]
      have hsh := terminalBin_shape op a b
      rw [hT] at hsh
      have : t.size ≤ m' := by
        rcases hsh with h | h <;> subst h <;> omega
      exact StepOK.local (.call m' ⟨t, hc, rfl, this⟩ hw')
    | binary o x y => rw [hS, hT] at hc; exact hc.elim
  | binary tag o1 o2 =>
    cases hT : terminalBin op a b with
    | done t => rw [hS, hT] at hc; exact hc.elim
    | notOf t => rw [hS, hT] at hc; exact hc.elim
    | binary o x y =>
      rw [hS, hT] at hc
      obtain ⟨htag, _, _, _, hkey⟩ := hc
      subst htag
      have hkd : KeyDen st.store (tagOf op, [o1, o2]) (applyBin op a b) := by
        rcases hkey with ⟨h1, h2⟩ | ⟨hcm, h1, h2⟩
        · subst h1 h2; exact ⟨_, DenotesL.two hf hg, specOf_tagOf op a b⟩
        · subst h1 h2
          exact ⟨_, DenotesL.two hg hf, by rw [specOf_tagOf, applyBin_comm op hcm]⟩
      simp only [W] at hw
      exact query_ok pok hinv d _ _ m' ⟨a, b, o, x, y, hf, hg, hT, rfl, hm⟩ hkd (by omega)

theorem entry_ite_ok {p : Policy} (pok : p.OK) {st : St} (hinv : Inv st) (d : Nat)
    (f g h : Edge) {T : BDD} {n m : Nat} (hcd : CallDen st.store (.ite f g h) T m)
    (hw : W m ≤ n + 1) : StepOK st ((Call.ite f g h).entry p st d) T n := by
  obtain ⟨a, b, c, hf, hg, hh, hT, hm⟩ := hcd
  subst hT
  have hinj := inj_of_unique hinv.1
  have hsa := size_pos a
  have hsb := size_pos b
  have hsc := size_pos c
  obtain ⟨m', rfl⟩ : ∃ m', m = m' + 1 := ⟨m - 1, by omega⟩
  have hw' : W m' ≤ n := by have := W_le_succ m'; omega
  -- a delegated binary operation on two of the operands
  have deleg : ∀ (op : Op) (x y : Edge) (tx ty : BDD), Denotes st.store x tx →
      Denotes st.store y ty → tx.size + ty.size ≤ m' →
      StepOK st (none, .call d (.bin op x y)) (applyBin op tx ty) n :=
    fun op x y tx ty hx hy hs => StepOK.local (.call m' ⟨tx, ty, hx, hy, rfl, hs⟩ hw')
  simp only [Call.entry]
  by_cases hgh : g = h
  · subst hgh
    have := Denotes.functional hg hh
    subst this
    simp only [if_true]
    rw [applyIte_gh]
    exact StepOK.local (.ret hg)
  · have hbc : b ≠ c := fun e => hgh (hinj _ _ _ hg (e ▸ hh))
    simp only [hgh, if_false]
    by_cases hfg : f = g
    · subst hfg
      have := Denotes.functional hf hg
      subst this
      simp only [if_true]
      rw [applyIte_fg hbc]
      exact deleg .or f h a c hf hh (by omega)
    · have hab : a ≠ b := fun e => hfg (hinj _ _ _ hf (e ▸ hg))
      simp only [hfg, if_false]
      by_cases hfh : f = h
      · subst hfh
        have := Denotes.functional hf hh
        subst this
        simp only [if_true]
        rw [applyIte_fh hab]
        exact deleg .and f g a b hf hg (by omega)
      · have hac : a ≠ c := fun e => hfh (hinj _ _ _ hf (e ▸ hh))
        simp only [hfh, if_false]
        cases hf with
        | @term x =>
          simp only
          rw [applyIte_leaf hbc hab hac]
          cases x
          · exact StepOK.local (.ret hh)
          · exact StepOK.local (.ret hg)
        | @inner i l t e tt te hi hft hfe =>
          have hdf : Denotes st.store (.inner i) (.node l tt te) := .inner hi hft hfe
          cases hg with
          | @term y =>
            cases hh with
            | @term z =>
              cases y <;> cases z <;> first
                | exact absurd rfl hgh
                | (simp only [Bool.false_eq_true, if_false]
                   rw [applyIte.eq_def]; simp only [hbc, hab, hac, if_false, Bool.false_eq_true]
                   exact StepOK.local (.call m' ⟨_, hdf, rfl, by omega⟩ hw'))
                | (simp only [if_true]
                   rw [applyIte.eq_def]; simp only [hbc, hab, hac, if_false, if_true]
                   exact StepOK.local (.ret hdf))
            | @inner k l'' t'' e'' tt'' te'' hk hht hhe =>
              have hdh : Denotes st.store (.inner k) (.node l'' tt'' te'') := .inner hk hht hhe
              cases y
              · simp only
                rw [applyIte.eq_def]; simp only [hbc, hab, hac, if_false]
                exact deleg .impStrict _ _ _ _ hdf hdh (by omega)
              · simp only
                rw [applyIte.eq_def]; simp only [hbc, hab, hac, if_false]
                exact deleg .or _ _ _ _ hdf hdh (by omega)
          | @inner j l' t' e' tt' te' hj hgt hge =>
            have hdg : Denotes st.store (.inner j) (.node l' tt' te') := .inner hj hgt hge
            cases hh with
            | @term z =>
              cases z
              · simp only
                rw [applyIte.eq_def]; simp only [hbc, hab, hac, if_false]
                exact deleg .and _ _ _ _ hdf hdg (by omega)
              · simp only
                rw [applyIte.eq_def]; simp only [hbc, hab, hac, if_false]
                exact deleg .imp _ _ _ _ hdf hdg (by omega)
            | @inner k l'' t'' e'' tt'' te'' hk hht hhe =>
              have hdh : Denotes st.store (.inner k) (.node l'' tt'' te'') := .inner hk hht hhe
              simp only
              simp only [W] at hw
              exact query_ok pok hinv d _ _ m'
                ⟨l, tt, te, l', tt', te', l'', tt'', te'', hdf, hdg, hdh, hbc, hab, hac, rfl, hm⟩
                ⟨_, DenotesL.three hdf hdg hdh, rfl⟩ (by omega)

theorem entry_ok {p : Policy} (pok : p.OK) {st : St} (hinv : Inv st) (d : Nat) (c : Call)
    {T : BDD} {n m : Nat} (h : CallDen st.store c T m) (hw : W m ≤ n + 1) :
    StepOK st (c.entry p st d) T n := by
  cases c with
  | not f => exact entry_not_ok pok hinv d f h hw
  | bin op f g => exact entry_bin_ok pok hinv d op f g h hw
  | ite f g h' => exact entry_ite_ok pok hinv d f g h' h hw

/-! ## expansion after a miss -/

theorem expand_ok {s : Store} (d : Nat) (key : Key) (c : Call) {T : BDD} {m : Nat}
    (hm : MissDen s c T m) (hk : KeyDen s key T) : TaskOK s (c.expand s d key) T (2 * W m + 3) := by
  cases c with
  | not f =>
    obtain ⟨l, tt, te, hf, hT, hsz⟩ := hm
    subst hT
    cases hf with
    | @inner i _ t e _ _ hi ht he =>
      simp only [Call.expand, hi]
      have target : applyNot (.node l tt te) = mk l (applyNot tt) (applyNot te) := rfl
      rw [target] at hk ⊢
      exact fork_ok d key l ⟨tt, ht, rfl, by omega⟩ ⟨te, he, rfl, by omega⟩ hk
  | bin op f g =>
    obtain ⟨a, b, o, x, y, hf, hg, hT, hTT, hsz⟩ := hm
    subst hTT
    have hsp := terminalBin_spec op a b
    rw [hT] at hsp
    obtain ⟨_, _, _, hla, hlb⟩ := hsp
    cases a with
    | leaf _ => simp [isLeaf] at hla
    | node lf ft fe =>
    cases b with
    | leaf _ => simp [isLeaf] at hlb
    | node lg gt ge =>
    simp only [Call.expand]
    rw [level?_denotes hf, level?_denotes hg]
    simp only
    rw [applyBin_binary hT] at hk ⊢
    generalize hl : min lf lg = l at hk ⊢
    have hmin : l = lf ∨ l = lg := by omega
    have h1a := tcofT_size_le l (.node lf ft fe)
    have h1b := tcofT_size_le l (.node lg gt ge)
    have h0a := tcofE_size_le l (.node lf ft fe)
    have h0b := tcofE_size_le l (.node lg gt ge)
    have sz : (tcofT l (.node lf ft fe)).size + (tcofT l (.node lg gt ge)).size ≤ m ∧
        (tcofE l (.node lf ft fe)).size + (tcofE l (.node lg gt ge)).size ≤ m := by
      rcases hmin with h | h <;> subst h
      · have := tcofT_size_lt l ft fe; have := tcofE_size_lt l ft fe; omega
      · have := tcofT_size_lt l gt ge; have := tcofE_size_lt l gt ge; omega
    exact fork_ok d key l
      ⟨_, _, cofT_denotes l hf, cofT_denotes l hg, rfl, sz.1⟩
      ⟨_, _, cofE_denotes l hf, cofE_denotes l hg, rfl, sz.2⟩ hk
  | ite f g h =>
    obtain ⟨lf, ft, fe, lg, gt, ge, lh, ht, he, hf, hg, hh, hbc, hab, hac, hT, hsz⟩ := hm
    subst hT
    simp only [Call.expand]
    rw [level?_denotes hf, level?_denotes hg, level?_denotes hh]
    simp only
    rw [applyIte_rec hbc hab hac] at hk ⊢
    generalize hl : min (min lf lg) lh = l at hk ⊢
    have hmin : l = lf ∨ l = lg ∨ l = lh := by omega
    have ha1 := tcofT_size_le l (.node lf ft fe)
    have hb1 := tcofT_size_le l (.node lg gt ge)
    have hc1 := tcofT_size_le l (.node lh ht he)
    have ha0 := tcofE_size_le l (.node lf ft fe)
    have hb0 := tcofE_size_le l (.node lg gt ge)
    have hc0 := tcofE_size_le l (.node lh ht he)
    have sz : (tcofT l (.node lf ft fe)).size + (tcofT l (.node lg gt ge)).size +
        (tcofT l (.node lh ht he)).size ≤ m ∧
        (tcofE l (.node lf ft fe)).size + (tcofE l (.node lg gt ge)).size +
        (tcofE l (.node lh ht he)).size ≤ m := by
      rcases hmin with h | h | h <;> subst h
      · have := tcofT_size_lt l ft fe; have := tcofE_size_lt l ft fe; omega
      · have := tcofT_size_lt l gt ge; have := tcofE_size_lt l gt ge; omega
      · have := tcofT_size_lt l ht he; have := tcofE_size_lt l ht he; omega
    exact fork_ok d key l
      ⟨_, _, _, cofT_denotes l hf, cofT_denotes l hg, cofT_denotes l hh, rfl, sz.1⟩
      ⟨_, _, _, cofE_denotes l hf, cofE_denotes l hg, cofE_denotes l hh, rfl, sz.2⟩ hk

/-! ## `reduce` and cache add -/

theorem ret?_eq_some {t : Task} {r : Edge} (h : t.ret? = some r) : t = .ret r := by
  cases t <;> simp [Task.ret?] at h
  subst h; rfl

theorem reduce_ok {st : St} (hinv : Inv st) (fr : Frame) {r1 r0 : Edge} {T1 T0 T : BDD} {n : Nat}
    (h1 : Denotes st.store r1 T1) (h0 : Denotes st.store r0 T0) (hk : KeyDen st.store fr.key T)
    (hT : T = mk fr.lvl T1 T0) (hn : 1 ≤ n) : StepOK st (reduceOut st fr r1 r0) T n := by
  subst hT
  refine ⟨fun a ha => by cases ha; exact ⟨trivial, trivial⟩, ?_⟩
  have lem := mkNode_le st.store fr.lvl r1 r0
  exact .made (mkNode_denotes st.store fr.lvl r1 r0 T1 T0 h1 h0 (inj_of_unique hinv.1))
    (hk.mono lem) hn

/-! ## the step theorem -/

/-- **One step of a task.** Obligation kept, budget decreased, action admissible. -/
theorem Task.step_ok {p : Policy} (pok : p.OK) {st : St} (hinv : Inv st) (t : Task) :
    ∀ (path : List Bool) (T : BDD) (n : Nat), TaskOK st.store t T (n + 1) → t.ret? = none →
      StepOK st (t.step p st path) T n := by
  induction t with
  | ret r => intro _ _ _ _ hr; simp [Task.ret?] at hr
  | call d c =>
    intro path T n h _
    cases h with
    | call m hc hw => exact entry_ok pok hinv d c hc hw
  | miss d c key =>
    intro path T n h _
    cases h with
    | miss m hm hk hw => exact StepOK.local ((expand_ok d key c hm hk).le (by omega))
  | made key r =>
    intro path T n h _
    cases h with
    | made hd hk hw =>
      obtain ⟨ts, hds, hs⟩ := hk
      exact ⟨fun a ha => by cases ha; exact ⟨⟨pok, ts, T, hds, hs, hd⟩, trivial⟩, .ret hd⟩
  | seq1 fr c0 t1 ih =>
    intro path T n h _
    cases h with
    | seq1 T1 T0 n1 m0 h1 h0 hk hT hw =>
      simp only [Task.step]
      cases hr : t1.ret? with
      | some r1 =>
        have := ret?_eq_some hr
        subst this
        cases h1 with
        | ret hd =>
          exact StepOK.local (.seq0 T1 T0 (W m0) hd (.call m0 h0 (Nat.le_refl _)) hk hT (by omega))
      | none =>
        have hp := h1.pos hr
        obtain ⟨n1', rfl⟩ : ∃ k, n1 = k + 1 := ⟨n1 - 1, by omega⟩
        have S := ih path T1 n1' h1 hr
        have hle := S.act.le
        exact ⟨S.act, .seq1 T1 T0 n1' m0 S.ok (h0.mono hle) (hk.mono hle) hT (by omega)⟩
  | seq0 fr r1 t0 ih =>
    intro path T n h _
    cases h with
    | seq0 T1 T0 n0 h1 h0 hk hT hw =>
      simp only [Task.step]
      cases hr : t0.ret? with
      | some r0 =>
        have := ret?_eq_some hr
        subst this
        cases h0 with
        | ret hd => exact reduce_ok hinv fr h1 hd hk hT (by omega)
      | none =>
        have hp := h0.pos hr
        obtain ⟨n0', rfl⟩ : ∃ k, n0 = k + 1 := ⟨n0 - 1, by omega⟩
        have S := ih path T0 n0' h0 hr
        have hle := S.act.le
        exact ⟨S.act, .seq0 T1 T0 n0' (h1.mono hle) S.ok (hk.mono hle) hT (by omega)⟩
  | par fr t1 t0 ih1 ih0 =>
    intro path T n h _
    cases h with
    | par T1 T0 n1 n0 h1 h0 hk hT hw =>
      simp only [Task.step]
      -- the branch that moves is not finished
      have left : t1.ret? = none → StepOK st
          ((t1.step p st path.tail).1, .par fr (t1.step p st path.tail).2 t0) T n := by
        intro hr
        have hp := h1.pos hr
        obtain ⟨n1', rfl⟩ : ∃ k, n1 = k + 1 := ⟨n1 - 1, by omega⟩
        have S := ih1 path.tail T1 n1' h1 hr
        have hle := S.act.le
        exact ⟨S.act, .par T1 T0 n1' n0 S.ok (h0.mono hle) (hk.mono hle) hT (by omega)⟩
      have right : t0.ret? = none → StepOK st
          ((t0.step p st path.tail).1, .par fr t1 (t0.step p st path.tail).2) T n := by
        intro hr
        have hp := h0.pos hr
        obtain ⟨n0', rfl⟩ : ∃ k, n0 = k + 1 := ⟨n0 - 1, by omega⟩
        have S := ih0 path.tail T0 n0' h0 hr
        have hle := S.act.le
        exact ⟨S.act, .par T1 T0 n1 n0' (h1.mono hle) S.ok (hk.mono hle) hT (by omega)⟩
      cases hr1 : t1.ret? with
      | some r1 =>
        cases hr0 : t0.ret? with
        | some r0 =>
          have e1 := ret?_eq_some hr1
          have e0 := ret?_eq_some hr0
          subst e1 e0
          cases h1 with
          | ret hd1 =>
            cases h0 with
            | ret hd0 => exact reduce_ok hinv fr hd1 hd0 hk hT (by omega)
        | none =>
          simp only [pickLeft, hr1, hr0]
          exact right hr0
      | none =>
        cases hr0 : t0.ret? with
        | some r0 =>
          simp only [pickLeft, hr1, hr0]
          exact left hr1
        | none =>
          simp only [pickLeft, hr1, hr0]
          split
          · exact left hr1
          · exact right hr0

end OxiddModel.Bdd.Threads
