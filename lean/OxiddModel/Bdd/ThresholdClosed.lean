import OxiddModel.Bdd.ThresholdQ
import OxiddModel.Bdd.CanonX

/-!
# `needed` of `quant`, `restrict`, `substitute` as a function of the store and the operand trees

`ThresholdQ.lean` characterises the out-of-memory threshold by `needed` = growth of the uncapped
run *with the same policy and cache*. Here the cache is eliminated for the caches the library can
actually have:

* `restrict` creates no garbage (`restrictS_spec`: the final store is `intern s (restrict a v)` for
  every sound cache), so `neededRestrict = fresh s (restrict a v)` — as for the connectives;
* `quant` and `substitute` do create garbage, but from a **closed** cache (`ClosedX`, `CanonX.lean`:
  every entry's intermediate results are still stored — the empty cache is closed, closedness is
  kept by all operations and by store extension, and only a collection, which clears the cache,
  removes nodes) the final store is `intern (internAll s (qInter q a v)) (quant q a v)`
  (`quantS_canon`), so `neededQuant = freshQuant s q a v`: the distinct nodes of the intermediate
  results and of the result that are not stored — **independent of the policy, of the cache
  content, of the time stamp and of the fuel**. In particular an exact cache, a direct-mapped cache
  with any hash/size/lock failures and no cache at all need the same number of nodes.
-/
namespace OxiddModel.Bdd.Refine
open OxiddModel.Bdd OxiddModel.Bdd.BDD

/-- nodes `quant q a v` allocates in store `s` from a closed cache: those of the intermediate
results `qInter q a v` (in creation order) and of the result that are not stored yet -/
def freshQuant (s : Store) (q : Quant) (a v : BDD) : Nat :=
  (intern (internAll s (qInter q a v)) (quant q a v)).1.count - s.count

/-- the same for `substitute` (after the preparation phase) -/
def freshSubst (s : Store) (sv : List BDD) (a : BDD) : Nat :=
  (intern (internAll s (sInter sv a)) (substitute sv a)).1.count - s.count

/-- nodes `substitute` (without `substitute_prepare`) allocates -/
def neededSubstS (p : Policy) (subst : List Edge) (id : Nat) (af fuel : Nat) (st : St) (f : Edge) : Nat :=
  growth st.store (substituteS p subst id af fuel st f)

theorem neededRestrict_eq {p : Policy} (pok : p.OK) (reg : Nat → List BDD) (fuel : Nat) (st : St)
    (f vars : Edge) (a v : BDD) (hinv : InvX reg st) (hr : st.store.NoRed)
    (hf : Denotes st.store f a) (hv : Denotes st.store vars v) (hfuel : a.size + v.size ≤ fuel) :
    neededRestrict p fuel st f vars = fresh st.store (restrict a v) := by
  have P := restrictS_spec pok reg fuel st f vars a v hinv hf hv hfuel
  have := congrArg Prod.fst (P.canon hr)
  simp only at this
  unfold neededRestrict growth fresh
  rw [this]

theorem neededQuant_closed {p : Policy} (pok : p.OK) (reg : Nat → List BDD) (q : Quant)
    (af fuel : Nat) (st : St) (f vars : Edge) (a v : BDD) (hinv : InvX reg st)
    (hcl : ClosedX reg st.store st.cache) (hr : st.store.NoRed) (hf : Denotes st.store f a)
    (hv : Denotes st.store vars v) (hsz : a.size ≤ fuel) (hneed : quantNeed q a v ≤ af) :
    neededQuant p q af fuel st f vars = freshQuant st.store q a v := by
  have P := (quantS_canon pok reg q af fuel st f vars a v hinv hcl hr hf hv hsz hneed).1
  have := congrArg Prod.fst P.canon
  simp only at this
  unfold neededQuant growth freshQuant
  rw [this]

theorem neededSubstS_closed {p : Policy} (pok : p.OK) (reg : Nat → List BDD) (subst : List Edge)
    (id : Nat) (af fuel : Nat) (st : St) (f : Edge) (a : BDD) (hinv : InvX reg st)
    (hcl : ClosedX reg st.store st.cache) (hr : st.store.NoRed)
    (hsub : DenotesL st.store subst (reg id)) (hf : Denotes st.store f a) (hsz : a.size ≤ fuel)
    (hneed : substNeed (reg id) a ≤ af) :
    neededSubstS p subst id af fuel st f = freshSubst st.store (reg id) a := by
  have P := (substituteS_canon pok reg subst id af fuel st f a hinv hcl hr hsub hf hsz hneed).1
  have := congrArg Prod.fst P.canon
  simp only at this
  unfold neededSubstS growth freshSubst
  rw [this]

end OxiddModel.Bdd.Refine
