import OxiddModel.Bdd.ThresholdS
import OxiddModel.Bdd.QuantS
import OxiddModel.Bdd.ApplyQuantS
import OxiddModel.Bdd.RestrictS
import OxiddModel.Bdd.SubstS

/-!
# Capacity-bounded `quant`, `apply_quant`, `restrict`, `substitute` and their thresholds

`quantC/applyQuantC/restrictC/substituteC/substituteEdgeC cap` are `quantS/…` of `QuantS.lean`,
`ApplyQuantS.lean`, `RestrictS.lean`, `SubstS.lean` with `Store.mkNodeC cap` in place of
`Store.mkNode` and the Rust `?` (an error of a sub-call or of `reduce` is returned at once; what
was created before stays in the store as garbage, cache entries added before stay).

`bindC`/`bindS` are the sequencing of two steps with and without error propagation;
`BothG.bind` shows that the relation `BothG` (capped run vs. uncapped run) is closed under
sequencing, which reduces `…C_both` to the leaves (`finishC`, cache accesses, `applyC`, `iteC`,
`notC`).

Unlike `apply_bin`, these operations create **intermediate results that are not part of the final
result** (the two quantified cofactors that are then combined by `apply_bin::<Q>`; the substituted
children that are then combined by `apply_ite`; the variable nodes of `substitute_prepare`), so
`needed` (the growth of the uncapped run) is in general larger than the number of fresh nodes of
the result, and it depends on the cache: a hit short-cuts a sub-computation together with the
garbage it would create. See `PropertiesC14Q.lean`.
-/
namespace OxiddModel.Bdd.Refine
open OxiddModel.Bdd OxiddModel.Bdd.BDD

/-! ## sequencing -/

/-- `let r = c(..)?; k(r, ..)` -/
def bindC {α β : Type} (c : St → Option α × St) (k : α → St → Option β × St) (st : St) :
    Option β × St :=
  match c st with
  | (none, st1) => (none, st1)
  | (some r, st1) => k r st1

/-- `let r = c(..); k(r, ..)` -/
def bindS {α β : Type} (c : St → St × α) (k : α → St → St × β) (st : St) : St × β :=
  k (c st).2 (c st).1

theorem BothG.bind {α β : Type} {cap : Nat} {cC : St → Option α × St} {cS : St → St × α}
    {kC : α → St → Option β × St} {kS : α → St → St × β} {st : St}
    (h1 : BothG cap st.store (cC st) (cS st))
    (h2 : ∀ r st1, BothG cap st1.store (kC r st1) (kS r st1)) :
    BothG cap st.store (bindC cC kC st) (bindS cS kS st) := by
  have h2S := h2 (cS st).2 (cS st).1
  unfold bindC bindS
  cases hc : cC st with
  | mk o st1 =>
    rw [hc] at h1
    cases o with
    | none =>
      show BothG cap st.store (none, st1) _
      refine ⟨h1.le, h1.uniq, h1.mono, h1.bound, (fun e he => by cases he), (fun _ => h1.err rfl),
        Nat.le_trans h1.monoS h2S.monoS, fun hfit => ?_⟩
      have hf1 : Fits cap st.store (cS st).1.store := by
        have := h1.monoS; have := h2S.monoS; unfold Fits at *; omega
      have := h1.fits hf1
      cases this
    | some r =>
      obtain ⟨e1, f1⟩ := h1.ok r rfl
      have h2' := h2 r st1
      show BothG cap st.store (kC r st1) (kS (cS st).2 (cS st).1)
      simp only [e1]
      refine ⟨h1.le.trans h2'.le, fun u => h2'.uniq (h1.uniq u), Nat.le_trans h1.mono h2'.mono,
        fun b => h2'.bound (h1.bound b), fun e he => ⟨(h2'.ok e he).1, f1.trans (h2'.ok e he).2⟩,
        h2'.err, ?_, fun hfit => ?_⟩
      · exact Nat.le_trans h1.mono h2'.monoS
      · apply h2'.fits
        have hm1 : st.store.count ≤ st1.store.count := h1.mono
        have hm2 := h2'.monoS
        unfold Fits at *; omega

theorem BothG.pure {α : Type} (cap : Nat) {s : Store} {st' : St} (e : α) (hs : st'.store = s) :
    BothG cap s (some e, st') (st', e) where
  le := hs ▸ Store.Le.refl _
  uniq h := hs ▸ h
  mono := by rw [hs]; exact Nat.le_refl _
  bound h := by rw [hs]; exact h
  ok e' h := by cases h; exact ⟨rfl, hs ▸ Fits.refl _ _⟩
  err h := by cases h
  monoS := by rw [hs]; exact Nat.le_refl _
  fits _ := rfl

/-- a cache add with a capacity (it allocates no node) -/
def addC (p : Policy) (st : St) (key : Key) (r : Edge) : Option Edge × St :=
  (some r, ⟨st.store, p.add st.tick st.cache key r, st.tick + 1⟩)

theorem addC_both (cap : Nat) (p : Policy) (st : St) (key : Key) (r : Edge) :
    BothG cap st.store (addC p st key r) (addS p st key r) :=
  BothG.pure cap r rfl

theorem finishC_bothG (cap : Nat) (p : Policy) (st : St) (key : Key) (l : Nat) (e1 e0 : Edge) :
    BothG cap st.store (finishC cap p st key l e1 e0) (finishS p st key l e1 e0) :=
  Both.toG ⟨finishC_sound cap p st key l e1 e0, finishC_complete cap p st key l e1 e0⟩

/-! ## `quant::<Q>` -/

/-- `quant::<Q>` with a node capacity -/
def quantC (cap : Nat) (p : Policy) (q : Quant) (af : Nat) : Nat → St → Edge → Edge → Option Edge × St
  | 0, st, f, _ => (some f, st)
  | fuel+1, st, f, vars =>
    match f with
    | .term _ =>
      if q ≠ .unique || vars.isTerm then (some f, st) else (some (.term false), st)
    | .inner i =>
      match st.store.get? i with
      | none => (some f, st)
      | some fn =>
        let vars := if q ≠ .unique then st.store.setPopS af vars fn.level else vars
        match vars with
        | .term _ => (some f, st)
        | .inner j =>
          match st.store.get? j with
          | none => (some f, st)
          | some vn =>
            if q = .unique ∧ vn.level < fn.level then (some (.term false), st) else
            match p.get st.tick st.cache (encKey (quantKey q f vars)) with
            | some r => (some r, st.tickd)
            | none =>
              let vt := if vn.level = fn.level then vn.t else vars
              bindC (fun s => quantC cap p q af fuel s fn.t vt) (fun r1 =>
                bindC (fun s => quantC cap p q af fuel s fn.e vt) (fun r0 s0 =>
                  if fn.level = vn.level then
                    bindC (fun s => applyC cap p q.op af s r1 r0)
                      (fun r s => addC p s (encKey (quantKey q f vars)) r) s0
                  else
                    finishC cap p s0 (encKey (quantKey q f vars)) fn.level r1 r0)) st.tickd

theorem quantC_both (cap : Nat) (p : Policy) (q : Quant) (af : Nat) (fuel : Nat) :
    ∀ (st : St) (f vars : Edge),
    BothG cap st.store (quantC cap p q af fuel st f vars) (quantS p q af fuel st f vars) := by
  induction fuel with
  | zero => intro st f vars; exact BothG.pure cap f rfl
  | succ fuel ih =>
    intro st f vars
    cases f with
    | term b =>
      simp only [quantC, quantS]
      split <;> exact BothG.pure cap _ rfl
    | inner i =>
      simp only [quantC, quantS]
      cases hi : st.store.get? i with
      | none => exact BothG.pure cap _ rfl
      | some fn =>
        simp only
        generalize (if q ≠ .unique then st.store.setPopS af vars fn.level else vars) = vars'
        cases vars' with
        | term y => exact BothG.pure cap _ rfl
        | inner j =>
          simp only
          cases hj : st.store.get? j with
          | none => exact BothG.pure cap _ rfl
          | some vn =>
            simp only
            split
            · exact BothG.pure cap _ rfl
            · cases hget : p.get st.tick st.cache (encKey (quantKey q (.inner i) (.inner j))) with
              | some r => exact BothG.pure cap _ rfl
              | none =>
                simp only
                refine BothG.bind (cS := fun s => quantS p q af fuel s fn.t _)
                  (kS := fun r1 => bindS (fun s => quantS p q af fuel s fn.e _) (fun r0 s0 =>
                    if fn.level = vn.level then
                      bindS (fun s => applyS p q.op af s r1 r0)
                        (fun r s => addS p s (encKey (quantKey q (.inner i) (.inner j))) r) s0
                    else finishS p s0 (encKey (quantKey q (.inner i) (.inner j))) fn.level r1 r0))
                  (st := st.tickd) (ih _ _ _) ?_
                intro r1 st1
                refine BothG.bind (ih _ _ _) ?_
                intro r0 st0
                split
                · exact BothG.bind (applyC_both cap p q.op af st0 r1 r0).toG
                    (fun r s => addC_both cap p s _ r)
                · exact finishC_bothG cap p st0 _ _ r1 r0

/-! ## `restrict` -/

/-- `restrict` with a node capacity -/
def restrictC (cap : Nat) (p : Policy) : Nat → St → Edge → Edge → Option Edge × St
  | 0, st, f, _ => (some f, st)
  | fuel+1, st, f, vars =>
    match restrictInnerS st.store (fuel + 1) f vars with
    | .done r => (some r, st)
    | .recur f' vars' =>
      match p.get st.tick st.cache (encKey (restrictKey f' vars')) with
      | some r => (some r, st.tickd)
      | none =>
        match f' with
        | .term _ => (some f', st.tickd)
        | .inner i =>
          match st.store.get? i with
          | none => (some f', st.tickd)
          | some fn =>
            forkC cap p (encKey (restrictKey f' vars')) fn.level
              (fun s => restrictC cap p fuel s fn.t vars')
              (fun s => restrictC cap p fuel s fn.e vars') st.tickd

theorem restrictC_both (cap : Nat) (p : Policy) (fuel : Nat) : ∀ (st : St) (f vars : Edge),
    Both cap st.store (restrictC cap p fuel st f vars) (restrictS p fuel st f vars) := by
  induction fuel with
  | zero => intro st f vars; exact Both.pure cap f rfl
  | succ fuel ih =>
    intro st f vars
    simp only [restrictC, restrictS]
    cases restrictInnerS st.store (fuel + 1) f vars with
    | done r => exact Both.pure cap _ rfl
    | recur f' vars' =>
      simp only
      cases hget : p.get st.tick st.cache (encKey (restrictKey f' vars')) with
      | some r => exact Both.pure cap _ rfl
      | none =>
        cases f' with
        | term b => exact Both.pure cap _ rfl
        | inner i =>
          simp only
          cases hi : st.store.get? i with
          | none => exact Both.pure cap _ rfl
          | some fn =>
            exact forkC_both (c1C := fun s => restrictC cap p fuel s fn.t vars')
              (c0C := fun s => restrictC cap p fuel s fn.e vars')
              (c1S := fun s => restrictS p fuel s fn.t vars')
              (c0S := fun s => restrictS p fuel s fn.e vars')
              (st := st.tickd) (ih _ _ _) (fun st1 => ih st1 _ _)

/-! ## `substitute_prepare`, `substitute` -/

/-- `get_or_insert(InnerNode::new(level, [⊤, ⊥]))?` as a step on states -/
def mkVarC (cap : Nat) (l : Nat) (st : St) : Option Edge × St :=
  match st.store.mkNodeC cap l (.term true) (.term false) with
  | none => (none, st)
  | some m => (some m.2, ⟨m.1, st.cache, st.tick⟩)

def mkVarS (l : Nat) (st : St) : St × Edge :=
  (⟨(st.store.mkNode l (.term true) (.term false)).1, st.cache, st.tick⟩,
    (st.store.mkNode l (.term true) (.term false)).2)

theorem mkVarC_both (cap : Nat) (l : Nat) (st : St) :
    BothG cap st.store (mkVarC cap l st) (mkVarS l st) := by
  unfold mkVarC mkVarS
  cases hm : st.store.mkNodeC cap l (.term true) (.term false) with
  | none =>
    refine ⟨Store.Le.refl _, id, Nat.le_refl _, id, (fun e he => by cases he),
      fun _ => mkNodeC_none hm, count_mkNode_ge _ _ _ _, fun hfit => ?_⟩
    rw [mkNodeC_of_fits hfit] at hm; cases hm
  | some m =>
    obtain ⟨hmeq, hf⟩ := mkNodeC_some hm
    subst hmeq
    refine ⟨mkNode_le _ _ _ _, mkNode_unique _ _ _ _, count_mkNode_ge _ _ _ _, ?_, ?_, ?_,
      count_mkNode_ge _ _ _ _, fun _ => rfl⟩
    · intro hb; unfold Fits at hf
      show (st.store.mkNode l (.term true) (.term false)).1.count ≤ cap; omega
    · intro e he; cases he; exact ⟨rfl, hf⟩
    · intro he; cases he

/-- the second loop of `substitute_prepare` with a node capacity; the `?` on `get_or_insert`
returns at once (the vector built so far is dropped by its guard) -/
def prepLoopC (cap : Nat) (pairs : List (Nat × Edge)) : List Nat → St → Option (List Edge) × St
  | [], st => (some [], st)
  | l :: ls, st =>
    match pairs.lookup l with
    | some r =>
      bindC (prepLoopC cap pairs ls) (fun rest s => (some (r :: rest), s)) st
    | none =>
      bindC (mkVarC cap l) (fun e =>
        bindC (prepLoopC cap pairs ls) (fun rest s => (some (e :: rest), s))) st

/-- `prepLoop` lifted to states (cache and time stamp untouched) -/
def prepLoopSt (pairs : List (Nat × Edge)) (ls : List Nat) (st : St) : St × List Edge :=
  (⟨(prepLoop pairs st.store ls).1, st.cache, st.tick⟩, (prepLoop pairs st.store ls).2)

theorem prepLoopC_both (cap : Nat) (pairs : List (Nat × Edge)) (ls : List Nat) : ∀ (st : St),
    BothG cap st.store (prepLoopC cap pairs ls st) (prepLoopSt pairs ls st) := by
  induction ls with
  | nil => intro st; exact BothG.pure cap _ rfl
  | cons l ls ih =>
    intro st
    cases hl : pairs.lookup l with
    | some r =>
      simp only [prepLoopC, prepLoopSt, prepLoop, hl]
      exact BothG.bind (cS := prepLoopSt pairs ls) (kS := fun rest s => (s, r :: rest)) (ih st)
        (fun rest s => BothG.pure cap _ rfl)
    | none =>
      simp only [prepLoopC, prepLoopSt, prepLoop, hl]
      exact BothG.bind (cS := mkVarS l)
        (kS := fun e => bindS (prepLoopSt pairs ls) (fun rest s => (s, e :: rest)))
        (mkVarC_both cap l st)
        (fun e st1 => BothG.bind (ih st1) (fun rest s => BothG.pure cap _ rfl))

/-- `substitute` with a node capacity -/
def substituteC (cap : Nat) (p : Policy) (subst : List Edge) (id : Nat) (af : Nat) :
    Nat → St → Edge → Option Edge × St
  | 0, st, f => (some f, st)
  | fuel+1, st, f =>
    match f with
    | .term _ => (some f, st)
    | .inner i =>
      match st.store.get? i with
      | none => (some f, st)
      | some fn =>
        match subst[fn.level]? with
        | none => (some f, st)
        | some rep =>
          match p.get st.tick st.cache (encKey (substKey f id)) with
          | some h => (some h, st.tickd)
          | none =>
            bindC (fun s => substituteC cap p subst id af fuel s fn.t) (fun r1 =>
              bindC (fun s => substituteC cap p subst id af fuel s fn.e) (fun r0 =>
                bindC (fun s => iteC cap p af s rep r1 r0)
                  (fun r s => addC p s (encKey (substKey f id)) r))) st.tickd

theorem substituteC_both (cap : Nat) (p : Policy) (subst : List Edge) (id : Nat) (af : Nat)
    (fuel : Nat) : ∀ (st : St) (f : Edge),
    BothG cap st.store (substituteC cap p subst id af fuel st f)
      (substituteS p subst id af fuel st f) := by
  induction fuel with
  | zero => intro st f; exact BothG.pure cap f rfl
  | succ fuel ih =>
    intro st f
    cases f with
    | term b => exact BothG.pure cap _ rfl
    | inner i =>
      simp only [substituteC, substituteS]
      cases hi : st.store.get? i with
      | none => exact BothG.pure cap _ rfl
      | some fn =>
        simp only
        cases hs : subst[fn.level]? with
        | none => exact BothG.pure cap _ rfl
        | some rep =>
          simp only
          cases hget : p.get st.tick st.cache (encKey (substKey (.inner i) id)) with
          | some h => exact BothG.pure cap _ rfl
          | none =>
            simp only
            refine BothG.bind (cS := fun s => substituteS p subst id af fuel s fn.t)
              (kS := fun r1 => bindS (fun s => substituteS p subst id af fuel s fn.e) (fun r0 =>
                bindS (fun s => iteS p af s rep r1 r0)
                  (fun r s => addS p s (encKey (substKey (.inner i) id)) r)))
              (st := st.tickd) (ih _ _) ?_
            intro r1 st1
            refine BothG.bind (ih _ _) ?_
            intro r0 st0
            exact BothG.bind (iteC_both cap p af st0 rep r1 r0).toG (fun r s => addC_both cap p s _ r)

/-- `substitute_edge` with a node capacity: `substitute_prepare(..)?`, then `substitute` -/
def substituteEdgeC (cap : Nat) (p : Policy) (pairs : List (Nat × Edge)) (id : Nat) (af fuel : Nat)
    (st : St) (f : Edge) : Option Edge × St :=
  bindC (prepLoopC cap pairs (List.range (pairs.foldl (fun m p => max m (p.1 + 1)) 0)))
    (fun sv s => substituteC cap p sv id af fuel s f) st

theorem substituteEdgeC_both (cap : Nat) (p : Policy) (pairs : List (Nat × Edge)) (id : Nat)
    (af fuel : Nat) (st : St) (f : Edge) :
    BothG cap st.store (substituteEdgeC cap p pairs id af fuel st f)
      (substituteEdgeS p pairs id af fuel st f) := by
  unfold substituteEdgeC substituteEdgeS substPrepareS
  exact BothG.bind (cS := prepLoopSt pairs (List.range (pairs.foldl (fun m p => max m (p.1 + 1)) 0)))
    (kS := fun sv s => substituteS p sv id af fuel s f)
    (prepLoopC_both cap pairs _ st) (fun sv s => substituteC_both cap p sv id af fuel s f)

/-! ## `apply_quant::<Q, OP>` -/

/-- `aqBodyS` with a node capacity -/
def aqBodyC (cap : Nat) (p : Policy) (q : Quant) (op : Op) (af : Nat)
    (rec : St → Edge → Edge → Edge → Option Edge × St) (st : St) (f g vars : Edge) :
    Option Edge × St :=
  match f, g with
  | .inner i, .inner k =>
    match st.store.get? i, st.store.get? k with
    | some fn, some gn =>
      let minl := min fn.level gn.level
      let vars := if q ≠ .unique then st.store.setPopS af vars minl else vars
      match vars with
      | .term _ => applyC cap p op af st f g
      | .inner j =>
        match st.store.get? j with
        | none => (some f, st)
        | some vn =>
          if vn.level < minl ∧ q = .unique then (some (.term false), st) else
          if minl > vn.level then applyC cap p op af st f g
          else
          match p.get st.tick st.cache (encKey (applyQuantKey q op f g vars)) with
          | some r => (some r, st.tickd)
          | none =>
            let vt := if vn.level = minl then vn.t else vars
            let fte := if fn.level ≤ gn.level then (fn.t, fn.e) else (f, f)
            let gte := if gn.level ≤ fn.level then (gn.t, gn.e) else (g, g)
            bindC (fun s => rec s fte.1 gte.1 vt) (fun r1 =>
              bindC (fun s => rec s fte.2 gte.2 vt) (fun r0 s0 =>
                if minl = vn.level then
                  bindC (fun s => applyC cap p q.op af s r1 r0)
                    (fun r s => addC p s (encKey (applyQuantKey q op f g vars)) r) s0
                else
                  finishC cap p s0 (encKey (applyQuantKey q op f g vars)) minl r1 r0)) st.tickd
    | _, _ => (some f, st)
  | _, _ => (some f, st)

/-- `apply_quant::<Q, OP>` with a node capacity -/
def applyQuantC (cap : Nat) (p : Policy) (q : Quant) (op : Op) (af : Nat) :
    Nat → St → Edge → Edge → Edge → Option Edge × St
  | 0, st, f, _, _ => (some f, st)
  | fuel+1, st, f, g, vars =>
    match terminalBinS op f g with
    | .binary _ o1 o2 => aqBodyC cap p q op af (applyQuantC cap p q op af fuel) st o1 o2 vars
    | .notOf h =>
      bindC (fun s => notC cap p af s h) (fun inv s => quantC cap p q af af s inv vars) st
    | .done h => quantC cap p q af af st h vars

theorem aqBodyC_both (cap : Nat) (p : Policy) (q : Quant) (op : Op) (af : Nat)
    {recC : St → Edge → Edge → Edge → Option Edge × St} {recS : St → Edge → Edge → Edge → St × Edge}
    (hrec : ∀ st a b c, BothG cap st.store (recC st a b c) (recS st a b c)) (st : St)
    (f g vars : Edge) :
    BothG cap st.store (aqBodyC cap p q op af recC st f g vars) (aqBodyS p q op af recS st f g vars) := by
  cases f with
  | term b => exact BothG.pure cap _ rfl
  | inner i =>
    cases g with
    | term b => exact BothG.pure cap _ rfl
    | inner k =>
      simp only [aqBodyC, aqBodyS]
      cases hi : st.store.get? i with
      | none => exact BothG.pure cap _ rfl
      | some fn =>
        cases hk : st.store.get? k with
        | none => exact BothG.pure cap _ rfl
        | some gn =>
          simp only
          generalize (if q ≠ .unique then st.store.setPopS af vars (min fn.level gn.level) else vars) = vars'
          cases vars' with
          | term y => exact (applyC_both cap p op af st _ _).toG
          | inner j =>
            simp only
            cases hj : st.store.get? j with
            | none => exact BothG.pure cap _ rfl
            | some vn =>
              simp only
              split
              · exact BothG.pure cap _ rfl
              · split
                · exact (applyC_both cap p op af st _ _).toG
                · cases hget : p.get st.tick st.cache
                      (encKey (applyQuantKey q op (.inner i) (.inner k) (.inner j))) with
                  | some r => exact BothG.pure cap _ rfl
                  | none =>
                    simp only
                    refine BothG.bind (cS := fun s => recS s _ _ _)
                      (kS := fun r1 => bindS (fun s => recS s _ _ _) (fun r0 s0 =>
                        if min fn.level gn.level = vn.level then
                          bindS (fun s => applyS p q.op af s r1 r0)
                            (fun r s => addS p s
                              (encKey (applyQuantKey q op (.inner i) (.inner k) (.inner j))) r) s0
                        else finishS p s0
                          (encKey (applyQuantKey q op (.inner i) (.inner k) (.inner j)))
                          (min fn.level gn.level) r1 r0))
                      (st := st.tickd) (hrec _ _ _ _) ?_
                    intro r1 st1
                    refine BothG.bind (hrec _ _ _ _) ?_
                    intro r0 st0
                    split
                    · exact BothG.bind (applyC_both cap p q.op af st0 r1 r0).toG
                        (fun r s => addC_both cap p s _ r)
                    · exact finishC_bothG cap p st0 _ _ r1 r0

theorem applyQuantC_both (cap : Nat) (p : Policy) (q : Quant) (op : Op) (af : Nat) (fuel : Nat) :
    ∀ (st : St) (f g vars : Edge),
    BothG cap st.store (applyQuantC cap p q op af fuel st f g vars)
      (applyQuantS p q op af fuel st f g vars) := by
  induction fuel with
  | zero => intro st f g vars; exact BothG.pure cap f rfl
  | succ fuel ih =>
    intro st f g vars
    simp only [applyQuantC, applyQuantS]
    cases terminalBinS op f g with
    | binary tag o1 o2 => exact aqBodyC_both cap p q op af ih st o1 o2 vars
    | notOf h =>
      exact BothG.bind (cS := fun s => notS p af s h) (kS := fun inv s => quantS p q af af s inv vars)
        (notC_both cap p af st h).toG (fun inv s => quantC_both cap p q af af s inv vars)
    | done h => exact quantC_both cap p q af af st h vars

/-! ## `needed` -/

def neededQuant (p : Policy) (q : Quant) (af fuel : Nat) (st : St) (f vars : Edge) : Nat :=
  growth st.store (quantS p q af fuel st f vars)

def neededApplyQuant (p : Policy) (q : Quant) (op : Op) (af fuel : Nat) (st : St) (f g vars : Edge) : Nat :=
  growth st.store (applyQuantS p q op af fuel st f g vars)

def neededRestrict (p : Policy) (fuel : Nat) (st : St) (f vars : Edge) : Nat :=
  growth st.store (restrictS p fuel st f vars)

def neededSubst (p : Policy) (pairs : List (Nat × Edge)) (id : Nat) (af fuel : Nat) (st : St)
    (f : Edge) : Nat :=
  growth st.store (substituteEdgeS p pairs id af fuel st f)

end OxiddModel.Bdd.Refine
