import OxiddModel.Bdd.CapS

/-!
# The out-of-memory threshold of `apply_not`, `apply_bin::<OP>`, `apply_ite` — exactly

`CapS.lean` relates the capacity-bounded run (`notC/applyC/iteC cap`) and the uncapped run
(`notS/applyS/iteS`) by `Both = Sound ∧ Complete`. Here the consequence is drawn that turns the
relation into a *prediction*: with

  `needed := (uncapped run from st).store.count − st.store.count`

(the number of nodes the operation allocates when nothing stops it; it does not mention the
capacity) the capped run reports OutOfMemory **iff** `0 < needed ∧ cap < st.store.count + needed`,
i.e. for a store within its capacity iff fewer than `needed` slots are free. Everything in the
first part is structural (`Both`-level): it holds for every cache policy, every cache content,
every store and all operands, and it is reused for the quantification family in
`ThresholdQ.lean`.

The second part (`…_needed_eq`) is semantic: for the three algorithms of this file the final store
is `intern s T` for the specified result tree `T` (`Post.canon`: every node created by a
sub-call is a sub-diagram of its caller's result, so there is no intermediate garbage), hence
`needed = fresh s T` depends on **neither the policy nor the cache content nor the fuel** — only
on the store and the result tree.
-/
namespace OxiddModel.Bdd.Refine
open OxiddModel.Bdd OxiddModel.Bdd.BDD

/-! ## structural part: any pair of runs related by `Both` (for any result type) -/

/-- `Sound ∧ Complete` of `CapS.lean`, for an arbitrary result type `α` (an edge, a vector of
edges, …): the capped run `RC` (`none` = OutOfMemory) against the uncapped run `RS`, both started
in store `s` -/
structure BothG {α : Type} (cap : Nat) (s : Store) (RC : Option α × St) (RS : St × α) : Prop where
  le : s.Le RC.2.store
  uniq : s.Unique → RC.2.store.Unique
  mono : s.count ≤ RC.2.store.count
  bound : s.count ≤ cap → RC.2.store.count ≤ cap
  /-- success: the capped run *is* the uncapped run, and it fits -/
  ok : ∀ e, RC.1 = some e → RS = (RC.2, e) ∧ Fits cap s RC.2.store
  /-- error: the store is full -/
  err : RC.1 = none → cap ≤ RC.2.store.count
  monoS : s.count ≤ RS.1.store.count
  /-- the capped run succeeds whenever the uncapped run fits -/
  fits : Fits cap s RS.1.store → RC = (some RS.2, RS.1)

theorem Both.toG {cap : Nat} {s : Store} {RC : Option Edge × St} {RS : St × Edge}
    (h : Both cap s RC RS) : BothG cap s RC RS :=
  ⟨h.1.le, h.1.uniq, h.1.mono, h.1.bound, h.1.ok, h.1.err, h.2.mono, h.2.fits⟩

theorem BothG.toBoth {cap : Nat} {s : Store} {RC : Option Edge × St} {RS : St × Edge}
    (h : BothG cap s RC RS) : Both cap s RC RS :=
  ⟨⟨h.le, h.uniq, h.mono, h.bound, h.ok, h.err⟩, ⟨h.monoS, h.fits⟩⟩

/-- number of nodes a run started in store `s` has added -/
def growth {α : Type} (s : Store) (R : St × α) : Nat := R.1.store.count - s.count

section
variable {α : Type} {cap : Nat} {s : Store} {RC : Option α × St} {RS : St × α}

theorem BothG.count_eq (h : BothG cap s RC RS) : RS.1.store.count = s.count + growth s RS := by
  have := h.monoS
  unfold growth; omega

/-- **the error is reported exactly when the uncapped run does not fit** -/
theorem BothG.oom_iff_not_fits (h : BothG cap s RC RS) : RC.1 = none ↔ ¬ Fits cap s RS.1.store := by
  constructor
  · intro hn hfit
    rw [h.fits hfit] at hn
    cases hn
  · intro hnf
    cases hR : RC.1 with
    | none => rfl
    | some e =>
      obtain ⟨heq, hfit⟩ := h.ok e hR
      rw [heq] at hnf
      exact absurd hfit hnf

/-- the threshold, no hypothesis on the state at all: OutOfMemory iff the operation allocates at
least one node and the capacity is below `count + needed` -/
theorem BothG.oom_iff (h : BothG cap s RC RS) :
    RC.1 = none ↔ 0 < growth s RS ∧ cap < s.count + growth s RS := by
  rw [h.oom_iff_not_fits]
  have := h.count_eq
  unfold Fits
  omega

/-- for a store within its capacity: OutOfMemory iff fewer than `needed` slots are free -/
theorem BothG.oom_iff_free (h : BothG cap s RC RS) (hc : s.count ≤ cap) :
    RC.1 = none ↔ cap - s.count < growth s RS := by
  rw [h.oom_iff]; omega

/-- success is complete agreement with the uncapped run, and happens exactly when enough slots
are free -/
theorem BothG.ok_iff (h : BothG cap s RC RS) (hc : s.count ≤ cap) :
    RC = (some RS.2, RS.1) ↔ growth s RS ≤ cap - s.count := by
  constructor
  · intro heq
    have : ¬ (RC.1 = none) := by rw [heq]; simp
    rw [h.oom_iff_free hc] at this
    omega
  · intro hle
    apply h.fits
    have := h.count_eq
    unfold Fits; omega

/-- after a successful run exactly `needed` more slots are in use; after a failed one the store is
exactly full -/
theorem BothG.final_count (h : BothG cap s RC RS) (hc : s.count ≤ cap) :
    RC.2.store.count = if RC.1 = none then cap else s.count + growth s RS := by
  split
  · rename_i hn
    exact Nat.le_antisymm (h.bound hc) (h.err hn)
  · rename_i hs
    cases hR : RC.1 with
    | none => exact absurd hR hs
    | some e =>
      obtain ⟨heq, _⟩ := h.ok e hR
      rw [← h.count_eq, heq]

/-- the minimal capacity: all capacities from the current count up to `count + needed − 1` fail,
all capacities from `count + needed` on succeed with the uncapped result -/
theorem BothG.threshold {RCf : Nat → Option α × St} (h : ∀ cap, BothG cap s (RCf cap) RS) :
    (∀ cap, s.count ≤ cap → cap < s.count + growth s RS → (RCf cap).1 = none) ∧
    (∀ cap, s.count + growth s RS ≤ cap → RCf cap = (some RS.2, RS.1)) := by
  constructor
  · intro cap hc hk
    rw [(h cap).oom_iff_free hc]
    omega
  · intro cap hk
    have hc : s.count ≤ cap := by omega
    apply ((h cap).ok_iff hc).mpr
    omega
end

theorem Both.oom_iff {cap : Nat} {s : Store} {RC : Option Edge × St} {RS : St × Edge}
    (h : Both cap s RC RS) : RC.1 = none ↔ 0 < growth s RS ∧ cap < s.count + growth s RS :=
  h.toG.oom_iff
theorem Both.oom_iff_free {cap : Nat} {s : Store} {RC : Option Edge × St} {RS : St × Edge}
    (h : Both cap s RC RS) (hc : s.count ≤ cap) : RC.1 = none ↔ cap - s.count < growth s RS :=
  h.toG.oom_iff_free hc
theorem Both.ok_iff {cap : Nat} {s : Store} {RC : Option Edge × St} {RS : St × Edge}
    (h : Both cap s RC RS) (hc : s.count ≤ cap) :
    RC = (some RS.2, RS.1) ↔ growth s RS ≤ cap - s.count := h.toG.ok_iff hc
theorem Both.final_count {cap : Nat} {s : Store} {RC : Option Edge × St} {RS : St × Edge}
    (h : Both cap s RC RS) (hc : s.count ≤ cap) :
    RC.2.store.count = if RC.1 = none then cap else s.count + growth s RS := h.toG.final_count hc

/-! ## the three algorithms -/

/-- nodes `apply_bin::<OP>` allocates from state `st` when nothing stops it -/
def neededApply (p : Policy) (op : Op) (fuel : Nat) (st : St) (f g : Edge) : Nat :=
  growth st.store (applyS p op fuel st f g)

/-- nodes `apply_not` allocates -/
def neededNot (p : Policy) (fuel : Nat) (st : St) (f : Edge) : Nat :=
  growth st.store (notS p fuel st f)

/-- nodes `apply_ite` allocates -/
def neededIte (p : Policy) (fuel : Nat) (st : St) (f g h : Edge) : Nat :=
  growth st.store (iteS p fuel st f g h)

/-! ## semantic part: `needed` is a function of the store and the result tree only -/

/-- number of nodes that entering the tree `T` into store `s` allocates: the distinct inner
sub-diagrams of `T` that `s` does not hold yet -/
def fresh (s : Store) (T : BDD) : Nat := (intern s T).1.count - s.count

theorem Post.growth_eq {s : Store} {T : BDD} {R : St × Edge} (h : Post s T R) (hr : s.NoRed) :
    growth s R = fresh s T := by
  have := congrArg Prod.fst (h.canon hr)
  simp only at this
  unfold growth fresh
  rw [this]

/-- **`needed` of `apply_bin` does not depend on the cache policy, the cache content or the
fuel**: it is the number of nodes of the result tree that are not in the store. -/
theorem neededApply_eq {p : Policy} (pok : p.OK) (op : Op) (fuel : Nat) (st : St) (f g : Edge)
    (a b : BDD) (hinv : Inv st) (hr : st.store.NoRed) (hf : Denotes st.store f a)
    (hg : Denotes st.store g b) (hfuel : a.size + b.size ≤ fuel) :
    neededApply p op fuel st f g = fresh st.store (applyBin op a b) :=
  (applyS_spec pok op fuel st f g a b hinv hf hg hfuel).growth_eq hr

theorem neededNot_eq {p : Policy} (pok : p.OK) (fuel : Nat) (st : St) (f : Edge) (a : BDD)
    (hinv : Inv st) (hr : st.store.NoRed) (hf : Denotes st.store f a) (hfuel : a.size ≤ fuel) :
    neededNot p fuel st f = fresh st.store (applyNot a) :=
  (notS_spec pok fuel st f a hinv hf hfuel).growth_eq hr

theorem neededIte_eq {p : Policy} (pok : p.OK) (fuel : Nat) (st : St) (f g h : Edge) (a b c : BDD)
    (hinv : Inv st) (hr : st.store.NoRed) (hf : Denotes st.store f a) (hg : Denotes st.store g b)
    (hh : Denotes st.store h c) (hfuel : a.size + b.size + c.size ≤ fuel) :
    neededIte p fuel st f g h = fresh st.store (applyIte a b c) :=
  (iteS_spec pok fuel st f g h a b c hinv hf hg hh hfuel).growth_eq hr

/-! ## `fresh`: bounds -/

theorem count_intern_ge (s : Store) (T : BDD) : s.count ≤ (intern s T).1.count := by
  induction T generalizing s with
  | leaf b => exact Nat.le_refl _
  | node l t e iht ihe =>
    simp only [intern]
    exact Nat.le_trans (iht s) (Nat.le_trans (ihe _) (count_mkNode_ge _ _ _ _))

/-- inner nodes of a tree (with repetition) -/
def innerSize : BDD → Nat
  | .leaf _ => 0
  | .node _ t e => innerSize t + innerSize e + 1

theorem count_intern_le (s : Store) (T : BDD) : (intern s T).1.count ≤ s.count + innerSize T := by
  induction T generalizing s with
  | leaf b => exact Nat.le_refl _
  | node l t e iht ihe =>
    simp only [intern, innerSize]
    have h1 := iht s
    have h0 := ihe (intern s t).1
    rcases count_mkNode (intern (intern s t).1 e).1 l (intern s t).2 (intern (intern s t).1 e).2 with h | h <;>
      omega

/-- never more than the result has inner nodes -/
theorem fresh_le (s : Store) (T : BDD) : fresh s T ≤ innerSize T := by
  have := count_intern_le s T
  unfold fresh; omega

/-- a result that is already stored costs nothing -/
theorem fresh_of_denotes {s : Store} (hu : s.Unique) (hr : s.NoRed) {x : Edge} {T : BDD}
    (h : Denotes s x T) : fresh s T = 0 := by
  unfold fresh
  rw [intern_of_denotes hu hr h]
  exact Nat.sub_self _

end OxiddModel.Bdd.Refine
