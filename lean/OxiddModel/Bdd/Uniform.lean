import OxiddModel.Bdd.Pick
import OxiddModel.Bdd.Count

/-!
# Uniform cube picking (`pick_cube_uniform_edge`, `oxidd-core/src/function.rs`) — lemmas for C13

`pick_cube_uniform_edge` calls `pick_cube_edge` with a choice closure which, at an inner node with
cofactors `t`, `e`, computes `t_count = sat_count_edge(t, vars)`, `e_count = sat_count_edge(e, vars)`
(`vars = num_levels`, i.e. both counts over **all** variables) and returns
`rng.generate::<f64>() < t_count / (t_count + e_count)`. `pick_cube_edge::inner` consults the closure
only when neither child is `⊥` (forced-branch detection comes first).

The model makes the random source explicit: a list of fractions `num/den` (a draw from `[0,1)` is a
fraction with `num < den`); the `i`-th *consulted* choice consumes the `i`-th number. Counts are the
exact `satCount` (`Nat`); the comparison is written cross-multiplied so that everything stays in
`Nat`. (`F64` counts and the conversion of `WyRand` output to `f64` are outside the model.)

All statements are for arbitrary trees (no bound on depth, levels or counts).
-/
namespace OxiddModel.Bdd
open BDD

/-! ## vocabulary -/

/-- a number `num/den` delivered by the random source; `rng.generate::<f64>()` yields a value in
`[0,1)`, i.e. `num < den` -/
structure Frac where
  num : Nat
  den : Nat
deriving DecidableEq, Repr, Inhabited

/-- `r < t_count / (t_count + e_count)` over exact counts, cross-multiplied -/
def takeThen (r : Frac) (ct ce : Nat) : Bool := decide (r.num * (ct + ce) < ct * r.den)

/-- `pick_cube_edge::inner` with the closure of `pick_cube_uniform_edge` as `choice`: forced by a `⊥`
child, otherwise the next random number decides; a random number is consumed exactly when the
closure is called. An exhausted source delivers `0`. -/
def uniformPath (vars : Nat) : List Frac → BDD → List (Nat × Bool)
  | _, .leaf _ => []
  | rs, .node l t e =>
    let asked := t ≠ .leaf false ∧ e ≠ .leaf false
    let c := if t = .leaf false then false else if e = .leaf false then true
      else takeThen (rs.headD ⟨0, 1⟩) (satCount vars t) (satCount vars e)
    let rs' := if asked then rs.tail else rs
    if c then (l, true) :: uniformPath vars rs' t else (l, false) :: uniformPath vars rs' e

/-- `pick_cube_uniform_edge`: `None` for `⊥`, the all-don't-care vector for `⊤` -/
def pickUniform (vars : Nat) (rs : List Frac) (f : BDD) : Option (List (Nat × Bool)) :=
  match f with
  | .leaf false => none
  | _ => some (uniformPath vars rs f)

/-- the pairs `(t_count, e_count)` the closure computes, in the order in which it is consulted -/
def uniformCounts (vars : Nat) : List Frac → BDD → List (Nat × Nat)
  | _, .leaf _ => []
  | rs, .node _ t e =>
    if t = .leaf false then uniformCounts vars rs e
    else if e = .leaf false then uniformCounts vars rs t
    else
      (satCount vars t, satCount vars e) ::
        (if takeThen (rs.headD ⟨0, 1⟩) (satCount vars t) (satCount vars e)
          then uniformCounts vars rs.tail t else uniformCounts vars rs.tail e)

/-- probability with which the sampler takes value `b` at a node with children `t`, `e`:
`1`/`0` when forced, `count(child) / (count(t) + count(e))` otherwise. (For `r` uniform on `[0,1)`
the event `r < p` has probability `p`; `draw_count` below is the discrete form of this.) -/
def stepProb (vars : Nat) (t e : BDD) (b : Bool) : Nat × Nat :=
  if t = .leaf false then (if b then (0, 1) else (1, 1))
  else if e = .leaf false then (if b then (1, 1) else (0, 1))
  else (if b then satCount vars t else satCount vars e, satCount vars t + satCount vars e)

/-- `(numerator, denominator)` of the probability that the sampler returns the cube with decision
list `c`: the product of the branch probabilities along `c`; `0` if `c` is not a root-to-`⊤` path -/
def cubeProb (vars : Nat) : BDD → List (Nat × Bool) → Nat × Nat
  | .leaf b, [] => (if b then 1 else 0, 1)
  | .leaf _, _ :: _ => (0, 1)
  | .node _ _ _, [] => (0, 1)
  | .node l t e, (l', b) :: p =>
    if l' = l then
      ((stepProb vars t e b).1 * (cubeProb vars (if b then t else e) p).1,
       (stepProb vars t e b).2 * (cubeProb vars (if b then t else e) p).2)
    else (0, 1)

/-- `c` is a root-to-`⊤` path of `f` (the cubes the sampler can return, see `rootPath_returnable`) -/
def RootPath (f : BDD) (c : List (Nat × Bool)) : Prop := Walk (fun _ _ _ _ => True) f c (.leaf true)

/-- the path an assignment follows -/
def pathOf (σ : Nat → Bool) : BDD → List (Nat × Bool)
  | .leaf _ => []
  | .node l t e => (l, σ l) :: (if σ l then pathOf σ t else pathOf σ e)

theorem pathOf_node (σ : Nat → Bool) (l : Nat) (t e : BDD) :
    pathOf σ (.node l t e) = (l, σ l) :: pathOf σ (if σ l then t else e) := by
  rw [pathOf]; cases σ l <;> rfl

/-- probability of the *total* assignment `σ`: the probability of the cube `σ` lies in, times `1/2`
for every don't-care variable (completed by fair coin flips, as the doc comment of
`pick_cube_uniform` prescribes) -/
def modelProb (vars : Nat) (f : BDD) (σ : Nat → Bool) : Nat × Nat :=
  ((cubeProb vars f (pathOf σ f)).1,
   (cubeProb vars f (pathOf σ f)).2 * 2 ^ (vars - (pathOf σ f).length))

/-- all root-to-`⊤` paths -/
def rootPaths : BDD → List (List (Nat × Bool))
  | .leaf b => if b then [[]] else []
  | .node l t e => (rootPaths t).map ((l, true) :: ·) ++ (rootPaths e).map ((l, false) :: ·)

/-- addition of fractions `(num, den)` -/
def fracAdd (a b : Nat × Nat) : Nat × Nat := (a.1 * b.2 + b.1 * a.2, a.2 * b.2)

def fracSum (l : List (Nat × Nat)) : Nat × Nat := l.foldr fracAdd (0, 1)

/-! ## the sampler is `pick_cube` with *some* choice function -/

theorem uniformPath_node (vars : Nat) (rs : List Frac) (l : Nat) (t e : BDD) :
    uniformPath vars rs (.node l t e) =
      (l, dec (takeThen (rs.headD ⟨0, 1⟩) (satCount vars t) (satCount vars e)) t e) ::
        uniformPath vars (if t ≠ .leaf false ∧ e ≠ .leaf false then rs.tail else rs)
          (if dec (takeThen (rs.headD ⟨0, 1⟩) (satCount vars t) (satCount vars e)) t e then t else e) := by
  simp only [uniformPath, dec]
  by_cases h1 : t = .leaf false <;> by_cases h2 : e = .leaf false <;>
    cases takeThen (rs.headD ⟨0, 1⟩) (satCount vars t) (satCount vars e) <;> simp [h1, h2]

theorem pickPath_congr {n : Nat} {f : BDD} (ho : Ordered n f) (c1 c2 : Nat → Bool)
    (h : ∀ l, n ≤ l → c1 l = c2 l) : pickPath c1 f = pickPath c2 f := by
  induction ho with
  | leaf => rfl
  | @node n l t e hl _ _ iht ihe =>
    rw [pickPath_node, pickPath_node, h _ hl]
    cases dec (c2 l) t e
    · simp only [Bool.false_eq_true, if_false]; rw [ihe (fun l hl' => h l (by omega))]
    · simp only [if_true]; rw [iht (fun l hl' => h l (by omega))]

/-- on an ordered diagram every level is visited at most once, so the decisions taken from the
random source are those of a choice *function* of the level -/
theorem uniformPath_as_choice (vars : Nat) {n : Nat} {f : BDD} (ho : Ordered n f) (rs : List Frac) :
    ∃ choice : Nat → Bool, uniformPath vars rs f = pickPath choice f := by
  induction ho generalizing rs with
  | leaf => exact ⟨fun _ => false, by simp [uniformPath, pickPath]⟩
  | @node n l t e hl ht he iht ihe =>
    rw [uniformPath_node]
    generalize takeThen (rs.headD ⟨0, 1⟩) (satCount vars t) (satCount vars e) = c0
    generalize (if t ≠ .leaf false ∧ e ≠ .leaf false then rs.tail else rs) = rs'
    obtain ⟨ct, hct⟩ := iht rs'
    obtain ⟨ce, hce⟩ := ihe rs'
    cases h : dec c0 t e
    · refine ⟨fun x => if x = l then c0 else ce x, ?_⟩
      rw [pickPath_node]
      simp only [if_true, h, Bool.false_eq_true, if_false, hce]
      rw [pickPath_congr he ce (fun x => if x = l then c0 else ce x) (fun x hx => by simp; omega)]
    · refine ⟨fun x => if x = l then c0 else ct x, ?_⟩
      rw [pickPath_node]
      simp only [if_true, h, hct]
      rw [pickPath_congr ht ct (fun x => if x = l then c0 else ct x) (fun x hx => by simp; omega)]

/-! ## paths -/

theorem rootPath_nil {f : BDD} : RootPath f [] ↔ f = .leaf true := by
  cases f <;> simp [RootPath, Walk]

theorem rootPath_cons {l l' : Nat} {t e : BDD} {b : Bool} {p : List (Nat × Bool)} :
    RootPath (.node l t e) ((l', b) :: p) ↔ l' = l ∧ RootPath (if b then t else e) p := by
  simp [RootPath, Walk]

theorem rootPath_leaf_cons {b : Bool} {q : Nat × Bool} {p : List (Nat × Bool)} :
    ¬ RootPath (.leaf b) (q :: p) := by
  simp [RootPath, Walk]

/-- what the sampler returns is a root-to-`⊤` path -/
theorem uniformPath_rootPath (vars : Nat) (rs : List Frac) {f : BDD} (hr : Reduced f)
    (hs : f ≠ .leaf false) : RootPath f (uniformPath vars rs f) := by
  induction f generalizing rs with
  | leaf b => cases b <;> simp_all [uniformPath, rootPath_nil]
  | node l t e iht ihe =>
    rw [uniformPath_node, rootPath_cons]
    refine ⟨rfl, ?_⟩
    cases h : dec (takeThen (rs.headD ⟨0, 1⟩) (satCount vars t) (satCount vars e)) t e
    · simpa using ihe _ hr.2.2 (dec_false hr.1 h)
    · simpa using iht _ hr.2.1 (dec_true h)

/-- a root-to-`⊤` path of an ordered diagram below `vars` levels has at most `vars - m` entries -/
theorem rootPath_length {vars m : Nat} {f : BDD} (ho : Ordered m f) (hl : LevelsLt vars f)
    (hm : m ≤ vars) {c : List (Nat × Bool)} (hw : RootPath f c) : c.length + m ≤ vars := by
  induction ho generalizing c with
  | leaf => cases c with
    | nil => simpa using hm
    | cons q p => exact absurd hw rootPath_leaf_cons
  | @node m l t e hml _ _ iht ihe =>
    cases c with
    | nil => simpa using hm
    | cons q p =>
      obtain ⟨l', b⟩ := q
      rw [rootPath_cons] at hw
      have hlv : l < vars := hl.1
      cases b
      · have := ihe hl.2.2 (by omega) (by simpa using hw.2)
        simp only [List.length_cons]; omega
      · have := iht hl.2.1 (by omega) (by simpa using hw.2)
        simp only [List.length_cons]; omega

/-! ## counts -/

/-- every `>> 1` of `sat_count_edge` is exact: twice the count of a node is the sum of its
children's counts (all over `vars` variables) -/
theorem satCount_node_twice {vars m l : Nat} {t e : BDD} (ho : Ordered m (.node l t e))
    (hl : LevelsLt vars (.node l t e)) :
    2 * satCount vars (.node l t e) = satCount vars t + satCount vars e := by
  cases ho with
  | node hml ht he =>
    have hlv : l < vars := hl.1
    have h1 := satCount_eq_scaled ht hl.2.1 (by omega)
    have h2 := satCount_eq_scaled he hl.2.2 (by omega)
    simp only [satCount]
    rw [h1, h2, Nat.shiftRight_eq_div_pow, Nat.pow_one, ← Nat.mul_add, Nat.pow_succ,
      Nat.mul_comm (2 ^ l) 2, Nat.mul_assoc, Nat.mul_div_cancel_left _ (by omega)]

/-- the count of a reduced diagram other than `⊥` is positive -/
theorem satCount_pos {vars m : Nat} {f : BDD} (ho : Ordered m f) (hr : Reduced f)
    (hl : LevelsLt vars f) (hs : f ≠ .leaf false) : 0 < satCount vars f := by
  have h0 : Ordered 0 f := ho.mono (Nat.zero_le _)
  rw [satCount_eq_scaled h0 hl (Nat.zero_le _), Nat.pow_zero, Nat.one_mul]
  have := mt (countFrom_eq_zero_iff hr vars 0).mp hs
  omega

/-- the closure never divides by zero: every pair of counts it computes has both components
positive -/
theorem uniformCounts_pos {vars m : Nat} {f : BDD} (ho : Ordered m f) (hr : Reduced f)
    (hl : LevelsLt vars f) (rs : List Frac) :
    ∀ p ∈ uniformCounts vars rs f, 0 < p.1 ∧ 0 < p.2 := by
  induction ho generalizing rs with
  | leaf => simp [uniformCounts]
  | @node m l t e hml ht he iht ihe =>
    simp only [uniformCounts]
    split
    · exact ihe hr.2.2 hl.2.2 rs
    · split
      · exact iht hr.2.1 hl.2.1 rs
      · rename_i h1 h2
        intro p hp
        rcases List.mem_cons.mp hp with rfl | hp
        · exact ⟨satCount_pos ht hr.2.1 hl.2.1 h1, satCount_pos he hr.2.2 hl.2.2 h2⟩
        · split at hp
          · exact iht hr.2.1 hl.2.1 _ p hp
          · exact ihe hr.2.2 hl.2.2 _ p hp

/-! ## the telescoping product -/

theorem stepProb_den_pos {vars m l : Nat} {t e : BDD} (ho : Ordered m (.node l t e))
    (hr : Reduced (.node l t e)) (hl : LevelsLt vars (.node l t e)) (b : Bool) :
    0 < (stepProb vars t e b).2 := by
  unfold stepProb
  cases ho with
  | node _ ht he =>
    split
    · cases b <;> simp
    · split
      · cases b <;> simp
      · rename_i h1 h2
        have := satCount_pos ht hr.2.1 hl.2.1 h1
        simp only; omega

/-- one factor of the product: `P(b) · 2·count(node) = count(child) · den`, provided the branch is
not the impossible one -/
theorem stepProb_eq {vars m l : Nat} {t e : BDD} (ho : Ordered m (.node l t e))
    (hl : LevelsLt vars (.node l t e)) (b : Bool) (hne : (if b then t else e) ≠ .leaf false) :
    (stepProb vars t e b).1 * (2 * satCount vars (.node l t e)) =
      satCount vars (if b then t else e) * (stepProb vars t e b).2 := by
  rw [satCount_node_twice ho hl]
  unfold stepProb
  by_cases h1 : t = .leaf false
  · subst h1
    cases b
    · simp [satCount]
    · simp at hne
  · by_cases h2 : e = .leaf false
    · subst h2
      cases b
      · simp at hne
      · simp [h1, satCount]
    · cases b <;> simp [h1, h2]

theorem rootPath_ne_false {f : BDD} {c : List (Nat × Bool)} (hw : RootPath f c) : f ≠ .leaf false := by
  cases c with
  | nil => rw [rootPath_nil] at hw; subst hw; simp
  | cons q p =>
    cases f with
    | leaf b => exact absurd hw rootPath_leaf_cons
    | node l t e => simp

/-- **telescoping**: along a root-to-`⊤` path `c` the product of the branch probabilities times
`count(root) · 2^|c|` is `count(⊤) = 2^vars` -/
theorem cubeProb_telescope {vars m : Nat} {f : BDD} (ho : Ordered m f) (hr : Reduced f)
    (hl : LevelsLt vars f) {c : List (Nat × Bool)} (hw : RootPath f c) :
    (cubeProb vars f c).1 * satCount vars f * 2 ^ c.length = 2 ^ vars * (cubeProb vars f c).2 ∧
      0 < (cubeProb vars f c).2 := by
  induction ho generalizing c with
  | @leaf m b =>
    cases c with
    | nil => rw [rootPath_nil] at hw; cases hw; simp [cubeProb, satCount]
    | cons q p => exact absurd hw rootPath_leaf_cons
  | @node m l t e hml ht he iht ihe =>
    cases c with
    | nil => rw [rootPath_nil] at hw; cases hw
    | cons q p =>
      obtain ⟨l', b⟩ := q
      rw [rootPath_cons] at hw
      obtain ⟨rfl, hw⟩ := hw
      have hne := rootPath_ne_false hw
      have hs := stepProb_eq (.node hml ht he) hl b hne
      have hd := stepProb_den_pos (.node hml ht he) hr hl b
      have ih : (cubeProb vars (if b then t else e) p).1 * satCount vars (if b then t else e) * 2 ^ p.length
            = 2 ^ vars * (cubeProb vars (if b then t else e) p).2 ∧
          0 < (cubeProb vars (if b then t else e) p).2 := by
        cases b
        · exact ihe hr.2.2 hl.2.2 (by simpa using hw)
        · exact iht hr.2.1 hl.2.1 (by simpa using hw)
      simp only [cubeProb, if_true, List.length_cons]
      generalize (stepProb vars t e b).1 = sn at hs hd ⊢
      generalize (stepProb vars t e b).2 = sd at hs hd ⊢
      generalize (cubeProb vars (if b then t else e) p).1 = rn at ih ⊢
      generalize (cubeProb vars (if b then t else e) p).2 = rd at ih ⊢
      generalize satCount vars (if b then t else e) = cc at hs ih
      generalize satCount vars (BDD.node l' t e) = cn at hs ⊢
      refine ⟨?_, Nat.mul_pos hd ih.2⟩
      calc sn * rn * cn * 2 ^ (p.length + 1)
          = (sn * (2 * cn)) * (rn * 2 ^ p.length) := by rw [Nat.pow_succ]; ac_rfl
        _ = (cc * sd) * (rn * 2 ^ p.length) := by rw [hs]
        _ = sd * (rn * cc * 2 ^ p.length) := by ac_rfl
        _ = sd * (2 ^ vars * rd) := by rw [ih.1]
        _ = 2 ^ vars * (sd * rd) := by ac_rfl

/-! ## models and their cubes -/

theorem pathOf_rootPath (σ : Nat → Bool) (f : BDD) (h : f.eval σ = true) : RootPath f (pathOf σ f) := by
  induction f with
  | leaf b => simp_all [pathOf, rootPath_nil, eval]
  | node l t e iht ihe =>
    simp only [pathOf_node, rootPath_cons, true_and]
    simp only [eval] at h
    cases hσ : σ l <;> simp_all

theorem pathOf_cubeSem (σ : Nat → Bool) (f : BDD) : cubeSem (pathOf σ f) σ := by
  induction f with
  | leaf b => exact cubeSem_nil σ
  | node l t e iht ihe =>
    simp only [pathOf_node, cubeSem_cons, true_and]
    cases σ l <;> simpa

/-- the root-to-`⊤` paths are pairwise disjoint cubes: the only one a given assignment satisfies is
the path it follows -/
theorem rootPath_unique {f : BDD} {c : List (Nat × Bool)} (hw : RootPath f c) (σ : Nat → Bool)
    (hσ : cubeSem c σ) : c = pathOf σ f := by
  induction f generalizing c with
  | leaf b =>
    cases c with
    | nil => rfl
    | cons q p => exact absurd hw rootPath_leaf_cons
  | node l t e iht ihe =>
    cases c with
    | nil => rw [rootPath_nil] at hw; cases hw
    | cons q p =>
      obtain ⟨l', b⟩ := q
      rw [rootPath_cons] at hw
      obtain ⟨rfl, hw⟩ := hw
      rw [cubeSem_cons] at hσ
      simp only [pathOf_node, hσ.1]
      cases b
      · simp only [Bool.false_eq_true, if_false] at hw ⊢; rw [ihe hw hσ.2]
      · simp only [if_true] at hw ⊢; rw [iht hw hσ.2]

/-- a root-to-`⊤` path implies the function -/
theorem rootPath_implies {f : BDD} {c : List (Nat × Bool)} (hw : RootPath f c) (σ : Nat → Bool)
    (hσ : cubeSem c σ) : f.eval σ = true := by
  induction f generalizing c with
  | leaf b =>
    cases c with
    | nil => rw [rootPath_nil] at hw; cases hw; rfl
    | cons q p => exact absurd hw rootPath_leaf_cons
  | node l t e iht ihe =>
    cases c with
    | nil => rw [rootPath_nil] at hw; cases hw
    | cons q p =>
      obtain ⟨l', b⟩ := q
      rw [rootPath_cons] at hw
      obtain ⟨rfl, hw⟩ := hw
      rw [cubeSem_cons] at hσ
      simp only [eval, hσ.1]
      cases b
      · simp only [Bool.false_eq_true, if_false] at hw ⊢; exact ihe hw hσ.2
      · simp only [if_true] at hw ⊢; exact iht hw hσ.2

theorem cubeProb_pathOf_nonmodel (vars : Nat) (σ : Nat → Bool) (f : BDD) (h : f.eval σ = false) :
    (cubeProb vars f (pathOf σ f)).1 = 0 := by
  induction f with
  | leaf b => simp_all [pathOf, cubeProb, eval]
  | node l t e iht ihe =>
    simp only [eval] at h
    simp only [pathOf_node, cubeProb, if_true]
    cases hσ : σ l <;> simp_all

/-! ## every path can be returned -/

/-- a random number that makes the closure answer `b` (`0` for then, `ct/(ct+ce)` for else) -/
def drawFor (ct ce : Nat) (b : Bool) : Frac := if b then ⟨0, 1⟩ else ⟨ct, ct + ce⟩

theorem takeThen_drawFor {ct ce : Nat} (hct : 0 < ct) (b : Bool) :
    takeThen (drawFor ct ce b) ct ce = b := by
  cases b
  · simp [takeThen, drawFor]
  · simp [takeThen, drawFor, hct]

theorem drawFor_lt {ct ce : Nat} (hce : 0 < ce) (b : Bool) :
    (drawFor ct ce b).num < (drawFor ct ce b).den := by
  cases b <;> simp [drawFor, hce]

/-- the random numbers that lead the sampler along a given path -/
def drawsFor (vars : Nat) : BDD → List (Nat × Bool) → List Frac
  | .node _ t e, (_, b) :: p =>
    if t = .leaf false ∨ e = .leaf false then drawsFor vars (if b then t else e) p
    else drawFor (satCount vars t) (satCount vars e) b :: drawsFor vars (if b then t else e) p
  | _, _ => []

theorem drawsFor_spec {vars m : Nat} {f : BDD} (ho : Ordered m f) (hr : Reduced f)
    (hl : LevelsLt vars f) {c : List (Nat × Bool)} (hw : RootPath f c) :
    uniformPath vars (drawsFor vars f c) f = c ∧ ∀ r ∈ drawsFor vars f c, r.num < r.den := by
  induction ho generalizing c with
  | @leaf m b =>
    cases c with
    | nil => simp [uniformPath, drawsFor]
    | cons q p => exact absurd hw rootPath_leaf_cons
  | @node m l t e hml ht he iht ihe =>
    cases c with
    | nil => rw [rootPath_nil] at hw; cases hw
    | cons q p =>
      obtain ⟨l', b⟩ := q
      rw [rootPath_cons] at hw
      obtain ⟨rfl, hw⟩ := hw
      have hne := rootPath_ne_false hw
      have ih : uniformPath vars (drawsFor vars (if b then t else e) p) (if b then t else e) = p ∧
          ∀ r ∈ drawsFor vars (if b then t else e) p, r.num < r.den := by
        cases b
        · exact ihe hr.2.2 hl.2.2 (by simpa using hw)
        · exact iht hr.2.1 hl.2.1 (by simpa using hw)
      rw [uniformPath_node]
      by_cases h1 : t = .leaf false
      · subst h1
        have hb : b = false := by cases b <;> simp_all
        subst hb
        simp only [drawsFor, true_or, if_true, dec, Bool.false_eq_true, if_false, ne_eq,
          not_true_eq_false, false_and] at ih ⊢
        exact ⟨by rw [ih.1], ih.2⟩
      · by_cases h2 : e = .leaf false
        · subst h2
          have hb : b = true := by cases b <;> simp_all
          subst hb
          simp only [drawsFor, or_true, if_true, dec, h1, if_false, ne_eq, not_true_eq_false,
            and_false] at ih ⊢
          exact ⟨by rw [ih.1], ih.2⟩
        · have hct := satCount_pos ht hr.2.1 hl.2.1 h1
          have hce := satCount_pos he hr.2.2 hl.2.2 h2
          simp only [drawsFor, h1, h2, or_self, if_false, dec, ne_eq, not_false_eq_true, and_self,
            if_true, List.headD_cons, List.tail_cons, takeThen_drawFor hct b]
          refine ⟨by rw [ih.1], ?_⟩
          intro r hr'
          rcases List.mem_cons.mp hr' with rfl | hr'
          · exact drawFor_lt hce b
          · exact ih.2 r hr'

/-! ## enumeration of the cubes and the total probability -/

theorem mem_rootPaths {f : BDD} {c : List (Nat × Bool)} : c ∈ rootPaths f ↔ RootPath f c := by
  induction f generalizing c with
  | leaf b =>
    cases b
    · simp only [rootPaths, Bool.false_eq_true, if_false, List.not_mem_nil, false_iff]
      intro h
      exact rootPath_ne_false h rfl
    · cases c with
      | nil => simp [rootPaths, rootPath_nil]
      | cons q p => simp [rootPaths, rootPath_leaf_cons]
  | node l t e iht ihe =>
    cases c with
    | nil => simp [rootPaths, rootPath_nil]
    | cons q p =>
      obtain ⟨l', b⟩ := q
      simp only [rootPaths, List.mem_append, List.mem_map, List.cons.injEq, Prod.mk.injEq,
        rootPath_cons]
      constructor
      · rintro (⟨a, ha, ⟨rfl, rfl⟩, rfl⟩ | ⟨a, ha, ⟨rfl, rfl⟩, rfl⟩)
        · exact ⟨rfl, by simpa using iht.mp ha⟩
        · exact ⟨rfl, by simpa using ihe.mp ha⟩
      · rintro ⟨rfl, h⟩
        cases b
        · exact .inr ⟨p, ihe.mpr (by simpa using h), ⟨rfl, rfl⟩, rfl⟩
        · exact .inl ⟨p, iht.mpr (by simpa using h), ⟨rfl, rfl⟩, rfl⟩

theorem rootPaths_nodup (f : BDD) : (rootPaths f).Nodup := by
  induction f with
  | leaf b => cases b <;> simp [rootPaths]
  | node l t e iht ihe =>
    simp only [rootPaths]
    rw [List.nodup_append]
    refine ⟨?_, ?_, ?_⟩
    · exact List.Pairwise.map _ (fun a b h => by simpa using h) iht
    · exact List.Pairwise.map _ (fun a b h => by simpa using h) ihe
    · intro a ha b hb
      simp only [List.mem_map] at ha hb
      obtain ⟨_, _, rfl⟩ := ha
      obtain ⟨_, _, rfl⟩ := hb
      simp

/-- the weight `2^(number of don't cares)` of a cube -/
def cubeWeight (vars : Nat) (c : List (Nat × Bool)) : Nat := 2 ^ (vars - c.length)

def natSum (l : List Nat) : Nat := l.foldr (· + ·) 0

theorem natSum_append (a b : List Nat) : natSum (a ++ b) = natSum a + natSum b := by
  induction a with
  | nil => simp [natSum]
  | cons x a ih => simp only [natSum, List.cons_append, List.foldr_cons] at ih ⊢; omega

theorem natSum_weights_cons (vars : Nat) (q : Nat × Bool) (ps : List (List (Nat × Bool)))
    (h : ∀ p ∈ ps, p.length < vars) :
    2 * natSum ((ps.map (q :: ·)).map (cubeWeight vars)) = natSum (ps.map (cubeWeight vars)) := by
  induction ps with
  | nil => simp [natSum]
  | cons p ps ih =>
    have hp := h p (List.mem_cons_self ..)
    have ih' := ih (fun x hx => h x (List.mem_cons_of_mem _ hx))
    simp only [List.map_cons, natSum, List.foldr_cons, cubeWeight, List.length_cons] at ih' ⊢
    have e : vars - p.length = (vars - (p.length + 1)) + 1 := by omega
    rw [e, Nat.pow_succ]
    omega

/-- the cubes the sampler can return partition the models: their weights `2^(don't cares)` sum to
the model count -/
theorem rootPaths_weight {vars m : Nat} {f : BDD} (ho : Ordered m f) (hl : LevelsLt vars f)
    (hm : m ≤ vars) : natSum ((rootPaths f).map (cubeWeight vars)) = satCount vars f := by
  induction ho with
  | @leaf m b => cases b <;> simp [rootPaths, natSum, cubeWeight, satCount]
  | @node m l t e hml ht he iht ihe =>
    have hlv : l < vars := hl.1
    have h2 := satCount_node_twice (.node hml ht he) hl
    have ht' := iht hl.2.1 (by omega)
    have he' := ihe hl.2.2 (by omega)
    have lt : ∀ p ∈ rootPaths t, p.length < vars := fun p hp => by
      have := rootPath_length ht hl.2.1 (by omega) (mem_rootPaths.mp hp); omega
    have le : ∀ p ∈ rootPaths e, p.length < vars := fun p hp => by
      have := rootPath_length he hl.2.2 (by omega) (mem_rootPaths.mp hp); omega
    have w1 := natSum_weights_cons vars (l, true) (rootPaths t) lt
    have w2 := natSum_weights_cons vars (l, false) (rootPaths e) le
    simp only [rootPaths, List.map_append, natSum_append]
    omega

/-- summing fractions each of which is `w_i / C` gives `(Σ w_i) / C` -/
theorem fracSum_weights {α : Type} (C : Nat) (P : α → Nat × Nat) (w : α → Nat) (cs : List α)
    (h : ∀ c ∈ cs, (P c).1 * C = w c * (P c).2 ∧ 0 < (P c).2) :
    (fracSum (cs.map P)).1 * C = natSum (cs.map w) * (fracSum (cs.map P)).2 ∧
      0 < (fracSum (cs.map P)).2 := by
  induction cs with
  | nil => simp [fracSum, natSum]
  | cons c cs ih =>
    have hx := h c (List.mem_cons_self ..)
    have ih := ih (fun x hx => h x (List.mem_cons_of_mem _ hx))
    simp only [fracSum, natSum, List.map_cons, List.foldr_cons, fracAdd] at ih ⊢
    generalize (List.foldr fracAdd (0, 1) (cs.map P)).1 = sn at ih ⊢
    generalize (List.foldr fracAdd (0, 1) (cs.map P)).2 = sd at ih ⊢
    generalize List.foldr (· + ·) 0 (cs.map w) = W at ih ⊢
    generalize (P c).1 = xn at hx ⊢
    generalize (P c).2 = xd at hx ⊢
    generalize w c = wc at hx ⊢
    refine ⟨?_, Nat.mul_pos hx.2 ih.2⟩
    calc (xn * sd + sn * xd) * C = (xn * C) * sd + (sn * C) * xd := by
            rw [Nat.add_mul]; congr 1 <;> ac_rfl
      _ = (wc * xd) * sd + (W * sd) * xd := by rw [hx.1, ih.1]
      _ = (wc + W) * (xd * sd) := by rw [Nat.add_mul]; congr 1 <;> ac_rfl

/-! ## one draw, discretised -/

/-- number of `i < n` with `p i` -/
def countBelow (p : Nat → Bool) : Nat → Nat
  | 0 => 0
  | n + 1 => countBelow p n + (if p n then 1 else 0)

theorem countBelow_lt (k : Nat) : ∀ n, countBelow (fun i => decide (i < k)) n = min n k := by
  intro n
  induction n with
  | zero => simp [countBelow]
  | succ n ih =>
    simp only [countBelow, ih]
    by_cases h : n < k
    · simp [h]; omega
    · simp [h]; omega

/-- **one draw**: if the random source delivers `i/N` for `i` uniform in `0..N` and `N` is a multiple
`q·(ct+ce)` of the denominator, exactly `q·ct` of the `N` values make the closure answer "then" -/
theorem draw_count (ct ce q : Nat) (h : 0 < ct + ce) :
    countBelow (fun i => takeThen ⟨i, q * (ct + ce)⟩ ct ce) (q * (ct + ce)) = q * ct := by
  have e : (fun i => takeThen ⟨i, q * (ct + ce)⟩ ct ce) = fun i => decide (i < q * ct) := by
    funext i
    simp only [takeThen]
    congr 1
    apply propext
    have e1 : ct * (q * (ct + ce)) = (q * ct) * (ct + ce) := by ac_rfl
    rw [e1]
    exact ⟨fun hh => Nat.lt_of_mul_lt_mul_right hh, fun hh => Nat.mul_lt_mul_of_pos_right hh h⟩
  rw [e, countBelow_lt]
  apply Nat.min_eq_right
  rw [Nat.mul_add]; omega

end OxiddModel.Bdd
