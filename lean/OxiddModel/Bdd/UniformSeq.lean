import OxiddModel.Bdd.Uniform

/-!
# Uniform cube picking without probabilities: counting random sequences (C13)

A measure-free form of "selects models without bias". Let the random source deliver `i/N` with `i`
one of the `N` equally likely values `0, …, N-1` per draw, and consider all `N^m` sequences of `m`
draws. If `N` is a multiple of every denominator `t_count + e_count` met on the path of a cube `c`
(and `m` is at least the number of draws the path consumes), then the **number** of sequences on
which the sampler returns `c` is exactly `N^m · 2^k / satCount vars f` (`k` don't cares): each model
is produced by the same number of (sequence, coin flips) outcomes.
-/
namespace OxiddModel.Bdd
open BDD

/-- all sequences of length `m` over `0, …, N-1` -/
def seqs (N : Nat) : Nat → List (List Nat)
  | 0 => [[]]
  | m + 1 => (List.range N).flatMap (fun i => (seqs N m).map (i :: ·))

/-- the random source `i_1/N, i_2/N, …` -/
def toFracs (N : Nat) (is : List Nat) : List Frac := is.map (fun i => ⟨i, N⟩)

/-- number of draws the sampler consumes along `c` -/
def choicesOn : BDD → List (Nat × Bool) → Nat
  | .node _ t e, (_, b) :: p =>
    (if t = .leaf false ∨ e = .leaf false then 0 else 1) + choicesOn (if b then t else e) p
  | _, _ => 0

/-- `N` is a multiple of every denominator `t_count + e_count` the closure forms along `c` -/
def DenomsDivide (vars N : Nat) : BDD → List (Nat × Bool) → Prop
  | .node _ t e, (_, b) :: p =>
    (t ≠ .leaf false → e ≠ .leaf false → ∃ q, N = q * (satCount vars t + satCount vars e)) ∧
      DenomsDivide vars N (if b then t else e) p
  | _, _ => True

/-- number of sequences of `m` draws on which the sampler returns `c` -/
def hits (vars N m : Nat) (f : BDD) (c : List (Nat × Bool)) : Nat :=
  (seqs N m).countP (fun is => uniformPath vars (toFracs N is) f = c)

/-- `Σ_{i<n} g i` -/
def sumBelow (g : Nat → Nat) : Nat → Nat
  | 0 => 0
  | n + 1 => sumBelow g n + g n

theorem countP_flatMap_range (L : List (List Nat)) (P : List Nat → Bool) (n : Nat) :
    ((List.range n).flatMap (fun i => L.map (i :: ·))).countP P =
      sumBelow (fun i => L.countP (fun is => P (i :: is))) n := by
  induction n with
  | zero => simp [sumBelow]
  | succ n ih =>
    rw [List.range_succ, List.flatMap_append, List.countP_append, ih]
    simp only [sumBelow, List.flatMap_cons, List.flatMap_nil, List.append_nil, List.countP_map]
    rfl

theorem countP_seqs_succ (N m : Nat) (P : List Nat → Bool) :
    (seqs N (m + 1)).countP P = sumBelow (fun i => (seqs N m).countP (fun is => P (i :: is))) N := by
  simp only [seqs]
  exact countP_flatMap_range (seqs N m) P N

theorem sumBelow_ite (test : Nat → Bool) (K : Nat) (n : Nat) :
    sumBelow (fun i => if test i then K else 0) n = K * countBelow test n := by
  induction n with
  | zero => simp [sumBelow, countBelow]
  | succ n ih =>
    simp only [sumBelow, countBelow, ih, Nat.mul_add]
    cases test n <;> simp

theorem seqs_length (N m : Nat) : (seqs N m).length = N ^ m := by
  induction m with
  | zero => simp [seqs]
  | succ m ih =>
    have : ∀ n, ((List.range n).flatMap (fun i => (seqs N m).map (i :: ·))).length = n * N ^ m := by
      intro n
      induction n with
      | zero => simp
      | succ n ihn =>
        rw [List.range_succ, List.flatMap_append, List.length_append, ihn]
        simp [ih, Nat.succ_mul]
    rw [seqs, this, Nat.pow_succ, Nat.mul_comm]

theorem countBelow_not (p : Nat → Bool) (n : Nat) :
    countBelow (fun i => !p i) n + countBelow p n = n := by
  induction n with
  | zero => rfl
  | succ n ih =>
    simp only [countBelow]
    rcases Bool.eq_false_or_eq_true (p n) with h | h <;> simp [h] <;> omega

/-- one draw, both directions: `q·count(chosen child)` of the `N = q·(ct+ce)` values choose `b` -/
theorem draw_count_dir (ct ce q : Nat) (h : 0 < ct + ce) (b : Bool) :
    countBelow (fun i => takeThen ⟨i, q * (ct + ce)⟩ ct ce == b) (q * (ct + ce)) =
      q * (if b then ct else ce) := by
  have h1 := draw_count ct ce q h
  cases b
  · have h2 := countBelow_not (fun i => takeThen ⟨i, q * (ct + ce)⟩ ct ce) (q * (ct + ce))
    have e : (fun i => takeThen ⟨i, q * (ct + ce)⟩ ct ce == false) =
        fun i => !takeThen ⟨i, q * (ct + ce)⟩ ct ce := by
      funext i; cases takeThen ⟨i, q * (ct + ce)⟩ ct ce <;> rfl
    rw [e]
    simp only [Bool.false_eq_true, if_false]
    rw [h1] at h2
    have e3 : q * (ct + ce) = q * ct + q * ce := Nat.mul_add ..
    generalize countBelow (fun i => !takeThen ⟨i, q * (ct + ce)⟩ ct ce) (q * (ct + ce)) = X at h2 ⊢
    omega
  · have e : (fun i => takeThen ⟨i, q * (ct + ce)⟩ ct ce == true) =
        fun i => takeThen ⟨i, q * (ct + ce)⟩ ct ce := by
      funext i; cases takeThen ⟨i, q * (ct + ce)⟩ ct ce <;> rfl
    rw [e, h1]; rfl

/-- the counting form of the telescoping argument -/
theorem hits_telescope {vars m0 : Nat} {f : BDD} (ho : Ordered m0 f) (hr : Reduced f)
    (hl : LevelsLt vars f) (N : Nat) {c : List (Nat × Bool)} (hw : RootPath f c)
    (hd : DenomsDivide vars N f c) (m : Nat) (hm : choicesOn f c ≤ m) :
    hits vars N m f c * satCount vars f * 2 ^ c.length = N ^ m * 2 ^ vars := by
  induction ho generalizing c m with
  | @leaf m0 b =>
    cases c with
    | nil =>
      rw [rootPath_nil] at hw; cases hw
      simp [hits, uniformPath, satCount, seqs_length]
    | cons q p => exact absurd hw rootPath_leaf_cons
  | @node m0 l t e hml ht he iht ihe =>
    cases c with
    | nil => rw [rootPath_nil] at hw; cases hw
    | cons q p =>
      obtain ⟨l', b⟩ := q
      rw [rootPath_cons] at hw
      obtain ⟨rfl, hw⟩ := hw
      have hne := rootPath_ne_false hw
      have h2 := satCount_node_twice (.node hml ht he) hl
      simp only [DenomsDivide] at hd
      simp only [choicesOn] at hm
      have ih : ∀ m', choicesOn (if b then t else e) p ≤ m' →
          hits vars N m' (if b then t else e) p * satCount vars (if b then t else e) * 2 ^ p.length
            = N ^ m' * 2 ^ vars := by
        intro m' hm'
        cases b
        · exact ihe hr.2.2 hl.2.2 (by simpa using hw) (by simpa using hd.2) m' (by simpa using hm')
        · exact iht hr.2.1 hl.2.1 (by simpa using hw) (by simpa using hd.2) m' (by simpa using hm')
      by_cases hf : t = .leaf false ∨ e = .leaf false
      · -- forced step: no draw is consumed
        have hb : dec false t e = b ∧ ∀ c0, dec c0 t e = b := by
          rcases hf with h | h
          · subst h
            cases b
            · simp [dec]
            · simp at hne
          · subst h
            have : t ≠ .leaf false := hr.1
            cases b
            · simp at hne
            · simp [dec, this]
        have hh : hits vars N m (.node l' t e) ((l', b) :: p) = hits vars N m (if b then t else e) p := by
          unfold hits
          congr 1
          funext is
          rw [uniformPath_node, hb.2]
          have : ¬(t ≠ .leaf false ∧ e ≠ .leaf false) := by
            rcases hf with h | h <;> simp [h]
          simp [this]
        have hm' : choicesOn (if b then t else e) p ≤ m := by simp only [hf, if_true] at hm; omega
        have hcount : 2 * satCount vars (.node l' t e) = satCount vars (if b then t else e) := by
          rw [h2]
          rcases hf with h | h
          · subst h
            cases b
            · simp [satCount]
            · simp at hne
          · subst h
            cases b
            · simp at hne
            · simp [satCount]
        rw [hh, List.length_cons, ← ih m hm']
        generalize hits vars N m (if b then t else e) p = H
        rw [← hcount, Nat.pow_succ]
        ac_rfl
      · -- the closure is consulted: one draw
        have h1 : t ≠ .leaf false := fun h => hf (.inl h)
        have h2' : e ≠ .leaf false := fun h => hf (.inr h)
        obtain ⟨q, hq⟩ := hd.1 h1 h2'
        simp only [hf, if_false] at hm
        obtain ⟨m', rfl⟩ : ∃ m', m = m' + 1 := ⟨m - 1, by omega⟩
        have hm' : choicesOn (if b then t else e) p ≤ m' := by omega
        have hct := satCount_pos ht hr.2.1 hl.2.1 h1
        have hh : hits vars N (m' + 1) (.node l' t e) ((l', b) :: p) =
            hits vars N m' (if b then t else e) p *
              countBelow (fun i => takeThen ⟨i, N⟩ (satCount vars t) (satCount vars e) == b) N := by
          unfold hits
          rw [countP_seqs_succ, ← sumBelow_ite]
          congr 1
          funext i
          have key : ∀ is : List Nat,
              decide (uniformPath vars (toFracs N (i :: is)) (.node l' t e) = (l', b) :: p) =
                ((takeThen ⟨i, N⟩ (satCount vars t) (satCount vars e) == b) &&
                  decide (uniformPath vars (toFracs N is) (if b then t else e) = p)) := by
            intro is
            rw [uniformPath_node]
            simp only [toFracs, List.map_cons, List.headD_cons, List.tail_cons, ne_eq, h1, h2',
              not_false_eq_true, and_self, if_true, dec, if_false]
            generalize takeThen ⟨i, N⟩ (satCount vars t) (satCount vars e) = tk
            cases tk <;> cases b <;> simp
          simp only [key]
          cases takeThen ⟨i, N⟩ (satCount vars t) (satCount vars e) == b <;> simp
        rw [hh, List.length_cons]
        have hdc := draw_count_dir (satCount vars t) (satCount vars e) q (by omega) b
        rw [← hq] at hdc
        rw [hdc]
        have ihm := ih m' hm'
        have hcb : (if b then satCount vars t else satCount vars e) = satCount vars (if b then t else e) := by
          cases b <;> rfl
        rw [hcb]
        generalize hits vars N m' (if b then t else e) p = H at ihm ⊢
        generalize satCount vars (if b then t else e) = cb at ihm ⊢
        generalize satCount vars (.node l' t e) = cn at h2 ⊢
        calc H * (q * cb) * cn * 2 ^ (p.length + 1)
            = (q * (2 * cn)) * (H * cb * 2 ^ p.length) := by rw [Nat.pow_succ]; ac_rfl
          _ = N * (N ^ m' * 2 ^ vars) := by rw [h2, ← hq, ihm]
          _ = N ^ (m' + 1) * 2 ^ vars := by rw [Nat.pow_succ]; ac_rfl

end OxiddModel.Bdd
