import OxiddModel.Bdd.ApplyQuantS
import OxiddModel.Bdd.RestrictS
import OxiddModel.Bdd.SubstS
import OxiddModel.Bdd.PropertiesC06

/-!
# Concrete stores and defective variants for the negative witnesses of `PropertiesC04S.lean`

Supporting definitions only; the witness theorems themselves are headline theorems in
`PropertiesC04S.lean`.

* `unfold?` / `unfold?_sound`: deciding `Denotes` on concrete stores.
* `exS`: a store with `x1`, `x0 ∧ x1`, `x0 ∨ x1`, `¬x1` used by the non-vacuity examples.
* `quantS_noVars`, `restrictS_noCube`: the algorithms with the variable set / cube **dropped from
  the cache key** (the seeded defect of round 1), used by `quant_key_without_vars_unsound` and
  `restrict_key_without_cube_unsound`.
* `exSub1/2`, `exSv1/2`: two replacement vectors for `subst_id_reuse_unsound` (the seeded defect of
  round 2: substitution ids that are not unique).
* `gS`, `gCache`: the store and the sound but not closed one-entry cache of
  `quant_ids_depend_on_cache`.
-/
namespace OxiddModel.Bdd.C04SW
open OxiddModel.Bdd OxiddModel.Bdd.BDD OxiddModel.Bdd.Refine

/-! ## deciding `Denotes` on concrete stores -/

/-- unfold an edge into the tree it denotes -/
def unfold? (s : Store) : Nat → Edge → Option BDD
  | _, .term b => some (.leaf b)
  | 0, .inner _ => none
  | fuel+1, .inner i =>
    match s.get? i with
    | none => none
    | some n =>
      match unfold? s fuel n.t, unfold? s fuel n.e with
      | some t, some e => some (.node n.level t e)
      | _, _ => none

theorem unfold?_sound {s : Store} (fuel : Nat) : ∀ {x : Edge} {a : BDD},
    unfold? s fuel x = some a → Denotes s x a := by
  induction fuel with
  | zero =>
    intro x a h
    cases x with
    | term b => simp only [unfold?, Option.some.injEq] at h; subst h; exact .term
    | inner i => simp [unfold?] at h
  | succ fuel ih =>
    intro x a h
    cases x with
    | term b => simp only [unfold?, Option.some.injEq] at h; subst h; exact .term
    | inner i =>
      simp only [unfold?] at h
      cases hi : s.get? i with
      | none => simp [hi] at h
      | some n =>
        simp only [hi] at h
        cases ht : unfold? s fuel n.t with
        | none => simp [ht] at h
        | some t =>
          cases he : unfold? s fuel n.e with
          | none => simp [ht, he] at h
          | some e =>
            simp only [ht, he, Option.some.injEq] at h
            subst h
            obtain ⟨l, nt, ne⟩ := n
            exact .inner hi (ih ht) (ih he)

/-! ## the example store -/

/-- `x1` (as a variable set: `{x1}`) -/
def exX1 : BDD := .node 1 (.leaf true) (.leaf false)
/-- `x0 ∧ x1` (as a variable set: `{x0, x1}`) -/
def exAnd : BDD := .node 0 exX1 (.leaf false)
/-- `x0 ∨ x1` -/
def exOr : BDD := .node 0 (.leaf true) exX1
/-- `¬x1` (as a literal cube: `x1 = ⊥`) -/
def exNX1 : BDD := .node 1 (.leaf false) (.leaf true)

/-- `#0 = x1`, `#1 = x0 ∧ x1`, `#2 = x0 ∨ x1`, `#3 = ¬x1` -/
def exS : Store := (intern (intern (intern ⟨#[]⟩ exAnd).1 exOr).1 exNX1).1

example : exS.nodes =
    #[some ⟨1, .term true, .term false⟩, some ⟨0, .inner 0, .term false⟩,
      some ⟨0, .term true, .inner 0⟩, some ⟨1, .term false, .term true⟩] := by decide +kernel

theorem exS_unique : exS.Unique :=
  intern_unique _ _ (intern_unique _ _ (intern_unique _ _ C06.empty_unique))
theorem exS_nored : exS.NoRed :=
  intern_nored _ _ (intern_nored _ _ (intern_nored _ _ C06.empty_nored))

theorem exS_x1 : Denotes exS (.inner 0) exX1 := unfold?_sound 3 (by decide +kernel)
theorem exS_and : Denotes exS (.inner 1) exAnd := unfold?_sound 3 (by decide +kernel)
theorem exS_or : Denotes exS (.inner 2) exOr := unfold?_sound 3 (by decide +kernel)
theorem exS_nx1 : Denotes exS (.inner 3) exNX1 := unfold?_sound 3 (by decide +kernel)

/-- any registry will do where no substitution is involved -/
def reg0 : Nat → List BDD := fun _ => []

theorem exS_inv (reg : Nat → List BDD) : InvX reg ⟨exS, [], 0⟩ := ⟨exS_unique, CacheOKX.nil _ _⟩

/-! ## `quant` with the variable set dropped from the key -/

/-- `quantS` with the defective key `(Forall|Exists|Unique, [f])` -/
def quantS_noVars (p : Policy) (q : Quant) (af : Nat) : Nat → St → Edge → Edge → St × Edge
  | 0, st, f, _ => (st, f)
  | fuel+1, st, f, vars =>
    match f with
    | .term _ =>
      if q ≠ .unique || vars.isTerm then (st, f) else (st, .term false)
    | .inner i =>
      match st.store.get? i with
      | none => (st, f)
      | some fn =>
        let vars := if q ≠ .unique then st.store.setPopS af vars fn.level else vars
        match vars with
        | .term _ => (st, f)
        | .inner j =>
          match st.store.get? j with
          | none => (st, f)
          | some vn =>
            if q = .unique ∧ vn.level < fn.level then (st, .term false) else
            match p.get st.tick st.cache (encKey ⟨.quant q, [f], []⟩) with
            | some r => (st.tickd, r)
            | none =>
              let vt := if vn.level = fn.level then vn.t else vars
              let r1 := quantS_noVars p q af fuel st.tickd fn.t vt
              let r0 := quantS_noVars p q af fuel r1.1 fn.e vt
              if fn.level = vn.level then
                let r := applyS p q.op af r0.1 r1.2 r0.2
                addS p r.1 (encKey ⟨.quant q, [f], []⟩) r.2
              else
                finishS p r0.1 (encKey ⟨.quant q, [f], []⟩) fn.level r1.2 r0.2

/-- the two specified results differ: `∀{x0,x1}. x0∨x1 = ⊥`, `∀{x1}. x0∨x1 = x0` -/
theorem quant_superset_subset :
    quant .forall_ exOr exAnd = .leaf false ∧ quant .forall_ exOr exX1 = var 0 := by
  constructor <;> decide +kernel

/-! ## `restrict` with the cube dropped from the key -/

/-- `restrictS` with the defective key `(Restrict, [f])` -/
def restrictS_noCube (p : Policy) : Nat → St → Edge → Edge → St × Edge
  | 0, st, f, _ => (st, f)
  | fuel+1, st, f, vars =>
    match restrictInnerS st.store (fuel + 1) f vars with
    | .done r => (st, r)
    | .recur f' vars' =>
      match p.get st.tick st.cache (encKey ⟨.restrict, [f'], []⟩) with
      | some r => (st.tickd, r)
      | none =>
        match f' with
        | .term _ => (st.tickd, f')
        | .inner i =>
          match st.store.get? i with
          | none => (st.tickd, f')
          | some fn =>
            let r1 := restrictS_noCube p fuel st.tickd fn.t vars'
            let r0 := restrictS_noCube p fuel r1.1 fn.e vars'
            finishS p r0.1 (encKey ⟨.restrict, [f'], []⟩) fn.level r1.2 r0.2

/-- `(x0∧x1)|x1=⊤ = x0`, `(x0∧x1)|x1=⊥ = ⊥` -/
theorem restrict_two_cubes :
    restrict exAnd exX1 = var 0 ∧ restrict exAnd exNX1 = .leaf false := by
  constructor <;> decide +kernel

/-! ## substitution ids must be unique -/

/-- the two replacement vectors: `x0 ↦ x1` and `x0 ↦ ¬x1` -/
def exSub1 : List Edge := [.inner 0]
def exSub2 : List Edge := [.inner 3]
def exSv1 : List BDD := [exX1]
def exSv2 : List BDD := [exNX1]

theorem exS_sub1 : DenotesL exS exSub1 exSv1 := DenotesL.one exS_x1
theorem exS_sub2 : DenotesL exS exSub2 exSv2 := DenotesL.one exS_nx1

/-- `(x0∨x1)[x0 := x1] = x1`, `(x0∨x1)[x0 := ¬x1] = ⊤` -/
theorem subst_two_vectors :
    substitute exSv1 exOr = exX1 ∧ substitute exSv2 exOr = .leaf true := by
  constructor <;> decide +kernel

/-! ## slot ids may depend on the cache for `quant` -/

def gFt : BDD := .node 2 (var 3) (var 4)
/-- `f = x1 ? (x2 ? x3 : x4) : ¬x3`, so that `∃{x1,x2}. f = (x3∨x4) ∨ ¬x3 = ⊤`, with the
intermediate result `x3 ∨ x4` a node that is in nobody's cone -/
def gF : BDD := .node 1 gFt (notVar 3)
/-- `h = x0 ? f : x3` -/
def gH : BDD := .node 0 gF (var 3)
/-- `{x1, x2}` -/
def gV : BDD := .node 1 (var 2) (.leaf false)

/-- `#4 = f`, `#5 = h`, `#7 = {x1,x2}` -/
def gS : Store := (intern (intern ⟨#[]⟩ gH).1 gV).1

theorem gS_unique : gS.Unique := intern_unique _ _ (intern_unique _ _ C06.empty_unique)
theorem gS_nored : gS.NoRed := intern_nored _ _ (intern_nored _ _ C06.empty_nored)
theorem gS_f : Denotes gS (.inner 4) gF := unfold?_sound 5 (by decide +kernel)
theorem gS_h : Denotes gS (.inner 5) gH := unfold?_sound 6 (by decide +kernel)
theorem gS_v : Denotes gS (.inner 7) gV := unfold?_sound 5 (by decide +kernel)

/-- a sound one-entry cache on `gS`: `∃{x1,x2}. f ↦ ⊤` -/
def gCache : Cache := [(encKey (quantKey .exists_ (.inner 4) (.inner 7)), .term true)]

theorem gCache_ok (reg : Nat → List BDD) : CacheOKX reg gS gCache := by
  intro k r hm
  simp only [gCache, List.mem_cons, List.not_mem_nil, or_false, Prod.mk.injEq] at hm
  obtain ⟨rfl, rfl⟩ := hm
  refine EntryOKX.intro (quantKey_wf _ _ _) (DenotesL.two gS_f gS_v) rfl ?_
  rw [show quant .exists_ gF gV = .leaf true by decide +kernel]
  exact .term

end OxiddModel.Bdd.C04SW
