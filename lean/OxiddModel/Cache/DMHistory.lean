import OxiddModel.Cache.DMPolicy

/-!
# Histories of cache events

`Ev` = the calls a manager and the apply algorithms make on the cache: `get_extended`,
`add_extended` (each with its time stamp for the `try_lock` oracle), `clear`, `pre_gc`, `post_gc`.
`run` executes a history on the slot-level model. The *ghost* functions `gcOf` and `logOf` are
computed from the history alone (they never look at the cache): whether a collection is in
progress, and the list of all `(full key, value)` pairs passed to `add_extended` since the last
`clear`/`pre_gc`, most recent first.
-/
namespace OxiddModel.Cache

inductive Ev where
  | get (t : Nat) (k : Key)
  | add (t : Nat) (op : Nat) (es ns : List Nat) (v : Val)
  | clear
  | preGc
  | postGc
deriving Repr, DecidableEq

inductive Out where
  | hit (v : Val)
  | miss
  | done
  /-- the call never returns (blocking `lock()` on a bucket held by `pre_gc`) -/
  | blocked
deriving Repr, DecidableEq

structure Cfg where
  hash : Hash
  lockFails : Nat → Bool

/-- one call on the slot-level cache. (`post_gc` without a preceding `pre_gc` is undefined
behaviour in the code — unlocking an unlocked mutex; the model treats it as a no-op.) -/
def step (cfg : Cfg) (d : DM) : Ev → DM × Out
  | .get t k =>
    (d, match d.get cfg.hash (cfg.lockFails t) k with
        | some v => .hit v
        | none => .miss)
  | .add t op es ns v => (d.add cfg.hash (cfg.lockFails t) op es ns v, .done)
  | .clear => match d.clear with
    | some d' => (d', .done)
    | none => (d, .blocked)
  | .preGc => match d.preGc with
    | some d' => (d', .done)
    | none => (d, .blocked)
  | .postGc => (d.postGc, .done)

/-- state after a history -/
def runState (cfg : Cfg) (d : DM) : List Ev → DM
  | [] => d
  | e :: es => runState cfg (step cfg d e).1 es

/-- outputs of a history -/
def run (cfg : Cfg) (d : DM) : List Ev → List Out
  | [] => []
  | e :: es => (step cfg d e).2 :: run cfg (step cfg d e).1 es

/-- ghost: is a collection in progress after the history (starting from `gc`)? -/
def gcOf (gc : Bool) : List Ev → Bool
  | [] => gc
  | .preGc :: es => gcOf true es
  | .postGc :: es => gcOf false es
  | _ :: es => gcOf gc es

/-- ghost: the `(full key, value)` pairs passed to `add_extended` since the last `clear` (outside
a collection) or `pre_gc`, most recent first -/
def logOf (gc : Bool) (log : List (Key × Val)) : List Ev → List (Key × Val)
  | [] => log
  | .get _ _ :: es => logOf gc log es
  | .add _ op e n v :: es => logOf gc ((keyOf op e n v, v) :: log) es
  | .clear :: es => logOf gc (if gc then log else []) es
  | .preGc :: es => logOf true (if gc then log else []) es
  | .postGc :: es => logOf false log es

/-- the value most recently added under exactly the key `k` -/
def lastAdd (log : List (Key × Val)) (k : Key) : Option Val :=
  (log.find? (fun x => x.1 == k)).map Prod.snd

/-! ## the invariant under all five operations, for any value of the collection flag -/

theorem clearMap_inv {d : DM} {hash : Hash} {gc : Bool} (hinv : d.Inv hash gc) :
    ({ d with buckets := d.buckets.map Entry.clear } : DM).Inv hash gc ∧
    ({ d with buckets := d.buckets.map Entry.clear } : DM).abs = [] := by
  refine ⟨⟨fun i e h => ?_, fun i e k v h ha => ?_, fun i e h => ?_, fun _ i e h => ?_⟩, ?_⟩
  · simp only [Array.getElem?_map, Option.map_eq_some_iff] at h
    obtain ⟨e0, he0, rfl⟩ := h
    exact ⟨(hinv.wf i e0 he0).1, .inl rfl⟩
  · simp only [Array.getElem?_map, Option.map_eq_some_iff] at h
    obtain ⟨e0, he0, rfl⟩ := h
    rw [Entry.clear_abs] at ha; cases ha
  · simp only [Array.getElem?_map, Option.map_eq_some_iff] at h
    obtain ⟨e0, he0, rfl⟩ := h
    exact hinv.lock i e0 he0
  · simp only [Array.getElem?_map, Option.map_eq_some_iff] at h
    obtain ⟨e0, he0, rfl⟩ := h
    rfl
  · simp only [DM.abs, Array.toList_map, List.filterMap_map]
    rw [List.filterMap_eq_nil_iff]
    intro e _; exact Entry.clear_abs e

theorem preGcMap_inv {d : DM} {hash : Hash} {gc : Bool} (hinv : d.Inv hash gc) :
    ({ d with buckets := d.buckets.map (fun e => { e.clear with locked := true }) } : DM).Inv hash true ∧
    ({ d with buckets := d.buckets.map (fun e => { e.clear with locked := true }) } : DM).abs = [] := by
  refine ⟨⟨fun i e h => ?_, fun i e k v h ha => ?_, fun i e h => ?_, fun _ i e h => ?_⟩, ?_⟩
  · simp only [Array.getElem?_map, Option.map_eq_some_iff] at h
    obtain ⟨e0, he0, rfl⟩ := h
    exact ⟨(hinv.wf i e0 he0).1, .inl rfl⟩
  · simp only [Array.getElem?_map, Option.map_eq_some_iff] at h
    obtain ⟨e0, he0, rfl⟩ := h
    simp [Entry.abs, Entry.clear] at ha
  · simp only [Array.getElem?_map, Option.map_eq_some_iff] at h
    obtain ⟨e0, he0, rfl⟩ := h
    rfl
  · simp only [Array.getElem?_map, Option.map_eq_some_iff] at h
    obtain ⟨e0, he0, rfl⟩ := h
    rfl
  · simp only [DM.abs, Array.toList_map, List.filterMap_map]
    rw [List.filterMap_eq_nil_iff]
    intro e _; simp [Entry.abs, Entry.clear]

theorem postGc_inv {d : DM} {hash : Hash} {gc : Bool} (hinv : d.Inv hash gc) :
    d.postGc.Inv hash false ∧ d.postGc.abs = d.abs := by
  have habs : ∀ e : Entry, ({ e with locked := false } : Entry).abs = e.abs := fun e => rfl
  refine ⟨⟨fun i e h => ?_, fun i e k v h ha => ?_, fun i e h => ?_, fun hgc => by cases hgc⟩, ?_⟩
  · simp only [DM.postGc, Array.getElem?_map, Option.map_eq_some_iff] at h
    obtain ⟨e0, he0, rfl⟩ := h
    obtain ⟨h1, h2⟩ := hinv.wf i e0 he0
    refine ⟨h1, ?_⟩
    rcases h2 with h2 | ⟨k, v, hadm, hh⟩
    · exact .inl h2
    · exact .inr ⟨k, v, hadm, ⟨hh.operands, hh.values, hh.operator, hh.data, hh.lev, hh.lnv⟩⟩
  · simp only [DM.postGc, Array.getElem?_map, Option.map_eq_some_iff] at h
    obtain ⟨e0, he0, rfl⟩ := h
    rw [habs] at ha
    have := hinv.home i e0 k v he0 ha
    simpa [DM.idx, DM.postGc] using this
  · simp only [DM.postGc, Array.getElem?_map, Option.map_eq_some_iff] at h
    obtain ⟨e0, he0, rfl⟩ := h
    rfl
  · simp only [DM.postGc, DM.abs, Array.toList_map, List.filterMap_map]
    congr 1

/-- sizes and `ENTRY_CAP` never change -/
theorem step_shape (cfg : Cfg) (d : DM) (e : Ev) :
    (step cfg d e).1.entryCap = d.entryCap ∧ (step cfg d e).1.buckets.size = d.buckets.size := by
  cases e with
  | get t k => exact ⟨rfl, rfl⟩
  | add t op es ns v =>
    simp only [step, DM.add]
    rcases addAt_cases d (cfg.lockFails t) (bucketIdx d.buckets.size (cfg.hash op es ns)) op es ns
      v.1 v.2 with h | ⟨_, _, _, _, _, h⟩ <;> rw [h] <;> simp
  | clear =>
    simp only [step, DM.clear]
    split <;> rename_i h <;> split at h <;> cases h <;> simp
  | preGc =>
    simp only [step, DM.preGc]
    split <;> rename_i h <;> split at h <;> cases h <;> simp
  | postGc => simp [step, DM.postGc]

/-- **one step preserves the invariant**; the collection flag follows `gcOf` -/
theorem step_inv {cfg : Cfg} {d : DM} {gc : Bool} (hinv : d.Inv cfg.hash gc) (hc : d.entryCap ≤ 15)
    (e : Ev) : (step cfg d e).1.Inv cfg.hash (gcOf gc [e]) := by
  cases e with
  | get t k => exact hinv
  | add t op es ns v => exact add_inv hinv hc _ op es ns v
  | clear =>
    simp only [step, DM.clear, gcOf]
    split
    · rename_i d' h
      split at h
      · cases h
      · cases h; exact (clearMap_inv hinv).1
    · exact hinv
  | preGc =>
    simp only [step, DM.preGc, gcOf]
    split
    · rename_i d' h
      split at h
      · cases h
      · cases h; exact (preGcMap_inv hinv).1
    · -- blocked: the collection is already in progress
      rename_i h
      split at h
      · rename_i hl
        cases gc with
        | true => exact hinv
        | false => rw [anyLocked_false hinv] at hl; cases hl
      · cases h
  | postGc => exact (postGc_inv hinv).1

theorem gcOf_cons (gc : Bool) (e : Ev) (es : List Ev) : gcOf gc (e :: es) = gcOf (gcOf gc [e]) es := by
  cases e <;> rfl

theorem runState_inv {cfg : Cfg} {d : DM} {gc : Bool} (hinv : d.Inv cfg.hash gc) (hc : d.entryCap ≤ 15)
    (es : List Ev) : (runState cfg d es).Inv cfg.hash (gcOf gc es) ∧
      (runState cfg d es).entryCap = d.entryCap ∧
      (runState cfg d es).buckets.size = d.buckets.size := by
  induction es generalizing d gc with
  | nil => exact ⟨hinv, rfl, rfl⟩
  | cons e es ih =>
    have hs := step_shape cfg d e
    have := ih (step_inv hinv hc e) (by rw [hs.1]; exact hc)
    rw [gcOf_cons]
    exact ⟨this.1, by rw [runState, this.2.1, hs.1], by rw [runState, this.2.2, hs.2]⟩

/-! ## the log bounds the cache content -/

/-- the ghost log after one more event -/
theorem logOf_cons (gc : Bool) (log : List (Key × Val)) (e : Ev) (es : List Ev) :
    logOf gc log (e :: es) = logOf (gcOf gc [e]) (logOf gc log [e]) es := by
  cases e <;> rfl

/-- one step keeps the cache content inside the log -/
theorem step_log {cfg : Cfg} {d : DM} {gc : Bool} {log : List (Key × Val)}
    (hinv : d.Inv cfg.hash gc) (hc : d.entryCap ≤ 15) (hsub : ∀ x, x ∈ d.abs → x ∈ log) (e : Ev) :
    ∀ x, x ∈ (step cfg d e).1.abs → x ∈ logOf gc log [e] := by
  have hwf : ∀ (i : Nat) (e : Entry), d.buckets[i]? = some e → e.data.length = d.entryCap :=
    fun i e he => (hinv.wf i e he).1
  cases e with
  | get t k => exact hsub
  | add t op es ns v =>
    intro x hx
    simp only [step, DM.add] at hx
    simp only [logOf, List.mem_cons]
    rcases addAt_sub hc hwf hx with h | h
    · exact .inr (hsub x h)
    · exact .inl h
  | clear =>
    intro x hx
    simp only [step, DM.clear] at hx
    split at hx
    · rename_i d' h
      split at h
      · cases h
      · cases h; rw [(clearMap_inv hinv).2] at hx; cases hx
    · rename_i h
      split at h
      · rename_i hl
        cases gc with
        | true => simpa [logOf] using hsub x hx
        | false => rw [anyLocked_false hinv] at hl; cases hl
      · cases h
  | preGc =>
    intro x hx
    simp only [step, DM.preGc] at hx
    split at hx
    · rename_i d' h
      split at h
      · cases h
      · cases h; rw [(preGcMap_inv hinv).2] at hx; cases hx
    · rename_i h
      split at h
      · rename_i hl
        cases gc with
        | true => simpa [logOf] using hsub x hx
        | false => rw [anyLocked_false hinv] at hl; cases hl
      · cases h
  | postGc =>
    intro x hx
    simp only [step] at hx
    rw [(postGc_inv hinv).2] at hx
    simpa [logOf] using hsub x hx

theorem runState_log {cfg : Cfg} {d : DM} {gc : Bool} {log : List (Key × Val)}
    (hinv : d.Inv cfg.hash gc) (hc : d.entryCap ≤ 15) (hsub : ∀ x, x ∈ d.abs → x ∈ log)
    (es : List Ev) : ∀ x, x ∈ (runState cfg d es).abs → x ∈ logOf gc log es := by
  induction es generalizing d gc log with
  | nil => exact hsub
  | cons e es ih =>
    rw [logOf_cons]
    exact ih (step_inv hinv hc e) (by rw [(step_shape cfg d e).1]; exact hc) (step_log hinv hc hsub e)

/-! ## without lock failures a hit returns the *latest* value added under the key -/

/-- every present entry is the most recent add under its key -/
def Latest (d : DM) (log : List (Key × Val)) : Prop :=
  ∀ k v, (k, v) ∈ d.abs → lastAdd log k = some v

theorem lastAdd_cons_self (log : List (Key × Val)) (k : Key) (v : Val) :
    lastAdd ((k, v) :: log) k = some v := by simp [lastAdd]

theorem lastAdd_cons_ne (log : List (Key × Val)) {k k' : Key} (v : Val) (h : k' ≠ k) :
    lastAdd ((k', v) :: log) k = lastAdd log k := by
  simp [lastAdd, h]

theorem step_latest {cfg : Cfg} (hnl : ∀ t, cfg.lockFails t = false) {d : DM} {gc : Bool}
    {log : List (Key × Val)} (hinv : d.Inv cfg.hash gc) (hc : d.entryCap ≤ 15) (hl : Latest d log)
    (e : Ev) : Latest (step cfg d e).1 (logOf gc log [e]) := by
  cases e with
  | get t k => exact hl
  | add t op es ns v =>
    intro k' v' hm
    simp only [step, hnl] at hm
    simp only [logOf]
    cases gc with
    | true =>
      rw [add_gc hinv] at hm
      rw [gc_abs hinv] at hm; cases hm
    | false =>
      obtain ⟨j, e', hj, ha⟩ := mem_abs.1 hm
      have hb := add_bucket hinv hc false op es ns v j
      rw [hj, Option.bind_some, ha] at hb
      split at hb
      · cases hb; exact lastAdd_cons_self _ _ _
      · rename_i hcond
        -- an old entry survives in bucket `j`
        cases hd : d.buckets[j]? with
        | none => rw [hd] at hb; cases hb
        | some e0 =>
          rw [hd, Option.bind_some] at hb
          have hold := hl k' v' (mem_abs.2 ⟨j, e0, hd, hb.symm⟩)
          have hhome := hinv.home j e0 k' v' hd hb.symm
          have hadm' := ((hinv.wf j e0 hd).abs_adm hb.symm).1
          have hne : keyOf op es ns v ≠ k' := by
            intro heq
            apply hcond
            refine ⟨rfl, ?_, ?_, getElem?_lt hd⟩
            · have := gate_of_adm hadm'
              rw [← heq] at this; exact this
            · rw [← hhome, ← heq]; rfl
          rw [lastAdd_cons_ne _ _ hne]; exact hold
  | clear =>
    intro k v hm
    simp only [step, DM.clear] at hm
    split at hm
    · rename_i d' h
      split at h
      · cases h
      · cases h; rw [(clearMap_inv hinv).2] at hm; cases hm
    · rename_i h
      split at h
      · rename_i hlk
        cases gc with
        | true => simpa [logOf] using hl k v hm
        | false => rw [anyLocked_false hinv] at hlk; cases hlk
      · cases h
  | preGc =>
    intro k v hm
    simp only [step, DM.preGc] at hm
    split at hm
    · rename_i d' h
      split at h
      · cases h
      · cases h; rw [(preGcMap_inv hinv).2] at hm; cases hm
    · rename_i h
      split at h
      · rename_i hlk
        cases gc with
        | true => simpa [logOf] using hl k v hm
        | false => rw [anyLocked_false hinv] at hlk; cases hlk
      · cases h
  | postGc =>
    intro k v hm
    simp only [step] at hm
    rw [(postGc_inv hinv).2] at hm
    simpa [logOf] using hl k v hm

theorem runState_latest {cfg : Cfg} (hnl : ∀ t, cfg.lockFails t = false) {d : DM} {gc : Bool}
    {log : List (Key × Val)} (hinv : d.Inv cfg.hash gc) (hc : d.entryCap ≤ 15) (hl : Latest d log)
    (es : List Ev) : Latest (runState cfg d es) (logOf gc log es) := by
  induction es generalizing d gc log with
  | nil => exact hl
  | cons e es ih =>
    rw [logOf_cons]
    exact ih (step_inv hinv hc e) (by rw [(step_shape cfg d e).1]; exact hc)
      (step_latest hnl hinv hc hl e)

end OxiddModel.Cache
