import OxiddModel.Cache.DMModel

/-!
# Entry-level lemmas: count pairs, `zipCmp`/`writePrefix`, `Entry.get`/`Entry.set` against `Entry.abs`
-/
namespace OxiddModel.Cache

/-! ## count pairs -/

theorem countPair_fin : ∀ a b : Fin 16,
    countPair a.1 b.1 = 16 * b.1 + a.1 ∧ cpEdge (countPair a.1 b.1) = a.1 ∧
      cpNumeric (countPair a.1 b.1) = b.1 := by decide +kernel

theorem countPair_eq {a b : Nat} (ha : a < 16) (hb : b < 16) : countPair a b = 16 * b + a :=
  (countPair_fin ⟨a, ha⟩ ⟨b, hb⟩).1

theorem cpEdge_countPair {a b : Nat} (ha : a < 16) (hb : b < 16) : cpEdge (countPair a b) = a :=
  (countPair_fin ⟨a, ha⟩ ⟨b, hb⟩).2.1

theorem cpNumeric_countPair {a b : Nat} (ha : a < 16) (hb : b < 16) :
    cpNumeric (countPair a b) = b :=
  (countPair_fin ⟨a, ha⟩ ⟨b, hb⟩).2.2

theorem countPair_ne_zero {a b : Nat} (ha : a < 16) (hb : b < 16) (h : 0 < a + b) :
    countPair a b ≠ 0 := by
  rw [countPair_eq ha hb]; omega

theorem countPair_inj {a b a' b' : Nat} (ha : a < 16) (hb : b < 16) (ha' : a' < 16) (hb' : b' < 16)
    (h : countPair a b = countPair a' b') : a = a' ∧ b = b' := by
  rw [countPair_eq ha hb, countPair_eq ha' hb'] at h; omega

/-! ## admissible keys -/

/-- the precondition of `EntryGuard::get`/`set` as written in their `debug_assert!`s and in
`CountPair::new`: at least one operand, every count `< KIND_COUNT`, everything fits the entry -/
structure Adm (entryCap : Nat) (k : Key) : Prop where
  pos : 0 < k.edges.length + k.nums.length
  fits : k.edges.length + k.nums.length + k.ev + k.nv ≤ entryCap
  ne : k.edges.length < 16
  nn : k.nums.length < 16
  ev : k.ev < 16
  nv : k.nv < 16

instance (entryCap : Nat) (k : Key) : Decidable (Adm entryCap k) :=
  decidable_of_iff (0 < k.edges.length + k.nums.length ∧
      k.edges.length + k.nums.length + k.ev + k.nv ≤ entryCap ∧ k.edges.length < 16 ∧
      k.nums.length < 16 ∧ k.ev < 16 ∧ k.nv < 16)
    ⟨fun ⟨a, b, c, d, e, f⟩ => ⟨a, b, c, d, e, f⟩, fun ⟨a, b, c, d, e, f⟩ => ⟨a, b, c, d, e, f⟩⟩

/-- for `ENTRY_CAP ≤ 15` (OxiDD instantiates 3 everywhere) the gate of
`get_extended`/`add_extended` lets exactly the admissible keys through -/
theorem adm_of_gate {entryCap : Nat} {k : Key} (hc : entryCap ≤ 15)
    (h : gate entryCap k.edges.length k.nums.length k.ev k.nv = false) : Adm entryCap k := by
  simp only [gate, KIND_COUNT, Bool.or_eq_false_iff, beq_eq_false_iff_ne, decide_eq_false_iff_not,
    decide_eq_false_iff_not] at h
  obtain ⟨⟨⟨⟨⟨h1, h2⟩, h3⟩, h4⟩, h5⟩, h6⟩ := h
  have h3 := of_decide_eq_false h3
  have h4 := of_decide_eq_false h4
  have h5 := of_decide_eq_false h5
  have h6 := of_decide_eq_false h6
  constructor <;> omega

theorem gate_of_adm {entryCap : Nat} {k : Key} (h : Adm entryCap k) :
    gate entryCap k.edges.length k.nums.length k.ev k.nv = false := by
  obtain ⟨h1, h2, h3, h4, h5, h6⟩ := h
  simp only [gate, KIND_COUNT, Bool.or_eq_false_iff, beq_eq_false_iff_ne, decide_eq_false_iff_not]
  refine ⟨⟨⟨⟨⟨?_, ?_⟩, ?_⟩, ?_⟩, ?_⟩, ?_⟩ <;> (try apply decide_eq_false) <;> omega

/-! ## `zipCmp`, `writePrefix` -/

theorem zipCmp_append (os r : List Nat) : zipCmp os (os ++ r) = some r := by
  induction os with
  | nil => simp [zipCmp]
  | cons o os ih => simp [zipCmp, ih]

theorem zipCmp_some {os d r : List Nat} (h : zipCmp os d = some r) (hl : os.length ≤ d.length) :
    d = os ++ r := by
  induction os generalizing d with
  | nil => simp only [zipCmp, Option.some.injEq] at h; simp [h]
  | cons o os ih =>
    cases d with
    | nil => simp at hl
    | cons x d =>
      simp only [zipCmp] at h
      split at h
      · cases h
      · rename_i hne
        have hox : o = x := by simpa using hne
        subst hox
        have := ih h (by simpa using hl)
        simp [← this]

theorem writePrefix_eq (d xs : List Nat) (h : xs.length ≤ d.length) :
    writePrefix d xs = xs ++ d.drop xs.length := by
  induction xs generalizing d with
  | nil => cases d <;> simp [writePrefix]
  | cons x xs ih =>
    cases d with
    | nil => simp at h
    | cons y d => simp [writePrefix, ih d (by simpa using h)]

theorem writePrefix_length (d xs : List Nat) : (writePrefix d xs).length = d.length := by
  induction xs generalizing d with
  | nil => cases d <;> simp [writePrefix]
  | cons x xs ih =>
    cases d with
    | nil => simp [writePrefix]
    | cons y d => simp [writePrefix, ih d]

/-! ## what a bucket holds -/

/-- the concrete representation of "bucket `e` holds `k ↦ v`" -/
structure Entry.Holds (e : Entry) (k : Key) (v : Val) : Prop where
  operands : e.operands = countPair k.edges.length k.nums.length
  values : e.values = countPair k.ev k.nv
  operator : e.operator = k.op
  data : ∃ rest, e.data = k.edges ++ (k.nums ++ (v.1 ++ (v.2 ++ rest)))
  lev : v.1.length = k.ev
  lnv : v.2.length = k.nv

theorem Entry.Holds.abs {e : Entry} {k : Key} {v : Val} {cap : Nat} (h : e.Holds k v)
    (ha : Adm cap k) : e.abs = some (k, v) := by
  obtain ⟨ho, hv, hop, ⟨rest, hd⟩, l1, l2⟩ := h
  have hne := countPair_ne_zero ha.ne ha.nn ha.pos
  have e1 := cpEdge_countPair ha.ne ha.nn
  have e2 := cpNumeric_countPair ha.ne ha.nn
  have e3 := cpEdge_countPair ha.ev ha.nv
  have e4 := cpNumeric_countPair ha.ev ha.nv
  obtain ⟨op, es, ns, ev, nv⟩ := k
  obtain ⟨v1, v2⟩ := v
  simp only at ho hv hop hd l1 l2 hne e1 e2 e3 e4
  subst l1 l2
  have h1 : ∀ (a b : List Nat), List.take a.length (a ++ b) = a := fun a b => by simp
  have h2 : ∀ (a b : List Nat), List.drop a.length (a ++ b) = b := fun a b => by simp
  have h3 : List.drop (es.length + ns.length) (es ++ (ns ++ (v1 ++ (v2 ++ rest)))) =
      v1 ++ (v2 ++ rest) := by
    rw [← List.drop_drop, h2, h2]
  simp only [Entry.abs, ho, hne, if_false, Entry.key, Entry.val, hv, hop, hd, e1, e2, e3, e4]
  rw [h3, h1, h2, h1, h2, h1, h1]

/-- `set` makes the bucket hold exactly the given key and value -/
theorem Entry.set_holds (e : Entry) (op : Nat) (es ns : List Nat) (v : Val)
    (hfit : es.length + ns.length + v.1.length + v.2.length ≤ e.data.length) :
    (e.set op es ns v.1 v.2).Holds (keyOf op es ns v) v := by
  refine ⟨rfl, rfl, rfl, ⟨e.data.drop (es ++ ns ++ v.1 ++ v.2).length, ?_⟩, rfl, rfl⟩
  simp only [Entry.set, keyOf]
  rw [writePrefix_eq _ _ (by simp only [List.length_append]; omega)]
  simp [List.append_assoc]

theorem Entry.set_data_length (e : Entry) (op : Nat) (es ns ves vns : List Nat) :
    (e.set op es ns ves vns).data.length = e.data.length := by
  simp [Entry.set, writePrefix_length]

theorem Entry.set_locked (e : Entry) (op : Nat) (es ns ves vns : List Nat) :
    (e.set op es ns ves vns).locked = e.locked := rfl

/-- **soundness of the comparison**: a hit of `EntryGuard::get` for an admissible key means that
the bucket is occupied and the key decoded from the bucket is the queried key *in every
component* (operator, every edge operand, every numeric operand, both arities, value shape), and
the returned value is the stored one -/
theorem Entry.get_sound {e : Entry} {k : Key} {v : Val} {cap : Nat} (ha : Adm cap k)
    (hl : e.data.length = cap) (h : e.get k = some v) : e.Holds k v := by
  simp only [Entry.get] at h
  split at h
  · cases h
  · rename_i hops
    have hops : e.operands = countPair k.edges.length k.nums.length := by simpa using hops
    split at h
    · cases h
    · rename_i d1 h1
      split at h
      · cases h
      · rename_i d2 h2
        split at h
        · cases h
        · rename_i hov
          simp only [Bool.or_eq_true, bne_iff_ne, ne_eq, not_or, Decidable.not_not] at hov
          have hfit := ha.fits
          have hd1 := zipCmp_some h1 (by omega)
          have hd1l : d1.length = cap - k.edges.length := by
            have := congrArg List.length hd1
            simp only [List.length_append] at this; omega
          have hd2 := zipCmp_some h2 (by omega)
          have hd2l : d2.length = cap - k.edges.length - k.nums.length := by
            have := congrArg List.length hd2
            simp only [List.length_append] at this; omega
          cases h
          refine ⟨hops, hov.2, hov.1, ⟨(d2.drop k.ev).drop k.nv, ?_⟩, ?_, ?_⟩
          · simp only
            rw [hd1, hd2, List.take_append_drop, List.take_append_drop]
          · simp only [List.length_take]; omega
          · simp only [List.length_take, List.length_drop]; omega

/-- **completeness of the comparison**: the stored key is found -/
theorem Entry.get_of_holds {e : Entry} {k : Key} {v : Val} (h : e.Holds k v) : e.get k = some v := by
  obtain ⟨ho, hv, hop, ⟨rest, hd⟩, l1, l2⟩ := h
  simp only [Entry.get, ho, bne_self_eq_false, Bool.false_eq_true, if_false, hd, zipCmp_append, hv,
    hop, Bool.or_self]
  rw [← l1, ← l2]
  simp

/-- `get` is a function of what the bucket holds: a hit iff the stored key is the queried one -/
theorem Entry.get_eq {e : Entry} {k k' : Key} {v : Val} {cap : Nat} (h : e.Holds k v)
    (ha : Adm cap k) (ha' : Adm cap k') (hl : e.data.length = cap) :
    e.get k' = if k' = k then some v else none := by
  split
  · rename_i heq; subst heq; exact Entry.get_of_holds h
  · rename_i hne
    cases hg : e.get k' with
    | none => rfl
    | some v' =>
      have h1 := (Entry.get_sound ha' hl hg).abs ha'
      have h2 := h.abs ha
      rw [h1] at h2
      cases h2
      exact absurd rfl hne

/-- an unoccupied bucket never hits for an admissible key -/
theorem Entry.get_empty {e : Entry} {k : Key} {cap : Nat} (ha : Adm cap k) (h0 : e.operands = 0) :
    e.get k = none := by
  have := countPair_ne_zero ha.ne ha.nn ha.pos
  simp only [Entry.get, h0]
  rw [if_pos]
  simp only [bne_iff_ne, ne_eq]
  exact fun h => this h.symm

theorem Entry.clear_abs (e : Entry) : e.clear.abs = none := by simp [Entry.clear, Entry.abs]

theorem Entry.init_abs (cap : Nat) : (Entry.init cap).abs = none := by simp [Entry.init, Entry.abs]

end OxiddModel.Cache
