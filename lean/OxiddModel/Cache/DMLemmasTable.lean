import OxiddModel.Cache.DMLemmasEntry

/-!
# Table-level lemmas: the invariant of `DMApplyCache` and the behaviour of
`get_extended`/`add_extended`/`clear`/`pre_gc`/`post_gc` seen through the abstraction `DM.abs`
-/
namespace OxiddModel.Cache

/-- a bucket is well formed: `ENTRY_CAP` data words, and it is either unoccupied or holds an
admissible key with its value -/
def Entry.WF (cap : Nat) (e : Entry) : Prop :=
  e.data.length = cap ∧ (e.operands = 0 ∨ ∃ k v, Adm cap k ∧ e.Holds k v)

/-- the invariant of the cache; `gc = true` between `pre_gc` and `post_gc` -/
structure DM.Inv (d : DM) (hash : Hash) (gc : Bool) : Prop where
  wf : ∀ (i : Nat) (e : Entry), d.buckets[i]? = some e → e.WF d.entryCap
  /-- every entry sits in the bucket its key hashes to -/
  home : ∀ (i : Nat) (e : Entry) (k : Key) (v : Val), d.buckets[i]? = some e → e.abs = some (k, v) → d.idx hash k = i
  /-- the bucket mutexes are held exactly during a collection -/
  lock : ∀ (i : Nat) (e : Entry), d.buckets[i]? = some e → e.locked = gc
  /-- during a collection the cache is empty -/
  gcEmpty : gc = true → ∀ (i : Nat) (e : Entry), d.buckets[i]? = some e → e.operands = 0

theorem mem_abs {d : DM} {x : Key × Val} :
    x ∈ d.abs ↔ ∃ (i : Nat) (e : Entry), d.buckets[i]? = some e ∧ e.abs = some x := by
  rw [DM.abs, List.mem_filterMap]
  constructor
  · rintro ⟨e, hm, he⟩
    obtain ⟨i, hi⟩ := List.mem_iff_getElem?.1 hm
    rw [Array.getElem?_toList] at hi
    exact ⟨i, e, hi, he⟩
  · rintro ⟨i, e, hi, he⟩
    exact ⟨e, List.mem_iff_getElem?.2 ⟨i, by rw [Array.getElem?_toList]; exact hi⟩, he⟩

theorem Entry.WF.abs_adm {cap : Nat} {e : Entry} (h : e.WF cap) {k : Key} {v : Val}
    (ha : e.abs = some (k, v)) : Adm cap k ∧ e.Holds k v := by
  rcases h.2 with h0 | ⟨k', v', hadm, hh⟩
  · simp [Entry.abs, h0] at ha
  · have := hh.abs hadm
    rw [this] at ha; cases ha
    exact ⟨hadm, hh⟩

theorem bucketIdx_lt {len : Nat} (h : 0 < len) (x : Nat) : bucketIdx len x < len := by
  have : x &&& (len - 1) ≤ len - 1 := Nat.and_le_right
  simp only [bucketIdx]; omega

/-- for a power of two the mask is the remainder -/
theorem bucketIdx_pow2 (n x : Nat) : bucketIdx (2 ^ n) x = x % 2 ^ n :=
  Nat.and_two_pow_sub_one_eq_mod x n

/-! ## `get_extended` -/

/-- a hit of `get_extended` on bucket `i`: the gate passed, the bucket exists, `try_lock`
succeeded, and the bucket holds exactly the queried key with the returned value -/
theorem getAt_some {d : DM} {lf : Bool} {i : Nat} {k : Key} {v : Val} (hc : d.entryCap ≤ 15)
    (hwf : ∀ (i : Nat) (e : Entry), d.buckets[i]? = some e → e.data.length = d.entryCap)
    (h : d.getAt lf i k = some v) :
    ∃ e, d.buckets[i]? = some e ∧ e.locked = false ∧ lf = false ∧ Adm d.entryCap k ∧ e.Holds k v := by
  simp only [DM.getAt] at h
  split at h
  · cases h
  · rename_i hg
    have hadm := adm_of_gate hc (by simpa using hg)
    split at h
    · cases h
    · rename_i e he
      split at h
      · cases h
      · rename_i hl
        simp only [Bool.or_eq_true, not_or, Bool.not_eq_true] at hl
        exact ⟨e, he, hl.1, hl.2, hadm, Entry.get_sound hadm (hwf i e he) h⟩

/-- `Policy.OK.get_mem` for the slot-level cache -/
theorem getAt_mem {d : DM} {lf : Bool} {i : Nat} {k : Key} {v : Val} (hc : d.entryCap ≤ 15)
    (hwf : ∀ (i : Nat) (e : Entry), d.buckets[i]? = some e → e.data.length = d.entryCap)
    (h : d.getAt lf i k = some v) : (k, v) ∈ d.abs := by
  obtain ⟨e, he, _, _, hadm, hh⟩ := getAt_some hc hwf h
  exact mem_abs.2 ⟨i, e, he, hh.abs hadm⟩

/-- exact behaviour of `get_extended` in a cache satisfying the invariant -/
theorem get_eq {d : DM} {hash : Hash} {gc : Bool} (hinv : d.Inv hash gc) (lf : Bool) (k : Key)
    (hadm : Adm d.entryCap k) :
    d.get hash lf k =
      if gc || lf then none
      else match (d.buckets[d.idx hash k]?).bind Entry.abs with
        | some (k', v) => if k = k' then some v else none
        | none => none := by
  simp only [DM.get, DM.getAt, gate_of_adm hadm, Bool.false_eq_true, if_false]
  cases he : d.buckets[d.idx hash k]? with
  | none => simp
  | some e =>
    have hl := hinv.lock _ _ he
    have hwf := hinv.wf _ _ he
    simp only [hl, Option.bind_some]
    split
    · rfl
    · rcases hwf.2 with h0 | ⟨k', v', hadm', hh⟩
      · rw [Entry.get_empty hadm h0]; simp [Entry.abs, h0]
      · rw [Entry.get_eq hh hadm' hadm hwf.1, hh.abs hadm']

/-- during a collection (`pre_gc … post_gc`) every `get` misses: `try_lock` fails -/
theorem get_gc {d : DM} {hash : Hash} (hinv : d.Inv hash true) (lf : Bool) (k : Key) :
    d.get hash lf k = none := by
  simp only [DM.get, DM.getAt]
  split
  · rfl
  · split
    · rfl
    · rename_i e he
      simp [hinv.lock _ _ he]

/-! ## `add_extended` -/

theorem addAt_cases (d : DM) (lf : Bool) (i op : Nat) (es ns ves vns : List Nat) :
    d.addAt lf i op es ns ves vns = d ∨
    ∃ e, d.buckets[i]? = some e ∧ e.locked = false ∧ lf = false ∧
      gate d.entryCap es.length ns.length ves.length vns.length = false ∧
      d.addAt lf i op es ns ves vns =
        { d with buckets := d.buckets.setIfInBounds i (e.set op es ns ves vns) } := by
  simp only [DM.addAt]
  split
  · exact .inl rfl
  · rename_i hg
    split
    · exact .inl rfl
    · rename_i e he
      split
      · exact .inl rfl
      · rename_i hl
        simp only [Bool.or_eq_true, not_or, Bool.not_eq_true] at hl
        exact .inr ⟨e, he, hl.1, hl.2, by simpa using hg, rfl⟩

theorem getElem?_lt {α} {xs : Array α} {i : Nat} {a : α} (h : xs[i]? = some a) : i < xs.size := by
  cases Nat.lt_or_ge i xs.size with
  | inl h' => exact h'
  | inr h' => rw [Array.getElem?_eq_none h'] at h; cases h

/-- `Policy.OK.add_sub` for the slot-level cache: `add_extended` may evict, may be dropped, but
the only entry it can create is the given key (with the value shape of the values) ↦ value -/
theorem addAt_sub {d : DM} {lf : Bool} {i op : Nat} {es ns : List Nat} {v : Val} (hc : d.entryCap ≤ 15)
    (hwf : ∀ (i : Nat) (e : Entry), d.buckets[i]? = some e → e.data.length = d.entryCap) {x : Key × Val}
    (h : x ∈ (d.addAt lf i op es ns v.1 v.2).abs) : x ∈ d.abs ∨ x = (keyOf op es ns v, v) := by
  rcases addAt_cases d lf i op es ns v.1 v.2 with h0 | ⟨e, he, _, _, hg, h1⟩
  · rw [h0] at h; exact .inl h
  · rw [h1] at h
    obtain ⟨j, e', hj, ha⟩ := mem_abs.1 h
    simp only [Array.getElem?_setIfInBounds] at hj
    split at hj
    · rename_i hij
      simp only [getElem?_lt he, if_true, Option.some.injEq] at hj
      subst hj
      have hadm : Adm d.entryCap (keyOf op es ns v) := adm_of_gate hc hg
      have hh := Entry.set_holds e op es ns v (by
        have := hadm.fits; rw [hwf i e he]; simpa [keyOf] using this)
      rw [hh.abs hadm] at ha; cases ha
      exact .inr rfl
    · exact .inl (mem_abs.2 ⟨j, e', hj, ha⟩)

/-- a successful `add_extended` makes bucket `i` hold the new entry and leaves all others alone -/
theorem addAt_view {d : DM} {i op : Nat} {es ns : List Nat} {v : Val} {e : Entry}
    (he : d.buckets[i]? = some e) (hl : e.locked = false)
    (hadm : Adm d.entryCap (keyOf op es ns v)) (hlen : e.data.length = d.entryCap) :
    ∃ e', (d.addAt false i op es ns v.1 v.2).buckets[i]? = some e' ∧
      e'.Holds (keyOf op es ns v) v ∧ e'.locked = false ∧ e'.data.length = d.entryCap ∧
      (d.addAt false i op es ns v.1 v.2).entryCap = d.entryCap ∧
      (d.addAt false i op es ns v.1 v.2).buckets.size = d.buckets.size ∧
      ∀ j, j ≠ i → (d.addAt false i op es ns v.1 v.2).buckets[j]? = d.buckets[j]? := by
  have hg : gate d.entryCap es.length ns.length v.1.length v.2.length = false := gate_of_adm hadm
  have heq : d.addAt false i op es ns v.1 v.2 =
      { d with buckets := d.buckets.setIfInBounds i (e.set op es ns v.1 v.2) } := by
    simp only [DM.addAt, hg, Bool.false_eq_true, if_false, he, hl, Bool.or_self]
  rw [heq]
  refine ⟨e.set op es ns v.1 v.2, ?_, ?_, ?_, ?_, rfl, ?_, ?_⟩
  · simp [getElem?_lt he]
  · exact Entry.set_holds e op es ns v (by have := hadm.fits; rw [hlen]; simpa [keyOf] using this)
  · exact hl
  · rw [Entry.set_data_length]; exact hlen
  · simp
  · intro j hj
    simp only [Array.getElem?_setIfInBounds]
    rw [if_neg (fun h => hj h.symm)]

/-! ## the invariant is established by `with_capacity` and preserved by every operation -/

theorem empty_inv (entryCap n : Nat) (hash : Hash) : (DM.empty entryCap n).Inv hash false := by
  have hb : ∀ (i : Nat) (e : Entry), (DM.empty entryCap n).buckets[i]? = some e → e = Entry.init entryCap := by
    intro i e h
    simp only [DM.empty, Array.getElem?_replicate] at h
    split at h <;> cases h; rfl
  refine ⟨fun i e h => ?_, fun i e k v h ha => ?_, fun i e h => ?_, fun hgc => by cases hgc⟩
  · rw [hb i e h]; exact ⟨by simp [Entry.init, DM.empty], .inl rfl⟩
  · rw [hb i e h, Entry.init_abs] at ha; cases ha
  · rw [hb i e h]; rfl

theorem withCapacity_inv (entryCap capacity : Nat) (hash : Hash) :
    (DM.withCapacity entryCap capacity).Inv hash false := empty_inv entryCap _ hash

theorem add_inv {d : DM} {hash : Hash} {gc : Bool} (hinv : d.Inv hash gc) (hc : d.entryCap ≤ 15)
    (lf : Bool) (op : Nat) (es ns : List Nat) (v : Val) : (d.add hash lf op es ns v).Inv hash gc := by
  simp only [DM.add]
  rcases addAt_cases d lf (bucketIdx d.buckets.size (hash op es ns)) op es ns v.1 v.2 with
    h0 | ⟨e, he, hl, hlf, hg, h1⟩
  · rw [h0]; exact hinv
  · subst hlf
    have hgc : gc = false := by rw [← hinv.lock _ _ he]; exact hl
    subst hgc
    have hadm : Adm d.entryCap (keyOf op es ns v) := adm_of_gate hc hg
    obtain ⟨e', he', hh', hl', hlen', hcap, hsz, hoth⟩ :=
      addAt_view he hl hadm (hinv.wf _ _ he).1
    generalize d.addAt false (bucketIdx d.buckets.size (hash op es ns)) op es ns v.1 v.2 = d' at *
    refine ⟨fun j x hj => ?_, fun j x k' v' hj ha => ?_, fun j x hj => ?_, fun hgc => by cases hgc⟩
    · rw [hcap]
      by_cases hji : j = bucketIdx d.buckets.size (hash op es ns)
      · subst hji; rw [he'] at hj; cases hj
        exact ⟨hlen', .inr ⟨_, _, hadm, hh'⟩⟩
      · rw [hoth j hji] at hj; exact hinv.wf j x hj
    · simp only [DM.idx, hsz]
      by_cases hji : j = bucketIdx d.buckets.size (hash op es ns)
      · subst hji; rw [he'] at hj; cases hj
        rw [hh'.abs hadm] at ha; cases ha
        rfl
      · rw [hoth j hji] at hj; exact hinv.home j x k' v' hj ha
    · by_cases hji : j = bucketIdx d.buckets.size (hash op es ns)
      · subst hji; rw [he'] at hj; cases hj; exact hl'
      · rw [hoth j hji] at hj; exact hinv.lock j x hj

theorem anyLocked_false {d : DM} {hash : Hash} (hinv : d.Inv hash false) : d.anyLocked = false := by
  simp only [DM.anyLocked, Array.any_eq_false]
  intro i hi
  have := hinv.lock i d.buckets[i] (by simp [hi])
  simp [this]

theorem anyLocked_true {d : DM} {hash : Hash} (hinv : d.Inv hash true) (hne : 0 < d.buckets.size) :
    d.anyLocked = true := by
  simp only [DM.anyLocked, Array.any_eq_true]
  exact ⟨0, hne, hinv.lock 0 d.buckets[0] (by simp [hne])⟩

/-- `clear` outside a collection: terminates, and the cache is empty afterwards -/
theorem clear_spec {d : DM} {hash : Hash} (hinv : d.Inv hash false) :
    ∃ d', d.clear = some d' ∧ d'.Inv hash false ∧ d'.abs = [] ∧ d'.entryCap = d.entryCap ∧
      d'.buckets.size = d.buckets.size := by
  refine ⟨{ d with buckets := d.buckets.map Entry.clear }, by simp [DM.clear, anyLocked_false hinv],
    ⟨fun i e h => ?_, fun i e k v h ha => ?_, fun i e h => ?_, fun hgc => by cases hgc⟩, ?_, rfl,
    by simp⟩
  · simp only [Array.getElem?_map, Option.map_eq_some_iff] at h
    obtain ⟨e0, he0, rfl⟩ := h
    exact ⟨(hinv.wf i e0 he0).1, .inl rfl⟩
  · simp only [Array.getElem?_map, Option.map_eq_some_iff] at h
    obtain ⟨e0, he0, rfl⟩ := h
    rw [Entry.clear_abs] at ha; cases ha
  · simp only [Array.getElem?_map, Option.map_eq_some_iff] at h
    obtain ⟨e0, he0, rfl⟩ := h
    exact hinv.lock i e0 he0
  · simp only [DM.abs, Array.toList_map, List.filterMap_map]
    rw [List.filterMap_eq_nil_iff]
    intro e _; exact Entry.clear_abs e

/-- `pre_gc` outside a collection: terminates, every bucket is cleared and stays locked -/
theorem preGc_spec {d : DM} {hash : Hash} (hinv : d.Inv hash false) :
    ∃ d', d.preGc = some d' ∧ d'.Inv hash true ∧ d'.abs = [] ∧ d'.entryCap = d.entryCap ∧
      d'.buckets.size = d.buckets.size := by
  refine ⟨{ d with buckets := d.buckets.map (fun e => { e.clear with locked := true }) },
    by simp [DM.preGc, anyLocked_false hinv],
    ⟨fun i e h => ?_, fun i e k v h ha => ?_, fun i e h => ?_, fun _ i e h => ?_⟩, ?_, rfl, by simp⟩
  · simp only [Array.getElem?_map, Option.map_eq_some_iff] at h
    obtain ⟨e0, he0, rfl⟩ := h
    exact ⟨(hinv.wf i e0 he0).1, .inl rfl⟩
  · simp only [Array.getElem?_map, Option.map_eq_some_iff] at h
    obtain ⟨e0, he0, rfl⟩ := h
    simp [Entry.abs, Entry.clear] at ha
  · simp only [Array.getElem?_map, Option.map_eq_some_iff] at h
    obtain ⟨e0, he0, rfl⟩ := h
    rfl
  · simp only [Array.getElem?_map, Option.map_eq_some_iff] at h
    obtain ⟨e0, he0, rfl⟩ := h
    rfl
  · simp only [DM.abs, Array.toList_map, List.filterMap_map]
    rw [List.filterMap_eq_nil_iff]
    intro e _; simp [Entry.abs, Entry.clear]

/-- `post_gc` after `pre_gc`: all buckets unlocked, the cache is (still) empty -/
theorem postGc_spec {d : DM} {hash : Hash} (hinv : d.Inv hash true) :
    d.postGc.Inv hash false ∧ d.postGc.abs = [] ∧ d.postGc.entryCap = d.entryCap ∧
      d.postGc.buckets.size = d.buckets.size := by
  refine ⟨⟨fun i e h => ?_, fun i e k v h ha => ?_, fun i e h => ?_, fun hgc => by cases hgc⟩, ?_,
    rfl, by simp [DM.postGc]⟩
  · simp only [DM.postGc, Array.getElem?_map, Option.map_eq_some_iff] at h
    obtain ⟨e0, he0, rfl⟩ := h
    exact ⟨(hinv.wf i e0 he0).1, .inl (hinv.gcEmpty rfl i e0 he0)⟩
  · simp only [DM.postGc, Array.getElem?_map, Option.map_eq_some_iff] at h
    obtain ⟨e0, he0, rfl⟩ := h
    simp [Entry.abs, hinv.gcEmpty rfl i e0 he0] at ha
  · simp only [DM.postGc, Array.getElem?_map, Option.map_eq_some_iff] at h
    obtain ⟨e0, he0, rfl⟩ := h
    rfl
  · simp only [DM.postGc, DM.abs, Array.toList_map, List.filterMap_map]
    rw [List.filterMap_eq_nil_iff]
    intro e he
    obtain ⟨i, hi⟩ := List.mem_iff_getElem?.1 he
    rw [Array.getElem?_toList] at hi
    simp [Entry.abs, hinv.gcEmpty rfl i e hi]

/-- during a collection the cache is empty and `add_extended` changes nothing -/
theorem gc_abs {d : DM} {hash : Hash} (hinv : d.Inv hash true) : d.abs = [] := by
  simp only [DM.abs]
  rw [List.filterMap_eq_nil_iff]
  intro e he
  obtain ⟨i, hi⟩ := List.mem_iff_getElem?.1 he
  rw [Array.getElem?_toList] at hi
  simp [Entry.abs, hinv.gcEmpty rfl i e hi]

theorem add_gc {d : DM} {hash : Hash} (hinv : d.Inv hash true) (lf : Bool) (op : Nat)
    (es ns : List Nat) (v : Val) : d.add hash lf op es ns v = d := by
  simp only [DM.add, DM.addAt]
  split
  · rfl
  · split
    · rfl
    · rename_i e he
      simp [hinv.lock _ _ he]

/-- a blocking `lock()` during a collection never returns: `clear` and a second `pre_gc` dead-lock
(non-empty table) -/
theorem clear_gc_blocks {d : DM} {hash : Hash} (hinv : d.Inv hash true) (hne : 0 < d.buckets.size) :
    d.clear = none ∧ d.preGc = none := by
  simp [DM.clear, DM.preGc, anyLocked_true hinv hne]

end OxiddModel.Cache
