/-!
# Slot-level model of the direct-mapped apply cache (`crates/oxidd-cache/src/direct.rs`)

The model mirrors `DMApplyCache<M, O, H, ENTRY_CAP>` branch by branch:

* `Entry` = one bucket: the mutex (`locked`, held only across `pre_gc … post_gc` in a sequential
  history; a transient holder in another thread is the `lockFails` oracle of `try_lock`), the two
  `CountPair` bytes `operands` (0 = not occupied) and `values`, the `operator`
  (`MaybeUninit<O>`, initially 0) and the `data` array of `ENTRY_CAP` `Datum`s. A `Datum` is a
  `union { edge, numeric, uninit }`, so the model stores the raw word (a `Nat`): edge operands,
  numeric operands, edge values and numeric values all live in the same array, as in the code, and
  are told apart by the two count pairs only.
* `countPair edge numeric = (numeric << 4 | edge) as u8` with its accessors — including the
  truncation to a byte.
* `Entry.get` = `EntryGuard::get::<E, N>`: compares, in this order, the operand count pair, every
  edge operand, every numeric operand, the operator and the value count pair `(E, N)`; then slices
  the values out of `data`. `Entry.set` = `EntryGuard::set`; `Entry.clear` = `EntryGuard::clear`
  (only the operand count is reset; the data stay behind).
* `DM.getAt/addAt` = `get_extended/add_extended` on bucket `i` (argument-count gate, `try_lock`,
  then `get`/`set`), `DM.get/add` = the same with `i = bucketIdx (hash …)` where
  `bucketIdx len h = h & (len - 1)` as in `DMApplyCache::bucket` for an **arbitrary** hash of
  (operator, edge operands, numeric operands) — the value shape is *not* hashed, as in the code;
  `DM.clear`, `DM.preGc` (lock all, clear, keep locked), `DM.postGc` (unlock all),
  `DM.withCapacity` (`checked_next_power_of_two` many buckets).

Not modelled: the `statistics` feature counters, `Debug`, panics of the `debug_assert!`s
(release semantics; the harness builds with debug assertions, which is why the count-pair
collision of `entryCap ≥ 17` is shown on the model and on a separate release build).
-/
namespace OxiddModel.Cache

/-- `KIND_BITS` -/
def KIND_BITS : Nat := 4
/-- `KIND_COUNT = 1 << KIND_BITS` -/
def KIND_COUNT : Nat := 16

/-- `CountPair::new(edge, numeric) = Self((numeric << 4 | edge) as u8)` -/
def countPair (edge numeric : Nat) : Nat := ((numeric <<< 4) ||| edge) % 256
/-- `CountPair::edge = self.0 as usize & (KIND_COUNT - 1)` -/
def cpEdge (c : Nat) : Nat := c &&& 15
/-- `CountPair::numeric = (self.0 >> KIND_BITS) as usize` -/
def cpNumeric (c : Nat) : Nat := c >>> 4

/-- full cache key as compared by `EntryGuard::get::<E, N>`: operator, edge operands, numeric
operands and the value shape `(E, N)` (number of edge values, number of numeric values) -/
structure Key where
  op : Nat
  edges : List Nat
  nums : List Nat
  ev : Nat
  nv : Nat
deriving DecidableEq, Repr, Inhabited

/-- a value: edge values and numeric values -/
abbrev Val := List Nat × List Nat

/-- one bucket (`struct Entry`) -/
structure Entry where
  /-- `mutex` is held (only `pre_gc` leaves it so) -/
  locked : Bool
  /-- `operands: CountPair`; 0 = `CountPair::NULL` = not occupied -/
  operands : Nat
  /-- `values: CountPair` -/
  values : Nat
  /-- `operator: MaybeUninit<O>` -/
  operator : Nat
  /-- `data: [Datum; ENTRY_CAP]` (raw words) -/
  data : List Nat
deriving DecidableEq, Repr, Inhabited

/-- `Entry::INIT` -/
def Entry.init (entryCap : Nat) : Entry := ⟨false, 0, 0, 0, List.replicate entryCap 0⟩

/-- `for (o1, o2) in operands.iter().zip(data.by_ref()) { if o1 != o2 { return None } }`:
`none` = a mismatch was found, `some rest` = the loop ran to its end and `data` (the `by_ref`
iterator) now stands at `rest`. `Zip::next` polls the operand iterator first, so no datum is
consumed after the last operand. -/
def zipCmp : List Nat → List Nat → Option (List Nat)
  | [], d => some d
  | _ :: _, [] => some []
  | o :: os, x :: d => if o != x then none else zipCmp os d

/-- `EntryGuard::get::<E, N>` with `E = k.ev`, `N = k.nv` -/
def Entry.get (e : Entry) (k : Key) : Option Val :=
  -- `if *self.0.operands.get() != num_operands { return None }`
  if e.operands != countPair k.edges.length k.nums.length then none else
  -- edge operands
  match zipCmp k.edges e.data with
  | none => none
  | some d1 =>
    -- numeric operands
    match zipCmp k.nums d1 with
    | none => none
    | some d2 =>
      -- `operator != operator || values != CountPair::new(E, N)`
      if e.operator != k.op || e.values != countPair k.ev k.nv then none
      else
        -- `data.as_slice().split_at(E)`, `&remaining[..N]`
        some (d2.take k.ev, (d2.drop k.ev).take k.nv)

/-- `for (src, dst) in src.iter().zip(data.by_ref()) { *dst = src }` for the concatenation of the
four source slices (edge operands, numeric operands, edge values, numeric values): overwrite a
prefix of `data`, leave the rest as it is -/
def writePrefix : List Nat → List Nat → List Nat
  | d, [] => d
  | [], _ :: _ => []
  | _ :: d, x :: xs => x :: writePrefix d xs

/-- `EntryGuard::clear`: only the operand count is reset -/
def Entry.clear (e : Entry) : Entry := { e with operands := 0 }

/-- `EntryGuard::set`: `clear`, write operator and data, then the two counts (always overwrites,
also when the key is already present) -/
def Entry.set (e : Entry) (op : Nat) (es ns ves vns : List Nat) : Entry :=
  { e.clear with
    operator := op
    data := writePrefix e.data (es ++ ns ++ ves ++ vns)
    values := countPair ves.length vns.length
    operands := countPair es.length ns.length }

/-- `is_occupied` -/
def Entry.occupied (e : Entry) : Bool := e.operands != 0

/-- the early-return condition of `get_extended` / `add_extended`
(`ne`/`nn` operand counts, `E`/`N` value counts); `true` = the call does nothing -/
def gate (entryCap ne nn E N : Nat) : Bool :=
  let total := ne + nn
  total == 0 || decide (total + (N + E) > entryCap) || decide (ne > KIND_COUNT) ||
    decide (nn > KIND_COUNT) || decide (N > KIND_COUNT) || decide (E > KIND_COUNT)

/-- `DMApplyCache` -/
structure DM where
  /-- the const generic `ENTRY_CAP` -/
  entryCap : Nat
  buckets : Array Entry
deriving Repr

/-- `checked_next_power_of_two` (fuel `n` suffices: `2^n ≥ n`) -/
def nextPow2Aux (n : Nat) : Nat → Nat → Nat
  | 0, p => p
  | fuel + 1, p => if n ≤ p then p else nextPow2Aux n fuel (2 * p)
def nextPow2 (n : Nat) : Nat := nextPow2Aux n n 1

/-- `DMApplyCache::with_capacity` -/
def DM.withCapacity (entryCap capacity : Nat) : DM :=
  ⟨entryCap, Array.replicate (nextPow2 capacity) (Entry.init entryCap)⟩

/-- an empty cache with exactly `n` buckets (any `n`, power of two or not) -/
def DM.empty (entryCap n : Nat) : DM := ⟨entryCap, Array.replicate n (Entry.init entryCap)⟩

/-- `let mask = (self.0.len() - 1) as u64; (hasher.finish() & mask) as usize` -/
def bucketIdx (len h : Nat) : Nat := h &&& (len - 1)

/-- the hash is any function of operator, edge operands and numeric operands (what
`DMApplyCache::bucket` feeds to the hasher) -/
abbrev Hash := Nat → List Nat → List Nat → Nat

def DM.idx (d : DM) (hash : Hash) (k : Key) : Nat :=
  bucketIdx d.buckets.size (hash k.op k.edges k.nums)

/-- `get_extended::<E, N>` on bucket `i`; `lockFails` = the `try_lock` loses against another
thread at this instant -/
def DM.getAt (d : DM) (lockFails : Bool) (i : Nat) (k : Key) : Option Val :=
  if gate d.entryCap k.edges.length k.nums.length k.ev k.nv then none else
  match d.buckets[i]? with
  | none => none
  | some e =>
    -- `.try_lock()?`
    if e.locked || lockFails then none else e.get k

/-- `add_extended` on bucket `i` -/
def DM.addAt (d : DM) (lockFails : Bool) (i : Nat) (op : Nat) (es ns ves vns : List Nat) : DM :=
  if gate d.entryCap es.length ns.length ves.length vns.length then d else
  match d.buckets[i]? with
  | none => d
  | some e =>
    -- `if let Some(mut entry) = ….try_lock() { entry.set(…) }`
    if e.locked || lockFails then d
    else { d with buckets := d.buckets.setIfInBounds i (e.set op es ns ves vns) }

def DM.get (d : DM) (hash : Hash) (lockFails : Bool) (k : Key) : Option Val :=
  d.getAt lockFails (d.idx hash k) k

/-- the key under which `add_extended` stores: the value shape is the shape of the values -/
def keyOf (op : Nat) (es ns : List Nat) (v : Val) : Key := ⟨op, es, ns, v.1.length, v.2.length⟩

def DM.add (d : DM) (hash : Hash) (lockFails : Bool) (op : Nat) (es ns : List Nat) (v : Val) : DM :=
  d.addAt lockFails (bucketIdx d.buckets.size (hash op es ns)) op es ns v.1 v.2

/-- some bucket is held (by `pre_gc`) -/
def DM.anyLocked (d : DM) : Bool := d.buckets.any (·.locked)

/-- `ApplyCache::clear`: `entry.lock().clear()` for every bucket. The blocking `lock()` never
returns while `pre_gc` holds the bucket (same thread: deadlock); `none` = blocks for ever -/
def DM.clear (d : DM) : Option DM :=
  if d.anyLocked then none else some { d with buckets := d.buckets.map Entry.clear }

/-- `pre_gc`: lock every bucket, clear it, and *do not unlock* (`mem::forget(guard)`) -/
def DM.preGc (d : DM) : Option DM :=
  if d.anyLocked then none
  else some { d with buckets := d.buckets.map (fun e => { e.clear with locked := true }) }

/-- `post_gc`: unlock every bucket -/
def DM.postGc (d : DM) : DM :=
  { d with buckets := d.buckets.map (fun e => { e with locked := false }) }

/-! ## abstraction: the entry a bucket holds -/

/-- the key stored in a bucket, decoded through the two count pairs -/
def Entry.key (e : Entry) : Key :=
  ⟨e.operator, e.data.take (cpEdge e.operands),
    (e.data.drop (cpEdge e.operands)).take (cpNumeric e.operands),
    cpEdge e.values, cpNumeric e.values⟩

/-- the value stored in a bucket -/
def Entry.val (e : Entry) : Val :=
  let rest := e.data.drop (cpEdge e.operands + cpNumeric e.operands)
  (rest.take (cpEdge e.values), (rest.drop (cpEdge e.values)).take (cpNumeric e.values))

/-- what the bucket holds: nothing (`operands = NULL`) or a key/value pair -/
def Entry.abs (e : Entry) : Option (Key × Val) :=
  if e.operands = 0 then none else some (e.key, e.val)

/-- **abstraction function**: the present entries, in bucket order -/
def DM.abs (d : DM) : List (Key × Val) := d.buckets.toList.filterMap Entry.abs

end OxiddModel.Cache
