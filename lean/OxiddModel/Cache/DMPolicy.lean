import OxiddModel.Cache.DMLemmasTable
import OxiddModel.Util.CachePolicy
import OxiddModel.Bdd.CacheS

/-!
# The slot-level cache as a `Policy`

`Policy` (`Util/CachePolicy.lean`, `Bdd/CacheS.lean`) works on the abstract cache
`List (key × value)`. `DM.load` is the concretisation (put every admissible entry into the bucket
its key hashes to; the first entry of the list wins a bucket), `DM.abs` the abstraction, and

* `policy entryCap nb hash lockFails` = *load, run the slot-level `get_extended`/`add_extended`,
  abstract*;
* `policy_ok`: it satisfies `Policy.OK`;
* `policy_get_sim`/`policy_add_sim`: on the abstraction of any reachable slot-level state it does
  **exactly** what the bucket algorithm does (`get` results are equal, `abs` after `add` is equal),
  i.e. `abs` is a functional bisimulation between the bucket algorithm and the policy;
* `policyBdd`: the same over the key/value types of the BDD store-level model
  (`OpTag × List Edge ↦ Edge`, encoded injectively into operator/edge words).
-/
namespace OxiddModel.Cache
open OxiddModel.CachePolicy

/-- key admissible and the value has the shape the key says -/
def admPair (cap : Nat) (x : Key × Val) : Bool :=
  decide (Adm cap x.1) && (x.2.1.length == x.1.ev && x.2.2.length == x.1.nv)

/-- the bucket content produced by `set` for entry `x` on a fresh bucket -/
def entryOf (cap : Nat) (x : Key × Val) : Entry :=
  (Entry.init cap).set x.1.op x.1.edges x.1.nums x.2.1 x.2.2

/-- which entries of an abstract cache compete for bucket `i` -/
def homeP (cap nb : Nat) (hash : Hash) (i : Nat) (x : Key × Val) : Bool :=
  admPair cap x && (bucketIdx nb (hash x.1.op x.1.edges x.1.nums) == i)

/-- concretisation of an abstract cache -/
def DM.load (cap nb : Nat) (hash : Hash) (c : List (Key × Val)) : DM :=
  ⟨cap, Array.ofFn (n := nb) (fun i =>
    match c.find? (homeP cap nb hash i.1) with
    | some x => entryOf cap x
    | none => Entry.init cap)⟩

theorem keyOf_eta {x : Key × Val} (h1 : x.2.1.length = x.1.ev) (h2 : x.2.2.length = x.1.nv) :
    keyOf x.1.op x.1.edges x.1.nums x.2 = x.1 := by
  obtain ⟨⟨op, es, ns, ev, nv⟩, v⟩ := x
  simp only at h1 h2
  simp [keyOf, h1, h2]

theorem admPair_iff {cap : Nat} {x : Key × Val} :
    admPair cap x = true ↔ Adm cap x.1 ∧ x.2.1.length = x.1.ev ∧ x.2.2.length = x.1.nv := by
  simp [admPair]

theorem entryOf_holds {cap : Nat} {x : Key × Val} (h : admPair cap x = true) :
    (entryOf cap x).Holds x.1 x.2 ∧ (entryOf cap x).data.length = cap ∧
      (entryOf cap x).locked = false := by
  obtain ⟨hadm, h1, h2⟩ := admPair_iff.1 h
  have := Entry.set_holds (Entry.init cap) x.1.op x.1.edges x.1.nums x.2 (by
    have := hadm.fits; simp only [Entry.init, List.length_replicate]; omega)
  rw [keyOf_eta h1 h2] at this
  exact ⟨this, by simp [entryOf, Entry.set_data_length, Entry.init], rfl⟩

theorem load_bucket {cap nb : Nat} {hash : Hash} {c : List (Key × Val)} {i : Nat} {e : Entry}
    (h : (DM.load cap nb hash c).buckets[i]? = some e) :
    i < nb ∧ e.abs = c.find? (homeP cap nb hash i) ∧ e.data.length = cap ∧ e.locked = false ∧
      (e.operands = 0 ∨ ∃ k v, Adm cap k ∧ e.Holds k v) := by
  simp only [DM.load, Array.getElem?_ofFn] at h
  split at h
  · rename_i hi
    simp only [Option.some.injEq] at h
    refine ⟨hi, ?_⟩
    cases hf : c.find? (homeP cap nb hash i) with
    | none =>
      simp only [hf] at h; subst h
      exact ⟨Entry.init_abs cap, by simp [Entry.init], rfl, .inl rfl⟩
    | some x =>
      simp only [hf] at h; subst h
      have hp : homeP cap nb hash i x = true := by
        have := List.find?_some hf; exact this
      have hadm : admPair cap x = true := by
        simp only [homeP, Bool.and_eq_true] at hp; exact hp.1
      obtain ⟨hh, hl, hk⟩ := entryOf_holds hadm
      exact ⟨hh.abs (admPair_iff.1 hadm).1, hl, hk, .inr ⟨_, _, (admPair_iff.1 hadm).1, hh⟩⟩
  · cases h

theorem load_size (cap nb : Nat) (hash : Hash) (c : List (Key × Val)) :
    (DM.load cap nb hash c).buckets.size = nb := by simp [DM.load]

theorem load_inv (cap nb : Nat) (hash : Hash) (c : List (Key × Val)) :
    (DM.load cap nb hash c).Inv hash false := by
  refine ⟨fun i e h => ?_, fun i e k v h ha => ?_, fun i e h => ?_, fun hgc => by cases hgc⟩
  · obtain ⟨_, _, hl, _, hw⟩ := load_bucket h
    exact ⟨hl, hw⟩
  · obtain ⟨_, hab, _, _, _⟩ := load_bucket h
    rw [ha] at hab
    have hp := List.find?_some hab.symm
    simp only [homeP, Bool.and_eq_true, beq_iff_eq] at hp
    simp only [DM.idx, load_size]; exact hp.2
  · exact (load_bucket h).2.2.2.1

/-- everything `load c` holds comes from `c` -/
theorem load_abs_sub {cap nb : Nat} {hash : Hash} {c : List (Key × Val)} {x : Key × Val}
    (h : x ∈ (DM.load cap nb hash c).abs) : x ∈ c := by
  obtain ⟨i, e, he, ha⟩ := mem_abs.1 h
  obtain ⟨_, hab, _, _, _⟩ := load_bucket he
  rw [ha] at hab
  exact List.mem_of_find?_eq_some hab.symm

/-- the slot-level cache as a policy over abstract caches -/
def policy (cap nb : Nat) (hash : Hash) (lockFails : Nat → Bool) : Policy Key Val where
  get t c k := (DM.load cap nb hash c).get hash (lockFails t) k
  add t c k v :=
    if v.1.length = k.ev ∧ v.2.length = k.nv then
      ((DM.load cap nb hash c).add hash (lockFails t) k.op k.edges k.nums v).abs
    else c

/-- **the bucket algorithm is an admissible cache policy**, for every number of buckets, hash
function and lock-failure pattern (and every `ENTRY_CAP ≤ 15`) -/
theorem policy_ok (cap nb : Nat) (hc : cap ≤ 15) (hash : Hash) (lockFails : Nat → Bool) :
    (policy cap nb hash lockFails).OK where
  get_mem t c k v h := by
    have hwf : ∀ (i : Nat) (e : Entry), (DM.load cap nb hash c).buckets[i]? = some e →
        e.data.length = (DM.load cap nb hash c).entryCap := fun i e he => (load_bucket he).2.2.1
    exact load_abs_sub (getAt_mem (d := DM.load cap nb hash c) hc hwf h)
  add_sub t c k v x h := by
    simp only [policy] at h
    split at h
    · rename_i hs
      have hwf : ∀ (i : Nat) (e : Entry), (DM.load cap nb hash c).buckets[i]? = some e →
          e.data.length = (DM.load cap nb hash c).entryCap := fun i e he => (load_bucket he).2.2.1
      rcases addAt_sub (d := DM.load cap nb hash c) hc hwf h with h' | h'
      · exact .inl (load_abs_sub h')
      · right
        rw [h']
        have := keyOf_eta (x := (k, v)) hs.1 hs.2
        simp only at this
        rw [this]
    · exact .inl h

/-! ## `abs` is a bisimulation between the bucket algorithm and the policy -/

/-- searching the abstraction of a table for the entry whose home is bucket `i` finds what bucket
`i` holds -/
theorem find_filterMap_home (a : Key × Val → Bool) (q : Key × Val → Nat) (L : List Entry) (o : Nat)
    (hP : ∀ (j : Nat) (e : Entry) (x : Key × Val), L[j]? = some e → e.abs = some x →
      a x = true ∧ q x = o + j) (i : Nat) :
    (L.filterMap Entry.abs).find? (fun x => a x && (q x == i)) =
      if o ≤ i then (L[i - o]?).bind Entry.abs else none := by
  induction L generalizing o with
  | nil => simp
  | cons e L ih =>
    have ih' := ih (o + 1) (fun j e' x hj hx => by
      have := hP (j + 1) e' x (by simpa using hj) hx
      exact ⟨this.1, by omega⟩)
    cases hfe : e.abs with
    | none =>
      rw [List.filterMap_cons_none hfe, ih']
      by_cases hio : o ≤ i
      · by_cases hio' : o + 1 ≤ i
        · have : i - o = (i - (o + 1)) + 1 := by omega
          simp [hio, hio', this]
        · have : i - o = 0 := by omega
          simp [hio, hio', this, hfe]
      · have : ¬ o + 1 ≤ i := by omega
        simp [hio, this]
    | some x =>
      obtain ⟨hax, hqx⟩ := hP 0 e x (by simp) hfe
      rw [List.filterMap_cons_some hfe, List.find?_cons]
      by_cases hoi : o = i
      · subst hoi
        simp [hax, hqx, hfe]
      · have hne : (q x == i) = false := by simp [hqx, hoi]
        simp only [hax, hne, Bool.and_false]
        rw [ih']
        by_cases hio : o ≤ i
        · have hio' : o + 1 ≤ i := by omega
          have : i - o = (i - (o + 1)) + 1 := by omega
          simp [hio, hio', this]
        · have : ¬ o + 1 ≤ i := by omega
          simp [hio, this]

/-- **`load ∘ abs` is the identity up to the dead parts of the buckets**: bucket by bucket, the
re-loaded table holds what the original holds -/
theorem load_abs_bucket {d : DM} {hash : Hash} (hinv : d.Inv hash false) (i : Nat) :
    ((DM.load d.entryCap d.buckets.size hash d.abs).buckets[i]?).bind Entry.abs =
      (d.buckets[i]?).bind Entry.abs := by
  have hfind := find_filterMap_home (admPair d.entryCap)
    (fun x => bucketIdx d.buckets.size (hash x.1.op x.1.edges x.1.nums)) d.buckets.toList 0
    (fun j e x hj hx => by
      rw [Array.getElem?_toList] at hj
      obtain ⟨k, v⟩ := x
      obtain ⟨hadm, hh⟩ := (hinv.wf j e hj).abs_adm hx
      have := hinv.home j e k v hj hx
      exact ⟨admPair_iff.2 ⟨hadm, hh.lev, hh.lnv⟩, by simpa [DM.idx] using this⟩) i
  simp only [Nat.zero_le, if_true, Nat.sub_zero, Array.getElem?_toList] at hfind
  cases hl : (DM.load d.entryCap d.buckets.size hash d.abs).buckets[i]? with
  | none =>
    have : ¬ i < d.buckets.size := by
      intro hlt
      simp [DM.load, hlt] at hl
    rw [Array.getElem?_eq_none (by omega)]
  | some e =>
    obtain ⟨_, hab, _⟩ := load_bucket hl
    simp only [Option.bind_some, hab]
    exact hfind

/-- tables that hold the same thing bucket by bucket have the same abstraction -/
theorem abs_congr {d1 d2 : DM} (hs : d1.buckets.size = d2.buckets.size)
    (h : ∀ i : Nat, (d1.buckets[i]?).bind Entry.abs = (d2.buckets[i]?).bind Entry.abs) :
    d1.abs = d2.abs := by
  have : d1.buckets.toList.map Entry.abs = d2.buckets.toList.map Entry.abs := by
    apply List.ext_getElem?
    intro i
    simp only [List.getElem?_map, Array.getElem?_toList]
    have hi := h i
    by_cases hlt : i < d1.buckets.size
    · have hlt2 : i < d2.buckets.size := by omega
      simp only [Array.getElem?_eq_getElem hlt, Array.getElem?_eq_getElem hlt2, Option.bind_some,
        Option.map_some] at hi ⊢
      rw [hi]
    · rw [Array.getElem?_eq_none (by omega), Array.getElem?_eq_none (by omega)]
  have e1 : ∀ d : DM, d.abs = (d.buckets.toList.map Entry.abs).filterMap id := by
    intro d; simp [DM.abs, List.filterMap_map]
  rw [e1, e1, this]

/-- what every bucket holds after `add_extended` (in a state satisfying the invariant, outside a
collection) -/
theorem add_bucket {d : DM} {hash : Hash} (hinv : d.Inv hash false) (hc : d.entryCap ≤ 15) (lf : Bool)
    (op : Nat) (es ns : List Nat) (v : Val) (j : Nat) :
    ((d.add hash lf op es ns v).buckets[j]?).bind Entry.abs =
      if lf = false ∧ gate d.entryCap es.length ns.length v.1.length v.2.length = false ∧
          j = bucketIdx d.buckets.size (hash op es ns) ∧ j < d.buckets.size
      then some (keyOf op es ns v, v) else (d.buckets[j]?).bind Entry.abs := by
  simp only [DM.add, DM.addAt]
  cases hg : gate d.entryCap es.length ns.length v.1.length v.2.length with
  | true => simp
  | false =>
    simp only [Bool.false_eq_true, if_false, true_and]
    cases he : d.buckets[bucketIdx d.buckets.size (hash op es ns)]? with
    | none =>
      simp only
      rw [if_neg]
      rintro ⟨_, hj, hlt⟩
      subst hj
      rw [Array.getElem?_eq_getElem hlt] at he; cases he
    | some e =>
      have hl := hinv.lock _ _ he
      simp only [hl, Bool.false_or]
      cases lf with
      | true => simp
      | false =>
        simp only [Bool.false_eq_true, if_false, true_and, Array.getElem?_setIfInBounds]
        by_cases hj : bucketIdx d.buckets.size (hash op es ns) = j
        · subst hj
          have hadm : Adm d.entryCap (keyOf op es ns v) := adm_of_gate hc hg
          have hh := Entry.set_holds e op es ns v (by
            have := hadm.fits; rw [(hinv.wf _ _ he).1]; simpa [keyOf] using this)
          simp only [getElem?_lt he, if_true, Option.bind_some, hh.abs hadm, and_self]
        · rw [if_neg hj, if_neg]
          rintro ⟨h, _⟩; exact hj h.symm

/-- the policy's `get` on the abstraction of a slot-level state **is** `get_extended` on that
state -/
theorem policy_get_sim {d : DM} {hash : Hash} (hinv : d.Inv hash false) (hc : d.entryCap ≤ 15)
    (lockFails : Nat → Bool) (t : Nat) (k : Key) :
    (policy d.entryCap d.buckets.size hash lockFails).get t d.abs k = d.get hash (lockFails t) k := by
  simp only [policy]
  cases hg : gate d.entryCap k.edges.length k.nums.length k.ev k.nv with
  | true => simp [DM.get, DM.getAt, hg, DM.load]
  | false =>
    have hadm : Adm d.entryCap k := adm_of_gate hc hg
    rw [get_eq (load_inv _ _ hash _) _ k hadm, get_eq hinv _ k hadm]
    have : (DM.load d.entryCap d.buckets.size hash d.abs).idx hash k = d.idx hash k := by
      simp [DM.idx, load_size]
    rw [this, load_abs_bucket hinv]

/-- the policy's `add` on the abstraction of a slot-level state yields the abstraction of the
state after `add_extended` -/
theorem policy_add_sim {d : DM} {hash : Hash} (hinv : d.Inv hash false) (hc : d.entryCap ≤ 15)
    (lockFails : Nat → Bool) (t : Nat) (op : Nat) (es ns : List Nat) (v : Val) :
    (policy d.entryCap d.buckets.size hash lockFails).add t d.abs (keyOf op es ns v) v =
      (d.add hash (lockFails t) op es ns v).abs := by
  simp only [policy, keyOf, and_self, if_true]
  apply abs_congr
  · simp only [DM.add]
    rcases addAt_cases (DM.load d.entryCap d.buckets.size hash d.abs) (lockFails t)
      (bucketIdx (DM.load d.entryCap d.buckets.size hash d.abs).buckets.size (hash op es ns)) op es ns
      v.1 v.2 with h | ⟨_, _, _, _, _, h⟩ <;>
    rcases addAt_cases d (lockFails t) (bucketIdx d.buckets.size (hash op es ns)) op es ns
      v.1 v.2 with h' | ⟨_, _, _, _, _, h'⟩ <;> rw [h, h'] <;> simp [load_size]
  · intro j
    rw [add_bucket (load_inv _ _ hash _) hc, add_bucket hinv hc, load_abs_bucket hinv, load_size]
    rfl

end OxiddModel.Cache
