import OxiddModel.Cache.DMPolicy

/-!
# The slot-level cache as a policy of the BDD store-level model

`Bdd/CacheS.lean` has keys `OpTag × List Edge` and values `Edge`. They are encoded injectively
into the words the bucket stores (`apply_bin`, `apply_not`, `apply_ite` call `ApplyCache::get/add`,
i.e. `get_extended::<1, 0>` / `add_extended` with no numeric operands and one edge value), and
the slot-level algorithm is run on the encodings.
-/
namespace OxiddModel.Cache
open OxiddModel.Bdd.Refine

/-- `BDDOp as u8`-style operator word -/
def encTag : OpTag → Nat
  | .not => 0 | .and => 1 | .or => 2 | .nand => 3 | .nor => 4 | .xor => 5 | .equiv => 6
  | .imp => 7 | .impStrict => 8 | .ite => 9

theorem encTag_inj {a b : OpTag} (h : encTag a = encTag b) : a = b := by
  cases a <;> cases b <;> first | rfl | cases h

/-- the word of an edge (terminals first, as in the index-based manager) -/
def encE : Edge → Nat
  | .term false => 0
  | .term true => 1
  | .inner i => i + 2

def decE : Nat → Edge
  | 0 => .term false
  | 1 => .term true
  | i + 2 => .inner i

theorem decE_encE (e : Edge) : decE (encE e) = e := by
  cases e with
  | term b => cases b <;> rfl
  | inner i => rfl

theorem encE_inj {a b : Edge} (h : encE a = encE b) : a = b := by
  rw [← decE_encE a, ← decE_encE b, h]

theorem map_encE_inj {a b : List Edge} (h : a.map encE = b.map encE) : a = b := by
  induction a generalizing b with
  | nil => cases b with
    | nil => rfl
    | cons _ _ => simp at h
  | cons x xs ih => cases b with
    | nil => simp at h
    | cons y ys =>
      simp only [List.map_cons, List.cons.injEq] at h
      rw [encE_inj h.1, ih h.2]

/-- `ApplyCache::get(operator, operands)` = `get_extended::<1, 0>(operator, (operands, &[]))` -/
def encKey (k : OxiddModel.Bdd.Refine.Key) : Key := ⟨encTag k.1, k.2.map encE, [], 1, 0⟩
/-- `ApplyCache::add(…, value)` = `add_extended(…, (&[value], &[]))` -/
def encVal (r : Edge) : Val := ([encE r], [])

def decVal : Val → Option Edge
  | ([x], []) => some (decE x)
  | _ => none

theorem decVal_encVal (r : Edge) : decVal (encVal r) = some r := by simp [decVal, encVal, decE_encE]

theorem encKey_inj {a b : OxiddModel.Bdd.Refine.Key} (h : encKey a = encKey b) : a = b := by
  obtain ⟨ta, ea⟩ := a
  obtain ⟨tb, eb⟩ := b
  simp only [encKey, Key.mk.injEq, and_true] at h
  rw [encTag_inj h.1, map_encE_inj h.2]

theorem encVal_inj {a b : Edge} (h : encVal a = encVal b) : a = b := by
  simp only [encVal, Prod.mk.injEq, List.cons.injEq, and_true] at h
  exact encE_inj h

def encPair (x : OxiddModel.Bdd.Refine.Key × Edge) : Key × Val := (encKey x.1, encVal x.2)

theorem encPair_inj {a b : OxiddModel.Bdd.Refine.Key × Edge} (h : encPair a = encPair b) : a = b := by
  obtain ⟨ka, ra⟩ := a
  obtain ⟨kb, rb⟩ := b
  simp only [encPair, Prod.mk.injEq] at h
  rw [encKey_inj h.1, encVal_inj h.2]

def encCache (c : OxiddModel.Bdd.Refine.Cache) : List (Key × Val) := c.map encPair

/-- the slot-level cache as a `Policy` of the BDD store-level model: run the bucket algorithm on
the encodings; the abstract cache afterwards keeps exactly the entries whose encodings survive -/
def policyBdd (cap nb : Nat) (hash : Hash) (lockFails : Nat → Bool) : OxiddModel.Bdd.Refine.Policy where
  get t c k := ((policy cap nb hash lockFails).get t (encCache c) (encKey k)).bind decVal
  add t c k r :=
    ((k, r) :: c).filter (fun x =>
      decide (encPair x ∈ (policy cap nb hash lockFails).add t (encCache c) (encKey k) (encVal r)))

/-- a hit of `policyBdd` is a hit of the bucket algorithm on the encodings, and conversely -/
theorem policyBdd_get_iff (cap nb : Nat) (hc : cap ≤ 15) (hash : Hash) (lockFails : Nat → Bool)
    (t : Nat) (c : OxiddModel.Bdd.Refine.Cache) (k : OxiddModel.Bdd.Refine.Key) (r : Edge) :
    (policyBdd cap nb hash lockFails).get t c k = some r ↔
      (policy cap nb hash lockFails).get t (encCache c) (encKey k) = some (encVal r) := by
  simp only [policyBdd]
  constructor
  · intro h
    cases hg : (policy cap nb hash lockFails).get t (encCache c) (encKey k) with
    | none => rw [hg] at h; cases h
    | some v =>
      rw [hg, Option.bind_some] at h
      have hm := (policy_ok cap nb hc hash lockFails).get_mem t _ _ _ hg
      simp only [encCache, List.mem_map] at hm
      obtain ⟨x, _, hx⟩ := hm
      simp only [encPair, Prod.mk.injEq] at hx
      rw [← hx.2, decVal_encVal] at h
      cases h
      rw [hx.2]
  · intro h
    rw [h, Option.bind_some, decVal_encVal]

/-- the abstract cache after `policyBdd.add` is, through the encoding, the content of the buckets
after `add_extended` -/
theorem policyBdd_add_mem (cap nb : Nat) (hc : cap ≤ 15) (hash : Hash) (lockFails : Nat → Bool)
    (t : Nat) (c : OxiddModel.Bdd.Refine.Cache) (k : OxiddModel.Bdd.Refine.Key) (r : Edge)
    (y : Key × Val) :
    y ∈ encCache ((policyBdd cap nb hash lockFails).add t c k r) ↔
      y ∈ (policy cap nb hash lockFails).add t (encCache c) (encKey k) (encVal r) := by
  simp only [policyBdd, encCache, List.mem_map, List.mem_filter]
  constructor
  · rintro ⟨x, ⟨_, hx⟩, rfl⟩; exact of_decide_eq_true hx
  · intro hy
    rcases (policy_ok cap nb hc hash lockFails).add_sub t _ _ _ y hy with h | h
    · simp only [List.mem_map] at h
      obtain ⟨x, hx, rfl⟩ := h
      exact ⟨x, ⟨List.mem_cons_of_mem _ hx, decide_eq_true hy⟩, rfl⟩
    · subst h
      exact ⟨(k, r), ⟨List.mem_cons_self, decide_eq_true hy⟩, rfl⟩

/-- **the bucket algorithm is an admissible policy of the BDD store-level model** -/
theorem policyBdd_ok (cap nb : Nat) (hc : cap ≤ 15) (hash : Hash) (lockFails : Nat → Bool) :
    (policyBdd cap nb hash lockFails).OK where
  get_mem t c k r h := by
    have h' := (policyBdd_get_iff cap nb hc hash lockFails t c k r).1 h
    have hm := (policy_ok cap nb hc hash lockFails).get_mem t _ _ _ h'
    simp only [encCache, List.mem_map] at hm
    obtain ⟨x, hx, he⟩ := hm
    have : x = (k, r) := encPair_inj he
    rw [← this]; exact hx
  add_sub t c k r x h := by
    simp only [policyBdd, List.mem_filter, List.mem_cons] at h
    rcases h.1 with h' | h'
    · exact .inr h'
    · exact .inl h'

end OxiddModel.Cache
