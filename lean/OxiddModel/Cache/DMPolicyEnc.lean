import OxiddModel.Cache.DMPolicy

/-!
# Transport of the slot-level policy to any key/value types

The store-level models of the other diagram kinds (`Mtbdd/StoreS.lean`, `Tdd/StoreS.lean`) use
`CachePolicy.Policy κ ε` with their own operator tags and edges. Given any injective encoding of
keys and values into the words a bucket stores, the bucket algorithm run on the encodings is an
admissible `Policy κ ε`.
-/
namespace OxiddModel.Cache
open OxiddModel.CachePolicy

/-- an injective encoding of keys `κ` and values `ε` into bucket words -/
structure Enc (κ ε : Type) where
  encK : κ → Key
  encV : ε → Val
  decV : Val → Option ε
  encK_inj : ∀ a b, encK a = encK b → a = b
  encV_inj : ∀ a b, encV a = encV b → a = b
  dec_enc : ∀ r, decV (encV r) = some r

variable {κ ε : Type}

def Enc.pair (E : Enc κ ε) (x : κ × ε) : Key × Val := (E.encK x.1, E.encV x.2)

theorem Enc.pair_inj (E : Enc κ ε) {a b : κ × ε} (h : E.pair a = E.pair b) : a = b := by
  obtain ⟨ka, ra⟩ := a
  obtain ⟨kb, rb⟩ := b
  simp only [Enc.pair, Prod.mk.injEq] at h
  rw [E.encK_inj _ _ h.1, E.encV_inj _ _ h.2]

/-- the slot-level cache as a `Policy κ ε`: run the bucket algorithm on the encodings; the
abstract cache afterwards keeps exactly the entries whose encodings survive -/
def policyEnc (E : Enc κ ε) (cap nb : Nat) (hash : Hash) (lockFails : Nat → Bool) : Policy κ ε where
  get t c k := ((policy cap nb hash lockFails).get t (c.map E.pair) (E.encK k)).bind E.decV
  add t c k r :=
    ((k, r) :: c).filter (fun x =>
      decide (E.pair x ∈ (policy cap nb hash lockFails).add t (c.map E.pair) (E.encK k) (E.encV r)))

theorem policyEnc_get_iff (E : Enc κ ε) (cap nb : Nat) (hc : cap ≤ 15) (hash : Hash)
    (lockFails : Nat → Bool) (t : Nat) (c : Cache κ ε) (k : κ) (r : ε) :
    (policyEnc E cap nb hash lockFails).get t c k = some r ↔
      (policy cap nb hash lockFails).get t (c.map E.pair) (E.encK k) = some (E.encV r) := by
  simp only [policyEnc]
  constructor
  · intro h
    cases hg : (policy cap nb hash lockFails).get t (c.map E.pair) (E.encK k) with
    | none => rw [hg] at h; cases h
    | some v =>
      rw [hg, Option.bind_some] at h
      have hm := (policy_ok cap nb hc hash lockFails).get_mem t _ _ _ hg
      simp only [List.mem_map] at hm
      obtain ⟨x, _, hx⟩ := hm
      simp only [Enc.pair, Prod.mk.injEq] at hx
      rw [← hx.2, E.dec_enc] at h
      cases h
      rw [hx.2]
  · intro h
    rw [h, Option.bind_some, E.dec_enc]

theorem policyEnc_add_mem (E : Enc κ ε) (cap nb : Nat) (hc : cap ≤ 15) (hash : Hash)
    (lockFails : Nat → Bool) (t : Nat) (c : Cache κ ε) (k : κ) (r : ε) (y : Key × Val) :
    y ∈ ((policyEnc E cap nb hash lockFails).add t c k r).map E.pair ↔
      y ∈ (policy cap nb hash lockFails).add t (c.map E.pair) (E.encK k) (E.encV r) := by
  simp only [policyEnc, List.mem_map, List.mem_filter]
  constructor
  · rintro ⟨x, ⟨_, hx⟩, rfl⟩; exact of_decide_eq_true hx
  · intro hy
    rcases (policy_ok cap nb hc hash lockFails).add_sub t _ _ _ y hy with h | h
    · simp only [List.mem_map] at h
      obtain ⟨x, hx, rfl⟩ := h
      exact ⟨x, ⟨List.mem_cons_of_mem _ hx, decide_eq_true hy⟩, rfl⟩
    · subst h
      exact ⟨(k, r), ⟨List.mem_cons_self, decide_eq_true hy⟩, rfl⟩

/-- **the bucket algorithm is an admissible policy for every injectively encoded key/value type** -/
theorem policyEnc_ok (E : Enc κ ε) (cap nb : Nat) (hc : cap ≤ 15) (hash : Hash)
    (lockFails : Nat → Bool) : (policyEnc E cap nb hash lockFails).OK where
  get_mem t c k r h := by
    have h' := (policyEnc_get_iff E cap nb hc hash lockFails t c k r).1 h
    have hm := (policy_ok cap nb hc hash lockFails).get_mem t _ _ _ h'
    simp only [List.mem_map] at hm
    obtain ⟨x, hx, he⟩ := hm
    have : x = (k, r) := E.pair_inj he
    rw [← this]; exact hx
  add_sub t c k r x h := by
    simp only [policyEnc, List.mem_filter, List.mem_cons] at h
    rcases h.1 with h' | h'
    · exact .inr h'
    · exact .inl h'

/-- non-vacuity: keys `(tag, operand words, numeric words)`, values one edge word -/
def exEnc : Enc (Nat × List Nat × List Nat) Nat where
  encK k := ⟨k.1, k.2.1, k.2.2, 1, 0⟩
  encV r := ([r], [])
  decV v := match v with
    | ([x], []) => some x
    | _ => none
  encK_inj a b h := by
    obtain ⟨a1, a2, a3⟩ := a
    obtain ⟨b1, b2, b3⟩ := b
    simp only [Key.mk.injEq, and_true] at h
    simp [h.1, h.2.1, h.2.2]
  encV_inj a b h := by simpa using h
  dec_enc r := rfl

example : (policyEnc exEnc 4 4 (fun op es _ => op + es.sum) (fun _ => false)).get 0
      [((5, [1, 2], [7]), 9)] (5, [1, 2], [7]) = some 9 ∧
    (policyEnc exEnc 4 4 (fun op es _ => op + es.sum) (fun _ => false)).get 0
      [((5, [1, 2], [7]), 9)] (5, [1, 2], [8]) = none := by decide +kernel

end OxiddModel.Cache
