import OxiddModel.Cache.DMModel
import OxiddModel.Util.Proto

/-!
# Driver of the slot-level apply-cache model (protocol `dmcache`)

Operation lines (one canonical output line each):

* `mgr <capacity> <nvars>` → `ok buckets=<n>`: `DMApplyCache::with_capacity(capacity)` with
  `ENTRY_CAP = 4` (the BDD manager data);
* `add b=<i> <op> <ne> e… <nn> n… <nve> v… <nvn> x…` → `ok`;
* `get b=<i> <op> <ne> e… <nn> n… <E> <N>` → `miss` | `hit e=<v,…> n=<x,…>`;
* `clear`, `pregc`, `postgc`, `gc`, `reorder` (= `pre_gc; post_gc` around the collection / the
  reordering), `addvars <k>` (the BDD manager data does not touch the cache) → `ok`, or `blocked`
  if the call would never return.

`b=<i>` is the bucket index `hasher.finish() & mask` computed by the harness with the real hasher
(`FxHasher` over operator, edge operands, numeric operands), so the model predicts hit or miss
exactly. Edge words are the harness's pool indices (distinct pool entries are distinct edges).
-/
namespace OxiddModel.Cache.Driver
open OxiddModel OxiddModel.Cache

abbrev St := Option DM

def parseNats : List String → Option (List Nat)
  | [] => some []
  | w :: ws => match w.toNat?, parseNats ws with
    | some n, some ns => some (n :: ns)
    | _, _ => none

/-- read a count `n` and then `n` numbers -/
def takeCounted : List Nat → Option (List Nat × List Nat)
  | [] => none
  | n :: rest => if rest.length < n then none else some (rest.take n, rest.drop n)

def parseBucket (w : String) : Option Nat :=
  if w.startsWith "b=" then (w.drop 2).toString.toNat? else none

def commas (l : List Nat) : String := ",".intercalate (l.map toString)

def stepW (s : St) (ws : List String) : St × String :=
  match ws with
  | ["mgr", cap, _nvars] =>
    match cap.toNat? with
    | some c =>
      let d := DM.withCapacity 4 c
      (some d, s!"ok buckets={d.buckets.size}")
    | none => (s, "bad-op")
  | "add" :: b :: rest =>
    match s, parseBucket b, parseNats rest with
    | some d, some i, some (op :: r0) =>
      match takeCounted r0 with
      | some (es, r1) => match takeCounted r1 with
        | some (ns, r2) => match takeCounted r2 with
          | some (ves, r3) => match takeCounted r3 with
            | some (vns, []) =>
              if i < d.buckets.size then (some (d.addAt false i op es ns ves vns), "ok")
              else (s, "bad-op")
            | _ => (s, "bad-op")
          | none => (s, "bad-op")
        | none => (s, "bad-op")
      | none => (s, "bad-op")
    | _, _, _ => (s, "bad-op")
  | "get" :: b :: rest =>
    match s, parseBucket b, parseNats rest with
    | some d, some i, some (op :: r0) =>
      match takeCounted r0 with
      | some (es, r1) => match takeCounted r1 with
        | some (ns, [E, N]) =>
          if i < d.buckets.size then
            match d.getAt false i ⟨op, es, ns, E, N⟩ with
            | some v => (s, s!"hit e={commas v.1} n={commas v.2}")
            | none => (s, "miss")
          else (s, "bad-op")
        | _ => (s, "bad-op")
      | none => (s, "bad-op")
    | _, _, _ => (s, "bad-op")
  | ["clear"] =>
    match s with
    | some d => match d.clear with
      | some d' => (some d', "ok")
      | none => (s, "blocked")
    | none => (s, "bad-op")
  | ["pregc"] =>
    match s with
    | some d => match d.preGc with
      | some d' => (some d', "ok")
      | none => (s, "blocked")
    | none => (s, "bad-op")
  | ["postgc"] =>
    match s with
    | some d => (some d.postGc, "ok")
    | none => (s, "bad-op")
  | ["gc"] | ["reorder"] =>
    match s with
    | some d => match d.preGc with
      | some d' => (some d'.postGc, "ok")
      | none => (s, "blocked")
    | none => (s, "bad-op")
  | ["addvars", k] =>
    match s, k.toNat? with
    | some _, some _ => (s, "ok")
    | _, _ => (s, "bad-op")
  | _ => (s, "bad-op")

def step (s : St) (line : String) : St × String := stepW s (words line)

def proto : Proto := ⟨St, none, step⟩

end OxiddModel.Cache.Driver
