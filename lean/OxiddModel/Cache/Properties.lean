import OxiddModel.Cache.DMHistory
import OxiddModel.Cache.DMPolicyBdd
import OxiddModel.Cache.DMPolicyEnc
import OxiddModel.Bdd.PropertiesC06

/-!
# C06 — the direct-mapped apply cache (`crates/oxidd-cache/src/direct.rs`) at slot level

Property text (C06): *"A result memoised for one operator, operand tuple or substitution is never
served for another, and no memoised result outlives a garbage collection, reordering or variable
addition that could invalidate it."*

The store-level theorems of C06/C07/C14 quantify over every cache behaviour satisfying
`Policy.OK`. Here the **real bucket algorithm** (`DMModel.lean`: count pairs, data words, key
comparison in the order of `EntryGuard::get`, `try_lock`, `pre_gc` holding every bucket mutex) is
shown to be such a behaviour, for every number of buckets (power of two or not), every hash
function and every lock-failure pattern, and for every `ENTRY_CAP ≤ 15` (OxiDD instantiates 3
and 4). For `ENTRY_CAP ≥ 16` the argument-count gate of `get_extended`/`add_extended`
(`len > KIND_COUNT` instead of `len >= KIND_COUNT`) lets count pairs overflow their nibbles; the
witnesses `dm_countpair_collision` and `dm_countpair_survives_clear` show that the statements are
then false of the faithful model (latent defect, see REPORT).
-/
namespace OxiddModel.Cache
open OxiddModel.CachePolicy

/-! ## refinement -/

/-- **`dm_refines_policy`.** For every `ENTRY_CAP ≤ 15`, number of buckets `nb`, hash function and
lock-failure pattern:
1. the slot-level cache run through `load`/`abs` is an admissible policy in the sense of
   `Util/CachePolicy.lean`,
2. and in the sense of `Bdd/CacheS.lean` (keys `OpTag × List Edge`), so that every store-level
   theorem proved for all `Policy.OK` holds with the bucket algorithm as the cache;
3. the policy is not an approximation: on the abstraction of every slot-level state satisfying the
   invariant (all reachable states do, `dm_reachable_inv`), `get` returns exactly what
   `get_extended` returns on the buckets and `add` yields exactly the abstraction of the buckets
   after `add_extended`. -/
theorem dm_refines_policy (cap nb : Nat) (hc : cap ≤ 15) (hash : Hash) (lockFails : Nat → Bool) :
    (policy cap nb hash lockFails).OK ∧
    (policyBdd cap nb hash lockFails).OK ∧
    (∀ d : DM, d.entryCap = cap → d.buckets.size = nb → d.Inv hash false → ∀ t : Nat,
      (∀ k, (policy cap nb hash lockFails).get t d.abs k = d.get hash (lockFails t) k) ∧
      (∀ op es ns v, (policy cap nb hash lockFails).add t d.abs (keyOf op es ns v) v =
        (d.add hash (lockFails t) op es ns v).abs)) := by
  refine ⟨policy_ok cap nb hc hash lockFails, policyBdd_ok cap nb hc hash lockFails, ?_⟩
  intro d h1 h2 hinv t
  subst h1 h2
  exact ⟨fun k => policy_get_sim hinv hc lockFails t k,
    fun op es ns v => policy_add_sim hinv hc lockFails t op es ns v⟩

/-- the same for the store-level models of the other diagram kinds (`Mtbdd/StoreS.lean`,
`Tdd/StoreS.lean` use `CachePolicy.Policy κ ε` with their own tags and edges): for every injective
encoding of keys and values into bucket words, the bucket algorithm run on the encodings is an
admissible policy, and its hits/entries are exactly those of the buckets
(`policyEnc_get_iff`, `policyEnc_add_mem`) -/
theorem dm_refines_policy_enc {κ ε : Type} (E : Enc κ ε) (cap nb : Nat) (hc : cap ≤ 15) (hash : Hash)
    (lockFails : Nat → Bool) : (policyEnc E cap nb hash lockFails).OK :=
  policyEnc_ok E cap nb hc hash lockFails

/-- **exact behaviour of `get_extended`** in every state satisfying the invariant: outside a
collection and if `try_lock` succeeds, it hits iff the bucket the key hashes to holds *exactly*
that key, and then returns the stored value — this is what the `dmcache` stream compares line by
line with the real cache -/
theorem dm_get_exact {d : DM} {hash : Hash} {gc : Bool} (hinv : d.Inv hash gc) (lf : Bool) (k : Key)
    (hadm : Adm d.entryCap k) :
    d.get hash lf k =
      if gc || lf then none
      else match (d.buckets[d.idx hash k]?).bind Entry.abs with
        | some (k', v) => if k = k' then some v else none
        | none => none :=
  get_eq hinv lf k hadm

/-- the two laws of `Policy.OK` hold of the buckets directly (no `load` involved): a hit of
`get_extended` returns a value the buckets hold under exactly the queried key; `add_extended`
creates no entry other than the given one -/
theorem dm_laws {d : DM} {hash : Hash} {gc : Bool} (hinv : d.Inv hash gc) (hc : d.entryCap ≤ 15)
    (lf : Bool) :
    (∀ k v, d.get hash lf k = some v → (k, v) ∈ d.abs) ∧
    (∀ op es ns v x, x ∈ (d.add hash lf op es ns v).abs → x ∈ d.abs ∨ x = (keyOf op es ns v, v)) :=
  ⟨fun _ _ h => getAt_mem hc (fun i e he => (hinv.wf i e he).1) h,
   fun _ _ _ _ _ h => addAt_sub hc (fun i e he => (hinv.wf i e he).1) h⟩

/-- every state reachable from `with_capacity` by any history satisfies the invariant -/
theorem dm_reachable_inv (cfg : Cfg) (entryCap capacity : Nat) (hc : entryCap ≤ 15) (es : List Ev) :
    (runState cfg (DM.withCapacity entryCap capacity) es).Inv cfg.hash (gcOf false es) :=
  (runState_inv (withCapacity_inv entryCap capacity cfg.hash) hc es).1

/-- the existing store-level theorems apply to the bucket algorithm; e.g. `apply_bin::<OP>` with
the real direct-mapped cache refines `applyBin op` -/
theorem dm_applyS_spec (cap nb : Nat) (hc : cap ≤ 15) (hash : Hash) (lockFails : Nat → Bool)
    (op : OxiddModel.Bdd.Op) (fuel : Nat) (st : OxiddModel.Bdd.Refine.St)
    (f g : OxiddModel.Bdd.Refine.Edge) (a b : OxiddModel.Bdd.BDD)
    (hu : st.store.Unique) (hcache : OxiddModel.Bdd.Refine.CacheOK st.store st.cache)
    (hf : OxiddModel.Bdd.Refine.Denotes st.store f a)
    (hg : OxiddModel.Bdd.Refine.Denotes st.store g b) (hfuel : a.size + b.size ≤ fuel) :
    let R := OxiddModel.Bdd.Refine.applyS (policyBdd cap nb hash lockFails) op fuel st f g
    OxiddModel.Bdd.Refine.Denotes R.1.store R.2 (OxiddModel.Bdd.applyBin op a b) ∧
      st.store.Le R.1.store ∧ R.1.store.Unique ∧
      OxiddModel.Bdd.Refine.CacheOK R.1.store R.1.cache :=
  OxiddModel.Bdd.C06.applyS_spec (policyBdd_ok cap nb hc hash lockFails) op fuel st f g a b hu hcache
    hf hg hfuel

/-! ## histories -/

theorem run_append (cfg : Cfg) (d : DM) (pre : List Ev) (e : Ev) (post : List Ev) :
    run cfg d (pre ++ e :: post) =
      run cfg d pre ++ (step cfg (runState cfg d pre) e).2 ::
        run cfg (step cfg (runState cfg d pre) e).1 post := by
  induction pre generalizing d with
  | nil => rfl
  | cons p pre ih => simp [run, runState, ih]

theorem run_length (cfg : Cfg) (d : DM) (es : List Ev) : (run cfg d es).length = es.length := by
  induction es generalizing d with
  | nil => rfl
  | cons p es ih => simp [run, ih]

/-- everything in the ghost log was passed to `add_extended` by an event of the history -/
theorem mem_logOf {gc : Bool} {log : List (Key × Val)} {es : List Ev} {x : Key × Val}
    (h : x ∈ logOf gc log es) :
    x ∈ log ∨ ∃ t op e n v, Ev.add t op e n v ∈ es ∧ x = (keyOf op e n v, v) := by
  induction es generalizing gc log with
  | nil => exact .inl h
  | cons ev es ih =>
    rw [logOf_cons] at h
    rcases ih h with h' | ⟨t, op, e, n, v, hm, hx⟩
    · cases ev with
      | get t k => exact .inl h'
      | add t op e n v =>
        simp only [logOf, List.mem_cons] at h'
        rcases h' with h' | h'
        · exact .inr ⟨t, op, e, n, v, List.mem_cons_self, h'⟩
        · exact .inl h'
      | clear => simp only [logOf] at h'; split at h' <;> first | exact .inl h' | cases h'
      | preGc => simp only [logOf] at h'; split at h' <;> first | exact .inl h' | cases h'
      | postGc => exact .inl h'
    · exact .inr ⟨t, op, e, n, v, List.mem_cons_of_mem _ hm, hx⟩

/-- **`dm_hit_sound`.** Over every history `pre` of `get`/`add`/`clear`/`pre_gc`/`post_gc` events
on a fresh cache (any `ENTRY_CAP ≤ 15`, any number of buckets, hash, lock-failure pattern): if
the next `get` for key `k` hits with value `v`, then `(k, v)` is in the ghost log of `pre`, i.e.
`v` was passed to `add_extended` **under exactly the key `k`** — same operator, same edge
operands, same numeric operands (hence same arities), same value shape — by an event of `pre`
after the last `clear`/`pre_gc`. A value added under a key differing in any component is never
served. -/
theorem dm_hit_sound (cfg : Cfg) (entryCap nb : Nat) (hc : entryCap ≤ 15) (pre : List Ev) (t : Nat)
    (k : Key) (v : Val)
    (h : (step cfg (runState cfg (DM.empty entryCap nb) pre) (.get t k)).2 = .hit v) :
    (k, v) ∈ logOf false [] pre ∧
    ∃ t' op es ns, Ev.add t' op es ns v ∈ pre ∧ k = keyOf op es ns v := by
  have hinv0 := empty_inv entryCap nb cfg.hash
  obtain ⟨hinv, hcap, _⟩ := runState_inv (cfg := cfg) hinv0 hc pre
  have hlog := runState_log (cfg := cfg) (log := []) hinv0 hc
    (by rw [gc_abs_empty] ; intro x hx; cases hx) pre
  simp only [step] at h
  cases hg : (runState cfg (DM.empty entryCap nb) pre).get cfg.hash (cfg.lockFails t) k with
  | none => rw [hg] at h; cases h
  | some v' =>
    rw [hg] at h; cases h
    have hm := (dm_laws hinv (by rw [hcap]; exact hc) (cfg.lockFails t)).1 k v hg
    have hl := hlog _ hm
    refine ⟨hl, ?_⟩
    rcases mem_logOf hl with h' | ⟨t', op, es, ns, v', hm', hx⟩
    · cases h'
    · cases hx; exact ⟨t', op, es, ns, hm', rfl⟩
where
  gc_abs_empty : (DM.empty entryCap nb).abs = [] := by
    simp only [DM.abs, DM.empty, Array.toList_replicate]
    rw [List.filterMap_eq_nil_iff]
    intro e he
    rw [(List.mem_replicate.1 he).2]; exact Entry.init_abs entryCap

/-- the same in terms of the output stream: the output at the position of the `get` -/
theorem dm_hit_sound_run (cfg : Cfg) (entryCap nb : Nat) (hc : entryCap ≤ 15) (pre post : List Ev)
    (t : Nat) (k : Key) (v : Val)
    (h : (run cfg (DM.empty entryCap nb) (pre ++ .get t k :: post))[pre.length]? = some (.hit v)) :
    ∃ t' op es ns, Ev.add t' op es ns v ∈ pre ∧ k = keyOf op es ns v := by
  rw [run_append] at h
  have hl := run_length cfg (DM.empty entryCap nb) pre
  rw [List.getElem?_append_right (by omega), hl, Nat.sub_self] at h
  simp only [List.getElem?_cons_zero, Option.some.injEq] at h
  exact (dm_hit_sound cfg entryCap nb hc pre t k v h).2

/-- **no cross-key hit**: if the history contains no `add` under exactly the key `k`, every `get`
for `k` misses — whatever was added under keys differing in the operator, in one edge operand, in
one numeric operand, in an arity or in the value shape, and wherever those keys hash to -/
theorem dm_no_cross_hit (cfg : Cfg) (entryCap nb : Nat) (hc : entryCap ≤ 15) (pre : List Ev)
    (t : Nat) (k : Key)
    (hno : ∀ t' op es ns v, Ev.add t' op es ns v ∈ pre → keyOf op es ns v ≠ k) :
    (step cfg (runState cfg (DM.empty entryCap nb) pre) (.get t k)).2 = .miss := by
  cases hs : (step cfg (runState cfg (DM.empty entryCap nb) pre) (.get t k)).2 with
  | hit v =>
    obtain ⟨_, t', op, es, ns, hm, hk⟩ := dm_hit_sound cfg entryCap nb hc pre t k v hs
    exact absurd hk.symm (hno t' op es ns v hm)
  | miss => rfl
  | done => simp only [step] at hs; split at hs <;> cases hs
  | blocked => simp only [step] at hs; split at hs <;> cases hs

/-- **`dm_hit_latest`.** Without lock failures (one thread, as in the harness) a hit returns the
value of the **most recent** `add_extended` under exactly that key since the last
`clear`/`pre_gc` — not an older one, and not one that was overwritten by a colliding key in
between (then the `get` misses). This is the oracle of the `dmcache` stream. -/
theorem dm_hit_latest (cfg : Cfg) (hnl : ∀ t, cfg.lockFails t = false) (entryCap nb : Nat)
    (hc : entryCap ≤ 15) (pre : List Ev) (t : Nat) (k : Key) (v : Val)
    (h : (step cfg (runState cfg (DM.empty entryCap nb) pre) (.get t k)).2 = .hit v) :
    lastAdd (logOf false [] pre) k = some v := by
  have hinv0 := empty_inv entryCap nb cfg.hash
  obtain ⟨hinv, hcap, _⟩ := runState_inv (cfg := cfg) hinv0 hc pre
  have hlat := runState_latest hnl (log := []) hinv0 hc
    (by intro k v hm; rw [dm_hit_sound.gc_abs_empty] at hm; cases hm) pre
  simp only [step] at h
  cases hg : (runState cfg (DM.empty entryCap nb) pre).get cfg.hash (cfg.lockFails t) k with
  | none => rw [hg] at h; cases h
  | some v' =>
    rw [hg] at h; cases h
    exact hlat k v ((dm_laws hinv (by rw [hcap]; exact hc) (cfg.lockFails t)).1 k v hg)

/-! ## collections -/

/-- only `get`/`add` calls (what the apply algorithms issue) -/
def Ev.isAccess : Ev → Bool
  | .get _ _ => true
  | .add _ _ _ _ _ => true
  | _ => false

theorem gc_mid {cfg : Cfg} {d : DM} (hinv : d.Inv cfg.hash true) (mid : List Ev)
    (hmid : ∀ e, e ∈ mid → e.isAccess = true) :
    runState cfg d mid = d ∧ ∀ o, o ∈ run cfg d mid → o = .miss ∨ o = .done := by
  induction mid with
  | nil => exact ⟨rfl, fun o h => by cases h⟩
  | cons e mid ih =>
    have ih' := ih (fun e' h => hmid e' (List.mem_cons_of_mem _ h))
    cases e with
    | get t k =>
      simp only [runState, run, step, get_gc hinv]
      refine ⟨ih'.1, fun o h => ?_⟩
      rcases List.mem_cons.1 h with h | h
      · exact .inl h
      · exact ih'.2 o h
    | add t op es ns v =>
      simp only [runState, run, step, add_gc hinv]
      refine ⟨ih'.1, fun o h => ?_⟩
      rcases List.mem_cons.1 h with h | h
      · exact .inr h
      · exact ih'.2 o h
    | clear => have := hmid .clear List.mem_cons_self; cases this
    | preGc => have := hmid .preGc List.mem_cons_self; cases this
    | postGc => have := hmid .postGc List.mem_cons_self; cases this

/-- **`dm_gc_empty`.** From any state outside a collection: `pre_gc` terminates and leaves no
entry (whatever the buckets held); between `pre_gc` and `post_gc` every bucket mutex is held, so
every `get_extended` misses and every `add_extended` is dropped (the cache cannot be used — and
cannot be repopulated with edges that the collection is about to delete); after `post_gc` the
cache is empty and every bucket unlocked. Hence no entry from before a collection (or a
reordering, which brackets itself with the same two hooks) survives it. -/
theorem dm_gc_empty (cfg : Cfg) (d : DM) (hinv : d.Inv cfg.hash false) (mid : List Ev)
    (hmid : ∀ e, e ∈ mid → e.isAccess = true) :
    ∃ d', d.preGc = some d' ∧ d'.abs = [] ∧ d'.Inv cfg.hash true ∧
      runState cfg d' mid = d' ∧ (∀ o, o ∈ run cfg d' mid → o = .miss ∨ o = .done) ∧
      (runState cfg d (.preGc :: mid ++ [.postGc])).abs = [] ∧
      (runState cfg d (.preGc :: mid ++ [.postGc])).Inv cfg.hash false := by
  obtain ⟨d', hp, hinv', habs, _, _⟩ := preGc_spec hinv
  obtain ⟨hm1, hm2⟩ := gc_mid hinv' mid hmid
  have hpost := postGc_spec hinv'
  have hrs : runState cfg d (.preGc :: mid ++ [.postGc]) = d'.postGc := by
    have happ : ∀ (d : DM) (a b : List Ev), runState cfg d (a ++ b) = runState cfg (runState cfg d a) b := by
      intro d a b
      induction a generalizing d with
      | nil => rfl
      | cons x a ih => simp [runState, ih]
    simp only [List.cons_append, runState, step, hp]
    rw [happ, hm1]; rfl
  exact ⟨d', hp, habs, hinv', hm1, hm2, by rw [hrs]; exact hpost.2.1, by rw [hrs]; exact hpost.1⟩

/-- `clear` (what `add_vars` of the ZBDD manager data and the harness call) empties the cache -/
theorem dm_clear_empty (hash : Hash) (d : DM) (hinv : d.Inv hash false) :
    ∃ d', d.clear = some d' ∧ d'.abs = [] ∧ d'.Inv hash false := by
  obtain ⟨d', h1, h2, h3, _⟩ := clear_spec hinv
  exact ⟨d', h1, h3, h2⟩

/-! ## non-vacuity -/

/-- a hash with collisions: operator + sum of the edge operands (numeric operands ignored) -/
def exHash : Hash := fun op es _ => op + es.sum

def exCfg : Cfg := ⟨exHash, fun t => t % 5 == 4⟩

/-- And(3,4)=9; And(3,4;num 1)=([8],[2]) in the same bucket (evicts); get; Or(3,4)=7 … -/
def exHistory : List Ev :=
  [.add 0 1 [3, 4] [] ([9], []), .get 1 ⟨1, [3, 4], [], 1, 0⟩, .add 2 2 [3, 4] [] ([7], []),
   .get 3 ⟨2, [3, 4], [], 1, 0⟩, .add 5 1 [3, 4] [1] ([8], [2]), .get 6 ⟨1, [3, 4], [], 1, 0⟩,
   .get 7 ⟨1, [3, 4], [1], 1, 1⟩, .get 8 ⟨1, [3, 4], [2], 1, 1⟩, .preGc, .get 10 ⟨1, [3, 4], [1], 1, 1⟩,
   .add 11 1 [3, 4] [] ([9], []), .postGc, .get 12 ⟨2, [3, 4], [], 1, 0⟩, .get 13 ⟨1, [3, 4], [], 1, 0⟩]

/-- the run: hits for exactly the added keys, a miss after the eviction, a miss for the key
differing only in the numeric operand, misses during and after the collection -/
example : run exCfg (DM.empty 6 4) exHistory =
    [.done, .hit ([9], []), .done, .hit ([7], []), .done, .miss, .hit ([8], [2]), .miss, .done, .miss,
     .done, .done, .miss, .miss] := by decide +kernel

/-- non-vacuity of `dm_hit_sound`/`dm_hit_latest`: the premise holds for the prefix of length 6 -/
example : (step exCfg (runState exCfg (DM.empty 6 4) (exHistory.take 6)) (.get 7 ⟨1, [3, 4], [1], 1, 1⟩)).2
    = .hit ([8], [2]) := by decide +kernel

example : lastAdd (logOf false [] (exHistory.take 6)) ⟨1, [3, 4], [1], 1, 1⟩ = some ([8], [2]) := by
  decide +kernel

/-- non-vacuity of `dm_refines_policy` (3): a reachable non-empty state, its abstraction, and the
policy agreeing with the buckets on it -/
def exState : DM := runState exCfg (DM.empty 6 4) (exHistory.take 5)

example : exState.abs = [(⟨1, [3, 4], [1], 1, 1⟩, ([8], [2])), (⟨2, [3, 4], [], 1, 0⟩, ([7], []))] := by
  decide +kernel

example : exState.Inv exCfg.hash false := by
  have := runState_inv (cfg := exCfg) (empty_inv 6 4 exHash) (by decide) (exHistory.take 5)
  exact this.1

example : (policy 6 4 exHash exCfg.lockFails).get 7 exState.abs ⟨1, [3, 4], [1], 1, 1⟩ = some ([8], [2]) := by
  decide +kernel

/-- non-vacuity of `dm_gc_empty`: the state before the collection is not empty -/
example : exState.abs ≠ [] ∧ (exState.preGc.map DM.abs) = some [] := by decide +kernel

/-- the BDD-level policy on a concrete cache: `(And, [#1, #2]) ↦ #1` is found, `Or` is not -/
example :
    let c : OxiddModel.Bdd.Refine.Cache := [((.and, [.inner 1, .inner 2]), .inner 1)]
    (policyBdd 4 8 exHash (fun _ => false)).get 0 c (.and, [.inner 1, .inner 2]) = some (.inner 1) ∧
    (policyBdd 4 8 exHash (fun _ => false)).get 0 c (.or, [.inner 1, .inner 2]) = none ∧
    (policyBdd 4 8 exHash (fun _ => false)).get 0 c (.and, [.inner 2, .inner 1]) = none := by
  decide +kernel

/-! ## negative witnesses: what goes wrong if the comparison drops a key component -/

/-- `EntryGuard::get` **without** the comparison of the numeric operands (the class of the seeded
defects "subset cache key" / "quant cache key": a numeric operand missing from the key) -/
def Entry.getIgnNum (e : Entry) (k : Key) : Option Val :=
  if e.operands != countPair k.edges.length k.nums.length then none else
  match zipCmp k.edges e.data with
  | none => none
  | some d1 =>
    let d2 := d1.drop k.nums.length
    if e.operator != k.op || e.values != countPair k.ev k.nv then none
    else some (d2.take k.ev, (d2.drop k.ev).take k.nv)

/-- `EntryGuard::get` **without** the comparison of the operator -/
def Entry.getIgnOp (e : Entry) (k : Key) : Option Val :=
  if e.operands != countPair k.edges.length k.nums.length then none else
  match zipCmp k.edges e.data with
  | none => none
  | some d1 =>
    match zipCmp k.nums d1 with
    | none => none
    | some d2 =>
      if e.values != countPair k.ev k.nv then none
      else some (d2.take k.ev, (d2.drop k.ev).take k.nv)

/-- the bucket after `add(op 20, edges [5], numeric [1]) ↦ [11]` into a fresh bucket -/
def exEntry : Entry := (Entry.init 4).set 20 [5] [1] [11] []

/-- ignoring the numeric operands serves the result for numeric operand 1 to a query with numeric
operand 2; the real comparison misses -/
theorem cmp_without_numeric_unsound :
    exEntry.getIgnNum ⟨20, [5], [2], 1, 0⟩ = some ([11], []) ∧
    exEntry.get ⟨20, [5], [2], 1, 0⟩ = none ∧ exEntry.get ⟨20, [5], [1], 1, 0⟩ = some ([11], []) := by
  decide

/-- ignoring the operator serves the result of operator 20 to operator 21 -/
theorem cmp_without_operator_unsound :
    exEntry.getIgnOp ⟨21, [5], [1], 1, 0⟩ = some ([11], []) ∧
    exEntry.get ⟨21, [5], [1], 1, 0⟩ = none := by
  decide

/-- the real comparison also separates keys that differ only in an arity (the numeric operand
moved to the edge operands) or only in the value shape -/
theorem cmp_arity_and_shape :
    exEntry.get ⟨20, [5, 1], [], 1, 0⟩ = none ∧ exEntry.get ⟨20, [5], [1], 0, 1⟩ = none := by
  decide

/-! ## the count-pair defect for `ENTRY_CAP ≥ 16` (faithful model, unchanged code) -/

/-- sixteen edge operands `100 … 115` -/
def ex16 : List Nat := (List.range 16).map (· + 100)

/-- the gate accepts 16 operands of a kind (`len > KIND_COUNT` is false) although
`CountPair::new` needs `< KIND_COUNT` -/
example : gate 17 16 0 0 1 = false ∧ countPair 16 0 = countPair 0 1 ∧ countPair 0 16 = 0 := by
  decide

/-- **`ENTRY_CAP = 17`: a result is served for another key.** After
`add(op 7, 16 edge operands) ↦ numeric value 42`, the `get` for the key *(op 7, no edge operand,
one numeric operand 100)* — never added — hits and returns `101` (the second edge operand of the
stored key): `CountPair::new(16, 0) = CountPair::new(0, 1)`. So `dm_hit_sound` is false for
`ENTRY_CAP ≥ 17`. -/
theorem dm_countpair_collision :
    let cfg : Cfg := ⟨fun _ _ _ => 0, fun _ => false⟩
    run cfg (DM.empty 17 1) [.add 0 7 ex16 [] ([], [42]), .get 1 ⟨7, [], [100], 0, 1⟩] =
      [.done, .hit ([], [101])] := by
  decide +kernel

/-- **`ENTRY_CAP = 17`: an entry survives `clear` (and `pre_gc`).** With 16 numeric operands
`CountPair::new(0, 16) = 0 = CountPair::NULL`: the stored entry looks unoccupied, `clear` changes
nothing, and the `get` for the same key — whose operand count pair is `NULL` as well — compares
the stale data and hits. So `dm_gc_empty` is false for `ENTRY_CAP ≥ 17`. -/
theorem dm_countpair_survives_clear :
    let cfg : Cfg := ⟨fun _ _ _ => 0, fun _ => false⟩
    run cfg (DM.empty 17 1)
      [.add 0 7 [] ex16 ([55], []), .clear, .get 1 ⟨7, [], ex16, 1, 0⟩,
       .preGc, .postGc, .get 2 ⟨7, [], ex16, 1, 0⟩] =
      [.done, .done, .hit ([55], []), .done, .done, .hit ([55], [])] := by
  decide +kernel

/-- the gate of the proposed patch (`len >= KIND_COUNT` rejects) -/
def gateFixed (entryCap ne nn E N : Nat) : Bool :=
  let total := ne + nn
  total == 0 || decide (total + (N + E) > entryCap) || decide (ne ≥ KIND_COUNT) ||
    decide (nn ≥ KIND_COUNT) || decide (N ≥ KIND_COUNT) || decide (E ≥ KIND_COUNT)

/-- with the patched gate every call that is let through satisfies the precondition `Adm` of the
entry-level lemmas (`Entry.get_sound`, `Entry.set_holds`, `Entry.get_eq`), **for every
`ENTRY_CAP`** — the bound `ENTRY_CAP ≤ 15` of the theorems above is only needed for the gate as
it is -/
theorem gateFixed_adm {entryCap : Nat} {k : Key}
    (h : gateFixed entryCap k.edges.length k.nums.length k.ev k.nv = false) : Adm entryCap k := by
  simp only [gateFixed, KIND_COUNT, Bool.or_eq_false_iff, beq_eq_false_iff_ne] at h
  obtain ⟨⟨⟨⟨⟨h1, h2⟩, h3⟩, h4⟩, h5⟩, h6⟩ := h
  have h2 := of_decide_eq_false h2
  have h3 := of_decide_eq_false h3
  have h4 := of_decide_eq_false h4
  have h5 := of_decide_eq_false h5
  have h6 := of_decide_eq_false h6
  constructor <;> omega

/-- the patched gate rejects the two witnesses above -/
example : gateFixed 17 16 0 0 1 = true ∧ gateFixed 17 0 16 1 0 = true := by decide

end OxiddModel.Cache
