import OxiddModel.Circuit.Model

/-!
# Binary AIGER: the 7-bit variable-length integers and the delta coding of AND gates
(`crates/oxidd-parser/src/aiger.rs`: `usize_7bit`, the `for i in first_and_gate..var_count` loop,
`make_literal`, and the literal map of the ASCII format)

Bytes are modelled as natural numbers `< 256`.
-/
namespace OxiddModel.Aiger

open OxiddModel.Circuit

/-- `usize_7bit`: `val |= ((b & 127) as usize).wrapping_shl(shift)` until a byte without bit 7;
`usize` is 64 bit, `wrapping_shl` shifts by `shift mod 64` -/
def decode7Aux (val shift : Nat) : List Nat → Option (Nat × List Nat)
  | [] => none
  | b :: rest =>
    let val' := val ||| (((b % 128) <<< (shift % 64)) % 2 ^ 64)
    if b / 128 % 2 = 0 then some (val', rest) else decode7Aux val' (shift + 7) rest

def decode7 (bytes : List Nat) : Option (Nat × List Nat) := decode7Aux 0 0 bytes

/-- the encoder of the AIGER format (used by the harness's writer) -/
def encode7 (x : Nat) : List Nat :=
  if x < 128 then [x] else (x % 128 + 128) :: encode7 (x / 128)
termination_by x
decreasing_by omega

theorem encode7_bytes (x : Nat) : ∀ b ∈ encode7 x, b < 256 := by
  induction x using Nat.strongRecOn with
  | _ x ih =>
    rw [encode7]
    split
    · intro b hb; simp at hb; omega
    · intro b hb
      rcases List.mem_cons.mp hb with rfl | hb
      · omega
      · exact ih (x / 128) (by omega) b hb

theorem decode7Aux_encode7 (x : Nat) : ∀ (shift val : Nat) (rest : List Nat),
    shift < 64 → val < 2 ^ shift → x * 2 ^ shift < 2 ^ 64 →
    decode7Aux val shift (encode7 x ++ rest) = some (val + x * 2 ^ shift, rest) := by
  induction x using Nat.strongRecOn with
  | _ x ih =>
    intro shift val rest hs hv hx
    rw [encode7]
    split
    · rename_i hlt
      simp only [List.cons_append, List.nil_append, decode7Aux]
      have h1 : x % 128 = x := Nat.mod_eq_of_lt hlt
      have h2 : shift % 64 = shift := Nat.mod_eq_of_lt hs
      have h3 : x / 128 % 2 = 0 := by omega
      rw [h1, h2, if_pos h3, Nat.shiftLeft_eq, Nat.mod_eq_of_lt hx, ← Nat.shiftLeft_eq,
        Nat.or_comm, ← Nat.shiftLeft_add_eq_or_of_lt hv, Nat.shiftLeft_eq, Nat.add_comm]
    · rename_i hge
      have hge : 128 ≤ x := Nat.le_of_not_lt hge
      simp only [List.cons_append, decode7Aux]
      have h1 : (x % 128 + 128) % 128 = x % 128 := by omega
      have h2 : shift % 64 = shift := Nat.mod_eq_of_lt hs
      have h3 : ¬ ((x % 128 + 128) / 128 % 2 = 0) := by omega
      have hp : 0 < 2 ^ shift := Nat.two_pow_pos shift
      -- the low group fits
      have hlow : x % 128 * 2 ^ shift < 2 ^ 64 :=
        Nat.lt_of_le_of_lt (Nat.mul_le_mul_right _ (Nat.mod_le x 128)) hx
      rw [h1, h2, if_neg h3, Nat.shiftLeft_eq, Nat.mod_eq_of_lt hlow, ← Nat.shiftLeft_eq,
        Nat.or_comm, ← Nat.shiftLeft_add_eq_or_of_lt hv, Nat.shiftLeft_eq]
      have hpow : 2 ^ (shift + 7) = 128 * 2 ^ shift := by rw [Nat.pow_add, Nat.mul_comm]
      have hdm := Nat.div_add_mod x 128
      -- x * p = (x / 128) * (128 * p) + (x % 128) * p
      have hsplit : x * 2 ^ shift = x / 128 * (128 * 2 ^ shift) + x % 128 * 2 ^ shift := by
        conv => lhs; rw [← hdm]
        rw [Nat.add_mul, Nat.mul_comm 128 (x / 128), Nat.mul_assoc]
      have hq : 1 ≤ x / 128 := by omega
      have hhigh : x / 128 * 2 ^ (shift + 7) < 2 ^ 64 := by rw [hpow]; omega
      have hs' : shift + 7 < 64 := by
        rcases Nat.lt_or_ge (shift + 7) 64 with h | h
        · exact h
        · have : 2 ^ 64 ≤ 2 ^ (shift + 7) := Nat.pow_le_pow_right (by decide) h
          have : 2 ^ (shift + 7) ≤ x / 128 * 2 ^ (shift + 7) := Nat.le_mul_of_pos_left _ hq
          omega
      have hv' : x % 128 * 2 ^ shift + val < 2 ^ (shift + 7) := by
        rw [hpow]
        have : x % 128 * 2 ^ shift ≤ 127 * 2 ^ shift := Nat.mul_le_mul_right _ (by omega)
        omega
      rw [ih (x / 128) (by omega) (shift + 7) _ rest hs' hv' hhigh]
      have : x % 128 * 2 ^ shift + val + x / 128 * 2 ^ (shift + 7) = val + x * 2 ^ shift := by
        rw [hpow, hsplit]; omega
      rw [this]

/-- **7-bit varint round trip**: every 64-bit value is decoded from its encoding -/
theorem varint_roundtrip (x : Nat) (hx : x < 2 ^ 64) (rest : List Nat) :
    decode7 (encode7 x ++ rest) = some (x, rest) := by
  have := decode7Aux_encode7 x 0 0 rest (by decide) (by decide) (by simpa using hx)
  simpa [decode7] using this

/-- the AND gate with left-hand side `lhs`: two deltas, then the checks
`d1 > lhs || d1 == 0 || d2 > in1` -/
def decodeAnd (lhs : Nat) (bytes : List Nat) : Option ((Nat × Nat) × List Nat) :=
  match decode7 bytes with
  | none => none
  | some (d1, r1) =>
    match decode7 r1 with
    | none => none
    | some (d2, r2) =>
      if d1 > lhs ∨ d1 = 0 ∨ d2 > lhs - d1 then none
      else some ((lhs - d1, lhs - d1 - d2), r2)

def encodeAnd (lhs in1 in2 : Nat) : List Nat := encode7 (lhs - in1) ++ encode7 (in1 - in2)

/-- **aiger_delta_roundtrip**: an AND gate `lhs > in1 ≥ in2` is decoded from its delta coding -/
theorem aiger_delta_roundtrip (lhs in1 in2 : Nat) (h1 : in1 < lhs) (h2 : in2 ≤ in1)
    (hl : lhs < 2 ^ 64) (rest : List Nat) :
    decodeAnd lhs (encodeAnd lhs in1 in2 ++ rest) = some ((in1, in2), rest) := by
  unfold decodeAnd encodeAnd
  rw [List.append_assoc, varint_roundtrip _ (by omega)]
  simp only
  rw [varint_roundtrip _ (by omega)]
  simp only
  have : ¬ (lhs - in1 > lhs ∨ lhs - in1 = 0 ∨ in1 - in2 > lhs - (lhs - in1)) := by omega
  rw [if_neg this]
  congr 2
  · congr 1 <;> omega

/-- whatever the bytes, a decoded AND gate refers to smaller literals only: binary AIGER files
are acyclic by construction -/
theorem decodeAnd_sound {lhs : Nat} {bytes rest : List Nat} {in1 in2 : Nat}
    (h : decodeAnd lhs bytes = some ((in1, in2), rest)) : in1 < lhs ∧ in2 ≤ in1 := by
  unfold decodeAnd at h
  cases h1 : decode7 bytes with
  | none => simp [h1] at h
  | some p1 =>
    obtain ⟨d1, r1⟩ := p1
    simp only [h1] at h
    cases h2 : decode7 r1 with
    | none => simp [h2] at h
    | some p2 =>
      obtain ⟨d2, r2⟩ := p2
      simp only [h2] at h
      split at h
      · cases h
      · simp only [Option.some.injEq, Prod.mk.injEq] at h
        omega

/-! ### ASCII and binary literal translation agree on canonically numbered files -/

/-- `Literal::from_input_or_false` -/
def fromInputOrFalse (neg : Bool) (v : Nat) : Lit :=
  if v = 0 then .const neg else .input neg (v - 1)

/-- binary format: `make_literal` -/
def makeLiteral (firstAnd : Nat) (a : Nat) : Lit :=
  if firstAnd ≤ a / 2 then .gate (a % 2 == 1) (a / 2 - firstAnd)
  else fromInputOrFalse (a % 2 == 1) (a / 2)

/-- ASCII format: `Literal(aig.map[l >> 1].0 | (l & 1))` (the entries of `aig.map` are positive) -/
def mapAscii (map : List Lit) (a : Nat) : Lit :=
  (map.getD (a / 2) Lit.undef).xorB (a % 2 == 1)

/-- the map the ASCII parser builds for a file that numbers inputs, latches and AND gates
consecutively (this is also the map the binary parser returns) -/
def canonicalMap (firstAnd nAnd : Nat) : List Lit :=
  (List.range firstAnd).map (fromInputOrFalse false) ++ (List.range nAnd).map (Lit.gate false)

/-- **aiger_ascii_binary_same** (model level): for canonically numbered files both formats
translate every AIGER literal to the same `Literal` -/
theorem aiger_ascii_binary_same (firstAnd nAnd a : Nat) (ha : a / 2 < firstAnd + nAnd) :
    mapAscii (canonicalMap firstAnd nAnd) a = makeLiteral firstAnd a := by
  unfold mapAscii makeLiteral canonicalMap
  by_cases h : firstAnd ≤ a / 2
  · rw [if_pos h]
    have : ((List.range firstAnd).map (fromInputOrFalse false) ++
        (List.range nAnd).map (Lit.gate false)).getD (a / 2) Lit.undef =
        Lit.gate false (a / 2 - firstAnd) := by
      rw [List.getD_eq_getElem?_getD, List.getElem?_append_right (by simpa using h)]
      simp only [List.length_map, List.length_range]
      rw [List.getElem?_map, List.getElem?_range (by omega)]
      rfl
    rw [this]; simp [Lit.xorB]
  · rw [if_neg h]
    have hlt : a / 2 < firstAnd := Nat.lt_of_not_le h
    have : ((List.range firstAnd).map (fromInputOrFalse false) ++
        (List.range nAnd).map (Lit.gate false)).getD (a / 2) Lit.undef =
        fromInputOrFalse false (a / 2) := by
      rw [List.getD_eq_getElem?_getD, List.getElem?_append_left (by simpa using hlt)]
      rw [List.getElem?_map, List.getElem?_range hlt]
      rfl
    rw [this]
    unfold fromInputOrFalse
    split <;> simp [Lit.xorB]

/-- non-vacuity: the AND gates of the half adder of the AIGER documentation,
`\x02\x02 \x03\x02 \x01\x02` with left-hand sides 6, 8, 10 -/
example : decodeAnd 6 [2, 2, 3, 2, 1, 2] = some ((4, 2), [3, 2, 1, 2]) := by decide
example : decodeAnd 8 [3, 2, 1, 2] = some ((5, 3), [1, 2]) := by decide
example : decodeAnd 10 [1, 2] = some ((9, 7), []) := by decide
example : decode7 [0x83, 0x80, 0x01] = some (2 ^ 14 + 3, []) := by decide

end OxiddModel.Aiger
