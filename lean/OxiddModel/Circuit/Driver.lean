import OxiddModel.Util.Proto
import OxiddModel.Circuit.Model
import OxiddModel.Circuit.Aiger

/-!
Line protocol `circ` for `Circuit::simplify` (see `harness/src/bin/c18_circuit.rs`):

`circ <ninputs> ; <kind> <lit>* ; … ; roots <lit>*` ↦
`ok ; <kind> <lit>* ; … ; map <lit>*` | `err cycle g<k>` | `err input <lit>` | `panic index` |
`panic bitset`.
-/
namespace OxiddModel.Circuit

def parseNat? (cs : List Char) : Option Nat :=
  if cs.isEmpty || cs.length > 9 || !cs.all Char.isDigit then none
  else some (cs.foldl (fun a c => 10 * a + (c.toNat - '0'.toNat)) 0)

def parseLit? (s : String) : Option Lit :=
  let cs := s.toList
  let (neg, r) := match cs with
    | '!' :: r => (true, r)
    | r => (false, r)
  match r with
  | ['F'] => if neg then none else some (.const false)
  | ['T'] => if neg then none else some (.const true)
  | ['U'] => some (.input neg Lit.undefIdx)
  | 'i' :: ds => (parseNat? ds).map (.input neg)
  | 'g' :: ds => (parseNat? ds).map (.gate neg)
  | _ => none

def parseLits? : List String → Option (List Lit)
  | [] => some []
  | w :: ws =>
    match parseLit? w, parseLits? ws with
    | some l, some ls => some (l :: ls)
    | _, _ => none

def parseKind? : String → Option Kind
  | "and" => some .and
  | "or" => some .or
  | "xor" => some .xor
  | _ => none

/-- gate sections followed by the `roots` section, which must be last -/
def parseParts? : List (List String) → Option (List Gate × List Lit)
  | [] => none
  | [p] =>
    match p with
    | "roots" :: ws => (parseLits? ws).map (fun r => ([], r))
    | _ => none
  | p :: ps =>
    match p with
    | k :: ws =>
      match parseKind? k, parseLits? ws, parseParts? ps with
      | some k, some ls, some (gs, r) => some ((k, ls) :: gs, r)
      | _, _, _ => none
    | [] => none

def parseLine? (line : String) : Option (Circuit × List Lit) :=
  match (line.splitOn ";").map words with
  | ["circ", n] :: parts =>
    match parseNat? n.toList, parseParts? parts with
    | some n, some (gs, roots) => some ({ ninputs := n, gates := gs.toArray }, roots)
    | _, _ => none
  | _ => none

def showLit : Lit → String
  | .const false => "F"
  | .const true => "T"
  | .input neg i =>
    (if neg then "!" else "") ++ (if i = Lit.undefIdx then "U" else "i" ++ toString i)
  | .gate neg g => (if neg then "!" else "") ++ "g" ++ toString g

def showKind : Kind → String
  | .and => "and"
  | .or => "or"
  | .xor => "xor"

def showGate (g : Gate) : String :=
  " ; " ++ joinSp (showKind g.1 :: g.2.map showLit)

def render : Except Err (Circuit × Array Lit) → String
  | .ok (c, m) =>
    "ok" ++ String.join (c.gates.toList.map showGate) ++ " ; " ++ joinSp ("map" :: m.toList.map showLit)
  | .error (.cycle g) => "err cycle g" ++ toString g
  | .error (.input l) => "err input " ++ showLit l
  | .error .panicIndex => "panic index"
  | .error .panicBitset => "panic bitset"
  | .error .fuel => "model-fuel-exhausted"

def hexVal? (c : Char) : Option Nat :=
  if c.isDigit then some (c.toNat - '0'.toNat)
  else if 'a' ≤ c ∧ c ≤ 'f' then some (c.toNat - 'a'.toNat + 10)
  else if 'A' ≤ c ∧ c ≤ 'F' then some (c.toNat - 'A'.toNat + 10)
  else none

def hexBytes? : List Char → Option (List Nat)
  | [] => some []
  | [_] => none
  | a :: b :: rest =>
    match hexVal? a, hexVal? b, hexBytes? rest with
    | some x, some y, some r => some ((16 * x + y) :: r)
    | _, _, _ => none

/-- `aigand <ninputs> <hex>`: the single AND gate of the binary AIGER file
`aig <n+1> <n> 0 0 1` followed by the bytes -/
def stepAigAnd (ws : List String) : String :=
  match ws with
  | [_, n, hex] =>
    if n.length > 6 then "bad-op" else
    match parseNat? n.toList, (if hex = "-" then some [] else
        if hex.length > 64 then none else hexBytes? hex.toList) with
    | some n, some bytes =>
      let terms := bytes.filter (· < 128)
      -- only prefixes of exactly two 7-bit integers
      let lastTerm : Bool := match bytes.getLast? with
        | some b => decide (b < 128)
        | none => false
      if terms.length > 2 || (terms.length == 2 && !lastTerm) then
        "bad-op"
      else
        match Aiger.decodeAnd (2 * (n + 1)) bytes with
        | some ((a, b), _) =>
          "ok " ++ showLit (Aiger.makeLiteral (n + 1) a) ++ " " ++ showLit (Aiger.makeLiteral (n + 1) b)
        | none => "err"
    | _, _ => "bad-op"
  | _ => "bad-op"

def stepLine (cfg : Cfg) (line : String) : String :=
  match words line with
  | "aigand" :: ws => stepAigAnd ("aigand" :: ws)
  | _ =>
    match parseLine? line with
    | some (c, roots) => render (simplify cfg c roots)
    | none => "bad-op"

/-- the code as it is in `/repo` -/
def proto : Proto := { σ := Unit, init := (), step := fun s l => (s, stepLine Cfg.fixed l) }

/-- the code before the `fix:` commit c066e71 (not registered; for replaying old findings) -/
def protoBeforeFix : Proto := { σ := Unit, init := (), step := fun s l => (s, stepLine Cfg.beforeFix l) }

end OxiddModel.Circuit
