import OxiddModel.Util.Proto
import OxiddModel.Circuit.FindCycle
import OxiddModel.Circuit.Driver

/-!
Line protocol `findcycle` for `Circuit::find_cycle` (see `harness/src/bin/c18_findcycle.rs`):

```text
circuit <ninputs> ; <kind> <lit>* ; <kind> <lit>* ; …     set the current circuit      ↦ ok <ngates>
findcycle                                                   `find_cycle()` on it         ↦ none | gate <i> | panic index
```

`<kind>` is `and|or|xor`, `<lit>` is `F T i<k> !i<k> g<k> !g<k>` (as in protocol `circ`).  A `case`
line forgets the circuit.  `panic index`: the real call panicked (`visited.insert` out of range,
only for a gate literal that names no existing gate).
-/
namespace OxiddModel.Circuit.FindCycleDriver

open OxiddModel.Circuit

def parseGates? : List (List String) → Option (List Gate)
  | [] => some []
  | p :: ps =>
    match p with
    | k :: ws =>
      -- `U` (`Literal::UNDEF`) of protocol `circ` is not part of this protocol
      if ws.any (fun w => w == "U" || w == "!U") then none else
      match parseKind? k, parseLits? ws, parseGates? ps with
      | some k, some ls, some gs => some ((k, ls) :: gs)
      | _, _, _ => none
    | [] => none

def parseCircuit? (line : String) : Option Circuit :=
  match (line.splitOn ";").map words with
  | ["circuit", n] :: parts =>
    match parseNat? n.toList, parseGates? parts with
    | some n, some gs => some { ninputs := n, gates := gs.toArray }
    | _, _ => none
  | _ => none

def render : Except FcErr (Option Lit) → String
  | .ok none => "none"
  | .ok (some (.gate false i)) => "gate " ++ toString i
  | .ok (some l) => "lit " ++ showLit l
  | .error .panicIndex => "panic index"
  | .error .fuel => "model-fuel-exhausted"

def step (st : Option Circuit) (line : String) : Option Circuit × String :=
  match words line with
  | ["findcycle"] =>
    match st with
    | some c =>
      -- a dangling gate reference violates the documented precondition: whether the real call
      -- panics or finds a cycle first depends on the traversal order, which nothing specifies
      if gateRefsB c then (st, render (findCycle c)) else (st, "precondition-violated")
    | none => (st, "bad-op")
  | "circuit" :: _ =>
    match parseCircuit? line with
    | some c => (some c, "ok " ++ toString c.gates.size)
    | none => (st, "bad-op")
  | _ => (st, "bad-op")

def proto : Proto := { σ := Option Circuit, init := none, step := step }

end OxiddModel.Circuit.FindCycleDriver
