import OxiddModel.Circuit.Model

/-!
# Model of `oxidd_parser::Circuit::find_cycle` (crates/oxidd-parser/src/lib.rs)

```rust
pub fn find_cycle(&self) -> Option<Literal> {
    let mut visited = FixedBitSet::with_capacity(self.gates.len() * 2);
    fn inner(gates: &GateVec2d, visited: &mut FixedBitSet, index: usize) -> bool {
        if visited.contains(index * 2 + 1) { return false; } // finished
        if visited.contains(index * 2) { return true; }      // discovered -> cycle
        visited.insert(index * 2); // discovered
        for &l in gates.get(index).unwrap().1 {
            if l.is_gate() && inner(gates, visited, l.0 >> Literal::VAR_LSB) { return true; }
        }
        visited.insert(index * 2 + 1); // finished
        false
    }
    for index in 0..self.gates.len() {
        if inner(&self.gates, &mut visited, index) { return Some(Literal::from_gate(false, index)); }
    }
    None
}
```

The bit set `visited` has two bits per gate: bit `2 i` (discovered) is `Marks.disc[i]`, bit `2 i + 1`
(finished) is `Marks.fin[i]`; both lists have length `gates.len()`.  `FixedBitSet::contains` is
`false` out of range (`getD … false`), `FixedBitSet::insert` panics out of range: for a gate
reference `index ≥ gates.len()` both `contains` are `false` and `insert(index * 2)` panics (this is
reached before `gates.get(index).unwrap()`, which would panic as well) — `FcErr.panicIndex`.
`l.0 >> VAR_LSB` of a gate literal is its gate number.  The recursion of `inner` is bounded by
`fuel`; `findCycle` passes `gates.len() + 1`, which is never exhausted
(`findCycle_total` in `PropertiesFindCycle.lean`: the number of undiscovered gates decreases along
the recursion).  The real recursion depth can reach `gates.len()`, the machine stack is not
modelled (known finding KF-parser-deep-chain).
-/
namespace OxiddModel.Circuit

/-- the panics of the real code; `fuel` is never produced by `findCycle` (`findCycle_total`) -/
inductive FcErr where
  | panicIndex
  | fuel
  deriving DecidableEq, Repr

/-- `visited`: bit `2 i` is `disc[i]`, bit `2 i + 1` is `fin[i]` -/
structure Marks where
  disc : List Bool
  fin : List Bool
  deriving DecidableEq, Repr

/-- `FixedBitSet::with_capacity(self.gates.len() * 2)` -/
def Marks.init (n : Nat) : Marks := ⟨List.replicate n false, List.replicate n false⟩

/-- `for &l in inputs { if l.is_gate() && inner(gates, visited, l.0 >> VAR_LSB) { return true } }`
(`inner` passed as `rc`) -/
def fcInputs (rc : Marks → Nat → Except FcErr (Bool × Marks)) :
    Marks → List Lit → Except FcErr (Bool × Marks)
  | m, [] => .ok (false, m)
  | m, .gate _ g :: ls =>
    match rc m g with
    | .error e => .error e
    | .ok (true, m') => .ok (true, m')
    | .ok (false, m') => fcInputs rc m' ls
  | m, _ :: ls => fcInputs rc m ls

/-- `inner(gates, visited, index)` -/
def fcInner (c : Circuit) : (fuel : Nat) → Marks → Nat → Except FcErr (Bool × Marks)
  | 0, _, _ => .error .fuel
  | fuel + 1, m, index =>
    if m.fin.getD index false then .ok (false, m) -- finished
    else if m.disc.getD index false then .ok (true, m) -- discovered -> cycle
    -- `visited.insert(index * 2)` panics when the bit is out of range
    else if c.gates.size ≤ index then .error .panicIndex
    else
      let m1 : Marks := { m with disc := m.disc.set index true }
      match fcInputs (fcInner c fuel) m1 (c.gates.getD index (.and, [])).2 with
      | .error e => .error e
      | .ok (true, m') => .ok (true, m')
      | .ok (false, m') => .ok (false, { m' with fin := m'.fin.set index true })

/-- `for index in index..index + n { if inner(..) { return Some(from_gate(false, index)) } } None` -/
def fcRoots (c : Circuit) (fuel : Nat) : (n : Nat) → (index : Nat) → Marks →
    Except FcErr (Option Lit)
  | 0, _, _ => .ok none
  | n + 1, index, m =>
    match fcInner c fuel m index with
    | .error e => .error e
    | .ok (true, _) => .ok (some (.gate false index))
    | .ok (false, m') => fcRoots c fuel n (index + 1) m'

/-- `Circuit::find_cycle` -/
def findCycle (c : Circuit) : Except FcErr (Option Lit) :=
  fcRoots c (c.gates.size + 1) c.gates.size 0 (Marks.init c.gates.size)

/-! ## The specification side: the gate-dependency relation -/

/-- gate `i` exists and has gate `j` (in either polarity) among its inputs -/
def GateDep (c : Circuit) (i j : Nat) : Prop :=
  i < c.gates.size ∧ ∃ neg, Lit.gate neg j ∈ (c.gates.getD i (.and, [])).2

/-- `j` is reachable from `i` through at least one gate-input edge -/
inductive DependsOn (c : Circuit) : Nat → Nat → Prop where
  | single {i j : Nat} : GateDep c i j → DependsOn c i j
  | step {i j k : Nat} : GateDep c i j → DependsOn c j k → DependsOn c i k

/-- reachable through any number (possibly zero) of edges -/
def DependsOnR (c : Circuit) (i j : Nat) : Prop := i = j ∨ DependsOn c i j

/-- no gate depends on itself -/
def Acyclic (c : Circuit) : Prop := ∀ i, ¬ DependsOn c i i

/-- some cycle can be reached from gate `i` (`i` itself need not lie on it) -/
def CycleFrom (c : Circuit) (i : Nat) : Prop := ∃ j, DependsOnR c i j ∧ DependsOn c j j

/-- the precondition under which `find_cycle` does not panic: every gate literal among the gate
inputs names an existing gate (`Literal::from_gate` numbers below `gates.len()`) -/
def GateRefs (c : Circuit) : Prop :=
  ∀ i, i < c.gates.size → ∀ neg j, Lit.gate neg j ∈ (c.gates.getD i (.and, [])).2 → j < c.gates.size

/-- decidable form of `GateRefs` (used by the driver-side sanity checks and the examples) -/
def gateRefsB (c : Circuit) : Bool :=
  c.gates.toList.all (fun g => g.2.all (fun l => match l with
    | .gate _ j => decide (j < c.gates.size)
    | _ => true))

end OxiddModel.Circuit
