import OxiddModel.NnfParse.LemmasCycle
import OxiddModel.AigerParse.LemmasCycle
import OxiddModel.Circuit.PropertiesFindCycle

/-!
# C18: the parsers' calls of `find_cycle`

The NNF and AIGER parser models (`NnfParse/Model.lean`, `AigerParse/Model.lean`) each carry their own
copy of `find_cycle` (on `List Gate` resp. on binary AND gates `List (Lit × Lit)`, with the
parsers' diagnostic type).  Here they are shown to be the same function as `Circuit.findCycle`, so
that the exact characterisation of `PropertiesFindCycle.lean` transfers to the parsers'
`check_acyclic` step: it rejects a file **iff** the circuit is cyclic (the existing parser theorems
had: accepted ⇒ acyclic, and topologically ordered ⇒ accepted).

Precondition.  The parsers call `find_cycle` only after every gate literal has been checked to name
an existing gate (AIGER: "undefined literal" check; NNF: children are earlier node numbers, mapped
through `nodes`).  In the parser models this is the hypothesis of `NnfParse.findCycle_sat` /
`AigerParse.findCycle_sat`, discharged inside `parse_sat` (`LemmasParse.lean`) at the call site;
`gateRefs_of_nnf` / `gateRefs_of_aiger` show that it is `GateRefs`.
-/
namespace OxiddModel.Circuit

open OxiddModel.AigerParse (Visited)

def Marks.toVisited (m : Marks) : Visited := ⟨m.disc, m.fin⟩

/-! ## NNF: n-ary gates -/

/-- the circuit the NNF parser has built when it calls `find_cycle` -/
def ofGateList (n : Nat) (gates : List Gate) : Circuit := ⟨n, gates.toArray⟩

def nnfRes : Except FcErr (Bool × Marks) → NnfParse.Res (Bool × Visited)
  | .ok (b, m) => .ok (b, m.toVisited)
  | .error .panicIndex => .error (.panic .index)
  | .error .fuel => .error (.panic .fuel)

/-- `Some(l)` is used by the parsers only through `l.get_gate_no().unwrap()` -/
def gateNo : Lit → Nat
  | .gate _ g => g
  | _ => 0

def nnfRootsRes : Except FcErr (Option Lit) → NnfParse.Res (Option Nat)
  | .ok o => .ok (o.map gateNo)
  | .error .panicIndex => .error (.panic .index)
  | .error .fuel => .error (.panic .fuel)

theorem nnf_fcInputs_eq {rc : Marks → Nat → Except FcErr (Bool × Marks)}
    {rc' : Visited → Nat → NnfParse.Res (Bool × Visited)}
    (hrc : ∀ m g, rc' m.toVisited g = nnfRes (rc m g)) :
    ∀ (ls : List Lit) (m : Marks),
      NnfParse.fcInputs rc' m.toVisited ls = nnfRes (fcInputs rc m ls) := by
  intro ls
  induction ls with
  | nil => intro m; rfl
  | cons l ls ih =>
    intro m
    cases l with
    | const b => simp only [NnfParse.fcInputs, fcInputs]; exact ih m
    | input ng i => simp only [NnfParse.fcInputs, fcInputs]; exact ih m
    | gate ng g =>
      simp only [NnfParse.fcInputs, fcInputs]
      rw [hrc m g]
      cases h : rc m g with
      | error e => cases e <;> rfl
      | ok p =>
        obtain ⟨b, m'⟩ := p
        cases b with
        | true => rfl
        | false => simp only [nnfRes]; exact ih m'

theorem getD_toArray_snd (gates : List Gate) (index : Nat) (k : Kind) (ins : List Lit)
    (h : gates[index]? = some (k, ins)) : (gates.toArray.getD index (.and, [])).2 = ins := by
  simp [Array.getD_eq_getD_getElem?, h]

theorem nnf_fcInner_eq (n : Nat) (gates : List Gate) :
    ∀ (fuel : Nat) (m : Marks) (index : Nat),
      NnfParse.fcInner gates fuel m.toVisited index
        = nnfRes (fcInner (ofGateList n gates) fuel m index) := by
  intro fuel
  induction fuel with
  | zero => intro m index; rfl
  | succ fuel ih =>
    intro m index
    rw [NnfParse.fcInner, fcInner]
    show (if m.fin.getD index false = true then _ else _) = _
    by_cases hfin : m.fin.getD index false = true
    · rw [if_pos hfin, if_pos hfin]; rfl
    · rw [if_neg hfin, if_neg hfin]
      show (if m.disc.getD index false = true then _ else _) = _
      by_cases hdisc : m.disc.getD index false = true
      · rw [if_pos hdisc, if_pos hdisc]; rfl
      · rw [if_neg hdisc, if_neg hdisc]
        have hsize : (ofGateList n gates).gates.size = gates.length := by simp [ofGateList]
        rw [hsize]
        by_cases hge : gates.length ≤ index
        · rw [if_pos hge, if_pos hge]; rfl
        · rw [if_neg hge, if_neg hge]
          have hlt : index < gates.length := Nat.lt_of_not_le hge
          obtain ⟨k, ins, hki⟩ : ∃ k ins, gates[index] = (k, ins) := ⟨_, _, rfl⟩
          have hsome : gates[index]? = some (k, ins) := by rw [List.getElem?_eq_getElem hlt, hki]
          have hins : ((ofGateList n gates).gates.getD index (.and, [])).2 = ins :=
            getD_toArray_snd gates index k ins hsome
          have hI := nnf_fcInputs_eq (rc := fcInner (ofGateList n gates) fuel) ih ins
            { m with disc := m.disc.set index true }
          rw [hsome, hins]
          dsimp only [Marks.toVisited] at hI ⊢
          rw [hI]
          cases fcInputs (fcInner (ofGateList n gates) fuel)
              { disc := m.disc.set index true, fin := m.fin } ins with
          | error e => cases e <;> rfl
          | ok p =>
            obtain ⟨b, m'⟩ := p
            cases b <;> rfl

theorem nnf_fcRoots_eq (n : Nat) (gates : List Gate) (fuel : Nat) :
    ∀ (k index : Nat) (m : Marks),
      NnfParse.fcRoots gates fuel k index m.toVisited
        = nnfRootsRes (fcRoots (ofGateList n gates) fuel k index m) := by
  intro k
  induction k with
  | zero => intro index m; rfl
  | succ k ih =>
    intro index m
    rw [NnfParse.fcRoots, fcRoots, nnf_fcInner_eq n]
    cases fcInner (ofGateList n gates) fuel m index with
    | error e => cases e <;> rfl
    | ok p =>
      obtain ⟨b, m'⟩ := p
      cases b with
      | true => rfl
      | false => simp only [nnfRes]; exact ih (index + 1) m'

/-- **the NNF parser's `find_cycle` is `Circuit.findCycle`** -/
theorem nnf_findCycle_eq (n : Nat) (gates : List Gate) :
    NnfParse.findCycle gates = nnfRootsRes (findCycle (ofGateList n gates)) := by
  unfold NnfParse.findCycle findCycle
  have hsize : (ofGateList n gates).gates.size = gates.length := by simp [ofGateList]
  rw [hsize]
  exact nnf_fcRoots_eq n gates (gates.length + 1) gates.length 0 (Marks.init gates.length)

/-- the parser-side precondition (`NnfParse.findCycle_sat`) is `GateRefs` -/
theorem gateRefs_of_nnf (n : Nat) {gates : List Gate}
    (hg : ∀ g ∈ gates, ∀ neg j, Lit.gate neg j ∈ g.2 → j < gates.length) :
    GateRefs (ofGateList n gates) := by
  intro i hi neg j hj
  have hsize : (ofGateList n gates).gates.size = gates.length := by simp [ofGateList]
  rw [hsize] at hi ⊢
  have hins := getD_toArray_snd gates i gates[i].1 gates[i].2 (by rw [List.getElem?_eq_getElem hi])
  have hins' : ((ofGateList n gates).gates.getD i (.and, [])).2 = gates[i].2 := hins
  rw [hins'] at hj
  exact hg _ (List.getElem_mem hi) neg j hj

/-- the hypothesis in the shape in which `NnfParse/LemmasParse.lean` establishes it at the call site
of `cycleCheck` (every gate input is `LitIn`, hence `GateRef`) -/
theorem gateRefs_of_nnf_callsite (n : Nat) {gates : List Gate}
    (hg : ∀ g ∈ gates, ∀ l ∈ g.2, NnfParse.GateRef gates.length l) :
    GateRefs (ofGateList n gates) :=
  gateRefs_of_nnf n (fun g hgm _ _ hj => hg g hgm _ hj)

/-- **`check_acyclic` in the NNF parser is exact**: the check passes iff no gate depends on
itself (no false rejection, no false acceptance), for every gate list with in-range references. -/
theorem nnf_cycleCheck_ok_iff_acyclic (n : Nat) {gates : List Gate} (nspans : Nat)
    (hg : ∀ g ∈ gates, ∀ neg j, Lit.gate neg j ∈ g.2 → j < gates.length) :
    NnfParse.cycleCheck true gates nspans = .ok () ↔ Acyclic (ofGateList n gates) := by
  have hw := gateRefs_of_nnf n hg
  rw [← findCycle_none_iff_acyclic hw]
  unfold NnfParse.cycleCheck
  rw [nnf_findCycle_eq n]
  obtain ⟨o, ho⟩ := findCycle_total hw
  rw [ho]
  cases o with
  | none => simp [nnfRootsRes]
  | some l =>
    simp only [nnfRootsRes, Option.map, if_true]
    constructor
    · intro h; split at h <;> cases h
    · intro h; cases h

/-- the gate whose span gets the "node depends on itself" diagnostic is the least gate from which
a cycle can be reached — not necessarily a node that depends on itself -/
theorem nnf_findCycle_some_iff_least (n : Nat) {gates : List Gate}
    (hg : ∀ g ∈ gates, ∀ neg j, Lit.gate neg j ∈ g.2 → j < gates.length) (i : Nat) :
    NnfParse.findCycle gates = .ok (some i) ↔
      (CycleFrom (ofGateList n gates) i ∧ ∀ j, j < i → ¬ CycleFrom (ofGateList n gates) j) := by
  have hw := gateRefs_of_nnf n hg
  rw [← findCycle_some_iff_least hw, nnf_findCycle_eq n]
  obtain ⟨o, ho⟩ := findCycle_total hw
  rw [ho]
  cases o with
  | none => simp [nnfRootsRes]
  | some l =>
    obtain ⟨i', hl⟩ := findCycle_some_is_gate hw ho
    subst hl
    simp only [nnfRootsRes, Option.map, gateNo]
    constructor
    · intro h; injection h with h; injection h with h; rw [h]
    · intro h; injection h with h; injection h with h; injection h with _ h; rw [h]

/-- non-vacuity: the lasso as an NNF gate list is rejected with gate 0 -/
example : NnfParse.findCycle [(.and, [.gate false 1]), (.and, [.gate false 2]), (.and, [.gate false 1])]
    = .ok (some 0) := by rfl

/-! ## AIGER: binary AND gates -/

/-- the circuit the AIGER parser has built when it calls `find_cycle` -/
def ofAndList (n : Nat) (gates : List (Lit × Lit)) : Circuit :=
  ⟨n, (gates.map (fun p => ((Kind.and, [p.1, p.2]) : Gate))).toArray⟩

def aigRes : Except FcErr (Bool × Marks) → AigerParse.Res (Bool × Visited)
  | .ok (b, m) => .ok (b, m.toVisited)
  | .error .panicIndex => .error (.panic .index)
  | .error .fuel => .error (.panic .fuel)

def aigRootsRes : Except FcErr (Option Lit) → AigerParse.Res (Option Nat)
  | .ok o => .ok (o.map gateNo)
  | .error .panicIndex => .error (.panic .index)
  | .error .fuel => .error (.panic .fuel)

/-- one round of the loop over the gate inputs -/
def fcLit1 (rc : Marks → Nat → Except FcErr (Bool × Marks)) (m : Marks) :
    Lit → Except FcErr (Bool × Marks)
  | .gate _ g => rc m g
  | _ => .ok (false, m)

theorem fcInputs_cons (rc : Marks → Nat → Except FcErr (Bool × Marks)) (m : Marks) (l : Lit)
    (ls : List Lit) : fcInputs rc m (l :: ls) =
      match fcLit1 rc m l with
      | .error e => .error e
      | .ok (true, m') => .ok (true, m')
      | .ok (false, m') => fcInputs rc m' ls := by
  cases l <;> rfl

theorem aig_fcLit_eq {rc : Marks → Nat → Except FcErr (Bool × Marks)}
    {rc' : Visited → Nat → AigerParse.Res (Bool × Visited)}
    (hrc : ∀ m g, rc' m.toVisited g = aigRes (rc m g)) (m : Marks) (l : Lit) :
    AigerParse.fcLit rc' m.toVisited l = aigRes (fcLit1 rc m l) := by
  cases l with
  | gate ng g => exact hrc m g
  | const b => rfl
  | input ng i => rfl

theorem getD_andList_snd (gates : List (Lit × Lit)) (index : Nat) (a b : Lit)
    (h : gates[index]? = some (a, b)) (n : Nat) :
    ((ofAndList n gates).gates.getD index (.and, [])).2 = [a, b] := by
  simp [ofAndList, Array.getD_eq_getD_getElem?, h]

theorem aig_fcInner_eq (n : Nat) (gates : List (Lit × Lit)) :
    ∀ (fuel : Nat) (m : Marks) (index : Nat),
      AigerParse.fcInner gates fuel m.toVisited index
        = aigRes (fcInner (ofAndList n gates) fuel m index) := by
  intro fuel
  induction fuel with
  | zero => intro m index; rfl
  | succ fuel ih =>
    intro m index
    rw [AigerParse.fcInner, fcInner]
    show (if m.fin.getD index false = true then _ else _) = _
    by_cases hfin : m.fin.getD index false = true
    · rw [if_pos hfin, if_pos hfin]; rfl
    · rw [if_neg hfin, if_neg hfin]
      show (if m.disc.getD index false = true then _ else _) = _
      by_cases hdisc : m.disc.getD index false = true
      · rw [if_pos hdisc, if_pos hdisc]; rfl
      · rw [if_neg hdisc, if_neg hdisc]
        have hsize : (ofAndList n gates).gates.size = gates.length := by simp [ofAndList]
        rw [hsize]
        by_cases hge : gates.length ≤ index
        · rw [if_pos hge, if_pos hge]; rfl
        · rw [if_neg hge, if_neg hge]
          have hlt : index < gates.length := Nat.lt_of_not_le hge
          obtain ⟨a, b, hab⟩ : ∃ a b, gates[index] = (a, b) := ⟨_, _, rfl⟩
          have hsome : gates[index]? = some (a, b) := by rw [List.getElem?_eq_getElem hlt, hab]
          have hA := aig_fcLit_eq (rc := fcInner (ofAndList n gates) fuel) ih
            { m with disc := m.disc.set index true } a
          rw [hsome, getD_andList_snd gates index a b hsome n]
          dsimp only [Marks.toVisited] at hA ⊢
          rw [fcInputs_cons, hA]
          cases fcLit1 (fcInner (ofAndList n gates) fuel)
              { disc := m.disc.set index true, fin := m.fin } a with
          | error e => cases e <;> rfl
          | ok p =>
            obtain ⟨r, m2⟩ := p
            cases r with
            | true => rfl
            | false =>
              have hB := aig_fcLit_eq (rc := fcInner (ofAndList n gates) fuel) ih m2 b
              dsimp only [aigRes, Marks.toVisited] at hB ⊢
              rw [hB, fcInputs_cons]
              cases fcLit1 (fcInner (ofAndList n gates) fuel) m2 b with
              | error e => cases e <;> rfl
              | ok p =>
                obtain ⟨r, m3⟩ := p
                cases r <;> rfl

theorem aig_fcRoots_eq (n : Nat) (gates : List (Lit × Lit)) (fuel : Nat) :
    ∀ (k index : Nat) (m : Marks),
      AigerParse.fcRoots gates fuel k index m.toVisited
        = aigRootsRes (fcRoots (ofAndList n gates) fuel k index m) := by
  intro k
  induction k with
  | zero => intro index m; rfl
  | succ k ih =>
    intro index m
    rw [AigerParse.fcRoots, fcRoots, aig_fcInner_eq n]
    cases fcInner (ofAndList n gates) fuel m index with
    | error e => cases e <;> rfl
    | ok p =>
      obtain ⟨b, m'⟩ := p
      cases b with
      | true => rfl
      | false =>
        show AigerParse.fcRoots gates fuel k (index + 1) m'.toVisited = _
        exact ih (index + 1) m'

/-- **the AIGER parser's `find_cycle` is `Circuit.findCycle`** -/
theorem aig_findCycle_eq (n : Nat) (gates : List (Lit × Lit)) :
    AigerParse.findCycle gates = aigRootsRes (findCycle (ofAndList n gates)) := by
  unfold AigerParse.findCycle findCycle
  have hsize : (ofAndList n gates).gates.size = gates.length := by simp [ofAndList]
  rw [hsize]
  exact aig_fcRoots_eq n gates (gates.length + 1) gates.length 0 (Marks.init gates.length)

/-- the parser-side precondition (`AigerParse.findCycle_sat`) is `GateRefs` -/
theorem gateRefs_of_aiger (n : Nat) {gates : List (Lit × Lit)}
    (hg : ∀ g ∈ gates, ∀ neg j, (g.1 = Lit.gate neg j ∨ g.2 = Lit.gate neg j) → j < gates.length) :
    GateRefs (ofAndList n gates) := by
  intro i hi neg j hj
  have hsize : (ofAndList n gates).gates.size = gates.length := by simp [ofAndList]
  rw [hsize] at hi ⊢
  rw [getD_andList_snd gates i gates[i].1 gates[i].2 (by rw [List.getElem?_eq_getElem hi]) n] at hj
  have : gates[i].1 = Lit.gate neg j ∨ gates[i].2 = Lit.gate neg j := by
    simp only [List.mem_cons, List.not_mem_nil, or_false] at hj
    rcases hj with h | h
    · exact Or.inl h.symm
    · exact Or.inr h.symm
  exact hg _ (List.getElem_mem hi) neg j this

/-- the hypothesis in the shape in which `AigerParse/LemmasParse.lean` establishes it at the call
site of `cycleCheck` (both inputs of every AND gate are `LitOK`, hence `GateRef`) -/
theorem gateRefs_of_aiger_callsite (n : Nat) {gates : List (Lit × Lit)}
    (hg : ∀ g ∈ gates, AigerParse.GateRef gates.length g.1 ∧ AigerParse.GateRef gates.length g.2) :
    GateRefs (ofAndList n gates) := by
  refine gateRefs_of_aiger n (fun g hgm neg j hj => ?_)
  rcases hj with h | h
  · have := (hg g hgm).1; rw [h] at this; exact this
  · have := (hg g hgm).2; rw [h] at this; exact this

/-- **`check_acyclic` in the (ASCII) AIGER parser is exact**: the check passes iff no AND gate
depends on itself. -/
theorem aig_cycleCheck_ok_iff_acyclic (n : Nat) {gates : List (Lit × Lit)} (nspans : Nat)
    (hg : ∀ g ∈ gates, ∀ neg j, (g.1 = Lit.gate neg j ∨ g.2 = Lit.gate neg j) → j < gates.length) :
    AigerParse.cycleCheck true gates nspans = .ok () ↔ Acyclic (ofAndList n gates) := by
  have hw := gateRefs_of_aiger n hg
  rw [← findCycle_none_iff_acyclic hw]
  unfold AigerParse.cycleCheck
  rw [aig_findCycle_eq n]
  obtain ⟨o, ho⟩ := findCycle_total hw
  rw [ho]
  cases o with
  | none => simp [aigRootsRes]
  | some l =>
    simp only [aigRootsRes, Option.map, if_true]
    constructor
    · intro h; split at h <;> cases h
    · intro h; cases h

/-- non-vacuity: the lasso with binary gates (`g0 = g1 ∧ g1`, …) is rejected with gate 0, as the
real parser does on `aag 3 0 0 1 3 / 2 / 2 4 4 / 4 6 6 / 6 4 4` (blamed line: `2 4 4`) -/
example : AigerParse.findCycle [(.gate false 1, .gate false 1), (.gate false 2, .gate false 2),
    (.gate false 1, .gate false 1)] = .ok (some 0) := by rfl

end OxiddModel.Circuit
