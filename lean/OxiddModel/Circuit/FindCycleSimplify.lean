import OxiddModel.Circuit.Properties
import OxiddModel.Circuit.PropertiesFindCycle

/-!
# C18: `find_cycle` and `simplify` agree on cyclicity

`Circuit::simplify` runs the same kind of depth-first search with its own marks (`gate_map`).
With *all* gates as roots the two agree: `simplify` succeeds only if `find_cycle` is `None`, it
reports `Err(gate)` only if `find_cycle` is `Some`, and — when all input literals are known, so
that no other error is possible — it succeeds iff `find_cycle` is `None`.
-/
namespace OxiddModel.Circuit

/-- `(0..gates.len()).map(|i| Literal::from_gate(false, i))` -/
def allGateRoots (c : Circuit) : List Lit := (List.range c.gates.size).map (Lit.gate false)

theorem mem_allGateRoots {c : Circuit} {neg : Bool} {g : Nat} :
    Lit.gate neg g ∈ allGateRoots c ↔ (neg = false ∧ g < c.gates.size) := by
  unfold allGateRoots
  simp only [List.mem_map, List.mem_range]
  constructor
  · rintro ⟨a, ha, h⟩
    injection h with h1 h2
    subst h1 h2
    exact ⟨rfl, ha⟩
  · rintro ⟨rfl, h⟩
    exact ⟨g, h, rfl⟩

theorem lt_of_mem_inputs {c : Circuit} {g : Nat} {l : Lit}
    (h : l ∈ (c.gates.getD g (.and, [])).2) : g < c.gates.size := by
  apply Nat.lt_of_not_le
  intro hge
  have : c.gates.getD g (.and, []) = (.and, []) := by
    simp [Array.getD, Nat.not_lt.2 hge]
  rw [this] at h
  simp at h

/-- the dependency relation of `FindCycle.lean` is the relation `Reaches` of the `simplify`
theorems -/
theorem dependsOn_iff_reaches {c : Circuit} {a b : Nat} : DependsOn c a b ↔ Reaches c a b := by
  constructor
  · intro h
    induction h with
    | single e =>
      obtain ⟨_, neg, hm⟩ := e
      exact Reaches.edge hm
    | step e _ ih =>
      obtain ⟨_, neg, hm⟩ := e
      exact Reaches.trans (Reaches.edge hm) ih
  · intro h
    induction h with
    | edge hm => exact .single ⟨lt_of_mem_inputs hm, _, hm⟩
    | trans _ _ ih1 ih2 => exact ih1.trans ih2

theorem reach_of_reaches {c : Circuit} {roots : List Lit} {a b : Nat} (h : Reaches c a b) :
    Reach c roots a → Reach c roots b := by
  induction h with
  | edge hm => intro ha; exact Reach.step ha hm
  | trans _ _ ih1 ih2 => intro ha; exact ih2 (ih1 ha)

/-- a cycle that `find_cycle` can see is reachable from the roots `allGateRoots` -/
theorem cycleFrom_reach {c : Circuit} {i : Nat} (h : CycleFrom c i) :
    ∃ j, Reach c (allGateRoots c) j ∧ Reaches c j j := by
  obtain ⟨j, hij, hc⟩ := h
  have hi : Reach c (allGateRoots c) i :=
    Reach.root (neg := false) (mem_allGateRoots.2 ⟨rfl, CycleFrom.lt ⟨j, hij, hc⟩⟩)
  refine ⟨j, ?_, dependsOn_iff_reaches.1 hc⟩
  cases hij with
  | inl h => subst h; exact hi
  | inr h => exact reach_of_reaches (dependsOn_iff_reaches.1 h) hi

/-- **(d, ⇒) `simplify` with all gates as roots succeeds only on circuits that `find_cycle`
accepts.** -/
theorem simplify_allGates_ok_findCycle_none {c c' : Circuit} {m : Array Lit} (hs : Small c)
    (hw : GateRefs c) (h : simplify Cfg.fixed c (allGateRoots c) = .ok (c', m)) :
    findCycle c = .ok none := by
  obtain ⟨o, ho⟩ := findCycle_total hw
  cases o with
  | none => exact ho
  | some l =>
    obtain ⟨i, _, _, hc⟩ := findCycle_some_cycle_reachable hw ho
    obtain ⟨j, hr, hcyc⟩ := cycleFrom_reach hc
    exact absurd h (simplify_cycle hs hr hcyc c' m)

/-- **(d) `simplify` reports a cycle only on circuits on which `find_cycle` returns `Some`.** -/
theorem simplify_allGates_cycle_findCycle_some {c : Circuit} {e : Nat} (hs : Small c)
    (hw : GateRefs c) (h : simplify Cfg.fixed c (allGateRoots c) = .error (.cycle e)) :
    ∃ l, findCycle c = .ok (some l) := by
  obtain ⟨o, ho⟩ := findCycle_total hw
  cases o with
  | some l => exact ⟨l, ho⟩
  | none =>
    have hcyc := (simplify_cycle_sound hs h).2
    exact absurd (dependsOn_iff_reaches.2 hcyc) ((findCycle_none_iff_acyclic hw).1 ho e)

/-- **(d, ⇔) with all input literals known, `simplify` with all gates as roots succeeds iff
`find_cycle` returns `None`** (so it fails iff `find_cycle` returns `Some`). -/
theorem simplify_allGates_ok_iff_findCycle_none {c : Circuit} (hs : Small c) (hw : GateRefs c)
    (hin : ∀ g, g < c.gates.size → ∀ n i,
      Lit.input n i ∈ (c.gates.getD g (.and, [])).2 → i < c.ninputs) :
    (∃ c' m, simplify Cfg.fixed c (allGateRoots c) = .ok (c', m)) ↔ findCycle c = .ok none := by
  constructor
  · rintro ⟨c', m, h⟩
    exact simplify_allGates_ok_findCycle_none hs hw h
  · intro h
    obtain ⟨rank, hr⟩ := findCycle_none_rank hw h
    have hgood : Good c :=
      ⟨⟨rank, fun g hg neg i hm => ⟨hw g hg neg i hm, hr g i ⟨hg, neg, hm⟩⟩⟩, hin⟩
    refine simplify_total hs hgood (fun neg g hg => (mem_allGateRoots.1 hg).2) ?_
    intro n i hmem
    unfold allGateRoots at hmem
    simp at hmem

/-- non-vacuity: the lasso (`simplify` fails, `find_cycle` is `Some`) and a chain (both accept) -/
example : simplify Cfg.fixed lassoCircuit (allGateRoots lassoCircuit) = .error (.cycle 1) := by rfl
example : ∃ c' m, simplify Cfg.fixed
    ⟨1, #[(.and, [.gate false 1, .input false 0]), (.or, [.input true 0, .const false])]⟩
    (allGateRoots ⟨1, #[(.and, [.gate false 1, .input false 0]), (.or, [.input true 0, .const false])]⟩)
    = .ok (c', m) := ⟨_, _, rfl⟩

end OxiddModel.Circuit
