import OxiddModel.Circuit.Sem

/-!
Condition 3 of `simplify`: the bit-set based removal of duplicates / detection of complements
(`insertAll`, `toggleAll`, `retain`) preserves the value of the gate and yields inputs over
pairwise distinct variables.
-/
namespace OxiddModel.Circuit

/-! ### the bit-set index is injective on the literals that can occur -/

/-- gate literals refer to a new gate `g` with `g + 1 < G` (there are fewer new gates than old
gates, and the gate being processed has not produced one yet) -/
def IdxOk (G : Nat) : Lit → Prop
  | .gate _ g => g + 1 < G
  | _ => True

theorem IdxOk_not {G : Nat} {l : Lit} : IdxOk G l.not ↔ IdxOk G l := by
  cases l <;> simp [Lit.not, Lit.xorB, IdxOk]

theorem idx_inj {G : Nat} {a b : Lit} (ha : IdxOk G a) (hb : IdxOk G b)
    (h : idx G a = idx G b) : a = b := by
  cases a with
  | const x =>
    cases b with
    | const y => cases x <;> cases y <;> simp_all [idx, Lit.code, Lit.isNeg] <;> omega
    | input n i => cases x <;> cases n <;> simp [idx, Lit.code, Lit.isNeg] at h <;> omega
    | gate n g => cases x <;> cases n <;> simp [idx, Lit.code, Lit.isNeg, IdxOk] at h hb <;> omega
  | input m i =>
    cases b with
    | const y => cases y <;> cases m <;> simp [idx, Lit.code, Lit.isNeg] at h <;> omega
    | input n j =>
      cases m <;> cases n <;> simp [idx, Lit.code, Lit.isNeg] at h ⊢ <;> omega
    | gate n g => cases m <;> cases n <;> simp [idx, Lit.code, Lit.isNeg, IdxOk] at h hb <;> omega
  | gate m g =>
    cases b with
    | const y => cases y <;> cases m <;> simp [idx, Lit.code, Lit.isNeg, IdxOk] at h ha <;> omega
    | input n j => cases m <;> cases n <;> simp [idx, Lit.code, Lit.isNeg, IdxOk] at h ha <;> omega
    | gate n k => cases m <;> cases n <;> simp [idx] at h ⊢ <;> omega

theorem Lit.not_not (l : Lit) : l.not.not = l := by
  cases l <;> simp [Lit.not, Lit.xorB]

theorem Lit.not_ne (l : Lit) : l.not ≠ l := by
  cases l <;> simp [Lit.not, Lit.xorB]

/-- two literals are over the same variable iff they agree up to polarity -/
theorem Lit.var_eq {a b : Lit} (h : a.var = b.var) : a = b ∨ a = b.not := by
  cases a with
  | const x =>
    cases b with
    | const y => cases x <;> cases y <;> simp [Lit.not, Lit.xorB]
    | input n i => cases x <;> cases n <;> simp [Lit.var, Lit.code] at h <;> omega
    | gate n g => cases x <;> cases n <;> simp [Lit.var, Lit.code] at h <;> omega
  | input m i =>
    cases b with
    | const y => cases y <;> cases m <;> simp [Lit.var, Lit.code] at h <;> omega
    | input n j =>
      have : i = j := by cases m <;> cases n <;> simp [Lit.var, Lit.code] at h <;> omega
      subst this
      cases m <;> cases n <;> simp [Lit.not, Lit.xorB]
    | gate n g => cases m <;> cases n <;> simp [Lit.var, Lit.code] at h <;> omega
  | gate m g =>
    cases b with
    | const y => cases y <;> cases m <;> simp [Lit.var, Lit.code] at h <;> omega
    | input n j => cases m <;> cases n <;> simp [Lit.var, Lit.code] at h <;> omega
    | gate n k =>
      have : g = k := by cases m <;> cases n <;> simp [Lit.var, Lit.code] at h <;> omega
      subst this
      cases m <;> cases n <;> simp [Lit.not, Lit.xorB]

theorem Lit.var_not (l : Lit) : l.not.var = l.var := by
  cases l with
  | const x => cases x <;> simp [Lit.not, Lit.xorB, Lit.var, Lit.code]
  | input n i => cases n <;> simp [Lit.not, Lit.xorB, Lit.var, Lit.code] <;> omega
  | gate n g => cases n <;> simp [Lit.not, Lit.xorB, Lit.var, Lit.code] <;> omega

theorem isNeg_not (l : Lit) : l.not.isNeg = !l.isNeg := by
  cases l <;> simp [Lit.not, Lit.xorB, Lit.isNeg]

theorem idx_parity (G : Nat) (l : Lit) : idx G l % 2 = l.isNeg.toNat := by
  cases l with
  | const b => cases b <;> simp [idx, Lit.code, Lit.isNeg] <;> omega
  | input n i => cases n <;> simp [idx, Lit.code, Lit.isNeg] <;> omega
  | gate n g => cases n <;> simp [idx, Lit.isNeg] <;> omega

theorem idx_not (G : Nat) (l : Lit) :
    idx G l.not = if l.isNeg then idx G l - 1 else idx G l + 1 := by
  cases l with
  | const b => cases b <;> simp [Lit.not, Lit.xorB, idx, Lit.code, Lit.isNeg] <;> omega
  | input n i => cases n <;> simp [Lit.not, Lit.xorB, idx, Lit.code, Lit.isNeg] <;> omega
  | gate n g => cases n <;> simp [Lit.not, Lit.xorB, idx, Lit.isNeg]

theorem idx_not_ne (G : Nat) (l : Lit) : idx G l.not ≠ idx G l := by
  have h1 := idx_parity G l
  have h2 := idx_not G l
  cases hn : l.isNeg <;> simp [hn] at h1 h2 <;> omega

/-- if `y` has the index of `¬x` then `¬y` has the index of `x` -/
theorem idx_not_swap {G : Nat} {x y : Lit} (h : idx G y = idx G x.not) : idx G y.not = idx G x := by
  have px := idx_parity G x
  have py := idx_parity G y
  have nx := idx_not G x
  have ny := idx_not G y
  cases hx : x.isNeg <;> cases hy : y.isNeg <;> simp [hx, hy] at px py nx ny <;> omega

/-! ### folds over index sets and literal lists with a commutative monoid on `Bool` -/

structure CM (op : Bool → Bool → Bool) (e : Bool) : Prop where
  assoc : ∀ a b c, op (op a b) c = op a (op b c)
  comm : ∀ a b, op a b = op b a
  unit : ∀ a, op e a = a

theorem CM.and : CM (· && ·) true := ⟨by decide, by decide, by decide⟩
theorem CM.or : CM (· || ·) false := ⟨by decide, by decide, by decide⟩
theorem CM.xor : CM (· != ·) false := ⟨by decide, by decide, by decide⟩

theorem CM.left_comm {op e} (h : CM op e) (a b c : Bool) : op a (op b c) = op b (op a c) := by
  rw [← h.assoc, h.comm a b, h.assoc]

def foldI (op : Bool → Bool → Bool) (e : Bool) (f : Nat → Bool) : List Nat → Bool
  | [] => e
  | i :: s => op (f i) (foldI op e f s)

def foldL (op : Bool → Bool → Bool) (e : Bool) (val : Lit → Bool) : List Lit → Bool
  | [] => e
  | l :: ls => op (val l) (foldL op e val ls)

theorem foldL_and (val : Lit → Bool) (ls : List Lit) : foldL (· && ·) true val ls = ls.all val := by
  induction ls with
  | nil => rfl
  | cons a t ih => simp [foldL, ih]

theorem foldL_or (val : Lit → Bool) (ls : List Lit) : foldL (· || ·) false val ls = ls.any val := by
  induction ls with
  | nil => rfl
  | cons a t ih => simp [foldL, ih]

theorem foldL_xor (σ gv : Nat → Bool) (ls : List Lit) :
    foldL (· != ·) false (litVal σ gv) ls = xorVal σ gv ls := by
  induction ls with
  | nil => rfl
  | cons a t ih => simp [foldL, xorVal, ih]

theorem foldL_congr {op e} {val val' : Lit → Bool} {ls : List Lit} (h : ∀ l ∈ ls, val l = val' l) :
    foldL op e val ls = foldL op e val' ls := by
  induction ls with
  | nil => rfl
  | cons a t ih =>
    simp only [foldL]
    rw [h a (by simp), ih (fun l hl => h l (by simp [hl]))]

theorem foldI_erase {op e} (h : CM op e) (f : Nat → Bool) {i : Nat} :
    ∀ {s : List Nat}, i ∈ s → foldI op e f s = op (f i) (foldI op e f (s.erase i))
  | a :: t, hi => by
    by_cases hai : a = i
    · subst hai; simp [foldI]
    · have hit : i ∈ t := by
        rcases List.mem_cons.mp hi with rfl | hit
        · exact absurd rfl hai
        · exact hit
      have ih := foldI_erase h f hit
      have : (a :: t).erase i = a :: t.erase i := by
        simp [hai]
      rw [this]
      simp only [foldI]
      rw [ih, h.left_comm]

/-! ### `retain` -/

theorem retain_mem {G : Nat} : ∀ {ls : List Lit} {s : List Nat} {x : Lit},
    x ∈ retain G ls s → x ∈ ls ∧ idx G x ∈ s
  | [], _, _, h => by simp [retain] at h
  | l :: ls, s, x, h => by
    simp only [retain] at h
    split at h
    · rename_i hc
      rcases List.mem_cons.mp h with rfl | h
      · exact ⟨by simp, List.contains_iff_mem.mp hc⟩
      · have := retain_mem h
        exact ⟨List.mem_cons_of_mem _ this.1, List.mem_of_mem_erase this.2⟩
    · have := retain_mem h
      exact ⟨List.mem_cons_of_mem _ this.1, this.2⟩

theorem retain_nodup {G : Nat} : ∀ {ls : List Lit} {s : List Nat}, s.Nodup →
    ((retain G ls s).map (idx G)).Nodup
  | [], _, _ => by simp [retain]
  | l :: ls, s, hs => by
    simp only [retain]
    split
    · simp only [List.map_cons, List.nodup_cons]
      refine ⟨?_, retain_nodup (hs.erase _)⟩
      intro hmem
      obtain ⟨x, hx, hxe⟩ := List.mem_map.mp hmem
      have := (retain_mem hx).2
      rw [hxe] at this
      exact ((List.Nodup.mem_erase_iff hs).mp this).1 rfl
    · exact retain_nodup hs

/-- the retained literals fold to the fold over the index set they were selected by -/
theorem retain_fold {op e} (h : CM op e) {G : Nat} (f : Nat → Bool) :
    ∀ {ls : List Lit} {s : List Nat}, s.Nodup → (∀ i ∈ s, ∃ l ∈ ls, idx G l = i) →
    foldL op e (fun l => f (idx G l)) (retain G ls s) = foldI op e f s
  | [], s, _, hcov => by
    cases s with
    | nil => rfl
    | cons i t => obtain ⟨l, hl, _⟩ := hcov i (by simp); cases hl
  | l :: ls, s, hs, hcov => by
    simp only [retain]
    split
    · rename_i hc
      have hmem := List.contains_iff_mem.mp hc
      simp only [foldL]
      rw [retain_fold h f (hs.erase _), ← foldI_erase h f hmem]
      intro i hi
      have hi' := (List.Nodup.mem_erase_iff hs).mp hi
      obtain ⟨x, hx, hxe⟩ := hcov i hi'.2
      rcases List.mem_cons.mp hx with rfl | hx
      · exact absurd hxe.symm hi'.1
      · exact ⟨x, hx, hxe⟩
    · rename_i hc
      apply retain_fold h f hs
      intro i hi
      obtain ⟨x, hx, hxe⟩ := hcov i hi
      rcases List.mem_cons.mp hx with rfl | hx
      · rw [← hxe] at hi
        exact absurd (List.contains_iff_mem.mpr hi) hc
      · exact ⟨x, hx, hxe⟩

/-- the first literal is retained when its bit is set -/
theorem retain_head {G : Nat} {l : Lit} {ls : List Lit} {s : List Nat} (h : idx G l ∈ s) :
    ∃ r, retain G (l :: ls) s = l :: r := by
  simp [retain, h]

/-! ### `insertAll` (AND / OR) -/

theorem insertAll_set {G len : Nat} : ∀ {ls : List Lit} {s s' : List Nat},
    insertAll G len ls s = .set s' → s.Nodup →
    s'.Nodup ∧ (∀ i ∈ s', i ∈ s ∨ ∃ l ∈ ls, idx G l = i) ∧ (∀ l ∈ ls, idx G l ∈ s') ∧
      (∀ i ∈ s, i ∈ s') ∧ (∀ l ∈ ls, idx G l < len) ∧ (∀ l ∈ ls, idx G l.not ∉ s')
  | [], s, s', h, hs => by
    simp only [insertAll, DD.set.injEq] at h
    subst h
    simp [hs]
  | l :: ls, s, s', h, hs => by
    simp only [insertAll] at h
    split at h
    · cases h
    · rename_i hnc
      split at h
      · rename_i hlt
        have hs1 : (if s.contains (idx G l) then s else idx G l :: s).Nodup := by
          split
          · exact hs
          · rename_i hc
            exact List.nodup_cons.mpr ⟨fun hm => hc (List.contains_iff_mem.mpr hm), hs⟩
        have hmem1 : idx G l ∈ (if s.contains (idx G l) then s else idx G l :: s) := by
          split
          · rename_i hc; exact List.contains_iff_mem.mp hc
          · simp
        have hsub1 : ∀ i ∈ s, i ∈ (if s.contains (idx G l) then s else idx G l :: s) := by
          intro i hi; split
          · exact hi
          · exact List.mem_cons_of_mem _ hi
        have hsup1 : ∀ i ∈ (if s.contains (idx G l) then s else idx G l :: s), i ∈ s ∨ i = idx G l := by
          intro i hi; split at hi
          · exact Or.inl hi
          · rcases List.mem_cons.mp hi with rfl | hi
            · exact Or.inr rfl
            · exact Or.inl hi
        obtain ⟨h1, h2, h3, h4, h5, h6⟩ := insertAll_set h hs1
        refine ⟨h1, ?_, ?_, fun i hi => h4 i (hsub1 i hi), ?_, ?_⟩
        · intro i hi
          rcases h2 i hi with hi | ⟨x, hx, hxe⟩
          · rcases hsup1 i hi with hi | rfl
            · exact Or.inl hi
            · exact Or.inr ⟨l, by simp, rfl⟩
          · exact Or.inr ⟨x, List.mem_cons_of_mem _ hx, hxe⟩
        · intro x hx
          rcases List.mem_cons.mp hx with rfl | hx
          · exact h4 _ hmem1
          · exact h3 x hx
        · intro x hx
          rcases List.mem_cons.mp hx with rfl | hx
          · exact hlt
          · exact h5 x hx
        · intro x hx
          rcases List.mem_cons.mp hx with rfl | hx
          · -- the complement of the head is neither in `s` nor inserted later
            intro hm
            rcases h2 _ hm with hm | ⟨y, hy, hye⟩
            · rcases hsup1 _ hm with hm | hm
              · exact hnc (List.contains_iff_mem.mpr hm)
              · -- idx (not l) = idx l is impossible (they differ in the polarity bit)
                exact idx_not_ne G x hm
            · -- a later literal `y` with the index of `¬x`: then `¬y` has the index of `x`, which is set
              have := h6 y hy
              apply this
              have hx' : idx G x ∈ s' := h4 _ hmem1
              rw [idx_not_swap hye]; exact hx'
          · exact h6 x hx
      · cases h

theorem insertAll_fold {op e} (h : CM op e) (hidem : ∀ a, op a a = a) {G len : Nat} (f : Nat → Bool) :
    ∀ {ls : List Lit} {s s' : List Nat}, insertAll G len ls s = .set s' →
    foldI op e f s' = op (foldI op e f s) (foldL op e (fun l => f (idx G l)) ls)
  | [], s, s', hi => by
    simp only [insertAll, DD.set.injEq] at hi
    subst hi
    simp only [foldL]
    rw [h.comm, h.unit]
  | l :: ls, s, s', hi => by
    simp only [insertAll] at hi
    split at hi
    · cases hi
    · split at hi
      · have ih := insertAll_fold h hidem f hi
        rw [ih]
        have : foldI op e f (if s.contains (idx G l) then s else idx G l :: s) =
            op (f (idx G l)) (foldI op e f s) := by
          split
          · rename_i hc
            rw [foldI_erase h f (List.contains_iff_mem.mp hc), ← h.assoc, hidem]
          · rfl
        rw [this]
        simp only [foldL]
        rw [h.comm (f (idx G l)), h.assoc]
      · cases hi

/-- a complement was found: two literals of the list have complementary indices -/
theorem insertAll_complement {G len : Nat} : ∀ {ls : List Lit} {s : List Nat},
    insertAll G len ls s = .complement →
    ∃ l ∈ ls, idx G l.not ∈ s ∨ ∃ l' ∈ ls, idx G l' = idx G l.not
  | [], s, h => by simp [insertAll] at h
  | l :: ls, s, h => by
    simp only [insertAll] at h
    split at h
    · rename_i hc
      exact ⟨l, by simp, Or.inl (List.contains_iff_mem.mp hc)⟩
    · split at h
      · obtain ⟨x, hx, hor⟩ := insertAll_complement h
        refine ⟨x, List.mem_cons_of_mem _ hx, ?_⟩
        rcases hor with hm | ⟨y, hy, hye⟩
        · split at hm
          · exact Or.inl hm
          · rcases List.mem_cons.mp hm with hm | hm
            · exact Or.inr ⟨l, by simp, hm.symm⟩
            · exact Or.inl hm
        · exact Or.inr ⟨y, List.mem_cons_of_mem _ hy, hye⟩
      · cases h

/-! ### `toggleAll` (XOR) -/

theorem toggleAll_set {G len : Nat} : ∀ {ls : List Lit} {s s' : List Nat},
    toggleAll G len ls s = .set s' → s.Nodup →
    s'.Nodup ∧ (∀ i ∈ s', i ∈ s ∨ ∃ l ∈ ls, idx G l = i) ∧ (∀ l ∈ ls, idx G l < len)
  | [], s, s', h, hs => by
    simp only [toggleAll, DD.set.injEq] at h
    subst h
    simp [hs]
  | l :: ls, s, s', h, hs => by
    simp only [toggleAll] at h
    split at h
    · rename_i hlt
      have hs1 : (if s.contains (idx G l) then s.erase (idx G l) else idx G l :: s).Nodup := by
        split
        · exact hs.erase _
        · rename_i hc
          exact List.nodup_cons.mpr ⟨fun hm => hc (List.contains_iff_mem.mpr hm), hs⟩
      obtain ⟨h1, h2, h3⟩ := toggleAll_set h hs1
      refine ⟨h1, ?_, ?_⟩
      · intro i hi
        rcases h2 i hi with hi | ⟨x, hx, hxe⟩
        · split at hi
          · exact Or.inl (List.mem_of_mem_erase hi)
          · rcases List.mem_cons.mp hi with rfl | hi
            · exact Or.inr ⟨l, by simp, rfl⟩
            · exact Or.inl hi
        · exact Or.inr ⟨x, List.mem_cons_of_mem _ hx, hxe⟩
      · intro x hx
        rcases List.mem_cons.mp hx with rfl | hx
        · exact hlt
        · exact h3 x hx
    · cases h

theorem toggleAll_not_complement {G len : Nat} : ∀ {ls : List Lit} {s : List Nat},
    toggleAll G len ls s ≠ .complement
  | [], s => by simp [toggleAll]
  | l :: ls, s => by
    simp only [toggleAll]
    split
    · exact toggleAll_not_complement
    · simp

theorem toggleAll_fold {op e} (h : CM op e) (hinv : ∀ a, op a a = e) {G len : Nat} (f : Nat → Bool) :
    ∀ {ls : List Lit} {s s' : List Nat}, toggleAll G len ls s = .set s' →
    foldI op e f s' = op (foldI op e f s) (foldL op e (fun l => f (idx G l)) ls)
  | [], s, s', hi => by
    simp only [toggleAll, DD.set.injEq] at hi
    subst hi
    simp only [foldL]
    rw [h.comm, h.unit]
  | l :: ls, s, s', hi => by
    simp only [toggleAll] at hi
    split at hi
    · have ih := toggleAll_fold h hinv f hi
      rw [ih]
      have : foldI op e f (if s.contains (idx G l) then s.erase (idx G l) else idx G l :: s) =
          op (f (idx G l)) (foldI op e f s) := by
        split
        · rename_i hc
          rw [foldI_erase h f (List.contains_iff_mem.mp hc), ← h.assoc, hinv, h.unit]
        · rfl
      rw [this]
      simp only [foldL]
      rw [h.comm (f (idx G l)), h.assoc]
    · cases hi

/-! ### a value function on indices that agrees with the literal values -/

def idxVal (G : Nat) (val : Lit → Bool) (ls : List Lit) (i : Nat) : Bool :=
  match ls.find? (fun l => idx G l == i) with
  | some l => val l
  | none => false

theorem idxVal_idx {G : Nat} {val : Lit → Bool} {ls : List Lit} (hok : ∀ l ∈ ls, IdxOk G l)
    {l : Lit} (hl : l ∈ ls) : idxVal G val ls (idx G l) = val l := by
  unfold idxVal
  cases hf : ls.find? (fun x => idx G x == idx G l) with
  | none =>
    have := List.find?_eq_none.mp hf l hl
    simp at this
  | some x =>
    have h1 := List.find?_some hf
    have h2 := List.mem_of_find?_eq_some hf
    have : x = l := idx_inj (hok x h2) (hok l hl) (by simpa using h1)
    rw [this]

end OxiddModel.Circuit
