import OxiddModel.Circuit.LemmasNorm

/-!
Structural facts about the depth-first search (`visit`, `visitInputs`, `finish`): how the gate map
and the list of new gates evolve.  No semantics here.
-/
namespace OxiddModel.Circuit

/-- a gate-map entry that is neither `UNDEF` nor `DISCOVERED` -/
def Lit.isDone (l : Lit) : Prop := l ≠ Lit.undef ∧ l ≠ Lit.discovered

instance (l : Lit) : Decidable l.isDone := by unfold Lit.isDone; infer_instance

/-- gate `g` is finished -/
def Done (gm : Array Lit) (g : Nat) : Prop := (gm.getD g Lit.undef).isDone

/-- the circuit is representable: `Literal::UNDEF` is not the number of a possible input -/
def Small (c : Circuit) : Prop := c.gates.size + 2 * c.ninputs < Lit.undefIdx

theorem isDone_xorB {l : Lit} (b : Bool) : (l.xorB b).isDone ↔ l.isDone := by
  cases l <;> simp [Lit.xorB, Lit.isDone, Lit.undef, Lit.discovered]
  rename_i n i
  cases n <;> cases b <;> simp <;> omega

theorem isDone_positive {l : Lit} : l.positive.isDone ↔ l.isDone := by
  cases l <;> simp [Lit.positive, Lit.isDone, Lit.undef, Lit.discovered]
  rename_i n i
  cases n <;> simp

theorem isDone_const (b : Bool) : (Lit.const b).isDone := by
  simp [Lit.isDone, Lit.undef, Lit.discovered]

theorem isDone_gate (n : Bool) (g : Nat) : (Lit.gate n g).isDone := by
  simp [Lit.isDone, Lit.undef, Lit.discovered]

theorem isDone_of_known {cfg : Cfg} {c : Circuit} (hs : Small c) {l : Lit}
    (h : unknownInput cfg c.gates.size c.ninputs l = false) : l.isDone := by
  cases l with
  | const b => exact isDone_const b
  | gate n g => exact isDone_gate n g
  | input n i =>
    unfold Small at hs
    simp only [unknownInput] at h
    have : i ≠ Lit.undefIdx := by
      split at h
      · simp only [decide_eq_false_iff_not, Nat.not_le] at h; omega
      · simp only [decide_eq_false_iff_not, Nat.not_lt] at h; omega
    simp [Lit.isDone, Lit.undef, Lit.discovered, this]

theorem getD_setIfInBounds (gm : Array Lit) (i j : Nat) (a d : Lit) :
    (gm.setIfInBounds i a).getD j d = if i = j ∧ i < gm.size then a else gm.getD j d := by
  simp only [Array.getD_eq_getD_getElem?, Array.getElem?_setIfInBounds]
  by_cases h : i = j
  · subst h
    by_cases h2 : i < gm.size
    · simp [h2]
    · simp [h2]
  · simp [h]

/-! ### how a state may evolve -/

structure Step (st st' : State) : Prop where
  size : st'.gateMap.size = st.gateMap.size
  mono : ∀ g, st'.gateMap.getD g Lit.undef = st.gateMap.getD g Lit.undef ∨
    (st.gateMap.getD g Lit.undef = Lit.undef ∧ Done st'.gateMap g)
  pre : ∃ ext, st'.newGates.toList = st.newGates.toList ++ ext

theorem Step.refl (st : State) : Step st st :=
  ⟨rfl, fun _ => Or.inl rfl, ⟨[], by simp⟩⟩

theorem Step.done {st st' : State} (h : Step st st') {g : Nat} (hd : Done st.gateMap g) :
    st'.gateMap.getD g Lit.undef = st.gateMap.getD g Lit.undef := by
  rcases h.mono g with h | ⟨h, _⟩
  · exact h
  · exact absurd h hd.1

theorem Step.done' {st st' : State} (h : Step st st') {g : Nat} (hd : Done st.gateMap g) :
    Done st'.gateMap g := by
  unfold Done; rw [h.done hd]; exact hd

theorem Step.disc {st st' : State} (h : Step st st') {g : Nat}
    (hd : st.gateMap.getD g Lit.undef = Lit.discovered) :
    st'.gateMap.getD g Lit.undef = Lit.discovered := by
  rcases h.mono g with h | ⟨h, _⟩
  · rw [h, hd]
  · rw [hd] at h; cases h

theorem Step.trans {a b c : State} (h1 : Step a b) (h2 : Step b c) : Step a c := by
  refine ⟨h2.size.trans h1.size, ?_, ?_⟩
  · intro g
    rcases h1.mono g with e1 | ⟨e1, d1⟩
    · rcases h2.mono g with e2 | ⟨e2, d2⟩
      · exact Or.inl (e2.trans e1)
      · exact Or.inr ⟨e1 ▸ e2, d2⟩
    · exact Or.inr ⟨e1, h2.done' d1⟩
  · obtain ⟨x, hx⟩ := h1.pre
    obtain ⟨y, hy⟩ := h2.pre
    exact ⟨x ++ y, by rw [hy, hx, List.append_assoc]⟩

theorem Step.size_le {st st' : State} (h : Step st st') : st.newGates.size ≤ st'.newGates.size := by
  obtain ⟨x, hx⟩ := h.pre
  have := congrArg List.length hx
  simp only [Array.length_toList, List.length_append] at this
  omega

/-! ### the unique table -/

/-- `unique_map` maps exactly the keys (kind, sorted inputs) of the new gates to their numbers -/
structure UniqInv (st : State) : Prop where
  sound : ∀ key l, lookup key st.unique = some l →
    ∃ k ins, l = Lit.gate false k ∧ st.newGates.toList[k]? = some (key.1, ins) ∧ sortLits ins = key.2
  complete : ∀ k g, st.newGates.toList[k]? = some g →
    lookup (g.1, sortLits g.2) st.unique = some (Lit.gate false k)

theorem lookup_cons (key k : Gate) (v : Lit) (rest : List (Gate × Lit)) :
    lookup key ((k, v) :: rest) = if k = key then some v else lookup key rest := rfl

/-! ### `finish` -/

/-- what `finish` does to the state: entry `index` gets a literal `l`, at most one gate is pushed -/
theorem finish_struct {cfg : Cfg} {c : Circuit} {st st' : State} {index : Nat} {kind : Kind}
    {inputs : List Lit} (hu : UniqInv st) (h : finish cfg c st index kind inputs = .ok st') :
    UniqInv st' ∧ ∃ l, st'.gateMap = st.gateMap.setIfInBounds index l ∧
      ((normalise cfg st.gateMap c.gates.size c.ninputs kind inputs = .fwd l ∧
          st'.newGates = st.newGates) ∨
       (∃ n r k r', normalise cfg st.gateMap c.gates.size c.ninputs kind inputs = .gate n r ∧
          l = (Lit.gate false k).xorB n ∧ st'.newGates.toList[k]? = some (kind, r') ∧
          sortLits r' = sortLits r ∧
          (st'.newGates = st.newGates ∨
            (st'.newGates = st.newGates.push (kind, r) ∧ k = st.newGates.size ∧ r' = r)))) := by
  unfold finish at h
  cases hn : normalise cfg st.gateMap c.gates.size c.ninputs kind inputs with
  | err e => simp [hn] at h
  | panicBitset => simp [hn] at h
  | fwd l =>
    simp only [hn, Except.ok.injEq] at h
    subst h
    exact ⟨⟨hu.sound, hu.complete⟩, l, rfl, Or.inl ⟨rfl, rfl⟩⟩
  | gate n r =>
    simp only [hn] at h
    cases hl : lookup (kind, sortLits r) st.unique with
    | some l =>
      simp only [hl, Except.ok.injEq] at h
      subst h
      obtain ⟨k, ins, e, hk, hs⟩ := hu.sound _ _ hl
      subst e
      exact ⟨⟨hu.sound, hu.complete⟩, _, rfl, Or.inr ⟨n, r, k, ins, rfl, rfl, hk, hs, Or.inl rfl⟩⟩
    | none =>
      simp only [hl, Except.ok.injEq] at h
      subst h
      refine ⟨⟨?_, ?_⟩, _, rfl, Or.inr ⟨n, r, st.newGates.size, r, rfl, rfl, ?_, rfl, Or.inr ⟨rfl, rfl, rfl⟩⟩⟩
      · intro key l hlk
        simp only [lookup_cons] at hlk
        split at hlk
        · rename_i hkey
          simp only [Option.some.injEq] at hlk
          subst hlk
          subst hkey
          exact ⟨st.newGates.size, r, rfl, by simp, rfl⟩
        · obtain ⟨k, ins, e, hk, hs⟩ := hu.sound _ _ hlk
          refine ⟨k, ins, e, ?_, hs⟩
          have hlt : k < st.newGates.toList.length := by
            rcases Nat.lt_or_ge k st.newGates.toList.length with h | h
            · exact h
            · rw [List.getElem?_eq_none h] at hk; cases hk
          simp only [Array.toList_push]
          rw [List.getElem?_append_left hlt]; exact hk
      · intro k g hk
        simp only [Array.toList_push] at hk
        simp only [lookup_cons]
        by_cases hlt : k < st.newGates.toList.length
        · rw [List.getElem?_append_left hlt] at hk
          have := hu.complete k g hk
          split
          · rename_i hkey
            rw [← hkey, hl] at this
            cases this
          · exact this
        · have hge : st.newGates.toList.length ≤ k := Nat.le_of_not_lt hlt
          rw [List.getElem?_append_right hge] at hk
          have hk0 : k - st.newGates.toList.length = 0 := by
            rcases Nat.eq_zero_or_pos (k - st.newGates.toList.length) with h | h
            · exact h
            · rw [List.getElem?_eq_none (show [(kind, r)].length ≤ _ from h)] at hk; cases hk
          rw [hk0] at hk
          simp only [List.getElem?_cons_zero, Option.some.injEq] at hk
          subst hk
          have : k = st.newGates.size := by simp only [Array.length_toList] at hge hk0; omega
          subst this
          simp
      · simp

/-! ### properties of literals that come from the inputs of a gate -/

theorem FromInput.scoped {cfg : Cfg} {gm : Array Lit} {G N n : Nat} {kind : Kind} {inputs : List Lit}
    {x : Lit} (h : FromInput cfg gm G N kind inputs x)
    (hsc : ∀ neg i, Lit.gate neg i ∈ inputs → (gm.getD i Lit.undef).scoped n) : x.scoped n := by
  rcases h.2 with ⟨_, ⟨l, hl, e⟩, _⟩ | ⟨_, l, hl, e, _⟩
  · subst e
    cases l with
    | const b => trivial
    | input m i => trivial
    | gate m i => exact (Lit.scoped_xorB m).mpr (hsc m i hl)
  · subst e
    cases l with
    | const b => trivial
    | input m i => trivial
    | gate m i => exact Lit.scoped_positive.mpr (hsc m i hl)

theorem FromInput.isDone {cfg : Cfg} {c : Circuit} {gm : Array Lit} {kind : Kind} {inputs : List Lit}
    {x : Lit} (h : FromInput cfg gm c.gates.size c.ninputs kind inputs x) (hs : Small c) : x.isDone :=
  isDone_of_known hs h.1

theorem FromInput.idxOk {cfg : Cfg} {gm : Array Lit} {G N : Nat} {kind : Kind} {inputs : List Lit}
    {x : Lit} (h : FromInput cfg gm G N kind inputs x)
    (hok : ∀ neg i, Lit.gate neg i ∈ inputs → IdxOk G (gm.getD i Lit.undef)) : IdxOk G x := by
  rcases h.2 with ⟨_, ⟨l, hl, e⟩, _⟩ | ⟨_, l, hl, e, _⟩
  · subst e; exact IdxOk_mapLit hok hl
  · subst e; exact IdxOk_xorSrc hok hl

/-- conditions 1–4 (and known inputs) for one new gate; conditions 1 and 4 up to the defects -/
structure GateNF (cfg : Cfg) (G N : Nat) (g : Gate) : Prop where
  known : ∀ x ∈ g.2, unknownInput cfg G N x = false
  nf1 : cfg.xorConst = true ∨ g.1 ≠ .xor → ∀ x ∈ g.2, ∀ b, x ≠ Lit.const b
  nf2 : g.1 = .xor → ∀ x ∈ g.2, x.isNeg = false
  nf3 : (g.2.map Lit.var).Nodup
  nf4 : 2 ≤ g.2.length ∨ (g.2 = [] ∧ g.1 = .xor ∧ cfg.xorCancel = false)

theorem FromInput.not_const {cfg : Cfg} {gm : Array Lit} {G N : Nat} {kind : Kind} {inputs : List Lit}
    {x : Lit} (h : FromInput cfg gm G N kind inputs x) (hc : cfg.xorConst = true ∨ kind ≠ .xor)
    (b : Bool) : x ≠ Lit.const b := by
  rcases h.2 with ⟨_, _, h1, h2⟩ | ⟨hk, l, hl, e, hskip⟩
  · cases b
    · exact h2
    · exact h1
  · intro hx
    have hxc : cfg.xorConst = true := by
      rcases hc with h | h
      · exact h
      · exact absurd hk h
    subst e
    cases l with
    | const y => simp [xorSkip, Lit.positive] at hskip
    | input m i => simp [xorSrc, Lit.positive] at hx
    | gate m i =>
      simp only [xorSkip, hxc, Bool.true_and, decide_eq_false_iff_not] at hskip
      simp only [xorSrc] at hx
      apply hskip
      cases hgm : gm.getD i Lit.undef <;> simp [hgm, Lit.positive] at hx ⊢

theorem FromInput.pos {cfg : Cfg} {gm : Array Lit} {G N : Nat} {inputs : List Lit}
    {x : Lit} (h : FromInput cfg gm G N .xor inputs x) : x.isNeg = false := by
  rcases h.2 with ⟨hk, _⟩ | ⟨_, l, _, e, _⟩
  · exact absurd rfl hk
  · subst e; cases xorSrc gm l <;> rfl

theorem normalise_gateNF {cfg : Cfg} {gm : Array Lit} {G N : Nat} {kind : Kind} {inputs : List Lit}
    {n : Bool} {r : List Lit} (h : normalise cfg gm G N kind inputs = .gate n r) :
    GateNF cfg G N (kind, r) := by
  obtain ⟨_, hfrom, h3, h4⟩ := normalise_shape.1 n r h
  refine ⟨fun x hx => (hfrom x hx).1, fun hc x hx b => (hfrom x hx).not_const hc b, ?_, h3, h4⟩
  intro hk x hx
  simp only at hk
  subst hk
  exact (hfrom x hx).pos

/-! ### counting finished gates -/

def doneCount (gm : Array Lit) : Nat := gm.toList.countP (fun l => decide l.isDone)

theorem doneCount_set {gm : Array Lit} {i : Nat} (hi : i < gm.size) (a : Lit) :
    doneCount (gm.setIfInBounds i a) =
      doneCount gm - (if (gm.getD i Lit.undef).isDone then 1 else 0) + (if a.isDone then 1 else 0) := by
  unfold doneCount
  rw [Array.toList_setIfInBounds, List.countP_set (by simpa using hi)]
  have : gm.toList[i]'(by simpa using hi) = gm.getD i Lit.undef := by
    simp [Array.getD_eq_getD_getElem?, hi]
  rw [this]
  simp only [decide_eq_true_eq]

theorem doneCount_lt {gm : Array Lit} {i : Nat} (hi : i < gm.size)
    (hnd : ¬ (gm.getD i Lit.undef).isDone) : doneCount gm < gm.size := by
  unfold doneCount
  have hle : gm.toList.countP (fun l => decide l.isDone) ≤ gm.toList.length := List.countP_le_length
  have hne : gm.toList.countP (fun l => decide l.isDone) ≠ gm.toList.length := by
    intro heq
    have := List.countP_eq_length.mp heq (gm.toList[i]'(by simpa using hi)) (List.getElem_mem _)
    have e : gm.toList[i]'(by simpa using hi) = gm.getD i Lit.undef := by
      simp [Array.getD_eq_getD_getElem?, hi]
    rw [e] at this
    exact hnd (by simpa using this)
  have : gm.toList.length = gm.size := by simp
  omega

/-! ### the structural invariant of the search -/

structure WF (cfg : Cfg) (c : Circuit) (st : State) : Prop where
  size : st.gateMap.size = c.gates.size
  uniq : UniqInv st
  cnt : st.newGates.size ≤ doneCount st.gateMap
  mapScoped : ∀ g, Done st.gateMap g → (st.gateMap.getD g Lit.undef).scoped st.newGates.size
  mapKnown : ∀ g, Done st.gateMap g →
    unknownInput cfg c.gates.size c.ninputs (st.gateMap.getD g Lit.undef) = false
  topo : ∀ (k : Nat) (g : Gate), st.newGates.toList[k]? = some g → ∀ l ∈ g.2, l.scoped k
  nf : ∀ (k : Nat) (g : Gate), st.newGates.toList[k]? = some g → GateNF cfg c.gates.size c.ninputs g
  /-- the finished gates are closed under "input of" and ordered by a rank (finishing time) -/
  acyc : ∃ rank : Nat → Nat, (∀ g, Done st.gateMap g → rank g < doneCount st.gateMap) ∧
    ∀ g, Done st.gateMap g → ∀ neg i, Lit.gate neg i ∈ (c.gates.getD g (.and, [])).2 →
      Done st.gateMap i ∧ rank i < rank g
  /-- the input literals of a finished gate passed the input check (AND/OR: only if all inputs
  are scanned, i.e. with the `bound` repair) -/
  checked : ∀ g, Done st.gateMap g → ∀ n i, Lit.input n i ∈ (c.gates.getD g (.and, [])).2 →
    cfg.bound = true ∨ (c.gates.getD g (.and, [])).1 = .xor →
    unknownInput cfg c.gates.size c.ninputs (Lit.input n i) = false

theorem unknownInput_xorB {cfg : Cfg} {G N : Nat} (l : Lit) (b : Bool) :
    unknownInput cfg G N (l.xorB b) = unknownInput cfg G N l := by
  cases l <;> simp [Lit.xorB, unknownInput]

theorem getElem?_lt_of_some {α} {l : List α} {k : Nat} {a : α} (h : l[k]? = some a) : k < l.length := by
  rcases Nat.lt_or_ge k l.length with h' | h'
  · exact h'
  · rw [List.getElem?_eq_none h'] at h; cases h

theorem finish_wf {cfg : Cfg} {c : Circuit} {st st' : State} {index : Nat} {kind : Kind}
    {inputs : List Lit} (hs : Small c) (hwf : WF cfg c st) (hidx : index < st.gateMap.size)
    (hdisc : st.gateMap.getD index Lit.undef = Lit.discovered)
    (hch : ∀ neg i, Lit.gate neg i ∈ inputs → Done st.gateMap i)
    (hgate : c.gates.getD index (.and, []) = (kind, inputs))
    (h : finish cfg c st index kind inputs = .ok st') :
    WF cfg c st' ∧ Done st'.gateMap index ∧
    (∀ g, g ≠ index → st'.gateMap.getD g Lit.undef = st.gateMap.getD g Lit.undef) ∧
    st'.gateMap.size = st.gateMap.size ∧
    (∃ ext, st'.newGates.toList = st.newGates.toList ++ ext) := by
  obtain ⟨hu', l, hgm, hcase⟩ := finish_struct hwf.uniq h
  have hnd : ¬ (st.gateMap.getD index Lit.undef).isDone := by
    rw [hdisc]; simp [Lit.isDone]
  have hcntlt : st.newGates.size < c.gates.size := by
    have := doneCount_lt hidx hnd
    have := hwf.cnt
    have := hwf.size
    omega
  have hsc : ∀ neg i, Lit.gate neg i ∈ inputs → (st.gateMap.getD i Lit.undef).scoped st.newGates.size :=
    fun neg i hi => hwf.mapScoped i (hch neg i hi)
  have hother : ∀ g, g ≠ index → st'.gateMap.getD g Lit.undef = st.gateMap.getD g Lit.undef := by
    intro g hg
    rw [hgm, getD_setIfInBounds]
    simp [Ne.symm hg]
  have hself : st'.gateMap.getD index Lit.undef = l := by
    rw [hgm, getD_setIfInBounds]; simp [hidx]
  have hsize : st'.gateMap.size = st.gateMap.size := by rw [hgm]; simp
  -- facts about the literal written and the new gate list, by cases
  have key : l.isDone ∧ l.scoped st'.newGates.size ∧
      unknownInput cfg c.gates.size c.ninputs l = false ∧
      st.newGates.size ≤ st'.newGates.size ∧ st'.newGates.size ≤ st.newGates.size + 1 ∧
      (∃ ext, st'.newGates.toList = st.newGates.toList ++ ext) ∧
      (∀ (k : Nat) (g : Gate), st'.newGates.toList[k]? = some g → ∀ x ∈ g.2, x.scoped k) ∧
      (∀ (k : Nat) (g : Gate), st'.newGates.toList[k]? = some g → GateNF cfg c.gates.size c.ninputs g) := by
    rcases hcase with ⟨hn, hng⟩ | ⟨n, r, k, r', hn, hl, hk, _, hng⟩
    · rw [hng]
      refine ⟨?_, ?_, ?_, Nat.le_refl _, Nat.le_succ _, ⟨[], by simp⟩, hwf.topo, hwf.nf⟩
      · rcases normalise_shape.2 l hn with ⟨b, rfl⟩ | ⟨x, n, hx, rfl⟩
        · exact isDone_const b
        · exact (isDone_xorB n).mpr (hx.isDone hs)
      · rcases normalise_shape.2 l hn with ⟨b, rfl⟩ | ⟨x, n, hx, rfl⟩
        · trivial
        · exact (Lit.scoped_xorB n).mpr (hx.scoped hsc)
      · rcases normalise_shape.2 l hn with ⟨b, rfl⟩ | ⟨x, n, hx, rfl⟩
        · rfl
        · rw [unknownInput_xorB]; exact hx.1
    · have hklt := getElem?_lt_of_some hk
      simp only [Array.length_toList] at hklt
      subst hl
      refine ⟨(isDone_xorB n).mpr (isDone_gate _ _), (Lit.scoped_xorB n).mpr hklt, ?_, ?_⟩
      · rw [unknownInput_xorB]; rfl
      · rcases hng with hng | ⟨hng, hk', hr'⟩
        · rw [hng]
          exact ⟨Nat.le_refl _, Nat.le_succ _, ⟨[], by simp⟩, hwf.topo, hwf.nf⟩
        · rw [hng]
          obtain ⟨_, hfrom, _⟩ := normalise_shape.1 n r hn
          refine ⟨by simp, by simp, ⟨[(kind, r)], by simp⟩, ?_, ?_⟩
          · intro k2 g hk2
            simp only [Array.toList_push] at hk2
            by_cases hlt : k2 < st.newGates.toList.length
            · rw [List.getElem?_append_left hlt] at hk2
              exact hwf.topo k2 g hk2
            · have hge : st.newGates.toList.length ≤ k2 := Nat.le_of_not_lt hlt
              rw [List.getElem?_append_right hge] at hk2
              have hlt2 := getElem?_lt_of_some hk2
              simp only [List.length_singleton] at hlt2
              have hk0 : k2 - st.newGates.toList.length = 0 := by omega
              rw [hk0] at hk2
              simp only [List.getElem?_cons_zero, Option.some.injEq] at hk2
              subst hk2
              intro x hx
              apply Lit.scoped_mono (n := st.newGates.size)
              · simp only [Array.length_toList] at hge; exact hge
              · exact (hfrom x hx).scoped hsc
          · intro k2 g hk2
            simp only [Array.toList_push] at hk2
            by_cases hlt : k2 < st.newGates.toList.length
            · rw [List.getElem?_append_left hlt] at hk2
              exact hwf.nf k2 g hk2
            · have hge : st.newGates.toList.length ≤ k2 := Nat.le_of_not_lt hlt
              rw [List.getElem?_append_right hge] at hk2
              have hlt2 := getElem?_lt_of_some hk2
              simp only [List.length_singleton] at hlt2
              have hk0 : k2 - st.newGates.toList.length = 0 := by omega
              rw [hk0] at hk2
              simp only [List.getElem?_cons_zero, Option.some.injEq] at hk2
              subst hk2
              exact normalise_gateNF hn
  obtain ⟨kd, ksc, kkn, kle, kle1, kpre, ktopo, knf⟩ := key
  have hdone' : Done st'.gateMap index := by unfold Done; rw [hself]; exact kd
  have hcount : doneCount st'.gateMap = doneCount st.gateMap + 1 := by
    have := doneCount_set hidx l
    rw [← hgm] at this
    rw [this, if_neg hnd, if_pos kd]
    omega
  have hdone_iff : ∀ g, g ≠ index → (Done st'.gateMap g ↔ Done st.gateMap g) := by
    intro g hg; unfold Done; rw [hother g hg]
  have hnotdone : ¬ Done st.gateMap index := hnd
  -- the normalisation did not fail
  have hnoerr : ∀ e, phase1 cfg st.gateMap c.gates.size c.ninputs kind inputs ≠ .err e := by
    intro e he
    have : normalise cfg st.gateMap c.gates.size c.ninputs kind inputs = .err e := by
      unfold normalise; rw [he]
    rcases hcase with ⟨hn, _⟩ | ⟨n, r, k, r', hn, _⟩ <;> rw [this] at hn <;> cases hn
  refine ⟨⟨hsize.trans hwf.size, hu', ?_, ?_, ?_, ktopo, knf, ?_, ?_⟩, hdone', hother, hsize, kpre⟩
  · -- counting
    have := hwf.cnt
    omega
  · intro g hg
    by_cases hgi : g = index
    · subst hgi; rw [hself]; exact ksc
    · rw [hother g hgi]
      have : Done st.gateMap g := by unfold Done; rw [← hother g hgi]; exact hg
      exact Lit.scoped_mono kle (hwf.mapScoped g this)
  · intro g hg
    by_cases hgi : g = index
    · subst hgi; rw [hself]; exact kkn
    · rw [hother g hgi]
      have : Done st.gateMap g := by unfold Done; rw [← hother g hgi]; exact hg
      exact hwf.mapKnown g this
  · -- rank: the gate just finished gets the number of gates finished before
    obtain ⟨rank, hr1, hr2⟩ := hwf.acyc
    refine ⟨fun x => if x = index then doneCount st.gateMap else rank x, ?_, ?_⟩
    · intro g hg
      rw [hcount]
      by_cases hgi : g = index
      · simp [hgi]
      · simp only [hgi, if_false]
        have := hr1 g ((hdone_iff g hgi).mp hg)
        omega
    · intro g hg neg i hi
      by_cases hgi : g = index
      · rw [hgi, hgate] at hi
        have hdi := hch neg i hi
        have hii : i ≠ index := fun e => hnotdone (e ▸ hdi)
        refine ⟨(hdone_iff i hii).mpr hdi, ?_⟩
        simp only [hii, hgi, if_false, if_true]
        exact hr1 i hdi
      · have hdg := (hdone_iff g hgi).mp hg
        obtain ⟨hdi, hlt⟩ := hr2 g hdg neg i hi
        have hii : i ≠ index := fun e => hnotdone (e ▸ hdi)
        refine ⟨(hdone_iff i hii).mpr hdi, ?_⟩
        simp only [hii, hgi, if_false]
        exact hlt
  · intro g hg n i hi hb
    by_cases hgi : g = index
    · rw [hgi, hgate] at hi hb
      simp only at hi hb
      cases kind with
      | and =>
        have hb' : cfg.bound = true := hb.resolve_right (by simp)
        exact mapAndOr_checked hb' (fun e => hnoerr e) _ hi
      | or =>
        have hb' : cfg.bound = true := hb.resolve_right (by simp)
        exact mapAndOr_checked hb' (fun e => hnoerr e) _ hi
      | xor =>
        have := mapXor_checked (fun e => hnoerr e) _ hi (by simp [xorSkip, Lit.positive])
        simpa [xorSrc, Lit.positive, unknownInput] using this
    · exact hwf.checked g ((hdone_iff g hgi).mp hg) n i hi hb

/-! ### `visitInputs` and `visit` -/

/-- specification of a (recursive) visit function as used by `visitInputs` -/
def VisitSpec (cfg : Cfg) (c : Circuit) (rec : State → Nat → Except Err State) : Prop :=
  ∀ st g st', WF cfg c st → rec st g = .ok st' → WF cfg c st' ∧ Step st st' ∧ Done st'.gateMap g

theorem visitInputs_wf {cfg : Cfg} {c : Circuit} {rec : State → Nat → Except Err State}
    (hrec : VisitSpec cfg c rec) :
    ∀ (ls : List Lit) (st st' : State), WF cfg c st → visitInputs rec st ls = .ok st' →
      WF cfg c st' ∧ Step st st' ∧ ∀ neg i, Lit.gate neg i ∈ ls → Done st'.gateMap i
  | [], st, st', hwf, h => by
    simp only [visitInputs, Except.ok.injEq] at h
    subst h
    exact ⟨hwf, Step.refl _, by simp⟩
  | .const b :: ls, st, st', hwf, h => by
    simp only [visitInputs] at h
    obtain ⟨h1, h2, h3⟩ := visitInputs_wf hrec ls st st' hwf h
    refine ⟨h1, h2, ?_⟩
    intro neg i hi
    rcases List.mem_cons.mp hi with hi | hi
    · cases hi
    · exact h3 neg i hi
  | .input n j :: ls, st, st', hwf, h => by
    simp only [visitInputs] at h
    obtain ⟨h1, h2, h3⟩ := visitInputs_wf hrec ls st st' hwf h
    refine ⟨h1, h2, ?_⟩
    intro neg i hi
    rcases List.mem_cons.mp hi with hi | hi
    · cases hi
    · exact h3 neg i hi
  | .gate n g :: ls, st, st', hwf, h => by
    simp only [visitInputs] at h
    cases hr : rec st g with
    | error e => simp [hr] at h
    | ok st1 =>
      simp only [hr] at h
      obtain ⟨w1, s1, d1⟩ := hrec st g st1 hwf hr
      obtain ⟨h1, h2, h3⟩ := visitInputs_wf hrec ls st1 st' w1 h
      refine ⟨h1, s1.trans h2, ?_⟩
      intro neg i hi
      rcases List.mem_cons.mp hi with hi | hi
      · simp only [Lit.gate.injEq] at hi
        rw [hi.2]
        exact h2.done' d1
      · exact h3 neg i hi

theorem not_isDone_undef : ¬ Lit.undef.isDone := fun h => h.1 rfl
theorem not_isDone_discovered : ¬ Lit.discovered.isDone := fun h => h.2 rfl

theorem visit_succ (cfg : Cfg) (c : Circuit) (fuel : Nat) (st : State) (index : Nat) :
    visit cfg c (fuel + 1) st index =
      if index < st.gateMap.size then
        if st.gateMap.getD index Lit.undef = Lit.discovered then .error (.cycle index)
        else if st.gateMap.getD index Lit.undef ≠ Lit.undef then .ok st
        else
          match visitInputs (visit cfg c fuel)
              { st with gateMap := st.gateMap.setIfInBounds index Lit.discovered }
              (c.gates.getD index (.and, [])).2 with
          | .error e => .error e
          | .ok st2 => finish cfg c st2 index (c.gates.getD index (.and, [])).1
              (c.gates.getD index (.and, [])).2
      else .error .panicIndex := rfl

/-- the state after marking `index` as discovered -/
def mark (st : State) (index : Nat) : State :=
  { st with gateMap := st.gateMap.setIfInBounds index Lit.discovered }

theorem mark_getD (st : State) {index : Nat} (hidx : index < st.gateMap.size) (g : Nat) :
    (mark st index).gateMap.getD g Lit.undef =
      if index = g then Lit.discovered else st.gateMap.getD g Lit.undef := by
  simp only [mark, getD_setIfInBounds]
  by_cases hg : index = g
  · rw [if_pos ⟨hg, hidx⟩, if_pos hg]
  · rw [if_neg (fun h => hg h.1), if_neg hg]

theorem mark_done {st : State} {index : Nat} (hidx : index < st.gateMap.size) {g : Nat}
    (hg : Done (mark st index).gateMap g) : g ≠ index ∧ Done st.gateMap g := by
  unfold Done at hg
  rw [mark_getD st hidx g] at hg
  by_cases hgi : index = g
  · rw [if_pos hgi] at hg; exact absurd hg not_isDone_discovered
  · rw [if_neg hgi] at hg
    exact ⟨fun e => hgi e.symm, hg⟩

theorem mark_wf {cfg : Cfg} {c : Circuit} {st : State} {index : Nat} (hwf : WF cfg c st)
    (hidx : index < st.gateMap.size) (hu : st.gateMap.getD index Lit.undef = Lit.undef) :
    WF cfg c (mark st index) := by
  have hsz1 : (mark st index).gateMap.size = st.gateMap.size := by simp [mark]
  have hcount : doneCount (mark st index).gateMap = doneCount st.gateMap := by
    have := doneCount_set hidx Lit.discovered
    show doneCount (st.gateMap.setIfInBounds index Lit.discovered) = _
    rw [this, hu, if_neg not_isDone_undef, if_neg not_isDone_discovered]
    omega
  have hdone_of : ∀ g, Done st.gateMap g → Done (mark st index).gateMap g := by
    intro g hg
    have hgi : index ≠ g := by
      intro e; subst e
      unfold Done at hg; rw [hu] at hg; exact not_isDone_undef hg
    unfold Done; rw [mark_getD st hidx g, if_neg hgi]; exact hg
  refine ⟨hsz1.trans hwf.size, ⟨hwf.uniq.sound, hwf.uniq.complete⟩, ?_, ?_, ?_, hwf.topo, hwf.nf, ?_, ?_⟩
  · rw [hcount]; exact hwf.cnt
  · intro g hg
    obtain ⟨hne, hd⟩ := mark_done hidx hg
    rw [mark_getD st hidx g, if_neg (fun e => hne e.symm)]
    exact hwf.mapScoped g hd
  · intro g hg
    obtain ⟨hne, hd⟩ := mark_done hidx hg
    rw [mark_getD st hidx g, if_neg (fun e => hne e.symm)]
    exact hwf.mapKnown g hd
  · obtain ⟨rank, hr1, hr2⟩ := hwf.acyc
    refine ⟨rank, ?_, ?_⟩
    · intro g hg; rw [hcount]; exact hr1 g (mark_done hidx hg).2
    · intro g hg neg i hi
      obtain ⟨hdi, hlt⟩ := hr2 g (mark_done hidx hg).2 neg i hi
      exact ⟨hdone_of i hdi, hlt⟩
  · intro g hg n i hi hb
    exact hwf.checked g (mark_done hidx hg).2 n i hi hb

theorem visit_wf {cfg : Cfg} {c : Circuit} (hs : Small c) :
    ∀ fuel, VisitSpec cfg c (visit cfg c fuel)
  | 0 => by intro st g st' _ h; simp [visit] at h
  | fuel + 1 => by
    intro st index st' hwf h
    have ih := visit_wf (cfg := cfg) hs fuel
    rw [visit_succ] at h
    by_cases hidx : index < st.gateMap.size
    · rw [if_pos hidx] at h
      by_cases hd : st.gateMap.getD index Lit.undef = Lit.discovered
      · rw [if_pos hd] at h; cases h
      · rw [if_neg hd] at h
        by_cases hnu : st.gateMap.getD index Lit.undef ≠ Lit.undef
        · rw [if_pos hnu] at h
          simp only [Except.ok.injEq] at h
          subst h
          exact ⟨hwf, Step.refl _, ⟨hnu, hd⟩⟩
        · rw [if_neg hnu] at h
          have hu : st.gateMap.getD index Lit.undef = Lit.undef := Classical.not_not.mp hnu
          have hwf1 := mark_wf hwf hidx hu
          change (match visitInputs (visit cfg c fuel) (mark st index)
              (c.gates.getD index (.and, [])).2 with
            | Except.error e => Except.error e
            | Except.ok st2 => finish cfg c st2 index (c.gates.getD index (.and, [])).1
                (c.gates.getD index (.and, [])).2) = Except.ok st' at h
          cases hvi : visitInputs (visit cfg c fuel) (mark st index)
              (c.gates.getD index (Kind.and, [])).2 with
          | error e => rw [hvi] at h; cases h
          | ok st2 =>
            rw [hvi] at h
            simp only at h
            obtain ⟨hwf2, step12, hch⟩ := visitInputs_wf ih _ _ st2 hwf1 hvi
            have hsz1 : (mark st index).gateMap.size = st.gateMap.size := by simp [mark]
            have hdisc2 : st2.gateMap.getD index Lit.undef = Lit.discovered :=
              step12.disc (by rw [mark_getD st hidx index]; simp)
            have hidx2 : index < st2.gateMap.size := by rw [step12.size, hsz1]; exact hidx
            obtain ⟨hwf', hdone', hother, hsize', hpre'⟩ := finish_wf hs hwf2 hidx2 hdisc2 hch rfl h
            refine ⟨hwf', ⟨?_, ?_, ?_⟩, hdone'⟩
            · rw [hsize', step12.size, hsz1]
            · intro g
              by_cases hgi : g = index
              · subst hgi
                exact Or.inr ⟨hu, hdone'⟩
              · rcases step12.mono g with e | ⟨e, d⟩
                · left
                  rw [hother g hgi, e, mark_getD st hidx g, if_neg (fun e => hgi e.symm)]
                · right
                  rw [mark_getD st hidx g, if_neg (fun e => hgi e.symm)] at e
                  refine ⟨e, ?_⟩
                  unfold Done
                  rw [hother g hgi]
                  exact d
            · obtain ⟨x, hx⟩ := step12.pre
              obtain ⟨y, hy⟩ := hpre'
              exact ⟨x ++ y, by rw [hy, hx]; simp [mark]⟩
    · rw [if_neg hidx] at h; cases h

end OxiddModel.Circuit
