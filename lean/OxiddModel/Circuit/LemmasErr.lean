import OxiddModel.Circuit.LemmasTop

/-!
Errors of the search: the fuel never runs out, an `Err(input)` names a literal that fails the input
check, an `Err(cycle)` names a gate on a cycle that is reachable from the gate the search started
from.
-/
namespace OxiddModel.Circuit

/-! ### fuel -/

def undefCount (gm : Array Lit) : Nat := gm.toList.countP (fun l => decide (l = Lit.undef))

theorem countP_le_of_pointwise {α} (p : α → Bool) : ∀ (l1 l2 : List α), l1.length = l2.length →
    (∀ i (h1 : i < l1.length) (h2 : i < l2.length), p l1[i] = true → p l2[i] = true) →
    l1.countP p ≤ l2.countP p
  | [], [], _, _ => Nat.le_refl _
  | [], _ :: _, h, _ => by simp at h
  | _ :: _, [], h, _ => by simp at h
  | a :: l1, b :: l2, hlen, h => by
    have ih := countP_le_of_pointwise p l1 l2 (by simpa using hlen)
      (fun i h1 h2 hp => by
        have := h (i + 1) (by simp; omega) (by simp; omega)
        simpa using this hp)
    have h0 := h 0 (by simp) (by simp)
    simp only [List.getElem_cons_zero] at h0
    simp only [List.countP_cons]
    by_cases hpa : p a = true
    · rw [if_pos hpa, if_pos (h0 hpa)]; omega
    · rw [if_neg hpa]; split <;> omega

theorem toList_getElem_eq_getD (gm : Array Lit) (i : Nat) (h : i < gm.toList.length) :
    gm.toList[i] = gm.getD i Lit.undef := by
  have hi : i < gm.size := by simpa using h
  simp [Array.getD_eq_getD_getElem?, hi]

theorem Step.undef_le {st st' : State} (h : Step st st') :
    undefCount st'.gateMap ≤ undefCount st.gateMap := by
  unfold undefCount
  apply countP_le_of_pointwise
  · simp [h.size]
  · intro i h1 h2 hp
    rw [toList_getElem_eq_getD] at hp ⊢
    simp only [decide_eq_true_eq] at hp ⊢
    rcases h.mono i with e | ⟨e, d⟩
    · rw [← e]; exact hp
    · exact e

theorem undefCount_le (gm : Array Lit) : undefCount gm ≤ gm.size := by
  unfold undefCount
  have := List.countP_le_length (p := fun l => decide (l = Lit.undef)) (l := gm.toList)
  simpa using this

theorem undefCount_mark {st : State} {index : Nat} (hidx : index < st.gateMap.size)
    (hu : st.gateMap.getD index Lit.undef = Lit.undef) :
    undefCount (mark st index).gateMap + 1 = undefCount st.gateMap := by
  unfold undefCount mark
  simp only
  rw [Array.toList_setIfInBounds, List.countP_set (by simpa using hidx)]
  have e : st.gateMap.toList[index]'(by simpa using hidx) = Lit.undef := by
    rw [toList_getElem_eq_getD]; exact hu
  have hpos : 0 < st.gateMap.toList.countP (fun l => decide (l = Lit.undef)) := by
    apply List.countP_pos_iff.mpr
    exact ⟨_, List.getElem_mem (by simpa using hidx), by simp [e]⟩
  rw [e]
  have hd : decide (Lit.discovered = Lit.undef) = false := by
    simp [Lit.discovered, Lit.undef]
  simp only [decide_true, if_true, hd]
  simp only [Bool.false_eq_true, if_false]
  omega

theorem finish_not_fuel {cfg : Cfg} {c : Circuit} {st : State} {index : Nat} {kind : Kind}
    {inputs : List Lit} : finish cfg c st index kind inputs ≠ .error .fuel := by
  unfold finish
  cases normalise cfg st.gateMap c.gates.size c.ninputs kind inputs with
  | err e => simp
  | panicBitset => simp
  | fwd l => simp
  | gate n r =>
    simp only
    cases lookup (kind, sortLits r) st.unique <;> simp

theorem visitInputs_not_fuel {cfg : Cfg} {c : Circuit} {rec : State → Nat → Except Err State}
    {fuel : Nat} (hspec : VisitSpec cfg c rec)
    (hrec : ∀ st g, WF cfg c st → undefCount st.gateMap < fuel → rec st g ≠ .error .fuel) :
    ∀ (ls : List Lit) (st : State), WF cfg c st → undefCount st.gateMap < fuel →
      visitInputs rec st ls ≠ .error .fuel
  | [], st, _, _ => by simp [visitInputs]
  | .const b :: ls, st, hwf, hf => by
    simp only [visitInputs]; exact visitInputs_not_fuel hspec hrec ls st hwf hf
  | .input n j :: ls, st, hwf, hf => by
    simp only [visitInputs]; exact visitInputs_not_fuel hspec hrec ls st hwf hf
  | .gate n g :: ls, st, hwf, hf => by
    simp only [visitInputs]
    cases hr : rec st g with
    | error e =>
      simp only
      intro he
      simp only [Except.error.injEq] at he
      exact hrec st g hwf hf (he ▸ hr)
    | ok st1 =>
      simp only
      obtain ⟨w1, s1, _⟩ := hspec st g st1 hwf hr
      exact visitInputs_not_fuel hspec hrec ls st1 w1 (Nat.lt_of_le_of_lt s1.undef_le hf)

/-- the fuel suffices as soon as it exceeds the number of `UNDEF` entries -/
theorem visit_not_fuel {cfg : Cfg} {c : Circuit} (hs : Small c) :
    ∀ fuel st index, WF cfg c st → undefCount st.gateMap < fuel →
      visit cfg c fuel st index ≠ .error .fuel
  | 0, _, _, _, h => by omega
  | fuel + 1, st, index, hwf, hf => by
    rw [visit_succ]
    by_cases hidx : index < st.gateMap.size
    · rw [if_pos hidx]
      by_cases hd : st.gateMap.getD index Lit.undef = Lit.discovered
      · rw [if_pos hd]; simp
      · rw [if_neg hd]
        by_cases hnu : st.gateMap.getD index Lit.undef ≠ Lit.undef
        · rw [if_pos hnu]; simp
        · rw [if_neg hnu]
          have hu : st.gateMap.getD index Lit.undef = Lit.undef := Classical.not_not.mp hnu
          have hwf1 := mark_wf hwf hidx hu
          have hcnt := undefCount_mark hidx hu
          show (match visitInputs (visit cfg c fuel) (mark st index)
              (c.gates.getD index (.and, [])).2 with
            | Except.error e => Except.error e
            | Except.ok st2 => finish cfg c st2 index (c.gates.getD index (.and, [])).1
                (c.gates.getD index (.and, [])).2) ≠ Except.error Err.fuel
          have hvi := visitInputs_not_fuel (visit_wf hs fuel)
            (fun st g hw hlt => visit_not_fuel hs fuel st g hw hlt)
            (c.gates.getD index (.and, [])).2 (mark st index) hwf1 (by omega)
          cases hres : visitInputs (visit cfg c fuel) (mark st index)
              (c.gates.getD index (Kind.and, [])).2 with
          | error e =>
            simp only
            intro he
            simp only [Except.error.injEq] at he
            exact hvi (he ▸ hres)
          | ok st2 => exact finish_not_fuel
    · rw [if_neg hidx]; simp

theorem visitRoots_not_fuel {cfg : Cfg} {c : Circuit} (hs : Small c) :
    ∀ (roots : List Lit) (st : State), WF cfg c st → visitRoots cfg c st roots ≠ .error .fuel
  | [], st, _ => by simp [visitRoots]
  | .const b :: rs, st, hwf => by simp only [visitRoots]; exact visitRoots_not_fuel hs rs st hwf
  | .input n i :: rs, st, hwf => by
    simp only [visitRoots]
    split
    · simp
    · exact visitRoots_not_fuel hs rs st hwf
  | .gate n g :: rs, st, hwf => by
    simp only [visitRoots]
    have hlt : undefCount st.gateMap < c.gates.size + 1 := by
      have := undefCount_le st.gateMap
      have := hwf.size
      omega
    cases hv : visit cfg c (c.gates.size + 1) st g with
    | error e =>
      simp only
      intro he
      simp only [Except.error.injEq] at he
      exact visit_not_fuel hs _ st g hwf hlt (he ▸ hv)
    | ok st1 =>
      simp only
      obtain ⟨w1, _, _⟩ := visit_wf hs _ st g st1 hwf hv
      exact visitRoots_not_fuel hs rs st1 w1

/-! ### `Err(input l)`: the literal fails the input check -/

theorem mapAndOr_err {cfg : Cfg} {gm : Array Lit} {G N : Nat} {idn dom : Lit} :
    ∀ {inputs : List Lit} {e : Lit}, mapAndOr cfg gm G N idn dom inputs = .err e →
      unknownInput cfg G N e = true ∧ ∃ l ∈ inputs, e = mapLit gm l
  | [], e, h => by simp [mapAndOr] at h
  | a :: ls, e, h => by
    simp only [mapAndOr] at h
    by_cases hunk : unknownInput cfg G N (mapLit gm a) = true
    · simp only [hunk, if_true, P1.err.injEq] at h
      exact ⟨h ▸ hunk, a, by simp, h.symm⟩
    · simp only [hunk, Bool.false_eq_true, if_false] at h
      split at h
      · cases h
      · cases hrec : mapAndOr cfg gm G N idn dom ls with
        | err e' =>
          simp only [hrec, P1.err.injEq] at h
          obtain ⟨h1, l, hl, h2⟩ := mapAndOr_err hrec
          exact ⟨h ▸ h1, l, List.mem_cons_of_mem _ hl, h ▸ h2⟩
        | dominated => simp [hrec] at h
        | mapped n r =>
          simp only [hrec] at h
          split at h
          · cases h
          · split at h <;> cases h

theorem mapXor_err {cfg : Cfg} {gm : Array Lit} {G N : Nat} :
    ∀ {inputs : List Lit} {e : Lit}, mapXor cfg gm G N inputs = .err e →
      unknownInput cfg G N e = true ∧ ∃ l ∈ inputs, e = (xorSrc gm l).positive
  | [], e, h => by simp [mapXor] at h
  | a :: ls, e, h => by
    simp only [mapXor] at h
    have tail : ∀ e', mapXor cfg gm G N ls = .err e' →
        unknownInput cfg G N e' = true ∧ ∃ l ∈ a :: ls, e' = (xorSrc gm l).positive := by
      intro e' hrec
      obtain ⟨h1, l, hl, h2⟩ := mapXor_err hrec
      exact ⟨h1, l, List.mem_cons_of_mem _ hl, h2⟩
    split at h
    · cases hrec : mapXor cfg gm G N ls with
      | err e' => simp only [hrec, P1.err.injEq] at h; exact h ▸ tail e' hrec
      | dominated => simp [hrec] at h
      | mapped n r => simp [hrec] at h
    · by_cases hunk : unknownInput cfg G N (xorSrc gm a).positive = true
      · simp only [hunk, if_true, P1.err.injEq] at h
        exact ⟨h ▸ hunk, a, by simp, h.symm⟩
      · simp only [hunk, Bool.false_eq_true, if_false] at h
        cases hrec : mapXor cfg gm G N ls with
        | err e' => simp only [hrec, P1.err.injEq] at h; exact h ▸ tail e' hrec
        | dominated => simp [hrec] at h
        | mapped n r => simp [hrec] at h

theorem normalise_err {cfg : Cfg} {gm : Array Lit} {G N : Nat} {kind : Kind} {inputs : List Lit}
    {e : Lit} (h : normalise cfg gm G N kind inputs = .err e) :
    unknownInput cfg G N e = true ∧
      ∃ l ∈ inputs, e = mapLit gm l ∨ e = (xorSrc gm l).positive := by
  unfold normalise at h
  cases hp : phase1 cfg gm G N kind inputs with
  | err e' =>
    simp only [hp, Norm.err.injEq] at h
    subst h
    cases kind with
    | and =>
      obtain ⟨h1, l, hl, h2⟩ := mapAndOr_err hp
      exact ⟨h1, l, hl, Or.inl h2⟩
    | or =>
      obtain ⟨h1, l, hl, h2⟩ := mapAndOr_err hp
      exact ⟨h1, l, hl, Or.inl h2⟩
    | xor =>
      obtain ⟨h1, l, hl, h2⟩ := mapXor_err hp
      exact ⟨h1, l, hl, Or.inr h2⟩
  | dominated => simp [hp] at h
  | mapped n r =>
    simp only [hp] at h
    unfold post at h
    split at h
    · cases h
    · cases hd : dedup G N kind r with
      | panic => simp [hd] at h
      | complement => simp [hd] at h
      | ok q =>
        rw [hd] at h
        match q, h with
        | [], h => simp only at h; split at h <;> cases h
        | [a], h => cases h
        | a :: b :: t, h => cases h

theorem finish_err_input {cfg : Cfg} {c : Circuit} {st : State} {index : Nat} {kind : Kind}
    {inputs : List Lit} {l : Lit} (h : finish cfg c st index kind inputs = .error (.input l)) :
    unknownInput cfg c.gates.size c.ninputs l = true := by
  unfold finish at h
  cases hn : normalise cfg st.gateMap c.gates.size c.ninputs kind inputs with
  | err e =>
    simp only [hn, Except.error.injEq, Err.input.injEq] at h
    exact h ▸ (normalise_err hn).1
  | panicBitset => simp [hn] at h
  | fwd x => simp [hn] at h
  | gate n r =>
    simp only [hn] at h
    cases hl : lookup (kind, sortLits r) st.unique <;> rw [hl] at h <;> cases h

theorem visitInputs_err_input {cfg : Cfg} {c : Circuit} {rec : State → Nat → Except Err State}
    (hrec : ∀ st g l, rec st g = .error (.input l) →
      unknownInput cfg c.gates.size c.ninputs l = true) :
    ∀ (ls : List Lit) (st : State) (l : Lit), visitInputs rec st ls = .error (.input l) →
      unknownInput cfg c.gates.size c.ninputs l = true
  | [], st, l, h => by simp [visitInputs] at h
  | .const b :: ls, st, l, h => by
    simp only [visitInputs] at h; exact visitInputs_err_input hrec ls st l h
  | .input n j :: ls, st, l, h => by
    simp only [visitInputs] at h; exact visitInputs_err_input hrec ls st l h
  | .gate n g :: ls, st, l, h => by
    simp only [visitInputs] at h
    cases hr : rec st g with
    | error e =>
      simp only [hr, Except.error.injEq] at h
      exact hrec st g l (h ▸ hr)
    | ok st1 =>
      simp only [hr] at h
      exact visitInputs_err_input hrec ls st1 l h

theorem visit_err_input {cfg : Cfg} {c : Circuit} :
    ∀ fuel st index l, visit cfg c fuel st index = .error (.input l) →
      unknownInput cfg c.gates.size c.ninputs l = true
  | 0, _, _, _, h => by simp [visit] at h
  | fuel + 1, st, index, l, h => by
    rw [visit_succ] at h
    by_cases hidx : index < st.gateMap.size
    · rw [if_pos hidx] at h
      by_cases hd : st.gateMap.getD index Lit.undef = Lit.discovered
      · rw [if_pos hd] at h; cases h
      · rw [if_neg hd] at h
        by_cases hnu : st.gateMap.getD index Lit.undef ≠ Lit.undef
        · rw [if_pos hnu] at h; cases h
        · rw [if_neg hnu] at h
          change (match visitInputs (visit cfg c fuel) (mark st index)
              (c.gates.getD index (.and, [])).2 with
            | Except.error e => Except.error e
            | Except.ok st2 => finish cfg c st2 index (c.gates.getD index (.and, [])).1
                (c.gates.getD index (.and, [])).2) = Except.error (Err.input l) at h
          cases hvi : visitInputs (visit cfg c fuel) (mark st index)
              (c.gates.getD index (Kind.and, [])).2 with
          | error e =>
            rw [hvi] at h
            simp only [Except.error.injEq] at h
            exact visitInputs_err_input (fun st g l => visit_err_input fuel st g l) _ _ l (h ▸ hvi)
          | ok st2 =>
            rw [hvi] at h
            exact finish_err_input h
    · rw [if_neg hidx] at h; cases h

theorem visitRoots_err_input {cfg : Cfg} {c : Circuit} :
    ∀ (roots : List Lit) (st : State) (l : Lit), visitRoots cfg c st roots = .error (.input l) →
      unknownInput cfg c.gates.size c.ninputs l = true
  | [], st, l, h => by simp [visitRoots] at h
  | .const b :: rs, st, l, h => by
    simp only [visitRoots] at h; exact visitRoots_err_input rs st l h
  | .input n i :: rs, st, l, h => by
    simp only [visitRoots] at h
    split at h
    · rename_i hc
      simp only [Except.error.injEq, Err.input.injEq] at h
      subst h
      simp only [Bool.and_eq_true, decide_eq_true_eq] at hc
      simp [unknownInput, hc.1, hc.2]
    · exact visitRoots_err_input rs st l h
  | .gate n g :: rs, st, l, h => by
    simp only [visitRoots] at h
    cases hv : visit cfg c (c.gates.size + 1) st g with
    | error e =>
      simp only [hv, Except.error.injEq] at h
      exact visit_err_input _ st g l (h ▸ hv)
    | ok st1 =>
      simp only [hv] at h
      exact visitRoots_err_input rs st1 l h

end OxiddModel.Circuit
