import OxiddModel.Circuit.LemmasTop

/-!
Fuel-based evaluation of the source circuit (`evalOld`), and: on the gates `simplify` has
finished, `evalOld` satisfies the defining equations (the finished part is acyclic).
-/
namespace OxiddModel.Circuit

/-- evaluate gate `g` by unfolding its definition `fuel` times (`⊥` when the fuel is used up) -/
def evalFuel (c : Circuit) (σ : Nat → Bool) : Nat → Nat → Bool
  | 0, _ => false
  | f + 1, g => gateVal σ (evalFuel c σ f) (c.gates.getD g (.and, []))

/-- value of gate `g` of the source circuit under `σ` (meaningful on the acyclic part) -/
def evalOld (c : Circuit) (σ : Nat → Bool) (g : Nat) : Bool :=
  evalFuel c σ (c.gates.size + 1) g

theorem litVal_congr_on {σ gv gv' : Nat → Bool} {l : Lit}
    (h : ∀ neg i, l = Lit.gate neg i → gv i = gv' i) : litVal σ gv l = litVal σ gv' l := by
  cases l with
  | const b => rfl
  | input n i => rfl
  | gate n i => simp only [litVal]; rw [h n i rfl]

theorem gateVal_congr_on {σ gv gv' : Nat → Bool} {g : Gate}
    (h : ∀ neg i, Lit.gate neg i ∈ g.2 → gv i = gv' i) : gateVal σ gv g = gateVal σ gv' g := by
  obtain ⟨k, ls⟩ := g
  have hl : ∀ l ∈ ls, litVal σ gv l = litVal σ gv' l :=
    fun l hl => litVal_congr_on (fun neg i e => h neg i (e ▸ hl))
  clear h
  cases k <;> simp only [gateVal]
  · induction ls with
    | nil => rfl
    | cons a t ih =>
      simp only [List.all_cons]
      rw [hl a (by simp), ih (fun l hl' => hl l (List.mem_cons_of_mem _ hl'))]
  · induction ls with
    | nil => rfl
    | cons a t ih =>
      simp only [List.any_cons]
      rw [hl a (by simp), ih (fun l hl' => hl l (List.mem_cons_of_mem _ hl'))]
  · induction ls with
    | nil => rfl
    | cons a t ih =>
      simp only [xorVal]
      rw [hl a (by simp), ih (fun l hl' => hl l (List.mem_cons_of_mem _ hl'))]

/-- on a set `D` of gates that is closed under "input of" and ranked, evaluation stabilises as
soon as the fuel exceeds the rank -/
theorem evalFuel_stable {c : Circuit} {σ : Nat → Bool} {D : Nat → Prop} {rank : Nat → Nat}
    (hD : ∀ g, D g → ∀ neg i, Lit.gate neg i ∈ (c.gates.getD g (.and, [])).2 → D i ∧ rank i < rank g) :
    ∀ n g, D g → rank g < n → ∀ f1 f2, rank g < f1 → rank g < f2 →
      evalFuel c σ f1 g = evalFuel c σ f2 g
  | 0, _, _, h => by omega
  | n + 1, g, hg, _ => by
    intro f1 f2 h1 h2
    match f1, f2, h1, h2 with
    | a + 1, b + 1, h1, h2 =>
      simp only [evalFuel]
      apply gateVal_congr_on
      intro neg i hi
      obtain ⟨hdi, hlt⟩ := hD g hg neg i hi
      exact evalFuel_stable hD n i hdi (by omega) a b (by omega) (by omega)

theorem doneCount_le (gm : Array Lit) : doneCount gm ≤ gm.size := by
  unfold doneCount
  have := List.countP_le_length (p := fun l => decide l.isDone) (l := gm.toList)
  simpa using this

/-- `evalOld` satisfies the defining equation of every finished gate -/
theorem evalOld_consistent {cfg : Cfg} {c : Circuit} {st : State} (hwf : WF cfg c st)
    (σ : Nat → Bool) (g : Nat) (hg : Done st.gateMap g) : ConsistentAt c σ (evalOld c σ) g := by
  obtain ⟨rank, hr1, hr2⟩ := hwf.acyc
  have hbound : ∀ i, Done st.gateMap i → rank i < c.gates.size := by
    intro i hi
    have := hr1 i hi
    have := doneCount_le st.gateMap
    have := hwf.size
    omega
  unfold ConsistentAt evalOld
  show gateVal σ (evalFuel c σ c.gates.size) _ = gateVal σ (evalFuel c σ (c.gates.size + 1)) _
  apply gateVal_congr_on
  intro neg i hi
  obtain ⟨hdi, _⟩ := hr2 g hg neg i hi
  exact evalFuel_stable (D := Done st.gateMap) hr2 (rank i + 1) i hdi (by omega) _ _
    (hbound i hdi) (by have := hbound i hdi; omega)

end OxiddModel.Circuit
