import OxiddModel.Circuit.FindCycle

/-!
# `Circuit::find_cycle`: the depth-first search invariant

Colours: a gate is *white* (not discovered), *grey* (discovered, not finished: on the recursion
stack) or *black* (finished).  Invariant `FcInv`: the black set is closed under gate inputs and
contains no gate that depends on itself.  A call of `inner` that returns `false` blackens its
argument and leaves the grey set as it was; a call that returns `true` either reached a grey gate
or a gate from which a cycle can be reached.
-/
namespace OxiddModel.Circuit

/-! ## lists of marks -/

/-- number of gates not yet discovered: the measure that bounds the recursion depth -/
def undisc (m : Marks) : Nat := m.disc.count false

theorem fc_count_false_set : ∀ (l : List Bool) (i : Nat), i < l.length → l.getD i false = false →
    (l.set i true).count false + 1 = l.count false := by
  intro l
  induction l with
  | nil => intro i hi; simp at hi
  | cons b l ih =>
    intro i hi hg
    cases i with
    | zero =>
      simp at hg; subst hg; simp
    | succ i =>
      simp only [List.set_cons_succ, List.count_cons]
      have := ih i (by simpa using hi) (by simpa using hg)
      omega

theorem fc_getD_set_true (l : List Bool) (i j : Nat) :
    (l.set i true).getD j false = true ↔ (i = j ∧ i < l.length) ∨ l.getD j false = true := by
  rw [List.getD_eq_getElem?_getD, List.getD_eq_getElem?_getD, List.getElem?_set]
  by_cases hij : i = j
  · subst hij
    by_cases hl : i < l.length
    · simp [hl]
    · have : l[i]? = none := List.getElem?_eq_none (Nat.le_of_not_lt hl)
      simp [hl]
  · simp [hij]

theorem fc_getD_replicate_false (n i : Nat) : (List.replicate n false).getD i false = false := by
  rw [List.getD_eq_getElem?_getD, List.getElem?_replicate]
  split <;> rfl

/-! ## colours -/

def FcDisc (m : Marks) (j : Nat) : Prop := m.disc.getD j false = true
def FcFin (m : Marks) (j : Nat) : Prop := m.fin.getD j false = true
/-- on the recursion stack -/
def FcGrey (m : Marks) (j : Nat) : Prop := FcDisc m j ∧ ¬ FcFin m j

structure FcInv (c : Circuit) (m : Marks) : Prop where
  dlen : m.disc.length = c.gates.size
  flen : m.fin.length = c.gates.size
  sub : ∀ j, FcFin m j → FcDisc m j
  closed : ∀ j k, FcFin m j → GateDep c j k → FcFin m k
  nocyc : ∀ j, FcFin m j → ¬ DependsOn c j j
  /-- the finishing order is a topological rank of the black set -/
  ranked : ∃ (rank : Nat → Nat) (M : Nat), ∀ j, FcFin m j →
    rank j < M ∧ ∀ k, GateDep c j k → rank k < rank j

/-- what a call of `inner` that returns `false` guarantees -/
structure FcPostF (c : Circuit) (m m' : Marks) : Prop where
  inv : FcInv c m'
  grey : ∀ j, FcGrey m' j ↔ FcGrey m j
  mono : ∀ j, FcFin m j → FcFin m' j
  meas : undisc m' ≤ undisc m

/-- what a call `inner(k)` that returns `true` guarantees -/
def FcPostT (c : Circuit) (m : Marks) (k : Nat) : Prop :=
  (∃ g, FcGrey m g ∧ DependsOnR c k g) ∨ CycleFrom c k

def InnerSpec (c : Circuit) (m : Marks) (index : Nat) : Except FcErr (Bool × Marks) → Prop
  | .error _ => False
  | .ok (false, m') => FcPostF c m m' ∧ FcFin m' index
  | .ok (true, _) => FcPostT c m index

def InputsSpec (c : Circuit) (m : Marks) (ls : List Lit) : Except FcErr (Bool × Marks) → Prop
  | .error _ => False
  | .ok (false, m') => FcPostF c m m' ∧ ∀ neg j, Lit.gate neg j ∈ ls → FcFin m' j
  | .ok (true, _) => ∃ neg k, Lit.gate neg k ∈ ls ∧ FcPostT c m k

theorem FcPostF.refl {c : Circuit} {m : Marks} (h : FcInv c m) : FcPostF c m m :=
  ⟨h, fun _ => Iff.rfl, fun _ h => h, Nat.le_refl _⟩

theorem FcPostF.trans {c : Circuit} {m m1 m2 : Marks} (h1 : FcPostF c m m1) (h2 : FcPostF c m1 m2) :
    FcPostF c m m2 :=
  ⟨h2.inv, fun j => (h2.grey j).trans (h1.grey j), fun j h => h2.mono j (h1.mono j h),
    Nat.le_trans h2.meas h1.meas⟩

/-! ## the dependency relation -/

theorem DependsOn.src_lt {c : Circuit} {i j : Nat} (h : DependsOn c i j) : i < c.gates.size := by
  cases h with
  | single e => exact e.1
  | step e _ => exact e.1

theorem DependsOn.trans {c : Circuit} {i j k : Nat} (h1 : DependsOn c i j) (h2 : DependsOn c j k) :
    DependsOn c i k := by
  induction h1 with
  | single e => exact .step e h2
  | step e _ ih => exact .step e (ih h2)

theorem DependsOn.of_edge_r {c : Circuit} {i j k : Nat} (e : GateDep c i j) (h : DependsOnR c j k) :
    DependsOn c i k := by
  cases h with
  | inl h => subst h; exact .single e
  | inr h => exact .step e h

theorem CycleFrom.of_edge {c : Circuit} {i j : Nat} (e : GateDep c i j) (h : CycleFrom c j) :
    CycleFrom c i := by
  obtain ⟨x, hx, hc⟩ := h
  exact ⟨x, Or.inr (DependsOn.of_edge_r e hx), hc⟩

theorem CycleFrom.lt {c : Circuit} {i : Nat} (h : CycleFrom c i) : i < c.gates.size := by
  obtain ⟨x, hx, hc⟩ := h
  cases hx with
  | inl h => subst h; exact hc.src_lt
  | inr h => exact h.src_lt

/-- the black set is closed under the dependency relation -/
theorem FcInv.closed_plus {c : Circuit} {m : Marks} (h : FcInv c m) {j k : Nat}
    (hd : DependsOn c j k) : FcFin m j → FcFin m k := by
  induction hd with
  | single e => intro hj; exact h.closed _ _ hj e
  | step e _ ih => intro hj; exact ih (h.closed _ _ hj e)

/-- no cycle can be reached from a black gate -/
theorem FcInv.no_cycleFrom {c : Circuit} {m : Marks} (h : FcInv c m) {j : Nat} (hj : FcFin m j) :
    ¬ CycleFrom c j := by
  intro ⟨x, hx, hc⟩
  have hfx : FcFin m x := by
    cases hx with
    | inl h' => subst h'; exact hj
    | inr h' => exact h.closed_plus h' hj
  exact h.nocyc x hfx hc

/-! ## the loop over the inputs of one gate -/

theorem fcInputs_spec {c : Circuit} {rc : Marks → Nat → Except FcErr (Bool × Marks)} {bnd : Nat}
    (hrc : ∀ (m : Marks) (g : Nat), FcInv c m → undisc m ≤ bnd → g < c.gates.size →
      InnerSpec c m g (rc m g)) :
    ∀ (ls : List Lit) (m : Marks), (∀ neg j, Lit.gate neg j ∈ ls → j < c.gates.size) →
      FcInv c m → undisc m ≤ bnd → InputsSpec c m ls (fcInputs rc m ls) := by
  intro ls
  induction ls with
  | nil =>
    intro m _ hinv _
    simp only [fcInputs, InputsSpec]
    exact ⟨FcPostF.refl hinv, fun _ _ h => by simp at h⟩
  | cons l ls ih =>
    intro m hls hinv hb
    have hrest : ∀ neg j, Lit.gate neg j ∈ ls → j < c.gates.size :=
      fun neg j h => hls neg j (List.mem_cons_of_mem _ h)
    have lift : InputsSpec c m ls (fcInputs rc m ls) → InputsSpec c m (l :: ls) (fcInputs rc m ls) →
        InputsSpec c m (l :: ls) (fcInputs rc m ls) := fun _ h => h
    cases l with
    | const b =>
      simp only [fcInputs]
      have h := ih m hrest hinv hb
      generalize fcInputs rc m ls = r at h ⊢
      match r, h with
      | .ok (false, m'), h =>
        refine ⟨h.1, fun neg j hj => ?_⟩
        cases hj with
        | tail _ hj => exact h.2 neg j hj
      | .ok (true, m'), h =>
        obtain ⟨neg, k, hk, hp⟩ := h
        exact ⟨neg, k, List.mem_cons_of_mem _ hk, hp⟩
    | input ng i =>
      simp only [fcInputs]
      have h := ih m hrest hinv hb
      generalize fcInputs rc m ls = r at h ⊢
      match r, h with
      | .ok (false, m'), h =>
        refine ⟨h.1, fun neg j hj => ?_⟩
        cases hj with
        | tail _ hj => exact h.2 neg j hj
      | .ok (true, m'), h =>
        obtain ⟨neg, k, hk, hp⟩ := h
        exact ⟨neg, k, List.mem_cons_of_mem _ hk, hp⟩
    | gate ng g =>
      simp only [fcInputs]
      have hg : g < c.gates.size := hls ng g (List.mem_cons_self ..)
      have h1 := hrc m g hinv hb hg
      generalize rc m g = r1 at h1 ⊢
      match r1, h1 with
      | .ok (true, m1), h1 =>
        exact ⟨ng, g, List.mem_cons_self .., h1⟩
      | .ok (false, m1), h1 =>
        obtain ⟨hp1, hfin1⟩ := h1
        dsimp only
        have h2 := ih m1 hrest hp1.inv (Nat.le_trans hp1.meas hb)
        generalize fcInputs rc m1 ls = r2 at h2 ⊢
        match r2, h2 with
        | .ok (false, m2), h2 =>
          refine ⟨hp1.trans h2.1, fun neg j hj => ?_⟩
          cases hj with
          | head => exact h2.1.mono _ hfin1
          | tail _ hj => exact h2.2 neg j hj
        | .ok (true, m2), h2 =>
          obtain ⟨neg, k, hk, hp⟩ := h2
          refine ⟨neg, k, List.mem_cons_of_mem _ hk, ?_⟩
          cases hp with
          | inl hp =>
            obtain ⟨x, hx, hr⟩ := hp
            exact Or.inl ⟨x, (hp1.grey x).1 hx, hr⟩
          | inr hp => exact Or.inr hp

/-! ## `inner` -/

theorem fcInner_spec {c : Circuit} (hw : GateRefs c) :
    ∀ (fuel : Nat) (m : Marks) (index : Nat), FcInv c m → undisc m < fuel →
      index < c.gates.size → InnerSpec c m index (fcInner c fuel m index) := by
  intro fuel
  induction fuel with
  | zero => intro m index _ h _; omega
  | succ fuel ih =>
    intro m index hinv hfuel hidx
    have hins : ∀ neg j, Lit.gate neg j ∈ (c.gates.getD index (.and, [])).2 →
        j < c.gates.size := hw index hidx
    have hedge : ∀ neg j, Lit.gate neg j ∈ (c.gates.getD index (.and, [])).2 →
        GateDep c index j := fun neg j h => ⟨hidx, neg, h⟩
    have hback : ∀ k, GateDep c index k →
        ∃ neg, Lit.gate neg k ∈ (c.gates.getD index (.and, [])).2 := fun _ e => e.2
    rw [fcInner]
    generalize (c.gates.getD index (.and, [])).2 = ins at hins hedge hback ⊢
    split
    · -- finished
      rename_i hfin
      exact ⟨FcPostF.refl hinv, hfin⟩
    · rename_i hfin
      split
      · -- discovered: on the stack
        rename_i hdisc
        exact Or.inl ⟨index, ⟨hdisc, hfin⟩, Or.inl rfl⟩
      · rename_i hdisc
        split
        · omega
        · -- white
          have hd : m.disc.getD index false = false := by simpa using hdisc
          have hcount := fc_count_false_set m.disc index (by rw [hinv.dlen]; exact hidx) hd
          -- the marks after `visited.insert(index * 2)`
          generalize hm1 : ({ m with disc := m.disc.set index true } : Marks) = m1
          have hm1d : m1.disc = m.disc.set index true := by subst hm1; rfl
          have hm1f : m1.fin = m.fin := by subst hm1; rfl
          have hdisc1 : ∀ j, FcDisc m1 j ↔ (j = index ∨ FcDisc m j) := by
            intro j
            unfold FcDisc
            rw [hm1d, fc_getD_set_true]
            constructor
            · rintro (⟨h, _⟩ | h)
              · exact Or.inl h.symm
              · exact Or.inr h
            · rintro (h | h)
              · exact Or.inl ⟨h.symm, by rw [hinv.dlen]; exact hidx⟩
              · exact Or.inr h
          have hfin1 : ∀ j, FcFin m1 j ↔ FcFin m j := by
            intro j; unfold FcFin; rw [hm1f]
          have hgrey1 : ∀ j, FcGrey m1 j ↔ (j = index ∨ FcGrey m j) := by
            intro j
            unfold FcGrey
            rw [hdisc1, hfin1]
            constructor
            · rintro ⟨h | h, hf⟩
              · exact Or.inl h
              · exact Or.inr ⟨h, hf⟩
            · rintro (h | ⟨h, hf⟩)
              · subst h; exact ⟨Or.inl rfl, hfin⟩
              · exact ⟨Or.inr h, hf⟩
          have hinv1 : FcInv c m1 := by
            refine ⟨?_, ?_, ?_, ?_, ?_, ?_⟩
            · rw [hm1d, List.length_set]; exact hinv.dlen
            · rw [hm1f]; exact hinv.flen
            · intro j hj; exact (hdisc1 j).2 (Or.inr (hinv.sub j ((hfin1 j).1 hj)))
            · intro j k hj e; exact (hfin1 k).2 (hinv.closed j k ((hfin1 j).1 hj) e)
            · intro j hj; exact hinv.nocyc j ((hfin1 j).1 hj)
            · obtain ⟨rank, M, hr⟩ := hinv.ranked
              exact ⟨rank, M, fun j hj => hr j ((hfin1 j).1 hj)⟩
          have hu1 : undisc m1 + 1 = undisc m := by unfold undisc; rw [hm1d]; exact hcount
          have h1 := fcInputs_spec (c := c) (rc := fcInner c fuel) (bnd := undisc m1)
            (fun m' g hi hb hg => ih m' g hi (by omega) hg)
            ins m1 hins hinv1 (Nat.le_refl _)
          dsimp only
          generalize fcInputs (fcInner c fuel) m1 ins = r1 at h1 ⊢
          match r1, h1 with
          | .ok (true, m'), h1 =>
            obtain ⟨neg, k, hk, hp⟩ := h1
            have e : GateDep c index k := hedge neg k hk
            cases hp with
            | inl hp =>
              obtain ⟨g, hg, hr⟩ := hp
              cases (hgrey1 g).1 hg with
              | inl hgi =>
                subst hgi
                exact Or.inr ⟨g, Or.inl rfl, DependsOn.of_edge_r e hr⟩
              | inr hgm => exact Or.inl ⟨g, hgm, Or.inr (DependsOn.of_edge_r e hr)⟩
            | inr hp => exact Or.inr (CycleFrom.of_edge e hp)
          | .ok (false, m'), h1 =>
            obtain ⟨hp, hch⟩ := h1
            dsimp only
            generalize hm2 : ({ m' with fin := m'.fin.set index true } : Marks) = m2
            have hm2d : m2.disc = m'.disc := by subst hm2; rfl
            have hm2f : m2.fin = m'.fin.set index true := by subst hm2; rfl
            have hfin2 : ∀ j, FcFin m2 j ↔ (j = index ∨ FcFin m' j) := by
              intro j
              unfold FcFin
              rw [hm2f, fc_getD_set_true]
              constructor
              · rintro (⟨h, _⟩ | h)
                · exact Or.inl h.symm
                · exact Or.inr h
              · rintro (h | h)
                · exact Or.inl ⟨h.symm, by rw [hp.inv.flen]; exact hidx⟩
                · exact Or.inr h
            have hdisc2 : ∀ j, FcDisc m2 j ↔ FcDisc m' j := by
              intro j; unfold FcDisc; rw [hm2d]
            have hgi' : FcGrey m' index := (hp.grey index).2 ((hgrey1 index).2 (Or.inl rfl))
            have hchild : ∀ k, GateDep c index k → FcFin m' k := fun k e => by
              obtain ⟨neg, hk⟩ := hback k e
              exact hch neg k hk
            have hnotgrey : ¬ FcGrey m index := fun h => hdisc h.1
            refine ⟨⟨⟨?_, ?_, ?_, ?_, ?_, ?_⟩, ?_, ?_, ?_⟩, (hfin2 index).2 (Or.inl rfl)⟩
            · rw [hm2d]; exact hp.inv.dlen
            · rw [hm2f, List.length_set]; exact hp.inv.flen
            · intro j hj
              rw [hdisc2]
              cases (hfin2 j).1 hj with
              | inl h => subst h; exact hgi'.1
              | inr h => exact hp.inv.sub j h
            · intro j k hj e
              rw [hfin2]
              cases (hfin2 j).1 hj with
              | inl h => subst h; exact Or.inr (hchild k e)
              | inr h => exact Or.inr (hp.inv.closed j k h e)
            · intro j hj hcyc
              cases (hfin2 j).1 hj with
              | inl h =>
                subst h
                -- a cycle through `index` would make `index` black before it is blackened
                have : FcFin m' j := by
                  cases hcyc with
                  | single e => exact hchild _ e
                  | step e hr => exact hp.inv.closed_plus hr (hchild _ e)
                exact hgi'.2 this
              | inr h => exact hp.inv.nocyc j h hcyc
            · obtain ⟨rank, M, hr⟩ := hp.inv.ranked
              refine ⟨fun x => if x = index then M else rank x, M + 1, ?_⟩
              have hne : ∀ k, FcFin m' k → k ≠ index := fun k hk h => hgi'.2 (h ▸ hk)
              intro j hj
              cases (hfin2 j).1 hj with
              | inl h =>
                subst h
                refine ⟨by simp, fun k e => ?_⟩
                have hk := hchild k e
                have := (hr k hk).1
                simp only [if_neg (hne k hk)]
                exact this
              | inr h =>
                have hj' := hr j h
                refine ⟨by simp only [if_neg (hne j h)]; omega, fun k e => ?_⟩
                have hk := hp.inv.closed j k h e
                simp only [if_neg (hne k hk), if_neg (hne j h)]
                exact hj'.2 k e
            · intro j
              unfold FcGrey
              rw [hdisc2, hfin2]
              constructor
              · rintro ⟨hd', hf'⟩
                have hg' : FcGrey m' j := ⟨hd', fun h => hf' (Or.inr h)⟩
                cases (hgrey1 j).1 ((hp.grey j).1 hg') with
                | inl h => exact absurd (Or.inl h) hf'
                | inr h => exact h
              · intro hg
                have hg' : FcGrey m' j := (hp.grey j).2 ((hgrey1 j).2 (Or.inr hg))
                refine ⟨hg'.1, ?_⟩
                rintro (h | h)
                · subst h; exact hnotgrey hg
                · exact hg'.2 h
            · intro j hj
              exact (hfin2 j).2 (Or.inr (hp.mono j ((hfin1 j).2 hj)))
            · have : undisc m2 = undisc m' := by unfold undisc; rw [hm2d]
              have := hp.meas
              omega

/-! ## the outer loop -/

def RootsSpec (c : Circuit) : Except FcErr (Option Lit) → Prop
  | .error _ => False
  | .ok none => Acyclic c ∧
      ∃ rank : Nat → Nat, ∀ i k, GateDep c i k → rank k < rank i
  | .ok (some l) => ∃ i, l = .gate false i ∧ CycleFrom c i ∧ ∀ j, j < i → ¬ CycleFrom c j

theorem undisc_le (m : Marks) : undisc m ≤ m.disc.length := List.count_le_length

theorem fcRoots_spec {c : Circuit} (hw : GateRefs c) :
    ∀ (n index : Nat) (m : Marks), index + n = c.gates.size → FcInv c m →
      (∀ j, ¬ FcGrey m j) → (∀ j, j < index → FcFin m j) →
      RootsSpec c (fcRoots c (c.gates.size + 1) n index m) := by
  intro n
  induction n with
  | zero =>
    intro index m hi hinv _ hall
    simp only [fcRoots, RootsSpec]
    refine ⟨fun i hc => hinv.nocyc i (hall i (by have := hc.src_lt; omega)) hc, ?_⟩
    obtain ⟨rank, M, hr⟩ := hinv.ranked
    exact ⟨rank, fun i k e => (hr i (hall i (by have := e.1; omega))).2 k e⟩
  | succ n ih =>
    intro index m hi hinv hng hall
    simp only [fcRoots]
    have hu : undisc m < c.gates.size + 1 := by
      have := undisc_le m
      rw [hinv.dlen] at this
      omega
    have h1 := fcInner_spec hw (c.gates.size + 1) m index hinv hu (by omega)
    generalize fcInner c (c.gates.size + 1) m index = r at h1 ⊢
    match r, h1 with
    | .ok (true, m'), h1 =>
      refine ⟨index, rfl, ?_, fun j hj => hinv.no_cycleFrom (hall j hj)⟩
      cases h1 with
      | inl h => obtain ⟨g, hg, _⟩ := h; exact absurd hg (hng g)
      | inr h => exact h
    | .ok (false, m'), h1 =>
      obtain ⟨hp, hf⟩ := h1
      refine ih (index + 1) m' (by omega) hp.inv (fun j hj => hng j ((hp.grey j).1 hj)) ?_
      intro j hj
      by_cases hji : j = index
      · subst hji; exact hf
      · exact hp.mono j (hall j (by omega))

theorem fcInv_init (c : Circuit) : FcInv c (Marks.init c.gates.size) := by
  have hf : ∀ j, ¬ FcFin (Marks.init c.gates.size) j := by
    intro j h
    unfold FcFin Marks.init at h
    rw [fc_getD_replicate_false] at h
    cases h
  exact ⟨by simp [Marks.init], by simp [Marks.init], fun j h => absurd h (hf j),
    fun j _ h _ => absurd h (hf j), fun j h => absurd h (hf j),
    ⟨fun _ => 0, 0, fun j h => absurd h (hf j)⟩⟩

theorem findCycle_rootsSpec {c : Circuit} (hw : GateRefs c) : RootsSpec c (findCycle c) := by
  unfold findCycle
  refine fcRoots_spec hw c.gates.size 0 _ (by omega) (fcInv_init c) ?_ (fun j hj => by omega)
  intro j h
  have := h.1
  unfold FcDisc Marks.init at this
  rw [fc_getD_replicate_false] at this
  cases this

/-! ## the fuel is never exhausted — for every circuit, also with dangling gate references -/

def MeasSpec (G : Nat) (m : Marks) : Except FcErr (Bool × Marks) → Prop
  | .error e => e = .panicIndex
  | .ok (_, m') => m'.disc.length = G ∧ undisc m' ≤ undisc m

theorem fcInputs_meas {G : Nat} {rc : Marks → Nat → Except FcErr (Bool × Marks)} {bnd : Nat}
    (hrc : ∀ (m : Marks) (g : Nat), m.disc.length = G → undisc m ≤ bnd → MeasSpec G m (rc m g)) :
    ∀ (ls : List Lit) (m : Marks), m.disc.length = G → undisc m ≤ bnd →
      MeasSpec G m (fcInputs rc m ls) := by
  intro ls
  induction ls with
  | nil => intro m hl _; exact ⟨hl, Nat.le_refl _⟩
  | cons l ls ih =>
    intro m hl hb
    cases l with
    | const b => simp only [fcInputs]; exact ih m hl hb
    | input ng i => simp only [fcInputs]; exact ih m hl hb
    | gate ng g =>
      simp only [fcInputs]
      have h1 := hrc m g hl hb
      generalize rc m g = r1 at h1 ⊢
      match r1, h1 with
      | .error e, h1 => exact h1
      | .ok (true, m1), h1 => exact h1
      | .ok (false, m1), h1 =>
        dsimp only
        have h2 := ih m1 h1.1 (Nat.le_trans h1.2 hb)
        generalize fcInputs rc m1 ls = r2 at h2 ⊢
        match r2, h2 with
        | .error e, h2 => exact h2
        | .ok (b, m2), h2 => exact ⟨h2.1, Nat.le_trans h2.2 h1.2⟩

theorem fcInner_meas (c : Circuit) :
    ∀ (fuel : Nat) (m : Marks) (index : Nat), m.disc.length = c.gates.size → undisc m < fuel →
      MeasSpec c.gates.size m (fcInner c fuel m index) := by
  intro fuel
  induction fuel with
  | zero => intro m index _ h; omega
  | succ fuel ih =>
    intro m index hl hfuel
    rw [fcInner]
    generalize (c.gates.getD index (.and, [])).2 = ins
    split
    · exact ⟨hl, Nat.le_refl _⟩
    · split
      · exact ⟨hl, Nat.le_refl _⟩
      · rename_i hfin hdisc
        split
        · rfl
        · rename_i hlt
          have hd : m.disc.getD index false = false := by simpa using hdisc
          have hcount := fc_count_false_set m.disc index (by omega) hd
          generalize hm1 : ({ m with disc := m.disc.set index true } : Marks) = m1
          have hm1d : m1.disc = m.disc.set index true := by subst hm1; rfl
          have hl1 : m1.disc.length = c.gates.size := by rw [hm1d, List.length_set]; exact hl
          have hu1 : undisc m1 + 1 = undisc m := by unfold undisc; rw [hm1d]; exact hcount
          have h1 := fcInputs_meas (G := c.gates.size) (rc := fcInner c fuel) (bnd := undisc m1)
            (fun m' g hl' hb => ih m' g hl' (by omega)) ins m1 hl1 (Nat.le_refl _)
          dsimp only
          generalize fcInputs (fcInner c fuel) m1 ins = r1 at h1 ⊢
          match r1, h1 with
          | .error e, h1 => exact h1
          | .ok (true, m'), h1 => exact ⟨h1.1, by have := h1.2; omega⟩
          | .ok (false, m'), h1 =>
            refine ⟨h1.1, ?_⟩
            have : undisc { m' with fin := m'.fin.set index true } = undisc m' := rfl
            have := h1.2
            omega

theorem fcRoots_no_fuel (c : Circuit) :
    ∀ (n index : Nat) (m : Marks), m.disc.length = c.gates.size →
      fcRoots c (c.gates.size + 1) n index m ≠ .error .fuel := by
  intro n
  induction n with
  | zero => intro index m _ h; cases h
  | succ n ih =>
    intro index m hl
    rw [fcRoots]
    have hu : undisc m < c.gates.size + 1 := by
      have := undisc_le m
      omega
    have h1 := fcInner_meas c (c.gates.size + 1) m index hl hu
    generalize fcInner c (c.gates.size + 1) m index = r at h1 ⊢
    match r, h1 with
    | .error e, h1 => intro h; injection h with h; rw [h] at h1; cases h1
    | .ok (true, m'), _ => intro h; cases h
    | .ok (false, m'), h1 => exact ih (index + 1) m' h1.1

end OxiddModel.Circuit
