import OxiddModel.Circuit.Sem

/-!
Phase 1 of the per-gate normalisation (`mapAndOr`, `mapXor`): semantics and shape of the result.
-/
namespace OxiddModel.Circuit

/-- the gate map is semantically right for the gate inputs occurring in `inputs`:
`w` values the new gates, `v` the old ones -/
def MapOk (σ v w : Nat → Bool) (gm : Array Lit) (inputs : List Lit) : Prop :=
  ∀ neg i, Lit.gate neg i ∈ inputs → litVal σ w (gm.getD i Lit.undef) = v i

theorem MapOk.tail {σ v w gm l ls} (h : MapOk σ v w gm (l :: ls)) : MapOk σ v w gm ls :=
  fun neg i hi => h neg i (List.mem_cons_of_mem _ hi)

theorem mapLit_val {σ v w gm l ls} (h : MapOk σ v w gm (l :: ls)) :
    litVal σ w (mapLit gm l) = litVal σ v l := by
  cases l with
  | const b => rfl
  | input neg i => rfl
  | gate neg i =>
    show litVal σ w ((gm.getD i Lit.undef).xorB neg) = _
    rw [litVal_xorB, h neg i (by simp)]; rfl

/-! ### AND -/

theorem mapAndOr_and_sem {cfg : Cfg} {σ v w : Nat → Bool} {gm : Array Lit} {G N : Nat} :
    ∀ {inputs : List Lit}, MapOk σ v w gm inputs →
    (mapAndOr cfg gm G N (.const true) (.const false) inputs = .dominated →
      inputs.all (litVal σ v) = false) ∧
    (∀ n r, mapAndOr cfg gm G N (.const true) (.const false) inputs = .mapped n r →
      r.all (litVal σ w) = inputs.all (litVal σ v))
  | [], _ => by simp [mapAndOr]
  | l :: ls, h => by
    have hl := mapLit_val h
    obtain ⟨ihd, ihm⟩ := mapAndOr_and_sem (cfg := cfg) (G := G) (N := N) h.tail
    simp only [mapAndOr, List.all_cons, ← hl]
    generalize mapLit gm l = l' at *
    split
    · simp
    · split
      · rename_i hd
        simp [hd.1, litVal]
      · cases hrec : mapAndOr cfg gm G N (.const true) (.const false) ls with
        | err e => simp
        | dominated => simp [ihd hrec]
        | mapped n r =>
          have := ihm n r hrec
          simp only
          split
          · rename_i hd; simp [hd, litVal]
          · split
            · rename_i hi; simp [hi, litVal, ← this]
            · simp [← this]

/-! ### OR -/

theorem mapAndOr_or_sem {cfg : Cfg} {σ v w : Nat → Bool} {gm : Array Lit} {G N : Nat} :
    ∀ {inputs : List Lit}, MapOk σ v w gm inputs →
    (mapAndOr cfg gm G N (.const false) (.const true) inputs = .dominated →
      inputs.any (litVal σ v) = true) ∧
    (∀ n r, mapAndOr cfg gm G N (.const false) (.const true) inputs = .mapped n r →
      r.any (litVal σ w) = inputs.any (litVal σ v))
  | [], _ => by simp [mapAndOr]
  | l :: ls, h => by
    have hl := mapLit_val h
    obtain ⟨ihd, ihm⟩ := mapAndOr_or_sem (cfg := cfg) (G := G) (N := N) h.tail
    simp only [mapAndOr, List.any_cons, ← hl]
    generalize mapLit gm l = l' at *
    split
    · simp
    · split
      · rename_i hd
        simp [hd.1, litVal]
      · cases hrec : mapAndOr cfg gm G N (.const false) (.const true) ls with
        | err e => simp
        | dominated => simp [ihd hrec]
        | mapped n r =>
          have := ihm n r hrec
          simp only
          split
          · rename_i hd; simp [hd, litVal]
          · split
            · rename_i hi; simp [hi, litVal, ← this]
            · simp [← this]

/-- shape of the mapped list of an AND/OR gate: images under the gate map that are neither the
identity nor the dominator and pass the input check -/
theorem mapAndOr_mem {cfg : Cfg} {gm : Array Lit} {G N : Nat} {idn dom : Lit} :
    ∀ {inputs : List Lit} {n : Bool} {r : List Lit},
    mapAndOr cfg gm G N idn dom inputs = .mapped n r →
    n = false ∧ ∀ x ∈ r, (∃ l ∈ inputs, x = mapLit gm l) ∧ x ≠ idn ∧ x ≠ dom ∧
      unknownInput cfg G N x = false
  | [], n, r, h => by
    simp only [mapAndOr, P1.mapped.injEq] at h
    simp [← h.1, ← h.2]
  | l :: ls, n, r, h => by
    simp only [mapAndOr] at h
    split at h
    · cases h
    · rename_i hunk
      split at h
      · cases h
      · revert h
        have ih := @mapAndOr_mem cfg gm G N idn dom ls
        cases hrec : mapAndOr cfg gm G N idn dom ls with
        | err e => intro h; cases h
        | dominated => intro h; cases h
        | mapped n' r' =>
          have ih := (ih hrec).2
          intro h
          simp only at h
          split at h
          · cases h
          · rename_i hdom
            split at h
            · simp only [P1.mapped.injEq] at h
              refine ⟨h.1.symm, ?_⟩
              intro x hx
              rw [← h.2] at hx
              obtain ⟨⟨l0, hl0, e⟩, h2⟩ := ih x hx
              exact ⟨⟨l0, List.mem_cons_of_mem _ hl0, e⟩, h2⟩
            · rename_i hidn
              simp only [P1.mapped.injEq] at h
              refine ⟨h.1.symm, ?_⟩
              intro x hx
              rw [← h.2] at hx
              rcases List.mem_cons.mp hx with rfl | hx
              · exact ⟨⟨l, by simp, rfl⟩, hidn, hdom, by simpa using hunk⟩
              · obtain ⟨⟨l0, hl0, e⟩, h2⟩ := ih x hx
                exact ⟨⟨l0, List.mem_cons_of_mem _ hl0, e⟩, h2⟩

/-- with the `bound` repair every input of an AND/OR gate is checked, whatever the outcome -/
theorem mapAndOr_checked {cfg : Cfg} (hb : cfg.bound = true) {gm : Array Lit} {G N : Nat}
    {idn dom : Lit} :
    ∀ {inputs : List Lit}, (∀ e, mapAndOr cfg gm G N idn dom inputs ≠ .err e) →
    ∀ l ∈ inputs, unknownInput cfg G N (mapLit gm l) = false
  | [], _, l, hl => by cases hl
  | a :: ls, h, l, hl => by
    simp only [mapAndOr, hb, Bool.true_eq_false, and_false, if_false] at h
    by_cases hunk : unknownInput cfg G N (mapLit gm a) = true
    · simp only [hunk, if_true] at h
      exact absurd rfl (h _)
    · simp only [hunk, Bool.false_eq_true, if_false] at h
      rcases List.mem_cons.mp hl with rfl | hl
      · simpa using hunk
      · have htail : ∀ e, mapAndOr cfg gm G N idn dom ls ≠ .err e := by
          intro e he
          rw [he] at h
          exact absurd rfl (h e)
        exact mapAndOr_checked hb htail l hl

/-! ### XOR -/

theorem xorHead_val {σ v w gm l ls} (h : MapOk σ v w gm (l :: ls)) :
    (litVal σ w (xorSrc gm l).positive != xorFlip gm l) = litVal σ v l := by
  cases l with
  | const b => simp [xorSrc, xorFlip, Lit.positive, Lit.isNeg, litVal]
  | input neg i => simp [xorSrc, xorFlip, Lit.positive, Lit.isNeg, litVal]
  | gate neg i =>
    have := h neg i (by simp)
    rw [litVal_positive] at this
    have e : litVal σ v (.gate neg i) = (v i != neg) := rfl
    simp only [xorSrc, xorFlip]
    rw [e, ← this]
    generalize litVal σ w (gm.getD i Lit.undef).positive = a
    generalize (gm.getD i Lit.undef).isNeg = b
    cases a <;> cases b <;> cases neg <;> rfl

theorem xorSkip_val {σ w cfg gm l} (h : xorSkip cfg gm l = true) :
    litVal σ w (xorSrc gm l).positive = false := by
  cases l with
  | const b => simp [xorSrc, Lit.positive, litVal]
  | input neg i => simp [xorSkip, Lit.positive] at h
  | gate neg i =>
    simp only [xorSkip, Bool.and_eq_true, decide_eq_true_eq] at h
    simp only [xorSrc, h.2, litVal]

theorem mapXor_sem {cfg : Cfg} {σ v w : Nat → Bool} {gm : Array Lit} {G N : Nat} :
    ∀ {inputs : List Lit}, MapOk σ v w gm inputs →
    ∀ n r, mapXor cfg gm G N inputs = .mapped n r → (xorVal σ w r != n) = xorVal σ v inputs
  | [], _ => by simp [mapXor, xorVal]
  | l :: ls, h => by
    have ih := mapXor_sem (cfg := cfg) (G := G) (N := N) h.tail
    have hh := xorHead_val h
    intro n r
    simp only [mapXor]
    by_cases hskip : xorSkip cfg gm l = true
    · have hz := xorSkip_val (σ := σ) (w := w) hskip
      simp only [hskip, if_true]
      cases hrec : mapXor cfg gm G N ls with
      | err e => simp
      | dominated => simp
      | mapped n' r' =>
        have := ih n' r' hrec
        simp only [P1.mapped.injEq, and_imp]
        intro hn hr
        subst hn hr
        simp only [xorVal, ← hh, hz, ← this]
        generalize xorVal σ w r' = a
        cases a <;> cases n' <;> cases xorFlip gm l <;> rfl
    · simp only [hskip, Bool.false_eq_true, if_false]
      by_cases hunk : unknownInput cfg G N (xorSrc gm l).positive = true
      · simp [hunk]
      · simp only [hunk, Bool.false_eq_true, if_false]
        cases hrec : mapXor cfg gm G N ls with
        | err e => simp
        | dominated => simp
        | mapped n' r' =>
          have := ih n' r' hrec
          simp only [P1.mapped.injEq, and_imp]
          intro hn hr
          subst hn hr
          simp only [xorVal, ← hh, ← this]
          generalize litVal σ w _ = a
          generalize xorVal σ w r' = b
          cases a <;> cases b <;> cases n' <;> cases xorFlip gm l <;> rfl

/-- shape of the mapped list of an XOR gate -/
theorem mapXor_mem {cfg : Cfg} {gm : Array Lit} {G N : Nat} :
    ∀ {inputs : List Lit} {n : Bool} {r : List Lit},
    mapXor cfg gm G N inputs = .mapped n r →
    ∀ x ∈ r, (∃ l ∈ inputs, x = (xorSrc gm l).positive ∧ xorSkip cfg gm l = false) ∧
      unknownInput cfg G N x = false
  | [], n, r, h => by
    simp only [mapXor, P1.mapped.injEq] at h
    simp [← h.2]
  | l :: ls, n, r, h => by
    have ih := @mapXor_mem cfg gm G N ls
    simp only [mapXor] at h
    by_cases hskip : xorSkip cfg gm l = true
    · simp only [hskip, if_true] at h
      revert h
      cases hrec : mapXor cfg gm G N ls with
      | err e => intro h; cases h
      | dominated => intro h; cases h
      | mapped n' r' =>
        intro h
        simp only [P1.mapped.injEq] at h
        intro x hx
        rw [← h.2] at hx
        obtain ⟨⟨l0, hl0, e⟩, h2⟩ := ih hrec x hx
        exact ⟨⟨l0, List.mem_cons_of_mem _ hl0, e⟩, h2⟩
    · simp only [hskip, Bool.false_eq_true, if_false] at h
      by_cases hunk : unknownInput cfg G N (xorSrc gm l).positive = true
      · simp [hunk] at h
      · simp only [hunk, Bool.false_eq_true, if_false] at h
        revert h
        cases hrec : mapXor cfg gm G N ls with
        | err e => intro h; cases h
        | dominated => intro h; cases h
        | mapped n' r' =>
          intro h
          simp only [P1.mapped.injEq] at h
          intro x hx
          rw [← h.2] at hx
          rcases List.mem_cons.mp hx with rfl | hx
          · exact ⟨⟨l, by simp, rfl, by simpa using hskip⟩, by simpa using hunk⟩
          · obtain ⟨⟨l0, hl0, e⟩, h2⟩ := ih hrec x hx
            exact ⟨⟨l0, List.mem_cons_of_mem _ hl0, e⟩, h2⟩

theorem mapXor_not_dominated {cfg : Cfg} {gm : Array Lit} {G N : Nat} :
    ∀ {inputs : List Lit}, mapXor cfg gm G N inputs ≠ .dominated
  | [] => by simp [mapXor]
  | l :: ls => by
    have ih := @mapXor_not_dominated cfg gm G N ls
    simp only [mapXor]
    split
    · cases h : mapXor cfg gm G N ls <;> simp_all
    · split
      · simp
      · cases h : mapXor cfg gm G N ls <;> simp_all

/-- every input of an XOR gate that is not dropped as `⊥` is checked -/
theorem mapXor_checked {cfg : Cfg} {gm : Array Lit} {G N : Nat} :
    ∀ {inputs : List Lit}, (∀ e, mapXor cfg gm G N inputs ≠ .err e) →
    ∀ l ∈ inputs, xorSkip cfg gm l = false → unknownInput cfg G N (xorSrc gm l).positive = false
  | [], _, l, hl, _ => by cases hl
  | a :: ls, h, l, hl, hns => by
    simp only [mapXor] at h
    have htail : ∀ e, mapXor cfg gm G N ls ≠ .err e := by
      intro e he
      rw [he] at h
      split at h
      · exact absurd rfl (h e)
      · split at h
        · exact absurd rfl (h _)
        · exact absurd rfl (h e)
    rcases List.mem_cons.mp hl with rfl | hl
    · simp only [hns, Bool.false_eq_true, if_false] at h
      by_cases hunk : unknownInput cfg G N (xorSrc gm l).positive = true
      · simp only [hunk, if_true] at h
        exact absurd rfl (h _)
      · simpa using hunk
    · exact mapXor_checked htail l hl hns

end OxiddModel.Circuit
