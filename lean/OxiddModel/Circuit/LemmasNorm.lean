import OxiddModel.Circuit.LemmasMap
import OxiddModel.Circuit.LemmasDedup

/-!
The heart of `simplify`: the normalisation of one gate whose gate inputs are already mapped
(`normalise` = phase 1 + conditions 3/4) is value preserving and establishes conditions 1–4.
-/
namespace OxiddModel.Circuit

theorem gateVal_and (σ gv ls) : gateVal σ gv (.and, ls) = ls.all (litVal σ gv) := rfl
theorem gateVal_or (σ gv ls) : gateVal σ gv (.or, ls) = ls.any (litVal σ gv) := rfl
theorem gateVal_xor (σ gv ls) : gateVal σ gv (.xor, ls) = xorVal σ gv ls := rfl

/-! ### `dedup` preserves the value -/

theorem retain_subset {G : Nat} {ls : List Lit} {s : List Nat} : ∀ x ∈ retain G ls s, x ∈ ls :=
  fun _ hx => (retain_mem hx).1

theorem dedup_and_sem {σ w : Nat → Bool} {G N : Nat} {r : List Lit} (hok : ∀ x ∈ r, IdxOk G x) :
    (∀ r', dedup G N .and r = .ok r' → r'.all (litVal σ w) = r.all (litVal σ w)) ∧
    (dedup G N .and r = .complement → r.all (litVal σ w) = false) := by
  unfold dedup
  split
  · simp only
    cases hins : insertAll G (2 * (G + N)) r [] with
    | panic => simp
    | complement =>
      simp only [reduceCtorEq, false_implies, implies_true, true_and]
      intro _
      obtain ⟨l, hl, hor⟩ := insertAll_complement hins
      rcases hor with hm | ⟨l', hl', he⟩
      · cases hm
      · have : l' = l.not := idx_inj (hok l' hl') (IdxOk_not.mpr (hok l hl)) he
        subst this
        cases hall : r.all (litVal σ w) with
        | false => rfl
        | true =>
          have h1 := List.all_eq_true.mp hall l hl
          have h2 := List.all_eq_true.mp hall _ hl'
          rw [litVal_not, h1] at h2
          cases h2
    | set s =>
      simp only [Dedup.ok.injEq, reduceCtorEq, false_implies, and_true]
      intro r' hr'
      subst hr'
      obtain ⟨hnd, hcov, _, _, _, _⟩ := insertAll_set hins List.nodup_nil
      have hf := fun x hx => idxVal_idx (val := litVal σ w) hok (l := x) hx
      have e1 : foldL (· && ·) true (litVal σ w) (retain G r s) =
          foldL (· && ·) true (fun l => idxVal G (litVal σ w) r (idx G l)) (retain G r s) :=
        foldL_congr (fun x hx => (hf x (retain_subset x hx)).symm)
      have e2 := retain_fold CM.and (idxVal G (litVal σ w) r) hnd
        (fun i hi => (hcov i hi).resolve_left (by simp))
      have e3 := insertAll_fold CM.and (by decide) (idxVal G (litVal σ w) r) hins
      have e4 : foldL (· && ·) true (fun l => idxVal G (litVal σ w) r (idx G l)) r =
          foldL (· && ·) true (litVal σ w) r := foldL_congr (fun x hx => hf x hx)
      rw [← foldL_and, ← foldL_and, e1, e2, e3, e4]
      simp [foldI]
  · simp

theorem dedup_or_sem {σ w : Nat → Bool} {G N : Nat} {r : List Lit} (hok : ∀ x ∈ r, IdxOk G x) :
    (∀ r', dedup G N .or r = .ok r' → r'.any (litVal σ w) = r.any (litVal σ w)) ∧
    (dedup G N .or r = .complement → r.any (litVal σ w) = true) := by
  unfold dedup
  split
  · simp only
    cases hins : insertAll G (2 * (G + N)) r [] with
    | panic => simp
    | complement =>
      simp only [reduceCtorEq, false_implies, implies_true, true_and]
      intro _
      obtain ⟨l, hl, hor⟩ := insertAll_complement hins
      rcases hor with hm | ⟨l', hl', he⟩
      · cases hm
      · have : l' = l.not := idx_inj (hok l' hl') (IdxOk_not.mpr (hok l hl)) he
        subst this
        apply List.any_eq_true.mpr
        cases h1 : litVal σ w l with
        | true => exact ⟨l, hl, h1⟩
        | false => exact ⟨l.not, hl', by rw [litVal_not, h1]; rfl⟩
    | set s =>
      simp only [Dedup.ok.injEq, reduceCtorEq, false_implies, and_true]
      intro r' hr'
      subst hr'
      obtain ⟨hnd, hcov, _, _, _, _⟩ := insertAll_set hins List.nodup_nil
      have hf := fun x hx => idxVal_idx (val := litVal σ w) hok (l := x) hx
      have e1 : foldL (· || ·) false (litVal σ w) (retain G r s) =
          foldL (· || ·) false (fun l => idxVal G (litVal σ w) r (idx G l)) (retain G r s) :=
        foldL_congr (fun x hx => (hf x (retain_subset x hx)).symm)
      have e2 := retain_fold CM.or (idxVal G (litVal σ w) r) hnd
        (fun i hi => (hcov i hi).resolve_left (by simp))
      have e3 := insertAll_fold CM.or (by decide) (idxVal G (litVal σ w) r) hins
      have e4 : foldL (· || ·) false (fun l => idxVal G (litVal σ w) r (idx G l)) r =
          foldL (· || ·) false (litVal σ w) r := foldL_congr (fun x hx => hf x hx)
      rw [← foldL_or, ← foldL_or, e1, e2, e3, e4]
      simp [foldI]
  · simp

theorem dedup_xor_sem {σ w : Nat → Bool} {G N : Nat} {r : List Lit} (hok : ∀ x ∈ r, IdxOk G x) :
    (∀ r', dedup G N .xor r = .ok r' → xorVal σ w r' = xorVal σ w r) ∧
    dedup G N .xor r ≠ .complement := by
  unfold dedup
  split
  · simp only
    cases hins : toggleAll G (2 * (G + N)) r [] with
    | panic => simp
    | complement => exact absurd hins toggleAll_not_complement
    | set s =>
      simp only [Dedup.ok.injEq, ne_eq, reduceCtorEq, not_false_eq_true, and_true]
      intro r' hr'
      subst hr'
      obtain ⟨hnd, hcov, _⟩ := toggleAll_set hins List.nodup_nil
      have hf := fun x hx => idxVal_idx (val := litVal σ w) hok (l := x) hx
      have e1 : foldL (· != ·) false (litVal σ w) (retain G r s) =
          foldL (· != ·) false (fun l => idxVal G (litVal σ w) r (idx G l)) (retain G r s) :=
        foldL_congr (fun x hx => (hf x (retain_subset x hx)).symm)
      have e2 := retain_fold CM.xor (idxVal G (litVal σ w) r) hnd
        (fun i hi => (hcov i hi).resolve_left (by simp))
      have e3 := toggleAll_fold CM.xor (by decide) (idxVal G (litVal σ w) r) hins
      have e4 : foldL (· != ·) false (fun l => idxVal G (litVal σ w) r (idx G l)) r =
          foldL (· != ·) false (litVal σ w) r := foldL_congr (fun x hx => hf x hx)
      rw [← foldL_xor, ← foldL_xor, e1, e2, e3, e4]
      simp [foldI]
  · simp

/-! ### `dedup` yields pairwise distinct variables (condition 3) -/

theorem nodup_var_of_idx {G : Nat} : ∀ {L : List Lit}, (L.map (idx G)).Nodup →
    (∀ x ∈ L, ∀ y ∈ L, x ≠ y.not) → (L.map Lit.var).Nodup
  | [], _, _ => by simp
  | a :: t, hnd, hnc => by
    simp only [List.map_cons, List.nodup_cons] at hnd ⊢
    refine ⟨?_, nodup_var_of_idx hnd.2 (fun x hx y hy => hnc x (by simp [hx]) y (by simp [hy]))⟩
    intro hm
    obtain ⟨y, hy, hye⟩ := List.mem_map.mp hm
    rcases Lit.var_eq hye.symm with rfl | h
    · exact hnd.1 (List.mem_map.mpr ⟨_, hy, rfl⟩)
    · exact hnc a (by simp) y (by simp [hy]) h

theorem needDedup_false {r : List Lit} (h : needDedup r = false) : (r.map Lit.var).Nodup := by
  match r, h with
  | [], _ => simp
  | [_], _ => simp
  | [a, b], h =>
    simp only [needDedup, beq_eq_false_iff_ne, ne_eq] at h
    simp [h]
  | _ :: _ :: _ :: _, h => simp [needDedup] at h

theorem dedup_nf3 {G N : Nat} {kind : Kind} {r r' : List Lit}
    (hpos : kind = .xor → ∀ x ∈ r, x.isNeg = false)
    (h : dedup G N kind r = .ok r') : (r'.map Lit.var).Nodup := by
  unfold dedup at h
  split at h
  · cases kind with
    | xor =>
      simp only at h
      cases hins : toggleAll G (2 * (G + N)) r [] with
      | panic => simp [hins] at h
      | complement => simp [hins] at h
      | set s =>
        simp only [hins, Dedup.ok.injEq] at h
        subst h
        obtain ⟨hnd, _, _⟩ := toggleAll_set hins List.nodup_nil
        apply nodup_var_of_idx (retain_nodup hnd)
        intro x hx y hy hxy
        have h1 := hpos rfl x (retain_subset x hx)
        have h2 := hpos rfl y (retain_subset y hy)
        rw [hxy, isNeg_not, h2] at h1
        cases h1
    | and =>
      simp only at h
      cases hins : insertAll G (2 * (G + N)) r [] with
      | panic => simp [hins] at h
      | complement => simp [hins] at h
      | set s =>
        simp only [hins, Dedup.ok.injEq] at h
        subst h
        obtain ⟨hnd, _, h3, _, _, h6⟩ := insertAll_set hins List.nodup_nil
        apply nodup_var_of_idx (retain_nodup hnd)
        intro x hx y hy hxy
        have := h6 y (retain_subset y hy)
        rw [← hxy] at this
        exact this (h3 x (retain_subset x hx))
    | or =>
      simp only at h
      cases hins : insertAll G (2 * (G + N)) r [] with
      | panic => simp [hins] at h
      | complement => simp [hins] at h
      | set s =>
        simp only [hins, Dedup.ok.injEq] at h
        subst h
        obtain ⟨hnd, _, h3, _, _, h6⟩ := insertAll_set hins List.nodup_nil
        apply nodup_var_of_idx (retain_nodup hnd)
        intro x hx y hy hxy
        have := h6 y (retain_subset y hy)
        rw [← hxy] at this
        exact this (h3 x (retain_subset x hx))
  · rename_i hnd
    simp only [Dedup.ok.injEq] at h
    subst h
    exact needDedup_false (by simpa using hnd)

theorem dedup_subset {G N : Nat} {kind : Kind} {r r' : List Lit}
    (h : dedup G N kind r = .ok r') : ∀ x ∈ r', x ∈ r := by
  unfold dedup at h
  split at h
  · cases kind with
    | xor =>
      simp only at h
      cases hins : toggleAll G (2 * (G + N)) r [] with
      | panic => simp [hins] at h
      | complement => simp [hins] at h
      | set s =>
        simp only [hins, Dedup.ok.injEq] at h
        subst h
        exact retain_subset
    | and =>
      simp only at h
      cases hins : insertAll G (2 * (G + N)) r [] with
      | panic => simp [hins] at h
      | complement => simp [hins] at h
      | set s =>
        simp only [hins, Dedup.ok.injEq] at h
        subst h
        exact retain_subset
    | or =>
      simp only at h
      cases hins : insertAll G (2 * (G + N)) r [] with
      | panic => simp [hins] at h
      | complement => simp [hins] at h
      | set s =>
        simp only [hins, Dedup.ok.injEq] at h
        subst h
        exact retain_subset
  · simp only [Dedup.ok.injEq] at h
    subst h
    exact fun _ hx => hx

/-- AND/OR: a non-empty list stays non-empty (the first literal is always retained) -/
theorem dedup_andor_nonempty {G N : Nat} {kind : Kind} (hk : kind ≠ .xor) {r r' : List Lit}
    (hne : r ≠ []) (h : dedup G N kind r = .ok r') : r' ≠ [] := by
  unfold dedup at h
  split at h
  · have key : ∀ s, insertAll G (2 * (G + N)) r [] = .set s → retain G r s ≠ [] := by
      intro s hins
      obtain ⟨_, _, h3, _, _, _⟩ := insertAll_set hins List.nodup_nil
      match r, hne with
      | a :: t, _ =>
        obtain ⟨q, hq⟩ := retain_head (ls := t) (h3 a (by simp))
        rw [hq]; simp
    cases kind with
    | xor => exact absurd rfl hk
    | and =>
      simp only at h
      cases hins : insertAll G (2 * (G + N)) r [] with
      | panic => simp [hins] at h
      | complement => simp [hins] at h
      | set s =>
        simp only [hins, Dedup.ok.injEq] at h
        subst h
        exact key s hins
    | or =>
      simp only at h
      cases hins : insertAll G (2 * (G + N)) r [] with
      | panic => simp [hins] at h
      | complement => simp [hins] at h
      | set s =>
        simp only [hins, Dedup.ok.injEq] at h
        subst h
        exact key s hins
  · simp only [Dedup.ok.injEq] at h
    subst h
    exact hne

/-- no bit-set panic when every literal is a known input or a new gate -/
theorem dedup_no_panic {G N : Nat} {kind : Kind} {r : List Lit}
    (hlt : ∀ x ∈ r, idx G x < 2 * (G + N)) : dedup G N kind r ≠ .panic := by
  have hins : ∀ (ls : List Lit) (s : List Nat), (∀ x ∈ ls, idx G x < 2 * (G + N)) →
      insertAll G (2 * (G + N)) ls s ≠ .panic := by
    intro ls
    induction ls with
    | nil => intro s _; simp [insertAll]
    | cons a t ih =>
      intro s h
      simp only [insertAll]
      split
      · simp
      · rw [if_pos (h a (by simp))]
        exact ih _ (fun x hx => h x (by simp [hx]))
  have htog : ∀ (ls : List Lit) (s : List Nat), (∀ x ∈ ls, idx G x < 2 * (G + N)) →
      toggleAll G (2 * (G + N)) ls s ≠ .panic := by
    intro ls
    induction ls with
    | nil => intro s _; simp [toggleAll]
    | cons a t ih =>
      intro s h
      simp only [toggleAll]
      rw [if_pos (h a (by simp))]
      exact ih _ (fun x hx => h x (by simp [hx]))
  unfold dedup
  split
  · cases kind with
    | xor =>
      simp only
      cases h : toggleAll G (2 * (G + N)) r [] with
      | panic => exact absurd h (htog r [] hlt)
      | complement => simp
      | set s => simp
    | and =>
      simp only
      cases h : insertAll G (2 * (G + N)) r [] with
      | panic => exact absurd h (hins r [] hlt)
      | complement => simp
      | set s => simp
    | or =>
      simp only
      cases h : insertAll G (2 * (G + N)) r [] with
      | panic => exact absurd h (hins r [] hlt)
      | complement => simp
      | set s => simp
  · simp

/-! ### `post`: conditions 3 + 4 -/

theorem gateVal_single (σ gv) (kind : Kind) (l : Lit) : gateVal σ gv (kind, [l]) = litVal σ gv l := by
  cases kind <;> simp [gateVal, xorVal]

theorem gateVal_nil (σ gv) (kind : Kind) : gateVal σ gv (kind, []) = litVal σ gv (emptyGate kind) := by
  cases kind <;> simp [gateVal, xorVal, emptyGate, litVal]

/-- value preservation of `dedup`, all kinds -/
theorem dedup_sem {σ w : Nat → Bool} {G N : Nat} {kind : Kind} {r : List Lit}
    (hok : ∀ x ∈ r, IdxOk G x) :
    (∀ r', dedup G N kind r = .ok r' → gateVal σ w (kind, r') = gateVal σ w (kind, r)) ∧
    (dedup G N kind r = .complement → kind ≠ .xor ∧
      gateVal σ w (kind, r) = litVal σ w (match kind with | .and => .const false | _ => .const true)) := by
  cases kind with
  | and =>
    obtain ⟨h1, h2⟩ := dedup_and_sem (σ := σ) (w := w) (N := N) hok
    exact ⟨h1, fun h => ⟨by simp, by simpa [gateVal_and, litVal] using h2 h⟩⟩
  | or =>
    obtain ⟨h1, h2⟩ := dedup_or_sem (σ := σ) (w := w) (N := N) hok
    exact ⟨h1, fun h => ⟨by simp, by simpa [gateVal_or, litVal] using h2 h⟩⟩
  | xor =>
    obtain ⟨h1, h2⟩ := dedup_xor_sem (σ := σ) (w := w) (N := N) hok
    exact ⟨h1, fun h => absurd h h2⟩

theorem post_sem {cfg : Cfg} {σ w : Nat → Bool} {G N : Nat} {kind : Kind} {n : Bool} {r : List Lit}
    (hok : ∀ x ∈ r, IdxOk G x) (hn : kind ≠ .xor → n = false)
    (hxe : cfg.xorEmpty = true ∨ kind ≠ .xor ∨ r ≠ []) :
    (∀ l, post cfg G N kind n r = .fwd l → litVal σ w l = (gateVal σ w (kind, r) != n)) ∧
    (∀ n' r', post cfg G N kind n r = .gate n' r' →
      n' = n ∧ gateVal σ w (kind, r') = gateVal σ w (kind, r)) := by
  unfold post
  split
  · -- empty
    rename_i hemp
    have hr : r = [] := by simpa using hemp
    subst hr
    refine ⟨?_, by simp⟩
    intro l hl
    simp only [Norm.fwd.injEq] at hl
    subst hl
    cases kind with
    | and => simp [hn (by simp), gateVal, litVal]
    | or => simp [hn (by simp), gateVal, litVal]
    | xor =>
      rcases hxe with hx | hx | hx
      · simp [hx, gateVal, xorVal, litVal]
      · exact absurd rfl hx
      · exact absurd rfl hx
  · obtain ⟨hd1, hd2⟩ := dedup_sem (σ := σ) (w := w) (N := N) (kind := kind) hok
    cases hd : dedup G N kind r with
    | panic => simp
    | complement =>
      obtain ⟨hk, hv⟩ := hd2 hd
      simp only [Norm.fwd.injEq, reduceCtorEq, false_implies, implies_true, and_true]
      intro l hl
      subst hl
      rw [hv, hn hk]; cases kind <;> simp
    | ok r' =>
      have hv := hd1 r' hd
      match r' with
      | [] =>
        simp only
        split
        · simp only [Norm.fwd.injEq, reduceCtorEq, false_implies, implies_true, and_true]
          intro l hl
          subst hl
          rw [litVal_xorB, ← hv, gateVal_nil]
        · simp only [reduceCtorEq, false_implies, implies_true, Norm.gate.injEq, true_and]
          intro n' r'' h
          rw [← h.1, ← h.2]
          exact ⟨rfl, hv⟩
      | [l] =>
        simp only [Norm.fwd.injEq, reduceCtorEq, false_implies, implies_true, and_true]
        intro l' hl
        subst hl
        rw [litVal_xorB, ← hv, gateVal_single]
      | a :: b :: t =>
        simp only [reduceCtorEq, false_implies, implies_true, Norm.gate.injEq, true_and]
        intro n' r'' h
        rw [← h.1, ← h.2]
        exact ⟨rfl, hv⟩

/-- shape of the result of `post` (conditions 3 and 4) -/
theorem post_shape {cfg : Cfg} {G N : Nat} {kind : Kind} {n n' : Bool} {r r' : List Lit}
    (hpos : kind = .xor → ∀ x ∈ r, x.isNeg = false)
    (h : post cfg G N kind n r = .gate n' r') :
    (∀ x ∈ r', x ∈ r) ∧ (r'.map Lit.var).Nodup ∧
    (2 ≤ r'.length ∨ (r' = [] ∧ kind = .xor ∧ cfg.xorCancel = false)) := by
  unfold post at h
  split at h
  · cases h
  · rename_i hne
    cases hd : dedup G N kind r with
    | panic => simp [hd] at h
    | complement => simp [hd] at h
    | ok q =>
      have hsub := dedup_subset hd
      have hnf3 := dedup_nf3 hpos hd
      rw [hd] at h
      match q, h with
      | [], h =>
        simp only at h
        split at h
        · cases h
        · rename_i hc
          simp only [Norm.gate.injEq] at h
          rw [← h.2]
          refine ⟨by simp, by simp, Or.inr ⟨rfl, ?_, by simpa using hc⟩⟩
          cases hk : kind with
          | xor => rfl
          | and =>
            exact absurd rfl (dedup_andor_nonempty (by simp [hk]) (by simpa using hne) hd)
          | or =>
            exact absurd rfl (dedup_andor_nonempty (by simp [hk]) (by simpa using hne) hd)
      | [l], h => simp at h
      | a :: b :: t, h =>
        simp only [Norm.gate.injEq] at h
        rw [← h.2]
        exact ⟨hsub, hnf3, Or.inl (by simp)⟩

/-! ### `normalise` -/

theorem IdxOk_xorB {G : Nat} {l : Lit} (b : Bool) : IdxOk G (l.xorB b) ↔ IdxOk G l := by
  cases l <;> simp [Lit.xorB, IdxOk]

theorem IdxOk_positive {G : Nat} {l : Lit} : IdxOk G l.positive ↔ IdxOk G l := by
  cases l <;> simp [Lit.positive, IdxOk]

theorem IdxOk_mapLit {G : Nat} {gm : Array Lit} {inputs : List Lit}
    (hok : ∀ neg i, Lit.gate neg i ∈ inputs → IdxOk G (gm.getD i Lit.undef))
    {l : Lit} (hl : l ∈ inputs) : IdxOk G (mapLit gm l) := by
  cases l with
  | const b => trivial
  | input n i => trivial
  | gate n i => exact (IdxOk_xorB n).mpr (hok n i hl)

theorem IdxOk_xorSrc {G : Nat} {gm : Array Lit} {inputs : List Lit}
    (hok : ∀ neg i, Lit.gate neg i ∈ inputs → IdxOk G (gm.getD i Lit.undef))
    {l : Lit} (hl : l ∈ inputs) : IdxOk G (xorSrc gm l).positive := by
  cases l with
  | const b => trivial
  | input n i => trivial
  | gate n i => exact IdxOk_positive.mpr (hok n i hl)

theorem phase1_mapped_ok {cfg : Cfg} {gm : Array Lit} {G N : Nat} {kind : Kind} {inputs : List Lit}
    (hok : ∀ neg i, Lit.gate neg i ∈ inputs → IdxOk G (gm.getD i Lit.undef))
    {n : Bool} {r : List Lit} (h : phase1 cfg gm G N kind inputs = .mapped n r) :
    (∀ x ∈ r, IdxOk G x) ∧ (kind ≠ .xor → n = false) ∧ (kind = .xor → ∀ x ∈ r, x.isNeg = false) := by
  cases kind with
  | and =>
    obtain ⟨hn, hm⟩ := mapAndOr_mem h
    refine ⟨?_, fun _ => hn, by simp⟩
    intro x hx
    obtain ⟨⟨l, hl, e⟩, _⟩ := hm x hx
    rw [e]; exact IdxOk_mapLit hok hl
  | or =>
    obtain ⟨hn, hm⟩ := mapAndOr_mem h
    refine ⟨?_, fun _ => hn, by simp⟩
    intro x hx
    obtain ⟨⟨l, hl, e⟩, _⟩ := hm x hx
    rw [e]; exact IdxOk_mapLit hok hl
  | xor =>
    have hm := mapXor_mem h
    refine ⟨?_, by simp, ?_⟩
    · intro x hx
      obtain ⟨⟨l, hl, e, _⟩, _⟩ := hm x hx
      rw [e]; exact IdxOk_xorSrc hok hl
    · intro _ x hx
      obtain ⟨⟨l, hl, e, _⟩, _⟩ := hm x hx
      rw [e]; cases xorSrc gm l <;> rfl

theorem mapXor_nonempty {cfg : Cfg} {gm : Array Lit} {G N : Nat} :
    ∀ {inputs : List Lit}, (∃ l ∈ inputs, xorSkip cfg gm l = false) →
    ∀ {n : Bool} {r : List Lit}, mapXor cfg gm G N inputs = .mapped n r → r ≠ []
  | [], h, _, _, _ => by obtain ⟨l, hl, _⟩ := h; cases hl
  | a :: ls, h, n, r, hm => by
    simp only [mapXor] at hm
    by_cases hskip : xorSkip cfg gm a = true
    · simp only [hskip, if_true] at hm
      have hex : ∃ l ∈ ls, xorSkip cfg gm l = false := by
        obtain ⟨l, hl, hs⟩ := h
        rcases List.mem_cons.mp hl with rfl | hl
        · rw [hskip] at hs; cases hs
        · exact ⟨l, hl, hs⟩
      cases hrec : mapXor cfg gm G N ls with
      | err e => simp [hrec] at hm
      | dominated => simp [hrec] at hm
      | mapped n' r' =>
        simp only [hrec, P1.mapped.injEq] at hm
        rw [← hm.2]
        exact mapXor_nonempty hex hrec
    · simp only [hskip, Bool.false_eq_true, if_false] at hm
      split at hm
      · cases hm
      · cases hrec : mapXor cfg gm G N ls with
        | err e => simp [hrec] at hm
        | dominated => simp [hrec] at hm
        | mapped n' r' =>
          simp only [hrec, P1.mapped.injEq] at hm
          rw [← hm.2]; simp

/-- **Local correctness of the gate normalisation.**  If the gate map is right for the gate
inputs of the gate (`MapOk`) then the literal / gate the gate is replaced by has the same value.
The only defect that affects values is the wrong constant for an XOR whose inputs all vanish
(`hxe` excludes it: repaired, or not an XOR, or some input survives). -/
theorem normalise_sem {cfg : Cfg} {σ v w : Nat → Bool} {gm : Array Lit} {G N : Nat} {kind : Kind}
    {inputs : List Lit} (hmap : MapOk σ v w gm inputs)
    (hok : ∀ neg i, Lit.gate neg i ∈ inputs → IdxOk G (gm.getD i Lit.undef))
    (hxe : cfg.xorEmpty = true ∨ kind ≠ .xor ∨ ∃ l ∈ inputs, xorSkip cfg gm l = false) :
    (∀ l, normalise cfg gm G N kind inputs = .fwd l → litVal σ w l = gateVal σ v (kind, inputs)) ∧
    (∀ n r, normalise cfg gm G N kind inputs = .gate n r →
      (gateVal σ w (kind, r) != n) = gateVal σ v (kind, inputs)) := by
  unfold normalise
  cases hp : phase1 cfg gm G N kind inputs with
  | err e => simp
  | dominated =>
    simp only [Norm.fwd.injEq, reduceCtorEq, false_implies, implies_true, and_true]
    intro l hl
    subst hl
    cases kind with
    | and => simpa [gateVal_and, litVal] using ((mapAndOr_and_sem hmap).1 hp).symm
    | or => simpa [gateVal_or, litVal] using ((mapAndOr_or_sem hmap).1 hp).symm
    | xor => exact absurd hp mapXor_not_dominated
  | mapped n r =>
    obtain ⟨hokr, hn, _⟩ := phase1_mapped_ok hok hp
    -- the mapped list has the value of the gate
    have hval : (gateVal σ w (kind, r) != n) = gateVal σ v (kind, inputs) := by
      cases kind with
      | and => rw [hn (by simp)]; simpa [gateVal_and] using (mapAndOr_and_sem hmap).2 n r hp
      | or => rw [hn (by simp)]; simpa [gateVal_or] using (mapAndOr_or_sem hmap).2 n r hp
      | xor => exact mapXor_sem hmap n r hp
    have hxe' : cfg.xorEmpty = true ∨ kind ≠ .xor ∨ r ≠ [] := by
      rcases hxe with h | h | h
      · exact Or.inl h
      · exact Or.inr (Or.inl h)
      · by_cases hk : kind = .xor
        · subst hk; exact Or.inr (Or.inr (mapXor_nonempty h hp))
        · exact Or.inr (Or.inl hk)
    obtain ⟨p1, p2⟩ := post_sem (cfg := cfg) (σ := σ) (w := w) (N := N) hokr hn hxe'
    simp only
    refine ⟨fun l hl => by rw [p1 l hl, hval], ?_⟩
    intro n' r' h
    obtain ⟨e1, e2⟩ := p2 n' r' h
    rw [e1, e2, hval]

/-! ### where the literals of the result come from -/

/-- a literal the normalised gate may consist of: the image of one of the gate's inputs -/
def FromInput (cfg : Cfg) (gm : Array Lit) (G N : Nat) (kind : Kind) (inputs : List Lit) (x : Lit) : Prop :=
  unknownInput cfg G N x = false ∧
  ((kind ≠ .xor ∧ (∃ l ∈ inputs, x = mapLit gm l) ∧ x ≠ .const true ∧ x ≠ .const false) ∨
   (kind = .xor ∧ ∃ l ∈ inputs, x = (xorSrc gm l).positive ∧ xorSkip cfg gm l = false))

theorem phase1_from {cfg : Cfg} {gm : Array Lit} {G N : Nat} {kind : Kind} {inputs : List Lit}
    {n : Bool} {r : List Lit} (h : phase1 cfg gm G N kind inputs = .mapped n r) :
    ∀ x ∈ r, FromInput cfg gm G N kind inputs x := by
  intro x hx
  cases kind with
  | and =>
    obtain ⟨h1, h2, h3, h4⟩ := (mapAndOr_mem h).2 x hx
    exact ⟨h4, Or.inl ⟨by simp, h1, h2, h3⟩⟩
  | or =>
    obtain ⟨h1, h2, h3, h4⟩ := (mapAndOr_mem h).2 x hx
    exact ⟨h4, Or.inl ⟨by simp, h1, h3, h2⟩⟩
  | xor =>
    obtain ⟨h1, h4⟩ := mapXor_mem h x hx
    exact ⟨h4, Or.inr ⟨rfl, h1⟩⟩

theorem post_fwd {cfg : Cfg} {G N : Nat} {kind : Kind} {n : Bool} {r : List Lit} {l : Lit}
    (h : post cfg G N kind n r = .fwd l) : (∃ b, l = .const b) ∨ ∃ x ∈ r, l = x.xorB n := by
  unfold post at h
  split at h
  · simp only [Norm.fwd.injEq] at h
    subst h
    left
    cases kind with
    | and => exact ⟨_, rfl⟩
    | or => exact ⟨_, rfl⟩
    | xor => simp only; split <;> exact ⟨_, rfl⟩
  · cases hd : dedup G N kind r with
    | panic => simp [hd] at h
    | complement =>
      simp only [hd, Norm.fwd.injEq] at h
      subst h
      left
      cases kind <;> exact ⟨_, rfl⟩
    | ok q =>
      have hsub := dedup_subset hd
      rw [hd] at h
      match q, h with
      | [], h =>
        simp only at h
        split at h
        · simp only [Norm.fwd.injEq] at h
          subst h
          left
          cases kind <;> cases n <;> exact ⟨_, rfl⟩
        · cases h
      | [a], h =>
        simp only [Norm.fwd.injEq] at h
        subst h
        exact Or.inr ⟨a, hsub a (by simp), rfl⟩
      | a :: b :: t, h => cases h

/-- the result of `normalise` is built from images of the gate's inputs and satisfies
conditions 3 and 4 (4 up to the XOR-cancellation defect) -/
theorem normalise_shape {cfg : Cfg} {gm : Array Lit} {G N : Nat} {kind : Kind} {inputs : List Lit} :
    (∀ n r, normalise cfg gm G N kind inputs = .gate n r →
      (kind ≠ .xor → n = false) ∧
      (∀ x ∈ r, FromInput cfg gm G N kind inputs x) ∧ (r.map Lit.var).Nodup ∧
      (2 ≤ r.length ∨ (r = [] ∧ kind = .xor ∧ cfg.xorCancel = false))) ∧
    (∀ l, normalise cfg gm G N kind inputs = .fwd l →
      (∃ b, l = .const b) ∨ ∃ x n, FromInput cfg gm G N kind inputs x ∧ l = x.xorB n) := by
  unfold normalise
  cases hp : phase1 cfg gm G N kind inputs with
  | err e => simp
  | dominated =>
    simp only [reduceCtorEq, false_implies, implies_true, Norm.fwd.injEq, true_and]
    intro l hl
    subst hl
    left
    cases kind <;> exact ⟨_, rfl⟩
  | mapped n r =>
    have hfrom := phase1_from hp
    have hpos : kind = .xor → ∀ x ∈ r, x.isNeg = false := by
      intro hk x hx
      subst hk
      obtain ⟨⟨l, _, e, _⟩, _⟩ := mapXor_mem hp x hx
      rw [e]; cases xorSrc gm l <;> rfl
    have hn : kind ≠ .xor → n = false := by
      intro hk
      cases kind with
      | and => exact (mapAndOr_mem hp).1
      | or => exact (mapAndOr_mem hp).1
      | xor => exact absurd rfl hk
    simp only
    constructor
    · intro n' r' h
      obtain ⟨h1, h2, h3⟩ := post_shape hpos h
      have hn' : n' = n := by
        unfold post at h
        split at h
        · cases h
        · cases hd : dedup G N kind r with
          | panic => simp [hd] at h
          | complement => simp [hd] at h
          | ok q =>
            rw [hd] at h
            match q, h with
            | [], h =>
              simp only at h
              split at h
              · cases h
              · simp only [Norm.gate.injEq] at h; exact h.1.symm
            | [a], h => cases h
            | a :: b :: t, h => simp only [Norm.gate.injEq] at h; exact h.1.symm
      exact ⟨fun hk => hn' ▸ hn hk, fun x hx => hfrom x (h1 x hx), h2, h3⟩
    · intro l h
      rcases post_fwd h with hc | ⟨x, hx, e⟩
      · exact Or.inl hc
      · exact Or.inr ⟨x, n, hfrom x hx, e⟩

end OxiddModel.Circuit
