import OxiddModel.Circuit.LemmasDfs

/-!
The semantic invariant of the search: every finished entry of the gate map denotes, in the new
circuit, the value of the old gate.
-/
namespace OxiddModel.Circuit

/-! ### sorting does not change the value of a gate -/

theorem insertSorted_perm (a : Lit) : ∀ l : List Lit, (insertSorted a l).Perm (a :: l)
  | [] => List.Perm.refl _
  | x :: xs => by
    simp only [insertSorted]
    split
    · exact List.Perm.refl _
    · exact ((insertSorted_perm a xs).cons x).trans (List.Perm.swap a x xs)

theorem sortLits_perm : ∀ l : List Lit, (sortLits l).Perm l
  | [] => List.Perm.refl _
  | x :: xs => (insertSorted_perm x (sortLits xs)).trans ((sortLits_perm xs).cons x)

theorem xorVal_perm {σ gv : Nat → Bool} {l₁ l₂ : List Lit} (h : l₁.Perm l₂) :
    xorVal σ gv l₁ = xorVal σ gv l₂ := by
  induction h with
  | nil => rfl
  | cons a _ ih => simp only [xorVal, ih]
  | swap a b l =>
    simp only [xorVal]
    cases litVal σ gv a <;> cases litVal σ gv b <;> cases xorVal σ gv l <;> rfl
  | trans _ _ ih1 ih2 => exact ih1.trans ih2

theorem gateVal_perm {σ gv : Nat → Bool} {kind : Kind} {l₁ l₂ : List Lit} (h : l₁.Perm l₂) :
    gateVal σ gv (kind, l₁) = gateVal σ gv (kind, l₂) := by
  cases kind
  · exact h.all_eq
  · exact h.any_eq
  · exact xorVal_perm h

theorem gateVal_sort_eq {σ gv : Nat → Bool} {kind : Kind} {r r' : List Lit}
    (h : sortLits r' = sortLits r) : gateVal σ gv (kind, r') = gateVal σ gv (kind, r) :=
  gateVal_perm (((sortLits_perm r').symm.trans (h ▸ List.Perm.refl _)).trans (sortLits_perm r))

/-! ### values of the new gates are stable under extension -/

theorem newVal_prefix (σ : Nat → Bool) (gs ext : List Gate) (k : Nat) (hk : k < gs.length) :
    newVal σ (gs ++ ext) k = newVal σ gs k := by
  have := newVal_take σ (gs ++ ext) gs.length k hk (by simp)
  rw [List.take_left'] at this
  · exact this.symm
  · rfl

theorem litVal_prefix {σ : Nat → Bool} {gs ext : List Gate} {l : Lit} (hs : l.scoped gs.length) :
    litVal σ (newVal σ (gs ++ ext)) l = litVal σ (newVal σ gs) l :=
  litVal_congr hs (fun k hk => newVal_prefix σ gs ext k hk)

/-! ### the invariant -/

def SemInv (σ v : Nat → Bool) (st : State) : Prop :=
  ∀ g, Done st.gateMap g →
    litVal σ (newVal σ st.newGates.toList) (st.gateMap.getD g Lit.undef) = v g

/-- the value defect of XOR gates cannot trigger: repaired, or every XOR gate of the circuit has
an input literal among its inputs -/
def XorOk (cfg : Cfg) (c : Circuit) : Prop :=
  cfg.xorEmpty = true ∨
    ∀ g, (c.gates.getD g (.and, [])).1 = .xor → ∃ n i, Lit.input n i ∈ (c.gates.getD g (.and, [])).2

theorem finish_sem {cfg : Cfg} {c : Circuit} {σ v : Nat → Bool} {st st' : State} {index : Nat}
    (hs : Small c) (hx : XorOk cfg c) (hwf : WF cfg c st) (hsem : SemInv σ v st)
    (hidx : index < st.gateMap.size)
    (hdisc : st.gateMap.getD index Lit.undef = Lit.discovered)
    (hch : ∀ neg i, Lit.gate neg i ∈ (c.gates.getD index (.and, [])).2 → Done st.gateMap i)
    (hcons : ConsistentAt c σ v index)
    (h : finish cfg c st index (c.gates.getD index (.and, [])).1 (c.gates.getD index (.and, [])).2
      = .ok st') :
    SemInv σ v st' := by
  obtain ⟨hwf', hdone', hother, hsize', ⟨ext, hext⟩⟩ := finish_wf hs hwf hidx hdisc hch rfl h
  obtain ⟨_, l, hgm, hcase⟩ := finish_struct hwf.uniq h
  have hnd : ¬ (st.gateMap.getD index Lit.undef).isDone := by
    rw [hdisc]; exact not_isDone_discovered
  have hcntlt : st.newGates.size < c.gates.size := by
    have := doneCount_lt hidx hnd
    have := hwf.cnt
    have := hwf.size
    omega
  have hself : st'.gateMap.getD index Lit.undef = l := by
    rw [hgm, getD_setIfInBounds]; simp [hidx]
  -- hypotheses of the local lemma
  have hmap : MapOk σ v (newVal σ st.newGates.toList) st.gateMap (c.gates.getD index (.and, [])).2 :=
    fun neg i hi => hsem i (hch neg i hi)
  have hok : ∀ neg i, Lit.gate neg i ∈ (c.gates.getD index (.and, [])).2 →
      IdxOk c.gates.size (st.gateMap.getD i Lit.undef) := by
    intro neg i hi
    have hsc := hwf.mapScoped i (hch neg i hi)
    cases hl : st.gateMap.getD i Lit.undef with
    | const b => trivial
    | input n j => trivial
    | gate n k =>
      rw [hl] at hsc
      simp only [Lit.scoped] at hsc
      simp only [IdxOk]; omega
  have hxe : cfg.xorEmpty = true ∨ (c.gates.getD index (.and, [])).1 ≠ .xor ∨
      ∃ l ∈ (c.gates.getD index (.and, [])).2, xorSkip cfg st.gateMap l = false := by
    rcases hx with hx | hx
    · exact Or.inl hx
    · by_cases hk : (c.gates.getD index (.and, [])).1 = .xor
      · obtain ⟨n, i, hi⟩ := hx index hk
        exact Or.inr (Or.inr ⟨_, hi, by simp [xorSkip, Lit.positive]⟩)
      · exact Or.inr (Or.inl hk)
  obtain ⟨sem1, sem2⟩ := normalise_sem (cfg := cfg) (N := c.ninputs) hmap hok hxe
  have hgv : gateVal σ v ((c.gates.getD index (.and, [])).1, (c.gates.getD index (.and, [])).2) = v index := by
    rw [hcons]
  intro g hg
  by_cases hgi : g = index
  · rw [hgi, hself]
    rcases hcase with ⟨hn, hng⟩ | ⟨n, r, k, r', hn, hl, hk, hsort, hng⟩
    · -- forwarded literal
      rw [hng, sem1 l hn, hgv]
    · subst hl
      rw [litVal_xorB]
      have hval := sem2 n r hn
      rw [hgv] at hval
      rw [← hval]
      congr 1
      rw [show litVal σ (newVal σ st'.newGates.toList) (Lit.gate false k) =
        newVal σ st'.newGates.toList k from by simp [litVal]]
      rcases hng with hng | ⟨hng, hk', hr'⟩
      · -- structurally equal gate found in the unique table
        rw [hng] at hk ⊢
        have hklt := getElem?_lt_of_some hk
        have hkk : st.newGates.toList[k] = ((c.gates.getD index (.and, [])).1, r') := by
          have := List.getElem?_eq_getElem hklt
          rw [this] at hk
          exact Option.some.inj hk
        have htopo : ∀ j (hj : j < st.newGates.toList.length), ∀ l ∈ st.newGates.toList[j].2, l.scoped j :=
          fun j hj => hwf.topo j _ (List.getElem?_eq_getElem hj)
        rw [newVal_consistent σ _ htopo k hklt, hkk]
        exact gateVal_sort_eq hsort
      · -- new gate pushed
        rw [hng, hk']
        simp only [Array.toList_push]
        have := newVal_push_eq σ st.newGates.toList ((c.gates.getD index (.and, [])).1, r)
        simp only [Array.length_toList] at this
        exact this
  · rw [hother g hgi]
    have hd : Done st.gateMap g := by unfold Done; rw [← hother g hgi]; exact hg
    rw [hext, litVal_prefix (by simpa using hwf.mapScoped g hd)]
    exact hsem g hd

/-- semantic specification of a (recursive) visit function -/
def SemSpec (cfg : Cfg) (c : Circuit) (σ v : Nat → Bool) (rec : State → Nat → Except Err State) : Prop :=
  ∀ st g st', WF cfg c st → SemInv σ v st → rec st g = .ok st' →
    (∀ g, Done st'.gateMap g → ConsistentAt c σ v g) → SemInv σ v st'

theorem visitInputs_sem {cfg : Cfg} {c : Circuit} {σ v : Nat → Bool}
    {rec : State → Nat → Except Err State} (hwfrec : VisitSpec cfg c rec)
    (hrec : SemSpec cfg c σ v rec) :
    ∀ (ls : List Lit) (st st' : State), WF cfg c st → SemInv σ v st →
      visitInputs rec st ls = .ok st' → (∀ g, Done st'.gateMap g → ConsistentAt c σ v g) →
      SemInv σ v st'
  | [], st, st', _, hsem, h, _ => by
    simp only [visitInputs, Except.ok.injEq] at h
    subst h; exact hsem
  | .const b :: ls, st, st', hwf, hsem, h, hc => by
    simp only [visitInputs] at h
    exact visitInputs_sem hwfrec hrec ls st st' hwf hsem h hc
  | .input n j :: ls, st, st', hwf, hsem, h, hc => by
    simp only [visitInputs] at h
    exact visitInputs_sem hwfrec hrec ls st st' hwf hsem h hc
  | .gate n g :: ls, st, st', hwf, hsem, h, hc => by
    simp only [visitInputs] at h
    cases hr : rec st g with
    | error e => simp [hr] at h
    | ok st1 =>
      simp only [hr] at h
      obtain ⟨w1, _, _⟩ := hwfrec st g st1 hwf hr
      obtain ⟨_, s2, _⟩ := visitInputs_wf hwfrec ls st1 st' w1 h
      have hsem1 := hrec st g st1 hwf hsem hr (fun g hg => hc g (s2.done' hg))
      exact visitInputs_sem hwfrec hrec ls st1 st' w1 hsem1 h hc

theorem mark_sem {σ v : Nat → Bool} {st : State} {index : Nat} (hidx : index < st.gateMap.size)
    (hsem : SemInv σ v st) : SemInv σ v (mark st index) := by
  intro g hg
  obtain ⟨hne, hd⟩ := mark_done hidx hg
  rw [mark_getD st hidx g, if_neg (fun e => hne e.symm)]
  exact hsem g hd

theorem visit_sem {cfg : Cfg} {c : Circuit} {σ v : Nat → Bool} (hs : Small c) (hx : XorOk cfg c) :
    ∀ fuel, SemSpec cfg c σ v (visit cfg c fuel)
  | 0 => by intro st g st' _ _ h; simp [visit] at h
  | fuel + 1 => by
    intro st index st' hwf hsem h hc
    have ih := visit_sem (cfg := cfg) (σ := σ) (v := v) hs hx fuel
    have ihwf := visit_wf (cfg := cfg) hs fuel
    rw [visit_succ] at h
    by_cases hidx : index < st.gateMap.size
    · rw [if_pos hidx] at h
      by_cases hd : st.gateMap.getD index Lit.undef = Lit.discovered
      · rw [if_pos hd] at h; cases h
      · rw [if_neg hd] at h
        by_cases hnu : st.gateMap.getD index Lit.undef ≠ Lit.undef
        · rw [if_pos hnu] at h
          simp only [Except.ok.injEq] at h
          subst h
          exact hsem
        · rw [if_neg hnu] at h
          have hu : st.gateMap.getD index Lit.undef = Lit.undef := Classical.not_not.mp hnu
          have hwf1 := mark_wf hwf hidx hu
          have hsem1 := mark_sem (σ := σ) (v := v) hidx hsem
          change (match visitInputs (visit cfg c fuel) (mark st index)
              (c.gates.getD index (.and, [])).2 with
            | Except.error e => Except.error e
            | Except.ok st2 => finish cfg c st2 index (c.gates.getD index (.and, [])).1
                (c.gates.getD index (.and, [])).2) = Except.ok st' at h
          cases hvi : visitInputs (visit cfg c fuel) (mark st index)
              (c.gates.getD index (Kind.and, [])).2 with
          | error e => rw [hvi] at h; cases h
          | ok st2 =>
            rw [hvi] at h
            simp only at h
            obtain ⟨hwf2, step12, hch⟩ := visitInputs_wf ihwf _ _ st2 hwf1 hvi
            have hsz1 : (mark st index).gateMap.size = st.gateMap.size := by simp [mark]
            have hdisc2 : st2.gateMap.getD index Lit.undef = Lit.discovered :=
              step12.disc (by rw [mark_getD st hidx index]; simp)
            have hidx2 : index < st2.gateMap.size := by rw [step12.size, hsz1]; exact hidx
            obtain ⟨_, hdone', hother, _, _⟩ := finish_wf hs hwf2 hidx2 hdisc2 hch rfl h
            -- finished gates of `st2` stay finished in `st'`
            have hdone2 : ∀ g, Done st2.gateMap g → Done st'.gateMap g := by
              intro g hg
              have hgi : g ≠ index := by
                intro e; subst e
                unfold Done at hg; rw [hdisc2] at hg
                exact not_isDone_discovered hg
              unfold Done; rw [hother g hgi]; exact hg
            have hsem2 := visitInputs_sem ihwf ih _ _ st2 hwf1 hsem1 hvi (fun g hg => hc g (hdone2 g hg))
            exact finish_sem hs hx hwf2 hsem2 hidx2 hdisc2 hch (hc index hdone') h
    · rw [if_neg hidx] at h; cases h

end OxiddModel.Circuit
