import OxiddModel.Circuit.LemmasSem

/-!
From `visit` to `simplify`: the initial state satisfies the invariants, the loop over the roots
preserves them.
-/
namespace OxiddModel.Circuit

theorem initState_getD (c : Circuit) (g : Nat) : (initState c).gateMap.getD g Lit.undef = Lit.undef := by
  simp only [initState, Array.getD_eq_getD_getElem?, Array.getElem?_replicate]
  split <;> rfl

theorem initState_not_done (c : Circuit) (g : Nat) : ¬ Done (initState c).gateMap g := by
  unfold Done; rw [initState_getD]; exact not_isDone_undef

theorem initState_wf (cfg : Cfg) (c : Circuit) : WF cfg c (initState c) := by
  refine ⟨by simp [initState], ⟨?_, ?_⟩, by simp [initState], ?_, ?_, ?_, ?_, ⟨fun _ => 0, ?_, ?_⟩, ?_⟩
  · intro key l h; simp [initState, lookup] at h
  · intro k g h; simp [initState] at h
  · intro g hg; exact absurd hg (initState_not_done c g)
  · intro g hg; exact absurd hg (initState_not_done c g)
  · intro k g h; simp [initState] at h
  · intro k g h; simp [initState] at h
  · intro g hg; exact absurd hg (initState_not_done c g)
  · intro g hg; exact absurd hg (initState_not_done c g)
  · intro g hg; exact absurd hg (initState_not_done c g)

theorem initState_sem (σ v : Nat → Bool) (c : Circuit) : SemInv σ v (initState c) :=
  fun g hg => absurd hg (initState_not_done c g)

theorem visitRoots_wf {cfg : Cfg} {c : Circuit} (hs : Small c) :
    ∀ (roots : List Lit) (st st' : State), WF cfg c st → visitRoots cfg c st roots = .ok st' →
      WF cfg c st' ∧ Step st st' ∧ (∀ neg i, Lit.gate neg i ∈ roots → Done st'.gateMap i) ∧
      (cfg.bound = true → ∀ n i, Lit.input n i ∈ roots → i < c.ninputs)
  | [], st, st', hwf, h => by
    simp only [visitRoots, Except.ok.injEq] at h
    subst h
    exact ⟨hwf, Step.refl _, by simp, by simp⟩
  | .const b :: rs, st, st', hwf, h => by
    simp only [visitRoots] at h
    obtain ⟨h1, h2, h3, h4⟩ := visitRoots_wf hs rs st st' hwf h
    refine ⟨h1, h2, ?_, ?_⟩
    · intro neg i hi
      rcases List.mem_cons.mp hi with hi | hi
      · cases hi
      · exact h3 neg i hi
    · intro hb n i hi
      rcases List.mem_cons.mp hi with hi | hi
      · cases hi
      · exact h4 hb n i hi
  | .input m j :: rs, st, st', hwf, h => by
    simp only [visitRoots] at h
    split at h
    · cases h
    · rename_i hc
      obtain ⟨h1, h2, h3, h4⟩ := visitRoots_wf hs rs st st' hwf h
      refine ⟨h1, h2, ?_, ?_⟩
      · intro neg i hi
        rcases List.mem_cons.mp hi with hi | hi
        · cases hi
        · exact h3 neg i hi
      · intro hb n i hi
        rcases List.mem_cons.mp hi with hi | hi
        · simp only [Lit.input.injEq] at hi
          simp only [hb, Bool.true_and, decide_eq_true_eq, Nat.not_le] at hc
          rw [hi.2]; exact hc
        · exact h4 hb n i hi
  | .gate m g :: rs, st, st', hwf, h => by
    simp only [visitRoots] at h
    cases hv : visit cfg c (c.gates.size + 1) st g with
    | error e => simp [hv] at h
    | ok st1 =>
      simp only [hv] at h
      obtain ⟨w1, s1, d1⟩ := visit_wf hs _ st g st1 hwf hv
      obtain ⟨h1, h2, h3, h4⟩ := visitRoots_wf hs rs st1 st' w1 h
      refine ⟨h1, s1.trans h2, ?_, ?_⟩
      · intro neg i hi
        rcases List.mem_cons.mp hi with hi | hi
        · simp only [Lit.gate.injEq] at hi
          rw [hi.2]; exact h2.done' d1
        · exact h3 neg i hi
      · intro hb n i hi
        rcases List.mem_cons.mp hi with hi | hi
        · cases hi
        · exact h4 hb n i hi

theorem visitRoots_sem {cfg : Cfg} {c : Circuit} {σ v : Nat → Bool} (hs : Small c) (hx : XorOk cfg c) :
    ∀ (roots : List Lit) (st st' : State), WF cfg c st → SemInv σ v st →
      visitRoots cfg c st roots = .ok st' → (∀ g, Done st'.gateMap g → ConsistentAt c σ v g) →
      SemInv σ v st'
  | [], st, st', _, hsem, h, _ => by
    simp only [visitRoots, Except.ok.injEq] at h
    subst h; exact hsem
  | .const b :: rs, st, st', hwf, hsem, h, hc => by
    simp only [visitRoots] at h
    exact visitRoots_sem hs hx rs st st' hwf hsem h hc
  | .input m j :: rs, st, st', hwf, hsem, h, hc => by
    simp only [visitRoots] at h
    split at h
    · cases h
    · exact visitRoots_sem hs hx rs st st' hwf hsem h hc
  | .gate m g :: rs, st, st', hwf, hsem, h, hc => by
    simp only [visitRoots] at h
    cases hv : visit cfg c (c.gates.size + 1) st g with
    | error e => simp [hv] at h
    | ok st1 =>
      simp only [hv] at h
      obtain ⟨w1, _, _⟩ := visit_wf hs _ st g st1 hwf hv
      obtain ⟨_, s2, _, _⟩ := visitRoots_wf hs rs st1 st' w1 h
      have hsem1 := visit_sem hs hx _ st g st1 hwf hsem hv (fun g hg => hc g (s2.done' hg))
      exact visitRoots_sem hs hx rs st1 st' w1 hsem1 h hc

/-- unfolding of `simplify` on success -/
theorem simplify_ok {cfg : Cfg} {c c' : Circuit} {roots : List Lit} {m : Array Lit}
    (h : simplify cfg c roots = .ok (c', m)) :
    ∃ st, visitRoots cfg c (initState c) roots = .ok st ∧ c' = ⟨c.ninputs, st.newGates⟩ ∧
      m = st.gateMap := by
  unfold simplify at h
  cases hv : visitRoots cfg c (initState c) roots with
  | error e => simp [hv] at h
  | ok st =>
    simp only [hv, Except.ok.injEq, Prod.mk.injEq] at h
    exact ⟨st, rfl, h.1.symm, h.2.symm⟩

/-- at the end every entry is `UNDEF` or finished (no `DISCOVERED` left) -/
theorem final_undef_or_done {c : Circuit} {st : State} (h : Step (initState c) st) (g : Nat) :
    st.gateMap.getD g Lit.undef = Lit.undef ∨ Done st.gateMap g := by
  rcases h.mono g with e | ⟨_, d⟩
  · left; rw [e, initState_getD]
  · exact Or.inr d

end OxiddModel.Circuit
