import OxiddModel.Circuit.LemmasErr

/-!
`Err(cycle g)` is sound (`g` is reachable and lies on a cycle), and `simplify` is total on
acyclic, well-scoped circuits: no `Err`, no panic.
-/
namespace OxiddModel.Circuit

/-- gates reachable from the roots -/
inductive Reach (c : Circuit) (roots : List Lit) : Nat → Prop
  | root {neg g} : Lit.gate neg g ∈ roots → Reach c roots g
  | step {g neg i} : Reach c roots g → Lit.gate neg i ∈ (c.gates.getD g (.and, [])).2 → Reach c roots i

/-- `g` depends on `i` through one or more gate inputs -/
inductive Reaches (c : Circuit) : Nat → Nat → Prop
  | edge {g neg i} : Lit.gate neg i ∈ (c.gates.getD g (.and, [])).2 → Reaches c g i
  | trans {g h i} : Reaches c g h → Reaches c h i → Reaches c g i

/-! ### soundness of `Err(cycle g)` -/

def CycSpec (cfg : Cfg) (c : Circuit) (roots : List Lit) (rec : State → Nat → Except Err State) : Prop :=
  ∀ st g e, WF cfg c st → (∀ d, st.gateMap.getD d Lit.undef = Lit.discovered → Reaches c d g) →
    Reach c roots g → rec st g = .error (.cycle e) → Reach c roots e ∧ Reaches c e e

theorem Step.disc_of {st st' : State} (h : Step st st') {d : Nat}
    (hd : st'.gateMap.getD d Lit.undef = Lit.discovered) :
    st.gateMap.getD d Lit.undef = Lit.discovered := by
  rcases h.mono d with e | ⟨_, dn⟩
  · rw [← e]; exact hd
  · unfold Done at dn; rw [hd] at dn; exact absurd dn not_isDone_discovered

theorem visitInputs_cycle {cfg : Cfg} {c : Circuit} {roots : List Lit}
    {rec : State → Nat → Except Err State} (hspec : VisitSpec cfg c rec)
    (hrec : CycSpec cfg c roots rec) (top : Nat) (htop : Reach c roots top) :
    ∀ (ls : List Lit) (st : State) (e : Nat), WF cfg c st →
      (∀ l ∈ ls, l ∈ (c.gates.getD top (.and, [])).2) →
      (∀ d, st.gateMap.getD d Lit.undef = Lit.discovered → d = top ∨ Reaches c d top) →
      visitInputs rec st ls = .error (.cycle e) → Reach c roots e ∧ Reaches c e e
  | [], st, e, _, _, _, h => by simp [visitInputs] at h
  | .const b :: ls, st, e, hwf, hsub, hd, h => by
    simp only [visitInputs] at h
    exact visitInputs_cycle hspec hrec top htop ls st e hwf (fun l hl => hsub l (by simp [hl])) hd h
  | .input n j :: ls, st, e, hwf, hsub, hd, h => by
    simp only [visitInputs] at h
    exact visitInputs_cycle hspec hrec top htop ls st e hwf (fun l hl => hsub l (by simp [hl])) hd h
  | .gate n g :: ls, st, e, hwf, hsub, hd, h => by
    simp only [visitInputs] at h
    have hedge := hsub (.gate n g) (by simp)
    cases hr : rec st g with
    | error x =>
      simp only [hr, Except.error.injEq] at h
      subst h
      refine hrec st g e hwf ?_ (Reach.step htop hedge) hr
      intro d hdd
      rcases hd d hdd with rfl | hreach
      · exact Reaches.edge hedge
      · exact Reaches.trans hreach (Reaches.edge hedge)
    | ok st1 =>
      simp only [hr] at h
      obtain ⟨w1, s1, _⟩ := hspec st g st1 hwf hr
      exact visitInputs_cycle hspec hrec top htop ls st1 e w1 (fun l hl => hsub l (by simp [hl]))
        (fun d hdd => hd d (s1.disc_of hdd)) h

theorem finish_not_cycle {cfg : Cfg} {c : Circuit} {st : State} {index : Nat} {kind : Kind}
    {inputs : List Lit} {e : Nat} : finish cfg c st index kind inputs ≠ .error (.cycle e) := by
  unfold finish
  cases normalise cfg st.gateMap c.gates.size c.ninputs kind inputs with
  | err e => simp
  | panicBitset => simp
  | fwd l => simp
  | gate n r =>
    simp only
    cases lookup (kind, sortLits r) st.unique <;> simp

theorem visit_cycle {cfg : Cfg} {c : Circuit} {roots : List Lit} (hs : Small c) :
    ∀ fuel, CycSpec cfg c roots (visit cfg c fuel)
  | 0 => by intro st g e _ _ _ h; simp [visit] at h
  | fuel + 1 => by
    intro st index e hwf hd hreach h
    rw [visit_succ] at h
    by_cases hidx : index < st.gateMap.size
    · rw [if_pos hidx] at h
      by_cases hdisc : st.gateMap.getD index Lit.undef = Lit.discovered
      · rw [if_pos hdisc] at h
        simp only [Except.error.injEq, Err.cycle.injEq] at h
        subst h
        exact ⟨hreach, hd index hdisc⟩
      · rw [if_neg hdisc] at h
        by_cases hnu : st.gateMap.getD index Lit.undef ≠ Lit.undef
        · rw [if_pos hnu] at h; cases h
        · rw [if_neg hnu] at h
          have hu : st.gateMap.getD index Lit.undef = Lit.undef := Classical.not_not.mp hnu
          have hwf1 := mark_wf hwf hidx hu
          change (match visitInputs (visit cfg c fuel) (mark st index)
              (c.gates.getD index (.and, [])).2 with
            | Except.error e => Except.error e
            | Except.ok st2 => finish cfg c st2 index (c.gates.getD index (.and, [])).1
                (c.gates.getD index (.and, [])).2) = Except.error (Err.cycle e) at h
          cases hvi : visitInputs (visit cfg c fuel) (mark st index)
              (c.gates.getD index (Kind.and, [])).2 with
          | error x =>
            rw [hvi] at h
            simp only [Except.error.injEq] at h
            subst h
            refine visitInputs_cycle (visit_wf hs fuel) (visit_cycle hs fuel) index hreach _ _ e hwf1
              (fun l hl => hl) ?_ hvi
            intro d hdd
            rw [mark_getD st hidx d] at hdd
            by_cases hdi : index = d
            · exact Or.inl hdi.symm
            · rw [if_neg hdi] at hdd
              exact Or.inr (hd d hdd)
          | ok st2 =>
            rw [hvi] at h
            exact absurd h finish_not_cycle
    · rw [if_neg hidx] at h; cases h

theorem visitRoots_cycle {cfg : Cfg} {c : Circuit} {roots : List Lit} (hs : Small c) :
    ∀ (rs : List Lit) (st : State) (e : Nat), WF cfg c st → (∀ r ∈ rs, r ∈ roots) →
      (∀ d, st.gateMap.getD d Lit.undef ≠ Lit.discovered) →
      visitRoots cfg c st rs = .error (.cycle e) → Reach c roots e ∧ Reaches c e e
  | [], st, e, _, _, _, h => by simp [visitRoots] at h
  | .const b :: rs, st, e, hwf, hsub, hnd, h => by
    simp only [visitRoots] at h
    exact visitRoots_cycle hs rs st e hwf (fun r hr => hsub r (by simp [hr])) hnd h
  | .input n i :: rs, st, e, hwf, hsub, hnd, h => by
    simp only [visitRoots] at h
    split at h
    · cases h
    · exact visitRoots_cycle hs rs st e hwf (fun r hr => hsub r (by simp [hr])) hnd h
  | .gate n g :: rs, st, e, hwf, hsub, hnd, h => by
    simp only [visitRoots] at h
    cases hv : visit cfg c (c.gates.size + 1) st g with
    | error x =>
      simp only [hv, Except.error.injEq] at h
      subst h
      exact visit_cycle hs _ st g e hwf (fun d hd => absurd hd (hnd d))
        (Reach.root (hsub (.gate n g) (by simp))) hv
    | ok st1 =>
      simp only [hv] at h
      obtain ⟨w1, s1, _⟩ := visit_wf hs _ st g st1 hwf hv
      exact visitRoots_cycle hs rs st1 e w1 (fun r hr => hsub r (by simp [hr]))
        (fun d hd => hnd d (s1.disc_of hd)) h

/-! ### totality on acyclic, well-scoped circuits -/

/-- the circuit is acyclic and well-scoped: gate inputs name existing gates of smaller rank and
known inputs -/
structure Good (c : Circuit) : Prop where
  acyclic : ∃ rank : Nat → Nat, ∀ g, g < c.gates.size → ∀ neg i,
    Lit.gate neg i ∈ (c.gates.getD g (.and, [])).2 → i < c.gates.size ∧ rank i < rank g
  inputs : ∀ g, g < c.gates.size → ∀ n i,
    Lit.input n i ∈ (c.gates.getD g (.and, [])).2 → i < c.ninputs

/-- input literals in the gate map name known inputs -/
def MapIn (c : Circuit) (st : State) : Prop :=
  ∀ g, Done st.gateMap g → ∀ n i, st.gateMap.getD g Lit.undef = Lit.input n i → i < c.ninputs

/-- the errors that must not occur on a good circuit (cycle errors are excluded separately) -/
def BadErr : Err → Prop
  | .input _ => True
  | .panicIndex => True
  | .panicBitset => True
  | _ => False

theorem FromInput.input_lt {cfg : Cfg} {gm : Array Lit} {G N : Nat} {kind : Kind} {inputs : List Lit}
    {x : Lit} (h : FromInput cfg gm G N kind inputs x)
    (hin : ∀ n i, Lit.input n i ∈ inputs → i < N)
    (hgm : ∀ neg j, Lit.gate neg j ∈ inputs → ∀ m i, gm.getD j Lit.undef = Lit.input m i → i < N)
    {m : Bool} {i : Nat} (hx : x = Lit.input m i) : i < N := by
  rcases h.2 with ⟨_, ⟨l, hl, e⟩, _⟩ | ⟨_, l, hl, e, _⟩
  · subst e
    cases l with
    | const b => cases hx
    | input n j => simp only [mapLit, Lit.input.injEq] at hx; exact hx.2 ▸ hin n j hl
    | gate n j =>
      simp only [mapLit] at hx
      cases hg : gm.getD j Lit.undef with
      | const b => rw [hg] at hx; cases hx
      | gate a b => rw [hg] at hx; cases hx
      | input a b =>
        rw [hg] at hx
        simp only [Lit.xorB, Lit.input.injEq] at hx
        exact hx.2 ▸ hgm n j hl a b hg
  · subst e
    cases l with
    | const b => cases hx
    | input n j => simp only [xorSrc, Lit.positive, Lit.input.injEq] at hx; exact hx.2 ▸ hin n j hl
    | gate n j =>
      simp only [xorSrc] at hx
      cases hg : gm.getD j Lit.undef with
      | const b => rw [hg] at hx; cases hx
      | gate a b => rw [hg] at hx; cases hx
      | input a b =>
        rw [hg] at hx
        simp only [Lit.positive, Lit.input.injEq] at hx
        exact hx.2 ▸ hgm n j hl a b hg

theorem known_of_lt {cfg : Cfg} {G N : Nat} {m : Bool} {i : Nat} (h : i < N) :
    unknownInput cfg G N (Lit.input m i) = false := by
  simp only [unknownInput]
  split
  · simp only [decide_eq_false_iff_not, Nat.not_le]; exact h
  · simp only [decide_eq_false_iff_not, Nat.not_lt]; omega

theorem idx_lt_of {G N : Nat} {x : Lit} (hG : 0 < G) (hin : ∀ m i, x = Lit.input m i → i < N)
    (hg : ∀ m k, x = Lit.gate m k → k < G) : idx G x < 2 * (G + N) := by
  cases x with
  | const b => cases b <;> simp [idx, Lit.code, Lit.isNeg] <;> omega
  | input m i =>
    have := hin m i rfl
    cases m <;> simp [idx, Lit.code, Lit.isNeg] <;> omega
  | gate m k =>
    have := hg m k rfl
    cases m <;> simp [idx] <;> omega

theorem normalise_panic {cfg : Cfg} {gm : Array Lit} {G N : Nat} {kind : Kind} {inputs : List Lit}
    (h : normalise cfg gm G N kind inputs = .panicBitset) :
    ∃ n r, phase1 cfg gm G N kind inputs = .mapped n r ∧ dedup G N kind r = .panic := by
  unfold normalise at h
  cases hp : phase1 cfg gm G N kind inputs with
  | err e => simp [hp] at h
  | dominated => simp [hp] at h
  | mapped n r =>
    refine ⟨n, r, rfl, ?_⟩
    simp only [hp] at h
    unfold post at h
    split at h
    · cases h
    · cases hd : dedup G N kind r with
      | panic => rfl
      | complement => simp [hd] at h
      | ok q =>
        rw [hd] at h
        match q, h with
        | [], h => simp only at h; split at h <;> cases h
        | [a], h => cases h
        | a :: b :: t, h => cases h

theorem finish_total {cfg : Cfg} {c : Circuit} (_hs : Small c) (hgood : Good c) {st : State}
    {index : Nat} (hwf : WF cfg c st) (hmi : MapIn c st) (hidx : index < st.gateMap.size)
    (hdisc : st.gateMap.getD index Lit.undef = Lit.discovered)
    (hch : ∀ neg i, Lit.gate neg i ∈ (c.gates.getD index (.and, [])).2 → Done st.gateMap i) :
    (∀ e, finish cfg c st index (c.gates.getD index (.and, [])).1 (c.gates.getD index (.and, [])).2
      = .error e → ¬ BadErr e) ∧
    (∀ st', finish cfg c st index (c.gates.getD index (.and, [])).1 (c.gates.getD index (.and, [])).2
      = .ok st' → MapIn c st') := by
  have hiG : index < c.gates.size := hwf.size ▸ hidx
  have hnd : ¬ (st.gateMap.getD index Lit.undef).isDone := by rw [hdisc]; exact not_isDone_discovered
  have hcntlt : st.newGates.size < c.gates.size := by
    have := doneCount_lt hidx hnd
    have := hwf.cnt
    have := hwf.size
    omega
  have hin : ∀ n i, Lit.input n i ∈ (c.gates.getD index (.and, [])).2 → i < c.ninputs :=
    hgood.inputs index hiG
  have hgm : ∀ neg j, Lit.gate neg j ∈ (c.gates.getD index (.and, [])).2 →
      ∀ m i, st.gateMap.getD j Lit.undef = Lit.input m i → i < c.ninputs :=
    fun neg j hj m i e => hmi j (hch neg j hj) m i e
  have hsc : ∀ neg i, Lit.gate neg i ∈ (c.gates.getD index (.and, [])).2 →
      (st.gateMap.getD i Lit.undef).scoped st.newGates.size :=
    fun neg i hi => hwf.mapScoped i (hch neg i hi)
  -- the normalisation neither reports an input nor panics
  have hnoerr : ∀ e, normalise cfg st.gateMap c.gates.size c.ninputs (c.gates.getD index (.and, [])).1
      (c.gates.getD index (.and, [])).2 ≠ .err e := by
    intro e he
    obtain ⟨hunk, l, hl, hor⟩ := normalise_err he
    have hknown : unknownInput cfg c.gates.size c.ninputs e = false := by
      cases l with
      | const b => rcases hor with h | h <;> subst h <;> rfl
      | input n i =>
        rcases hor with h | h <;> subst h
        · exact known_of_lt (hin n i hl)
        · exact known_of_lt (hin n i hl)
      | gate n j =>
        have hk := hwf.mapKnown j (hch n j hl)
        rcases hor with h | h <;> subst h
        · simp only [mapLit]; rw [unknownInput_xorB]; exact hk
        · simp only [xorSrc]
          cases hg : st.gateMap.getD j Lit.undef with
          | const b => rfl
          | gate a b => rfl
          | input a b => rw [hg] at hk; simpa [Lit.positive, unknownInput] using hk
    rw [hknown] at hunk; cases hunk
  have hnopanic : normalise cfg st.gateMap c.gates.size c.ninputs (c.gates.getD index (.and, [])).1
      (c.gates.getD index (.and, [])).2 ≠ .panicBitset := by
    intro hp
    obtain ⟨n, r, hp1, hdd⟩ := normalise_panic hp
    refine dedup_no_panic (fun x hx => ?_) hdd
    have hfrom := phase1_from hp1 x hx
    refine idx_lt_of (by omega) (fun m i e => hfrom.input_lt hin hgm e) ?_
    intro m k e
    have := hfrom.scoped hsc
    rw [e] at this
    simp only [Lit.scoped] at this
    omega
  constructor
  · intro e he
    unfold finish at he
    cases hn : normalise cfg st.gateMap c.gates.size c.ninputs (c.gates.getD index (.and, [])).1
        (c.gates.getD index (.and, [])).2 with
    | err x => exact absurd hn (hnoerr x)
    | panicBitset => exact absurd hn hnopanic
    | fwd l => rw [hn] at he; cases he
    | gate n r =>
      rw [hn] at he
      simp only at he
      cases hl : lookup ((c.gates.getD index (.and, [])).1, sortLits r) st.unique <;>
        rw [hl] at he <;> cases he
  · intro st' hok
    obtain ⟨_, l, hgmeq, hcase⟩ := finish_struct hwf.uniq hok
    intro g hg n i hgi
    by_cases hgidx : g = index
    · subst hgidx
      rw [hgmeq, getD_setIfInBounds, if_pos ⟨rfl, hidx⟩] at hgi
      rcases hcase with ⟨hn, _⟩ | ⟨n', r, k, r', _, hl, _⟩
      · rcases normalise_shape.2 l hn with ⟨b, rfl⟩ | ⟨x, n', hx, rfl⟩
        · cases hgi
        · cases x with
          | const b => cases hgi
          | gate a b => cases hgi
          | input a b =>
            simp only [Lit.xorB, Lit.input.injEq] at hgi
            exact hgi.2 ▸ hx.input_lt hin hgm rfl
      · subst hl; cases hgi
    · have e : st'.gateMap.getD g Lit.undef = st.gateMap.getD g Lit.undef := by
        rw [hgmeq, getD_setIfInBounds, if_neg (fun h => hgidx h.1.symm)]
      have hd : Done st.gateMap g := by unfold Done; rw [← e]; exact hg
      exact hmi g hd n i (e ▸ hgi)

def TotSpec (cfg : Cfg) (c : Circuit) (rec : State → Nat → Except Err State) : Prop :=
  ∀ st g, WF cfg c st → MapIn c st → g < c.gates.size →
    (∀ e, rec st g = .error e → ¬ BadErr e) ∧ (∀ st', rec st g = .ok st' → MapIn c st')

theorem visitInputs_total {cfg : Cfg} {c : Circuit} {rec : State → Nat → Except Err State}
    (hspec : VisitSpec cfg c rec) (hrec : TotSpec cfg c rec) :
    ∀ (ls : List Lit) (st : State), WF cfg c st → MapIn c st →
      (∀ neg i, Lit.gate neg i ∈ ls → i < c.gates.size) →
      (∀ e, visitInputs rec st ls = .error e → ¬ BadErr e) ∧
      (∀ st', visitInputs rec st ls = .ok st' → MapIn c st')
  | [], st, _, hmi, _ => by
    simp only [visitInputs]
    exact ⟨by simp, fun st' h => by simp only [Except.ok.injEq] at h; exact h ▸ hmi⟩
  | .const b :: ls, st, hwf, hmi, hr => by
    simp only [visitInputs]
    exact visitInputs_total hspec hrec ls st hwf hmi (fun n i hi => hr n i (by simp [hi]))
  | .input n j :: ls, st, hwf, hmi, hr => by
    simp only [visitInputs]
    exact visitInputs_total hspec hrec ls st hwf hmi (fun n i hi => hr n i (by simp [hi]))
  | .gate n g :: ls, st, hwf, hmi, hr => by
    simp only [visitInputs]
    obtain ⟨h1, h2⟩ := hrec st g hwf hmi (hr n g (by simp))
    cases hrg : rec st g with
    | error e =>
      simp only
      refine ⟨fun e' he => ?_, by simp⟩
      simp only [Except.error.injEq] at he
      exact he ▸ h1 e hrg
    | ok st1 =>
      simp only
      obtain ⟨w1, _, _⟩ := hspec st g st1 hwf hrg
      exact visitInputs_total hspec hrec ls st1 w1 (h2 st1 hrg) (fun n i hi => hr n i (by simp [hi]))

theorem mark_mapIn {c : Circuit} {st : State} {index : Nat} (hidx : index < st.gateMap.size)
    (h : MapIn c st) : MapIn c (mark st index) := by
  intro g hg n i e
  obtain ⟨hne, hd⟩ := mark_done hidx hg
  rw [mark_getD st hidx g, if_neg (fun x => hne x.symm)] at e
  exact h g hd n i e

theorem visit_total {cfg : Cfg} {c : Circuit} (hs : Small c) (hgood : Good c) :
    ∀ fuel, TotSpec cfg c (visit cfg c fuel)
  | 0 => by
    intro st g _ _ _
    simp only [visit]
    exact ⟨fun e h => by simp only [Except.error.injEq] at h; subst h; simp [BadErr], by simp⟩
  | fuel + 1 => by
    intro st index hwf hmi hiG
    have hidx : index < st.gateMap.size := hwf.size ▸ hiG
    rw [visit_succ, if_pos hidx]
    by_cases hd : st.gateMap.getD index Lit.undef = Lit.discovered
    · rw [if_pos hd]
      exact ⟨fun e h => by simp only [Except.error.injEq] at h; subst h; simp [BadErr], by simp⟩
    · rw [if_neg hd]
      by_cases hnu : st.gateMap.getD index Lit.undef ≠ Lit.undef
      · rw [if_pos hnu]
        exact ⟨by simp, fun st' h => by simp only [Except.ok.injEq] at h; exact h ▸ hmi⟩
      · rw [if_neg hnu]
        have hu : st.gateMap.getD index Lit.undef = Lit.undef := Classical.not_not.mp hnu
        have hwf1 := mark_wf hwf hidx hu
        have hmi1 := mark_mapIn (c := c) hidx hmi
        obtain ⟨rank, hrank⟩ := hgood.acyclic
        have hrange : ∀ neg i, Lit.gate neg i ∈ (c.gates.getD index (.and, [])).2 → i < c.gates.size :=
          fun neg i hi => (hrank index hiG neg i hi).1
        obtain ⟨t1, t2⟩ := visitInputs_total (visit_wf hs fuel) (visit_total hs hgood fuel)
          (c.gates.getD index (.and, [])).2 (mark st index) hwf1 hmi1 hrange
        show (∀ e, (match visitInputs (visit cfg c fuel) (mark st index)
              (c.gates.getD index (.and, [])).2 with
            | Except.error e => Except.error e
            | Except.ok st2 => finish cfg c st2 index (c.gates.getD index (.and, [])).1
                (c.gates.getD index (.and, [])).2) = Except.error e → ¬ BadErr e) ∧
          (∀ st', (match visitInputs (visit cfg c fuel) (mark st index)
              (c.gates.getD index (.and, [])).2 with
            | Except.error e => Except.error e
            | Except.ok st2 => finish cfg c st2 index (c.gates.getD index (.and, [])).1
                (c.gates.getD index (.and, [])).2) = Except.ok st' → MapIn c st')
        cases hvi : visitInputs (visit cfg c fuel) (mark st index)
            (c.gates.getD index (Kind.and, [])).2 with
        | error x =>
          simp only
          refine ⟨fun e he => ?_, by simp⟩
          simp only [Except.error.injEq] at he
          exact he ▸ t1 x hvi
        | ok st2 =>
          simp only
          obtain ⟨hwf2, step12, hch⟩ := visitInputs_wf (visit_wf hs fuel) _ _ st2 hwf1 hvi
          have hsz1 : (mark st index).gateMap.size = st.gateMap.size := by simp [mark]
          have hdisc2 : st2.gateMap.getD index Lit.undef = Lit.discovered :=
            step12.disc (by rw [mark_getD st hidx index]; simp)
          have hidx2 : index < st2.gateMap.size := by rw [step12.size, hsz1]; exact hidx
          exact finish_total hs hgood hwf2 (t2 st2 hvi) hidx2 hdisc2 hch

theorem visitRoots_total {cfg : Cfg} {c : Circuit} (hs : Small c) (hgood : Good c) :
    ∀ (rs : List Lit) (st : State), WF cfg c st → MapIn c st →
      (∀ neg g, Lit.gate neg g ∈ rs → g < c.gates.size) →
      (cfg.bound = true → ∀ n i, Lit.input n i ∈ rs → i < c.ninputs) →
      ∀ e, visitRoots cfg c st rs = .error e → ¬ BadErr e
  | [], st, _, _, _, _, e, h => by simp [visitRoots] at h
  | .const b :: rs, st, hwf, hmi, hr, hi, e, h => by
    simp only [visitRoots] at h
    exact visitRoots_total hs hgood rs st hwf hmi (fun n g hg => hr n g (by simp [hg]))
      (fun hb n i hh => hi hb n i (by simp [hh])) e h
  | .input m j :: rs, st, hwf, hmi, hr, hi, e, h => by
    simp only [visitRoots] at h
    split at h
    · rename_i hc
      simp only [Bool.and_eq_true, decide_eq_true_eq] at hc
      have := hi hc.1 m j (by simp)
      omega
    · exact visitRoots_total hs hgood rs st hwf hmi (fun n g hg => hr n g (by simp [hg]))
        (fun hb n i hh => hi hb n i (by simp [hh])) e h
  | .gate m g :: rs, st, hwf, hmi, hr, hi, e, h => by
    simp only [visitRoots] at h
    obtain ⟨t1, t2⟩ := visit_total hs hgood (c.gates.size + 1) st g hwf hmi (hr m g (by simp))
    cases hv : visit cfg c (c.gates.size + 1) st g with
    | error x =>
      simp only [hv, Except.error.injEq] at h
      exact h ▸ t1 x hv
    | ok st1 =>
      simp only [hv] at h
      obtain ⟨w1, _, _⟩ := visit_wf hs _ st g st1 hwf hv
      exact visitRoots_total hs hgood rs st1 w1 (t2 st1 hv) (fun n g hg => hr n g (by simp [hg]))
        (fun hb n i hh => hi hb n i (by simp [hh])) e h

/-! ### with the repaired bound the bit set never panics, whatever the circuit -/

theorem finish_no_bitset_panic {cfg : Cfg} (hb : cfg.bound = true) {c : Circuit} {st : State}
    {index : Nat} (hwf : WF cfg c st) (hidx : index < st.gateMap.size)
    (hdisc : st.gateMap.getD index Lit.undef = Lit.discovered)
    (hch : ∀ neg i, Lit.gate neg i ∈ (c.gates.getD index (.and, [])).2 → Done st.gateMap i) :
    finish cfg c st index (c.gates.getD index (.and, [])).1 (c.gates.getD index (.and, [])).2
      ≠ .error .panicBitset := by
  have hnd : ¬ (st.gateMap.getD index Lit.undef).isDone := by rw [hdisc]; exact not_isDone_discovered
  have hcntlt : st.newGates.size < c.gates.size := by
    have := doneCount_lt hidx hnd
    have := hwf.cnt
    have := hwf.size
    omega
  have hsc : ∀ neg i, Lit.gate neg i ∈ (c.gates.getD index (.and, [])).2 →
      (st.gateMap.getD i Lit.undef).scoped st.newGates.size :=
    fun neg i hi => hwf.mapScoped i (hch neg i hi)
  intro he
  unfold finish at he
  cases hn : normalise cfg st.gateMap c.gates.size c.ninputs (c.gates.getD index (.and, [])).1
      (c.gates.getD index (.and, [])).2 with
  | err x => rw [hn] at he; cases he
  | fwd l => rw [hn] at he; cases he
  | gate n r =>
    rw [hn] at he
    simp only at he
    cases hl : lookup ((c.gates.getD index (.and, [])).1, sortLits r) st.unique <;>
      rw [hl] at he <;> cases he
  | panicBitset =>
    obtain ⟨n, r, hp1, hdd⟩ := normalise_panic hn
    refine dedup_no_panic (fun x hx => ?_) hdd
    have hfrom := phase1_from hp1 x hx
    refine idx_lt_of (by omega) ?_ ?_
    · intro m i e
      have := hfrom.1
      rw [e] at this
      simpa [unknownInput, hb] using this
    · intro m k e
      have := hfrom.scoped hsc
      rw [e] at this
      simp only [Lit.scoped] at this
      omega

theorem visitInputs_no_bitset_panic {cfg : Cfg} {c : Circuit} {rec : State → Nat → Except Err State}
    (hspec : VisitSpec cfg c rec)
    (hrec : ∀ st g, WF cfg c st → rec st g ≠ .error .panicBitset) :
    ∀ (ls : List Lit) (st : State), WF cfg c st → visitInputs rec st ls ≠ .error .panicBitset
  | [], st, _ => by simp [visitInputs]
  | .const b :: ls, st, hwf => by
    simp only [visitInputs]; exact visitInputs_no_bitset_panic hspec hrec ls st hwf
  | .input n j :: ls, st, hwf => by
    simp only [visitInputs]; exact visitInputs_no_bitset_panic hspec hrec ls st hwf
  | .gate n g :: ls, st, hwf => by
    simp only [visitInputs]
    cases hr : rec st g with
    | error e =>
      simp only
      intro he
      simp only [Except.error.injEq] at he
      exact hrec st g hwf (he ▸ hr)
    | ok st1 =>
      simp only
      obtain ⟨w1, _, _⟩ := hspec st g st1 hwf hr
      exact visitInputs_no_bitset_panic hspec hrec ls st1 w1

theorem visit_no_bitset_panic {cfg : Cfg} (hb : cfg.bound = true) {c : Circuit} (hs : Small c) :
    ∀ fuel st index, WF cfg c st → visit cfg c fuel st index ≠ .error .panicBitset
  | 0, _, _, _ => by simp [visit]
  | fuel + 1, st, index, hwf => by
    rw [visit_succ]
    by_cases hidx : index < st.gateMap.size
    · rw [if_pos hidx]
      by_cases hd : st.gateMap.getD index Lit.undef = Lit.discovered
      · rw [if_pos hd]; simp
      · rw [if_neg hd]
        by_cases hnu : st.gateMap.getD index Lit.undef ≠ Lit.undef
        · rw [if_pos hnu]; simp
        · rw [if_neg hnu]
          have hu : st.gateMap.getD index Lit.undef = Lit.undef := Classical.not_not.mp hnu
          have hwf1 := mark_wf hwf hidx hu
          show (match visitInputs (visit cfg c fuel) (mark st index)
              (c.gates.getD index (.and, [])).2 with
            | Except.error e => Except.error e
            | Except.ok st2 => finish cfg c st2 index (c.gates.getD index (.and, [])).1
                (c.gates.getD index (.and, [])).2) ≠ Except.error Err.panicBitset
          have hvi := visitInputs_no_bitset_panic (visit_wf hs fuel)
            (fun st g hw => visit_no_bitset_panic hb hs fuel st g hw)
            (c.gates.getD index (.and, [])).2 (mark st index) hwf1
          cases hres : visitInputs (visit cfg c fuel) (mark st index)
              (c.gates.getD index (Kind.and, [])).2 with
          | error e =>
            simp only
            intro he
            simp only [Except.error.injEq] at he
            exact hvi (he ▸ hres)
          | ok st2 =>
            simp only
            obtain ⟨hwf2, step12, hch⟩ := visitInputs_wf (visit_wf hs fuel) _ _ st2 hwf1 hres
            have hsz1 : (mark st index).gateMap.size = st.gateMap.size := by simp [mark]
            have hdisc2 : st2.gateMap.getD index Lit.undef = Lit.discovered :=
              step12.disc (by rw [mark_getD st hidx index]; simp)
            have hidx2 : index < st2.gateMap.size := by rw [step12.size, hsz1]; exact hidx
            exact finish_no_bitset_panic hb hwf2 hidx2 hdisc2 hch
    · rw [if_neg hidx]; simp

theorem visitRoots_no_bitset_panic {c : Circuit} (hs : Small c) :
    ∀ (roots : List Lit) (st : State), WF Cfg.fixed c st →
      visitRoots Cfg.fixed c st roots ≠ .error .panicBitset
  | [], st, _ => by simp [visitRoots]
  | .const b :: rs, st, hwf => by
    simp only [visitRoots]; exact visitRoots_no_bitset_panic hs rs st hwf
  | .input n i :: rs, st, hwf => by
    simp only [visitRoots]
    split
    · simp
    · exact visitRoots_no_bitset_panic hs rs st hwf
  | .gate n g :: rs, st, hwf => by
    simp only [visitRoots]
    cases hv : visit Cfg.fixed c (c.gates.size + 1) st g with
    | error e =>
      simp only
      intro he
      simp only [Except.error.injEq] at he
      exact visit_no_bitset_panic rfl hs _ st g hwf (he ▸ hv)
    | ok st1 =>
      simp only
      obtain ⟨w1, _, _⟩ := visit_wf hs _ st g st1 hwf hv
      exact visitRoots_no_bitset_panic hs rs st1 w1

end OxiddModel.Circuit
