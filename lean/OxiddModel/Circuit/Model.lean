/-!
# Model of `oxidd_parser::Circuit::simplify` (crates/oxidd-parser/src/lib.rs)

`Lit` mirrors `Literal` (constants, inputs, gates, each with a polarity; `Lit.code` is the Rust
bit encoding, whose numeric order is the order `simplify` sorts by).  `simplify` is the same
depth-first search as the Rust `inner` function: `gate_map` with the two marker literals `UNDEF`
and `DISCOVERED`, constant folding for AND/OR/XOR, XOR polarity extraction, duplicate and
complement detection with the bit set `input_set` (including its out-of-range panics), forwarding
of single-input gates, structural hashing of the sorted input list.

The model is parametric in a `Cfg` of four Booleans, one per repair of the `fix:` commit c066e71 in
`/repo` ("Circuit::simplify rejects unknown inputs … and maps empty and fully cancelled XOR gates to
the right constant").  `Cfg.fixed` (all `true`) is the code as it is in `/repo` now — this is what
the driver executes and what the correspondence check compares with the real code.
`Cfg.beforeFix` (all `false`) is the code before that commit; it is kept so that the defects stay
documented as theorems (`…_before_fix`).  The lemmas are proved for an arbitrary `cfg` under
hypotheses of the form "flag set or the defect cannot trigger"; the headline theorems in
`Properties.lean` instantiate them with `Cfg.fixed`, where these hypotheses are discharged.
-/
namespace OxiddModel.Circuit

/-- `Literal`: constants (`⊥ = const false`, `⊤ = const true`), circuit inputs and gates -/
inductive Lit where
  | const (b : Bool)
  | input (neg : Bool) (i : Nat)
  | gate (neg : Bool) (g : Nat)
  deriving DecidableEq, Repr, Inhabited

namespace Lit

/-- the Rust encoding `(var << 2) | (gate << 1) | polarity`; inputs are stored as `i + 1` -/
def code : Lit → Nat
  | const b => b.toNat
  | input neg i => 4 * (i + 1) + neg.toNat
  | gate neg g => 4 * g + 2 + neg.toNat

/-- `Literal::MAX_INPUT + 1` on a 64 bit target: the input number of `Literal::UNDEF` -/
def undefIdx : Nat := 2 ^ 62 - 2

/-- `Literal::UNDEF` -/
def undef : Lit := input false undefIdx
/-- `DISCOVERED = Literal::UNDEF.negative()` -/
def discovered : Lit := input true undefIdx

/-- `is_negative` (note `⊤` is the negative constant) -/
def isNeg : Lit → Bool
  | const b => b
  | input neg _ => neg
  | gate neg _ => neg

/-- `positive()` -/
def positive : Lit → Lit
  | const _ => const false
  | input _ i => input false i
  | gate _ g => gate false g

/-- `self ^ b` (`BitXor<bool>`) -/
def xorB : Lit → Bool → Lit
  | const c, b => const (c != b)
  | input neg i, b => input (neg != b) i
  | gate neg g, b => gate (neg != b) g

/-- `!self` -/
def not (l : Lit) : Lit := l.xorB true

/-- the literal without its polarity bit (`l.0 >> 1`); two literals are over the same variable
iff `a.negative() == b.negative()` iff their `var`s agree -/
def var (l : Lit) : Nat := l.code / 2

end Lit

/-- `GateKind` -/
inductive Kind where
  | and | or | xor
  deriving DecidableEq, Repr, Inhabited

abbrev Gate := Kind × List Lit

/-- `Circuit`: number of inputs (`inputs.len()`) and the gates -/
structure Circuit where
  ninputs : Nat
  gates : Array Gate
  deriving Repr, DecidableEq

/-- which of the repairs of commit c066e71 are applied (`Cfg.fixed`: all — the code as it is) -/
structure Cfg where
  /-- (a) known-input bound is `inputs.len()` with `>=`; AND/OR scan all inputs before returning
  the dominator; roots that are unknown inputs are rejected -/
  bound : Bool
  /-- (c) a constant coming from an already mapped gate is dropped from an XOR -/
  xorConst : Bool
  /-- (b1) an XOR without (non-constant) inputs is `⊥ ^ neg_out`, not `⊤ ^ neg_out` -/
  xorEmpty : Bool
  /-- (b2) an XOR whose inputs all cancel becomes a constant instead of a gate without inputs -/
  xorCancel : Bool
  deriving DecidableEq, Repr

/-- the code as it is in `/repo` -/
def Cfg.fixed : Cfg := ⟨true, true, true, true⟩
/-- the code before the `fix:` commit c066e71 -/
def Cfg.beforeFix : Cfg := ⟨false, false, false, false⟩

/-- `Err(l)` results and the panics of the real code; `fuel` is never produced (see
`simplify_fuel_sufficient`) -/
inductive Err where
  | cycle (g : Nat)
  | input (l : Lit)
  | panicIndex
  | panicBitset
  | fuel
  deriving DecidableEq, Repr

/-! ## Phase 1: apply `gate_map` to the inputs, conditions 1 + 2 -/

/-- `l.get_gate_no().map_or(l, |i| gate_map[i] ^ l.is_negative())` -/
def mapLit (gm : Array Lit) : Lit → Lit
  | .gate neg i => (gm.getD i Lit.undef).xorB neg
  | l => l

/-- `l.is_input() && l.get_input().unwrap() >= known_inputs` with `known_inputs = N`; before the fix
the code compared `> known_inputs` with `known_inputs = input_set.len() - gates.len() = G + 2 N` -/
def unknownInput (cfg : Cfg) (G N : Nat) : Lit → Bool
  | .input _ i => if cfg.bound then decide (N ≤ i) else decide (G + 2 * N < i)
  | _ => false

inductive P1 where
  | err (l : Lit)
  | dominated
  | mapped (negOut : Bool) (ls : List Lit)
  deriving DecidableEq, Repr

/-- the `for &l in inputs` loop of the `And | Or` arm -/
def mapAndOr (cfg : Cfg) (gm : Array Lit) (G N : Nat) (identity dominator : Lit) : List Lit → P1
  | [] => .mapped false []
  | l :: ls =>
    let l' := mapLit gm l
    if unknownInput cfg G N l' then .err l'
    else if l' = dominator ∧ cfg.bound = false then .dominated
    else match mapAndOr cfg gm G N identity dominator ls with
      | .err e => .err e
      | .dominated => .dominated
      | .mapped _ r =>
        if l' = dominator then .dominated
        else if l' = identity then .mapped false r
        else .mapped false (l' :: r)

/-- XOR arm: the literal an input is replaced by before `positive()` (`gate_map[i]` for gates) -/
def xorSrc (gm : Array Lit) : Lit → Lit
  | .gate _ i => gm.getD i Lit.undef
  | l => l

/-- XOR arm: contribution of one input to `neg_out` (`neg_out ^= l.is_negative()`, and for gates
additionally `neg_out ^= gate_map[i].is_negative()`) -/
def xorFlip (gm : Array Lit) : Lit → Bool
  | .gate neg i => neg != (gm.getD i Lit.undef).isNeg
  | l => l.isNeg

/-- XOR arm: is the input dropped (`x ⊕ ⊥ ≡ x`)?  Before the fix only constants
written in the gate itself were dropped, not constants that come out of `gate_map`. -/
def xorSkip (cfg : Cfg) (gm : Array Lit) : Lit → Bool
  | .gate _ i => cfg.xorConst && decide ((gm.getD i Lit.undef).positive = .const false)
  | l => decide (l.positive = .const false)

/-- the `for &l in inputs` loop of the `Xor` arm -/
def mapXor (cfg : Cfg) (gm : Array Lit) (G N : Nat) : List Lit → P1
  | [] => .mapped false []
  | l :: ls =>
    let l' := (xorSrc gm l).positive
    if xorSkip cfg gm l then
      match mapXor cfg gm G N ls with
      | .mapped n r => .mapped (n != xorFlip gm l) r
      | o => o
    else if unknownInput cfg G N l' then .err l'
    else
      match mapXor cfg gm G N ls with
      | .mapped n r => .mapped (n != xorFlip gm l) (l' :: r)
      | o => o

/-! ## Condition 3: duplicates and complements via the bit set -/

/-- index of a literal in `input_set` (the closure `map` in the Rust code) -/
def idx (G : Nat) : Lit → Nat
  | .gate neg g => 2 * g + neg.toNat
  | l => 2 * (l.code / 4) + l.isNeg.toNat + (2 * G - 2)

/-- `inputs.len() >= 3 || (inputs.len() == 2 && inputs[0].negative() == inputs[1].negative())` -/
def needDedup : List Lit → Bool
  | [] => false
  | [_] => false
  | [a, b] => a.var == b.var
  | _ => true

inductive DD where
  | panic
  | complement
  | set (s : List Nat)
  deriving DecidableEq, Repr

/-- AND/OR: `if input_set.contains(map(!l)) { … return } input_set.insert(map(l))`.
`s` is the list of set bits (all `< len`); `insert` panics out of range, `contains` does not. -/
def insertAll (G len : Nat) : List Lit → List Nat → DD
  | [], s => .set s
  | l :: ls, s =>
    if s.contains (idx G l.not) then .complement
    else if idx G l < len then
      insertAll G len ls (if s.contains (idx G l) then s else idx G l :: s)
    else .panic

/-- XOR: `input_set.toggle(map(l))` -/
def toggleAll (G len : Nat) : List Lit → List Nat → DD
  | [], s => .set s
  | l :: ls, s =>
    if idx G l < len then
      toggleAll G len ls (if s.contains (idx G l) then s.erase (idx G l) else idx G l :: s)
    else .panic

/-- `inputs.retain(|&l| if input_set.contains(i) { input_set.remove(i); true } else { false })` -/
def retain (G : Nat) : List Lit → List Nat → List Lit
  | [], _ => []
  | l :: ls, s =>
    if s.contains (idx G l) then l :: retain G ls (s.erase (idx G l))
    else retain G ls s

inductive Dedup where
  | panic
  | complement
  | ok (ls : List Lit)
  deriving DecidableEq, Repr

def dedup (G N : Nat) (kind : Kind) (ins : List Lit) : Dedup :=
  if needDedup ins then
    let len := 2 * (G + N)
    match (match kind with
      | .xor => toggleAll G len ins []
      | _ => insertAll G len ins []) with
    | .panic => .panic
    | .complement => .complement
    | .set s => .ok (retain G ins s)
  else .ok ins

/-! ## One gate: everything between the recursive calls and the unique table -/

/-- `GateKind::empty_gate` -/
def emptyGate : Kind → Lit
  | .and => .const true
  | _ => .const false

inductive Norm where
  | err (l : Lit)
  | panicBitset
  /-- the gate is replaced by an existing literal (constant, forwarded single input) -/
  | fwd (l : Lit)
  /-- a gate of the same kind with these inputs, output negated iff `negOut` -/
  | gate (negOut : Bool) (ins : List Lit)
  deriving DecidableEq, Repr

/-- conditions 3 and 4: everything after the `match kind { … }` that maps the inputs -/
def post (cfg : Cfg) (G N : Nat) (kind : Kind) (negOut : Bool) (ins : List Lit) : Norm :=
  if ins.isEmpty then
    -- "first part of condition 4"
    .fwd (match kind with
      | .and => .const true
      | .or => .const false
      | .xor => if cfg.xorEmpty then .const negOut else .const (!negOut))
  else
    match dedup G N kind ins with
    | .panic => .panicBitset
    | .complement => .fwd (match kind with
        | .and => .const false
        | _ => .const true)
    | .ok [l] => .fwd (l.xorB negOut)
    | .ok [] => if cfg.xorCancel then .fwd ((emptyGate kind).xorB negOut) else .gate negOut []
    | .ok ins' => .gate negOut ins'

def phase1 (cfg : Cfg) (gm : Array Lit) (G N : Nat) (kind : Kind) (inputs : List Lit) : P1 :=
  match kind with
  | .and => mapAndOr cfg gm G N (.const true) (.const false) inputs
  | .or => mapAndOr cfg gm G N (.const false) (.const true) inputs
  | .xor => mapXor cfg gm G N inputs

def normalise (cfg : Cfg) (gm : Array Lit) (G N : Nat) (kind : Kind) (inputs : List Lit) : Norm :=
  match phase1 cfg gm G N kind inputs with
  | .err l => .err l
  | .dominated => .fwd (match kind with
      | .and => .const false
      | _ => .const true)
  | .mapped negOut ins => post cfg G N kind negOut ins

/-! ## Structural hashing -/

def insertSorted (l : Lit) : List Lit → List Lit
  | [] => [l]
  | x :: xs => if l.code ≤ x.code then l :: x :: xs else x :: insertSorted l xs

/-- `inputs.sort_unstable()` (equal literals are indistinguishable, so any sort will do) -/
def sortLits : List Lit → List Lit
  | [] => []
  | x :: xs => insertSorted x (sortLits xs)

def lookup (key : Gate) : List (Gate × Lit) → Option Lit
  | [] => none
  | (k, v) :: rest => if k = key then some v else lookup key rest

structure State where
  /-- `gate_map` -/
  gateMap : Array Lit
  /-- `new_gates` -/
  newGates : Array Gate
  /-- `unique_map`: (kind, sorted inputs) ↦ literal of the new gate -/
  unique : List (Gate × Lit)
  deriving Repr

/-- the part of `inner` after the recursive calls -/
def finish (cfg : Cfg) (c : Circuit) (st : State) (index : Nat) (kind : Kind) (inputs : List Lit) :
    Except Err State :=
  match normalise cfg st.gateMap c.gates.size c.ninputs kind inputs with
  | .err l => .error (.input l)
  | .panicBitset => .error .panicBitset
  | .fwd l => .ok { st with gateMap := st.gateMap.setIfInBounds index l }
  | .gate negOut ins =>
    let key : Gate := (kind, sortLits ins)
    match lookup key st.unique with
    | some l =>
      -- `Entry::Occupied`: the gate just pushed is popped again
      .ok { st with gateMap := st.gateMap.setIfInBounds index (l.xorB negOut) }
    | none =>
      let l := Lit.gate false st.newGates.size
      .ok { gateMap := st.gateMap.setIfInBounds index (l.xorB negOut)
            newGates := st.newGates.push (kind, ins)
            unique := (key, l) :: st.unique }

/-- the loop `for &l in inputs { if let Some(gate) = l.get_gate_no() { inner(…, gate, …)?; } }` -/
def visitInputs (rec : State → Nat → Except Err State) : State → List Lit → Except Err State
  | st, [] => .ok st
  | st, .gate _ g :: ls =>
    match rec st g with
    | .ok st' => visitInputs rec st' ls
    | .error e => .error e
  | st, _ :: ls => visitInputs rec st ls

/-- `inner`; `fuel` bounds the recursion depth (`G + 1` suffices) -/
def visit (cfg : Cfg) (c : Circuit) : Nat → State → Nat → Except Err State
  | 0, _, _ => .error .fuel
  | fuel + 1, st, index =>
    if index < st.gateMap.size then
      let e := st.gateMap.getD index Lit.undef
      if e = Lit.discovered then .error (.cycle index)
      else if e ≠ Lit.undef then .ok st
      else
        let st1 : State := { st with gateMap := st.gateMap.setIfInBounds index Lit.discovered }
        let g := c.gates.getD index (.and, [])
        match visitInputs (visit cfg c fuel) st1 g.2 with
        | .error e => .error e
        | .ok st2 => finish cfg c st2 index g.1 g.2
    else .error .panicIndex

/-- the loop over `roots` -/
def visitRoots (cfg : Cfg) (c : Circuit) : State → List Lit → Except Err State
  | st, [] => .ok st
  | st, .gate _ g :: rs =>
    match visit cfg c (c.gates.size + 1) st g with
    | .ok st' => visitRoots cfg c st' rs
    | .error e => .error e
  | st, .input neg i :: rs =>
    if cfg.bound && decide (c.ninputs ≤ i) then .error (.input (.input neg i))
    else visitRoots cfg c st rs
  | st, _ :: rs => visitRoots cfg c st rs

def initState (c : Circuit) : State :=
  { gateMap := Array.replicate c.gates.size Lit.undef, newGates := #[], unique := [] }

/-- `Circuit::simplify` -/
def simplify (cfg : Cfg) (c : Circuit) (roots : List Lit) : Except Err (Circuit × Array Lit) :=
  match visitRoots cfg c (initState c) roots with
  | .ok st => .ok ({ ninputs := c.ninputs, gates := st.newGates }, st.gateMap)
  | .error e => .error e

end OxiddModel.Circuit
