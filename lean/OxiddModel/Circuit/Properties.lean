import OxiddModel.Circuit.PropertiesCfg

/-!
# C18 — `Circuit::simplify`: headline theorems

Property text: *"Circuit::simplify returns a circuit in which every reachable root denotes the same
Boolean function of the inputs as before and which satisfies the five documented normal-form
conditions (no constant inputs, XOR inputs positive, distinct inputs per gate, at least two inputs,
no structurally equal gates), together with a gate map consistent with it; cycles and references
to unknown inputs are reported as errors."*

The theorems are about `simplify Cfg.fixed`, the model of `Circuit::simplify` as it is in `/repo`
(after the `fix:` commit c066e71) — the function the driver executes and the correspondence check
compares with the real code on every generated circuit.  They carry no hypothesis about the
circuit besides `Small c` (the circuit is representable: `#gates + 2·#inputs < 2^62 - 2`, the input
number of `Literal::UNDEF`; the Rust type cannot express larger circuits).

The defects the commit repaired stay documented in `PropertiesCfg.lean` as theorems about
`simplify Cfg.beforeFix`: `simplify_equiv_fails_before_fix`, `simplify_nf1_fails_before_fix`,
`simplify_nf4_fails_before_fix`, `simplify_unknown_accepted_before_fix`,
`simplify_unknown_panics_before_fix` (witnesses) and the `…_partial_before_fix` statements.
-/
namespace OxiddModel.Circuit

theorem xorOk_fixed (c : Circuit) : XorOk Cfg.fixed c := Or.inl rfl

/-! ## Equivalence -/

/-- **simplify_equiv.**  For every input assignment `σ` and every valuation `v` of the old gates
that satisfies the defining equations of the gates that got an image in the gate map, the image
of such a gate evaluates in the new circuit to the value of the gate. -/
theorem simplify_equiv {c c' : Circuit} {roots : List Lit} {m : Array Lit} (hs : Small c)
    (h : simplify Cfg.fixed c roots = .ok (c', m)) (σ v : Nat → Bool)
    (hv : ∀ g, Done m g → ConsistentAt c σ v g) :
    ∀ g, Done m g → evalNew σ c' (m.getD g Lit.undef) = v g :=
  simplify_equiv_cfg hs (xorOk_fixed c) h σ v hv

/-- **simplify_equiv_eval.**  Every gate reachable from the roots denotes the same Boolean
function of the inputs (`evalOld`: evaluation of the source circuit) as its image under the gate
map does in the simplified circuit (`evalNew`) — for every circuit, all roots, every assignment. -/
theorem simplify_equiv_eval {c c' : Circuit} {roots : List Lit} {m : Array Lit} (hs : Small c)
    (h : simplify Cfg.fixed c roots = .ok (c', m)) (σ : Nat → Bool) {g : Nat}
    (hg : Reach c roots g) : evalNew σ c' (m.getD g Lit.undef) = evalOld c σ g :=
  simplify_equiv_eval_cfg hs (xorOk_fixed c) h σ hg

/-- **simplify_equiv_root.**  Every root, mapped with `apply_gate_map` as `Problem::simplify` does,
denotes the same Boolean function as before. -/
theorem simplify_equiv_root {c c' : Circuit} {roots : List Lit} {m : Array Lit} (hs : Small c)
    (h : simplify Cfg.fixed c roots = .ok (c', m)) (σ : Nat → Bool) {r : Lit} (hr : r ∈ roots) :
    evalNew σ c' (applyMap m r) = litVal σ (evalOld c σ) r :=
  simplify_equiv_root_cfg hs (xorOk_fixed c) h σ hr

/-- non-vacuity: the documented example, `and(xor(¬i0, i1, i2))` ↦ `¬xor(i0, i1, i2)` -/
example : simplify Cfg.fixed ⟨3, #[(.xor, [.input true 0, .input false 1, .input false 2]),
      (.and, [.gate false 0])]⟩ [.gate false 1]
    = .ok (⟨3, #[(.xor, [.input false 0, .input false 1, .input false 2])]⟩,
      #[.gate true 0, .gate true 0]) := by rfl

/-- regression: the former counterexamples `xor()`, `xor(⊤, ⊥)` now get the right constant -/
example : simplify Cfg.fixed ⟨2, #[(.xor, [])]⟩ [.gate false 0] = .ok (⟨2, #[]⟩, #[.const false]) := by rfl
example : simplify Cfg.fixed ⟨2, #[(.xor, [.const true, .const false])]⟩ [.gate false 0]
    = .ok (⟨2, #[]⟩, #[.const true]) := by rfl

/-! ## Normal form -/

/-- **simplify_nf_fixed: the five documented conditions**, plus: inputs are known, gates are
topologically sorted.  Condition 5 is stated with `List.Perm` ("same inputs disregarding the
order"). -/
theorem simplify_nf_fixed {c c' : Circuit} {roots : List Lit} {m : Array Lit}
    (hs : Small c) (h : simplify Cfg.fixed c roots = .ok (c', m)) :
    (∀ (k : Nat) (g : Gate), c'.gates.toList[k]? = some g →
      (∀ x ∈ g.2, ∀ b, x ≠ Lit.const b) ∧                          -- 1. no constant inputs
      (g.1 = .xor → ∀ x ∈ g.2, x.isNeg = false) ∧                   -- 2. XOR inputs positive
      (g.2.map Lit.var).Nodup ∧                                      -- 3. distinct inputs
      2 ≤ g.2.length ∧                                               -- 4. at least two inputs
      (∀ x ∈ g.2, ∀ n i, x = Lit.input n i → i < c.ninputs) ∧       --    inputs are known
      (∀ x ∈ g.2, x.scoped k)) ∧                                     --    topologically sorted
    (∀ (j k : Nat) (gj gk : Gate), c'.gates.toList[j]? = some gj → c'.gates.toList[k]? = some gk →
      gj.1 = gk.1 → gj.2.Perm gk.2 → j = k) :=                -- 5. no structurally equal gates
  simplify_nf_of_fixed hs h

/-- regression: the former counterexamples to conditions 4 and 1 -/
example : simplify Cfg.fixed ⟨2, #[(.xor, [.input false 0, .input false 0])]⟩ [.gate false 0]
    = .ok (⟨2, #[]⟩, #[.const false]) := by rfl
example : simplify Cfg.fixed ⟨2, #[(.and, [.input false 0, .const false]),
      (.xor, [.gate false 0, .input false 1, .input false 0])]⟩ [.gate false 1]
    = .ok (⟨2, #[(.xor, [.input false 1, .input false 0])]⟩, #[.const false, .gate false 0]) := by rfl

/-! ## Gate map -/

/-- **simplify_map_ok.**  The gate map has one entry per old gate; an entry is `UNDEF` or a
literal valid in the new circuit (a constant, a known input, a gate of the new circuit); all
reachable gates have an entry; the new circuit has the same inputs and not more gates. -/
theorem simplify_map_ok {c c' : Circuit} {roots : List Lit} {m : Array Lit}
    (hs : Small c) (h : simplify Cfg.fixed c roots = .ok (c', m)) :
    m.size = c.gates.size ∧ c'.ninputs = c.ninputs ∧ c'.gates.size ≤ c.gates.size ∧
    (∀ g, m.getD g Lit.undef = Lit.undef ∨
      ((m.getD g Lit.undef).isDone ∧ (m.getD g Lit.undef).scoped c'.gates.size ∧
        ∀ n i, m.getD g Lit.undef = Lit.input n i → i < c.ninputs)) ∧
    (∀ g, Reach c roots g → (m.getD g Lit.undef).isDone) := by
  obtain ⟨h1, h2, h3, h4, h5⟩ := simplify_map_ok_cfg hs h
  refine ⟨h1, h2, h3, ?_, h5⟩
  intro g
  rcases h4 g with hu | ⟨hd, hsc, hk⟩
  · exact Or.inl hu
  · refine Or.inr ⟨hd, hsc, ?_⟩
    intro n i e
    rw [e] at hk
    simpa [unknownInput, Cfg.fixed] using hk

/-- every gate reachable from the roots has an image in the gate map -/
theorem simplify_reach_done {c c' : Circuit} {roots : List Lit} {m : Array Lit} (hs : Small c)
    (h : simplify Cfg.fixed c roots = .ok (c', m)) {g : Nat} (hg : Reach c roots g) : Done m g :=
  simplify_reach_done_cfg hs h hg

/-! ## Errors: cycles and unknown inputs -/

/-- **simplify_cycle (⇐).**  If a cycle is reachable from the roots, `simplify` does not succeed. -/
theorem simplify_cycle {c : Circuit} {roots : List Lit} (hs : Small c) {g : Nat}
    (hg : Reach c roots g) (hcyc : Reaches c g g) :
    ∀ c' m, simplify Cfg.fixed c roots ≠ .ok (c', m) :=
  simplify_cycle_cfg hs hg hcyc

/-- **simplify_cycle (⇒), soundness of the reported gate.**  `Err(g)` for a gate `g` means that
`g` is reachable from the roots and depends on itself. -/
theorem simplify_cycle_sound {c : Circuit} {roots : List Lit} (hs : Small c) {e : Nat}
    (h : simplify Cfg.fixed c roots = .error (.cycle e)) : Reach c roots e ∧ Reaches c e e :=
  simplify_cycle_sound_cfg hs h

/-- non-vacuity: `g0 = and(g1, i0)`, `g1 = or(g0, i1)` -/
example : simplify Cfg.fixed ⟨2, #[(.and, [.gate false 1, .input false 0]),
    (.or, [.gate false 0, .input false 1])]⟩ [.gate false 0] = .error (.cycle 0) := by rfl

/-- **simplify_unknown.**  Success implies that every root and every input literal of every
reachable gate names a known input; i.e. a reference to an unknown input (`≥ inputs.len()`,
including `Literal::UNDEF`) anywhere in the reachable fragment makes `simplify` fail. -/
theorem simplify_unknown {c c' : Circuit} {roots : List Lit} {m : Array Lit} (hs : Small c)
    (h : simplify Cfg.fixed c roots = .ok (c', m)) :
    (∀ n i, Lit.input n i ∈ roots → i < c.ninputs) ∧
    (∀ g, Reach c roots g → ∀ n i, Lit.input n i ∈ (c.gates.getD g (.and, [])).2 → i < c.ninputs) :=
  simplify_unknown_cfg rfl hs h

/-- soundness of the reported literal: `Err(l)` for a non-gate `l` means that `l` is an input
`≥ inputs.len()` -/
theorem simplify_unknown_sound {c : Circuit} {roots : List Lit} {l : Lit}
    (h : simplify Cfg.fixed c roots = .error (.input l)) : ∃ n i, l = Lit.input n i ∧ c.ninputs ≤ i := by
  have := simplify_err_input_sound_cfg h
  cases l with
  | const b => simp [unknownInput] at this
  | gate n g => simp [unknownInput] at this
  | input n i => exact ⟨n, i, rfl, by simpa [unknownInput, Cfg.fixed] using this⟩

/-- regression: the former counterexamples (`and(i0, i1)`, `and(i0, i1, i1)` with one known
input; an unknown input behind the dominator; an unknown root) are reported -/
example : simplify Cfg.fixed ⟨1, #[(.and, [.input false 0, .input false 1])]⟩ [.gate false 0]
    = .error (.input (.input false 1)) := by rfl
example : simplify Cfg.fixed ⟨1, #[(.and, [.input false 0, .input false 1, .input false 1])]⟩ [.gate false 0]
    = .error (.input (.input false 1)) := by rfl
example : simplify Cfg.fixed ⟨1, #[(.and, [.const false, .input true 3])]⟩ [.gate false 0]
    = .error (.input (.input true 3)) := by rfl
example : simplify Cfg.fixed ⟨1, #[]⟩ [.input false 5] = .error (.input (.input false 5)) := by rfl

/-- **termination without fuel exhaustion**: the recursion depth bound `G + 1` of the model is
sufficient -/
theorem simplify_fuel_sufficient {c : Circuit} {roots : List Lit} (hs : Small c) :
    simplify Cfg.fixed c roots ≠ .error .fuel :=
  simplify_fuel_sufficient_cfg hs

/-- **simplify_total: no `Err` and no panic on acyclic, well-scoped input.**  If all gate
references name existing gates, the circuit is acyclic, all input literals name known inputs
(`Good c`) and the roots are in range, then `simplify` succeeds. -/
theorem simplify_total {c : Circuit} {roots : List Lit} (hs : Small c) (hgood : Good c)
    (hroots : ∀ neg g, Lit.gate neg g ∈ roots → g < c.gates.size)
    (hrin : ∀ n i, Lit.input n i ∈ roots → i < c.ninputs) :
    ∃ c' m, simplify Cfg.fixed c roots = .ok (c', m) :=
  simplify_total_cfg hs hgood hroots (fun _ => hrin)

/-- the only results of `simplify` are: success, `Err(gate)`, `Err(input)`, and — for a literal
naming a gate that does not exist, which is outside the documented contract — the index panic;
the bit set never panics -/
theorem simplify_no_bitset_panic {c : Circuit} {roots : List Lit} (hs : Small c) :
    simplify Cfg.fixed c roots ≠ .error .panicBitset := by
  intro h
  unfold simplify at h
  cases hv : visitRoots Cfg.fixed c (initState c) roots with
  | ok st => simp [hv] at h
  | error x =>
    simp only [hv, Except.error.injEq] at h
    subst h
    exact visitRoots_no_bitset_panic hs roots _ (initState_wf Cfg.fixed c) hv

end OxiddModel.Circuit
