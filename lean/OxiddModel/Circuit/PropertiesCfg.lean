import OxiddModel.Circuit.LemmasEval
import OxiddModel.Circuit.LemmasTotal

/-!
# C18 — `Circuit::simplify`: the theorems for an arbitrary configuration

All theorems here are about `simplify cfg` for an arbitrary `cfg : Cfg`.  A hypothesis of the form
`cfg.flag = true ∨ …` names the repair of commit c066e71 the statement depends on.
`Properties.lean` instantiates them with `Cfg.fixed` (the code as it is in `/repo`), where all
these hypotheses are discharged.  Instantiated with `Cfg.beforeFix` they give the `…_before_fix`
statements that document the defects the commit repaired: the partial statements that held, and
concrete witnesses for the full statements that did not.

`Small c` says that the circuit is representable (`#gates + 2·#inputs < 2^62 - 2`, the input number
of `Literal::UNDEF`); the Rust type cannot even express larger circuits.
-/
namespace OxiddModel.Circuit

/-- `Literal::apply_gate_map` -/
def applyMap (m : Array Lit) (l : Lit) : Lit := mapLit m l

/-- facts about a successful run, collected once -/
theorem simplify_final_cfg {cfg : Cfg} {c c' : Circuit} {roots : List Lit} {m : Array Lit}
    (hs : Small c) (h : simplify cfg c roots = .ok (c', m)) :
    ∃ st, c' = ⟨c.ninputs, st.newGates⟩ ∧ m = st.gateMap ∧ WF cfg c st ∧
      Step (initState c) st ∧ (∀ neg i, Lit.gate neg i ∈ roots → Done st.gateMap i) ∧
      (cfg.bound = true → ∀ n i, Lit.input n i ∈ roots → i < c.ninputs) ∧
      visitRoots cfg c (initState c) roots = .ok st := by
  obtain ⟨st, hv, hc, hm⟩ := simplify_ok h
  obtain ⟨hwf, hstep, hr, hb⟩ := visitRoots_wf hs roots _ st (initState_wf cfg c) hv
  exact ⟨st, hc, hm, hwf, hstep, hr, hb, hv⟩

/-- every gate reachable from the roots has an image in the gate map -/
theorem simplify_reach_done_cfg {cfg : Cfg} {c c' : Circuit} {roots : List Lit} {m : Array Lit}
    (hs : Small c) (h : simplify cfg c roots = .ok (c', m)) {g : Nat} (hg : Reach c roots g) :
    Done m g := by
  obtain ⟨st, _, hm, hwf, _, hr, _, _⟩ := simplify_final_cfg hs h
  subst hm
  obtain ⟨rank, _, hr2⟩ := hwf.acyc
  induction hg with
  | root hroot => exact hr _ _ hroot
  | step _ hedge ih => exact (hr2 _ ih _ _ hedge).1

/-! ## Equivalence -/

/-- **simplify_equiv_cfg.**  For every input assignment `σ` and every valuation `v` of the old gates
that satisfies the defining equations of the gates that got an image, the image of a gate
evaluates in the new circuit to the value of the gate.  (`XorOk`: the wrong constant for XOR gates
whose inputs all vanish is repaired, or every XOR gate has an input literal.) -/
theorem simplify_equiv_cfg {cfg : Cfg} {c c' : Circuit} {roots : List Lit} {m : Array Lit}
    (hs : Small c) (hx : XorOk cfg c) (h : simplify cfg c roots = .ok (c', m))
    (σ v : Nat → Bool) (hv : ∀ g, Done m g → ConsistentAt c σ v g) :
    ∀ g, Done m g → evalNew σ c' (m.getD g Lit.undef) = v g := by
  obtain ⟨st, hc, hm, _, _, _, _, hvr⟩ := simplify_final_cfg hs h
  subst hm hc
  exact visitRoots_sem hs hx roots _ st (initState_wf cfg c) (initState_sem σ v c) hvr hv

/-- **simplify_equiv_cfg**, stated with the fuel-based evaluation `evalOld` of the source circuit:
every reachable gate — hence every root — denotes the same Boolean function of the inputs as its
image under the gate map does in the simplified circuit. -/
theorem simplify_equiv_eval_cfg {cfg : Cfg} {c c' : Circuit} {roots : List Lit} {m : Array Lit}
    (hs : Small c) (hx : XorOk cfg c) (h : simplify cfg c roots = .ok (c', m)) (σ : Nat → Bool)
    {g : Nat} (hg : Reach c roots g) :
    evalNew σ c' (m.getD g Lit.undef) = evalOld c σ g := by
  obtain ⟨st, _, hm, hwf, _, _, _, _⟩ := simplify_final_cfg hs h
  refine simplify_equiv_cfg hs hx h σ (evalOld c σ) ?_ g (simplify_reach_done_cfg hs h hg)
  intro g' hg'
  subst hm
  exact evalOld_consistent hwf σ g' hg'

/-- the same for root literals (`Problem::simplify` maps the roots with `apply_gate_map`) -/
theorem simplify_equiv_root_cfg {cfg : Cfg} {c c' : Circuit} {roots : List Lit} {m : Array Lit}
    (hs : Small c) (hx : XorOk cfg c) (h : simplify cfg c roots = .ok (c', m)) (σ : Nat → Bool)
    {r : Lit} (hr : r ∈ roots) :
    evalNew σ c' (applyMap m r) = litVal σ (evalOld c σ) r := by
  cases r with
  | const b => rfl
  | input n i => rfl
  | gate n g =>
    have := simplify_equiv_eval_cfg hs hx h σ (Reach.root hr)
    unfold evalNew at this ⊢
    show litVal σ _ ((m.getD g Lit.undef).xorB n) = (evalOld c σ g != n)
    rw [litVal_xorB, this]

/-- before the fix: equivalence held when every XOR gate has an input literal -/
theorem simplify_equiv_partial_before_fix {c c' : Circuit} {roots : List Lit} {m : Array Lit} (hs : Small c)
    (hxor : ∀ g, (c.gates.getD g (.and, [])).1 = .xor →
      ∃ n i, Lit.input n i ∈ (c.gates.getD g (.and, [])).2)
    (h : simplify Cfg.beforeFix c roots = .ok (c', m)) (σ : Nat → Bool) {g : Nat} (hg : Reach c roots g) :
    evalNew σ c' (m.getD g Lit.undef) = evalOld c σ g :=
  simplify_equiv_eval_cfg hs (Or.inr hxor) h σ hg

/-- before the fix the full statement was false: `xor()` (and `xor(⊥)`, `xor(⊤)`, …) was mapped to
the wrong constant (defect b1) -/
theorem simplify_equiv_fails_before_fix :
    ∃ (c c' : Circuit) (roots : List Lit) (m : Array Lit) (σ : Nat → Bool) (g : Nat),
      Small c ∧ simplify Cfg.beforeFix c roots = .ok (c', m) ∧ Reach c roots g ∧
      evalNew σ c' (m.getD g Lit.undef) ≠ evalOld c σ g :=
  ⟨⟨2, #[(.xor, [])]⟩, ⟨2, #[]⟩, [.gate false 0], #[.const true], fun _ => false, 0,
    by unfold Small; decide, by rfl, Reach.root (neg := false) (by simp), by decide⟩

/-- non-vacuity: the documented example, `and(xor(¬i0, i1, i2))` ↦ `¬xor(i0, i1, i2)` -/
example : simplify Cfg.beforeFix ⟨3, #[(.xor, [.input true 0, .input false 1, .input false 2]),
      (.and, [.gate false 0])]⟩ [.gate false 1]
    = .ok (⟨3, #[(.xor, [.input false 0, .input false 1, .input false 2])]⟩,
      #[.gate true 0, .gate true 0]) := by rfl

/-! ## Normal form -/

/-- equal sorted input lists ⇔ same inputs disregarding the order -/
theorem insertSorted_sorted (a : Lit) : ∀ {l : List Lit}, l.Pairwise (fun x y => x.code ≤ y.code) →
    (insertSorted a l).Pairwise (fun x y => x.code ≤ y.code)
  | [], _ => by simp [insertSorted]
  | x :: xs, h => by
    simp only [insertSorted]
    split
    · rename_i hle
      refine List.Pairwise.cons ?_ h
      intro y hy
      rcases List.mem_cons.mp hy with rfl | hy
      · exact hle
      · exact Nat.le_trans hle (List.rel_of_pairwise_cons h hy)
    · rename_i hnle
      refine List.Pairwise.cons ?_ (insertSorted_sorted a (List.Pairwise.of_cons h))
      intro y hy
      have := (insertSorted_perm a xs).subset hy
      rcases List.mem_cons.mp this with rfl | hy
      · omega
      · exact List.rel_of_pairwise_cons h hy

theorem sortLits_sorted : ∀ l : List Lit, (sortLits l).Pairwise (fun x y => x.code ≤ y.code)
  | [] => List.Pairwise.nil
  | x :: xs => insertSorted_sorted x (sortLits_sorted xs)

theorem Lit.code_inj {a b : Lit} (h : a.code = b.code) : a = b := by
  cases a with
  | const x =>
    cases b with
    | const y => cases x <;> cases y <;> simp [Lit.code] at h ⊢
    | input y j => cases x <;> cases y <;> simp [Lit.code] at h <;> omega
    | gate y j => cases x <;> cases y <;> simp [Lit.code] at h <;> omega
  | input x i =>
    cases b with
    | const y => cases x <;> cases y <;> simp [Lit.code] at h <;> omega
    | input y j => cases x <;> cases y <;> simp [Lit.code] at h ⊢ <;> omega
    | gate y j => cases x <;> cases y <;> simp [Lit.code] at h <;> omega
  | gate x i =>
    cases b with
    | const y => cases x <;> cases y <;> simp [Lit.code] at h <;> omega
    | input y j => cases x <;> cases y <;> simp [Lit.code] at h <;> omega
    | gate y j => cases x <;> cases y <;> simp [Lit.code] at h ⊢ <;> omega

theorem sortLits_eq_of_perm {l₁ l₂ : List Lit} (h : l₁.Perm l₂) : sortLits l₁ = sortLits l₂ :=
  List.Perm.eq_of_pairwise (fun _ _ _ _ h1 h2 => Lit.code_inj (Nat.le_antisymm h1 h2))
    (sortLits_sorted l₁) (sortLits_sorted l₂)
    (((sortLits_perm l₁).trans h).trans (sortLits_perm l₂).symm)

/-- **simplify_nf_cfg.**  The gates of the result are topologically sorted and satisfy
conditions 1–4 (`GateNF`: 1 for XOR gates and 4 up to the named defects); no two of them have the
same kind and the same inputs up to order (condition 5). -/
theorem simplify_nf_cfg {cfg : Cfg} {c c' : Circuit} {roots : List Lit} {m : Array Lit}
    (hs : Small c) (h : simplify cfg c roots = .ok (c', m)) :
    (∀ (k : Nat) (g : Gate), c'.gates.toList[k]? = some g →
      GateNF cfg c.gates.size c.ninputs g ∧ ∀ l ∈ g.2, l.scoped k) ∧
    (∀ (j k : Nat) (gj gk : Gate), c'.gates.toList[j]? = some gj → c'.gates.toList[k]? = some gk →
      gj.1 = gk.1 → gj.2.Perm gk.2 → j = k) := by
  obtain ⟨st, hc, _, hwf, _, _, _, _⟩ := simplify_final_cfg hs h
  subst hc
  refine ⟨fun k g hk => ⟨hwf.nf k g hk, hwf.topo k g hk⟩, ?_⟩
  intro j k gj gk hj hk h1 h2
  have e1 := hwf.uniq.complete j gj hj
  have e2 := hwf.uniq.complete k gk hk
  rw [h1, sortLits_eq_of_perm h2, e2] at e1
  simp only [Option.some.injEq, Lit.gate.injEq, true_and] at e1
  exact e1.symm

/-- the five documented conditions, literally, for the code as it is -/
theorem simplify_nf_of_fixed {c c' : Circuit} {roots : List Lit} {m : Array Lit}
    (hs : Small c) (h : simplify Cfg.fixed c roots = .ok (c', m)) :
    (∀ (k : Nat) (g : Gate), c'.gates.toList[k]? = some g →
      (∀ x ∈ g.2, ∀ b, x ≠ Lit.const b) ∧                          -- 1. no constant inputs
      (g.1 = .xor → ∀ x ∈ g.2, x.isNeg = false) ∧                   -- 2. XOR inputs positive
      (g.2.map Lit.var).Nodup ∧                                      -- 3. distinct inputs
      2 ≤ g.2.length ∧                                               -- 4. at least two inputs
      (∀ x ∈ g.2, ∀ n i, x = Lit.input n i → i < c.ninputs) ∧       --    inputs are known
      (∀ x ∈ g.2, x.scoped k)) ∧                                     --    topologically sorted
    (∀ (j k : Nat) (gj gk : Gate), c'.gates.toList[j]? = some gj → c'.gates.toList[k]? = some gk →
      gj.1 = gk.1 → gj.2.Perm gk.2 → j = k) := by            -- 5. no structurally equal gates
  obtain ⟨h1, h5⟩ := simplify_nf_cfg hs h
  refine ⟨?_, h5⟩
  intro k g hk
  obtain ⟨nf, topo⟩ := h1 k g hk
  refine ⟨nf.nf1 (Or.inl rfl), nf.nf2, nf.nf3, ?_, ?_, topo⟩
  · rcases nf.nf4 with h | ⟨_, _, h⟩
    · exact h
    · cases h
  · intro x hx n i e
    have := nf.known x hx
    subst e
    simpa [unknownInput, Cfg.fixed] using this

/-- before the fix: conditions 2, 3 and 5 held, condition 1 for AND/OR gates, condition 4 for
AND/OR gates (and for XOR gates unless all inputs cancel) -/
theorem simplify_nf_partial_before_fix {c c' : Circuit} {roots : List Lit} {m : Array Lit}
    (hs : Small c) (h : simplify Cfg.beforeFix c roots = .ok (c', m)) :
    (∀ (k : Nat) (g : Gate), c'.gates.toList[k]? = some g →
      (g.1 ≠ .xor → ∀ x ∈ g.2, ∀ b, x ≠ Lit.const b) ∧
      (g.1 = .xor → ∀ x ∈ g.2, x.isNeg = false) ∧
      (g.2.map Lit.var).Nodup ∧
      (2 ≤ g.2.length ∨ (g.2 = [] ∧ g.1 = .xor)) ∧
      (∀ x ∈ g.2, x.scoped k)) ∧
    (∀ (j k : Nat) (gj gk : Gate), c'.gates.toList[j]? = some gj → c'.gates.toList[k]? = some gk →
      gj.1 = gk.1 → gj.2.Perm gk.2 → j = k) := by
  obtain ⟨h1, h5⟩ := simplify_nf_cfg hs h
  refine ⟨?_, h5⟩
  intro k g hk
  obtain ⟨nf, topo⟩ := h1 k g hk
  refine ⟨fun hk => nf.nf1 (Or.inr hk), nf.nf2, nf.nf3, ?_, topo⟩
  rcases nf.nf4 with h | ⟨h1, h2, _⟩
  · exact Or.inl h
  · exact Or.inr ⟨h1, h2⟩

/-- before the fix condition 4 failed: `xor(i0, i0)` left a gate without inputs (b2) -/
theorem simplify_nf4_fails_before_fix :
    simplify Cfg.beforeFix ⟨2, #[(.xor, [.input false 0, .input false 0])]⟩ [.gate false 0]
      = .ok (⟨2, #[(.xor, [])]⟩, #[.gate false 0]) := by rfl

/-- before the fix condition 1 failed: the `⊥` an AND gate was folded to stayed an input of the
XOR gate (c) -/
theorem simplify_nf1_fails_before_fix :
    simplify Cfg.beforeFix ⟨2, #[(.and, [.input false 0, .const false]),
        (.xor, [.gate false 0, .input false 1, .input false 0])]⟩ [.gate false 1]
      = .ok (⟨2, #[(.xor, [.const false, .input false 1, .input false 0])]⟩,
        #[.const false, .gate false 0]) := by rfl

/-! ## Gate map -/

/-- **simplify_map_ok_cfg.**  The gate map has one entry per old gate; an entry is `UNDEF` or a
literal valid in the new circuit (a constant, an input that passed the input check, a gate of the
new circuit); all reachable gates have an entry; the new circuit has the same inputs. -/
theorem simplify_map_ok_cfg {cfg : Cfg} {c c' : Circuit} {roots : List Lit} {m : Array Lit}
    (hs : Small c) (h : simplify cfg c roots = .ok (c', m)) :
    m.size = c.gates.size ∧ c'.ninputs = c.ninputs ∧ c'.gates.size ≤ c.gates.size ∧
    (∀ g, m.getD g Lit.undef = Lit.undef ∨
      ((m.getD g Lit.undef).isDone ∧ (m.getD g Lit.undef).scoped c'.gates.size ∧
        unknownInput cfg c.gates.size c.ninputs (m.getD g Lit.undef) = false)) ∧
    (∀ g, Reach c roots g → (m.getD g Lit.undef).isDone) := by
  obtain ⟨st, hc, hm, hwf, hstep, _, _, _⟩ := simplify_final_cfg hs h
  refine ⟨by rw [hm]; exact hwf.size, by rw [hc], ?_, ?_, fun g hg => simplify_reach_done_cfg hs h hg⟩
  · rw [hc]
    have := hwf.cnt
    have := doneCount_le st.gateMap
    have := hwf.size
    show st.newGates.size ≤ _
    omega
  · intro g
    subst hm hc
    rcases final_undef_or_done hstep g with hu | hd
    · exact Or.inl hu
    · exact Or.inr ⟨hd, hwf.mapScoped g hd, hwf.mapKnown g hd⟩

/-! ## Errors: cycles and unknown inputs -/

/-- the finished part of the circuit is acyclic -/
theorem simplify_done_acyclic_cfg {cfg : Cfg} {c c' : Circuit} {roots : List Lit} {m : Array Lit}
    (hs : Small c) (h : simplify cfg c roots = .ok (c', m)) {g : Nat} (hg : Done m g) :
    ¬ Reaches c g g := by
  obtain ⟨st, _, hm, hwf, _, _, _, _⟩ := simplify_final_cfg hs h
  subst hm
  obtain ⟨rank, _, hr2⟩ := hwf.acyc
  have key : ∀ a b, Reaches c a b → Done st.gateMap a → Done st.gateMap b ∧ rank b < rank a := by
    intro a b hab
    induction hab with
    | edge he => intro ha; exact hr2 _ ha _ _ he
    | trans _ _ ih1 ih2 =>
      intro ha
      obtain ⟨hb, h1⟩ := ih1 ha
      obtain ⟨hc, h2⟩ := ih2 hb
      exact ⟨hc, by omega⟩
  intro hgg
  have := (key g g hgg hg).2
  omega

/-- **simplify_cycle_cfg (⇐).**  If a cycle is reachable from the roots, `simplify` does not succeed
(it returns `Err`, or panics on an earlier defect). -/
theorem simplify_cycle_cfg {cfg : Cfg} {c : Circuit} {roots : List Lit} (hs : Small c) {g : Nat}
    (hg : Reach c roots g) (hcyc : Reaches c g g) :
    ∀ c' m, simplify cfg c roots ≠ .ok (c', m) :=
  fun _ _ h => simplify_done_acyclic_cfg hs h (simplify_reach_done_cfg hs h hg) hcyc

/-- non-vacuity: `g0 = and(g1, i0)`, `g1 = or(g0, i1)` -/
example : simplify Cfg.beforeFix ⟨2, #[(.and, [.gate false 1, .input false 0]),
    (.or, [.gate false 0, .input false 1])]⟩ [.gate false 0] = .error (.cycle 0) := by rfl

/-- **simplify_unknown_cfg.**  With the repaired bound, success implies that every input literal of
every reachable gate and every root names a known input; i.e. a reference to an unknown input
(`≥ inputs.len()`, including `Literal::UNDEF`) makes `simplify` fail. -/
theorem simplify_unknown_cfg {cfg : Cfg} (hb : cfg.bound = true) {c c' : Circuit} {roots : List Lit}
    {m : Array Lit} (hs : Small c) (h : simplify cfg c roots = .ok (c', m)) :
    (∀ n i, Lit.input n i ∈ roots → i < c.ninputs) ∧
    (∀ g, Reach c roots g → ∀ n i, Lit.input n i ∈ (c.gates.getD g (.and, [])).2 → i < c.ninputs) := by
  obtain ⟨st, _, hm, hwf, _, _, hroots, _⟩ := simplify_final_cfg hs h
  refine ⟨hroots hb, ?_⟩
  intro g hg n i hi
  have hd := simplify_reach_done_cfg hs h hg
  subst hm
  have := hwf.checked g hd n i hi (Or.inl hb)
  simpa [unknownInput, hb] using this

/-- before the fix a reference to an unknown input was accepted (defect a): `and(i0, i1)` with
one known input -/
theorem simplify_unknown_accepted_before_fix :
    simplify Cfg.beforeFix ⟨1, #[(.and, [.input false 0, .input false 1])]⟩ [.gate false 0]
      = .ok (⟨1, #[(.and, [.input false 0, .input false 1])]⟩, #[.gate false 0]) := by rfl

/-- … or the bit set panicked instead of `Err` being returned (`and(i0, i1, i1)`) -/
theorem simplify_unknown_panics_before_fix :
    simplify Cfg.beforeFix ⟨1, #[(.and, [.input false 0, .input false 1, .input false 1])]⟩ [.gate false 0]
      = .error .panicBitset := by rfl

/-- before the fix XOR gates did check their inputs, against the (too large) bound `G + 2N` -/
theorem simplify_unknown_partial_before_fix {c c' : Circuit} {roots : List Lit} {m : Array Lit} (hs : Small c)
    (h : simplify Cfg.beforeFix c roots = .ok (c', m)) {g : Nat} (hg : Reach c roots g)
    (hk : (c.gates.getD g (.and, [])).1 = .xor) {n : Bool} {i : Nat}
    (hi : Lit.input n i ∈ (c.gates.getD g (.and, [])).2) : i ≤ c.gates.size + 2 * c.ninputs := by
  obtain ⟨st, _, hm, hwf, _, _, _, _⟩ := simplify_final_cfg hs h
  have hd := simplify_reach_done_cfg hs h hg
  subst hm
  have := hwf.checked g hd n i hi (Or.inr hk)
  simpa [unknownInput, Cfg.beforeFix] using this

/-- the repaired model reports the unknown input -/
example : simplify Cfg.fixed ⟨1, #[(.and, [.input false 0, .input false 1])]⟩ [.gate false 0]
    = .error (.input (.input false 1)) := by rfl

/-- **simplify_cycle_cfg (⇒), soundness of the reported gate.**  `Err(g)` for a gate `g` means that
`g` is reachable from the roots and depends on itself. -/
theorem simplify_cycle_sound_cfg {cfg : Cfg} {c : Circuit} {roots : List Lit} (hs : Small c) {e : Nat}
    (h : simplify cfg c roots = .error (.cycle e)) : Reach c roots e ∧ Reaches c e e := by
  unfold simplify at h
  cases hv : visitRoots cfg c (initState c) roots with
  | ok st => simp [hv] at h
  | error x =>
    simp only [hv, Except.error.injEq] at h
    subst h
    refine visitRoots_cycle hs roots _ e (initState_wf cfg c) (fun r hr => hr) ?_ hv
    intro d hd
    rw [initState_getD] at hd
    simp [Lit.undef, Lit.discovered] at hd

/-- soundness of the reported literal: `Err(l)` for a non-gate `l` means that `l` fails the
input check (`l` is an input `≥ inputs.len()` for the repaired bound) -/
theorem simplify_err_input_sound_cfg {cfg : Cfg} {c : Circuit} {roots : List Lit} {l : Lit}
    (h : simplify cfg c roots = .error (.input l)) :
    unknownInput cfg c.gates.size c.ninputs l = true := by
  unfold simplify at h
  cases hv : visitRoots cfg c (initState c) roots with
  | ok st => simp [hv] at h
  | error x =>
    simp only [hv, Except.error.injEq] at h
    subst h
    exact visitRoots_err_input roots _ l hv

/-- **termination without fuel exhaustion**: the recursion depth bound `G + 1` the model uses is
sufficient -/
theorem simplify_fuel_sufficient_cfg {cfg : Cfg} {c : Circuit} {roots : List Lit} (hs : Small c) :
    simplify cfg c roots ≠ .error .fuel := by
  unfold simplify
  cases hv : visitRoots cfg c (initState c) roots with
  | ok st => simp
  | error x =>
    simp only [ne_eq, Except.error.injEq]
    intro hx
    exact visitRoots_not_fuel hs roots _ (initState_wf cfg c) (hx ▸ hv)

theorem Good.reaches {c : Circuit} (_hg : Good c) {rank : Nat → Nat}
    (hr : ∀ g, g < c.gates.size → ∀ neg i, Lit.gate neg i ∈ (c.gates.getD g (.and, [])).2 →
      i < c.gates.size ∧ rank i < rank g) {a b : Nat} (hab : Reaches c a b) :
    a < c.gates.size → b < c.gates.size ∧ rank b < rank a := by
  induction hab with
  | edge he => intro ha; exact hr _ ha _ _ he
  | trans _ _ ih1 ih2 =>
    intro ha
    obtain ⟨hb, h1⟩ := ih1 ha
    obtain ⟨hc, h2⟩ := ih2 hb
    exact ⟨hc, by omega⟩

/-- **simplify_total_cfg: no `Err` (and no panic) on acyclic, well-scoped input.**  If all gate
references name existing gates, the circuit is acyclic, all input literals name known inputs, and
the roots are in range, then `simplify` succeeds.  This held before the fix, too. -/
theorem simplify_total_cfg {cfg : Cfg} {c : Circuit} {roots : List Lit} (hs : Small c) (hgood : Good c)
    (hroots : ∀ neg g, Lit.gate neg g ∈ roots → g < c.gates.size)
    (hrin : cfg.bound = true → ∀ n i, Lit.input n i ∈ roots → i < c.ninputs) :
    ∃ c' m, simplify cfg c roots = .ok (c', m) := by
  cases hres : simplify cfg c roots with
  | ok p => exact ⟨p.1, p.2, rfl⟩
  | error e =>
    exfalso
    cases e with
    | fuel => exact simplify_fuel_sufficient_cfg hs hres
    | cycle g =>
      obtain ⟨hreach, hcyc⟩ := simplify_cycle_sound_cfg hs hres
      obtain ⟨rank, hr⟩ := hgood.acyclic
      have hlt : g < c.gates.size := by
        clear hcyc hres
        induction hreach with
        | root h => exact hroots _ _ h
        | step _ he ih => exact (hr _ ih _ _ he).1
      have := (hgood.reaches hr hcyc hlt).2
      omega
    | input l =>
      unfold simplify at hres
      cases hv : visitRoots cfg c (initState c) roots with
      | ok st => simp [hv] at hres
      | error x =>
        simp only [hv, Except.error.injEq] at hres
        subst hres
        exact visitRoots_total hs hgood roots _ (initState_wf cfg c)
          (fun g hg => absurd hg (initState_not_done c g)) hroots hrin _ hv (by simp [BadErr])
    | panicIndex =>
      unfold simplify at hres
      cases hv : visitRoots cfg c (initState c) roots with
      | ok st => simp [hv] at hres
      | error x =>
        simp only [hv, Except.error.injEq] at hres
        subst hres
        exact visitRoots_total hs hgood roots _ (initState_wf cfg c)
          (fun g hg => absurd hg (initState_not_done c g)) hroots hrin _ hv (by simp [BadErr])
    | panicBitset =>
      unfold simplify at hres
      cases hv : visitRoots cfg c (initState c) roots with
      | ok st => simp [hv] at hres
      | error x =>
        simp only [hv, Except.error.injEq] at hres
        subst hres
        exact visitRoots_total hs hgood roots _ (initState_wf cfg c)
          (fun g hg => absurd hg (initState_not_done c g)) hroots hrin _ hv (by simp [BadErr])

/-- non-vacuity of `simplify_total_cfg`: the documented example is a good circuit -/
example : Good ⟨3, #[(.xor, [.input true 0, .input false 1, .input false 2]), (.and, [.gate false 0])]⟩ := by
  refine ⟨⟨fun g => g, ?_⟩, ?_⟩
  · intro g hg neg i hi
    have hg2 : g < 2 := hg
    match g, hg2 with
    | 0, _ => simp at hi
    | 1, _ =>
      simp at hi
      exact ⟨by rw [hi.2]; decide, by rw [hi.2]; decide⟩
  · intro g hg n i hi
    have hg2 : g < 2 := hg
    match g, hg2 with
    | 0, _ =>
      simp at hi
      show i < 3
      omega
    | 1, _ => simp at hi

end OxiddModel.Circuit
