import OxiddModel.Circuit.LemmasFindCycle

/-!
# C18: `Circuit::find_cycle` — headline theorems

`findCycle` (`FindCycle.lean`) is the depth-first search of the Rust code with its two marks per
gate.  For every circuit whose gate literals name existing gates (`GateRefs`, the precondition
under which the real code does not panic; the AIGER and NNF parsers establish it before they call
`find_cycle`, see `FindCycleParsers.lean`) and without any bound on the size:

* the search terminates without panic and within the fuel `gates.len() + 1` (`findCycle_total`;
  the fuel is sufficient for *every* circuit, `findCycle_fuel_sufficient`, and a panic needs a
  dangling reference, `findCycle_panic_only_dangling`);
* `None` iff no gate depends on itself (`findCycle_none_iff_acyclic`), and then the finishing
  order is a topological rank (`findCycle_none_rank`);
* `Some(l)`: `l` is the positive literal of the existing gate with the **least index from which a
  cycle can be reached** (`findCycle_some_iff_least`, `findCycle_some_cycle_reachable`);
* the documentation's claim "`literal` depends on itself" is false
  (`findCycle_doc_claim_false`): for `g0 = and(g1)`, `g1 = and(g2)`, `g2 = and(g1)` the result is
  `g0`, which is not on the cycle `g1 → g2 → g1`.  What remains of it:
  `findCycle_some_on_cycle_partial`.
-/
namespace OxiddModel.Circuit

/-- **find_cycle terminates without panic** on circuits with in-range gate references: the fuel
`gates.len() + 1` is never exhausted and no bit-set insertion / `unwrap` fails. -/
theorem findCycle_total {c : Circuit} (hw : GateRefs c) : ∃ o, findCycle c = .ok o := by
  have h := findCycle_rootsSpec hw
  generalize findCycle c = r at h
  match r, h with
  | .ok o, _ => exact ⟨o, rfl⟩

/-- **the fuel of the model is never exhausted, for every circuit** (also with dangling gate
references): the recursion depth of `inner` is at most the number of gates, because every nested
call has discovered one more gate.  So `FcErr.fuel` is a proof device only, and the only failure is
the index panic. -/
theorem findCycle_fuel_sufficient (c : Circuit) : findCycle c ≠ .error .fuel :=
  fcRoots_no_fuel c c.gates.size 0 (Marks.init c.gates.size) (by simp [Marks.init])

/-- the index panic needs a dangling gate reference -/
theorem findCycle_panic_only_dangling {c : Circuit} (h : findCycle c = .error .panicIndex) :
    ¬ GateRefs c := by
  intro hw
  obtain ⟨o, ho⟩ := findCycle_total hw
  rw [ho] at h
  cases h

/-- non-vacuity: 3 gates, a diamond, all references in range -/
example : GateRefs ⟨1, #[(.and, [.gate false 1, .gate true 2]), (.or, [.gate false 2, .input false 0]),
    (.xor, [.input false 0, .const true])]⟩ := by
  intro i hi neg j hj
  have hi' : i < 3 := hi
  have : i = 0 ∨ i = 1 ∨ i = 2 := by omega
  show j < 3
  rcases this with rfl | rfl | rfl <;> simp at hj <;> omega

/-- without the precondition the real code panics (`visited.insert` out of range) and so does the
model: `g0 = and(g5)` in a circuit with one gate -/
example : findCycle ⟨0, #[(.and, [.gate false 5])]⟩ = .error .panicIndex := by rfl

/-- **(a) `find_cycle` returns `None` iff the circuit is acyclic**: no gate reaches itself through
one or more gate-input edges. -/
theorem findCycle_none_iff_acyclic {c : Circuit} (hw : GateRefs c) :
    findCycle c = .ok none ↔ Acyclic c := by
  have h := findCycle_rootsSpec hw
  generalize findCycle c = r at h
  match r, h with
  | .ok none, h => exact ⟨fun _ => h.1, fun _ => rfl⟩
  | .ok (some l), h =>
    obtain ⟨i, _, ⟨x, _, hc⟩, _⟩ := h
    exact ⟨fun h' => (by cases h'), fun ha => absurd hc (ha x)⟩

/-- non-vacuity, both sides: an acyclic circuit (`None`) and a self loop (`Some`) -/
example : findCycle ⟨1, #[(.and, [.gate false 1, .input false 0]), (.or, [.input true 0])]⟩
    = .ok none := by rfl
example : findCycle ⟨1, #[(.and, [.gate true 0])]⟩ = .ok (some (.gate false 0)) := by rfl

/-- `None` comes with a witness of acyclicity: a rank on the gates that strictly decreases from
every gate to each gate among its inputs (the finishing order of the search). -/
theorem findCycle_none_rank {c : Circuit} (hw : GateRefs c) (h : findCycle c = .ok none) :
    ∃ rank : Nat → Nat, ∀ i k, GateDep c i k → rank k < rank i := by
  have hs := findCycle_rootsSpec hw
  rw [h] at hs
  exact hs.2

/-- **(b) `Some(l)`**: `l` is the positive gate literal of an existing gate from which a cycle can
be reached. -/
theorem findCycle_some_cycle_reachable {c : Circuit} (hw : GateRefs c) {l : Lit}
    (h : findCycle c = .ok (some l)) :
    ∃ i, l = .gate false i ∧ i < c.gates.size ∧ CycleFrom c i := by
  have hs := findCycle_rootsSpec hw
  rw [h] at hs
  obtain ⟨i, hl, hc, _⟩ := hs
  exact ⟨i, hl, hc.lt, hc⟩

/-- **complete functional specification of the `Some` case**: the result is `Some(gate i)` iff `i`
is the least gate index from which a cycle can be reached. -/
theorem findCycle_some_iff_least {c : Circuit} (hw : GateRefs c) (i : Nat) :
    findCycle c = .ok (some (.gate false i)) ↔
      (CycleFrom c i ∧ ∀ j, j < i → ¬ CycleFrom c j) := by
  have hs := findCycle_rootsSpec hw
  generalize findCycle c = r at hs
  match r, hs with
  | .ok none, hs =>
    constructor
    · intro h; cases h
    · rintro ⟨⟨x, _, hc⟩, _⟩; exact absurd hc (hs.1 x)
  | .ok (some l), hs =>
    obtain ⟨i', hl, hc, hleast⟩ := hs
    subst hl
    constructor
    · intro h
      have : i' = i := by injection h with h; injection h with h; injection h
      subst this
      exact ⟨hc, hleast⟩
    · rintro ⟨hci, hli⟩
      have : i' = i := by
        apply Nat.le_antisymm
        · exact Nat.le_of_not_lt (fun hlt => hleast i hlt hci)
        · exact Nat.le_of_not_lt (fun hlt => hli i' hlt hc)
      rw [this]

/-- the only results are `None` and positive gate literals -/
theorem findCycle_some_is_gate {c : Circuit} (hw : GateRefs c) {l : Lit}
    (h : findCycle c = .ok (some l)) : ∃ i, l = .gate false i :=
  let ⟨i, hl, _⟩ := findCycle_some_cycle_reachable hw h
  ⟨i, hl⟩

/-! ## (c) the documentation's claim -/

/-- `g0 = and(g1)`, `g1 = and(g2)`, `g2 = and(g1)`: the cycle is `g1 → g2 → g1`, `g0` only leads
into it -/
def lassoCircuit : Circuit :=
  ⟨0, #[(.and, [.gate false 1]), (.and, [.gate false 2]), (.and, [.gate false 1])]⟩

theorem lasso_refs : GateRefs lassoCircuit := by
  intro i hi neg j hj
  have hi' : i < 3 := hi
  have : i = 0 ∨ i = 1 ∨ i = 2 := by omega
  show j < 3
  rcases this with rfl | rfl | rfl <;> simp [lassoCircuit] at hj <;> omega

theorem lasso_result : findCycle lassoCircuit = .ok (some (.gate false 0)) := by rfl

theorem lasso_dep {i k : Nat} (h : DependsOn lassoCircuit i k) : k = 1 ∨ k = 2 := by
  induction h with
  | single e =>
    obtain ⟨hi, neg, hm⟩ := e
    rename_i i j
    have hi' : i < 3 := hi
    have : i = 0 ∨ i = 1 ∨ i = 2 := by omega
    rcases this with rfl | rfl | rfl <;> simp [lassoCircuit] at hm <;> omega
  | step _ _ ih => exact ih

/-- gate 0 of the lasso does not depend on itself … -/
theorem lasso_not_on_cycle : ¬ DependsOn lassoCircuit 0 0 := by
  intro h
  have := lasso_dep h
  omega

/-- … but a cycle is reachable from it -/
theorem lasso_cycleFrom : CycleFrom lassoCircuit 0 := by
  have e01 : GateDep lassoCircuit 0 1 := ⟨(by decide : (_ : Nat) < 3), false, by simp [lassoCircuit]⟩
  have e12 : GateDep lassoCircuit 1 2 := ⟨(by decide : (_ : Nat) < 3), false, by simp [lassoCircuit]⟩
  have e21 : GateDep lassoCircuit 2 1 := ⟨(by decide : (_ : Nat) < 3), false, by simp [lassoCircuit]⟩
  exact ⟨1, Or.inr (.single e01), .step e12 (.single e21)⟩

/-- **(c) the doc comment of `find_cycle` is wrong.**  The claim
"Returns `Some(literal)` if `literal` depends on itself", read as a statement about the returned
literal — for all circuits, `find_cycle() = Some(l)` implies that the gate `l` lies on a cycle —
is false; the witness is `lassoCircuit` (all gate references in range), where the result is gate 0
and gate 0 does not depend on itself.  What holds instead is `findCycle_some_cycle_reachable`
(a cycle is reachable from `l`) and `findCycle_some_iff_least`. -/
theorem findCycle_doc_claim_false :
    ¬ ∀ (c : Circuit) (l : Lit), GateRefs c → findCycle c = .ok (some l) →
        ∃ i, l = .gate false i ∧ DependsOn c i i := by
  intro h
  obtain ⟨i, hi, hd⟩ := h lassoCircuit (.gate false 0) lasso_refs lasso_result
  have : i = 0 := by injection hi with _ h; exact h.symm
  subst this
  exact lasso_not_on_cycle hd

/-- the other reading of the doc comment ("`Some(literal)` **iff** `literal` depends on itself",
i.e. every gate on a cycle is reported) fails as well: gate 1 of the lasso depends on itself but
the result is gate 0 -/
theorem findCycle_doc_claim_false_converse :
    ¬ ∀ (c : Circuit) (i : Nat), GateRefs c → DependsOn c i i →
        findCycle c = .ok (some (.gate false i)) := by
  intro h
  have e12 : GateDep lassoCircuit 1 2 := ⟨(by decide : (_ : Nat) < 3), false, by simp [lassoCircuit]⟩
  have e21 : GateDep lassoCircuit 2 1 := ⟨(by decide : (_ : Nat) < 3), false, by simp [lassoCircuit]⟩
  have := h lassoCircuit 1 lasso_refs (.step e12 (.single e21))
  rw [lasso_result] at this
  cases this

/-- what remains true of the doc comment (`…_partial`): the reported gate `i` depends on itself
provided every cyclic gate that `i` depends on leads back to `i` (e.g. when the gates reachable from
`i` form one strongly connected component).
Full statement (false, see `findCycle_doc_claim_false`):
`findCycle c = .ok (some (.gate false i)) → DependsOn c i i`. -/
theorem findCycle_some_on_cycle_partial {c : Circuit} (hw : GateRefs c) {i : Nat}
    (h : findCycle c = .ok (some (.gate false i)))
    (hback : ∀ j, DependsOn c i j → DependsOn c j j → DependsOn c j i) : DependsOn c i i := by
  obtain ⟨i', hl, _, x, hx, hc⟩ := findCycle_some_cycle_reachable hw h
  have : i = i' := by injection hl
  subst this
  cases hx with
  | inl hx => subst hx; exact hc
  | inr hx => exact hx.trans (hback x hx hc)

/-- non-vacuity of the partial statement: a two-gate loop `g0 = and(g1)`, `g1 = or(g0)` -/
example : findCycle ⟨0, #[(.and, [.gate false 1]), (.or, [.gate false 0])]⟩
    = .ok (some (.gate false 0)) := by rfl

end OxiddModel.Circuit
