import OxiddModel.Circuit.Model

/-!
Semantics of circuits (used only by the theorems; the model itself is purely syntactic).
-/
namespace OxiddModel.Circuit

/-- value of a literal under an input assignment `σ` and a valuation `gv` of the gates -/
def litVal (σ : Nat → Bool) (gv : Nat → Bool) : Lit → Bool
  | .const b => b
  | .input neg i => σ i != neg
  | .gate neg g => gv g != neg

/-- parity of a list of literals (`⊥` for the empty list, as `GateKind::empty_gate`) -/
def xorVal (σ gv : Nat → Bool) : List Lit → Bool
  | [] => false
  | l :: ls => litVal σ gv l != xorVal σ gv ls

/-- value of a gate: n-ary AND (`⊤` if empty), OR (`⊥` if empty), XOR (`⊥` if empty) -/
def gateVal (σ gv : Nat → Bool) (g : Gate) : Bool :=
  match g.1 with
  | .and => g.2.all (litVal σ gv)
  | .or => g.2.any (litVal σ gv)
  | .xor => xorVal σ gv g.2

/-- forward evaluation of a gate list: gate `k` is evaluated with the values of the gates before -/
def evalAcc (σ : Nat → Bool) : List Bool → List Gate → List Bool
  | acc, [] => acc
  | acc, g :: gs => evalAcc σ (acc ++ [gateVal σ (fun k => acc.getD k false) g]) gs

/-- valuation of the gates of a (topologically sorted) gate list -/
def newVal (σ : Nat → Bool) (gs : List Gate) (k : Nat) : Bool :=
  (evalAcc σ [] gs).getD k false

/-- value of a literal in the simplified circuit -/
def evalNew (σ : Nat → Bool) (c : Circuit) (l : Lit) : Bool :=
  litVal σ (newVal σ c.gates.toList) l

/-- every gate reference in `l` is below `n` -/
def Lit.scoped (n : Nat) : Lit → Prop
  | .gate _ g => g < n
  | _ => True

/-- `v` satisfies the defining equation of gate `g` of `c` -/
def ConsistentAt (c : Circuit) (σ v : Nat → Bool) (g : Nat) : Prop :=
  v g = gateVal σ v (c.gates.getD g (.and, []))

/-! ### literals -/

theorem litVal_xorB (σ gv) (l : Lit) (b : Bool) : litVal σ gv (l.xorB b) = (litVal σ gv l != b) := by
  cases l <;> cases b <;> simp [Lit.xorB, litVal]

theorem litVal_not (σ gv) (l : Lit) : litVal σ gv l.not = !litVal σ gv l := by
  simp [Lit.not, litVal_xorB]

theorem litVal_positive (σ gv) (l : Lit) : litVal σ gv l = (litVal σ gv l.positive != l.isNeg) := by
  cases l <;> simp [Lit.positive, Lit.isNeg, litVal]

theorem Lit.xorB_false (l : Lit) : l.xorB false = l := by cases l <;> simp [Lit.xorB]

theorem Lit.scoped_xorB {n : Nat} {l : Lit} (b : Bool) : (l.xorB b).scoped n ↔ l.scoped n := by
  cases l <;> simp [Lit.xorB, Lit.scoped]

theorem Lit.scoped_positive {n : Nat} {l : Lit} : l.positive.scoped n ↔ l.scoped n := by
  cases l <;> simp [Lit.positive, Lit.scoped]

theorem Lit.scoped_mono {n m : Nat} {l : Lit} (h : n ≤ m) : l.scoped n → l.scoped m := by
  cases l <;> simp [Lit.scoped] <;> omega

/-- the value of a literal only depends on the valuation below its scope -/
theorem litVal_congr {σ gv gv' : Nat → Bool} {n : Nat} {l : Lit} (hs : l.scoped n)
    (h : ∀ k, k < n → gv k = gv' k) : litVal σ gv l = litVal σ gv' l := by
  cases l with
  | const b => rfl
  | input neg i => rfl
  | gate neg g => simp only [litVal]; rw [h g hs]

theorem all_litVal_congr {σ gv gv' : Nat → Bool} {n : Nat} {ls : List Lit}
    (hs : ∀ l ∈ ls, l.scoped n) (h : ∀ k, k < n → gv k = gv' k) :
    ls.all (litVal σ gv) = ls.all (litVal σ gv') := by
  induction ls with
  | nil => rfl
  | cons a t ih =>
    simp only [List.all_cons]
    rw [litVal_congr (hs a (by simp)) h, ih (fun l hl => hs l (by simp [hl]))]

theorem any_litVal_congr {σ gv gv' : Nat → Bool} {n : Nat} {ls : List Lit}
    (hs : ∀ l ∈ ls, l.scoped n) (h : ∀ k, k < n → gv k = gv' k) :
    ls.any (litVal σ gv) = ls.any (litVal σ gv') := by
  induction ls with
  | nil => rfl
  | cons a t ih =>
    simp only [List.any_cons]
    rw [litVal_congr (hs a (by simp)) h, ih (fun l hl => hs l (by simp [hl]))]

theorem xorVal_congr {σ gv gv' : Nat → Bool} {n : Nat} {ls : List Lit}
    (hs : ∀ l ∈ ls, l.scoped n) (h : ∀ k, k < n → gv k = gv' k) :
    xorVal σ gv ls = xorVal σ gv' ls := by
  induction ls with
  | nil => rfl
  | cons a t ih =>
    simp only [xorVal]
    rw [litVal_congr (hs a (by simp)) h, ih (fun l hl => hs l (by simp [hl]))]

theorem gateVal_congr {σ gv gv' : Nat → Bool} {n : Nat} {g : Gate}
    (hs : ∀ l ∈ g.2, l.scoped n) (h : ∀ k, k < n → gv k = gv' k) :
    gateVal σ gv g = gateVal σ gv' g := by
  obtain ⟨k, ls⟩ := g
  cases k <;> simp only [gateVal]
  · exact all_litVal_congr hs h
  · exact any_litVal_congr hs h
  · exact xorVal_congr hs h

/-! ### forward evaluation -/

theorem evalAcc_append (σ) (acc : List Bool) (gs hs : List Gate) :
    evalAcc σ acc (gs ++ hs) = evalAcc σ (evalAcc σ acc gs) hs := by
  induction gs generalizing acc with
  | nil => rfl
  | cons g gs ih => simp only [List.cons_append, evalAcc]; exact ih _

theorem evalAcc_length (σ) (acc : List Bool) (gs : List Gate) :
    (evalAcc σ acc gs).length = acc.length + gs.length := by
  induction gs generalizing acc with
  | nil => simp [evalAcc]
  | cons g gs ih => simp only [evalAcc, ih, List.length_append, List.length_cons, List.length_nil]; omega

theorem evalAcc_prefix (σ) (acc : List Bool) (gs : List Gate) (k : Nat) (hk : k < acc.length) :
    (evalAcc σ acc gs).getD k false = acc.getD k false := by
  induction gs generalizing acc with
  | nil => rfl
  | cons g gs ih =>
    simp only [evalAcc]
    rw [ih _ (by simp; omega)]
    simp [List.getD_eq_getElem?_getD, List.getElem?_append_left hk]

theorem evalNew_length (σ) (gs : List Gate) : (evalAcc σ [] gs).length = gs.length := by
  simp [evalAcc_length]

/-- pushing a gate does not change the values of the gates before it -/
theorem newVal_push_lt (σ) (gs : List Gate) (g : Gate) (k : Nat) (hk : k < gs.length) :
    newVal σ (gs ++ [g]) k = newVal σ gs k := by
  unfold newVal
  rw [evalAcc_append]
  simp only [evalAcc]
  have : k < (evalAcc σ [] gs).length := by rw [evalNew_length]; exact hk
  simp [List.getD_eq_getElem?_getD, List.getElem?_append_left this]

/-- the value of the pushed gate is its gate function over the values before it -/
theorem newVal_push_eq (σ) (gs : List Gate) (g : Gate) :
    newVal σ (gs ++ [g]) gs.length = gateVal σ (newVal σ gs) g := by
  unfold newVal
  rw [evalAcc_append]
  simp only [evalAcc]
  have : (evalAcc σ [] gs).length = gs.length := evalNew_length σ gs
  simp [List.getD_eq_getElem?_getD, ← this]

theorem litVal_push {σ} {gs : List Gate} {g : Gate} {l : Lit} (hs : l.scoped gs.length) :
    litVal σ (newVal σ (gs ++ [g])) l = litVal σ (newVal σ gs) l :=
  litVal_congr hs (fun k hk => newVal_push_lt σ gs g k hk)

/-- the prefix of a gate list is evaluated as the whole list -/
theorem newVal_take (σ) (gs : List Gate) (n k : Nat) (hk : k < n) (hn : n ≤ gs.length) :
    newVal σ (gs.take n) k = newVal σ gs k := by
  unfold newVal
  conv => rhs; rw [← List.take_append_drop n gs, evalAcc_append]
  rw [evalAcc_prefix σ (evalAcc σ [] (gs.take n)) (gs.drop n) k
    (by rw [evalNew_length, List.length_take]; omega)]

/-- `newVal` is a consistent valuation of a topologically sorted gate list -/
theorem newVal_consistent (σ) (gs : List Gate)
    (htopo : ∀ k (hk : k < gs.length), ∀ l ∈ gs[k].2, l.scoped k) (k : Nat) (hk : k < gs.length) :
    newVal σ gs k = gateVal σ (newVal σ gs) gs[k] := by
  have h1 : gs.take (k + 1) = gs.take k ++ [gs[k]] := by
    rw [List.take_add_one]; simp [List.getElem?_eq_getElem hk]
  have hlen : (gs.take k).length = k := by rw [List.length_take]; omega
  have h2 := newVal_push_eq σ (gs.take k) gs[k]
  rw [← h1, hlen] at h2
  rw [← newVal_take σ gs (k + 1) k (by omega) (by omega), h2]
  apply gateVal_congr (n := k) (htopo k hk)
  intro j hj
  exact newVal_take σ gs k j hj (by omega)

end OxiddModel.Circuit
