import OxiddModel.Util.Proto
import OxiddModel.Dddmp.Model

/-!
Line-protocol driver `dddmp` (property C15).

```
mgr kind=<bdd|bcdd|zbdd|mtbdd|tdd> nvars=<n> order=<l2v,..|-> names=<hex|_,..|->   -> ok
fn <name> ...                                                                      -> ok
export ascii=<0|1> ver=<2|3> strict=<0|1> dd=<hex|_> roots=<f[:hex|:_],..|-> ;
       nterm=<k> terms=<hex,..|-> nodes=<lvl:c1:c2[:c3],..|-> rootids=<i,..|->     -> <ok|err> <hex of the file>
import kind=<k> cmpl=<not|id> nvars=<n> order=<l2v,..|-> file=<hex>                -> ok <header> | <tree> ... / err:load / err:import / panic:load / panic:import / reject:vars / reject:order
```
-/
namespace OxiddModel.Dddmp

/-! ### canonical trees as the target "manager" of the model importer -/

inductive Term where
  | tt | ff | zE | zB | num (i : Int) | nan | pinf | minf
deriving DecidableEq, Repr, Inhabited

/-- unfolded, reduced diagrams; `loNeg` is the complement tag of the else edge (BCDD only) -/
inductive Tree where
  | leaf (t : Term)
  | node (level : Nat) (hi lo : Tree) (loNeg : Bool)
deriving DecidableEq, Repr, Inhabited

structure Edge where
  neg : Bool
  t : Tree
deriving DecidableEq, Repr, Inhabited

def Tree.level : Tree → Nat
  | .leaf _ => levelMax
  | .node l _ _ _ => l

def Tree.flip : Tree → Tree
  | .leaf .tt => .leaf .ff
  | .leaf .ff => .leaf .tt
  | .leaf t => .leaf t
  | .node l hi lo n => .node l hi.flip lo.flip n

def boolNames (yes : Bool) : List String :=
  if yes then ["t", "T", "true", "True", "TRUE", "⊤", "1"] else ["f", "F", "false", "False", "FALSE", "⊥", "0"]

def isName (s : List Nat) (names : List String) : Bool := names.any (fun n => strBytes n = s)

/-- `i64::from_str` -/
def parseI64 (s : List Nat) : Option Int :=
  let (neg, digits) := match s with
    | 45 :: r => (true, r)
    | 43 :: r => (false, r)
    | r => (false, r)
  if digits = [] || digits.any (fun c => !isDigit c) then none
  else
    let v : Nat := digits.foldl (fun (a : Nat) (c : Nat) => a * 10 + (c - 48)) 0
    if neg then (if v > 9223372036854775808 then none else some (-(v : Int)))
    else (if v > 9223372036854775807 then none else some (v : Int))

def plainReduce (level : Nat) (cs : List Edge) : Edge :=
  match cs with
  | [t, e] => if t = e then t else ⟨false, .node level t.t e.t false⟩
  | _ => default

def algBDD (cmplNot : Bool) : Alg Edge where
  level e := e.t.level
  complement e := if cmplNot then ⟨false, e.t.flip⟩ else e
  reduce := plainReduce
  parseTerminal s :=
    if isName s (boolNames true) then some ⟨false, .leaf .tt⟩
    else if isName s (boolNames false) then some ⟨false, .leaf .ff⟩ else none
  arity := 2

def algBCDD (cmplNot : Bool) : Alg Edge where
  level e := e.t.level
  complement e := if cmplNot then ⟨!e.neg, e.t⟩ else e
  reduce level cs :=
    match cs with
    | [t, e] =>
      if t = e then t
      else if t.neg then ⟨true, .node level t.t e.t (!e.neg)⟩
      else ⟨false, .node level t.t e.t e.neg⟩
    | _ => default
  parseTerminal s :=
    if isName s (boolNames true) then some ⟨false, .leaf .tt⟩
    else if isName s (boolNames false) then some ⟨true, .leaf .tt⟩ else none
  arity := 2

def algZBDD : Alg Edge where
  level e := e.t.level
  complement e := e
  reduce level cs :=
    match cs with
    | [hi, lo] => if hi.t = .leaf .zE then lo else ⟨false, .node level hi.t lo.t false⟩
    | _ => default
  parseTerminal s :=
    if isName s ["e", "E", "empty", "Empty", "EMPTY", "∅", "0"] then some ⟨false, .leaf .zE⟩
    else if isName s ["b", "B", "base", "Base", "BASE", "{∅}"] then some ⟨false, .leaf .zB⟩ else none
  arity := 2

def algMTBDD : Alg Edge where
  level e := e.t.level
  complement e := e
  reduce := plainReduce
  parseTerminal s :=
    if isName s ["nan", "NaN", "NAN"] then some ⟨false, .leaf .nan⟩
    else if isName s ["-∞", "-inf", "-infinity", "-Inf", "-Infinity", "-INF", "-INFINITY", "MinusInf"] then
      some ⟨false, .leaf .minf⟩
    else if isName s ["∞", "inf", "infinity", "Inf", "Infinity", "INF", "INFINITY", "+∞", "+inf",
        "+infinity", "+Inf", "+Infinity", "+INF", "+INFINITY", "PlusInf"] then some ⟨false, .leaf .pinf⟩
    else match parseI64 s with
      | some i => some ⟨false, .leaf (.num i)⟩
      | none => none
  arity := 2

/-! ### text helpers -/

def hexDigit (n : Nat) : Char := "0123456789abcdef".toList.getD n '0'

def toHex (bs : List Nat) : String :=
  String.ofList (bs.flatMap (fun b => [hexDigit (b / 16 % 16), hexDigit (b % 16)]))

def hexVal (c : Char) : Option Nat :=
  if '0' ≤ c && c ≤ '9' then some (c.toNat - 48)
  else if 'a' ≤ c && c ≤ 'f' then some (c.toNat - 87)
  else none

def fromHexGo : List Char → List Nat → Option (List Nat)
  | [], acc => some acc.reverse
  | a :: b :: r, acc =>
    match hexVal a, hexVal b with
    | some x, some y => fromHexGo r ((x * 16 + y) :: acc)
    | _, _ => none
  | _, _ => none

def fromHex (s : String) : Option (List Nat) := fromHexGo s.toList []

/-- `_` stands for the empty string -/
def fromHexName (s : String) : Option (List Nat) := if s = "_" then some [] else fromHex s

def hexName (bs : List Nat) : String := if bs = [] then "_" else toHex bs

def splitComma (s : String) : List String := if s = "-" then [] else s.splitOn ","

def allSome {α : Type} : List (Option α) → Option (List α)
  | [] => some []
  | none :: _ => none
  | some a :: r => match allSome r with
    | some l => some (a :: l)
    | none => none

def natList (s : String) : Option (List Nat) := allSome ((splitComma s).map String.toNat?)
def intList (s : String) : Option (List Int) := allSome ((splitComma s).map String.toInt?)

def kv (ws : List String) (key : String) : Option String :=
  ws.findSome? (fun w => if w.startsWith (key ++ "=") then some ((w.drop (key.length + 1)).toString) else none)

def commaNat (xs : List Nat) : String := if xs = [] then "-" else ",".intercalate (xs.map toString)

def termStr : Term → String
  | .tt => "T" | .ff => "F" | .zE => "E" | .zB => "B" | .num i => toString i
  | .nan => "NaN" | .pinf => "+Inf" | .minf => "-Inf"

def treeStr (l2v : List Nat) : Tree → String
  | .leaf t => termStr t
  | .node l hi lo n =>
    "(v" ++ toString (l2v.getD l 0) ++ " " ++ treeStr l2v hi ++ " " ++ (if n then "~" else "") ++ treeStr l2v lo ++ ")"

def edgeStr (l2v : List Nat) (e : Edge) : String := (if e.neg then "~" else "") ++ treeStr l2v e.t

/-- `var_to_level` from `level_to_var` -/
def invPerm (n : Nat) (l2v : List Nat) : List Nat :=
  (List.range n).map (fun v => (indexOf? l2v v).getD 0)

/-! ### state and steps -/

structure St where
  view : Option MgrView := none
deriving Inhabited

def arityOf (kind : String) : Nat := if kind = "tdd" then 3 else 2

def stepMgr (ws : List String) : Option St := do
  let kind ← kv ws "kind"
  let nvars ← (← kv ws "nvars").toNat?
  let l2v ← natList (← kv ws "order")
  let l2v := if l2v = [] then List.range nvars else l2v
  let names ← allSome ((splitComma (← kv ws "names")).map fromHexName)
  let names := if names = [] then List.replicate nvars [] else names
  if l2v.length ≠ nvars || names.length ≠ nvars then none
  if !["bdd", "bcdd", "zbdd", "mtbdd", "tdd"].contains kind then none
  pure { view := some { nvars, names, v2l := invPerm nvars l2v, arity := arityOf kind, numTerminals := 0 } }

def parseNode (s : String) : Option SNode :=
  match s.splitOn ":" with
  | l :: cs => do
    let level ← l.toNat?
    let children ← allSome (cs.map String.toInt?)
    pure { level, children }
  | [] => none

def parseRootName (s : String) : Option (Option (List Nat)) :=
  match s.splitOn ":" with
  | [_] => some none
  | [_, n] => (fromHexName n).map some
  | _ => none

def stepExport (g : Guards) (st : St) (ws : List String) : Option String := do
  let view ← st.view
  let ascii ← (← kv ws "ascii").toNat?
  let ver ← (← kv ws "ver").toNat?
  let strict ← (← kv ws "strict").toNat?
  let dd ← fromHexName (← kv ws "dd")
  let rootSpecs ← allSome ((splitComma (← kv ws "roots")).map parseRootName)
  let nterm ← (← kv ws "nterm").toNat?
  let terms ← allSome ((splitComma (← kv ws "terms")).map fromHex)
  let nodes ← allSome ((splitComma (← kv ws "nodes")).map parseNode)
  let rootids ← intList (← kv ws "rootids")
  if ver ≠ 2 && ver ≠ 3 then none
  if rootids.length ≠ rootSpecs.length then none
  let named ← (← kv ws "named").toNat?
  let rootNames : Option (List (List Nat)) :=
    if named = 1 then some (rootSpecs.map (fun o => o.getD [])) else none
  let s : Settings := { v3 := ver = 3, ascii := ascii = 1, strict := strict = 1, ddName := dd }
  let termT := (kv ws "termT").getD "1"
  let m : MgrView := { view with numTerminals := nterm, allTermsT := termT = "1" }
  let d : Diagram := { terms, nodes, roots := rootids, rootNames }
  let (file, e) := exportFile g s m d
  pure ((if e then "err " else "ok ") ++ toHex file)

def hdrStr (h : Header) : String :=
  "mode=" ++ (if h.ascii then "A" else "B") ++ " nnodes=" ++ toString h.nnodes ++ " nvars=" ++ toString h.nvars
    ++ " ids=" ++ commaNat h.ids ++ " permids=" ++ commaNat h.permids ++ " svo=" ++ commaNat h.supportVarOrder
    ++ " names=" ++ (if h.varnames = [] then "-" else ",".intercalate (h.varnames.map hexName))
    ++ " rootnames=" ++ (if h.rootnames = [] then "-" else ",".intercalate (h.rootnames.map hexName))
    ++ " dd=" ++ hexName h.dd

def importWith (g : Guards) (A : Alg Edge) (nvars : Nat) (l2v : List Nat) (file : List Nat) : String :=
  match loadHeader g file with
  | .err => "err:load"
  | .panic => "panic:load"
  | .ok (h, rest) =>
    if h.ids.any (· ≥ nvars) then "reject:vars"
    else
      let v2l := invPerm nvars l2v
      let slm := h.supportVarOrder.map (fun v => v2l.getD v 0)
      if !isStrictlyAscending slm then "reject:order"
      else match importNodes g A h nvars slm rest with
        | .err => "err:import"
        | .panic => "panic:import"
        | .ok roots => "ok " ++ hdrStr h ++ String.join (roots.map (fun e => " | " ++ edgeStr l2v e))

def stepImport (g : Guards) (ws : List String) : Option String := do
  let kind ← kv ws "kind"
  let cmpl ← kv ws "cmpl"
  let nvars ← (← kv ws "nvars").toNat?
  let l2v ← natList (← kv ws "order")
  let l2v := if l2v = [] then List.range nvars else l2v
  let file ← fromHex (← kv ws "file")
  if l2v.length ≠ nvars then none
  if cmpl ≠ "not" && cmpl ≠ "id" then none
  let A ← match kind with
    | "bdd" => some (algBDD (cmpl = "not"))
    | "bcdd" => some (algBCDD (cmpl = "not"))
    | "zbdd" => if cmpl = "id" then some algZBDD else none
    | "mtbdd" => if cmpl = "id" then some algMTBDD else none
    | _ => none
  pure (importWith g A nvars l2v file)

def step (g : Guards) (st : St) (line : String) : St × String :=
  match words line with
  | "mgr" :: ws =>
    match stepMgr ws with
    | some st' => (st', "ok")
    | none => (st, "bad-op")
  | "fn" :: _ :: _ => (st, "ok")
  | "export" :: ws =>
    match stepExport g st ws with
    | some o => (st, o)
    | none => (st, "bad-op")
  | "import" :: ws =>
    match stepImport g ws with
    | some o => (st, o)
    | none => (st, "bad-op")
  | _ => (st, "bad-op")

/-- the code as it is in /repo (after the fix commits 2741478, 675d3b1, 178db83, 87032be, 16c2a8d) -/
def proto : OxiddModel.Proto := { σ := St, init := {}, step := step Guards.code }

/-- the code with the one repair that was not applied (exporter: binary mode only if every terminal
is displayed as `T`, /verif/work/proposed_fixes/Dddmp-2-export-mode-unapplied.diff); to be registered as
`dddmp` instead of `proto` if that lands -/
def protoFixed : OxiddModel.Proto := { σ := St, init := {}, step := step Guards.all }

/-- the code before the fix commits (regression runs on an old tree only) -/
def protoBefore : OxiddModel.Proto := { σ := St, init := {}, step := step Guards.before }

end OxiddModel.Dddmp
