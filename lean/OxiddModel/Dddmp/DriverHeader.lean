import OxiddModel.Util.Proto
import OxiddModel.Dddmp.Driver
import OxiddModel.Dddmp.Header

/-!
# Driver of the header stream (C15): `hdr <hex>` / `rt <expectations…> <hex>`

One line per input: the canonical rendering of every field of the header `DumpHeader::load`
returns (accessors + the private fields taken from `Debug`) and the number of bytes consumed, or
`err <class>`. Harness: `/verif/harness/src/bin/c15_header.rs`.
-/
namespace OxiddModel.Dddmp.Hdr
open OxiddModel OxiddModel.Dddmp

def commaInt (xs : List Int) : String := if xs = [] then "-" else ",".intercalate (xs.map toString)

def nameList (xs : List (List Nat)) : String := if xs = [] then "-" else ",".intercalate (xs.map hexName)

def render (h : Header) (consumed : Nat) : String :=
  "ok ascii=" ++ boolStr h.ascii ++ " varinfo=" ++ toString h.varinfo
    ++ " dd=" ++ (if h.dd = [] then "-" else toHex h.dd)
    ++ " nnodes=" ++ toString h.nnodes ++ " nvars=" ++ toString h.nvars
    ++ " nsupp=" ++ toString h.ids.length
    ++ " ids=" ++ commaNat h.ids ++ " order=" ++ commaNat h.supportVarOrder
    ++ " permids=" ++ commaNat h.permids ++ " auxids=" ++ commaNat h.auxids
    ++ " varnames=" ++ nameList h.varnames
    ++ " rootids=" ++ commaInt h.rootids ++ " rootnames=" ++ nameList h.rootnames
    ++ " lines=" ++ toString h.lines ++ " consumed=" ++ toString consumed

def runHeader (file : List Nat) : String :=
  match parseHeaderN file with
  | .error e => if e = .unwrapNone then "PANIC" else "err " ++ e.name
  | .ok (h, rest) => render h (file.length - rest.length)

def stepH (st : Unit) (line : String) : Unit × String :=
  match words line with
  | "hdr" :: ws | "rt" :: ws =>
    match ws.getLast? with
    | none => (st, "bad-op")
    | some w =>
      match (if w = "-" then some [] else fromHex w) with
      | some file => (st, runHeader file)
      | none => (st, "bad-op")
  | _ => (st, "bad-op")

def protoHeader : OxiddModel.Proto := { σ := Unit, init := (), step := stepH }

end OxiddModel.Dddmp.Hdr
