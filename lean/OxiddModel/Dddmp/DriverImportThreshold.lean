import OxiddModel.Bdd.DriverRc
import OxiddModel.Dddmp.ImportCapClosed

/-!
Line-protocol driver `c14imp` (stream `c14-import-threshold`): the lines of the `bdd-rc` protocol
(`mgr vars= nodes=`, `var`, `notvar`, `op`, `drop`, `gc`, `ninner`, … — executed by
`Bdd.DriverRc.step` on the counter store) plus

  `import <name,…> hex=<bytes> tt=<tables> sf=<ids>;<terminal descriptors>;<suppidx:t:e,…>;<roots>`

The structure field is the node section of the file the real exporter wrote (the harness checks
that it is the structure of the bytes it imports). The file is read with `support_vars =
header.support_var_order()` into a manager in the identity order, so the level of the `i`-th
support variable is `ids[i]`; the records carry the support index, i.e. the structured file has
`nvars = |ids|` levels and `suppIdx` is the identity.

Output: `need=<k> free=<j> thr=<oom|ok> ` + `OOM` | `<tree> | <tree> +<d>` with
`k = C14I.neededImport` (capacity-free importer; the driver also evaluates the closed form
`C14I.freshAll store (diagramTrees …)` of `needed_eq_fresh` and would print `k!closed=<f>` if the two
differed), `thr` = the closed form of
`C14I.import_oom_iff_needed_total`, and the outcome of `ImportCap.importCapped` under the capacity
of the `mgr` line. After an import `OOM` until the next `gc`, and after an `OOM` of any other line until the next
`mgr`, the head is `need=? free=<j>` (the harness's reference manager is out of step then).
-/
namespace OxiddModel.Dddmp.ImportThresholdDriver
open OxiddModel OxiddModel.Bdd OxiddModel.Bdd.Refine OxiddModel.Bdd.Rc
open OxiddModel.Dddmp OxiddModel.Dddmp.StoreS OxiddModel.Dddmp.ImportCap OxiddModel.Dddmp.C14I
open OxiddModel.Bdd.DriverRc (DSt kv showE)

structure ISt where
  d : DSt := {}
  dirty : Bool := false
  /-- an operation other than an import failed: sticky until the next `mgr` -/
  lost : Bool := false

def splitNE (s : String) (sep : String) : List String := (s.splitOn sep).filter (· ≠ "")

def parseNats (s : String) : Option (List Nat) := (splitNE s ",").mapM String.toNat?
def parseInts (s : String) : Option (List Int) := (splitNE s ",").mapM String.toInt?

def parseDesc (s : String) : Option (List Nat) := (splitNE s ".").mapM String.toNat?

def parseRec (s : String) : Option SNode :=
  match s.splitOn ":" with
  | [v, t, e] =>
    match v.toNat?, t.toInt?, e.toInt? with
    | some v, some t, some e => some ⟨v, [t, e]⟩
    | _, _, _ => none
  | _ => none

/-- `<ids>;<terminal descriptors>;<inner records>;<roots>` -/
def parseFile (s : String) : Option (List Nat × Diagram) :=
  match s.splitOn ";" with
  | [ids, terms, inner, roots] => do
    let ids ← parseNats ids
    let terms ← (splitNE terms ",").mapM parseDesc
    let nodes ← (splitNE inner ",").mapM parseRec
    let roots ← parseInts roots
    some (ids, ⟨terms, nodes, roots, none⟩)
  | _ => none

def step (s : ISt) (line : String) : ISt × String :=
  let ws := words line
  match ws with
  | "import" :: names :: rest =>
    match (kv rest "sf").bind parseFile with
    | none => (s, "bad-op")
    | some (ids, file) =>
      let d := s.d
      let nvars := ids.length
      let count := d.r.st.store.count
      let free := d.cap - count
      let need := neededImport complId ids nvars d.r file
      -- the closed form of `C14I.needed_eq_fresh` (for files the capacity-free importer accepts):
      -- printed beside `need` when it differs (it never does)
      let closed := freshAll d.r.st.store (diagramTrees ids nvars file)
      let accepted := match (importU complId ids nvars d.r file).1 with
        | .ok _ => true
        | .fail _ => false
      let needS := if accepted && closed != need then s!"{need}!closed={closed}" else toString need
      let thr := if 0 < need ∧ d.cap < count + need then "oom" else "ok"
      let head := if s.dirty || s.lost then s!"need=? free={free}" else s!"need={needS} free={free} thr={thr}"
      match importCapped d.cap complId ids nvars d.r file with
      | (.fail .oom, r') => ({ s with d := { d with r := r' }, dirty := true }, s!"{head} OOM")
      | (.fail _, r') => ({ s with d := { d with r := r' } }, s!"{head} ERR")
      | (.ok roots, r') =>
        let trees := roots.map (showE r'.st.store)
        let delta := r'.st.store.count - count
        -- `BTreeMap::insert` in the harness: an existing handle of that name is dropped afterwards
        let (r'', h) := ((splitNE names ",").zip roots).foldl
          (fun (acc : RSt × Std.HashMap String Refine.Edge) (p : String × Refine.Edge) =>
            let r1 := match acc.2[p.1]? with
              | some old => dropEdge acc.1 old
              | none => acc.1
            (r1, acc.2.insert p.1 p.2)) (r', d.h)
        ({ s with d := { d with r := r'', h := h } }, s!"{head} {" | ".intercalate trees} +{delta}")
  | _ =>
    let (d', out) := DriverRc.step s.d line
    match ws with
    | "mgr" :: _ => ({ d := d', dirty := false, lost := false }, out)
    | ["gc"] => ({ s with d := d', dirty := false }, out)
    | _ => ({ s with d := d', lost := s.lost || out == "OOM" }, out)

def proto : Proto := { σ := ISt, init := {}, step := step }

end OxiddModel.Dddmp.ImportThresholdDriver
