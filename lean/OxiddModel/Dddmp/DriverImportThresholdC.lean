import OxiddModel.Bcdd.DriverRc
import OxiddModel.Dddmp.PropertiesC14ImportC
import OxiddModel.Dddmp.DriverImportThreshold

/-!
Line-protocol driver `c14impc` (stream `c14-import-threshold-bcdd`): the BCDD counterpart of
`c14imp`. The lines of the `bcdd-rc` protocol are executed by `Bcdd.DriverRc.step` on the
complement-edge counter store; an `import` line (same syntax; `hex=` is the BINARY file the real
importer reads, `hexa=` the ASCII export of the same roots from which the harness reads the
structure `sf=` — the exporter's numbering is deterministic; negative ids are complemented edges)
runs `ImportCapC.importCappedC` (`import_bin` on the counter store) with the callback
`not_edge_owned` = `complNotC` under the capacity of the `mgr` line and prints
`need=<C14IC.neededImportC> free=<j> thr=<closed form of importC_oom_iff_needed_not>` and `OOM` or
the trees of the roots (`~` = complement tag) and the slots taken.
-/
namespace OxiddModel.Dddmp.ImportThresholdDriverC
open OxiddModel OxiddModel.Bcdd OxiddModel.Bcdd.Refine OxiddModel.Bcdd.Rc
open OxiddModel.Dddmp OxiddModel.Dddmp.StoreSC OxiddModel.Dddmp.ImportCapC OxiddModel.Dddmp.C14IC
open OxiddModel.Bcdd.DriverRc (DSt kv showE)
open OxiddModel.Dddmp.ImportThresholdDriver (parseFile splitNE)

structure ISt where
  d : DSt := {}
  dirty : Bool := false
  /-- an operation other than an import failed: sticky until the next `mgr` -/
  lost : Bool := false

def step (s : ISt) (line : String) : ISt × String :=
  let ws := words line
  match ws with
  | "import" :: names :: rest =>
    match (kv rest "sf").bind parseFile with
    | none => (s, "bad-op")
    | some (ids, file) =>
      let d := s.d
      let nvars := ids.length
      let count := d.r.st.store.count
      let free := d.cap - count
      let need := neededImportC complNotC ids nvars d.r file
      let thr := if 0 < need ∧ d.cap < count + need then "oom" else "ok"
      let head := if s.dirty || s.lost then s!"need=? free={free}" else s!"need={need} free={free} thr={thr}"
      match importCappedC d.cap complNotC ids nvars d.r file with
      | (.fail .oom, r') => ({ s with d := { d with r := r' }, dirty := true }, s!"{head} OOM")
      | (.fail _, r') => ({ s with d := { d with r := r' } }, s!"{head} ERR")
      | (.ok roots, r') =>
        let trees := roots.map (showE r'.st.store)
        let delta := r'.st.store.count - count
        let (r'', h) := ((splitNE names ",").zip roots).foldl
          (fun (acc : RStC × Std.HashMap String EdgeC) (p : String × EdgeC) =>
            let r1 := match acc.2[p.1]? with
              | some old => dropEdge acc.1 old
              | none => acc.1
            (r1, acc.2.insert p.1 p.2)) (r', d.h)
        ({ s with d := { d with r := r'', h := h } }, s!"{head} {" | ".intercalate trees} +{delta}")
  | _ =>
    let (d', out) := DriverRc.step s.d line
    match ws with
    | "mgr" :: _ => ({ d := d', dirty := false, lost := false }, out)
    | ["gc"] => ({ s with d := d', dirty := false }, out)
    | _ => ({ s with d := d', lost := s.lost || out == "OOM" }, out)

def proto : Proto := { σ := ISt, init := {}, step := step }

end OxiddModel.Dddmp.ImportThresholdDriverC
