import OxiddModel.Dddmp.Model

/-!
# DDDMP header: byte-level model of `DumpHeader::load` with error classes, and of the header writer (C15)

`/repo/crates/oxidd-dump/src/dddmp/import.rs`, `DumpHeader::load` (lines 52–349) and the parse
helpers (`trim`, `parse_str_list`, `parse_single_*`, `parse_u32_list`, `parse_edge_list`), and the
header part of `export_common` in `export.rs` (lines 333–546).

`Model.lean` already contains `loadLines` / `loadHeader` (result type `Res`: ok / err / panic, with
`Guards` for the code before the fix commits). This file restates the reader for the code as it is
now (`Guards.all` for the two capacity guards) with a **small error-class enum** `HErr` (one class
per error message family of the Rust code), factored so that every validation clause is a separate
function, and adds the writer `writeHeader`. `PropertiesHeader.lean` proves that the classified
reader refines `loadHeader Guards.all`, the well-formedness of every accepted header, the byte-level
round trip and one rejection lemma per validation clause.

Bytes are `Nat`s as everywhere in `OxiddModel.Dddmp`; `parseHeader` / `writeHeaderBytes` are the
`List UInt8` wrappers (so that "all bytes < 256" holds by typing).
-/
namespace OxiddModel.Dddmp.Hdr
open OxiddModel.Dddmp

/-- Error classes of `DumpHeader::load` (the harness maps the message text to the same names). -/
inductive HErr where
  | eof            -- "unexpected end of file"
  | version        -- "unsupported version …"
  | value          -- "unknown value … for key '.mode' / '.varinfo'"
  | key            -- "unknown key …"
  | overflow       -- "integer … too large"
  | char           -- "unexpected char … in integer / in space-separated list of integers"
  | empty          -- "expected an integer …"
  | minus          -- "expected a digit after '-'" / "expected a space before '-'"
  | nsupp          -- ".nsuppvars (…) must not be greater than .nvars"
  | countIds | countPermids | countAuxids | countOrdered | countSupp | countVarnames
  | countRootids | countRootnames          -- "number of … in … entry (…) does not match …"
  | idsOrder       -- "support variables in .ids must be ascending"
  | idsRange       -- "support variables in .ids must be less than .nvars"
  | permRange      -- "levels in .permids must be less than .nvars"
  | permDup        -- "level (…) occurs twice in .permids"
  | mismatchOrdered -- ".varnames and .orderedvarnames do not match"
  | mismatchSupp   -- ".suppvarnames and .varnames/.orderedvarnames do not match"
  | rootZero       -- ".rootids must not be 0"
  | rootRange      -- "entry in .rootids out of range"
  | alloc          -- "cannot allocate the names of … variables (.nvars)" (`try_reserve_exact` failed)
  | unwrapNone     -- `non_suppvarnames.next().unwrap()` on `None`: a panic (proved unreachable)
deriving Repr, DecidableEq, Inhabited

instance {α : Type} [DecidableEq α] : DecidableEq (Except HErr α) := fun a b =>
  match a, b with
  | .ok x, .ok y => if h : x = y then isTrue (by rw [h]) else isFalse (fun e => h (by injection e))
  | .error x, .error y => if h : x = y then isTrue (by rw [h]) else isFalse (fun e => h (by injection e))
  | .ok _, .error _ => isFalse (fun e => by cases e)
  | .error _, .ok _ => isFalse (fun e => by cases e)

def HErr.name : HErr → String
  | .eof => "eof" | .version => "version" | .value => "value" | .key => "key"
  | .overflow => "overflow" | .char => "char" | .empty => "empty" | .minus => "minus"
  | .nsupp => "nsupp" | .countIds => "count-ids" | .countPermids => "count-permids"
  | .countAuxids => "count-auxids" | .countOrdered => "count-ordered" | .countSupp => "count-supp"
  | .countVarnames => "count-varnames" | .countRootids => "count-rootids"
  | .countRootnames => "count-rootnames" | .idsOrder => "ids-order" | .idsRange => "ids-range"
  | .permRange => "perm-range" | .permDup => "perm-dup"
  | .mismatchOrdered => "name-mismatch-ordered" | .mismatchSupp => "name-mismatch-supp"
  | .rootZero => "root-zero" | .rootRange => "root-range" | .alloc => "alloc" | .unwrapNone => "PANIC"

/-! ## integer parsers with error classes -/

/-- `parse_single_u32` / `parse_single_usize` -/
def parseSingleGo (max : Nat) (res : Nat) (num : Bool) : List Nat → Except HErr Nat
  | [] => if num then .ok res else .error .empty
  | c :: r =>
    if isDigit c then
      let v := res * 10 + (c - 48)
      if v > max then .error .overflow else parseSingleGo max v true r
    else .error .char

def parseSingleC (max : Nat) (s : List Nat) : Except HErr Nat := parseSingleGo max 0 false s

/-- `parse_u32_list` -/
def parseU32ListGo (i : Nat) (num : Bool) (acc : List Nat) : List Nat → Except HErr (List Nat)
  | [] => .ok (if num then (i :: acc).reverse else acc.reverse)
  | c :: r =>
    if isDigit c then
      let v := i * 10 + (c - 48)
      if v > u32Max then .error .overflow else parseU32ListGo v true acc r
    else if isBlank c then
      if num then parseU32ListGo 0 false (i :: acc) r else parseU32ListGo i num acc r
    else .error .char

def parseU32ListC (s : List Nat) : Except HErr (List Nat) := parseU32ListGo 0 false [] s

/-- `parse_edge_list` -/
def parseEdgeListGo (i : Nat) (neg num : Bool) (acc : List Int) : List Nat → Except HErr (List Int)
  | [] => .ok (if num then ((if neg then -(i : Int) else i) :: acc).reverse else acc.reverse)
  | c :: r =>
    if isDigit c then
      let v := i * 10 + (c - 48)
      if v > isizeMax then .error .overflow else parseEdgeListGo v neg true acc r
    else if c = 45 then
      if neg then .error .minus else if num then .error .minus else parseEdgeListGo i true num acc r
    else if isBlank c then
      if num then parseEdgeListGo 0 false false ((if neg then -(i : Int) else i) :: acc) r
      else parseEdgeListGo i neg num acc r
    else .error .char

def parseEdgeListC (s : List Nat) : Except HErr (List Int) := parseEdgeListGo 0 false false [] s

/-! ## keys (explicit byte lists so that they reduce in the kernel) -/

def kVer : List Nat := [46, 118, 101, 114]
def kMode : List Nat := [46, 109, 111, 100, 101]
def kVarinfo : List Nat := [46, 118, 97, 114, 105, 110, 102, 111]
def kDd : List Nat := [46, 100, 100]
def kNnodes : List Nat := [46, 110, 110, 111, 100, 101, 115]
def kNvars : List Nat := [46, 110, 118, 97, 114, 115]
def kNsuppvars : List Nat := [46, 110, 115, 117, 112, 112, 118, 97, 114, 115]
def kVarnames : List Nat := [46, 118, 97, 114, 110, 97, 109, 101, 115]
def kSuppvarnames : List Nat := [46, 115, 117, 112, 112, 118, 97, 114, 110, 97, 109, 101, 115]
def kOrderedvarnames : List Nat := [46, 111, 114, 100, 101, 114, 101, 100, 118, 97, 114, 110, 97, 109, 101, 115]
def kIds : List Nat := [46, 105, 100, 115]
def kPermids : List Nat := [46, 112, 101, 114, 109, 105, 100, 115]
def kAuxids : List Nat := [46, 97, 117, 120, 105, 100, 115]
def kNroots : List Nat := [46, 110, 114, 111, 111, 116, 115]
def kRootids : List Nat := [46, 114, 111, 111, 116, 105, 100, 115]
def kRootnames : List Nat := [46, 114, 111, 111, 116, 110, 97, 109, 101, 115]
def kNodes : List Nat := [46, 110, 111, 100, 101, 115]
def vV2 : List Nat := [68, 68, 68, 77, 80, 45, 50, 46, 48]
def vV3 : List Nat := [68, 68, 68, 77, 80, 45, 51, 46, 48]

#guard kVer == strBytes ".ver" && kMode == strBytes ".mode" && kVarinfo == strBytes ".varinfo"
  && kDd == strBytes ".dd" && kNnodes == strBytes ".nnodes" && kNvars == strBytes ".nvars"
  && kNsuppvars == strBytes ".nsuppvars" && kVarnames == strBytes ".varnames"
  && kSuppvarnames == strBytes ".suppvarnames" && kOrderedvarnames == strBytes ".orderedvarnames"
  && kIds == strBytes ".ids" && kPermids == strBytes ".permids" && kAuxids == strBytes ".auxids"
  && kNroots == strBytes ".nroots" && kRootids == strBytes ".rootids"
  && kRootnames == strBytes ".rootnames" && kNodes == strBytes ".nodes"
  && vV2 == strBytes "DDDMP-2.0" && vV3 == strBytes "DDDMP-3.0"

/-! ## the key/value loop -/

inductive LineRes where
  | cont (a : HdrAcc)
  | stop
  | fail (e : HErr)

/-- key and (trimmed) value of a line: split at the first blank (`memchr2(b' ', b'\t')`) -/
def keyValue (ln : List Nat) : List Nat × List Nat :=
  match splitBlank ln with
  | some (k, v) => (k, trim v)
  | none => (ln, [])

/-! field updates as separate definitions (keeps the terms of `applyKV` small) -/
def setAscii (a : HdrAcc) (b : Bool) : HdrAcc := { a with h := { a.h with ascii := b } }
def setVarinfo (a : HdrAcc) (v : Nat) : HdrAcc := { a with h := { a.h with varinfo := v } }
def setDd (a : HdrAcc) (v : List Nat) : HdrAcc := { a with h := { a.h with dd := v } }
def setNnodes (a : HdrAcc) (v : Nat) : HdrAcc := { a with h := { a.h with nnodes := v } }
def setNvars (a : HdrAcc) (v : Nat) : HdrAcc := { a with h := { a.h with nvars := v } }
def setNsupp (a : HdrAcc) (v : Nat) : HdrAcc := { a with nsuppvars := v }
def setVarnames (a : HdrAcc) (v : List (List Nat)) : HdrAcc := { a with h := { a.h with varnames := v } }
def setSvn (a : HdrAcc) (v : List (List Nat)) : HdrAcc := { a with suppvarnames := v }
def setOvn (a : HdrAcc) (v : List (List Nat)) : HdrAcc := { a with orderedvarnames := v }
def setIds (a : HdrAcc) (v : List Nat) : HdrAcc := { a with h := { a.h with ids := v } }
def setPermids (a : HdrAcc) (v : List Nat) : HdrAcc := { a with h := { a.h with permids := v } }
def setAuxids (a : HdrAcc) (v : List Nat) : HdrAcc := { a with h := { a.h with auxids := v } }
def setNroots (a : HdrAcc) (v : Nat) : HdrAcc := { a with nroots := v }
def setRootids (a : HdrAcc) (v : List Int) : HdrAcc := { a with h := { a.h with rootids := v } }
def setRootnames (a : HdrAcc) (v : List (List Nat)) : HdrAcc := { a with h := { a.h with rootnames := v } }

/-- `field = parse(value)?` -/
def onParse {α : Type} (r : Except HErr α) (f : α → HdrAcc) : LineRes :=
  match r with
  | .ok v => .cont (f v)
  | .error e => .fail e

def versionLine (acc : HdrAcc) (value : List Nat) : LineRes :=
  if value = vV2 || value = vV3 then .cont acc else .fail .version

def modeLine (acc : HdrAcc) (value : List Nat) : LineRes :=
  if value = [65] then .cont (setAscii acc true)
  else if value = [66] then .cont (setAscii acc false)
  else .fail .value

def varinfoLine (acc : HdrAcc) (value : List Nat) : LineRes :=
  match value with
  | [c] => if 48 ≤ c && c ≤ 52 then .cont (setVarinfo acc (c - 48)) else .fail .value
  | _ => .fail .value

/-- the `match key { … }` of the loop body, on the key and the trimmed value -/
def applyKV (acc : HdrAcc) (key value : List Nat) : LineRes :=
  if key = kVer then versionLine acc value
  else if key = kMode then modeLine acc value
  else if key = kVarinfo then varinfoLine acc value
  else if key = kDd then .cont (setDd acc (utf8Lossy value))
  else if key = kNnodes then onParse (parseSingleC (usize64 - 1) value) (setNnodes acc)
  else if key = kNvars then onParse (parseSingleC u32Max value) (setNvars acc)
  else if key = kNsuppvars then onParse (parseSingleC u32Max value) (setNsupp acc)
  else if key = kVarnames then .cont (setVarnames acc (parseStrList value))
  else if key = kSuppvarnames then .cont (setSvn acc (parseStrList value))
  else if key = kOrderedvarnames then .cont (setOvn acc (parseStrList value))
  else if key = kIds then onParse (parseU32ListC value) (setIds acc)
  else if key = kPermids then onParse (parseU32ListC value) (setPermids acc)
  else if key = kAuxids then onParse (parseU32ListC value) (setAuxids acc)
  else if key = kNroots then onParse (parseSingleC (usize64 - 1) value) (setNroots acc)
  else if key = kRootids then onParse (parseEdgeListC value) (setRootids acc)
  else if key = kRootnames then .cont (setRootnames acc (parseStrList value))
  else if key = kNodes then .stop
  else .fail .key

def applyLine (acc : HdrAcc) (ln : List Nat) : LineRes :=
  applyKV acc (keyValue ln).1 (keyValue ln).2

/-- the `loop { read_until … }` of `DumpHeader::load`: accumulator, number of the `.nodes` line and
the input after it. Fuel `inp.length + 1` is never exhausted (`loadLinesC_fuel`). -/
def loadLinesC : Nat → HdrAcc → Nat → List Nat → Except HErr (HdrAcc × Nat × List Nat)
  | 0, _, _, _ => .error .eof
  | fuel + 1, acc, lineNo, inp =>
    match readLine inp with
    | none => .error .eof
    | some (ln, rest) =>
      match applyLine acc ln with
      | .cont a => loadLinesC fuel a (lineNo + 1) rest
      | .stop => .ok (acc, lineNo, rest)
      | .fail e => .error e

/-! ## validation, clause by clause (in the order of the code) -/

/-- the `level_count` loop over `.permids`: the first offending entry decides the class -/
def permCheck (nvars : Nat) : List Nat → List Nat → Option HErr
  | [], _ => none
  | l :: r, seen =>
    if l ≥ nvars then some .permRange
    else if seen.contains l then some .permDup
    else permCheck nvars r (l :: seen)

/-- the loop over `.rootids` -/
def rootCheck (nnodes : Nat) : List Int → Option HErr
  | [] => none
  | id :: r =>
    if id = 0 then some .rootZero
    else if id.natAbs > nnodes then some .rootRange
    else rootCheck nnodes r

/-- position of a level among the support levels. Since commit 5fa35fa the code computes it as
`sorted_levels.binary_search(&level)` in the sorted copy of `.permids` (all entries distinct at that
point): that index is the number of entries below `level`. (Before the fix: prefix sums over a
`vec![0u32; nvars]` — the same number, but `4·nvars` bytes.) Neither the model nor the driver builds
a list of length `.nvars` here. -/
def levelPos (permids : List Nat) (level : Nat) : Nat := (permids.filter (· < level)).length

/-- `support_var_order`: `order[pos(level)] = var` for every pair of `.ids` / `.permids` -/
def svoOf (ids permids : List Nat) : List Nat :=
  (ids.zip permids).foldl (fun o (p : Nat × Nat) => listSet o (levelPos permids p.2) p.1)
    (List.replicate ids.length 0)

/-- one step of `for name in &mut header.varnames { if name.is_empty() { *name = next().unwrap() } }`:
state = (names so far, reversed; remaining non-support names; did an `unwrap` fail) -/
def fillStep (st : List (List Nat) × List (List Nat) × Bool) (n : List Nat) :
    List (List Nat) × List (List Nat) × Bool :=
  if n = [] then
    match st.2.1 with
    | x :: xs => (x :: st.1, xs, st.2.2)
    | [] => (n :: st.1, [], true)
  else (n :: st.1, st.2.1, st.2.2)

/-- names from `.orderedvarnames` (the 2.0-style reconstruction): `none` = the `unwrap` panics -/
def namesFromOrdered (nvars : Nat) (ids permids : List Nat) (ovn : List (List Nat)) : Option (List (List Nat)) :=
  let idp := ids.zip permids
  let vn0 := idp.foldl (fun vn (p : Nat × Nat) => listSet vn p.1 (ovn.getD p.2 [])) (List.replicate nvars [])
  let ovn' := idp.foldl (fun o (p : Nat × Nat) => listSet o p.2 []) ovn
  let rest := ovn'.filter (· ≠ [])
  let fill := vn0.foldl fillStep ([], rest, false)
  if fill.2.2 then none else some fill.1.reverse

/-- ASSUMPTION (allocator): `Vec::<String>::try_reserve_exact(nvars)` fails iff `24·nvars` exceeds
the memory the process may still allocate. The harness runs every header with `.nvars > 65536` in a
child process with a 320 MiB address-space limit; the model uses 256 MiB. The generator only uses
`.nvars ≤ 65537` (1.5 MiB, succeeds) or `≥ 2^31` (≥ 48 GiB, fails), far from the threshold. -/
def allocLimit : Nat := 268435456

def suppMismatch (svn : List (List Nat)) (ids : List Nat) (vn : List (List Nat)) : Bool :=
  (svn.zip ids).any (fun (p : List Nat × Nat) => p.1 ≠ vn.getD p.2 [])

/-- the `'var_names` block -/
def namesC (h : Header) (svn ovn : List (List Nat)) : Except HErr (List (List Nat)) :=
  if h.varnames = [] then
    if ovn = [] then
      if svn = [] then .ok []
      -- `header.varnames.try_reserve_exact(nvars)` (24-byte `String`s): the only allocation left
      -- that is proportional to `.nvars` and not to the input; its failure is an error
      else if 24 * h.nvars > allocLimit then .error .alloc
      else .ok ((svn.zip h.ids).foldl (fun vn (p : List Nat × Nat) => listSet vn p.2 p.1) (List.replicate h.nvars []))
    else
      match namesFromOrdered h.nvars h.ids h.permids ovn with
      | none => .error .unwrapNone
      | some vn => if suppMismatch svn h.ids vn then .error .mismatchSupp else .ok vn
  else
    if h.varnames.length ≠ h.nvars then .error .countVarnames
    else if ovn ≠ [] && (h.ids.zip h.permids).any (fun (p : Nat × Nat) => h.varnames.getD p.1 [] ≠ ovn.getD p.2 [])
      then .error .mismatchOrdered
    else if suppMismatch svn h.ids h.varnames then .error .mismatchSupp
    else .ok h.varnames

/-- the header that is returned: line count, `support_var_order` and the reconciled names filled in -/
def finish (h : Header) (lineNo : Nat) (vn : List (List Nat)) : Header :=
  { h with lines := lineNo, supportVarOrder := svoOf h.ids h.permids, varnames := vn }

/-- the last three checks (roots) -/
def rootsPart (acc : HdrAcc) (lineNo : Nat) (vn : List (List Nat)) : Except HErr Header :=
  if acc.h.rootids.length ≠ acc.nroots then .error .countRootids else
  match rootCheck acc.h.nnodes acc.h.rootids with
  | some e => .error e
  | none =>
    if acc.h.rootnames ≠ [] ∧ acc.h.rootnames.length ≠ acc.nroots then .error .countRootnames else
    .ok (finish acc.h lineNo vn)

/-- everything after the loop (`h = acc.h`; the checks only read fields that `finish` leaves alone) -/
def validateC (acc : HdrAcc) (lineNo : Nat) : Except HErr Header :=
  if acc.nsuppvars > acc.h.nvars then .error .nsupp else
  if acc.h.ids.length ≠ acc.nsuppvars then .error .countIds else
  if acc.h.permids.length ≠ acc.nsuppvars then .error .countPermids else
  if acc.h.auxids ≠ [] ∧ acc.h.auxids.length ≠ acc.nsuppvars then .error .countAuxids else
  if acc.h.ids ≠ [] ∧ isStrictlyAscending acc.h.ids = false then .error .idsOrder else
  if acc.h.ids ≠ [] ∧ acc.h.ids.getLast! ≥ acc.h.nvars then .error .idsRange else
  match permCheck acc.h.nvars acc.h.permids [] with
  | some e => .error e
  | none =>
    if acc.orderedvarnames ≠ [] ∧ acc.orderedvarnames.length ≠ acc.h.nvars then .error .countOrdered else
    if acc.suppvarnames ≠ [] ∧ acc.suppvarnames.length ≠ acc.nsuppvars then .error .countSupp else
    match namesC acc.h acc.suppvarnames acc.orderedvarnames with
    | .error e => .error e
    | .ok vn => rootsPart acc lineNo vn

/-- `DumpHeader::load` on bytes-as-`Nat`: the header and the input positioned after the `.nodes` line -/
def parseHeaderN (inp : List Nat) : Except HErr (Header × List Nat) :=
  match loadLinesC (inp.length + 1) {} 1 inp with
  | .error e => .error e
  | .ok (acc, lineNo, rest) =>
    match validateC acc lineNo with
    | .error e => .error e
    | .ok h => .ok (h, rest)

/-- `DumpHeader::load` on bytes; the rest is the suffix of the input of the model rest's length -/
def parseHeader (inp : List UInt8) : Except HErr (Header × List UInt8) :=
  match parseHeaderN (inp.map UInt8.toNat) with
  | .error e => .error e
  | .ok (h, rest) => .ok (h, inp.drop (inp.length - rest.length))

/-! ## the writer: header part of `export_common` -/

/-- What the exporter puts into a header, as the reader will see it. `names`: the three name lines
are written iff `varnames ≠ []` (`.varnames` only for version 3.0). -/
structure WSettings where
  v3 : Bool := false

def kvLine (key value : List Nat) : List Nat := key ++ value ++ [nl]

/-- `.suppvarnames` / `.orderedvarnames` values derived from `varnames`, `ids`, `permids`:
ordered names are only determined on the support levels by the header; the writer model takes the
complete level order `l2v` (a list of all variables, top level first) as a parameter. -/
def nameLines (ws : WSettings) (h : Header) (l2v : List Nat) : List Nat :=
  if h.varnames = [] then [] else
    (if ws.v3 then kvLine kVarnames (joinSp h.varnames) else [])
    ++ kvLine kSuppvarnames (joinSp (h.ids.map (fun v => h.varnames.getD v [])))
    ++ kvLine kOrderedvarnames (joinSp (l2v.map (fun v => h.varnames.getD v [])))

/-- the header as `export_common` writes it (lines 333–546 of export.rs), for the values of an
accepted header record; `.varinfo` is always 4 in the exporter. -/
def writeHeaderN (ws : WSettings) (h : Header) (l2v : List Nat) : List Nat :=
  kvLine kVer (sp :: (if ws.v3 then vV3 else vV2))
  ++ kvLine kMode (sp :: (if h.ascii then [65] else [66]))
  ++ kvLine kVarinfo (sp :: decBytes h.varinfo)
  ++ (if h.dd ≠ [] then kvLine kDd (sp :: h.dd) else [])
  ++ kvLine kNnodes (sp :: decBytes h.nnodes)
  ++ kvLine kNvars (sp :: decBytes h.nvars)
  ++ kvLine kNsuppvars (sp :: decBytes h.ids.length)
  ++ nameLines ws h l2v
  ++ kvLine kIds (joinSp (h.ids.map decBytes))
  ++ kvLine kPermids (joinSp (h.permids.map decBytes))
  ++ kvLine kNroots (sp :: decBytes h.rootids.length)
  ++ kvLine kRootids (joinSp (h.rootids.map intBytes))
  ++ (if h.rootnames ≠ [] then kvLine kRootnames (joinSp h.rootnames) else [])
  ++ kvLine kNodes []

/-- `List UInt8` version of the writer -/
def writeHeader (ws : WSettings) (h : Header) (l2v : List Nat) : List UInt8 :=
  (writeHeaderN ws h l2v).map UInt8.ofNat

end OxiddModel.Dddmp.Hdr
