import OxiddModel.Dddmp.StoreSLemmasRc
import OxiddModel.Bdd.ThresholdS

/-!
# The out-of-memory threshold of a DDDMP import — exactly (C14, C15)

`Dddmp/StoreS.lean` models `dddmp::import` / `import_ascii` on the counter store with a node
capacity (`importS cfg`, `cfg.cap`): every file entry runs `reduce(..).then_insert(..)?` =
`mkNodeR cap` once (the only place where the importer allocates); on `Err(OutOfMemory)` the `?`
leaves `import_ascii`, the `EdgeVecDropGuard` of the node table drops every entry built so far
(`nodeLoop`: `dropList r' table`), `reduce` itself has dropped the two children of the rejected
node (`mkNodeR`, `none` branch).

This file relates the capped import to the **capacity-free** import `importU` (the same
statements with `add_node` never failing, `mkNodeU`) — for every store, counter array, cache,
file (well formed or not), root list, level map and capacity, and every complement callback that
only moves counters (`ComplPure`: `|_, e| Ok(e)`, a tag flip; the files written by the simple-BDD
exporter have no negative id, so no callback is ever invoked on them: `importS_noNeg_compl`):

* `import_thr` (`ThrO`): if the capacity-free import `Fits` the capacity, the capped import **is**
  the capacity-free import (result, store, cache, counters); if it does not fit the capped import
  reports `OutOfMemory`;
* the importer is written generically over the node constructor (`importG mk`), so the same
  induction serves any pair of constructors related by `MkThr`.

`needed := count (capacity-free import).store − count store` does not mention the capacity.
-/
namespace OxiddModel.Dddmp.ImportCap
open OxiddModel.Bdd OxiddModel.Bdd.Refine OxiddModel.Bdd.Rc
open OxiddModel.Dddmp OxiddModel.Dddmp.StoreS

/-! ## the importer, generic in the node constructor -/

/-- `reduce(manager, level, [t, e]).then_insert(manager, level)` as a parameter -/
abbrev Mk := RSt → Nat → Edge → Edge → Option Edge × RSt

/-- `add_node` never fails: `mkNodeR` without the capacity test -/
def mkNodeU : Mk := fun r level t e =>
  if t = e then (some t, dropEdge r e) else
  match r.st.store.find? ⟨level, t, e⟩ with
  | some i => (some (.inner i), cloneEdge (dropEdge (dropEdge r t) e) (.inner i))
  | none =>
    let a := r.st.store.alloc ⟨level, t, e⟩
    (some (.inner a.2), { st := { r.st with store := a.1 }, rc := rcSet r.rc a.2 2 })

/-- `StoreS.nodeStep` with the node constructor as a parameter -/
def nodeStepG (mk : Mk) (compl : Compl) (slm supp : List Nat) (nodeId : Nat) (table : List Edge)
    (r : RSt) (n : SNode) : Step Edge × RSt :=
  if n.children.length ≠ 2 then (.error .malformed, r)
  else if n.children.contains 0 then
    match parseTermBdd (decBytes (suppIdx supp n.level)) with
    | none => (.error .malformed, r)
    | some b => (.ok (.term b), r)
  else
    match slm[suppIdx supp n.level]? with
    | none => (.error .malformed, r)
    | some level =>
      match childLoop compl nodeId level table r [] n.children with
      | (.error e, r') => (.error e, r')
      | (.ok [t, e], r') =>
        match mk r' level t e with
        | (some x, r'') => (.ok x, r'')
        | (none, r'') => (.error .oom, r'')
      | (.ok cs, r') => (.error .panic, dropList r' cs)

/-- `StoreS.nodeLoop` with the node constructor as a parameter -/
def nodeLoopG (mk : Mk) (compl : Compl) (slm supp : List Nat) :
    RSt → List Edge → List SNode → Step (List Edge) × RSt
  | r, table, [] => (.ok table, r)
  | r, table, n :: ns =>
    match nodeStepG mk compl slm supp (table.length + 1) table r n with
    | (.error e, r') => (.error e, dropList r' table)
    | (.ok x, r') => nodeLoopG mk compl slm supp r' (table ++ [x]) ns

/-- `StoreS.importS` with the node constructor as a parameter -/
def importG (mk : Mk) (compl : Compl) (slm : List Nat) (nvars : Nat) (r : RSt) (d : Diagram) :
    Out × RSt :=
  if d.roots.any (fun id => id = 0 || id.natAbs > d.terms.length + d.nodes.length) then (.fail .malformed, r)
  else
    match termLoop d.terms with
    | .error e => (.fail e, r)
    | .ok tt =>
      match nodeLoopG mk compl slm (suppLevels nvars d.nodes) r tt d.nodes with
      | (.error e, r') => (.fail e, r')
      | (.ok table, r') =>
        match rootLoop compl table r' [] d.roots with
        | (.error e, r'') => (.fail e, dropList r'' table)
        | (.ok roots, r'') => (.ok roots, dropList r'' table)

/-- **the capacity-bounded import**: literally `importS` (`dddmp::import` + `import_ascii` on the
counter store, `add_node` failing when `cap` nodes are stored) -/
def importCapped (cap : Nat) (compl : Compl) (slm : List Nat) (nvars : Nat) (r : RSt) (d : Diagram) :
    Out × RSt :=
  importS ⟨cap, compl, slm⟩ nvars r d

/-- **the capacity-free import** -/
def importU (compl : Compl) (slm : List Nat) (nvars : Nat) (r : RSt) (d : Diagram) : Out × RSt :=
  importG mkNodeU compl slm nvars r d

theorem nodeStep_eq_G (cfg : ICfg) (supp : List Nat) (nodeId : Nat) (table : List Edge) (r : RSt)
    (n : SNode) :
    nodeStep cfg supp nodeId table r n =
      nodeStepG (mkNodeR cfg.cap) cfg.compl cfg.slm supp nodeId table r n := rfl

theorem nodeLoop_eq_G (cfg : ICfg) (supp : List Nat) : ∀ (ns : List SNode) (r : RSt) (table : List Edge),
    nodeLoop cfg supp r table ns = nodeLoopG (mkNodeR cfg.cap) cfg.compl cfg.slm supp r table ns := by
  intro ns
  induction ns with
  | nil => intro r table; rfl
  | cons n ns ih =>
    intro r table
    simp only [nodeLoop, nodeLoopG, nodeStep_eq_G]
    generalize nodeStepG (mkNodeR cfg.cap) cfg.compl cfg.slm supp (table.length + 1) table r n = S
    obtain ⟨o, r'⟩ := S
    cases o with
    | error e => rfl
    | ok x => exact ih _ _

theorem importCapped_eq_G (cap : Nat) (compl : Compl) (slm : List Nat) (nvars : Nat) (r : RSt)
    (d : Diagram) :
    importCapped cap compl slm nvars r d = importG (mkNodeR cap) compl slm nvars r d := by
  unfold importCapped importS importG
  simp only [nodeLoop_eq_G]
  rfl

/-! ## the relation between a capped and a capacity-free constructor -/

/-- `mkC` is `mkU` under capacity `cap` -/
structure MkThr (cap : Nat) (mkC mkU : Mk) : Prop where
  fit : ∀ r l t e, Fits cap r.st.store (mkU r l t e).2.st.store → mkC r l t e = mkU r l t e
  oom : ∀ r l t e, ¬ Fits cap r.st.store (mkU r l t e).2.st.store → (mkC r l t e).1 = none
  mono : ∀ r l t e, r.st.store.count ≤ (mkU r l t e).2.st.store.count
  step : ∀ r l t e, (mkU r l t e).2.st.store.count ≤ r.st.store.count + 1
  total : ∀ r l t e, (mkU r l t e).1 ≠ none

theorem mkNodeU_cases (r : RSt) (l : Nat) (t e : Edge) :
    ((mkNodeU r l t e).2.st.store = r.st.store ∧ ∀ cap, mkNodeR cap r l t e = mkNodeU r l t e) ∨
    ((mkNodeU r l t e).2.st.store.count = r.st.store.count + 1 ∧
      (∀ cap, r.st.store.count < cap → mkNodeR cap r l t e = mkNodeU r l t e) ∧
      (∀ cap, ¬ r.st.store.count < cap → (mkNodeR cap r l t e).1 = none)) := by
  by_cases hte : t = e
  · left
    refine ⟨?_, fun cap => ?_⟩ <;> simp only [mkNodeU, mkNodeR, hte, if_true, dropEdge_st]
  · cases hf : r.st.store.find? ⟨l, t, e⟩ with
    | some i =>
      left
      refine ⟨?_, fun cap => ?_⟩ <;>
        simp only [mkNodeU, mkNodeR, hte, if_false, hf, cloneEdge_st, dropEdge_st]
    | none =>
      right
      refine ⟨?_, fun cap hc => ?_, fun cap hc => ?_⟩
      · simp only [mkNodeU, hte, if_false, hf, count_alloc]
      · simp only [mkNodeU, mkNodeR, hte, if_false, hf, hc, if_true]
      · simp only [mkNodeR, hte, if_false, hf, hc]

theorem mkNodeU_total (r : RSt) (l : Nat) (t e : Edge) : (mkNodeU r l t e).1 ≠ none := by
  unfold mkNodeU
  split
  · simp
  · split <;> simp

theorem mkNode_thr (cap : Nat) : MkThr cap (mkNodeR cap) mkNodeU := by
  refine ⟨?_, ?_, ?_, ?_, mkNodeU_total⟩
  all_goals intro r l t e
  all_goals rcases mkNodeU_cases r l t e with ⟨h1, h2⟩ | ⟨h1, h2, h3⟩
  · intro _; exact h2 cap
  · intro hf; apply h2; unfold Fits at hf; omega
  · intro hf; rw [h1] at hf; exact absurd (Fits.refl _ _) hf
  · intro hf; apply h3; intro hc; apply hf; unfold Fits; omega
  · rw [h1]; exact Nat.le_refl _
  · omega
  · rw [h1]; exact Nat.le_succ _
  · omega

/-! ## callbacks that only move counters -/

/-- the complement callback does not touch node table, cache or time stamp (`|_, e| Ok(e)`; the
BCDD `not_edge_owned` is a tag flip) -/
def ComplPure (compl : Compl) : Prop := ∀ r e, (compl r e).2.st = r.st

theorem complId_pure : ComplPure complId := fun _ _ => rfl

theorem childLoop_st {compl : Compl} (hp : ComplPure compl) (nodeId level : Nat) (table : List Edge) :
    ∀ (cs : List Int) (r : RSt) (acc : List Edge),
      (childLoop compl nodeId level table r acc cs).2.st = r.st := by
  intro cs
  induction cs with
  | nil => intro r acc; rfl
  | cons c cs ih =>
    intro r acc
    simp only [childLoop]
    split
    · simp only [dropList_st]
    · split
      · simp only [dropList_st]
      · rename_i x hx
        split
        · rename_i r2 hcm
          simp only [dropList_st]
          split at hcm
          · have := hp (cloneEdge r x) x
            rw [hcm] at this
            simp only [cloneEdge_st] at this
            exact this
          · cases hcm
        · rename_i e r2 hcm
          have h2 : r2.st = r.st := by
            split at hcm
            · have := hp (cloneEdge r x) x
              rw [hcm] at this
              simp only [cloneEdge_st] at this
              exact this
            · cases hcm
              simp only [cloneEdge_st]
          split
          · simp only [dropList_st, h2]
          · rw [ih, h2]

theorem rootLoop_st {compl : Compl} (hp : ComplPure compl) (table : List Edge) :
    ∀ (cs : List Int) (r : RSt) (acc : List Edge), (rootLoop compl table r acc cs).2.st = r.st := by
  intro cs
  induction cs with
  | nil => intro r acc; rfl
  | cons c cs ih =>
    intro r acc
    simp only [rootLoop]
    split
    · simp only [dropList_st]
    · rename_i x hx
      have key : ∀ o r2, (if c > 0 then (some x, cloneEdge r x) else compl (cloneEdge r x) x) = (o, r2) →
          r2.st = r.st := by
        intro o r2 hcm
        split at hcm
        · cases hcm; simp only [cloneEdge_st]
        · have := hp (cloneEdge r x) x
          rw [hcm] at this
          simp only [cloneEdge_st] at this
          exact this
      split
      · rename_i r2 hcm
        simp only [dropList_st]
        exact key _ _ hcm
      · rename_i e r2 hcm
        rw [ih, key _ _ hcm]

/-! ## the threshold relation for loops -/

/-- capped run `RC`, capacity-free run `RU`, both started in store `s` -/
def ThrL {α : Type} (cap : Nat) (s : Store) (RC RU : Step α × RSt) : Prop :=
  (Fits cap s RU.2.st.store → RC = RU) ∧
  (¬ Fits cap s RU.2.st.store → RC.1 = .error .oom) ∧
  s.count ≤ RU.2.st.store.count

theorem ThrL.same {α : Type} {cap : Nat} {s : Store} {R : Step α × RSt} (h : R.2.st.store = s) :
    ThrL cap s R R :=
  ⟨fun _ => rfl, fun hn => absurd (h ▸ Fits.refl cap s) (by rw [h] at hn ⊢; exact hn),
    by rw [h]; exact Nat.le_refl _⟩

/-- the tail of `nodeStepG` after the child loop -/
theorem finish_thr {cap : Nat} {mkC mkU : Mk} (hm : MkThr cap mkC mkU) (level : Nat) (s : Store) :
    ∀ (CL : Step (List Edge) × RSt), CL.2.st.store = s →
    ThrL cap s
      (match CL with
        | (.error e, r') => (.error e, r')
        | (.ok [t, e], r') =>
          (match mkC r' level t e with
          | (some x, r'') => (.ok x, r'')
          | (none, r'') => (.error .oom, r''))
        | (.ok cs, r') => (.error .panic, dropList r' cs) : Step Edge × RSt)
      (match CL with
        | (.error e, r') => (.error e, r')
        | (.ok [t, e], r') =>
          (match mkU r' level t e with
          | (some x, r'') => (.ok x, r'')
          | (none, r'') => (.error .oom, r''))
        | (.ok cs, r') => (.error .panic, dropList r' cs) : Step Edge × RSt)
  | (.error e, r'), hs => ThrL.same hs
  | (.ok [], r'), hs => ThrL.same (by simp only [dropList_st]; exact hs)
  | (.ok [_], r'), hs => ThrL.same (by simp only [dropList_st]; exact hs)
  | (.ok (_ :: _ :: _ :: _), r'), hs => ThrL.same (by simp only [dropList_st]; exact hs)
  | (.ok [t, e], r'), hs => by
    simp only at hs
    subst hs
    simp only
    refine ⟨?_, ?_, ?_⟩
    · intro hf
      rw [hm.fit r' level t e (by
        revert hf
        cases mkU r' level t e with
        | mk o2 r2 => cases o2 <;> exact id)]
    · intro hf
      have := hm.oom r' level t e (by
        revert hf
        cases mkU r' level t e with
        | mk o2 r2 => cases o2 <;> exact id)
      generalize mkC r' level t e = MC at this
      obtain ⟨oc, rc⟩ := MC
      simp only at this
      subst this
      rfl
    · have := hm.mono r' level t e
      revert this
      cases mkU r' level t e with
      | mk o2 r2 => cases o2 <;> exact id

theorem nodeStepG_thr {cap : Nat} {mkC mkU : Mk} (hm : MkThr cap mkC mkU) {compl : Compl}
    (hp : ComplPure compl) (slm supp : List Nat) (nodeId : Nat) (table : List Edge) (r : RSt)
    (n : SNode) :
    ThrL cap r.st.store (nodeStepG mkC compl slm supp nodeId table r n)
      (nodeStepG mkU compl slm supp nodeId table r n) := by
  unfold nodeStepG
  split
  · exact ThrL.same rfl
  · split
    · split
      · exact ThrL.same rfl
      · exact ThrL.same rfl
    · split
      · exact ThrL.same rfl
      · rename_i level _
        have hst := childLoop_st hp nodeId level table n.children r []
        exact finish_thr hm level r.st.store _ (by rw [hst])

theorem nodeLoopG_thr {cap : Nat} {mkC mkU : Mk} (hm : MkThr cap mkC mkU) {compl : Compl}
    (hp : ComplPure compl) (slm supp : List Nat) : ∀ (ns : List SNode) (r : RSt) (table : List Edge),
    ThrL cap r.st.store (nodeLoopG mkC compl slm supp r table ns)
      (nodeLoopG mkU compl slm supp r table ns) := by
  intro ns
  induction ns with
  | nil => intro r table; exact ThrL.same rfl
  | cons n ns ih =>
    intro r table
    simp only [nodeLoopG]
    obtain ⟨h1, h2, h3⟩ := nodeStepG_thr hm hp slm supp (table.length + 1) table r n
    generalize nodeStepG mkC compl slm supp (table.length + 1) table r n = SC at h1 h2
    generalize nodeStepG mkU compl slm supp (table.length + 1) table r n = SU at h1 h2 h3
    obtain ⟨oU, rU⟩ := SU
    cases oU with
    | error e =>
      dsimp only at h1 h2 h3
      refine ⟨?_, ?_, ?_⟩
      · intro hf
        have hf' : Fits cap r.st.store rU.st.store := by simpa only [dropList_st] using hf
        rw [h1 hf']
      · intro hf
        have := h2 (by simpa only [dropList_st] using hf)
        obtain ⟨oc, rc⟩ := SC
        simp only at this
        subst this
        rfl
      · show _ ≤ (dropList rU table).st.store.count
        rw [dropList_st]; exact h3
    | ok x =>
      dsimp only at h1 h2 h3 ⊢
      obtain ⟨i1, i2, i3⟩ := ih rU (table ++ [x])
      refine ⟨?_, ?_, Nat.le_trans h3 i3⟩
      · intro hf
        obtain ⟨f1, f2⟩ := hf.split h3 i3
        rw [h1 f1]
        exact i1 f2
      · intro hf
        by_cases f1 : Fits cap r.st.store rU.st.store
        · rw [h1 f1]
          exact i2 (fun f2 => hf (f1.trans f2))
        · have := h2 f1
          obtain ⟨oc, rc⟩ := SC
          simp only at this
          subst this
          rfl

/-- capped import `RC`, capacity-free import `RU`, both started in store `s` -/
def ThrO (cap : Nat) (s : Store) (RC RU : Out × RSt) : Prop :=
  (Fits cap s RU.2.st.store → RC = RU) ∧
  (¬ Fits cap s RU.2.st.store → RC.1 = .fail .oom) ∧
  s.count ≤ RU.2.st.store.count

theorem ThrO.same {cap : Nat} {s : Store} {R : Out × RSt} (h : R.2.st.store = s) : ThrO cap s R R :=
  ⟨fun _ => rfl, fun hn => absurd (h ▸ Fits.refl cap s) (by rw [h] at hn ⊢; exact hn),
    by rw [h]; exact Nat.le_refl _⟩

theorem importG_thr {cap : Nat} {mkC mkU : Mk} (hm : MkThr cap mkC mkU) {compl : Compl}
    (hp : ComplPure compl) (slm : List Nat) (nvars : Nat) (r : RSt) (d : Diagram) :
    ThrO cap r.st.store (importG mkC compl slm nvars r d) (importG mkU compl slm nvars r d) := by
  unfold importG
  split
  · exact ThrO.same rfl
  · split
    · exact ThrO.same rfl
    · rename_i tt _
      obtain ⟨h1, h2, h3⟩ := nodeLoopG_thr hm hp slm (suppLevels nvars d.nodes) d.nodes r tt
      generalize nodeLoopG mkC compl slm (suppLevels nvars d.nodes) r tt d.nodes = LC at h1 h2
      generalize nodeLoopG mkU compl slm (suppLevels nvars d.nodes) r tt d.nodes = LU at h1 h2 h3
      have hU : ∀ (o : Step (List Edge)) (rU : RSt),
          ((match (o, rU) with
            | (.error e, r') => (Out.fail e, r')
            | (.ok table, r') =>
              match rootLoop compl table r' [] d.roots with
              | (.error e, r'') => (Out.fail e, dropList r'' table)
              | (.ok roots, r'') => (Out.ok roots, dropList r'' table)) : Out × RSt).2.st = rU.st := by
        intro o rU
        cases o with
        | error e => rfl
        | ok table =>
          simp only
          have := rootLoop_st hp table d.roots rU []
          generalize rootLoop compl table rU [] d.roots = RL at this
          obtain ⟨o2, r2⟩ := RL
          cases o2 <;> simp only [dropList_st] <;> exact this
      obtain ⟨oU, rU⟩ := LU
      have hst := hU oU rU
      refine ⟨?_, ?_, ?_⟩
      · intro hf
        rw [hst] at hf
        rw [h1 hf]
      · intro hf
        rw [hst] at hf
        have := h2 hf
        obtain ⟨oc, rc⟩ := LC
        simp only at this
        subst this
        rfl
      · rw [hst]; exact h3

/-- **the threshold relation of the DDDMP import**: for every store, counter array, file, level
map, capacity and counter-only callback -/
theorem import_thr (cap : Nat) {compl : Compl} (hp : ComplPure compl) (slm : List Nat) (nvars : Nat)
    (r : RSt) (d : Diagram) :
    ThrO cap r.st.store (importCapped cap compl slm nvars r d) (importU compl slm nvars r d) := by
  rw [importCapped_eq_G]
  exact importG_thr (mkNode_thr cap) hp slm nvars r d

/-! ## the capacity-free import allocates at most one node per file entry -/

theorem finish_count (level : Nat) (s : Store) :
    ∀ (CL : Step (List Edge) × RSt), CL.2.st.store = s →
    ((match CL with
        | (.error e, r') => (.error e, r')
        | (.ok [t, e], r') =>
          (match mkNodeU r' level t e with
          | (some x, r'') => (.ok x, r'')
          | (none, r'') => (.error .oom, r''))
        | (.ok cs, r') => (.error .panic, dropList r' cs) : Step Edge × RSt)).2.st.store.count ≤ s.count + 1
  | (.error e, r'), hs => by simp only at hs ⊢; rw [hs]; exact Nat.le_succ _
  | (.ok [], r'), hs => by simp only [dropList_st] at hs ⊢; rw [hs]; exact Nat.le_succ _
  | (.ok [_], r'), hs => by simp only [dropList_st] at hs ⊢; rw [hs]; exact Nat.le_succ _
  | (.ok (_ :: _ :: _ :: _), r'), hs => by simp only [dropList_st] at hs ⊢; rw [hs]; exact Nat.le_succ _
  | (.ok [t, e], r'), hs => by
    simp only at hs
    subst hs
    simp only
    have := (mkNode_thr 0).step r' level t e
    revert this
    cases mkNodeU r' level t e with
    | mk o2 r2 => cases o2 <;> exact id

theorem nodeStepU_count {compl : Compl} (hp : ComplPure compl) (slm supp : List Nat) (nodeId : Nat)
    (table : List Edge) (r : RSt) (n : SNode) :
    (nodeStepG mkNodeU compl slm supp nodeId table r n).2.st.store.count ≤ r.st.store.count + 1 := by
  unfold nodeStepG
  split
  · exact Nat.le_succ _
  · split
    · split <;> exact Nat.le_succ _
    · split
      · exact Nat.le_succ _
      · rename_i level _
        have hst := childLoop_st hp nodeId level table n.children r []
        exact finish_count level r.st.store _ (by rw [hst])

theorem nodeLoopU_count {compl : Compl} (hp : ComplPure compl) (slm supp : List Nat) :
    ∀ (ns : List SNode) (r : RSt) (table : List Edge),
    (nodeLoopG mkNodeU compl slm supp r table ns).2.st.store.count ≤ r.st.store.count + ns.length := by
  intro ns
  induction ns with
  | nil => intro r table; exact Nat.le_refl _
  | cons n ns ih =>
    intro r table
    simp only [nodeLoopG, List.length_cons]
    have h := nodeStepU_count hp slm supp (table.length + 1) table r n
    generalize nodeStepG mkNodeU compl slm supp (table.length + 1) table r n = SU at h
    obtain ⟨oU, rU⟩ := SU
    cases oU with
    | error e => simp only [dropList_st] at h ⊢; omega
    | ok x =>
      simp only at h ⊢
      have := ih rU (table ++ [x])
      omega

theorem importU_count {compl : Compl} (hp : ComplPure compl) (slm : List Nat) (nvars : Nat) (r : RSt)
    (d : Diagram) :
    (importU compl slm nvars r d).2.st.store.count ≤ r.st.store.count + d.nodes.length := by
  unfold importU importG
  split
  · exact Nat.le_add_right _ _
  · split
    · exact Nat.le_add_right _ _
    · rename_i tt _
      have h := nodeLoopU_count hp slm (suppLevels nvars d.nodes) d.nodes r tt
      generalize nodeLoopG mkNodeU compl slm (suppLevels nvars d.nodes) r tt d.nodes = LU at h
      obtain ⟨oU, rU⟩ := LU
      cases oU with
      | error e => exact h
      | ok table =>
        simp only
        have := rootLoop_st hp table d.roots rU []
        generalize rootLoop compl table rU [] d.roots = RL at this
        obtain ⟨o2, r2⟩ := RL
        cases o2 <;> simp only [dropList_st] <;> rw [this] <;> exact h

end OxiddModel.Dddmp.ImportCap
