import OxiddModel.Dddmp.StoreSCLemmasRc
import OxiddModel.Bcdd.ThresholdS

/-!
# The out-of-memory threshold of a DDDMP import — BCDD (complement edges, binary mode)

The BCDD counterpart of `Dddmp/ImportCap.lean`: `StoreSC.importSC cfg` is `dddmp::import` +
`import_bin` on the complement-edge counter store of `Bcdd/RcS.lean` (every inner record runs
`reduce(..).then_insert(..)?` = `mkNodeR cap` once — tag normalisation, unique-table lookup,
`add_node`; on `Err(OutOfMemory)` the children are dropped by `add_node`, the node table by its
guard). `importUC` is the same text with `add_node` never failing (`mkNodeUC`). For every store,
counter array, cache, file, root list, level map, capacity and every complement callback that
only moves counters (`ComplPureC`: `not_edge_owned` of BCDD is a tag flip, `complNotC`; the
identity):

* `importC_thr`: if the capacity-free import `Fits` the capacity the capped import **is** it; if it
  does not fit the capped import reports OutOfMemory.
-/
namespace OxiddModel.Dddmp.ImportCapC
open OxiddModel.Bcdd OxiddModel.Bcdd.Refine OxiddModel.Bcdd.Rc
open OxiddModel.Bdd.Rc (rcGet rcSet)
open OxiddModel.Dddmp OxiddModel.Dddmp.StoreSC

/-- `reduce(manager, level, [t, e]).then_insert(manager, level)` as a parameter -/
abbrev MkC := RStC → Nat → EdgeC → EdgeC → Option EdgeC × RStC

/-- `add_node` never fails: `Bcdd.Rc.mkNodeR` without the capacity test -/
def mkNodeUC : MkC := fun r level t e =>
  if t = e then (some t, dropEdge r e) else
  let n := reduceNode level t e
  let tag := (reduceRaw t e).2.2
  match r.st.store.find? n with
  | some i => (some ⟨tag, .inner i⟩, cloneEdge (dropEdge (dropEdge r t) e) ⟨tag, .inner i⟩)
  | none =>
    let a := r.st.store.alloc n
    (some ⟨tag, .inner a.2⟩, { st := { r.st with store := a.1 }, rc := rcSet r.rc a.2 2 })

/-- `StoreSC.nodeStepC` with the node constructor as a parameter -/
def nodeStepGC (mk : MkC) (compl : ComplC) (slm supp : List Nat) (nodeId : Nat) (table : List EdgeC)
    (r : RStC) (n : SNode) : Step EdgeC × RStC :=
  match n.children with
  | [tc, ec] =>
    if tc ≤ 0 ∨ tc.natAbs ≥ nodeId then (.error .malformed, r)
    else
      match table[tc.natAbs - 1]? with
      | none => (.error .panic, r)
      | some t =>
        let r1 := cloneEdge r t
        if ec = 0 ∨ ec.natAbs ≥ nodeId then (.error .malformed, dropEdge r1 t)
        else
          match table[ec.natAbs - 1]? with
          | none => (.error .panic, dropEdge r1 t)
          | some e0 =>
            let r2 := cloneEdge r1 e0
            match (if ec < 0 then compl r2 e0 else (some e0, r2)) with
            | (none, r3) => (.error .oom, dropEdge r3 t)
            | (some e, r3) =>
              match slm[suppIdx supp n.level]? with
              | none => (.error .malformed, dropEdge (dropEdge r3 e) t)
              | some level =>
                if level ≥ levelOfE r3.st.store t ∨ level ≥ levelOfE r3.st.store e then
                  (.error .malformed, dropEdge (dropEdge r3 e) t)
                else
                  match mk r3 level t e with
                  | (some x, r4) => (.ok x, r4)
                  | (none, r4) => (.error .oom, r4)
  | _ => (.error .malformed, r)

def nodeLoopGC (mk : MkC) (compl : ComplC) (slm supp : List Nat) :
    RStC → List EdgeC → List SNode → Step (List EdgeC) × RStC
  | r, table, [] => (.ok table, r)
  | r, table, n :: ns =>
    match nodeStepGC mk compl slm supp (table.length + 1) table r n with
    | (.error e, r') => (.error e, dropList r' table)
    | (.ok x, r') => nodeLoopGC mk compl slm supp r' (table ++ [x]) ns

def importGC (mk : MkC) (compl : ComplC) (slm : List Nat) (nvars : Nat) (r : RStC) (d : Diagram) :
    OutC × RStC :=
  if d.roots.any (fun id => id = 0 || id.natAbs > d.terms.length + d.nodes.length) then (.fail .malformed, r)
  else
    match nodeLoopGC mk compl slm (suppLevels nvars d.nodes) r (termTable d.terms) d.nodes with
    | (.error e, r') => (.fail e, r')
    | (.ok table, r') =>
      match rootLoopC compl table r' [] d.roots with
      | (.error e, r'') => (.fail e, dropList r'' table)
      | (.ok roots, r'') => (.ok roots, dropList r'' table)

/-- **the capacity-bounded BCDD import**: literally `importSC` -/
def importCappedC (cap : Nat) (compl : ComplC) (slm : List Nat) (nvars : Nat) (r : RStC) (d : Diagram) :
    OutC × RStC :=
  importSC ⟨cap, compl, slm⟩ nvars r d

/-- **the capacity-free BCDD import** -/
def importUC (compl : ComplC) (slm : List Nat) (nvars : Nat) (r : RStC) (d : Diagram) : OutC × RStC :=
  importGC mkNodeUC compl slm nvars r d

theorem nodeStepC_eq_G (cfg : ICfgC) (supp : List Nat) (nodeId : Nat) (table : List EdgeC) (r : RStC)
    (n : SNode) :
    nodeStepC cfg supp nodeId table r n =
      nodeStepGC (mkNodeR cfg.cap) cfg.compl cfg.slm supp nodeId table r n := rfl

theorem nodeLoopC_eq_G (cfg : ICfgC) (supp : List Nat) : ∀ (ns : List SNode) (r : RStC) (table : List EdgeC),
    nodeLoopC cfg supp r table ns = nodeLoopGC (mkNodeR cfg.cap) cfg.compl cfg.slm supp r table ns := by
  intro ns
  induction ns with
  | nil => intro r table; rfl
  | cons n ns ih =>
    intro r table
    simp only [nodeLoopC, nodeLoopGC, nodeStepC_eq_G]
    generalize nodeStepGC (mkNodeR cfg.cap) cfg.compl cfg.slm supp (table.length + 1) table r n = S
    obtain ⟨o, r'⟩ := S
    cases o with
    | error e => rfl
    | ok x => exact ih _ _

theorem importCappedC_eq_G (cap : Nat) (compl : ComplC) (slm : List Nat) (nvars : Nat) (r : RStC)
    (d : Diagram) :
    importCappedC cap compl slm nvars r d = importGC (mkNodeR cap) compl slm nvars r d := by
  unfold importCappedC importSC importGC
  simp only [nodeLoopC_eq_G]
  rfl

/-! ## capped against capacity-free constructor -/

structure MkThrC (cap : Nat) (mkC mkU : MkC) : Prop where
  fit : ∀ r l t e, Fits cap r.st.store (mkU r l t e).2.st.store → mkC r l t e = mkU r l t e
  oom : ∀ r l t e, ¬ Fits cap r.st.store (mkU r l t e).2.st.store → (mkC r l t e).1 = none
  mono : ∀ r l t e, r.st.store.count ≤ (mkU r l t e).2.st.store.count
  step : ∀ r l t e, (mkU r l t e).2.st.store.count ≤ r.st.store.count + 1
  total : ∀ r l t e, (mkU r l t e).1 ≠ none

theorem mkNodeUC_cases (r : RStC) (l : Nat) (t e : EdgeC) :
    ((mkNodeUC r l t e).2.st.store = r.st.store ∧ ∀ cap, mkNodeR cap r l t e = mkNodeUC r l t e) ∨
    ((mkNodeUC r l t e).2.st.store.count = r.st.store.count + 1 ∧
      (∀ cap, r.st.store.count < cap → mkNodeR cap r l t e = mkNodeUC r l t e) ∧
      (∀ cap, ¬ r.st.store.count < cap → (mkNodeR cap r l t e).1 = none)) := by
  by_cases hte : t = e
  · left
    refine ⟨?_, fun cap => ?_⟩ <;> simp only [mkNodeUC, mkNodeR, hte, if_true, dropEdge_st]
  · cases hf : r.st.store.find? (reduceNode l t e) with
    | some i =>
      left
      refine ⟨?_, fun cap => ?_⟩ <;>
        simp only [mkNodeUC, mkNodeR, hte, if_false, hf, cloneEdge_st, dropEdge_st]
    | none =>
      right
      refine ⟨?_, fun cap hc => ?_, fun cap hc => ?_⟩
      · simp only [mkNodeUC, hte, if_false, hf, count_alloc]
      · simp only [mkNodeUC, mkNodeR, hte, if_false, hf, hc, if_true]
      · simp only [mkNodeR, hte, if_false, hf, hc]

theorem mkNodeUC_total (r : RStC) (l : Nat) (t e : EdgeC) : (mkNodeUC r l t e).1 ≠ none := by
  unfold mkNodeUC
  split
  · simp
  · simp only
    split <;> simp

theorem mkNodeC_thr (cap : Nat) : MkThrC cap (mkNodeR cap) mkNodeUC := by
  refine ⟨?_, ?_, ?_, ?_, mkNodeUC_total⟩
  all_goals intro r l t e
  all_goals rcases mkNodeUC_cases r l t e with ⟨h1, h2⟩ | ⟨h1, h2, h3⟩
  · intro _; exact h2 cap
  · intro hf; apply h2; unfold Fits at hf; omega
  · intro hf; rw [h1] at hf; exact absurd (Fits.refl _ _) hf
  · intro hf; apply h3; intro hc; apply hf; unfold Fits; omega
  · rw [h1]; exact Nat.le_refl _
  · omega
  · rw [h1]; exact Nat.le_succ _
  · omega

/-! ## callbacks that only move counters -/

def ComplPureC (compl : ComplC) : Prop := ∀ r e, (compl r e).2.st = r.st

theorem complIdC_pure : ComplPureC complIdC := fun _ _ => rfl
theorem complNotC_pure : ComplPureC complNotC := fun _ _ => rfl

theorem rootLoopC_st {compl : ComplC} (hp : ComplPureC compl) (table : List EdgeC) :
    ∀ (cs : List Int) (r : RStC) (acc : List EdgeC), (rootLoopC compl table r acc cs).2.st = r.st := by
  intro cs
  induction cs with
  | nil => intro r acc; rfl
  | cons c cs ih =>
    intro r acc
    simp only [rootLoopC]
    split
    · simp only [dropList_st]
    · rename_i x hx
      have key : ∀ o r2, (if c > 0 then (some x, cloneEdge r x) else compl (cloneEdge r x) x) = (o, r2) →
          r2.st = r.st := by
        intro o r2 hcm
        split at hcm
        · cases hcm; simp only [cloneEdge_st]
        · have := hp (cloneEdge r x) x
          rw [hcm] at this
          simp only [cloneEdge_st] at this
          exact this
      split
      · rename_i r2 hcm
        simp only [dropList_st]
        exact key _ _ hcm
      · rename_i e r2 hcm
        rw [ih, key _ _ hcm]

/-! ## the threshold relation -/

def ThrL {α : Type} (cap : Nat) (s : StoreC) (RC RU : Step α × RStC) : Prop :=
  (Fits cap s RU.2.st.store → RC = RU) ∧
  (¬ Fits cap s RU.2.st.store → RC.1 = .error .oom) ∧
  s.count ≤ RU.2.st.store.count

theorem ThrL.same {α : Type} {cap : Nat} {s : StoreC} {R : Step α × RStC} (h : R.2.st.store = s) :
    ThrL cap s R R :=
  ⟨fun _ => rfl, fun hn => absurd (h ▸ Fits.refl cap s) (by rw [h] at hn ⊢; exact hn),
    by rw [h]; exact Nat.le_refl _⟩

/-- the last statement of `nodeStepGC` -/
theorem finishC_thr {cap : Nat} {mkC mkU : MkC} (hm : MkThrC cap mkC mkU) (level : Nat) (t e : EdgeC)
    (r3 : RStC) :
    ThrL cap r3.st.store
      (match mkC r3 level t e with
        | (some x, r4) => (.ok x, r4)
        | (none, r4) => (.error .oom, r4) : Step EdgeC × RStC)
      (match mkU r3 level t e with
        | (some x, r4) => (.ok x, r4)
        | (none, r4) => (.error .oom, r4) : Step EdgeC × RStC) := by
  refine ⟨?_, ?_, ?_⟩
  · intro hf
    rw [hm.fit r3 level t e (by
      revert hf
      cases mkU r3 level t e with
      | mk o2 r2 => cases o2 <;> exact id)]
  · intro hf
    have := hm.oom r3 level t e (by
      revert hf
      cases mkU r3 level t e with
      | mk o2 r2 => cases o2 <;> exact id)
    generalize mkC r3 level t e = MC at this
    obtain ⟨oc, rc⟩ := MC
    simp only at this
    subst this
    rfl
  · have := hm.mono r3 level t e
    revert this
    cases mkU r3 level t e with
    | mk o2 r2 => cases o2 <;> exact id

theorem nodeStepGC_thr {cap : Nat} {mkC mkU : MkC} (hm : MkThrC cap mkC mkU) {compl : ComplC}
    (hp : ComplPureC compl) (slm supp : List Nat) (nodeId : Nat) (table : List EdgeC) (r : RStC)
    (n : SNode) :
    ThrL cap r.st.store (nodeStepGC mkC compl slm supp nodeId table r n)
      (nodeStepGC mkU compl slm supp nodeId table r n) := by
  unfold nodeStepGC
  split
  · rename_i tc ec _
    split
    · exact ThrL.same rfl
    · split
      · exact ThrL.same rfl
      · rename_i t ht
        simp only
        split
        · exact ThrL.same (by simp only [dropEdge_st, cloneEdge_st])
        · split
          · exact ThrL.same (by simp only [dropEdge_st, cloneEdge_st])
          · rename_i e0 he0
            have key : ∀ o r3, (if ec < 0 then compl (cloneEdge (cloneEdge r t) e0) e0
                else (some e0, cloneEdge (cloneEdge r t) e0)) = (o, r3) → r3.st = r.st := by
              intro o r3 hcm
              split at hcm
              · have := hp (cloneEdge (cloneEdge r t) e0) e0
                rw [hcm] at this
                simp only [cloneEdge_st] at this
                exact this
              · cases hcm; simp only [cloneEdge_st]
            split
            · rename_i r3 hcm
              exact ThrL.same (by simp only [dropEdge_st]; rw [key _ _ hcm])
            · rename_i e r3 hcm
              have hs3 : r3.st.store = r.st.store := by rw [key _ _ hcm]
              split
              · exact ThrL.same (by simp only [dropEdge_st]; exact hs3)
              · rename_i level _
                split
                · exact ThrL.same (by simp only [dropEdge_st]; exact hs3)
                · rw [← hs3]
                  exact finishC_thr hm level t e r3
  · exact ThrL.same rfl

theorem nodeLoopGC_thr {cap : Nat} {mkC mkU : MkC} (hm : MkThrC cap mkC mkU) {compl : ComplC}
    (hp : ComplPureC compl) (slm supp : List Nat) : ∀ (ns : List SNode) (r : RStC) (table : List EdgeC),
    ThrL cap r.st.store (nodeLoopGC mkC compl slm supp r table ns)
      (nodeLoopGC mkU compl slm supp r table ns) := by
  intro ns
  induction ns with
  | nil => intro r table; exact ThrL.same rfl
  | cons n ns ih =>
    intro r table
    simp only [nodeLoopGC]
    obtain ⟨h1, h2, h3⟩ := nodeStepGC_thr hm hp slm supp (table.length + 1) table r n
    generalize nodeStepGC mkC compl slm supp (table.length + 1) table r n = SC at h1 h2
    generalize nodeStepGC mkU compl slm supp (table.length + 1) table r n = SU at h1 h2 h3
    obtain ⟨oU, rU⟩ := SU
    cases oU with
    | error e =>
      dsimp only at h1 h2 h3
      refine ⟨?_, ?_, ?_⟩
      · intro hf
        have hf' : Fits cap r.st.store rU.st.store := by simpa only [dropList_st] using hf
        rw [h1 hf']
      · intro hf
        have := h2 (by simpa only [dropList_st] using hf)
        obtain ⟨oc, rc⟩ := SC
        simp only at this
        subst this
        rfl
      · show _ ≤ (dropList rU table).st.store.count
        rw [dropList_st]; exact h3
    | ok x =>
      dsimp only at h1 h2 h3 ⊢
      obtain ⟨i1, i2, i3⟩ := ih rU (table ++ [x])
      refine ⟨?_, ?_, Nat.le_trans h3 i3⟩
      · intro hf
        obtain ⟨f1, f2⟩ := hf.split h3 i3
        rw [h1 f1]
        exact i1 f2
      · intro hf
        by_cases f1 : Fits cap r.st.store rU.st.store
        · rw [h1 f1]
          exact i2 (fun f2 => hf (f1.trans f2))
        · have := h2 f1
          obtain ⟨oc, rc⟩ := SC
          simp only at this
          subst this
          rfl

def ThrO (cap : Nat) (s : StoreC) (RC RU : OutC × RStC) : Prop :=
  (Fits cap s RU.2.st.store → RC = RU) ∧
  (¬ Fits cap s RU.2.st.store → RC.1 = .fail .oom) ∧
  s.count ≤ RU.2.st.store.count

theorem ThrO.same {cap : Nat} {s : StoreC} {R : OutC × RStC} (h : R.2.st.store = s) : ThrO cap s R R :=
  ⟨fun _ => rfl, fun hn => absurd (h ▸ Fits.refl cap s) (by rw [h] at hn ⊢; exact hn),
    by rw [h]; exact Nat.le_refl _⟩

theorem importGC_thr {cap : Nat} {mkC mkU : MkC} (hm : MkThrC cap mkC mkU) {compl : ComplC}
    (hp : ComplPureC compl) (slm : List Nat) (nvars : Nat) (r : RStC) (d : Diagram) :
    ThrO cap r.st.store (importGC mkC compl slm nvars r d) (importGC mkU compl slm nvars r d) := by
  unfold importGC
  split
  · exact ThrO.same rfl
  · obtain ⟨h1, h2, h3⟩ :=
      nodeLoopGC_thr hm hp slm (suppLevels nvars d.nodes) d.nodes r (termTable d.terms)
    generalize nodeLoopGC mkC compl slm (suppLevels nvars d.nodes) r (termTable d.terms) d.nodes = LC at h1 h2
    generalize nodeLoopGC mkU compl slm (suppLevels nvars d.nodes) r (termTable d.terms) d.nodes = LU at h1 h2 h3
    have hU : ∀ (o : Step (List EdgeC)) (rU : RStC),
        ((match (o, rU) with
          | (.error e, r') => (OutC.fail e, r')
          | (.ok table, r') =>
            match rootLoopC compl table r' [] d.roots with
            | (.error e, r'') => (OutC.fail e, dropList r'' table)
            | (.ok roots, r'') => (OutC.ok roots, dropList r'' table)) : OutC × RStC).2.st = rU.st := by
      intro o rU
      cases o with
      | error e => rfl
      | ok table =>
        simp only
        have := rootLoopC_st hp table d.roots rU []
        generalize rootLoopC compl table rU [] d.roots = RL at this
        obtain ⟨o2, r2⟩ := RL
        cases o2 <;> simp only [dropList_st] <;> exact this
    obtain ⟨oU, rU⟩ := LU
    have hst := hU oU rU
    refine ⟨?_, ?_, ?_⟩
    · intro hf
      rw [hst] at hf
      rw [h1 hf]
    · intro hf
      rw [hst] at hf
      have := h2 hf
      obtain ⟨oc, rc⟩ := LC
      simp only at this
      subst this
      rfl
    · rw [hst]; exact h3

/-- **the threshold relation of the BCDD import** -/
theorem importC_thr (cap : Nat) {compl : ComplC} (hp : ComplPureC compl) (slm : List Nat) (nvars : Nat)
    (r : RStC) (d : Diagram) :
    ThrO cap r.st.store (importCappedC cap compl slm nvars r d) (importUC compl slm nvars r d) := by
  rw [importCappedC_eq_G]
  exact importGC_thr (mkNodeC_thr cap) hp slm nvars r d

end OxiddModel.Dddmp.ImportCapC
