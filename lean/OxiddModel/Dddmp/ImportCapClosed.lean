import OxiddModel.Dddmp.PropertiesC14Import
import OxiddModel.Bdd.CanonX

/-!
# `needed` of a DDDMP import in closed form: a function of the store and the file's trees only

`C14I.neededImport` is the growth of the capacity-free importer. Here it is identified, for a
hash-consed (`Unique`) and reduced (`NoRed`) importing manager and a file the capacity-free
importer accepts, with

  `freshAll store (fileTrees …) = count (internAll store trees) − count store`

where `fileTrees` are the reduced trees of **all inner file entries** in file order (an entry's
tree is `mk level T_then T_else` of its children's trees — the reduction rule applied — whether a
root reaches the entry or not) and `internAll` enters them one after the other
(`Bdd/CanonX.lean`): the number of distinct inner sub-diagrams of the entries' trees that the
manager does not hold yet. Entries that `reduce` eliminates contribute their child's tree (nothing
new); entries that no root reaches contribute like any other.

So (`import_oom_iff_fresh`): the import succeeds iff `free slots ≥ freshAll store (fileTrees …)`.
-/
namespace OxiddModel.Dddmp.C14I
open OxiddModel.Bdd OxiddModel.Bdd.BDD OxiddModel.Bdd.Refine OxiddModel.Bdd.Rc
open OxiddModel.Dddmp OxiddModel.Dddmp.StoreS OxiddModel.Dddmp.ImportCap

/-! ## the trees of a file -/

def lk (trees : List BDD) (c : Int) : BDD := (trees[c.natAbs - 1]?).getD (.leaf false)

/-- the reduced tree of one entry, given the trees of the entries before it -/
def entryTree (slm supp : List Nat) (trees : List BDD) (n : SNode) : BDD :=
  if n.children.contains 0 then
    match parseTermBdd (decBytes (suppIdx supp n.level)) with
    | some b => .leaf b
    | none => .leaf false
  else
    match slm[suppIdx supp n.level]?, n.children with
    | some level, [ct, ce] => mk level (lk trees ct) (lk trees ce)
    | _, _ => .leaf false

/-- the trees of the entries `ns`, in file order (`trees`: the entries before them) -/
def fileTrees (slm supp : List Nat) : List BDD → List SNode → List BDD
  | _, [] => []
  | trees, n :: ns =>
    entryTree slm supp trees n :: fileTrees slm supp (trees ++ [entryTree slm supp trees n]) ns

def termTrees (terms : List (List Nat)) : List BDD :=
  terms.map (fun d => .leaf ((parseTermBdd d).getD false))

/-- the trees of all inner entries of the file -/
def diagramTrees (slm : List Nat) (nvars : Nat) (d : Diagram) : List BDD :=
  fileTrees slm (suppLevels nvars d.nodes) (termTrees d.terms) d.nodes

/-- nodes that entering the trees `l` one after the other allocates -/
def freshAll (s : Store) (l : List BDD) : Nat := (internAll s l).count - s.count

/-! ## pointwise relation of two lists -/

inductive All2 {α β : Type} (R : α → β → Prop) : List α → List β → Prop
  | nil : All2 R [] []
  | cons {a : α} {b : β} {l1 : List α} {l2 : List β} : R a b → All2 R l1 l2 → All2 R (a :: l1) (b :: l2)


theorem forall2_lookup {α β : Type} {R : α → β → Prop} {l1 : List α} {l2 : List β}
    (h : All2 R l1 l2) : ∀ (k : Nat) (x : α), l1[k]? = some x → ∃ y, l2[k]? = some y ∧ R x y := by
  induction h with
  | nil => intro k x hx; simp at hx
  | cons hab _ ih =>
    intro k x hx
    cases k with
    | zero => simp only [List.getElem?_cons_zero, Option.some.injEq] at hx; subst hx; exact ⟨_, rfl, hab⟩
    | succ k => simp only [List.getElem?_cons_succ] at hx ⊢; exact ih k x hx

theorem forall2_snoc {α β : Type} {R : α → β → Prop} {l1 : List α} {l2 : List β}
    (h : All2 R l1 l2) {x : α} {y : β} (hxy : R x y) :
    All2 R (l1 ++ [x]) (l2 ++ [y]) := by
  induction h with
  | nil => exact .cons hxy .nil
  | cons hab _ ih => exact .cons hab ih

theorem forall2_mono {α β : Type} {R S : α → β → Prop} (hRS : ∀ a b, R a b → S a b) {l1 : List α}
    {l2 : List β} (h : All2 R l1 l2) : All2 S l1 l2 := by
  induction h with
  | nil => exact .nil
  | cons hab _ ih => exact .cons (hRS _ _ hab) ih

/-! ## one `reduce` = interning the entry's tree -/

theorem mkNodeU_mkNode (r : RSt) (l : Nat) (t e : Refine.Edge) :
    (mkNodeU r l t e).1 = some (r.st.store.mkNode l t e).2 ∧
    (mkNodeU r l t e).2.st.store = (r.st.store.mkNode l t e).1 := by
  unfold mkNodeU Store.mkNode
  by_cases hte : t = e
  · simp only [hte, if_true, dropEdge_st]; exact ⟨trivial, trivial⟩
  · simp only [hte, if_false]
    cases hf : r.st.store.find? ⟨l, t, e⟩ with
    | some i => simp only [cloneEdge_st, dropEdge_st]; exact ⟨trivial, trivial⟩
    | none => exact ⟨rfl, rfl⟩

theorem intern_mk {s : Store} (hu : s.Unique) (hr : s.NoRed) {l : Nat} {t e : Refine.Edge} {tt te : BDD}
    (ht : Denotes s t tt) (he : Denotes s e te) : intern s (mk l tt te) = s.mkNode l t e := by
  unfold mk
  by_cases h : tt = te
  · subst h
    have hte : t = e := inj_of_unique hu _ _ _ ht he
    subst hte
    simp only [if_true, Store.mkNode]
    exact intern_of_denotes hu hr ht
  · simp only [h, if_false, intern, intern_of_denotes hu hr ht, intern_of_denotes hu hr he]

/-! ## the child loop with the identity callback is a table lookup -/

theorem childLoop_id_lookup (nodeId level : Nat) (table : List Refine.Edge) :
    ∀ (cs : List Int) (r : RSt) (acc acc' : List Refine.Edge) (r' : RSt),
      childLoop complId nodeId level table r acc cs = (.ok acc', r') →
      All2 (fun c x => table[c.natAbs - 1]? = some x) cs (acc'.drop acc.length) ∧
        acc'.take acc.length = acc := by
  intro cs
  induction cs with
  | nil =>
    intro r acc acc' r' h
    simp only [childLoop] at h
    cases h
    simp only [List.drop_length, List.take_length]
    exact ⟨.nil, trivial⟩
  | cons c cs ih =>
    intro r acc acc' r' h
    simp only [childLoop] at h
    split at h
    · cases h
    · split at h
      · cases h
      · rename_i x hx
        split at h
        · cases h
        · rename_i e r2 hcm
          have hex : e = x := by
            split at hcm
            · simp only [complId] at hcm; cases hcm; rfl
            · cases hcm; rfl
          subst hex
          split at h
          · cases h
          · obtain ⟨h1, h2⟩ := ih r2 (acc ++ [e]) acc' r' h
            simp only [List.length_append, List.length_singleton] at h1 h2
            have hlen : acc.length < acc'.length := by
              have := congrArg List.length h2
              simp only [List.length_take, List.length_append, List.length_singleton] at this
              omega
            have htake : acc'.take acc.length = acc := by
              have := congrArg (List.take acc.length) h2
              simp only [List.take_take, List.take_left', Nat.min_eq_left (Nat.le_succ _)] at this
              rw [this]
            refine ⟨?_, htake⟩
            have hd : acc'.drop acc.length = e :: acc'.drop (acc.length + 1) := by
              rw [List.drop_eq_getElem_cons hlen]
              congr 1
              have := congrArg (fun l => l[acc.length]?) h2
              simp only [List.getElem?_take, Nat.lt_succ_self, if_true] at this
              rw [List.getElem?_append_right (Nat.le_refl _)] at this
              simp only [Nat.sub_self, List.getElem?_cons_zero] at this
              rw [List.getElem?_eq_getElem hlen] at this
              exact Option.some.inj this
            rw [hd]
            exact .cons hx h1

/-! ## the node loop -/

structure Sem (s : Store) (table : List Refine.Edge) (trees : List BDD) : Prop where
  uniq : s.Unique
  nored : s.NoRed
  tab : All2 (Denotes s) table trees

theorem Sem.lk {s : Store} {table : List Refine.Edge} {trees : List BDD} (h : Sem s table trees) {c : Int}
    {x : Refine.Edge} (hx : table[c.natAbs - 1]? = some x) : Denotes s x (lk trees c) := by
  obtain ⟨T, hT, hd⟩ := forall2_lookup h.tab _ _ hx
  unfold C14I.lk
  rw [hT]
  exact hd

theorem nodeStepU_sem (slm supp : List Nat) (nodeId : Nat) {table : List Refine.Edge} {trees : List BDD}
    {r : RSt} (h : Sem r.st.store table trees) (n : SNode) {x : Refine.Edge} {r' : RSt}
    (hok : nodeStepG mkNodeU complId slm supp nodeId table r n = (.ok x, r')) :
    r'.st.store = (intern r.st.store (entryTree slm supp trees n)).1 ∧
    Sem r'.st.store (table ++ [x]) (trees ++ [entryTree slm supp trees n]) := by
  unfold nodeStepG at hok
  unfold entryTree
  split at hok
  · cases hok
  · rename_i hlen
    split at hok
    · rename_i hz
      simp only [hz, if_true]
      split at hok
      · cases hok
      · rename_i b hb
        cases hok
        simp only [hb, intern]
        exact ⟨trivial, h.uniq, h.nored, forall2_snoc h.tab .term⟩
    · rename_i hz
      simp only [hz, Bool.false_eq_true, if_false]
      split at hok
      · cases hok
      · rename_i level hlev
        simp only [hlev]
        have hst := childLoop_st complId_pure nodeId level table n.children r []
        have hlk := childLoop_id_lookup nodeId level table n.children r []
        generalize childLoop complId nodeId level table r [] n.children = CL at hok hst hlk
        match CL, hok, hst, hlk with
        | (.error e, r1), hok, _, _ => cases hok
        | (.ok [], r1), hok, _, _ => cases hok
        | (.ok [_], r1), hok, _, _ => cases hok
        | (.ok (_ :: _ :: _ :: _), r1), hok, _, _ => cases hok
        | (.ok [t, e], r1), hok, hst, hlk =>
          simp only at hok hst
          obtain ⟨hf, _⟩ := hlk [t, e] r1 rfl
          simp only [List.length_nil, List.drop_zero] at hf
          match hch : n.children, hf with
          | [ct, ce], hf =>
            simp only
            cases hf with
            | cons h1 hf2 =>
              cases hf2 with
              | cons h2 _ =>
                have hs1 : r1.st.store = r.st.store := by rw [hst]
                have dt : Denotes r1.st.store t (lk trees ct) := by rw [hs1]; exact h.lk h1
                have de : Denotes r1.st.store e (lk trees ce) := by rw [hs1]; exact h.lk h2
                have hu1 : r1.st.store.Unique := by rw [hs1]; exact h.uniq
                have hr1 : r1.st.store.NoRed := by rw [hs1]; exact h.nored
                obtain ⟨m1, m2⟩ := mkNodeU_mkNode r1 level t e
                generalize mkNodeU r1 level t e = M at hok m1 m2
                obtain ⟨o, r2⟩ := M
                simp only at m1 m2
                subst m1
                simp only at hok
                cases hok
                have hin := intern_mk hu1 hr1 (l := level) dt de
                rw [hs1] at hin
                refine ⟨by rw [m2, hin, hs1], ?_⟩
                have hle : r.st.store.Le r'.st.store := by
                  rw [m2, hs1]; exact mkNode_le _ _ _ _
                refine ⟨by rw [m2]; exact mkNode_unique _ _ _ _ hu1,
                  by rw [m2]; exact mkNode_nored _ _ _ _ hr1, ?_⟩
                apply forall2_snoc (forall2_mono (fun a b hab => Denotes.mono hle hab) h.tab)
                rw [m2]
                exact mkNode_denotes _ _ _ _ _ _ dt de (inj_of_unique hu1)

theorem nodeLoopU_sem (slm supp : List Nat) : ∀ (ns : List SNode) (r : RSt) (table : List Refine.Edge)
    (trees : List BDD), Sem r.st.store table trees → ∀ (table' : List Refine.Edge) (r' : RSt),
    nodeLoopG mkNodeU complId slm supp r table ns = (.ok table', r') →
    r'.st.store = internAll r.st.store (fileTrees slm supp trees ns) ∧
    Sem r'.st.store table' (trees ++ fileTrees slm supp trees ns) := by
  intro ns
  induction ns with
  | nil =>
    intro r table trees h table' r' hok
    simp only [nodeLoopG] at hok
    cases hok
    simp only [fileTrees, List.append_nil]
    exact ⟨rfl, h⟩
  | cons n ns ih =>
    intro r table trees h table' r' hok
    simp only [nodeLoopG] at hok
    have hs := fun x r1 => nodeStepU_sem slm supp (table.length + 1) h n (x := x) (r' := r1)
    generalize nodeStepG mkNodeU complId slm supp (table.length + 1) table r n = S at hok hs
    obtain ⟨o, r1⟩ := S
    cases o with
    | error e => cases hok
    | ok x =>
      simp only at hok
      obtain ⟨s1, s2⟩ := hs x r1 rfl
      obtain ⟨i1, i2⟩ := ih r1 (table ++ [x]) _ s2 table' r' hok
      simp only [fileTrees]
      refine ⟨?_, by rw [List.append_cons]; exact i2⟩
      rw [i1, s1]
      rfl

theorem termLoop_sem (s : Store) : ∀ (ds : List (List Nat)) (tt : List Refine.Edge), termLoop ds = .ok tt →
    All2 (Denotes s) tt (termTrees ds) := by
  intro ds
  induction ds with
  | nil => intro tt h; simp only [termLoop] at h; cases h; exact .nil
  | cons d ds ih =>
    intro tt h
    simp only [termLoop] at h
    split at h
    · cases h
    · rename_i b hb
      split at h
      · rename_i t ht
        cases h
        simp only [termTrees, List.map_cons, hb, Option.getD_some]
        exact .cons .term (ih t ht)
      · cases h

/-- **the store after an accepted capacity-free import is the store with the trees of all file
entries interned, in file order** -/
theorem importU_store_eq (slm : List Nat) (nvars : Nat) (r : RSt) (d : Diagram)
    (hu : r.st.store.Unique) (hr : r.st.store.NoRed) (roots : List Refine.Edge)
    (hok : (importU complId slm nvars r d).1 = .ok roots) :
    (importU complId slm nvars r d).2.st.store = internAll r.st.store (diagramTrees slm nvars d) := by
  unfold importU importG at hok ⊢
  split at hok
  · cases hok
  · rename_i hroots
    simp only [hroots, Bool.false_eq_true, if_false]
    cases ht : termLoop d.terms with
    | error e => rw [ht] at hok; cases hok
    | ok tt =>
      rw [ht] at hok
      simp only at hok ⊢
      have hsem : Sem r.st.store tt (termTrees d.terms) := ⟨hu, hr, termLoop_sem _ _ _ ht⟩
      have hl := nodeLoopU_sem slm (suppLevels nvars d.nodes) d.nodes r tt _ hsem
      generalize nodeLoopG mkNodeU complId slm (suppLevels nvars d.nodes) r tt d.nodes = L at hok hl
      obtain ⟨o, r1⟩ := L
      cases o with
      | error e => cases hok
      | ok table =>
        simp only at hok ⊢
        obtain ⟨h1, _⟩ := hl table r1 rfl
        have hst := rootLoop_st complId_pure table d.roots r1 []
        generalize rootLoop complId table r1 [] d.roots = RL at hok hst
        obtain ⟨o2, r2⟩ := RL
        cases o2 with
        | error e => cases hok
        | ok rs =>
          simp only [dropList_st] at hst ⊢
          rw [hst, h1]
          rfl

/-- **`needed_eq_fresh`.** For a hash-consed, reduced importing manager and a file the
capacity-free importer accepts: `needed` = the number of nodes that entering the trees of all
file entries allocates — it depends on the store and on the entries' trees only. -/
theorem needed_eq_fresh (slm : List Nat) (nvars : Nat) (r : RSt) (d : Diagram)
    (hu : r.st.store.Unique) (hr : r.st.store.NoRed) (roots : List Refine.Edge)
    (hok : (importU complId slm nvars r d).1 = .ok roots) :
    neededImport complId slm nvars r d = freshAll r.st.store (diagramTrees slm nvars d) := by
  unfold neededImport freshAll
  rw [importU_store_eq slm nvars r d hu hr roots hok]

/-- **`import_oom_iff_fresh`.** The threshold in closed form: in a store within its capacity the
import of an acceptable file runs out of memory iff fewer slots are free than the trees of the
file's entries have inner sub-diagrams the manager does not hold. -/
theorem import_oom_iff_fresh (cap : Nat) (slm : List Nat) (nvars : Nat) (r : RSt) (d : Diagram)
    (hu : r.st.store.Unique) (hr : r.st.store.NoRed) (roots : List Refine.Edge)
    (hok : (importU complId slm nvars r d).1 = .ok roots) (hc : r.st.store.count ≤ cap) :
    (importCapped cap complId slm nvars r d).1 = .fail .oom ↔
      cap - r.st.store.count < freshAll r.st.store (diagramTrees slm nvars d) := by
  rw [import_oom_iff_needed_total complId_pure complId_total, needed_eq_fresh slm nvars r d hu hr roots hok]
  omega

/-- and success iff `freshAll ≤ free slots` -/
theorem import_success_iff_fresh (cap : Nat) (slm : List Nat) (nvars : Nat) (r : RSt) (d : Diagram)
    (hu : r.st.store.Unique) (hr : r.st.store.NoRed) (roots : List Refine.Edge)
    (hok : (importU complId slm nvars r d).1 = .ok roots) (hc : r.st.store.count ≤ cap) :
    (importCapped cap complId slm nvars r d).1 = .ok roots ↔
      freshAll r.st.store (diagramTrees slm nvars d) ≤ cap - r.st.store.count := by
  rw [import_success_iff_free complId_pure slm nvars r d cap hc roots hok,
    needed_eq_fresh slm nvars r d hu hr roots hok]

/-! ## non-vacuity -/

/-- the trees of `exFile`: `x1`, `x0 ∧ x1`, `x0 ∨ x1`; into the manager that holds `x1`:
`freshAll = 2` -/
example : diagramTrees [0, 1] 2 exFile =
      [.node 1 (.leaf true) (.leaf false),
       .node 0 (.node 1 (.leaf true) (.leaf false)) (.leaf false),
       .node 0 (.leaf true) (.node 1 (.leaf true) (.leaf false))] ∧
    freshAll exTgt.st.store (diagramTrees [0, 1] 2 exFile) = 2 ∧
    freshAll RSt.empty.st.store (diagramTrees [0, 1] 2 exFile) = 3 := by
  decide +kernel

/-- hypotheses of `import_oom_iff_fresh` discharged on `exTgt` -/
example : (importCapped 2 complId [0, 1] 2 exTgt exFile).1 = .fail .oom ↔
    2 - exTgt.st.store.count < freshAll exTgt.st.store (diagramTrees [0, 1] 2 exFile) :=
  import_oom_iff_fresh 2 [0, 1] 2 exTgt exFile (unique_of_uniqueB (by decide +kernel))
    (fun i n h => by
      have := checkSlots_sound (s := exTgt.st.store) (p := fun _ n => n.t != n.e) (by decide +kernel) i n h
      simpa using this)
    [.inner 1, .inner 2] (by decide +kernel) (by decide +kernel)

end OxiddModel.Dddmp.C14I
