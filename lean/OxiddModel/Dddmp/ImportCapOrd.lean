import OxiddModel.Dddmp.ImportCap
import OxiddModel.Bdd.PropertiesC05R

/-!
# A DDDMP import (failed or not) keeps the manager ordered and only extends the node table

Needed for the statement "after a failed import a collection leaves exactly what a collection
before the import leaves": `Manager::gc` sweeps the levels once from the top, which is exact only
for ordered stores (`C05R.gcR_exact`). The importer creates a node only after the level check of
`import_ascii` (`level >= child_level` ⇒ error), so every node it leaves behind — also the garbage
of a failed run — has its children on strictly larger levels.

* `importS_ord`: `RcInv r ext`, `OrdInv N r`, all levels of the level map `< N`, counter-only
  callback ⇒ `OrdInv N` of the state after `importS` (success or any failure) and `Store.Le`.
* `failure_clean_of`: the BDD version of the generic "(a)" lemma of the other kinds.
-/
namespace OxiddModel.Dddmp.ImportCap
open OxiddModel.Bdd OxiddModel.Bdd.BDD OxiddModel.Bdd.Refine OxiddModel.Bdd.Rc
open OxiddModel.Dddmp OxiddModel.Dddmp.StoreS

/-! ## the level check of the child loop -/

theorem childLoop_levels {compl : Compl} (hp : ComplPure compl) (nodeId level : Nat) (table : List Edge) :
    ∀ (cs : List Int) (r : RSt) (acc acc' : List Edge) (r' : RSt),
      childLoop compl nodeId level table r acc cs = (.ok acc', r') →
      ∀ x ∈ acc', x ∈ acc ∨ level < levelOfE r.st.store x := by
  intro cs
  induction cs with
  | nil =>
    intro r acc acc' r' h x hx
    simp only [childLoop] at h
    cases h
    exact .inl hx
  | cons c cs ih =>
    intro r acc acc' r' h x hx
    simp only [childLoop] at h
    split at h
    · cases h
    · split at h
      · cases h
      · rename_i y hy
        split at h
        · cases h
        · rename_i e r2 hcm
          have h2 : r2.st = r.st := by
            split at hcm
            · have := hp (cloneEdge r y) y
              rw [hcm] at this
              simp only [cloneEdge_st] at this
              exact this
            · cases hcm
              simp only [cloneEdge_st]
          split at h
          · cases h
          · rename_i hlv
            rcases ih r2 (acc ++ [e]) acc' r' h x hx with hm | hl
            · rcases List.mem_append.mp hm with hm | hm
              · exact .inl hm
              · right
                simp only [List.mem_singleton] at hm
                subst hm
                rw [h2] at hlv
                omega
            · right
              rw [h2] at hl
              exact hl

theorem above_of_level {s : Store} {x : Edge} {level : Nat} (hh : s.has x)
    (hl : level < levelOfE s x) : Above s (level + 1) x := by
  cases x with
  | term b => trivial
  | inner i =>
    obtain ⟨n, hn⟩ := hh
    simp only [levelOfE, hn] at hl
    exact ⟨n, hn, hl⟩

/-! ## the invariant through the node loop -/

theorem nodeStep_ord {cfg : ICfg} (hc : ComplOK cfg.compl) (hp : ComplPure cfg.compl) {N : Nat}
    (hslm : ∀ l ∈ cfg.slm, l < N) (supp : List Nat) (nodeId : Nat) (table : List Edge)
    (ext : List Edge) (hsub : ∀ y ∈ table, y ∈ ext) (r : RSt) (n : SNode) (h : RcInv r ext)
    (ho : OrdInv N r) :
    OrdInv N (nodeStep cfg supp nodeId table r n).2 ∧
      r.st.store.Le (nodeStep cfg supp nodeId table r n).2.st.store := by
  unfold nodeStep
  split
  · exact ⟨ho, Store.Le.refl _⟩
  · split
    · split
      · exact ⟨ho, Store.Le.refl _⟩
      · exact ⟨ho, Store.Le.refl _⟩
    · split
      · exact ⟨ho, Store.Le.refl _⟩
      · rename_i level hlev
        have hlN : level < N := hslm level (List.mem_of_getElem? hlev)
        have hl := childLoop_rc hc nodeId level table ext hsub n.children r [] h
        have hst := childLoop_st hp nodeId level table n.children r []
        have hlv := childLoop_levels hp nodeId level table n.children r []
        generalize childLoop cfg.compl nodeId level table r [] n.children = R at hl hst hlv
        obtain ⟨o, r'⟩ := R
        simp only at hst
        have ho' : OrdInv N r' := ho.of_st hst
        have hle' : r.st.store.Le r'.st.store := by rw [hst]; exact Store.Le.refl _
        cases o with
        | error e => exact ⟨ho', hle'⟩
        | ok cs =>
          simp only [StepPost] at hl
          have hlv' := hlv cs r' rfl
          match cs, hl, hlv' with
          | [t, e], hl, hlv' =>
            simp only
            have hrc : RcInv r' (t :: e :: ext) := hl
            have ht : Above r'.st.store (level + 1) t := by
              apply above_of_level (hrc.ext_ok t (by simp))
              rcases hlv' t (by simp) with hm | hl
              · cases hm
              · rw [hst]; exact hl
            have he : Above r'.st.store (level + 1) e := by
              apply above_of_level (hrc.ext_ok e (by simp))
              rcases hlv' e (by simp) with hm | hl
              · cases hm
              · rw [hst]; exact hl
            have hord := mkNodeR_ord (cap := cfg.cap) hrc ho' hlN ht he
            have hle := mkNodeR_le cfg.cap r' level t e
            generalize mkNodeR cfg.cap r' level t e = M at hord hle
            obtain ⟨o2, r''⟩ := M
            cases o2 with
            | some x => exact ⟨hord.1, Store.Le.trans hle' hle⟩
            | none => exact ⟨hord.1, Store.Le.trans hle' hle⟩
          | [], _, _ => exact ⟨ho'.of_st (dropList_st _ _), by simp only [dropList_st]; exact hle'⟩
          | [_], _, _ => exact ⟨ho'.of_st (dropList_st _ _), by simp only [dropList_st]; exact hle'⟩
          | _ :: _ :: _ :: _, _, _ =>
            exact ⟨ho'.of_st (dropList_st _ _), by simp only [dropList_st]; exact hle'⟩

theorem nodeLoop_ord {cfg : ICfg} (hc : ComplOK cfg.compl) (hp : ComplPure cfg.compl) {N : Nat}
    (hslm : ∀ l ∈ cfg.slm, l < N) (supp : List Nat) (ext : List Edge) :
    ∀ (ns : List SNode) (r : RSt) (table : List Edge), RcInv r (table ++ ext) → OrdInv N r →
      OrdInv N (nodeLoop cfg supp r table ns).2 ∧ r.st.store.Le (nodeLoop cfg supp r table ns).2.st.store := by
  intro ns
  induction ns with
  | nil => intro r table _ ho; exact ⟨ho, Store.Le.refl _⟩
  | cons n ns ih =>
    intro r table h ho
    simp only [nodeLoop]
    have hs := nodeStep_rc hc supp (table.length + 1) table (table ++ ext)
      (fun y hy => List.mem_append_left _ hy) r n h
    have hord := nodeStep_ord hc hp hslm supp (table.length + 1) table (table ++ ext)
      (fun y hy => List.mem_append_left _ hy) r n h ho
    generalize nodeStep cfg supp (table.length + 1) table r n = R at hs hord
    obtain ⟨o, r'⟩ := R
    cases o with
    | error e => exact ⟨hord.1.of_st (dropList_st _ _), by simp only [dropList_st]; exact hord.2⟩
    | ok x =>
      simp only [StepPost] at hs
      have := ih r' (table ++ [x]) (rcinv_perm hs (by
        simp only [List.append_assoc, List.singleton_append]
        exact List.perm_middle.symm)) hord.1
      exact ⟨this.1, Store.Le.trans hord.2 this.2⟩

/-- **every import — successful, malformed file, or out of memory — keeps the store ordered with
levels `< N` and only extends it** -/
theorem importS_ord {cfg : ICfg} (hc : ComplOK cfg.compl) (hp : ComplPure cfg.compl) {N : Nat}
    (hslm : ∀ l ∈ cfg.slm, l < N) (nvars : Nat) (r : RSt) (d : Diagram) (ext : List Edge)
    (h : RcInv r ext) (ho : OrdInv N r) :
    OrdInv N (importS cfg nvars r d).2 ∧ r.st.store.Le (importS cfg nvars r d).2.st.store := by
  unfold importS
  split
  · exact ⟨ho, Store.Le.refl _⟩
  · cases ht : termLoop d.terms with
    | error e => exact ⟨ho, Store.Le.refl _⟩
    | ok tt =>
      simp only
      have h0 : RcInv r (tt ++ ext) := rcinv_add_terms h tt (termLoop_terms _ _ ht)
      have hn := nodeLoop_ord hc hp hslm (suppLevels nvars d.nodes) ext d.nodes r tt h0 ho
      generalize nodeLoop cfg (suppLevels nvars d.nodes) r tt d.nodes = R at hn
      obtain ⟨o, r'⟩ := R
      cases o with
      | error e => exact hn
      | ok table =>
        simp only
        have hst := rootLoop_st hp table d.roots r' []
        generalize rootLoop cfg.compl table r' [] d.roots = R2 at hst
        obtain ⟨o2, r''⟩ := R2
        simp only at hst hn
        have h2 : (dropList r'' table).st = r'.st := by rw [dropList_st, hst]
        cases o2 with
        | error e => exact ⟨hn.1.of_st h2, by simp only [h2]; exact hn.2⟩
        | ok roots => exact ⟨hn.1.of_st h2, by simp only [h2]; exact hn.2⟩

/-! ## the generic "(a)" lemma for the BDD counter store -/

theorem reach_has {r : RSt} {ext : List Edge} (h : RcInv r ext) {i : Nat}
    (hr : Reach r.st.store ext i) : r.st.store.has (.inner i) := by
  induction hr with
  | root hm => exact h.ext_ok _ hm
  | kid _ hp hch ih =>
    obtain ⟨a, b⟩ := h.kids_ok _ _ hp
    rcases hch with hch | hch
    · rw [hch] at a; exact a
    · rw [hch] at b; exact b

theorem reach_le_iff {r : RSt} {ext : List Edge} (h : RcInv r ext) {s' : Store}
    (hle : r.st.store.Le s') (i : Nat) : Reach s' ext i ↔ Reach r.st.store ext i := by
  constructor
  · intro hr
    induction hr with
    | root hm => exact .root hm
    | kid _ hp hch ih =>
      obtain ⟨n0, hn0⟩ := reach_has h ih
      have := hle _ _ hn0
      rw [this] at hp
      cases hp
      exact .kid ih hn0 hch
  · intro hr
    induction hr with
    | root hm => exact .root hm
    | kid _ hp hch ih => exact .kid ih (hle _ _ hp) hch

/-- a failed call that keeps `RcInv` for the same references, only extends the store and keeps it
ordered: a collection afterwards leaves slot by slot the store a collection before the call
leaves, which is exactly the part reachable from the caller's references -/
theorem failure_clean_of {N : Nat} {r r' : RSt} {ext : List Edge}
    (hi : RcInv r ext) (hord0 : OrdInv N r) (hinv : RcInv r' ext) (hle : r.st.store.Le r'.st.store)
    (hord : OrdInv N r') :
    RcInv (gcR N r') ext ∧ RcInv (gcR N r) ext ∧
    (∀ i, (∃ n, (gcR N r').st.store.get? i = some n) ↔ Reach r.st.store ext i) ∧
    (∀ i, (gcR N r').st.store.get? i = (gcR N r).st.store.get? i) := by
  obtain ⟨g1, g2, g3, _⟩ := C05R.gcR_exact N r' ext hinv hord.ord hord.bound
  obtain ⟨k1, k2, k3, _⟩ := C05R.gcR_exact N r ext hi hord0.ord hord0.bound
  have key : ∀ i, (∃ n, (gcR N r').st.store.get? i = some n) ↔ Reach r.st.store ext i :=
    fun i => (g2 i).trans (reach_le_iff hi hle _)
  have heq : ∀ i, (gcR N r').st.store.get? i = (gcR N r).st.store.get? i := by
    intro i
    by_cases hr : Reach r.st.store ext i
    · obtain ⟨n, hn⟩ := (k2 i).mpr hr
      have hn0 := k3 i n hn
      obtain ⟨m, hm⟩ := (key i).mpr hr
      have a := g3 i m hm
      have b := hle i n hn0
      rw [b] at a
      cases a
      rw [hm, hn]
    · have a : (gcR N r).st.store.get? i = none := by
        cases h : (gcR N r).st.store.get? i with
        | none => rfl
        | some n => exact absurd ((k2 i).mp ⟨n, h⟩) hr
      have b : (gcR N r').st.store.get? i = none := by
        cases h : (gcR N r').st.store.get? i with
        | none => rfl
        | some n => exact absurd ((key i).mp ⟨n, h⟩) hr
      rw [a, b]
  exact ⟨g1, k1, key, heq⟩

end OxiddModel.Dddmp.ImportCap
